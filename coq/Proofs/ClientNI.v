(* Non-interference of Model/Client.v (C05_noninterference): every API return
   of call c is justified by the envelopes c itself took from its queue (which
   carry c's id and were routed to c: ClientLog / ClientRoute), by c's own
   context, or by the connection-wide read failure; nothing else. *)
From Coq Require Import List ZArith Bool Lia Arith.
Import ListNotations.
From Goat Require Import Model.Client Proofs.ClientBase Proofs.ClientInv Proofs.ClientLog Proofs.ClientRoute Proofs.ClientProps Proofs.ClientAfter.
Open Scope Z_scope.

Definition hdr_of (e : env) : mdv := match ehdr e with Some m => m | None => MdOk 0 end.
Definition bad_hdr (e : env) : bool := match ehdr e with Some MdBad => true | _ => false end.
(* the error is what envelope e says: its terminal status / reset, or its undecodable header metadata *)
Definition from_env (x : cerr) (e : env) : Prop := final_of e = Some x \/ (x = EBadMd /\ bad_hdr e = true).

(* where an error returned to call c (record k) may come from *)
Definition jerr (s : state) (c : nat) (k : call) (x : cerr) : Prop :=
  match x with
  | ECanceled | EDeadline | ERawCanceled | ERawDeadline => sctx_done k = true      (* c's own context *)
  | EConn => rerr s = true                                                         (* the connection's read failure *)
  | EClosed | EWrite | EUnmarshal => True          (* c's own unregistration / transport write / message *)
  | _ => exists e, In e (taken c (log s)) /\ from_env x e                          (* an envelope c took *)
  end.

Definition is_nonresp (x : cerr) : bool :=
  match x with EConn | EClosed | ERawCanceled | ERawDeadline | EWrite => true | _ => false end.

Definition junary (s : state) (c : nat) (k : call) (r : ures) : Prop :=
  (exists x, r = UErr x /\ is_nonresp x = true /\ jerr s c k x) \/
  (exists e, hd_error (taken c (log s)) = Some e /\ r = classify e).

Definition jlatch (s : state) (c : nat) (k : call) (v : mdv + cerr) : Prop :=
  match v with
  | inl m => exists e, hd_error (taken c (log s)) = Some e /\ m = hdr_of e
  | inr x => jerr s c k x
  end.

Definition jtrl (s : state) (c : nat) (t : mdv) : Prop := exists e, In e (taken c (log s)) /\ etrl e = Some t.

Definition nev_ok (s : state) (ev : cev) : Prop :=
  match ev with
  | EvUnaryRet c r => forall k, nth_error (calls s) c = Some k -> junary s c k r
  | EvRecvRet c (RErr x) | EvSendRet c (Some x) | EvCloseSendRet c (Some x) | EvOpenRet c (Some x) =>
      forall k, nth_error (calls s) c = Some k -> jerr s c k x
  | EvHeaderRet c v => forall k, nth_error (calls s) c = Some k -> jlatch s c k v
  | EvTrailerRet c (Some t) => jtrl s c (MdOk t)
  | _ => True
  end.

Definition pc_pre (p : cpc) : bool := match p with PCheck _ | PParked | PReg | PWait => true | _ => false end.

Record kn (s : state) (c : nat) (k : call) : Prop := mkKn {
  kn_pre : k_unary k = true -> pc_pre (k_pc k) = true -> taken c (log s) = [];
  kn_unreg : forall r, k_pc k = PUnreg r -> junary s c k r;
  kn_ounreg : forall x, k_pc k = POpenUnreg x -> jerr s c k x;
  kn_lrerr : forall x, l_rerr k = Some x -> jerr s c k x;
  kn_ltrl : forall t, l_trl k = Some t -> jtrl s c t;
  kn_srerr : forall x, s_rerr k = Some x -> jerr s c k x;
  kn_strl : forall t, s_trl k = Some t -> jtrl s c t;
  kn_latch : forall v, s_latch k = Some v -> jlatch s c k v;
  kn_nolatch : k_unary k = false -> s_latch k = None -> taken c (log s) = [] }.

Record ninv (s : state) : Prop := mkNinv {
  ni_ev : forall ev, In ev (log s) -> nev_ok s ev;
  ni_call : forall c k, nth_error (calls s) c = Some k -> kn s c k }.

Lemma ninv_init : ninv init.
Proof.
  constructor; simpl; intros; try tauto.
  destruct c; discriminate.
Qed.

(* ---------- monotonicity ---------- *)
Definition extends (s s' : state) (c : nat) (k k' : call) : Prop :=
  (exists evs, log s' = log s ++ evs) /\ (rerr s = true -> rerr s' = true) /\ (sctx_done k = true -> sctx_done k' = true).

Lemma hd_app {A} (l l' : list A) x : hd_error l = Some x -> hd_error (l ++ l') = Some x.
Proof. destruct l; simpl; auto; discriminate. Qed.

Lemma jerr_mono s s' c k k' x : extends s s' c k k' -> jerr s c k x -> jerr s' c k' x.
Proof.
  intros ((evs & Hl) & Hr & Hc) H. destruct x; simpl in *; auto;
    try (destruct H as (e & Hin & Hf); exists e; split; auto; rewrite Hl, taken_app; apply in_or_app; auto).
Qed.

Lemma junary_mono s s' c k k' r : extends s s' c k k' -> junary s c k r -> junary s' c k' r.
Proof.
  intros E [(x & A & B & C)|(e & A & B)].
  - left. exists x. repeat split; auto. eapply jerr_mono; eauto.
  - right. exists e. split; auto. destruct E as ((evs & Hl) & _). rewrite Hl, taken_app. apply hd_app; auto.
Qed.

Lemma jlatch_mono s s' c k k' v : extends s s' c k k' -> jlatch s c k v -> jlatch s' c k' v.
Proof.
  intros E H. destruct v; simpl in *.
  - destruct H as (e & A & B). exists e. split; auto. destruct E as ((evs & Hl) & _). rewrite Hl, taken_app. apply hd_app; auto.
  - eapply jerr_mono; eauto.
Qed.

Lemma jtrl_mono s s' c t : (exists evs, log s' = log s ++ evs) -> jtrl s c t -> jtrl s' c t.
Proof. intros (evs & Hl) (e & A & B). exists e. split; auto. rewrite Hl, taken_app. apply in_or_app; auto. Qed.

Lemma kn_mono s s' c k : extends s s' c k k -> (forall evs, log s' = log s ++ evs -> taken c evs = []) -> kn s c k -> kn s' c k.
Proof.
  intros E Ht [K1 K2 K3 K4 K5 K6 K7 K8 K9]. pose proof E as ((evs & Hl) & _).
  assert (Htk : taken c (log s') = taken c (log s)) by (rewrite Hl, taken_app, (Ht _ Hl), app_nil_r; auto).
  constructor; intros; rewrite ?Htk; eauto using jerr_mono, junary_mono, jlatch_mono, jtrl_mono.
Qed.

(* one call updated by one of its own rules *)
Lemma ninv_upd s s' c k k' evs :
  ninv s -> nth_error (calls s) c = Some k -> calls s' = upd c k' (calls s) -> log s' = log s ++ evs -> rerr s' = rerr s ->
  (forall c', c' <> c -> taken c' evs = []) ->
  (sctx_done k = true -> sctx_done k' = true) ->
  k_unary k' = k_unary k ->
  (forall ev, In ev evs -> nev_ok s' ev) ->
  (k_unary k' = true -> pc_pre (k_pc k') = true -> pc_pre (k_pc k) = true /\ taken c evs = []) ->
  (forall r, k_pc k' = PUnreg r -> k_pc k = PUnreg r \/ junary s' c k' r) ->
  (forall x, k_pc k' = POpenUnreg x -> k_pc k = POpenUnreg x \/ jerr s' c k' x) ->
  (forall x, l_rerr k' = Some x -> l_rerr k = Some x \/ jerr s' c k' x) ->
  (forall t, l_trl k' = Some t -> l_trl k = Some t \/ jtrl s' c t) ->
  (forall x, s_rerr k' = Some x -> s_rerr k = Some x \/ jerr s' c k' x) ->
  (forall t, s_trl k' = Some t -> s_trl k = Some t \/ jtrl s' c t) ->
  (forall v, s_latch k' = Some v -> s_latch k = Some v \/ jlatch s' c k' v) ->
  (k_unary k' = false -> s_latch k' = None -> s_latch k = None /\ taken c evs = []) ->
  ninv s'.
Proof.
  intros [N1 N2] Hn Hc Hl Hre Hoth Hctx Hun Hev P1 P2 P3 P4 P5 P6 P7 P8 P9.
  assert (Ex : extends s s' c k k') by (split; [eauto|split; [congruence|auto]]).
  assert (Exo : forall c0 k0, extends s s' c0 k0 k0) by (intros; split; [eauto|split; [congruence|auto]]).
  pose proof (N2 _ _ Hn) as [K1 K2 K3 K4 K5 K6 K7 K8 K9].
  constructor.
  - intros ev Hin. rewrite Hl in Hin. apply in_app_or in Hin. destruct Hin as [Hin|Hin]; auto.
    specialize (N1 _ Hin). destruct ev; simpl in *; auto.
    + intros k0 H0. rewrite Hc in H0. apply nth_upd_inv in H0. destruct H0 as [[-> ->]|[_ H0]];
        eauto using junary_mono.
    + destruct r; auto. intros k0 H0. rewrite Hc in H0. apply nth_upd_inv in H0. destruct H0 as [[-> ->]|[_ H0]];
        eauto using jerr_mono.
    + destruct r; auto. intros k0 H0. rewrite Hc in H0. apply nth_upd_inv in H0. destruct H0 as [[-> ->]|[_ H0]];
        eauto using jerr_mono.
    + destruct r; auto. intros k0 H0. rewrite Hc in H0. apply nth_upd_inv in H0. destruct H0 as [[-> ->]|[_ H0]];
        eauto using jerr_mono.
    + destruct r; auto. intros k0 H0. rewrite Hc in H0. apply nth_upd_inv in H0. destruct H0 as [[-> ->]|[_ H0]];
        eauto using jerr_mono.
    + intros k0 H0. rewrite Hc in H0. apply nth_upd_inv in H0. destruct H0 as [[-> ->]|[_ H0]];
        eauto using jlatch_mono.
    + destruct r; auto. eapply jtrl_mono; eauto.
  - intros c0 k0 H0. rewrite Hc in H0. apply nth_upd_inv in H0. destruct H0 as [[-> ->]|[Hne H0]].
    + assert (Htk : taken c evs = [] -> taken c (log s') = taken c (log s)) by (intros Ht; rewrite Hl, taken_app, Ht, app_nil_r; auto).
      constructor.
      * intros A B. destruct (P1 A B) as [B' T]. rewrite Htk; auto. apply K1; congruence.
      * intros r A. destruct (P2 _ A) as [A'|]; auto. eapply junary_mono; eauto.
      * intros x A. destruct (P3 _ A) as [A'|]; auto. eapply jerr_mono; eauto.
      * intros x A. destruct (P4 _ A) as [A'|]; auto. eapply jerr_mono; eauto.
      * intros t A. destruct (P5 _ A) as [A'|]; auto. eapply jtrl_mono; eauto.
      * intros x A. destruct (P6 _ A) as [A'|]; auto. eapply jerr_mono; eauto.
      * intros t A. destruct (P7 _ A) as [A'|]; auto. eapply jtrl_mono; eauto.
      * intros v A. destruct (P8 _ A) as [A'|]; auto. eapply jlatch_mono; eauto.
      * intros A B. destruct (P9 A B) as [B' T]. rewrite Htk; auto. apply K9; congruence.
    + eapply kn_mono; eauto. intros evs' Hl'. rewrite Hl in Hl'. apply app_inv_head in Hl'. subst evs'. auto.
Qed.

Definition same_fields (k k' : call) : Prop :=
  k_unary k' = k_unary k /\ k_pc k' = k_pc k /\ l_rerr k' = l_rerr k /\ l_trl k' = l_trl k /\ s_rerr k' = s_rerr k /\
  s_trl k' = s_trl k /\ s_latch k' = s_latch k /\ (sctx_done k = true -> sctx_done k' = true).

Lemma same_fields_refl k : same_fields k k.
Proof. repeat split; auto. Qed.

Lemma kn_same s s' c k k' :
  extends s s' c k k' -> taken c (log s') = taken c (log s) -> same_fields k k' -> kn s c k -> kn s' c k'.
Proof.
  intros E Htk (F1 & F2 & F3 & F4 & F5 & F6 & F7 & F8) [K1 K2 K3 K4 K5 K6 K7 K8 K9].
  pose proof E as (Hl & _).
  constructor; rewrite ?F1, ?F2, ?F3, ?F4, ?F5, ?F6, ?F7, ?Htk; intros;
    eauto using jerr_mono, junary_mono, jlatch_mono, jtrl_mono.
Qed.

(* a step that touches none of the fields the returns are computed from, and takes nothing *)
Lemma ninv_frame s s' evs :
  ninv s -> log s' = log s ++ evs -> (rerr s = true -> rerr s' = true) -> (forall c, taken c evs = []) ->
  (forall ev, In ev evs -> nev_ok s' ev) ->
  (forall c k', nth_error (calls s') c = Some k' -> exists k, nth_error (calls s) c = Some k /\ same_fields k k') ->
  ninv s'.
Proof.
  intros [N1 N2] Hl Hre Ht Hev Hf.
  assert (Htk : forall c, taken c (log s') = taken c (log s)) by (intros; rewrite Hl, taken_app, Ht, app_nil_r; auto).
  assert (Hx : forall c k', nth_error (calls s') c = Some k' -> exists k, nth_error (calls s) c = Some k /\ extends s s' c k k' /\ same_fields k k').
  { intros c k' Hn. destruct (Hf _ _ Hn) as (k & Hk & F). exists k. split; auto. split; auto.
    split; [eauto|split; auto]. apply F. }
  constructor.
  - intros ev Hin. rewrite Hl in Hin. apply in_app_or in Hin. destruct Hin as [Hin|Hin]; auto.
    specialize (N1 _ Hin). destruct ev; simpl in *; auto.
    + intros k' Hn. destruct (Hx _ _ Hn) as (k & Hk & E & _). eauto using junary_mono.
    + destruct r; auto. intros k' Hn. destruct (Hx _ _ Hn) as (k & Hk & E & _). eauto using jerr_mono.
    + destruct r; auto. intros k' Hn. destruct (Hx _ _ Hn) as (k & Hk & E & _). eauto using jerr_mono.
    + destruct r; auto. intros k' Hn. destruct (Hx _ _ Hn) as (k & Hk & E & _). eauto using jerr_mono.
    + destruct r; auto. intros k' Hn. destruct (Hx _ _ Hn) as (k & Hk & E & _). eauto using jerr_mono.
    + intros k' Hn. destruct (Hx _ _ Hn) as (k & Hk & E & _). eauto using jlatch_mono.
    + destruct r; auto. eapply jtrl_mono; eauto.
  - intros c k' Hn. destruct (Hx _ _ Hn) as (k & Hk & E & F). eapply kn_same; eauto.
Qed.

Lemma ninv_new s s' k0 :
  binv s -> rinv s -> ninv s -> calls s' = calls s ++ [k0] -> log s' = log s -> rerr s' = rerr s ->
  pc_pre (k_pc k0) = true -> l_rerr k0 = None -> l_trl k0 = None -> s_rerr k0 = None -> s_trl k0 = None -> s_latch k0 = None ->
  ninv s'.
Proof.
  intros HB HR [N1 N2] Hc Hl Hre P A B C D E.
  assert (Ex : forall c k, extends s s' c k k) by (intros; split; [exists []; rewrite app_nil_r; auto|split; [congruence|auto]]).
  constructor.
  - intros ev Hin. rewrite Hl in Hin. pose proof (HB _ Hin) as Hb. specialize (N1 _ Hin).
    assert (Hold : forall c k, (c < length (calls s))%nat -> nth_error (calls s') c = Some k -> nth_error (calls s) c = Some k).
    { intros c k Hlt Hn. rewrite Hc, nth_error_app1 in Hn; auto. }
    destruct ev; simpl in *; auto.
    + intros k Hn. eapply junary_mono; eauto.
    + destruct r; auto. intros k Hn. eapply jerr_mono; eauto.
    + destruct r; auto. intros k Hn. eapply jerr_mono; eauto.
    + destruct r; auto. intros k Hn. eapply jerr_mono; eauto.
    + destruct r; auto. intros k Hn. eapply jerr_mono; eauto.
    + intros k Hn. eapply jlatch_mono; eauto.
    + destruct r; auto. eapply jtrl_mono; eauto. exists []. rewrite app_nil_r; auto.
  - intros c k Hn. rewrite Hc in Hn. apply nth_app_cases in Hn. destruct Hn as [[Hn _]|[-> ->]].
    + eapply kn_same; eauto using same_fields_refl. rewrite Hl; auto.
    + destruct (ri_beyond _ HR (length (calls s)) (le_n _)) as (_ & T & _).
      constructor; rewrite ?A, ?B, ?C, ?D, ?E, ?Hl; intros; auto; try discriminate;
        destruct (k_pc k0); discriminate.
Qed.

Lemma ninv_with_call s c f :
  ninv s ->
  (forall k k', f k = Some k' -> same_fields k k') -> ninv (with_call s c f).
Proof.
  intros HN Hf. unfold with_call. destruct (nth_error (calls s) c) eqn:E; auto. destruct (f c0) eqn:Ef; auto.
  destruct (Hf _ _ Ef) as (F1 & F2 & F3 & F4 & F5 & F6 & F7 & F8).
  apply (ninv_upd s (set_call s c c1) c c0 c1 [] HN E); csimpl; auto; try (simpl; tauto);
    rewrite ?F1, ?F2, ?F3, ?F4, ?F5, ?F6, ?F7; auto.
  rewrite app_nil_r; auto.
Qed.

Ltac nwc k := apply ninv_with_call; auto; intros k k' H;
  repeat match type of H with
         | match ?x with _ => _ end = Some _ => destruct x eqn:?; try discriminate H
         end; inversion H; subst k'; clear H; unfold same_fields; csimpl; repeat split; auto.

Lemma ninv_ext s a : binv s -> rinv s -> ninv s -> ninv (ext s a).
Proof.
  intros HB HR HN. destruct a; simpl; try solve [nwc k].
  - eapply ninv_new; eauto; reflexivity.
  - eapply ninv_new; eauto; reflexivity.
  - destruct (nth_error (calls s) c) eqn:E; auto. destruct (k_pc c0) eqn:Ep; auto.
    match goal with |- ninv ?s' => apply (ninv_upd s s' c c0 (set_id (set_pc c0 PReg) (counter s + 1)) [] HN E) end; csimpl; auto;
      try (simpl; tauto); try (intros; discriminate).
    + rewrite app_nil_r; auto.
    + intros _ _. rewrite Ep. auto.
  - nwc k; intros _; apply orb_true_r.
  - nwc k; intros _; apply orb_true_r.
  - eapply (ninv_frame s _ [] HN); csimpl; eauto using same_fields_refl. rewrite app_nil_r; auto. simpl; tauto.
  - eapply (ninv_frame s _ [] HN); csimpl; eauto using same_fields_refl. rewrite app_nil_r; auto. simpl; tauto.
  - eapply (ninv_frame s _ [] HN); csimpl; eauto using same_fields_refl. rewrite app_nil_r; auto. simpl; tauto.
Qed.

Ltac nupd HN :=
  match goal with
  | E : nth_error (calls ?s) ?c = Some ?k |- ninv ?s' =>
      let cs := eval cbn [calls set_call add_log] in (calls s') in
      let k' := match cs with upd _ ?x _ => x end in
      eapply (ninv_upd s s' c k k' _ HN E); csimpl;
      [ reflexivity
      | first [ reflexivity | symmetry; apply app_nil_r | rewrite <- app_assoc; reflexivity ]
      | first [ reflexivity | congruence ]
      | let cc := fresh "cc" in let Hcc := fresh "Hcc" in
        intros cc Hcc; simpl; first [reflexivity | destruct (Nat.eqb_spec c cc); [congruence | reflexivity]]
      | try (intros Hd; rewrite ?Hd, ?orb_true_r; auto; fail); auto
      | try reflexivity
      | simpl; intros evv Hin; repeat (destruct Hin as [<-|Hin]; [simpl|]); try (destruct Hin); try exact I
      | intros Hu Hp; try discriminate Hp; try (split; [assumption || (rewrite ?Hp; reflexivity) | reflexivity])
      | intros rr Hrr; try discriminate Hrr; try (left; assumption)
      | intros xx Hxx; try discriminate Hxx; try (left; assumption)
      | intros xx Hxx; try discriminate Hxx; try (left; assumption)
      | intros tt Htt; try discriminate Htt; try (left; assumption)
      | intros xx Hxx; try discriminate Hxx; try (left; assumption)
      | intros tt Htt; try discriminate Htt; try (left; assumption)
      | intros vv Hvv; try discriminate Hvv; try (left; assumption)
      | intros Hu Hla; try discriminate Hla; try (split; [assumption | reflexivity]) ]
  end.

Lemma final_cases e x : final_of e = Some x -> x = EReset \/ x = EEof \/ exists st, x = EStatus st.
Proof.
  unfold final_of. destruct (erst e). intros H; inversion H; auto.
  destruct (etrl e); try discriminate. destruct (estatus e) as [st|].
  - destruct (st_code st =? 0); intros H; inversion H; eauto.
  - intros H; inversion H; auto.
Qed.

Lemma jerr_env s c k x e : In e (taken c (log s)) -> from_env x e -> jerr s c k x.
Proof.
  intros Hin [Hf|[-> Hb]].
  - destruct (final_cases _ _ Hf) as [->|[->|(st & ->)]]; simpl; exists e; split; auto; left; auto.
  - simpl. exists e. split; auto. right; auto.
Qed.

Lemma in_taken_snoc c e l : In e (taken c (l ++ [EvTake c e])).
Proof. rewrite taken_app. apply in_or_app. right. simpl. rewrite Nat.eqb_refl. simpl; auto. Qed.

Lemma hd_taken_snoc c e l : taken c l = [] -> hd_error (taken c (l ++ [EvTake c e])) = Some e.
Proof. intros H. rewrite taken_app, H. simpl. rewrite Nat.eqb_refl. reflexivity. Qed.

Lemma jerr_ctx_status s c k k0 : k_ctx k0 = k_ctx k -> sctx_done k = true -> jerr s c k (ctx_status k0).
Proof. intros _ H. unfold ctx_status. destruct (k_ctx k0); simpl; auto. Qed.

Lemma jerr_ctx_raw s c k k0 : k_ctx k0 = k_ctx k -> sctx_done k = true -> jerr s c k (ctx_raw k0).
Proof. intros _ H. unfold ctx_raw. destruct (k_ctx k0); simpl; auto. Qed.

Lemma nonresp_ctx_raw k : is_nonresp (ctx_raw k) = true.
Proof. unfold ctx_raw. destruct (k_ctx k); auto. Qed.

Lemma sctx_of_ctx k : ctx_done (k_ctx k) = true -> sctx_done k = true.
Proof. intros H. unfold sctx_done. rewrite H. apply orb_true_r. Qed.

Ltac nth_self :=
  let k0 := fresh "k0" in let Hk0 := fresh "Hk0" in
  intros k0 Hk0; rewrite nth_upd_eq in Hk0 by eauto using nth_some_lt; inversion Hk0; subst k0; clear Hk0.

Ltac kregs :=
  repeat match goal with
         | |- context [if k_reg ?x then _ else _] => destruct (k_reg x) eqn:?; csimpl
         | H : context [if k_reg ?x then _ else _] |- _ => destruct (k_reg x) eqn:?; csimpl
         end.

(* the goals [nupd] leaves, closed from the call's own invariants *)
Ltac nfin HI HN :=
  match goal with
  | E : nth_error (calls ?s) ?c = Some ?k |- _ =>
      let K := fresh "K" in let KN := fresh "KN" in
      pose proof (cinv_call _ _ _ HI E) as K; pose proof (ni_call _ HN _ _ E) as KN;
      try nth_self; kregs;
      try solve
        [ left; assumption
        | left; reflexivity
        | reflexivity
        | auto
        | intros Hd; unfold sctx_done in *; csimpl; rewrite ?orb_true_r; auto with bool
        | (* P1: a unary call before its result *)
          split; [ first [assumption | repeat match goal with Ep : k_pc k = _ |- _ => rewrite Ep end; reflexivity] | simpl; reflexivity ]
        | (* P9 *)
          split; [ assumption | simpl; reflexivity ]
        | match goal with Hla : match s_latch k with _ => _ end = None |- _ => destruct (s_latch k); discriminate Hla end
        | (* a stream loop / stream operation runs only on an opened stream: not a unary call before its result *)
          exfalso;
          assert (Hop : k_pc k = POpen) by
            first [ apply (ki_loop_open _ K); unfold loop_alive; match goal with El : s_loop k = _ |- _ => rewrite El end; reflexivity
                  | apply (ki_ops_open _ K); unfold ops_pending, recv_pending, header_pending, send_pending, trailer_pending;
                    repeat match goal with Ex : ?f k = _ |- _ => rewrite Ex end; simpl; rewrite ?orb_true_r; reflexivity ];
          match goal with
          | Hp : pc_pre (k_pc k) = true |- _ => rewrite Hop in Hp; discriminate Hp
          | Hu : k_unary k = true |- _ => pose proof (ki_kind _ K) as Hk; rewrite Hu, Hop in Hk; discriminate Hk
          end
        | (* a unary call waiting for its reply is not a stream *)
          exfalso; match goal with Hu : k_unary k = false, Ep : k_pc k = _ |- _ =>
            pose proof (ki_kind _ K) as Hk; rewrite Hu, Ep in Hk; discriminate Hk end ]
  end.

Lemma unary_wait k : kinv k -> k_pc k = PWait -> k_unary k = true.
Proof. intros K Hp. pose proof (ki_kind _ K) as Hk. rewrite Hp in Hk. destruct (k_unary k); auto; discriminate. Qed.

Lemma stream_loop k : kinv k -> loop_alive k = true -> k_unary k = false.
Proof.
  intros K Hl. pose proof (ki_kind _ K) as Hk. rewrite (ki_loop_open _ K Hl) in Hk. destruct (k_unary k); auto; discriminate.
Qed.

Lemma bad_of_cond (la : option (mdv + cerr)) e :
  match la with None => match ehdr e with Some MdBad => true | _ => false end | Some _ => false end = true ->
  la = None /\ bad_hdr e = true.
Proof. destruct la; try discriminate. unfold bad_hdr. destruct (ehdr e) as [[|]|]; try discriminate. auto. Qed.

Ltac sctx_tac :=
  unfold sctx_done in *; csimpl; rewrite ?orb_true_r; auto with bool;
  try match goal with
      | H : ?a = true |- ?a || _ = true => rewrite H; reflexivity
      | H : ?b = true |- _ || ?b = true => rewrite H; apply orb_true_r
      end.

Ltac ext_tac :=
  split; [ eexists; csimpl; first [reflexivity | symmetry; apply app_nil_r | rewrite <- app_assoc; reflexivity]
         | split; [ csimpl; auto | csimpl; let Hd := fresh "Hd" in intros Hd; sctx_tac ] ].

Ltac nfin2 HI HN :=
  match goal with
  | E : nth_error (calls ?s) ?c = Some ?k |- _ =>
      let K := fresh "K" in let KN := fresh "KN" in
      pose proof (cinv_call _ _ _ HI E) as K; pose proof (ni_call _ HN _ _ E) as KN;
      try nth_self; kregs;
      repeat match goal with
             | H : PUnreg _ = PUnreg _ |- _ => inversion H; subst; clear H
             | H : POpenUnreg _ = POpenUnreg _ |- _ => inversion H; subst; clear H
             | H : Some _ = Some _ |- _ => inversion H; subst; clear H
             end;
      try solve
        [ (* connection error *)
          left; exists EConn; repeat split; auto
        | (* old facts of the call, carried over *)
          eapply junary_mono; [ | eapply (kn_unreg _ _ _ KN); eauto ]; ext_tac
        | eapply jerr_mono; [ | first [eapply (kn_ounreg _ _ _ KN) | eapply (kn_lrerr _ _ _ KN) | eapply (kn_srerr _ _ _ KN)]; eauto ]; ext_tac
        | right; eapply jerr_mono; [ | first [eapply (kn_lrerr _ _ _ KN) | eapply (kn_srerr _ _ _ KN)]; eauto ]; ext_tac
        | right; eapply jtrl_mono; [eexists; csimpl; first [reflexivity | symmetry; apply app_nil_r] | first [eapply (kn_ltrl _ _ _ KN) | eapply (kn_strl _ _ _ KN)]; eauto]
        | eapply jlatch_mono; [ | eapply (kn_latch _ _ _ KN); eauto ]; ext_tac
        | (* own context *)
          right; apply jerr_ctx_status; [reflexivity | sctx_tac]
        | apply jerr_ctx_status; [reflexivity | sctx_tac]
        | right; left; eexists; split; [reflexivity | split; [apply nonresp_ctx_raw | apply jerr_ctx_raw; [reflexivity | sctx_tac]]]
        | right; left; exists EClosed; simpl; auto
        | (* the envelope just taken *)
          right; right; eexists; split; [ apply hd_taken_snoc; apply (kn_pre _ _ _ KN);
                                           [ apply unary_wait; auto | match goal with Ep : k_pc k = _ |- _ => rewrite Ep end; reflexivity ] | reflexivity ]
        | right; eexists; split; [apply in_taken_snoc | assumption]
        | right; eapply jerr_env; [apply in_taken_snoc | left; assumption]
        | match goal with Hb : match s_latch k with _ => _ end = true |- _ =>
            destruct (bad_of_cond _ _ Hb) as [Hla Hbad]; right; eapply jerr_env; [apply in_taken_snoc | right; auto] end
        | right; destruct (rerr s) eqn:?; simpl; auto
        | destruct (_ <? 0); [try nth_self; simpl; exact I | exact I]
        | (* write / context failures of the call itself *)
          right; match goal with |- context [if ctx_done (k_ctx k) then _ else _] => destruct (ctx_done (k_ctx k)) eqn:? end;
          [ left; eexists; split; [reflexivity | split; [apply nonresp_ctx_raw | apply jerr_ctx_raw; [reflexivity | sctx_tac]]]
          | left; exists EWrite; simpl; auto ]
        | right; match goal with |- context [if ctx_done (k_ctx k) then _ else _] => destruct (ctx_done (k_ctx k)) eqn:? end;
          [ apply jerr_ctx_raw; [reflexivity | sctx_tac] | simpl; exact I ]
        | repeat match goal with |- context [if ?b then _ else _] => destruct b eqn:? end; simpl; auto; apply jerr_ctx_raw; [reflexivity | sctx_tac] ]
  end.

Ltac nfin3 HI HN :=
  match goal with
  | E : nth_error (calls ?s) ?c = Some ?k |- _ =>
      let K := fresh "K" in let KN := fresh "KN" in
      pose proof (cinv_call _ _ _ HI E) as K; pose proof (ni_call _ HN _ _ E) as KN;
      try solve
        [ (* RecvMsg's terminal result *)
          unfold recv_final; destruct (s_rerr k) eqn:Esr;
          [ nth_self; eapply jerr_mono; [ | eapply (kn_srerr _ _ _ KN); eauto ]; ext_tac
          | exfalso; match goal with Ed : s_done k = true |- _ => destruct (ki_done_dead _ K Ed) as (_ & Hs & _); rewrite Esr in Hs; discriminate Hs end ]
        | destruct (s_rerr k) eqn:Esr; [ nth_self; eapply jerr_mono; [ | eapply (kn_srerr _ _ _ KN); eauto ]; ext_tac | exact I ]
        | (* Trailer *)
          destruct (s_trl k) as [[t|]|] eqn:Est; try exact I; destruct (t =? 0); try exact I;
          eapply jtrl_mono; [ eexists; csimpl; reflexivity | eapply (kn_strl _ _ _ KN); eauto ]
        | (* the latch *)
          match goal with Hvv : match s_latch k with _ => _ end = Some _ |- _ =>
            destruct (s_latch k) eqn:Ela;
            [ left; exact Hvv
            | inversion Hvv; subst; clear Hvv; right; cbn [jlatch]; unfold jerr; csimpl; fold jerr;
              first
                [ eexists; split; [ apply hd_taken_snoc; apply (kn_nolatch _ _ _ KN); [ apply stream_loop; auto; unfold loop_alive; match goal with El : s_loop k = _ |- _ => rewrite El end; reflexivity | exact Ela ] | reflexivity ]
                | match goal with Hb : match s_latch k with _ => _ end = true |- _ => rewrite Ela in Hb end;
                  eapply jerr_env; [ apply in_taken_snoc | right; split; [reflexivity | unfold bad_hdr; destruct (ehdr _) as [[|]|]; try discriminate; reflexivity ] ]
                | apply jerr_ctx_status; [reflexivity | sctx_tac]
                | destruct (rerr s) eqn:?; simpl; auto ] ]
          end
        | repeat match goal with |- context [if ?b then _ else _] => destruct b eqn:? end; simpl; auto;
          first [ apply jerr_ctx_raw; [reflexivity | sctx_tac]
                | right; left; eexists; split; [reflexivity | split; [first [apply nonresp_ctx_raw | reflexivity] | first [apply jerr_ctx_raw; [reflexivity | sctx_tac] | simpl; auto]]]
                | right; first [apply jerr_ctx_raw; [reflexivity | sctx_tac] | simpl; auto] ] ]
  end.

Lemma same_fields_chan k ch r : same_fields k (set_chan k ch r).
Proof. unfold same_fields; csimpl. repeat split; auto. Qed.

Lemma frame_upd_same ks c k k' :
  nth_error ks c = Some k -> same_fields k k' ->
  forall c0 k0', nth_error (upd c k' ks) c0 = Some k0' -> exists k0, nth_error ks c0 = Some k0 /\ same_fields k0 k0'.
Proof.
  intros Hn Hf c0 k0' H. apply nth_upd_inv in H. destruct H as [[-> ->]|[_ H]]; eauto using same_fields_refl.
Qed.

Lemma ninv_step s l s' : cinv s -> sinv s -> binv s -> rinv s -> ninv s -> lstep s l = Some s' -> ninv s'.
Proof.
  intros HI HS HB HR HN H. apply lstep_kind in H. destruct H; try (subst; apply ninv_ext; auto; fail).
  - unfold r_rl_unblock in H. open_rule H.
    + eapply (ninv_frame s _ [_] HN); csimpl; try reflexivity; auto.
      * simpl. intros ev [<-|[]]. exact I.
      * eauto using same_fields_refl.
    + eapply (ninv_frame s _ [] HN); csimpl; auto.
      * rewrite app_nil_r; auto.
      * simpl; tauto.
      * eapply frame_upd_same; eauto. apply same_fields_chan.
  - unfold r_rl_read in H. open_rule H.
    + eapply (ninv_frame s _ [] HN); csimpl; auto.
      * rewrite app_nil_r; auto.
      * simpl; tauto.
      * intros c k' Hn. unfold close_all in Hn. apply nth_map_inv in Hn. destruct Hn as (k & Hk & ->).
        exists k. split; auto. destruct (k_reg k); auto using same_fields_refl, same_fields_chan.
    + eapply (ninv_frame s _ [_] HN); csimpl; try reflexivity; auto.
      * simpl. intros ev [<-|[]]. exact I.
      * eauto using same_fields_refl.
    + eapply (ninv_frame s _ [_] HN); csimpl; try reflexivity; auto.
      * simpl. intros ev [<-|[]]. exact I.
      * eapply frame_upd_same; eauto. apply same_fields_chan.
    + eapply (ninv_frame s _ [_; _] HN); csimpl; auto.
      * rewrite <- app_assoc. reflexivity.
      * intros; reflexivity.
      * simpl. intros ev [<-|[<-|[]]]; exact I.
      * eauto using same_fields_refl.
  - unfold r_check in H. open_rule H; nupd HN; nfin HI HN; nfin2 HI HN; nfin3 HI HN.
  - unfold r_reg in H. open_rule H; nupd HN; nfin HI HN; nfin2 HI HN; nfin3 HI HN.
  - unfold r_wait in H. open_rule H; nupd HN; nfin HI HN; nfin2 HI HN; nfin3 HI HN.
  - unfold r_wait_ctx in H. open_rule H; nupd HN; nfin HI HN; nfin2 HI HN; nfin3 HI HN.
  - unfold r_unreg in H. open_rule H; nupd HN; nfin HI HN; nfin2 HI HN; nfin3 HI HN.
  - unfold r_loop_read, closed_err in H. open_rule H;
      try match goal with |- context [if sctx_done ?k then _ else _] => destruct (sctx_done k) eqn:Esd end;
      nupd HN; nfin HI HN; nfin2 HI HN; nfin3 HI HN.
    (* the first envelope's header metadata does not decode: the latch carries that error *)
    match goal with Hb : match s_latch c0 with _ => _ end = true |- _ => destruct (bad_of_cond _ _ Hb) as [Hla Hbad] end.
    rewrite Hla in Hvv. inversion Hvv; subst. right. unfold jlatch, jerr; csimpl.
    exists e. split; [apply in_taken_snoc | right; auto].
  - unfold r_loop_read_ctx in H. open_rule H; nupd HN; nfin HI HN; nfin2 HI HN; nfin3 HI HN.
  - unfold r_loop_hand in H. open_rule H; nupd HN; nfin HI HN; nfin2 HI HN; nfin3 HI HN.
  - unfold r_loop_hand_ctx in H. open_rule H; nupd HN; nfin HI HN; nfin2 HI HN; nfin3 HI HN.
  - unfold r_loop_exit in H. open_rule H; nupd HN; nfin HI HN; nfin2 HI HN; nfin3 HI HN.
  - unfold r_loop_unreg in H. open_rule H; nupd HN; nfin HI HN; nfin2 HI HN; nfin3 HI HN.
  - unfold r_recv in H. open_rule H; nupd HN; nfin HI HN; nfin2 HI HN; nfin3 HI HN.
  - unfold r_header in H. open_rule H; nupd HN; nfin HI HN; nfin2 HI HN; nfin3 HI HN.
  - unfold r_trailer in H. open_rule H; nupd HN; nfin HI HN; nfin2 HI HN; nfin3 HI HN.
  - unfold r_send in H. open_rule H; nupd HN; nfin HI HN; nfin2 HI HN; nfin3 HI HN.
Qed.

Lemma in_taken c e l : In e (taken c l) <-> In (EvTake c e) l.
Proof.
  unfold taken. rewrite in_flat_map. split.
  - intros (ev & Hin & He). destruct ev; simpl in He; try tauto. destruct (Nat.eqb_spec c0 c); simpl in He; try tauto.
    destruct He as [<-|[]]. subst. auto.
  - intros Hin. exists (EvTake c e). split; auto. simpl. rewrite Nat.eqb_refl. simpl; auto.
Qed.

Lemma ninv_reach ls s : lrun init ls = Some s -> ninv s.
Proof.
  intros H.
  assert (HH : (cinv s /\ sinv s /\ linv s /\ rinv s) /\ (binv s /\ ninv s)).
  { eapply (lrun_inv2 (fun s => cinv s /\ sinv s /\ linv s /\ rinv s) (fun s => binv s /\ ninv s)); eauto.
    - intros s0 l s' (HI & HS & HL & HR) (HB & HN) Hs.
      split; [split; [|split; [|split]]|split]; eauto using cinv_step, sinv_step, linv_step, rinv_step, binv_step, ninv_step.
    - split; [|split; [|split]]. apply cinv_init. apply sinv_init. apply linv_init. apply rinv_init.
    - split. intros ev []. apply ninv_init. }
  tauto.
Qed.

(* C05_noninterference: every API return of call c is determined by / justified by the envelopes c took (all of which
   carry c's id and were routed to c), c's own context, or the connection-wide read failure *)
Lemma C05_noninterference_l ls s : lrun init ls = Some s ->
  forall c k, nth_error (calls s) c = Some k ->
    (forall e, In e (taken c (log s)) -> eid e = k_id k /\ In (EvRead e (Some c)) (log s)) /\
    (forall r, In (EvUnaryRet c r) (log s) -> junary s c k r) /\
    (forall b, In (EvRecvRet c (RMsg b)) (log s) -> exists e, In e (taken c (log s)) /\ ebody e = Some b) /\
    (forall x, In (EvRecvRet c (RErr x)) (log s) -> jerr s c k x) /\
    (forall v, In (EvHeaderRet c v) (log s) -> jlatch s c k v) /\
    (forall t, In (EvTrailerRet c (Some t)) (log s) -> jtrl s c (MdOk t)) /\
    (forall x, In (EvSendRet c (Some x)) (log s) \/ In (EvCloseSendRet c (Some x)) (log s) \/ In (EvOpenRet c (Some x)) (log s) ->
               jerr s c k x).
Proof.
  intros H c k Hn. pose proof (ninv_reach _ _ H) as HN. pose proof (C05_take_l _ _ H) as HT.
  pose proof (honest_l _ _ H) as [_ HM].
  split; [|split; [|split; [|split; [|split; [|split]]]]].
  - intros e Hin. apply in_taken in Hin. destruct (HT _ _ Hin) as (Hr & k' & Hk' & Hid & _). rewrite Hn in Hk'. inversion Hk'; subst. auto.
  - intros r Hin. apply (ni_ev _ HN _ Hin); auto.
  - intros b Hin. destruct (HM _ _ Hin) as (e & k' & Ht & _ & Hb & _). exists e. split; auto. apply in_taken; auto.
  - intros x Hin. apply (ni_ev _ HN _ Hin); auto.
  - intros v Hin. apply (ni_ev _ HN _ Hin); auto.
  - intros t Hin. apply (ni_ev _ HN _ Hin).
  - intros x [Hin|[Hin|Hin]]; apply (ni_ev _ HN _ Hin); auto.
Qed.

(* C09_eof_not_success: the model is parametric in the VALUE of the transport's read error (AFailRead carries none:
   the recorded error is the token EConn, whatever Read failed with - io.EOF included; that the real code is just as
   indifferent is checked on every run for eight error values, TestC09Errors). In every run RecvMsg reports the clean
   end of the stream (io.EOF) only if an envelope the call took carries a trailer with an OK status (or no status);
   Header never reports it for another reason either. *)
Lemma C09_eof_not_success_l ls s : lrun init ls = Some s ->
  forall c k, nth_error (calls s) c = Some k ->
    (In (EvRecvRet c (RErr EEof)) (log s) -> exists e, In e (taken c (log s)) /\ final_of e = Some EEof) /\
    (In (EvHeaderRet c (inr EEof)) (log s) -> exists e, In e (taken c (log s)) /\ final_of e = Some EEof).
Proof.
  intros H c k Hn. destruct (C05_noninterference_l _ _ H _ _ Hn) as (_ & _ & _ & HR & HH & _).
  split; intros Hin.
  - destruct (HR _ Hin) as (e & He & [Hf|[Hx _]]); [eauto|discriminate].
  - destruct (HH _ Hin) as (e & He & [Hf|[Hx _]]); [eauto|discriminate].
Qed.

(* C19: "answered 200 => delivered" for the receiving GoatOverHttp, and the sender half linked to it
   (Model/HttpLink.v): a Write that returns nil was handed to the peer's ServeHTTP exactly once, unchanged, and
   was read there; writes of a single sequential writer are read in write order. *)
From Coq Require Import List ZArith Bool Lia.
Import ListNotations.
From Goat Require Import Model.Transports Proofs.TransportsProofs Model.HttpLink.
Open Scope Z_scope.

(* ---------- what one step of the receiver adds to its log ---------- *)
Definition news_ok {E F} (s s' : hst E F) : Prop :=
  exists evs, hs_log s' = hs_log s ++ evs /\
              forall q, In (HEvResp q 200) evs -> exists c r, In (HEvDeliver q c r) evs.

Lemma news_same {E F} (s s' : hst E F) : hs_log s' = hs_log s -> news_ok s s'.
Proof. intro H. exists []. rewrite app_nil_r. split; [exact H|intros q []]. Qed.

Lemma news_quiet {E F} (s s' : hst E F) : quiet_step s s' -> news_ok s s'.
Proof.
  intros (_ & _ & evs & Hl & Hq). exists evs. split; [exact Hl|].
  intros q Hin. apply Hq in Hin. discriminate.
Qed.

Lemma news_trans {E F} (a b c : hst E F) : news_ok a b -> news_ok b c -> news_ok a c.
Proof.
  intros (e1 & H1 & K1) (e2 & H2 & K2). exists (e1 ++ e2). split; [rewrite H2, H1, app_assoc; reflexivity|].
  intros q Hin. apply in_app_iff in Hin as [Hin|Hin].
  - destruct (K1 _ Hin) as (c0 & r & Hd). exists c0, r. apply in_or_app. auto.
  - destruct (K2 _ Hin) as (c0 & r & Hd). exists c0, r. apply in_or_app. auto.
Qed.

Lemma news_evs {E F} (s s' : hst E F) evs :
  hs_log s' = hs_log s ++ evs -> (forall q, ~ In (HEvResp q 200) evs) -> news_ok s s'.
Proof. intros H N. exists evs. split; [exact H|]. intros q Hin. exfalso. exact (N q Hin). Qed.

Lemma h_ext_news {E F} (dec : F -> option E) rt (s : hst E F) a : news_ok s (h_ext dec rt s a).
Proof.
  destruct a as [b|a|c d|r|c d|w ok|w|d|]; cbn [h_ext].
  - destruct (http_classify dec rt b) as [why|a e].
    + apply (news_evs _ _ [HEvReq (length (hs_reqs s)) b; HEvResp (length (hs_reqs s)) 400]); [reflexivity|].
      intros q [H|[H|[]]]; discriminate.
    + destruct (h_retrieve s a) as [[s1 c] fresh] eqn:Er.
      eapply news_trans; [apply news_quiet, (h_retrieve_quiet _ _ _ _ _ Er)|].
      eapply news_evs; [cbn [set_reqs hs_log]; reflexivity|].
      intros q [H|H]; [discriminate|]. destruct fresh; [destruct H as [H|[]]; discriminate|destruct H].
  - destruct (h_retrieve s a) as [[s1 c] fresh] eqn:Er. apply news_quiet, (h_retrieve_quiet _ _ _ _ _ Er).
  - destruct (Nat.ltb c (length (hs_conns s))); [|apply news_same; reflexivity].
    apply news_same. cbn [set_rds hs_log]. apply app_nil_r.
  - destruct (nth_error (hs_rds s) r); [|apply news_same; reflexivity].
    apply news_same. cbn [set_rds hs_log]. apply app_nil_r.
  - destruct (Nat.ltb c (length (hs_conns s))); [|apply news_same; reflexivity].
    eapply news_trans; [apply news_quiet, (bump_quiet s c)|]. apply news_same. cbn [set_wrs hs_log]. apply app_nil_r.
  - destruct (nth_error (hs_wrs s) w) as [x|]; [|apply news_same; reflexivity].
    destruct (hw_pend x); [|apply news_same; reflexivity].
    set (s1 := set_wrs s (upd w (mkHW (hw_conn x) (hw_done x) false) (hs_wrs s)) []).
    assert (N1 : news_ok s s1) by (apply news_same; cbn [s1 set_wrs hs_log]; apply app_nil_r).
    destruct ok.
    + eapply news_trans; [exact N1|]. eapply news_evs; [cbn [set_wrs hs_log]; reflexivity|].
      intros q [H|[]]; discriminate.
    + eapply news_trans; [exact N1|]. eapply news_trans; [apply news_quiet, (h_unregister_quiet s1 (hw_conn x))|].
      eapply news_evs; [cbn [set_wrs hs_log]; reflexivity|]. intros q [H|[]]; discriminate.
  - destruct (nth_error (hs_wrs s) w); [|apply news_same; reflexivity].
    apply news_same. cbn [set_wrs hs_log]. apply app_nil_r.
  - destruct ((d <? 0) || (hs_interval s <=? 0)); [apply news_same; reflexivity|].
    destruct (hs_now s + d <? hs_next s); apply news_same; reflexivity.
  - destruct (hs_cl s); apply news_same; reflexivity.
Qed.

Lemma h_int_news {E F} (s : hst E F) r s' : In r (h_rules s) -> r s = Some s' -> news_ok s s'.
Proof.
  intros Hin Hr.
  apply h_rules_cases in Hin as [->|[->|[(q & ->)|[(x & ->)|[(x & ->)|[(w & ->)|(q & x & ->)]]]]]].
  - apply h_clean_unfold in Hr as (_ & _ & ->).
    eapply news_trans; [apply (news_same s (set_clock s (hs_now s) (hs_next s) false (hs_cl s))); reflexivity|]. apply news_quiet, clean_fold_quiet.
  - unfold h_clexit in Hr. destruct (hs_cl s); try discriminate. inversion Hr; subst. apply news_same. reflexivity.
  - unfold h_qclosed in Hr. destruct (nth_error (hs_reqs s) q) as [[|c e]|]; try discriminate.
    destruct (nth_error (hs_conns s) c) as [k|]; [|discriminate]. destruct (c_closed k); [|discriminate].
    inversion Hr; subst; clear Hr. eapply news_evs; [cbn [set_reqs hs_log]; reflexivity|].
    intros q0 [H|[]]; discriminate.
  - unfold h_rclosed in Hr. destruct (nth_error (hs_rds s) x) as [y|]; [|discriminate].
    destruct (nth_error (hs_conns s) (hr_conn y)) as [k|]; [|discriminate].
    destruct (hr_pend y && c_closed k); [|discriminate]. inversion Hr; subst; clear Hr.
    eapply news_evs; [cbn [set_rds hs_log]; reflexivity|]. intros q0 [H|[]]; discriminate.
  - unfold h_rctx in Hr. destruct (nth_error (hs_rds s) x) as [y|]; [|discriminate].
    destruct (hr_pend y && hr_done y); [|discriminate]. inversion Hr; subst; clear Hr.
    eapply news_evs; [cbn [set_rds hs_log]; reflexivity|]. intros q0 [H|[]]; discriminate.
  - unfold h_wctx in Hr. destruct (nth_error (hs_wrs s) w) as [y|]; [|discriminate].
    destruct (hw_pend y && hw_done y); [|discriminate]. inversion Hr; subst; clear Hr.
    set (s1 := set_wrs s (upd w (mkHW (hw_conn y) (hw_done y) false) (hs_wrs s)) []).
    eapply news_trans; [apply (news_same s s1); cbn [s1 set_wrs hs_log]; apply app_nil_r|].
    eapply news_trans; [apply news_quiet, (h_unregister_quiet s1 (hw_conn y))|].
    eapply news_evs; [cbn [set_wrs hs_log]; reflexivity|]. intros q0 [H|[]]; discriminate.
  - unfold h_handoff in Hr. destruct (nth_error (hs_reqs s) q) as [[|c e]|]; try discriminate.
    destruct (nth_error (hs_rds s) x) as [y|]; [|discriminate].
    destruct (hr_pend y && Nat.eqb (hr_conn y) c); [|discriminate]. inversion Hr; subst; clear Hr.
    eapply news_trans; [apply news_quiet, (bump_quiet s c)|].
    exists [HEvDeliver q c x; HEvResp q 200; HEvRead x (HROk e)]. split.
    + cbn [set_rds set_reqs hs_log]. rewrite app_nil_r. reflexivity.
    + intros q0 [H|[H|[H|[]]]]; try discriminate. inversion H; subst. exists c, x. left. reflexivity.
Qed.

(* ---------- answered 200 => delivered ---------- *)
Lemma http_200_delivered {E F} (dec : F -> option E) rt iv tmo now ls (s : hst E F) q :
  h_run dec rt iv tmo now ls = Some s -> In (HEvResp q 200) (hs_log s) -> exists c r, In (HEvDeliver q c r) (hs_log s).
Proof.
  intro Hrun. revert q. unfold h_run in Hrun.
  apply (lrun_inv (h_ext dec rt) h_rules
           (fun s => forall q, In (HEvResp q 200) (hs_log s) -> exists c r, In (HEvDeliver q c r) (hs_log s)))
    with (ls := ls) (s0 := h_init iv tmo now); [| | |exact Hrun].
  - intros s0 a IH q. destruct (h_ext_news dec rt s0 a) as (evs & -> & K). intro Hin.
    apply in_app_iff in Hin as [Hin|Hin].
    + destruct (IH _ Hin) as (c & r & H). exists c, r. apply in_or_app. auto.
    + destruct (K _ Hin) as (c & r & H). exists c, r. apply in_or_app. auto.
  - intros s0 r s1 IH Hin Hr q. destruct (h_int_news s0 r s1 Hin Hr) as (evs & -> & K). intro Hq.
    apply in_app_iff in Hq as [Hq|Hq].
    + destruct (IH _ Hq) as (c & r0 & H). exists c, r0. apply in_or_app. auto.
    + destruct (K _ Hq) as (c & r0 & H). exists c, r0. apply in_or_app. auto.
  - intros q [].
Qed.

(* ---------- the link ---------- *)
Lemma post_req_in {E F} (dec : F -> option E) rt (s : hst E F) b :
  In (HEvReq (length (hs_reqs s)) b) (hs_log (h_ext dec rt s (HPost b))).
Proof.
  pose proof (http_post_step dec rt s b) as H. cbv zeta in H.
  destruct (http_classify dec rt b) as [why|a e].
  - destruct H as (-> & _). apply in_or_app. right. left. reflexivity.
  - destruct (tbl_lookup a (hs_tbl s)); destruct H as (-> & _); apply in_or_app; right; left; reflexivity.
Qed.

Lemma news_in {E F} (s s' : hst E F) e : news_ok s s' -> In e (hs_log s) -> In e (hs_log s').
Proof. intros (evs & -> & _) H. apply in_or_app. auto. Qed.

Lemma answer_of_in {E F} q (log : list (hev E F)) code : answer_of q log = Some code -> In (HEvResp q code) log.
Proof.
  induction log as [|e log IH]; cbn [answer_of]; [discriminate|].
  destruct e; try (intro H; right; apply IH, H).
  destruct (Nat.eqb_spec q0 q) as [->|Hne]; intro H; [inversion H; subst; left; reflexivity|right; apply IH, H].
Qed.

(* the receiver half of a link state is a state of the receiver model; the bookkeeping of the writes is sound *)
Definition lk_inv {E F} (enc : E -> F) (dec : F -> option E) rt iv tmo now (k : link E F) : Prop :=
  (exists ls, h_run dec rt iv tmo now ls = Some (lk_peer k)) /\
  (forall w x, nth_error (lk_ws k) w = Some x ->
     (forall q, sw_q x = Some q -> In (HEvReq q (BBytes (enc (sw_env x)))) (hs_log (lk_peer k))) /\
     (sw_res x = Some true -> exists q, sw_q x = Some q /\ In (HEvResp q 200) (hs_log (lk_peer k))) /\
     (In (SEvRet w true) (lk_log k) -> sw_res x = Some true) /\
     (forall q, In (SEvPost w q) (lk_log k) -> sw_q x = Some q)) /\
  (forall w q, In (SEvPost w q) (lk_log k) -> (w < length (lk_ws k))%nat) /\
  (forall w ok, In (SEvRet w ok) (lk_log k) -> (w < length (lk_ws k))%nat).

Lemma h_run_snoc_ext {E F} (dec : F -> option E) rt iv tmo now ls (s : hst E F) a :
  h_run dec rt iv tmo now ls = Some s -> h_run dec rt iv tmo now (ls ++ [LExt a]) = Some (h_ext dec rt s a).
Proof. unfold h_run. intro H. rewrite lrun_app, H. reflexivity. Qed.

Lemma h_run_snoc_int {E F} (dec : F -> option E) rt iv tmo now ls (s : hst E F) r s' :
  h_run dec rt iv tmo now ls = Some s -> In r (h_rules s) -> r s = Some s' ->
  exists n, h_run dec rt iv tmo now (ls ++ [LInt n]) = Some s'.
Proof.
  unfold h_run. intros H Hin Hr. apply In_nth_error in Hin as (n & Hn). exists n.
  rewrite lrun_app, H. cbn [lrun lstep]. rewrite Hn, Hr. reflexivity.
Qed.

Lemma inv_peer_move {E F} (enc : E -> F) dec rt iv tmo now (k : link E F) p' :
  (exists ls, h_run dec rt iv tmo now ls = Some p') -> news_ok (lk_peer k) p' ->
  lk_inv enc dec rt iv tmo now k -> lk_inv enc dec rt iv tmo now (mkLk (lk_ws k) p' (lk_log k)).
Proof.
  intros Hrun Hn (_ & Q & P3 & P4). split; [exact Hrun|]. split; [|split; assumption].
  intros w x Hx. cbn [lk_ws lk_peer lk_log] in *. destruct (Q w x Hx) as (A & B & C & D). repeat split; auto.
  - intros q Hq. eapply news_in; [exact Hn|auto].
  - intro Hr. destruct (B Hr) as (q & Hq & Hin). exists q. split; [exact Hq|]. eapply news_in; eassumption.
Qed.

(* write w gets its result r *)
Lemma inv_ret {E F} (enc : E -> F) dec rt iv tmo now (k : link E F) w x r :
  nth_error (lk_ws k) w = Some x -> sw_res x = None ->
  (r = true -> exists q, sw_q x = Some q /\ In (HEvResp q 200) (hs_log (lk_peer k))) ->
  lk_inv enc dec rt iv tmo now k ->
  lk_inv enc dec rt iv tmo now (mkLk (upd w (set_res x r) (lk_ws k)) (lk_peer k) (lk_log k ++ [SEvRet w r])).
Proof.
  intros Hx Hnone Hr (P1 & Q & P3 & P4). split; [exact P1|]. cbn [lk_ws lk_peer lk_log].
  assert (Hlt : (w < length (lk_ws k))%nat) by (apply nth_error_Some; congruence).
  split; [|split].
  - intros w' x' Hx'. apply nth_error_upd_inv in Hx' as [[-> ->]|[Hne Hx']].
    + destruct (Q w x Hx) as (A & B & C & D). cbn [set_res sw_env sw_q sw_res]. repeat split.
      * exact A.
      * intro H. inversion H; subst. auto.
      * intro H. apply in_app_iff in H as [H|[H|[]]]; [apply C in H; congruence|inversion H; reflexivity].
      * intros q H. apply in_app_iff in H as [H|[H|[]]]; [auto|discriminate].
    + destruct (Q w' x' Hx') as (A & B & C & D). repeat split; auto.
      * intro H. apply in_app_iff in H as [H|[H|[]]]; [auto|inversion H; congruence].
      * intros q H. apply in_app_iff in H as [H|[H|[]]]; [auto|discriminate].
  - intros w' q H. rewrite upd_length. apply in_app_iff in H as [H|[H|[]]]; [eauto|discriminate].
  - intros w' ok H. rewrite upd_length. apply in_app_iff in H as [H|[H|[]]]; [eauto|inversion H; subst; exact Hlt].
Qed.

Lemma lk_ext_inv {E F} (enc : E -> F) dec rt iv tmo now (k : link E F) a :
  lk_inv enc dec rt iv tmo now k -> lk_inv enc dec rt iv tmo now (lk_ext enc dec rt k a).
Proof.
  intro I. pose proof I as (P1 & Q & P3 & P4). destruct a as [e|e|w|w|a]; cbn [lk_ext].
  - (* LWrite *)
    destruct P1 as (ls & Hrun). split; [eexists; apply h_run_snoc_ext, Hrun|]. cbn [lk_ws lk_peer lk_log].
    pose proof (h_ext_news dec rt (lk_peer k) (HPost (BBytes (enc e)))) as Hn.
    split; [|split].
    + intros w x Hx. destruct (Nat.lt_ge_cases w (length (lk_ws k))) as [Hlt|Hge].
      * rewrite nth_error_app1 in Hx by exact Hlt. destruct (Q w x Hx) as (A & B & C & D). repeat split.
        -- intros q Hq. eapply news_in; [exact Hn|auto].
        -- intro Hr. destruct (B Hr) as (q & Hq & Hin). exists q. split; [exact Hq|]. eapply news_in; eassumption.
        -- intro H. apply in_app_iff in H as [H|[H|[]]]; [auto|discriminate].
        -- intros q H. apply in_app_iff in H as [H|[H|[]]]; [auto|inversion H; lia].
      * rewrite nth_error_app2 in Hx by exact Hge. destruct (w - length (lk_ws k))%nat as [|n] eqn:En; [|destruct n; discriminate].
        cbn in Hx. inversion Hx; subst x; clear Hx. assert (w = length (lk_ws k)) by lia. subst w.
        cbn [sw_env sw_q sw_res]. repeat split.
        -- intros q Hq. inversion Hq; subst. apply post_req_in.
        -- discriminate.
        -- intro H. apply in_app_iff in H as [H|[H|[]]]; [apply P4 in H; lia|discriminate].
        -- intros q H. apply in_app_iff in H as [H|[H|[]]]; [apply P3 in H; lia|inversion H; reflexivity].
    + intros w q H. rewrite app_length. cbn. apply in_app_iff in H as [H|[H|[]]]; [apply P3 in H; lia|inversion H; lia].
    + intros w ok H. rewrite app_length. cbn. apply in_app_iff in H as [H|[H|[]]]; [apply P4 in H; lia|discriminate].
  - (* LWriteLost *)
    split; [exact P1|]. cbn [lk_ws lk_peer lk_log]. split; [|split].
    + intros w x Hx. destruct (Nat.lt_ge_cases w (length (lk_ws k))) as [Hlt|Hge].
      * rewrite nth_error_app1 in Hx by exact Hlt. destruct (Q w x Hx) as (A & B & C & D). repeat split; auto.
        -- intro H. apply in_app_iff in H as [H|[H|[]]]; [auto|inversion H; lia].
        -- intros q H. apply in_app_iff in H as [H|[H|[]]]; [auto|discriminate].
      * rewrite nth_error_app2 in Hx by exact Hge. destruct (w - length (lk_ws k))%nat as [|n] eqn:En; [|destruct n; discriminate].
        cbn in Hx. inversion Hx; subst x; clear Hx. assert (w = length (lk_ws k)) by lia. subst w.
        cbn [sw_env sw_q sw_res]. repeat split.
        -- discriminate.
        -- discriminate.
        -- intro H. apply in_app_iff in H as [H|[H|[]]]; [apply P4 in H; lia|discriminate].
        -- intros q H. apply in_app_iff in H as [H|[H|[]]]; [apply P3 in H; lia|discriminate].
    + intros w q H. rewrite app_length. cbn. apply in_app_iff in H as [H|[H|[]]]; [apply P3 in H; lia|discriminate].
    + intros w ok H. rewrite app_length. cbn. apply in_app_iff in H as [H|[H|[]]]; [apply P4 in H; lia|inversion H; lia].
  - (* LCancel *)
    destruct (nth_error (lk_ws k) w) as [x|] eqn:Hx; [|exact I].
    split; [exact P1|]. cbn [lk_ws lk_peer lk_log]. split; [|split].
    + intros w' x' Hx'. apply nth_error_upd_inv in Hx' as [[-> ->]|[Hne Hx']]; [|apply Q, Hx'].
      destruct (Q w x Hx) as (A & B & C & D). cbn [sw_env sw_q sw_res]. repeat split; auto.
    + intros w' q H. rewrite upd_length. eauto.
    + intros w' ok H. rewrite upd_length. eauto.
  - (* LDrop *)
    destruct (nth_error (lk_ws k) w) as [x|] eqn:Hx; [|exact I].
    destruct (sw_res x) eqn:Hr; [exact I|]. apply inv_ret; auto. discriminate.
  - (* LPeer *)
    destruct P1 as (ls & Hrun). apply inv_peer_move; [eexists; apply h_run_snoc_ext, Hrun|apply h_ext_news|exact I].
Qed.

Lemma lk_int_inv {E F} (enc : E -> F) dec rt iv tmo now (k : link E F) r k' :
  lk_inv enc dec rt iv tmo now k -> In r (lk_rules k) -> r k = Some k' -> lk_inv enc dec rt iv tmo now k'.
Proof.
  intros I Hin Hr. unfold lk_rules in Hin. apply in_app_iff in Hin as [Hin|Hin].
  - apply in_map_iff in Hin as (r0 & <- & Hin0). unfold l_peer in Hr.
    destruct (r0 (lk_peer k)) as [p|] eqn:Er; [|discriminate]. inversion Hr; subst k'; clear Hr.
    destruct I as ((ls & Hrun) & I'). destruct (h_run_snoc_int dec rt iv tmo now ls _ r0 p Hrun Hin0 Er) as (n & Hn).
    apply inv_peer_move; [eexists; exact Hn|eapply h_int_news; eassumption|split; [eexists; exact Hrun|exact I']].
  - apply in_flat_map in Hin as (w & _ & [<-|[<-|[]]]).
    + unfold l_answer in Hr. destruct (nth_error (lk_ws k) w) as [x|] eqn:Hx; [|discriminate].
      destruct (sw_res x) eqn:Hres; [discriminate|]. destruct (sw_q x) as [q|] eqn:Hq; [|discriminate].
      destruct (answer_of q (hs_log (lk_peer k))) as [code|] eqn:Ha; [|discriminate]. inversion Hr; subst k'; clear Hr.
      apply inv_ret; auto. intro H200. apply Z.eqb_eq in H200. subst code. exists q. split; [exact Hq|apply answer_of_in, Ha].
    + unfold l_wctx in Hr. destruct (nth_error (lk_ws k) w) as [x|] eqn:Hx; [|discriminate].
      destruct (sw_res x) eqn:Hres; [discriminate|]. destruct (sw_ctx x); [|discriminate]. inversion Hr; subst k'; clear Hr.
      apply inv_ret; auto. discriminate.
Qed.

Lemma lk_invariant {E F} (enc : E -> F) dec rt iv tmo now ls (k : link E F) :
  lk_run enc dec rt iv tmo now ls = Some k -> lk_inv enc dec rt iv tmo now k.
Proof.
  unfold lk_run. apply lrun_inv with (P := lk_inv enc dec rt iv tmo now).
  - intros s a. apply lk_ext_inv.
  - intros s r s'. apply lk_int_inv.
  - split; [exists []; reflexivity|]. split; [|split]; cbn; intros; try contradiction.
    destruct w; discriminate.
Qed.

(* ---------- distinct Writes are distinct requests ---------- *)
Definition qs_uniq {E} (ws : list (swrite E)) : Prop :=
  forall i j q, nth_error (map sw_q ws) i = Some (Some q) -> nth_error (map sw_q ws) j = Some (Some q) -> i = j.

Lemma map_upd_q {E} (ws : list (swrite E)) w x x' :
  nth_error ws w = Some x -> sw_q x' = sw_q x -> map sw_q (upd w x' ws) = map sw_q ws.
Proof.
  revert w. induction ws as [|y ws IH]; intros [|w] Hx Hq; cbn in *; try discriminate.
  - inversion Hx; subst. rewrite Hq. reflexivity.
  - f_equal. apply IH; assumption.
Qed.

Definition lk_inv2 {E F} (enc : E -> F) (dec : F -> option E) rt iv tmo now (k : link E F) : Prop :=
  lk_inv enc dec rt iv tmo now k /\ qs_uniq (lk_ws k).

Lemma req_lt {E F} (dec : F -> option E) rt iv tmo now ls (s : hst E F) q b :
  h_run dec rt iv tmo now ls = Some s -> In (HEvReq q b) (hs_log s) -> (q < length (hs_reqs s))%nat.
Proof. intros Hrun Hin. destruct (h_full_invariant _ _ _ _ _ _ _ Hrun) as (_ & _ & L1 & _). eapply L1, Hin. Qed.

Lemma lk_invariant2 {E F} (enc : E -> F) dec rt iv tmo now ls (k : link E F) :
  lk_run enc dec rt iv tmo now ls = Some k -> lk_inv2 enc dec rt iv tmo now k.
Proof.
  unfold lk_run. apply lrun_inv with (P := lk_inv2 enc dec rt iv tmo now).
  - intros s a (I & U). split; [apply lk_ext_inv, I|].
    destruct a as [e|e|w|w|a]; cbn [lk_ext].
    + cbn [lk_ws]. intros i j q Hi Hj. rewrite map_app in Hi, Hj. cbn [map sw_q] in Hi, Hj.
      destruct I as ((ls0 & Hrun) & Q & _).
      assert (Hold : forall n, (n < length (lk_ws s))%nat -> nth_error (map sw_q (lk_ws s)) n = Some (Some q) ->
                               (q < length (hs_reqs (lk_peer s)))%nat).
      { intros n Hn Hnth. rewrite nth_error_map in Hnth. destruct (nth_error (lk_ws s) n) as [x|] eqn:Hx; [|discriminate].
        cbn in Hnth. inversion Hnth. destruct (Q n x Hx) as (A & _). eapply req_lt; [exact Hrun|apply A; assumption]. }
      assert (Hlen : length (map sw_q (lk_ws s)) = length (lk_ws s)) by apply map_length.
      destruct (Nat.lt_ge_cases i (length (lk_ws s))) as [Hi'|Hi']; destruct (Nat.lt_ge_cases j (length (lk_ws s))) as [Hj'|Hj'].
      * rewrite nth_error_app1 in Hi, Hj by lia. eapply U; eassumption.
      * rewrite nth_error_app1 in Hi by lia. rewrite nth_error_app2 in Hj by lia. apply Hold in Hi; [|exact Hi'].
        destruct (j - length (map sw_q (lk_ws s)))%nat as [|n]; [cbn in Hj; inversion Hj; lia|destruct n; discriminate].
      * rewrite nth_error_app1 in Hj by lia. rewrite nth_error_app2 in Hi by lia. apply Hold in Hj; [|exact Hj'].
        destruct (i - length (map sw_q (lk_ws s)))%nat as [|n]; [cbn in Hi; inversion Hi; lia|destruct n; discriminate].
      * rewrite nth_error_app2 in Hi, Hj by lia.
        destruct (i - length (map sw_q (lk_ws s)))%nat as [|n] eqn:Ei; [|destruct n; discriminate].
        destruct (j - length (map sw_q (lk_ws s)))%nat as [|m] eqn:Ej; [|destruct m; discriminate]. lia.
    + cbn [lk_ws]. intros i j q Hi Hj. rewrite map_app in Hi, Hj. cbn [map sw_q] in Hi, Hj.
      assert (Hlen : length (map sw_q (lk_ws s)) = length (lk_ws s)) by apply map_length.
      destruct (Nat.lt_ge_cases i (length (lk_ws s))) as [Hi'|Hi']; destruct (Nat.lt_ge_cases j (length (lk_ws s))) as [Hj'|Hj'].
      * rewrite nth_error_app1 in Hi, Hj by lia. eapply U; eassumption.
      * rewrite nth_error_app2 in Hj by lia.
        destruct (j - length (map sw_q (lk_ws s)))%nat as [|n]; [cbn in Hj; discriminate|destruct n; discriminate].
      * rewrite nth_error_app2 in Hi by lia.
        destruct (i - length (map sw_q (lk_ws s)))%nat as [|n]; [cbn in Hi; discriminate|destruct n; discriminate].
      * rewrite nth_error_app2 in Hi by lia.
        destruct (i - length (map sw_q (lk_ws s)))%nat as [|n]; [cbn in Hi; discriminate|destruct n; discriminate].
    + destruct (nth_error (lk_ws s) w) as [x|] eqn:Hx; [|exact U]. cbn [lk_ws]. unfold qs_uniq.
      rewrite (map_upd_q _ _ x) by (auto). exact U.
    + destruct (nth_error (lk_ws s) w) as [x|] eqn:Hx; [|exact U]. destruct (sw_res x); [exact U|].
      cbn [lk_ws]. unfold qs_uniq. rewrite (map_upd_q _ _ x) by auto. exact U.
    + exact U.
  - intros s r s' (I & U) Hin Hr. split; [eapply lk_int_inv; eassumption|].
    unfold lk_rules in Hin. apply in_app_iff in Hin as [Hin|Hin].
    + apply in_map_iff in Hin as (r0 & <- & _). unfold l_peer in Hr. destruct (r0 (lk_peer s)); [|discriminate].
      inversion Hr; subst. exact U.
    + apply in_flat_map in Hin as (w & _ & [<-|[<-|[]]]).
      * unfold l_answer in Hr. destruct (nth_error (lk_ws s) w) as [x|] eqn:Hx; [|discriminate].
        destruct (sw_res x); [discriminate|]. destruct (sw_q x); [|discriminate].
        destruct (answer_of n (hs_log (lk_peer s))); [|discriminate]. inversion Hr; subst. cbn [lk_ws]. unfold qs_uniq.
        rewrite (map_upd_q _ _ x) by auto. exact U.
      * unfold l_wctx in Hr. destruct (nth_error (lk_ws s) w) as [x|] eqn:Hx; [|discriminate].
        destruct (sw_res x); [discriminate|]. destruct (sw_ctx x); [|discriminate]. inversion Hr; subst. cbn [lk_ws]. unfold qs_uniq.
        rewrite (map_upd_q _ _ x) by auto. exact U.
  - split.
    + split; [exists []; reflexivity|]. split; [|split]; cbn; intros; try contradiction. destruct w; discriminate.
    + intros i j q Hi. destruct i; discriminate.
Qed.

(* ---------- the statements ---------- *)
(* a Write that returned nil: its POST was handed to the peer's ServeHTTP as ONE request (no other Write became that
   request, the peer saw no other body under that request number), the body is the encoded envelope, unchanged, the
   request was answered 200, hence delivered: some Read of the peer returned what the body decodes to; if the codec
   round-trips the envelope, that is the envelope written. The request was delivered once (http_at_most_once). *)
Theorem link_write_nil {E F} (enc : E -> F) dec rt iv tmo now ls (k : link E F) w x :
  lk_run enc dec rt iv tmo now ls = Some k -> nth_error (lk_ws k) w = Some x -> sw_res x = Some true ->
  exists q,
    sw_q x = Some q /\
    (forall w' x', nth_error (lk_ws k) w' = Some x' -> sw_q x' = Some q -> w' = w) /\
    In (HEvReq q (BBytes (enc (sw_env x)))) (hs_log (lk_peer k)) /\
    (forall b, In (HEvReq q b) (hs_log (lk_peer k)) -> b = BBytes (enc (sw_env x))) /\
    In (HEvResp q 200) (hs_log (lk_peer k)) /\
    (ndeliv q (hs_log (lk_peer k)) <= 1)%nat /\
    exists c r a e', In (HEvDeliver q c r) (hs_log (lk_peer k)) /\ In (HEvRead r (HROk e')) (hs_log (lk_peer k)) /\
                     dec (enc (sw_env x)) = Some e' /\ rt e' = RtAddr a /\
                     (dec (enc (sw_env x)) = Some (sw_env x) -> e' = sw_env x).
Proof.
  intros Hrun Hx Hres. destruct (lk_invariant2 enc dec rt iv tmo now ls k Hrun) as (((ls0 & Hp) & Q & _) & U).
  destruct (Q w x Hx) as (A & B & _). destruct (B Hres) as (q & Hq & H200). exists q.
  pose proof (A q Hq) as Hreq.
  destruct (h_full_invariant _ _ _ _ _ _ _ Hp) as (_ & _ & _ & L2 & _).
  split; [exact Hq|]. split.
  { intros w' x' Hx' Hq'. symmetry. apply (U w w' q); rewrite nth_error_map; [rewrite Hx|rewrite Hx']; cbn; congruence. }
  split; [exact Hreq|]. split; [intros b Hb; eapply L2; eassumption|]. split; [exact H200|].
  split; [apply (http_at_most_once dec rt iv tmo now ls0 _ q Hp)|].
  destruct (http_200_delivered dec rt iv tmo now ls0 _ q Hp H200) as (c & r & Hd).
  destruct (http_delivery_correct dec rt iv tmo now ls0 _ q c r Hp Hd) as (b & a & e' & Hb & Hcl & _ & Hrd & _).
  assert (b = BBytes (enc (sw_env x))) by (eapply L2; eassumption). subst b.
  unfold http_classify in Hcl. destruct (dec (enc (sw_env x))) as [e0|] eqn:Hdec; [|discriminate].
  destruct (rt e0) eqn:Hrt; try discriminate. inversion Hcl; subst.
  exists c, r, a, e'. repeat split; auto. intro H. inversion H. reflexivity.
Qed.

(* ---------- write order of a sequential writer ---------- *)
Lemma before_app_r {A} (a b : A) l m : before a b l -> before a b (l ++ m).
Proof. intros (l1 & l2 & l3 & ->). exists l1, l2, (l3 ++ m). rewrite <- !app_assoc. cbn. rewrite <- app_assoc. reflexivity. Qed.

Lemma last_or_nil {A} (l : list A) : l = [] \/ exists l' y, l = l' ++ [y].
Proof. destruct l as [|a l]; [left; reflexivity|right]. destruct (@exists_last A (a :: l)) as (l' & y & H); [discriminate|]. eauto. Qed.

Lemma before_snoc {A} (a b x : A) l : before a b (l ++ [x]) -> before a b l \/ (b = x /\ In a l).
Proof.
  intros (l1 & l2 & l3 & H). destruct (last_or_nil l3) as [->|(l3' & y & ->)].
  - right. replace (l1 ++ a :: l2 ++ [b]) with ((l1 ++ a :: l2) ++ [b]) in H by (rewrite <- app_assoc; reflexivity).
    apply app_inj_tail in H as [-> ->]. split; [reflexivity|]. apply in_or_app. right. left. reflexivity.
  - left. replace (l1 ++ a :: l2 ++ b :: l3' ++ [y]) with ((l1 ++ a :: l2 ++ b :: l3') ++ [y]) in H
      by (rewrite <- !app_assoc; cbn; rewrite <- app_assoc; reflexivity).
    apply app_inj_tail in H as [-> _]. exists l1, l2, l3'. reflexivity.
Qed.

Lemma before_intro {A} (a b : A) l m : In a l -> before a b (l ++ b :: m).
Proof. intro H. apply in_split in H as (l1 & l2 & ->). exists l1, l2, m. rewrite <- app_assoc. reflexivity. Qed.

Definition ord_inv {E F} (k : link E F) : Prop :=
  forall w1 w2 q2 x1 q1, before (SEvRet w1 true) (SEvPost w2 q2) (lk_log k) ->
    nth_error (lk_ws k) w1 = Some x1 -> sw_q x1 = Some q1 ->
    exists c r b, before (HEvDeliver q1 c r) (HEvReq q2 b) (hs_log (lk_peer k)).

Lemma ord_keep {E F} (k k' : link E F) :
  (lk_log k' = lk_log k \/ exists w r, lk_log k' = lk_log k ++ [SEvRet w r]) ->
  (exists evs, hs_log (lk_peer k') = hs_log (lk_peer k) ++ evs) ->
  (forall w1 x1' q1, nth_error (lk_ws k') w1 = Some x1' -> sw_q x1' = Some q1 ->
                     exists x1, nth_error (lk_ws k) w1 = Some x1 /\ sw_q x1 = Some q1) ->
  ord_inv k -> ord_inv k'.
Proof.
  intros Hlog (evs & Hp) Hws O w1 w2 q2 x1' q1 Hb Hx1' Hq1.
  destruct (Hws _ _ _ Hx1' Hq1) as (x1 & Hx1 & Hq).
  assert (Hb0 : before (SEvRet w1 true) (SEvPost w2 q2) (lk_log k)).
  { destruct Hlog as [Hl|(w & r & Hl)]; rewrite Hl in Hb; [exact Hb|]. apply before_snoc in Hb as [Hb|[Hb _]]; [exact Hb|discriminate]. }
  destruct (O w1 w2 q2 x1 q1 Hb0 Hx1 Hq) as (c & r & b & H).
  exists c, r, b. rewrite Hp. apply before_app_r, H.
Qed.

Lemma upd_keeps_q {E} (ws : list (swrite E)) w x x' :
  nth_error ws w = Some x -> sw_q x' = sw_q x ->
  forall w1 x1' q1, nth_error (upd w x' ws) w1 = Some x1' -> sw_q x1' = Some q1 ->
                    exists x1, nth_error ws w1 = Some x1 /\ sw_q x1 = Some q1.
Proof.
  intros Hx Hq w1 x1' q1 H H1. apply nth_error_upd_inv in H as [[-> ->]|[_ H]]; [exists x; split; [exact Hx|congruence]|eauto].
Qed.

Lemma post_log_shape {E F} (dec : F -> option E) rt (s : hst E F) b :
  exists tl, hs_log (h_ext dec rt s (HPost b)) = hs_log s ++ HEvReq (length (hs_reqs s)) b :: tl.
Proof.
  pose proof (http_post_step dec rt s b) as H. cbv zeta in H.
  destruct (http_classify dec rt b) as [why|a e].
  - destruct H as (-> & _). eauto.
  - destruct (tbl_lookup a (hs_tbl s)); destruct H as (-> & _); eauto.
Qed.

Lemma news_log {E F} (s s' : hst E F) : news_ok s s' -> exists evs, hs_log s' = hs_log s ++ evs.
Proof. intros (evs & H & _). eauto. Qed.

Lemma lk_ord_invariant {E F} (enc : E -> F) dec rt iv tmo now ls (k : link E F) :
  lk_run enc dec rt iv tmo now ls = Some k -> lk_inv enc dec rt iv tmo now k /\ ord_inv k.
Proof.
  unfold lk_run. apply lrun_inv with (P := fun k => lk_inv enc dec rt iv tmo now k /\ ord_inv k).
  - intros s a (I & O). split; [apply lk_ext_inv, I|].
    destruct a as [e|e|w|w|a]; cbn [lk_ext].
    + (* LWrite: the one step that creates new pairs *)
      intros w1 w2 q2 x1 q1 Hb Hx1 Hq1. cbn [lk_ws lk_peer lk_log] in *.
      destruct I as ((ls0 & Hrun) & Q & P3 & P4).
      destruct (post_log_shape dec rt (lk_peer s) (BBytes (enc e))) as (tl & Hshape).
      apply before_snoc in Hb as [Hb|[Hb Hin]].
      * assert (Hw1 : (w1 < length (lk_ws s))%nat).
        { destruct Hb as (l1 & l2 & l3 & Hl). apply (P4 w1 true). rewrite Hl. apply in_or_app. right. left. reflexivity. }
        rewrite nth_error_app1 in Hx1 by exact Hw1.
        destruct (O w1 w2 q2 x1 q1 Hb Hx1 Hq1) as (c & r & b & H). exists c, r, b. rewrite Hshape. apply before_app_r, H.
      * inversion Hb; subst w2 q2; clear Hb.
        assert (Hw1 : (w1 < length (lk_ws s))%nat) by (eapply P4; exact Hin).
        rewrite nth_error_app1 in Hx1 by exact Hw1.
        destruct (Q w1 x1 Hx1) as (_ & B & C & _). destruct (B (C Hin)) as (q & Hq & H200).
        assert (q = q1) by congruence. subst q.
        destruct (http_200_delivered dec rt iv tmo now ls0 _ q1 Hrun H200) as (c & r & Hd).
        exists c, r, (BBytes (enc e)). rewrite Hshape. apply before_intro, Hd.
    + eapply (ord_keep s); [right; eexists _, _; reflexivity|exists []; cbn; rewrite app_nil_r; reflexivity| |exact O].
      cbn [lk_ws]. intros w1 x1' q1 H Hq. destruct (Nat.lt_ge_cases w1 (length (lk_ws s))) as [Hl|Hg].
      * rewrite nth_error_app1 in H by exact Hl. eauto.
      * rewrite nth_error_app2 in H by exact Hg.
        destruct (w1 - length (lk_ws s))%nat as [|n] eqn:En; [|destruct n; discriminate].
        cbn in H. inversion H; subst. discriminate.
    + destruct (nth_error (lk_ws s) w) as [x|] eqn:Hx; [|exact O].
      eapply (ord_keep s); [left; reflexivity|exists []; cbn; rewrite app_nil_r; reflexivity| |exact O].
      cbn [lk_ws]. apply (upd_keeps_q _ _ x); auto.
    + destruct (nth_error (lk_ws s) w) as [x|] eqn:Hx; [|exact O]. destruct (sw_res x); [exact O|].
      eapply (ord_keep s); [right; eexists _, _; reflexivity|exists []; cbn; rewrite app_nil_r; reflexivity| |exact O].
      cbn [lk_ws]. apply (upd_keeps_q _ _ x); auto.
    + eapply (ord_keep s); [left; reflexivity|cbn [lk_peer]; apply news_log, h_ext_news| |exact O].
      cbn [lk_ws]. eauto.
  - intros s r s' (I & O) Hin Hr. split; [eapply lk_int_inv; eassumption|].
    unfold lk_rules in Hin. apply in_app_iff in Hin as [Hin|Hin].
    + apply in_map_iff in Hin as (r0 & <- & Hin0). unfold l_peer in Hr.
      destruct (r0 (lk_peer s)) as [p|] eqn:Er; [|discriminate]. inversion Hr; subst s'; clear Hr.
      eapply (ord_keep s); [left; reflexivity|cbn [lk_peer]; eapply news_log, h_int_news; eassumption| |exact O].
      cbn [lk_ws]. eauto.
    + apply in_flat_map in Hin as (w & _ & [<-|[<-|[]]]).
      * unfold l_answer in Hr. destruct (nth_error (lk_ws s) w) as [x|] eqn:Hx; [|discriminate].
        destruct (sw_res x); [discriminate|]. destruct (sw_q x); [|discriminate].
        destruct (answer_of n (hs_log (lk_peer s))); [|discriminate]. inversion Hr; subst s'; clear Hr.
        eapply (ord_keep s); [right; eexists _, _; reflexivity|exists []; cbn; rewrite app_nil_r; reflexivity| |exact O].
        cbn [lk_ws]. apply (upd_keeps_q _ _ x); auto.
      * unfold l_wctx in Hr. destruct (nth_error (lk_ws s) w) as [x|] eqn:Hx; [|discriminate].
        destruct (sw_res x); [discriminate|]. destruct (sw_ctx x); [|discriminate]. inversion Hr; subst s'; clear Hr.
        eapply (ord_keep s); [right; eexists _, _; reflexivity|exists []; cbn; rewrite app_nil_r; reflexivity| |exact O].
        cbn [lk_ws]. apply (upd_keeps_q _ _ x); auto.
  - split.
    + split; [exists []; reflexivity|]. split; [|split]; cbn; intros; try contradiction. destruct w; discriminate.
    + intros w1 w2 q2 x1 q1 (l1 & l2 & l3 & H). cbn in H. destruct l1; discriminate.
Qed.

(* write order under a single sequential writer: if Write w1 had returned nil before Write w2 was issued, the
   envelope of w1 was delivered to a Read of the peer before the request of w2 even reached the peer - so the
   peer's readers see the two in write order *)
Theorem link_write_order {E F} (enc : E -> F) dec rt iv tmo now ls (k : link E F) w1 w2 x1 q1 q2 :
  lk_run enc dec rt iv tmo now ls = Some k ->
  before (SEvRet w1 true) (SEvPost w2 q2) (lk_log k) ->
  nth_error (lk_ws k) w1 = Some x1 -> sw_q x1 = Some q1 ->
  exists c r b, before (HEvDeliver q1 c r) (HEvReq q2 b) (hs_log (lk_peer k)).
Proof. intros Hrun. destruct (lk_ord_invariant enc dec rt iv tmo now ls k Hrun) as (_ & O). apply O. Qed.

(* ---------- with the concrete wire format ---------- *)
From Goat Require Import Base.Bytes Model.WireFormat Proofs.WireFormatProofs.

(* written without error => read, equal: for every canonical envelope, whatever its size *)
Theorem link_write_nil_read rt iv tmo now ls (k : link rpc bytes) w x :
  lk_run encode decode rt iv tmo now ls = Some k -> nth_error (lk_ws k) w = Some x -> sw_res x = Some true ->
  wf (sw_env x) = true ->
  exists r, In (HEvRead r (HROk (sw_env x))) (hs_log (lk_peer k)).
Proof.
  intros Hrun Hx Hres Hwf.
  destruct (link_write_nil encode decode rt iv tmo now ls k w x Hrun Hx Hres)
    as (q & _ & _ & _ & _ & _ & _ & c & r & a & e' & _ & Hrd & _ & _ & Heq).
  rewrite (Heq (decode_encode _ Hwf)) in Hrd. eauto.
Qed.

(* C06, unary half on Model/Server.v: shape of unary responses, at most / exactly one response per request. *)
From Coq Require Import List ZArith Bool Lia Arith.
Import ListNotations.
From Goat Require Import Model.Client Model.Server Proofs.ServerProofs Proofs.ServerInv Proofs.ServerTrace Proofs.ServerLive
  Proofs.ServerOrigin Proofs.ServerWriter Proofs.ServerProbe.
Open Scope Z_scope.

(* ---------- C06, unary half on Model/Server.v ---------- *)
Definition umth (f : frame) : bool := match f_mth f with MUnary _ => true | _ => false end.
Definition smth (f : frame) : bool := match f_mth f with MStream _ => true | _ => false end.
(* the shape of a unary response: header and trailer present, no reset *)
Definition ushape (f : frame) : bool := has_hdr f && has_trl f && negb (is_rst f).

Lemma umth_unary f : dispatch f = DUnary -> umth f = true.
Proof. intros H. destruct (req_unary_mth f H) as [m Hm]. unfold umth. now rewrite Hm. Qed.
Lemma smth_stream f : dispatch f = DStream -> smth f = true.
Proof. intros H. destruct (req_stream_mth f H) as [m Hm]. unfold smth. now rewrite Hm. Qed.
Lemma smth_not_umth f : smth f = true -> umth f = false.
Proof. unfold umth, smth. destruct (f_mth f); congruence. Qed.
Lemma umth_not_smth f : umth f = true -> smth f = false.
Proof. unfold umth, smth. destruct (f_mth f); congruence. Qed.

(* what is on its way to the writer: a worker holds a unary response, a stream handler a stream envelope, the read
   loop (resetStream) a stream envelope's reset *)
Record minv (s : state) : Prop := mkM {
  m_wk : forall w f, nth_error (wk s) w = Some (WkHand f) -> umth f = true /\ ushape f = true;
  m_hs : forall h k f c, nth_error (hs s) h = Some k -> h_pc k = HInSend f c -> smth f = true;
  m_taken : forall f, In (SvTaken f) (log s) -> (umth f = true /\ ushape f = true) \/ smth f = true }.

Lemma minv_init nw : minv (init_n nw).
Proof.
  constructor; simpl; try (intros; contradiction).
  - intros w f H. apply nth_repeat in H. discriminate.
  - intros h k f c H. destruct h; discriminate.
Qed.

Definition mctx (s : state) : Prop := inv_hdr s /\ inv_dispatch s.

Lemma sig_unary s h k : inv_dispatch s -> nth_error (hs s) h = Some k -> h_unary k = true -> dispatch (h_req k) = DUnary.
Proof.
  intros [_ Hreq] Hn U. assert (Hs : In (true, h_req k) (sigs s)).
  { unfold sigs. apply in_map_iff. exists k. split; [unfold hsig; now rewrite U | eapply nth_error_In; eauto]. }
  specialize (Hreq _ Hs). simpl in Hreq. tauto.
Qed.
Lemma sig_stream s h k : inv_dispatch s -> nth_error (hs s) h = Some k -> h_unary k = false -> dispatch (h_req k) = DStream.
Proof.
  intros [_ Hreq] Hn U. assert (Hs : In (false, h_req k) (sigs s)).
  { unfold sigs. apply in_map_iff. exists k. split; [unfold hsig; now rewrite U | eapply nth_error_In; eauto]. }
  specialize (Hreq _ Hs). simpl in Hreq. tauto.
Qed.

Lemma minv_hstep s h k o : mctx s -> minv s -> nth_error (hs s) h = Some k -> h_pc k = HGate -> minv (hstep s h k o).
Proof.
  intros [Ih Id] [M1 M2 M3] Hn Hp.
  assert (HU : h_unary k = true -> umth (h_req k) = true) by (intros U; apply umth_unary; eapply sig_unary; eauto).
  assert (HS : h_unary k = false -> smth (h_req k) = true) by (intros U; apply smth_stream; eapply sig_stream; eauto).
  unfold hstep. destruct (h_unary k) eqn:Hu, o; try destruct (h_hsent k) eqn:Hs; sproj.
  all: constructor; sproj; intros; otac; simpl in *; eauto.
  all: try (match goal with H : HInSend _ _ = HInSend _ _ |- _ => inversion H; subst; clear H end; apply HS; reflexivity).
  all: try (match goal with H : In _ (_ ++ _) |- _ => in_log H; eauto end).
  all: try (apply finish_unary_nth in H; destruct H as (p0 & Hw & [[Hp0 _]|[Hp0 Hf]]); subst; eauto;
            inversion Hf; subst; split; [apply HU; reflexivity | reflexivity]).
Qed.

Lemma minv_ext s a : mctx s -> minv s -> minv (ext s a).
Proof.
  intros C M. destruct a; simpl; try (destruct M as [M1 M2 M3]; constructor; sproj; auto; fail).
  destruct (nth_error (hs s) h) as [k|] eqn:E; auto. destruct (h_pc k) eqn:Ep; auto. apply minv_hstep; auto.
Qed.

Ltac m_tac := constructor; sproj; intros; otac; simpl in *; eauto;
              try (match goal with H : In _ (_ ++ _) |- _ => in_log H; eauto end).

Lemma minv_int s i s' : mctx s -> minv s -> rule_of i s = Some s' -> minv s'.
Proof.
  intros [[_ Ihd] Id] [M1 M2 M3] H. destruct i; simpl in H.
  all: try (start_rule H; m_tac; fail).
  - (* r_rd_read *)
    unfold r_rd_read in H. destruct (rd s); try discriminate. destruct (inbox s) as [|f rest].
    + destr_in H; inv_some H; m_tac.
    + destruct (dispatch f); inv_some H; try (m_tac; fail).
      unfold stream_dispatch. sproj.
      destruct (find_reg (fid f) (hs s) 0) as [g|];
        [destruct (is_rst f); [destruct (nth_error (hs s) g) eqn:Eg|]
        |destruct (is_rst f); [|destruct (has_body f); [|destruct (has_trl f); [|destruct (md_bad f)]]]];
        m_tac.
  - (* r_rd_offer *)
    unfold r_rd_offer in H. destruct (rd s) eqn:Erd; try discriminate. destruct (find_idle (wk s) 0); [|discriminate]. inv_some H.
    assert (Hu : umth f = true) by (apply umth_unary; exact Ihd).
    assert (Hh : has_hdr f = true) by (apply dispatch_hdr; congruence).
    unfold start_unary. rewrite Hh. simpl negb. cbv iota.
    destruct (md_bad f); [|destruct (body_tok f <? 0)]; m_tac.
  - (* r_rd_rst *)
    unfold r_rd_rst in H. destruct (rd s) eqn:Erd; try discriminate. destruct (wr s); try discriminate.
    destruct (has_hdr f); inv_some H; m_tac.
    inversion H; subst. right. exact (smth_stream f Ihd).
  - (* r_wk_hand *)
    start_rule H. m_tac.
    all: try (match goal with E : SvTaken _ = SvTaken _ |- _ => inversion E; subst end); left; eauto.
  - (* r_h_send *)
    start_rule H; m_tac.
    all: try (match goal with E : SvTaken _ = SvTaken _ |- _ => inversion E; subst end); right; eauto.
Qed.

Theorem minv_reach nw ls s : lrun (init_n nw) ls = Some s -> minv s.
Proof.
  intros H. assert (G : mctx s /\ minv s).
  { revert H. apply (lrun_inv (fun s => mctx s /\ minv s)).
    - intros s0 a [[I1 I2] M]. split; [split; [now apply inv_hdr_ext | eapply inv_dispatch_step; [eassumption | now apply step_ok_ext]] |].
      apply minv_ext; [split; assumption | assumption].
    - intros s0 i s1 [[I1 I2] M] Hr. split.
      + split; [eapply inv_hdr_int; eassumption | eapply inv_dispatch_step; [eassumption | eapply step_ok_int; eassumption]].
      + eapply minv_int; [split; eassumption | eassumption | eassumption].
    - split; [split; [apply inv_hdr_init | split; [reflexivity | intros p []]] | apply minv_init]. }
  apply G.
Qed.

(* every envelope with a unary method that the writer takes (hence every one on the wire) has the shape of a unary
   response: header and trailer present, no reset *)
Theorem srv_unary_resp_shape nw ls s f : lrun (init_n nw) ls = Some s ->
  In (SvTaken f) (log s) -> umth f = true -> ushape f = true.
Proof.
  intros H Hin Hu. destruct (m_taken s (minv_reach nw ls s H) f Hin) as [[_ Hs] | Hs]; [exact Hs|].
  rewrite (umth_not_smth f Hu) in Hs. discriminate.
Qed.

(* ---------- at most one response per request: counting per id ---------- *)
Definition cnt (i : Z) (l : list frame) : nat := length (filter (fun f => fid f =? i) l).
Definition lost_of (l : list sev) : list frame := flat_map (fun e => match e with SvLost f => [f] | _ => [] end) l.
Definition utaken (l : list sev) : list frame := filter umth (taken_of l).
Definition ulost (l : list sev) : list frame := filter umth (lost_of l).
Definition jobs (l : list sev) : list frame := flat_map (fun e => match e with SvJob _ f => [f] | _ => [] end) l.

(* worker p is busy with a request of id i *)
Definition busyp (i : Z) (l : list hnd) (p : wkpc) : bool :=
  match p with
  | WkRun h => match nth_error l h with Some k => fid (h_req k) =? i | None => false end
  | WkHand f => fid f =? i
  | _ => false
  end.
Definition busy (i : Z) (s : state) : nat := length (filter (busyp i (hs s)) (wk s)).

Definition cinv (s : state) : Prop :=
  forall i, cnt i (jobs (log s)) = (busy i s + cnt i (utaken (log s)) + cnt i (ulost (log s)))%nat.

Lemma cnt_app i a b : cnt i (a ++ b) = (cnt i a + cnt i b)%nat.
Proof. unfold cnt. now rewrite filter_app, app_length. Qed.
Lemma jobs_app a b : jobs (a ++ b) = jobs a ++ jobs b.
Proof. apply flat_map_app. Qed.
Lemma utaken_app a b : utaken (a ++ b) = utaken a ++ utaken b.
Proof. unfold utaken, taken_of. now rewrite flat_map_app, filter_app. Qed.
Lemma ulost_app a b : ulost (a ++ b) = ulost a ++ ulost b.
Proof. unfold ulost, lost_of. now rewrite flat_map_app, filter_app. Qed.

(* replacing one worker *)
Lemma filter_upd_len {A} (P : A -> bool) w p (l : list A) p0 :
  nth_error l w = Some p0 ->
  (length (filter P (upd w p l)) + (if P p0 then 1 else 0) = length (filter P l) + (if P p then 1 else 0))%nat.
Proof.
  revert w. induction l as [|a l IH]; intros [|w] H; simpl in *; try discriminate.
  - inversion H; subst. destruct (P p0), (P p); simpl; lia.
  - specialize (IH w H). destruct (P a); simpl; lia.
Qed.

Lemma filter_ext_len {A} (P Q : A -> bool) l : (forall x, In x l -> P x = Q x) -> length (filter P l) = length (filter Q l).
Proof.
  induction l as [|a l IH]; intros H; [reflexivity|]. simpl. rewrite (H a (or_introl eq_refl)).
  destruct (Q a); simpl; rewrite IH; auto; intros x Hx; apply H; now right.
Qed.

(* a step that leaves the workers, the requests of the handlers and the four projections alone *)
Lemma cinv_quiet s s' evs :
  cinv s -> log s' = log s ++ evs -> jobs evs = [] -> utaken evs = [] -> ulost evs = [] -> wk s' = wk s ->
  (forall p, In p (wk s) -> forall i, busyp i (hs s') p = busyp i (hs s) p) -> cinv s'.
Proof.
  intros C El Ej Et Elo Ew Hb i. rewrite El, jobs_app, utaken_app, ulost_app, Ej, Et, Elo, !app_nil_r.
  unfold busy. rewrite Ew, (filter_ext_len (busyp i (hs s')) (busyp i (hs s))) by (intros; now apply Hb). apply C.
Qed.

Lemma busyp_upd i l g k k' p :
  nth_error l g = Some k -> h_req k' = h_req k -> busyp i (upd g k' l) p = busyp i l p.
Proof.
  intros Hn Hq. destruct p; simpl; auto. destruct (Nat.eq_dec g h) as [->|Hne].
  - rewrite nth_upd_same by (eapply nth_error_lt; eauto). now rewrite Hn, Hq.
  - now rewrite nth_upd_other.
Qed.

Lemma busyp_app i l x p : (forall h, p = WkRun h -> (h < length l)%nat) -> busyp i (l ++ [x]) p = busyp i l p.
Proof. intros H. destruct p; simpl; auto. rewrite nth_error_app1 by (apply H; reflexivity). reflexivity. Qed.

Lemma filter_map_len {A} (P P' : A -> bool) (g : A -> A) l :
  (forall x, In x l -> P' (g x) = P x) -> length (filter P' (map g l)) = length (filter P l).
Proof.
  induction l as [|a l IH]; intros H; [reflexivity|]. simpl. rewrite (H a (or_introl eq_refl)).
  destruct (P a); simpl; rewrite IH; auto; intros x Hx; apply H; now right.
Qed.

Lemma quiet_projs evs :
  (forall ev, In ev evs -> match ev with SvOp _ _ | SvRet _ | SvReply _ _ | SvTrailer _ _ => True | _ => False end) ->
  jobs evs = [] /\ utaken evs = [] /\ ulost evs = [].
Proof.
  induction evs as [|e evs IH]; intros H; [repeat split|].
  destruct (IH (fun x Hx => H x (or_intror Hx))) as [A [B C]]. specialize (H e (or_introl eq_refl)).
  unfold jobs, utaken, ulost, taken_of, lost_of in *. simpl. rewrite !filter_app, A, B, C.
  destruct e; try contradiction; repeat split; reflexivity.
Qed.

Lemma cinv_hstep s h k o : cinv s -> nth_error (hs s) h = Some k -> h_pc k = HGate -> cinv (hstep s h k o).
Proof.
  intros C Hn Hg. destruct (hstep_log s h k o) as [evs [E Hev]]. destruct (quiet_projs evs Hev) as [Ej [Et El]].
  destruct (hstep_shape s h k o Hn Hg) as [k' [Hhs [Hu [Hr [_ [_ [Hq _]]]]]]].
  intros i. rewrite E, jobs_app, utaken_app, ulost_app, Ej, Et, El, !app_nil_r. rewrite (C i). f_equal. f_equal. symmetry.
  unfold busy. rewrite Hhs.
  assert (Hb : forall p, busyp i (upd h k' (hs s)) p = busyp i (hs s) p) by (intros; now apply busyp_upd with (k := k)).
  revert Hhs. unfold hstep. destruct (h_unary k) eqn:U, o; try destruct (h_hsent k); sproj; intros _;
    try (apply filter_ext_len; intros; apply Hb).
  (* the unary handler returns: its worker's WkRun h becomes WkHand (the response, same id) *)
  all: unfold finish_unary; apply filter_map_len; intros p _; destruct p; try apply Hb;
       destruct (Nat.eqb_spec h0 h) as [->|Hne]; [|apply Hb]; simpl; rewrite Hn; reflexivity.
Qed.

Lemma cinv_ext s a : cinv s -> cinv (ext s a).
Proof.
  intros C. destruct a; simpl; try exact C.
  destruct (nth_error (hs s) h) as [k|] eqn:E; auto. destruct (h_pc k) eqn:Ep; auto. apply cinv_hstep; auto.
Qed.

Ltac cq_tac C :=
  eapply (cinv_quiet _ _ _ C);
  [ sproj; first [reflexivity | symmetry; apply app_nil_r]
  | reflexivity
  | unfold utaken, taken_of; simpl; try reflexivity
  | unfold ulost, lost_of; simpl; try reflexivity
  | sproj; reflexivity
  | intros ? ? ?; sproj; try reflexivity;
    try (match goal with Hn : nth_error (hs _) ?h = Some ?k |- _ => apply (busyp_upd _ _ h k _ _ Hn); reflexivity end) ].

Lemma cinv_int nw s i s' : inv nw s -> inv_hdr s -> minv s -> cinv s -> rule_of i s = Some s' -> cinv s'.
Proof.
  intros Iv [_ Ihd] [M1 M2 M3] C H. destruct i; simpl in H.
  all: try (start_rule H; cq_tac C; fail).
  - (* r_rd_read *)
    unfold r_rd_read in H. destruct (rd s) eqn:Erd; try discriminate. destruct (inbox s) as [|f rest].
    + destr_in H; inv_some H; cq_tac C.
    + destruct (dispatch f); inv_some H; try (cq_tac C; fail).
      unfold stream_dispatch. sproj.
      destruct (find_reg (fid f) (hs s) 0) as [g|];
        [destruct (is_rst f); [destruct (nth_error (hs s) g) eqn:Eg|]
        |destruct (is_rst f); [|destruct (has_body f); [|destruct (has_trl f); [|destruct (md_bad f)]]]];
        try (cq_tac C; fail).
      eapply (cinv_quiet _ _ _ C); [sproj; rewrite <- app_assoc; reflexivity | reflexivity | reflexivity | reflexivity | sproj; reflexivity|].
      intros p Hp j. sproj. apply busyp_app. intros h0 ->. apply In_nth_error in Hp. destruct Hp as [w Hw].
      destruct (i_wk_run nw s Iv w h0 Hw) as [k [Hk _]]. eapply nth_error_lt; eauto.
  - (* r_rd_offer *)
    unfold r_rd_offer in H. destruct (rd s) eqn:Erd; try discriminate.
    destruct (find_idle (wk s) 0) as [w|] eqn:Ew; [|discriminate]. inv_some H.
    destruct (find_idle_spec _ _ _ Ew) as [_ Hw]. rewrite Nat.sub_0_r in Hw.
    assert (Hh : has_hdr f = true) by (apply dispatch_hdr; congruence).
    unfold start_unary. rewrite Hh. simpl negb. cbv iota.
    assert (Hstep : forall p l', (forall j, busyp j l' p = (fid f =? j)) ->
              (forall q, In q (wk s) -> forall j, busyp j l' q = busyp j (hs s) q) ->
              forall j evs', jobs evs' = [] -> utaken evs' = [] -> ulost evs' = [] ->
              cnt j (jobs ((log s ++ [SvJob w f]) ++ evs')) =
              (length (filter (busyp j l') (upd w p (wk s))) + cnt j (utaken ((log s ++ [SvJob w f]) ++ evs'))
               + cnt j (ulost ((log s ++ [SvJob w f]) ++ evs')))%nat).
    { intros p l' Hp Hq j evs' E1 E2 E3. rewrite !jobs_app, !utaken_app, !ulost_app, E1, E2, E3, ?app_nil_r.
      change (utaken [SvJob w f]) with (@nil frame). change (ulost [SvJob w f]) with (@nil frame).
      change (jobs [SvJob w f]) with [f]. rewrite ?app_nil_r, cnt_app. rewrite (C j). unfold busy. sproj.
      pose proof (filter_upd_len (busyp j l') w p (wk s) WkIdle Hw) as Hl. simpl in Hl. rewrite Hp in Hl.
      rewrite (filter_ext_len (busyp j l') (busyp j (hs s)) (wk s)) in Hl by (intros; now apply Hq).
      assert (Ec : cnt j [f] = if fid f =? j then 1%nat else 0%nat) by (unfold cnt; simpl; destruct (fid f =? j); reflexivity).
      rewrite Ec. destruct (fid f =? j); simpl in *; lia. }
    destruct (md_bad f); [|destruct (body_tok f <? 0)].
    + intros j. sproj. rewrite <- (app_nil_r (log s ++ [SvJob w f])). apply Hstep; auto.
    + intros j. sproj. rewrite <- (app_nil_r (log s ++ [SvJob w f])). apply Hstep; auto.
    + intros j. sproj. apply Hstep; auto.
      * intros j'. simpl. rewrite nth_error_app2 by lia. rewrite Nat.sub_diag. reflexivity.
      * intros q Hq j'. apply busyp_app. intros h0 ->. apply In_nth_error in Hq. destruct Hq as [w' Hw'].
        destruct (i_wk_run nw s Iv w' h0 Hw') as [k [Hk _]]. eapply nth_error_lt; eauto.
  - (* r_rd_rst *)
    unfold r_rd_rst in H. destruct (rd s) eqn:Erd; try discriminate. destruct (wr s); try discriminate.
    destruct (has_hdr f); inv_some H; [|cq_tac C].
    assert (Hu : umth (rst_reply f) = false) by (apply smth_not_umth; exact (smth_stream f Ihd)).
    cq_tac C. now rewrite Hu.
  - (* r_wk_hand *)
    start_rule H. destruct (M1 w f Heqo) as [Hu _]. intros j. sproj.
    rewrite jobs_app, utaken_app, ulost_app.
    assert (E1 : utaken [SvTaken f] = [f]) by (unfold utaken, taken_of; simpl; now rewrite Hu).
    change (jobs [SvTaken f]) with (@nil frame). change (ulost [SvTaken f]) with (@nil frame). rewrite E1, ?app_nil_r, cnt_app.
    rewrite (C j). unfold busy. sproj.
    pose proof (filter_upd_len (busyp j (hs s)) w WkIdle (wk s) (WkHand f) Heqo) as Hl. simpl in Hl.
    assert (Ec : cnt j [f] = if fid f =? j then 1%nat else 0%nat) by (unfold cnt; simpl; destruct (fid f =? j); reflexivity).
    rewrite Ec. destruct (fid f =? j); simpl in *; lia.
  - (* r_wk_hand_ctx *)
    start_rule H. destruct (M1 w f Heqo) as [Hu _]. intros j. sproj.
    rewrite jobs_app, utaken_app, ulost_app.
    assert (E1 : ulost [SvLost f] = [f]) by (unfold ulost, lost_of; simpl; now rewrite Hu).
    change (jobs [SvLost f]) with (@nil frame). change (utaken [SvLost f]) with (@nil frame). rewrite E1, ?app_nil_r, cnt_app.
    rewrite (C j). unfold busy. sproj.
    pose proof (filter_upd_len (busyp j (hs s)) w WkDead (wk s) (WkHand f) Heqo) as Hl. simpl in Hl.
    assert (Ec : cnt j [f] = if fid f =? j then 1%nat else 0%nat) by (unfold cnt; simpl; destruct (fid f =? j); reflexivity).
    rewrite Ec. destruct (fid f =? j); simpl in *; lia.
  - (* r_wk_exit *)
    start_rule H. intros j. sproj. rewrite (C j). unfold busy. sproj.
    pose proof (filter_upd_len (busyp j (hs s)) w WkDead (wk s) WkIdle Heqo) as Hl. simpl in Hl. lia.
  - (* r_h_send *)
    start_rule H;
      (assert (Hu : umth f = false) by (apply smth_not_umth; eapply M2; eauto)); cq_tac C; now rewrite Hu.
  - (* r_h_send_ctx *)
    start_rule H; try (cq_tac C; fail).
    assert (Hu : umth f = false) by (apply smth_not_umth; eapply M2; eauto). cq_tac C. now rewrite Hu.
  - (* r_h_unreg *)
    unfold r_h_unreg in H. destruct (nth_error (hs s) h) as [k|] eqn:Hn; [|discriminate].
    destruct (h_pc k); try discriminate. destruct (mu_free s); [|discriminate].
    assert (E0 : forall p j, busyp j (upd h (hset_pc k HDead) (hs s)) p = busyp j (hs s) p)
      by (intros; apply (busyp_upd _ _ h k _ _ Hn); reflexivity).
    destruct (find_reg _ _ _) as [g|]; [destruct (nth_error _ g) as [kg|] eqn:Hg|]; inv_some H.
    + eapply (cinv_quiet _ _ _ C); [sproj; reflexivity | reflexivity | reflexivity | reflexivity | sproj; reflexivity|].
      intros p _ j. sproj. rewrite (busyp_upd _ _ g kg _ _ Hg) by reflexivity. apply E0.
    + eapply (cinv_quiet _ _ [] C); [sproj; now rewrite app_nil_r | reflexivity | reflexivity | reflexivity | sproj; reflexivity|].
      intros p _ j. sproj. apply E0.
    + eapply (cinv_quiet _ _ [] C); [sproj; now rewrite app_nil_r | reflexivity | reflexivity | reflexivity | sproj; reflexivity|].
      intros p _ j. sproj. apply E0.
Qed.

Lemma cinv_init nw : cinv (init_n nw).
Proof.
  intros i. unfold busy. simpl. replace (filter (busyp i []) (repeat WkIdle nw)) with (@nil wkpc); [reflexivity|].
  induction nw as [|n IH]; simpl; auto.
Qed.

Theorem cinv_reach nw ls s : lrun (init_n nw) ls = Some s -> cinv s.
Proof.
  intros H. assert (G : (inv nw s /\ mctx s /\ minv s) /\ cinv s).
  { revert H. apply (lrun_inv (fun s => (inv nw s /\ mctx s /\ minv s) /\ cinv s)).
    - intros s0 a [[I1 [[I2 I3] M]] C]. split; [|now apply cinv_ext].
      split; [now apply inv_ext|]. split; [split; [now apply inv_hdr_ext | eapply inv_dispatch_step; [eassumption | now apply step_ok_ext]]|].
      apply minv_ext; [split; assumption | assumption].
    - intros s0 i s1 [[I1 [[I2 I3] M]] C] Hr. split.
      + split; [eapply inv_int; eassumption|]. split; [split; [eapply inv_hdr_int; eassumption | eapply inv_dispatch_step; [eassumption | eapply step_ok_int; eassumption]]|].
        eapply minv_int; [split; eassumption | eassumption | eassumption].
      + eapply (cinv_int nw); eassumption.
    - split; [split; [apply inv_init | split; [split; [apply inv_hdr_init | split; [reflexivity | intros p []]] | apply minv_init]]|].
      apply cinv_init. }
  apply G.
Qed.

(* per id: the unary requests handed to workers are exactly accounted for by the workers still busy with one, the
   unary responses the writer has taken and those given up because the connection ended *)
Theorem srv_unary_count nw ls s i : lrun (init_n nw) ls = Some s ->
  cnt i (jobs (log s)) = (busy i s + cnt i (utaken (log s)) + cnt i (ulost (log s)))%nat.
Proof. intros H. apply (cinv_reach nw ls s H). Qed.

(* at most one response per request: per id, the unary responses taken by the writer (a fortiori those written)
   are at most as many as the unary requests with that id handed to a worker (at most as many as were read) *)
Corollary srv_unary_at_most_once nw ls s i : lrun (init_n nw) ls = Some s ->
  (cnt i (utaken (log s)) <= cnt i (jobs (log s)))%nat.
Proof. intros H. rewrite (srv_unary_count nw ls s i H). lia. Qed.

(* exactly one (Q): in a quiescent state with idle workers and a live connection every unary request handed to a
   worker has had its response taken - and written (srv_taken_written + no failed write) *)
Corollary srv_unary_exactly_once nw ls s i : lrun (init_n nw) ls = Some s ->
  (forall w p, nth_error (wk s) w = Some p -> p = WkIdle) -> hctx_done s = false ->
  cnt i (utaken (log s)) = cnt i (jobs (log s)).
Proof.
  intros H Hidle Hc. rewrite (srv_unary_count nw ls s i H).
  assert (Hb : busy i s = 0%nat).
  { unfold busy. destruct (filter (busyp i (hs s)) (wk s)) as [|p l] eqn:E; [reflexivity|]. exfalso.
    assert (Hin : In p (filter (busyp i (hs s)) (wk s))) by (rewrite E; now left).
    apply filter_In in Hin. destruct Hin as [Hin Hp]. apply In_nth_error in Hin. destruct Hin as [w Hw].
    rewrite (Hidle w p Hw) in Hp. discriminate. }
  assert (Hl : cnt i (ulost (log s)) = 0%nat).
  { unfold cnt. destruct (filter (fun f => fid f =? i) (ulost (log s))) as [|f l] eqn:E; [reflexivity|]. exfalso.
    assert (Hin : In f (filter (fun f => fid f =? i) (ulost (log s)))) by (rewrite E; now left).
    apply filter_In in Hin. destruct Hin as [Hin _]. unfold ulost in Hin. apply filter_In in Hin. destruct Hin as [Hin Hu].
    unfold lost_of in Hin. apply in_flat_map in Hin. destruct Hin as [e [He Hf]]. destruct e; try contradiction.
    destruct Hf as [<- | []].
    destruct (p_lost s (pinv_reach nw ls s H) f0 He) as [Hd | [m Hm]]; [congruence|].
    unfold umth in Hu. rewrite Hm in Hu. discriminate. }
  rewrite Hb, Hl. lia.
Qed.

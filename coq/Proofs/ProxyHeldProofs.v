(* The held-loop model (Model/ProxyHeld.v): it refines Model/Proxy.v (every theorem about reachable states of the
   base model holds of the base part of every reachable held state: nothing is lost, order is kept, ... while the
   loop is held); a forward once begun can ALWAYS be ended, whatever the other records are doing (isolation as a
   theorem about a model in which a busy loop is expressible); only the environment (a user callback) can keep the
   loop busy. *)
From Coq Require Import List ZArith Bool Lia Arith.
Import ListNotations.
From Goat Require Import Model.Proxy Model.ProxyHeld Proofs.ProxyProofs Proofs.ProxyOrder Proofs.ProxyWire Proofs.ProxyMeasure.
Open Scope nat_scope.

Lemma apply_in_rules cf k j s s' : apply_rule cf k j s = Some s' -> In (apply_rule cf k j) (rules cf s).
Proof.
  intros H. destruct k; simpl in *; try apply rules_has_exit;
    (apply rules_has_client; [| unfold per_client_rules; simpl; tauto]);
    unfold r_fw_cmd, r_fw_err_rd, r_fw_err_wr, r_fw_err_dl, r_rd_read, r_rd_ctx, r_rd_giveup, r_wr_take, r_wr_exit,
      r_wr_write, r_wr_ctx, r_wr_giveup, r_dl_giveup in H;
    try (destruct (fw s); try discriminate);
    (destruct (nth_error (clients s) j) eqn:E; try discriminate; eapply nth_some_lt; eauto).
Qed.

Lemma rule_reach cf s r s' : reachable cf s -> In r (rules cf s) -> r s = Some s' -> reachable cf s'.
Proof.
  intros (ls & Hr) Hin H. apply In_nth_error in Hin. destruct Hin as (n & Hn).
  exists (ls ++ [LInt n]). rewrite lrun_app, Hr. simpl. rewrite Hn, H. auto.
Qed.

Lemma ext_reach cf s a : reachable cf s -> reachable cf (ext s a).
Proof. intros (ls & Hr). exists (ls ++ [LExt a]). rewrite lrun_app, Hr. simpl. auto. Qed.

Lemma hstep_reach cf h l h' : reachable cf (base h) -> hstep cf h l = Some h' -> reachable cf (base h').
Proof.
  intros R H. destruct l; simpl in H.
  - inversion H; subst; simpl. apply ext_reach; auto.
  - destruct (match loop h with Idle => true | InForward j0 => _ | InCallback _ => _ end); try discriminate.
    destruct (apply_rule cf k j (base h)) eqn:E; try discriminate. inversion H; subst; simpl.
    eapply rule_reach; eauto. eapply apply_in_rules; eauto.
  - destruct (loop h); try discriminate. destruct (fw (base h) && offers_env (base h) j); try discriminate.
    inversion H; subst; simpl; auto.
  - destruct (loop h); try discriminate. destruct (r_fw_cmd cf j (base h)) eqn:E; try discriminate.
    inversion H; subst; simpl. eapply rule_reach; eauto. apply (apply_in_rules cf KFwCmd j _ _ E).
  - destruct (loop h); try discriminate.
    destruct k as [|[|k]].
    + destruct (r_fw_err_rd j (base h)) eqn:E; try discriminate. inversion H; subst; simpl.
      eapply rule_reach; eauto. apply (apply_in_rules cf KFwErrRd j _ _ E).
    + destruct (r_fw_err_wr j (base h)) eqn:E; try discriminate. inversion H; subst; simpl.
      eapply rule_reach; eauto. apply (apply_in_rules cf KFwErrWr j _ _ E).
    + destruct (r_fw_err_dl j (base h)) eqn:E; try discriminate. inversion H; subst; simpl.
      eapply rule_reach; eauto. apply (apply_in_rules cf KFwErrDl j _ _ E).
  - destruct (loop h); try discriminate. inversion H; subst; simpl; auto.
Qed.

(* refinement: the base part of every reachable held state is a reachable state of Model/Proxy.v *)
Lemma hrun_reach cf : forall ls h h', reachable cf (base h) -> hrun cf h ls = Some h' -> reachable cf (base h').
Proof.
  induction ls; intros h h' R H; simpl in H.
  - inversion H; subst; auto.
  - destruct (hstep cf h a) eqn:E; try discriminate. eapply IHls; [|eauto]. eapply hstep_reach; eauto.
Qed.

Lemma held_refines cf ls h : hrun cf hinit ls = Some h -> exists ls', lrun cf init ls' = Some (base h).
Proof. intros H. apply (hrun_reach cf ls hinit h); auto. exists []. reflexivity. Qed.

(* ---------- what a held loop implies ---------- *)
Definition hinv (h : hstate) : Prop :=
  match loop h with
  | InForward j => fw (base h) = true /\ offers_env (base h) j = true
  | _ => True
  end.

Lemma offers_spec s j : offers_env s j = true <-> exists c e, nth_error (clients s) j = Some c /\ p_rd c = RDOffer e.
Proof.
  unfold offers_env. split.
  - destruct (nth_error (clients s) j) eqn:E; try discriminate. destruct (p_rd c) eqn:Er; try discriminate. eauto.
  - intros (c & e & -> & ->). auto.
Qed.

Lemma offers_upd s j i c' : offers_env s j = true ->
  (forall c, nth_error (clients s) i = Some c -> i = j -> p_rd c' = p_rd c) ->
  nth_error (clients s) i <> None ->
  offers_env (set_clients s (upd i c' (clients s))) j = true /\
  (forall evs, offers_env (add_log (set_clients s (upd i c' (clients s))) evs) j = true).
Proof.
  intros Ho Hc Hi. apply offers_spec in Ho. destruct Ho as (c & e & Hn & Hr).
  assert (offers_env (set_clients s (upd i c' (clients s))) j = true) as X.
  { apply offers_spec. simpl. destruct (Nat.eq_dec i j).
    - subst. exists c', e. split. apply nth_upd_eq. eapply nth_some_lt; eauto. rewrite (Hc c Hn eq_refl). auto.
    - exists c, e. rewrite nth_upd_neq; auto. }
  split; auto.
Qed.

(* the forwarding-loop events of a history *)
Definition loop_events (l : list pev) : list pev :=
  filter (fun ev => match ev with EvCmd _ _ | EvBad _ _ | EvRej _ _ | EvFwd _ _ _ _ _ | EvDial _ _ | EvDisc _ _ _ => true | _ => false end) l.

Lemma loop_events_app l evs : loop_events (l ++ evs) = loop_events l ++ loop_events evs.
Proof. apply filter_app. Qed.

(* a rule that is not the serve loop's, and not of the read loop of record j: fw, the offer of record j and the
   forwarding-loop events of the history are untouched *)
Lemma other_rule_keeps cf k i j s s' :
  is_loop_rule k = false -> (is_reader_rule k && Nat.eqb i j) = false ->
  apply_rule cf k i s = Some s' ->
  fw s' = fw s /\ (offers_env s j = true -> offers_env s' j = true) /\ loop_events (log s') = loop_events (log s).
Proof.
  intros Hl Hr H.
  assert (is_reader_rule k = true -> i <> j) as Hij.
  { intros X. rewrite X in Hr. simpl in Hr. apply Nat.eqb_neq. auto. }
  destruct k; simpl in Hl; try discriminate; simpl in H, Hij.
  all: unfold r_rd_read, r_rd_ctx, r_rd_giveup, r_wr_take, r_wr_exit, r_wr_write, r_wr_ctx, r_wr_giveup, r_dl_giveup in H;
       open_rule H.
  all: split; [reflexivity|]; split;
       [ intros Ho;
         first [ apply (offers_upd _ _ _ _ Ho) | apply (proj2 (offers_upd _ _ _ _ Ho _ _)) ];
         try congruence;
         intros c0 Hc0 Heq; try (exfalso; apply Hij; auto; fail);
         match goal with E : nth_error _ _ = Some _, Hc : nth_error _ _ = Some c0 |- _ => rewrite E in Hc; inversion Hc; subst end; reflexivity
       | simpl; try rewrite loop_events_app; simpl; try rewrite app_nil_r; reflexivity ].
Qed.

Lemma ext_keeps_offer cf s a j : reachable cf s -> offers_env s j = true ->
  fw (ext s a) = fw s /\ offers_env (ext s a) j = true /\ log (ext s a) = log s.
Proof.
  intros R Ho. pose proof Ho as Ho'. apply offers_spec in Ho'. destruct Ho' as (c & e & Hn & Hr).
  destruct a; simpl; unfold with_client.
  - (* attach *) split; auto. split; auto. apply offers_spec. simpl.
    pose proof (nth_some_lt _ _ _ Hn) as Hlt.
    destruct (find_reg n (clients s) 0) eqn:Ef.
    + destruct (nth_error (clients s) n0) eqn:En.
      * destruct (Nat.eq_dec n0 j).
        -- subst. rewrite Hn in En. inversion En; subst. exists (set_reg c0 false), e.
           rewrite nth_error_app1 by (rewrite length_upd; auto). rewrite nth_upd_eq; auto.
        -- exists c, e. rewrite nth_error_app1 by (rewrite length_upd; auto). rewrite nth_upd_neq; auto.
      * exists c, e. rewrite nth_error_app1; auto.
    + exists c, e. rewrite nth_error_app1; auto.
  - destruct (nth_error (clients s) j0) eqn:E; auto. split; auto. split; auto.
    apply (offers_upd _ _ _ _ Ho); try congruence. intros c1 Hc1 Heq. rewrite E in Hc1. inversion Hc1; subst. reflexivity.
  - destruct (nth_error (clients s) j0) eqn:E; auto. split; auto. split; auto.
    apply (offers_upd _ _ _ _ Ho); try congruence. intros c1 Hc1 Heq. rewrite E in Hc1. inversion Hc1; subst. reflexivity.
  - destruct (nth_error (clients s) j0) eqn:E; auto. split; auto. split; auto.
    apply (offers_upd _ _ _ _ Ho); try congruence. intros c1 Hc1 Heq. rewrite E in Hc1. inversion Hc1; subst. reflexivity.
  - destruct (nth_error (clients s) j0) eqn:E; auto. destruct (p_dl c0) eqn:Ed; auto. split; auto. split; auto.
    apply (offers_upd _ _ _ _ Ho); try congruence. intros c1 Hc1 Heq. rewrite E in Hc1. inversion Hc1; subst.
    exfalso. pose proof (x_ok _ _ R j) as X. rewrite Hn in X. rewrite E in Hn. inversion Hn; subst.
    destruct X as (_ & _ & _ & _ & X). destruct X as [X _]; auto. congruence.
  - destruct (nth_error (clients s) j0) eqn:E; auto. destruct (p_dl c0) eqn:Ed; auto. split; auto. split; auto.
    apply (offers_upd _ _ _ _ Ho); try congruence. intros c1 Hc1 Heq. rewrite E in Hc1. inversion Hc1; subst. reflexivity.
  - auto.
Qed.

Lemma hinv_step cf h l h' : reachable cf (base h) -> hinv h -> hstep cf h l = Some h' -> hinv h'.
Proof.
  intros R I H. unfold hinv in *. destruct l; simpl in H.
  - inversion H; subst; simpl. destruct (loop h); auto. destruct I as [F O].
    destruct (ext_keeps_offer cf (base h) a j R O) as (A & B & _). rewrite A. auto.
  - destruct (loop h) eqn:El; simpl in H.
    + destruct (apply_rule cf k j (base h)); try discriminate. inversion H; subst; simpl; try rewrite El; auto.
    + destruct (negb (is_loop_rule k) && negb (is_reader_rule k && Nat.eqb j j0)) eqn:G; try discriminate.
      apply andb_true_iff in G. destruct G as [G1 G2]. apply negb_true_iff in G1. apply negb_true_iff in G2.
      destruct (apply_rule cf k j (base h)) eqn:E; try discriminate. inversion H; subst; simpl; try rewrite El.
      destruct I as [F O]. destruct (other_rule_keeps cf k j j0 _ _ G1 G2 E) as (A & B & _). rewrite A. auto.
    + destruct (negb (is_loop_rule k)); try discriminate.
      destruct (apply_rule cf k j (base h)); try discriminate. inversion H; subst; simpl; try rewrite El; auto.
  - destruct (loop h); try discriminate. destruct (fw (base h) && offers_env (base h) j) eqn:G; try discriminate.
    inversion H; subst; simpl. apply andb_true_iff in G. auto.
  - destruct (loop h); try discriminate. destruct (r_fw_cmd cf j (base h)); try discriminate. inversion H; subst; simpl; auto.
  - destruct (loop h); try discriminate.
    destruct k as [|[|k]];
      match goal with H : option_map _ ?x = Some _ |- _ => destruct x; try discriminate; inversion H; subst; simpl; auto end.
  - destruct (loop h); try discriminate. inversion H; subst; simpl; auto.
Qed.

Lemma hrun_inv cf : forall ls h h', reachable cf (base h) -> hinv h -> hrun cf h ls = Some h' -> hinv h'.
Proof.
  induction ls; intros h h' R I H; simpl in H.
  - inversion H; subst; auto.
  - destruct (hstep cf h a) eqn:E; try discriminate.
    eapply IHls; [| |eauto]. eapply hstep_reach; eauto. eapply hinv_step; eauto.
Qed.

(* C17_forward_completes (isolation, with the busy loop in the model): whenever the serve loop is inside a forward -
   in ANY reachable state of the held model, whatever the other records are doing: writers stuck, readers failed,
   dials hanging, buffers full, context cancelled - the end of the forward is enabled: forwardRpc has no blocking
   action. Only the environment keeps the loop busy: HEndCb is the user's callback returning. *)
Lemma C17_forward_completes_l : forall cf ls h j, hrun cf hinit ls = Some h -> loop h = InForward j ->
  exists h', hstep cf h HEndFwd = Some h' /\ loop h' = Idle.
Proof.
  intros cf ls h j H L.
  assert (reachable cf (base h)) as R by (apply (hrun_reach cf ls hinit h); auto; exists []; reflexivity).
  assert (hinv h) as I.
  { apply (hrun_inv cf ls hinit h); auto. exists []. reflexivity. unfold hinv. simpl. auto. }
  unfold hinv in I. rewrite L in I. destruct I as [F O]. apply offers_spec in O. destruct O as (c & e & Hn & Hr).
  destruct (fw_cmd_enabled cf _ _ _ _ R F Hn Hr) as (s' & Hs). simpl. rewrite L, Hs. simpl. eauto.
Qed.

(* while the loop is held, a step that is not the end of the hold adds no forwarding-loop event to the history:
   nothing is forwarded, no failure handled, no dial started *)
Lemma C17_held_nothing_forwarded_l : forall cf h l h', reachable cf (base h) -> loop h <> Idle ->
  hstep cf h l = Some h' -> l <> HEndFwd ->
  loop_events (log (base h')) = loop_events (log (base h)).
Proof.
  intros cf h l h' R L H Hne. destruct l; simpl in H.
  - inversion H; subst; simpl. destruct a; simpl; unfold with_client; auto;
      repeat match goal with |- context [match ?x with _ => _ end] => destruct x; simpl; auto end.
  - destruct (loop h) eqn:El; try congruence.
    + destruct (negb (is_loop_rule k) && negb (is_reader_rule k && Nat.eqb j j0)) eqn:G; try discriminate.
      apply andb_true_iff in G. destruct G as [G1 G2]. apply negb_true_iff in G1. apply negb_true_iff in G2.
      destruct (apply_rule cf k j (base h)) eqn:E; try discriminate. inversion H; subst; simpl.
      apply (other_rule_keeps cf k j j0 _ _ G1 G2 E).
    + destruct (negb (is_loop_rule k)) eqn:G1; try discriminate. apply negb_true_iff in G1.
      destruct (apply_rule cf k j (base h)) eqn:E; try discriminate. inversion H; subst; simpl.
      assert ((is_reader_rule k && Nat.eqb j (S (length (clients (base h)) + j))) = false) as G2.
      { destruct (is_reader_rule k); simpl; auto. apply Nat.eqb_neq. lia. }
      apply (other_rule_keeps cf k j _ _ _ G1 G2 E).
  - destruct (loop h); try discriminate; congruence.
  - congruence.
  - destruct (loop h); try discriminate; congruence.
  - destruct (loop h); try discriminate; inversion H; subst; simpl; auto.
Qed.

(* C17_held_loop_no_loss: in every reachable state of the held model - in particular while the loop is held -
   nothing is lost and order is kept, on both sides of the loop: per source record what its peer sent is, in
   order, what the loop has received ++ the envelope on offer ++ at most one given up on a dead context ++ what is
   still queued in the transport; per destination record what was enqueued is, in order, handed over ++ at most one
   failed write ++ the one being written ++ the buffer; a drop happens only at a full buffer *)
Lemma C17_held_loop_no_loss_l : forall cf ls h, hrun cf hinit ls = Some h ->
  (forall j, delivered_of (base h) j = cmds j (log (base h)) ++ rd_pend (base h) j ++ rd_lost j (log (base h)) ++ inbox_of (base h) j /\
             length (rd_lost j (log (base h))) <= 1) /\
  (forall i, enqs i (log (base h)) = outs i (log (base h)) ++ wfails i (log (base h)) ++ wr_pend (base h) i ++ buf_of (base h) i /\
             length (wfails i (log (base h))) <= 1) /\
  drops_only_when_full (cf_buf cf) (log (base h)) /\ crashed (base h) = false.
Proof.
  intros cf ls h H. destruct (held_refines cf ls h H) as (ls' & H').
  split; [|split; [|split]].
  - intros j. apply (C16_source_order_l _ _ _ H' j).
  - intros i. destruct (C16_accounting_l _ _ _ H' i) as (A & B & _). auto.
  - apply (C16_drop_only_when_full_l _ _ _ H').
  - apply (C17_no_crash_l _ _ _ H').
Qed.

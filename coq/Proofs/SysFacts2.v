(* More facts about the server model alone (arbitrary peer), for C01_complete:
   - [O]: every frame on its way to the transport (or written) carries the id of a frame that was read;
   - [sff]: while the environment injects no fault, no failure flag is ever set;
   - [NA]: under the policy of C01 no unary handler ever waits for its context;
   - [T]: while no fault is injected, every unary request read is on offer, or at a live handler that owns a
     worker, or has a reply pending or written. *)
From Coq Require Import List ZArith Bool Lia Arith.
Import ListNotations.
From Goat Require Import Model.Client Model.Server Proofs.ClientBase Proofs.ServerProofs Proofs.ServerInv Proofs.ServerTrace
  Model.Sys Proofs.SysLog Proofs.SysFacts.
Open Scope Z_scope.

(* ---------- O: origin of every frame ---------- *)
Definition orig (v : Server.state) (fr : frame) : Prop := exists rq, In (SvRead rq) (Server.log v) /\ fid rq = fid fr.

Record O (v : Server.state) : Prop := mkO {
  o_pend : forall fr, pending v fr -> orig v fr;
  o_hs : forall h k, nth_error (hs v) h = Some k -> In (SvRead (h_req k)) (Server.log v);
  o_offer : forall fr, rd v = RdOffer fr -> In (SvRead fr) (Server.log v);
  o_rst : forall fr, rd v = RdRst fr -> In (SvRead fr) (Server.log v) }.

Lemma orig_mono s s' fr : (exists evs, Server.log s' = Server.log s ++ evs) -> orig s fr -> orig s' fr.
Proof. intros (evs & E) (rq & Hin & Hid). exists rq. split; auto. rewrite E. apply in_or_app. auto. Qed.

Definition pend_same (s s' : Server.state) : Prop := forall fr, pending s' fr -> pending s fr.

(* the handlers of s' are those of s, possibly updated at one index without changing the request frame *)
Definition hs_same_req (s s' : Server.state) : Prop :=
  forall h k', nth_error (hs s') h = Some k' -> exists k, nth_error (hs s) h = Some k /\ h_req k' = h_req k.

Lemma O_from_old s s' :
  O s -> pend_same s s' -> hs_same_req s s' -> (exists evs, Server.log s' = Server.log s ++ evs) ->
  (forall fr, rd s' = RdOffer fr -> rd s = RdOffer fr) -> (forall fr, rd s' = RdRst fr -> rd s = RdRst fr) -> O s'.
Proof.
  intros [Op Oh Oo Or] PS HS HL H1 H2. pose proof HL as (evs & E). constructor.
  - intros fr P. eapply orig_mono; eauto.
  - intros h k' Hn. destruct (HS _ _ Hn) as (k & Hk & ->). rewrite E. apply in_or_app. left. eauto.
  - intros fr Hr. rewrite E. apply in_or_app. left. auto.
  - intros fr Hr. rewrite E. apply in_or_app. left. auto.
Qed.

Ltac pend_same_tac :=
  let fr := fresh "fr" in let P := fresh "P" in
  intros fr P; destruct P as [P | wX P | hX kX skX P Q | P]; sproj;
  [ try discriminate P; try (inversion P; subst; clear P); eauto using pending
  | try (apply nth_upd_cases in P; destruct P as [(-> & P & _) | (_ & P)]; [try discriminate P; try (inversion P; subst; clear P) | ]); eauto using pending
  | try (apply nth_upd_cases in P; destruct P as [(-> & -> & _) | (_ & P)]; [simpl in Q; try discriminate Q; try (inversion Q; subst; clear Q) | ]); eauto using pending
  | in_log P; eauto using pending ].

Ltac hs_same_tac :=
  let h := fresh "hY" in let k' := fresh "kY" in let P := fresh "PY" in
  intros h k' P; sproj;
  first [ eexists; split; [exact P | reflexivity]
        | apply nth_upd_cases in P; destruct P as [(-> & -> & _) | (_ & P)];
          [ eexists; split; [eassumption | reflexivity] | eexists; split; [exact P | reflexivity] ] ].

Lemma O_from_step s s' :
  O s -> (forall fr, pending s' fr -> pending s fr \/ orig s' fr) ->
  (forall h k', nth_error (hs s') h = Some k' ->
     (exists k, nth_error (hs s) h = Some k /\ h_req k' = h_req k) \/ In (SvRead (h_req k')) (Server.log s')) ->
  (exists evs, Server.log s' = Server.log s ++ evs) ->
  (forall fr, rd s' = RdOffer fr -> rd s = RdOffer fr \/ In (SvRead fr) (Server.log s')) ->
  (forall fr, rd s' = RdRst fr -> rd s = RdRst fr \/ In (SvRead fr) (Server.log s')) -> O s'.
Proof.
  intros [Op Oh Oo Or] PS HS HL H1 H2. pose proof HL as (evs & E). constructor.
  - intros fr P. destruct (PS fr P) as [P0 | Og]; auto. eapply orig_mono; eauto.
  - intros h k' Hn. destruct (HS _ _ Hn) as [(k & Hk & ->) | Hr]; auto. rewrite E. apply in_or_app. left. eauto.
  - intros fr Hr. destruct (H1 _ Hr); auto. rewrite E. apply in_or_app. left. auto.
  - intros fr Hr. destruct (H2 _ Hr); auto. rewrite E. apply in_or_app. left. auto.
Qed.

Ltac old_l := let fr := fresh in let P := fresh in intros fr P; left; revert fr P.

Lemma O_stream_dispatch s fr0 : O s -> In (SvRead fr0) (Server.log s) -> rd s = RdRead -> O (stream_dispatch s fr0).
Proof.
  intros HO Hr Erd. unfold stream_dispatch.
  destruct (find_reg (fid fr0) (hs s) 0) as [h|].
  - destruct (is_rst fr0).
    + destruct (nth_error (hs s) h) as [k|] eqn:Hn; [|exact HO].
      apply (O_from_old s); [exact HO | pend_same_tac | hs_same_tac | log_ext | rd_same | rd_same].
    + apply (O_from_old s); [exact HO | pend_same_tac | hs_same_tac | log_ext | rd_same | rd_same].
  - destruct (is_rst fr0); [exact HO|].
    destruct (has_body fr0).
    { apply (O_from_step s); [exact HO | old_l; pend_same_tac | intros ? ? P; left; revert P; sproj; intros P; eauto | log_ext | rd_same | ].
      sproj. intros ? E. inversion E; subst. right. exact Hr. }
    destruct (has_trl fr0); [exact HO|].
    destruct (md_bad fr0).
    { apply (O_from_step s); [exact HO | old_l; pend_same_tac | intros ? ? P; left; revert P; sproj; intros P; eauto | log_ext | rd_same | ].
      sproj. intros ? E. inversion E; subst. right. exact Hr. }
    apply (O_from_step s); [exact HO | | | log_ext | rd_same | rd_same].
    + intros fr P. left. destruct P as [P | wX P | hX kX skX P Q | P]; sproj; eauto using pending.
      * apply nth_app_new in P. destruct P as [P | (_ & ->)]; [eauto using pending | simpl in Q; discriminate Q].
      * in_log P; eauto using pending.
    + intros h k' P. sproj. apply nth_app_new in P. destruct P as [P | (_ & ->)]; [left; eauto|].
      right. simpl. apply in_or_app. left. exact Hr.
Qed.

Lemma O_start_unary s w fr0 : O s -> In (SvRead fr0) (Server.log s) -> rd s = RdRead -> O (start_unary s w fr0).
Proof.
  intros HO Hr Erd. unfold start_unary.
  assert (Og : forall s', (exists evs, Server.log s' = Server.log s ++ evs) -> forall fr, fid fr = fid fr0 -> orig s' fr).
  { intros s' (evs & E) fr Hid. exists fr0. split; auto. rewrite E. apply in_or_app. auto. }
  destruct (negb (has_hdr fr0)); [apply (O_from_old s); [exact HO | pend_same_tac | hs_same_tac | log_ext | rd_same | rd_same]|].
  destruct (md_bad fr0).
  { apply (O_from_step s); [exact HO | | intros ? ? P; left; revert P; sproj; intros P; eauto | log_ext | rd_same | rd_same].
    intros fr P. destruct P as [P | wX P | hX kX skX P Q | P]; sproj; eauto using pending.
    apply nth_upd_cases in P. destruct P as [(-> & P & _) | (_ & P)]; [|eauto using pending].
    inversion P; subst. right. apply Og; [log_ext | reflexivity]. }
  destruct (body_tok fr0 <? 0).
  { apply (O_from_step s); [exact HO | | intros ? ? P; left; revert P; sproj; intros P; eauto | log_ext | rd_same | rd_same].
    intros fr P. destruct P as [P | wX P | hX kX skX P Q | P]; sproj; eauto using pending.
    apply nth_upd_cases in P. destruct P as [(-> & P & _) | (_ & P)]; [|eauto using pending].
    inversion P; subst. right. apply Og; [log_ext | reflexivity]. }
  apply (O_from_step s); [exact HO | | | log_ext | rd_same | rd_same].
  - intros fr P. left. destruct P as [P | wX P | hX kX skX P Q | P]; sproj; eauto using pending.
    + apply nth_upd_cases in P. destruct P as [(-> & P & _) | (_ & P)]; [discriminate P | eauto using pending].
    + apply nth_app_new in P. destruct P as [P | (_ & ->)]; [eauto using pending | simpl in Q; discriminate Q].
    + in_log P; eauto using pending.
  - intros h k' P. sproj. apply nth_app_new in P. destruct P as [P | (_ & ->)]; [left; eauto|].
    right. simpl. apply in_or_app. left. exact Hr.
Qed.

Lemma O_hunregister s g kg : O s -> nth_error (hs s) g = Some kg -> O (add_log (set_h s g (hunregister kg)) [SvUnreg g]).
Proof.
  intros HO Hg. apply (O_from_old s); [exact HO | | hs_same_tac | log_ext | rd_same | rd_same].
  intros fr P. destruct P as [P | wX P | hX kX skX P Q | P]; sproj; eauto using pending.
  - apply nth_upd_cases in P. destruct P as [(-> & -> & _) | (_ & P)]; [ | eauto using pending].
    eapply PHs; [exact Hg | exact Q].
  - in_log P; eauto using pending.
Qed.

Lemma O_int s i s' : O s -> rule_of i s = Some s' -> O s'.
Proof.
  intros HO H. destruct i; simpl in H.
  all: try solve [ start_rule H; (apply (O_from_old s); [exact HO | try pend_same_tac | try hs_same_tac | try log_ext | try rd_same | try rd_same]) ].
  - (* r_rd_read *)
    unfold r_rd_read in H. destruct (rd s) eqn:Erd; try discriminate.
    destruct (Server.inbox s) as [|fr0 rest] eqn:Ei.
    + destr_in H; inv_some H; apply (O_from_old s); [exact HO | pend_same_tac | hs_same_tac | log_ext | rd_same | rd_same | exact HO | pend_same_tac | hs_same_tac | log_ext | rd_same | rd_same].
    + assert (O1 : O (add_log (set_inbox s rest) [SvRead fr0])).
      { apply (O_from_old s); [exact HO | pend_same_tac | hs_same_tac | log_ext | rd_same | rd_same]. }
      destruct (dispatch fr0); inv_some H.
      * exact O1.
      * apply (O_from_step s); [exact HO | old_l; pend_same_tac | intros ? ? P; left; revert P; sproj; intros P; eauto | log_ext | | rd_same].
        sproj. intros ? E. inversion E; subst. right. apply in_or_app. right. simpl. auto.
      * apply O_stream_dispatch; [exact O1 | sproj; apply in_or_app; right; simpl; auto | sproj; exact Erd].
  - (* r_rd_offer *)
    unfold r_rd_offer in H. destruct (rd s) eqn:Erd; try discriminate.
    destruct (find_idle (wk s) 0) as [w|]; [|discriminate]. inv_some H.
    assert (Hr : In (SvRead f) (Server.log s)) by (apply (o_offer _ HO); exact Erd).
    assert (O1 : O (add_log (set_rd s RdRead) [SvJob w f])).
    { apply (O_from_old s); [exact HO | pend_same_tac | hs_same_tac | log_ext | rd_same | rd_same]. }
    apply O_start_unary; [exact O1 | sproj; apply in_or_app; left; exact Hr | sproj; reflexivity].
  - (* r_rd_rst *)
    unfold r_rd_rst in H. destruct (rd s) eqn:Erd; try discriminate. destruct (wr s) eqn:Ewr; try discriminate.
    assert (Hr : In (SvRead f) (Server.log s)) by (apply (o_rst _ HO); exact Erd).
    destruct (has_hdr f); inv_some H.
    + apply (O_from_step s); [exact HO | | intros ? ? P; left; revert P; sproj; intros P; eauto | log_ext | rd_same | rd_same].
      intros fr P. destruct P as [P | wX P | hX kX skX P Q | P]; sproj; eauto using pending.
      * inversion P; subst. right. exists f. split; [apply in_or_app; left; exact Hr | reflexivity].
      * in_log P; eauto using pending.
    + apply (O_from_old s); [exact HO | pend_same_tac | hs_same_tac | log_ext | rd_same | rd_same].
  - (* r_h_unreg *)
    unfold r_h_unreg in H. destruct (nth_error (hs s) h) as [k|] eqn:Hn; [|discriminate].
    destruct (h_pc k) eqn:Hpc; try discriminate. destruct (mu_free s); [|discriminate].
    assert (O1 : O (set_h s h (hset_pc k HDead))).
    { apply (O_from_old s); [exact HO | pend_same_tac | hs_same_tac | log_ext | rd_same | rd_same]. }
    destruct (find_reg _ _ _) as [g|]; [destruct (nth_error _ g) as [kg|] eqn:Hg|]; inv_some H; try exact O1.
    apply O_hunregister; [exact O1 | exact Hg].
Qed.

Lemma fid_resp fr e : fid (resp fr e) = eid e.
Proof. reflexivity. Qed.

Lemma O_hstep s h k o : O s -> nth_error (hs s) h = Some k -> h_pc k = HGate -> O (hstep s h k o).
Proof.
  intros HO Hn Hg.
  destruct (hstep_shape s h k o Hn Hg) as (k' & Hhs & _ & _ & _ & _ & Hq & _).
  destruct (hstep_log s h k o) as (evs & Elog & Hev).
  destruct (hstep_rd_crashed s h k o) as [Erd _].
  assert (Og : forall fr, fid fr = fid (h_req k) -> orig (hstep s h k o) fr).
  { intros fr Hid. exists (h_req k). split; auto. rewrite Elog. apply in_or_app. left. apply (o_hs _ HO h k Hn). }
  apply (O_from_step s); [exact HO | | | eauto | rewrite Erd; auto | rewrite Erd; auto].
  - (* pending frames: old ones, or frames carrying the id of this handler's request *)
    intros fr P. unfold hstep in *.
    destruct (h_unary k) eqn:Hu.
    + destruct o; try destruct (h_hsent k) eqn:Hs;
        first [ left; exact P
              | (eapply pend_upd_h in P;
                 [ | sproj; reflexivity | sproj; reflexivity
                   | sproj; first [reflexivity | symmetry; apply upd_same; exact Hn] | sproj; no_write ]);
                [ destruct P as [P | (sk & P)]; [left; exact P | simpl in P; rewrite ?Hg in P; discriminate P] ]
              | idtac ].
      all: destruct P as [P | wX P | hX kX skX P Q | P]; sproj;
        [ left; eauto using pending
        | apply finish_unary_nth in P; destruct P as (p0 & P0 & [(E & _) | (E1 & E2)]);
          [subst p0; left; eauto using pending | inversion E2; subst fr; right; apply Og; reflexivity]
        | apply nth_upd_cases in P; destruct P as [(-> & -> & _) | (_ & P)]; [simpl in Q; discriminate Q | left; eauto using pending]
        | in_log P; left; eauto using pending ].
    + assert (G : pending s fr \/ exists k' sk, h_pc k' = HInSend fr sk /\ (k' = k \/ fid fr = fid (h_req k))).
      { destruct o; try destruct (h_hsent k) eqn:Hs;
          (eapply pend_upd_h in P; [ | sproj; reflexivity | sproj; reflexivity | sproj; try reflexivity | sproj; no_write ]);
          try (destruct P as [P | (sk & P)]; [left; exact P | right; eexists; exists sk; split; [exact P|]]).
        all: try (simpl in P; try discriminate P; inversion P; subst; clear P).
        all: try (right; reflexivity).
        all: try (left; reflexivity).
        all: try (symmetry; apply upd_same; exact Hn).
        all: try (exfalso; match goal with X : h_pc _ = HInSend _ _ |- _ => rewrite Hg in X; discriminate X end). }
      destruct G as [G | (k2 & sk & Hpc & [-> | Hid])]; auto.
      rewrite Hg in Hpc. discriminate Hpc.
  - intros h0 k0 P. rewrite Hhs in P. apply nth_upd_cases in P. destruct P as [(-> & -> & _) | (_ & P)]; left; eauto.
Qed.

Lemma O_ext s a : O s -> O (Server.ext s a).
Proof.
  intros HO. destruct a; simpl.
  all: try solve [apply (O_from_old s); [exact HO | pend_same_tac | hs_same_tac | log_ext | rd_same | rd_same]].
  destruct (nth_error (hs s) h) as [k|] eqn:Hn; [|exact HO].
  destruct (h_pc k) eqn:Hg; try exact HO.
  apply O_hstep; auto.
Qed.

Lemma O_init nw : O (init_n nw).
Proof.
  constructor; simpl; try tauto; try discriminate.
  - intros fr P. destruct P as [P | w P | h k sk P Q | P]; simpl in *; try discriminate; try tauto.
    + apply nth_error_In in P. apply repeat_spec in P. discriminate.
    + destruct h; discriminate.
  - intros h k P. destruct h; discriminate.
Qed.

Theorem O_reach nw ls s : Server.lrun (init_n nw) ls = Some s -> O s.
Proof. apply lrun_inv; [intros; apply O_ext; auto | intros; eapply O_int; eauto | apply O_init]. Qed.

(* every frame the server wrote carries the id of a frame it had read *)
Theorem srv_write_origin nw ls s fr : Server.lrun (init_n nw) ls = Some s ->
  In (SvWrite fr) (Server.log s) -> exists rq, In (SvRead rq) (Server.log s) /\ fid rq = fid fr.
Proof. intros H Hw. apply (o_pend _ (O_reach _ _ _ H)). apply PLog. exact Hw. Qed.

(* ---------- sff: no fault injected, no failure flag set ---------- *)
Definition flags (v : Server.state) : list bool :=
  [inbox_failed v; wfail v; wblock v; srv_stop v; serve_ctx v; conn_cancel v; exit_cancel v].
Definition sff (v : Server.state) : Prop := flags v = [false; false; false; false; false; false; false].

Lemma sff_fields v : sff v ->
  inbox_failed v = false /\ wfail v = false /\ wblock v = false /\ srv_stop v = false /\ serve_ctx v = false /\
  conn_cancel v = false /\ exit_cancel v = false /\ hctx_done v = false /\ cctx_done v = false.
Proof.
  unfold sff, flags, hctx_done, cctx_done. intros H. injection H as E1 E2 E3 E4 E5 E6 E7.
  rewrite E1, E2, E3, E4, E5, E6, E7. repeat split; reflexivity.
Qed.

Lemma flags_stream_dispatch s f : flags (stream_dispatch s f) = flags s.
Proof.
  unfold stream_dispatch. destruct (find_reg (fid f) (hs s) 0) as [h|].
  - destruct (is_rst f); [destruct (nth_error (hs s) h)|]; reflexivity.
  - destruct (is_rst f); [reflexivity|]. destruct (has_body f); [reflexivity|]. destruct (has_trl f); [reflexivity|].
    destruct (md_bad f); reflexivity.
Qed.

Lemma flags_start_unary s w f : flags (start_unary s w f) = flags s.
Proof. unfold start_unary. destruct (negb (has_hdr f)); [reflexivity|]. destruct (md_bad f); [reflexivity|]. destruct (body_tok f <? 0); reflexivity. Qed.

Lemma flags_hstep s h k o : flags (hstep s h k o) = flags s.
Proof. unfold hstep. destruct (h_unary k), o; try destruct (h_hsent k); reflexivity. Qed.

Ltac sff_tac F :=
  let X := fresh in
  pose proof (sff_fields _ F) as X; destruct X as (?F1 & ?F2 & ?F3 & ?F4 & ?F5 & ?F6 & ?F7 & ?F8 & ?F9);
  unfold hdone in *;
  repeat match goal with
         | E : ?a = true, E' : ?a = false |- _ => rewrite E in E'; discriminate E'
         | E : (?a || ?b) = true, E1 : ?a = false, E2 : ?b = false |- _ => rewrite E1, E2 in E; discriminate E
         end;
  first [ unfold sff in *; rewrite <- F; unfold flags; sproj; reflexivity | idtac ].

Lemma sff_int s i s' : sff s -> rule_of i s = Some s' -> sff s'.
Proof.
  intros F H. destruct i; simpl in H.
  all: try solve [ start_rule H; sff_tac F ].
  - unfold r_rd_read in H. destruct (rd s) eqn:Erd; try discriminate.
    destruct (Server.inbox s) as [|fr0 rest] eqn:Ei.
    + destr_in H; inv_some H; sff_tac F.
    + destruct (dispatch fr0); inv_some H; try (sff_tac F).
      unfold sff. rewrite flags_stream_dispatch. exact F.
  - unfold r_rd_offer in H. destruct (rd s) eqn:Erd; try discriminate.
    destruct (find_idle (wk s) 0) as [w|]; [|discriminate]. inv_some H.
    unfold sff. rewrite flags_start_unary. exact F.
Qed.

Definition env_ok (a : Server.act) : bool := match a with AHandlerStep _ _ | Server.ADeliver _ => true | _ => false end.

Lemma sff_ext s a : sff s -> env_ok a = true -> sff (Server.ext s a).
Proof.
  intros F Ha. destruct a; try discriminate Ha; simpl.
  - exact F.
  - destruct (nth_error (hs s) h) as [k|]; [|exact F]. destruct (h_pc k); try exact F.
    unfold sff. rewrite flags_hstep. exact F.
Qed.

Lemma sff_init nw : sff (init_n nw).
Proof. reflexivity. Qed.

Lemma in_sreads' f l : In (SvRead f) l -> In f (sreads l).
Proof.
  induction l as [|x l IH]; simpl; [tauto|]. intros [H | H].
  - subst x. simpl. auto.
  - destruct x; simpl; auto.
Qed.

(* ---------- T: every unary request read is on offer, at a live handler, or answered ---------- *)
Definition rpend (v : Server.state) (fr : frame) : Prop :=
  wr v = WrWrite fr \/ (exists w, nth_error (wk v) w = Some (WkHand fr)) \/ In (SvWrite fr) (Server.log v).

Record T (v : Server.state) : Prop := mkT {
  t_na : forall h k, nth_error (hs v) h = Some k -> h_unary k = true -> h_pc k = HGate \/ h_pc k = HDead;
  t_run : forall h k, nth_error (hs v) h = Some k -> h_unary k = true -> h_pc k = HGate -> exists w, nth_error (wk v) w = Some (WkRun h);
  t_req : forall rq, In (SvRead rq) (Server.log v) -> dispatch rq = DUnary ->
            (exists fr0, rd v = RdOffer fr0 /\ fid fr0 = fid rq) \/
            (exists h k, nth_error (hs v) h = Some k /\ h_unary k = true /\ fid (h_req k) = fid rq /\ h_pc k = HGate) \/
            (exists fr, rpend v fr /\ fid fr = fid rq) }.

Definition uh_fwd (s s' : Server.state) : Prop :=
  forall h k, nth_error (hs s) h = Some k -> h_unary k = true ->
    exists k', nth_error (hs s') h = Some k' /\ h_unary k' = true /\ h_pc k' = h_pc k /\ h_req k' = h_req k.
Definition uh_bwd (s s' : Server.state) : Prop :=
  forall h k', nth_error (hs s') h = Some k' -> h_unary k' = true ->
    exists k, nth_error (hs s) h = Some k /\ h_unary k = true /\ h_pc k' = h_pc k.
Definition run_fwd (s s' : Server.state) : Prop :=
  forall w h, nth_error (wk s) w = Some (WkRun h) -> nth_error (wk s') w = Some (WkRun h).
Definition rpend_fwd (s s' : Server.state) : Prop := forall fr, rpend s fr -> rpend s' fr.

Lemma T_from_old s s' :
  T s -> rpend_fwd s s' -> uh_fwd s s' -> uh_bwd s s' -> run_fwd s s' ->
  (exists evs, Server.log s' = Server.log s ++ evs /\ sreads evs = []) ->
  (forall fr0, rd s = RdOffer fr0 -> rd s' = RdOffer fr0) -> T s'.
Proof.
  intros [Tn Tr Tq] PF UF UB RF (evs & E & R) HO. constructor.
  - intros h k' Hn U. destruct (UB _ _ Hn U) as (k & Hk & Uk & ->). eauto.
  - intros h k' Hn U Hg. destruct (UB _ _ Hn U) as (k & Hk & Uk & Ep). rewrite Ep in Hg.
    destruct (Tr _ _ Hk Uk Hg) as (w & Hw). exists w. apply RF. exact Hw.
  - intros rq Hin Hd. rewrite E in Hin. apply in_app_or in Hin. destruct Hin as [Hin | Hin].
    + destruct (Tq _ Hin Hd) as [(fr0 & A & B) | [(h & k & A & B & C & D) | (fr & A & B)]].
      * left. exists fr0. split; auto.
      * right. left. destruct (UF _ _ A B) as (k' & A' & B' & C' & D'). exists h, k'. repeat split; auto; congruence.
      * right. right. exists fr. split; auto.
    + exfalso. assert (X : In rq (sreads evs)) by (apply in_sreads'; exact Hin). rewrite R in X. destruct X.
Qed.

Lemma nth_upd_fwd {A} (l : list A) g x h y : nth_error l h = Some y -> h <> g -> nth_error (upd g x l) h = Some y.
Proof. intros H Hne. rewrite nth_upd. destruct (Nat.eqb_spec g h); [congruence | exact H]. Qed.

Ltac rpend_fwd_tac :=
  let fr := fresh "fr" in let P := fresh "P" in let wX := fresh "wX" in
  intros fr [P | [(wX & P) | P]]; unfold rpend; sproj;
  [ (* was in the writer's hand *)
    first [ left; exact P
          | exfalso; congruence
          | right; right; repeat (apply in_or_app; right); simpl; left; congruence ]
  | (* was in a worker's hand *)
    first [ right; left; exists wX; exact P
          | match goal with E : nth_error (wk ?s) ?w = Some _ |- _ =>
              destruct (Nat.eq_dec wX w) as [->|?];
              [ first [ exfalso; congruence | left; congruence ]
              | right; left; exists wX; apply nth_upd_fwd; assumption ]
            end ]
  | right; right; repeat (apply in_or_app; left); exact P ].

Ltac run_fwd_tac :=
  let w := fresh "wY" in let h := fresh "hY" in let P := fresh "PY" in
  intros w h P; sproj;
  first [ exact P
        | match goal with E : nth_error (wk ?s) ?w0 = Some _ |- _ =>
            destruct (Nat.eq_dec w w0) as [->|?];
            [ rewrite E in P; discriminate P | apply nth_upd_fwd; assumption ]
          end ].

(* a rule that updates a handler whose program counter is one a unary handler never has *)
Ltac uh_fwd_tac HT :=
  let h := fresh "hY" in let k := fresh "kY" in let P := fresh "PY" in let U := fresh "UY" in
  intros h k P U; sproj;
  first [ exists k; repeat split; auto; fail
        | match goal with E : nth_error (hs ?s) ?h0 = Some ?k0 |- _ =>
            destruct (Nat.eq_dec h h0) as [->|?];
            [ rewrite E in P; inversion P; subst;
              first [ eexists; split; [apply nth_upd_same; eapply nth_error_lt; eassumption|]; simpl; repeat split; auto; fail
                    | exfalso; destruct (t_na _ HT _ _ E U) as [X|X]; congruence ]
            | exists k; split; [apply nth_upd_fwd; assumption | auto] ]
          end ].

Ltac uh_bwd_tac HT :=
  let h := fresh "hY" in let k := fresh "kY" in let P := fresh "PY" in let U := fresh "UY" in
  intros h k P U; sproj;
  first [ exists k; repeat split; auto; fail
        | apply nth_upd_cases in P; destruct P as [(-> & -> & _) | (_ & P)];
          [ simpl in U;
            match goal with E : nth_error (hs ?s) ?h0 = Some ?k0 |- _ =>
              first [ exists k0; repeat split; auto; fail
                    | exfalso; destruct (t_na _ HT _ _ E U) as [X|X]; congruence ]
            end
          | exists k; auto ] ].

Ltac log_noread := sproj; first [ exists []; split; [rewrite app_nil_r; reflexivity | reflexivity]
                                | eexists; split; [rewrite <- ?app_assoc; reflexivity | reflexivity] ].
Ltac offer_fwd := sproj; intros ? E; first [ exact E | congruence | (rewrite E in *; discriminate) ].

Lemma T_from_step s s' :
  T s -> rpend_fwd s s' -> uh_fwd s s' -> uh_bwd s s' -> run_fwd s s' ->
  (exists evs, Server.log s' = Server.log s ++ evs) ->
  (forall rq, In (SvRead rq) (Server.log s') -> dispatch rq = DUnary ->
     In (SvRead rq) (Server.log s) \/ (exists fr0, rd s' = RdOffer fr0 /\ fid fr0 = fid rq)) ->
  (forall fr0, rd s = RdOffer fr0 -> rd s' = RdOffer fr0) -> T s'.
Proof.
  intros [Tn Tr Tq] PF UF UB RF (evs & E) HN HO. constructor.
  - intros h k' Hn U. destruct (UB _ _ Hn U) as (k & Hk & Uk & ->). eauto.
  - intros h k' Hn U Hg. destruct (UB _ _ Hn U) as (k & Hk & Uk & Ep). rewrite Ep in Hg.
    destruct (Tr _ _ Hk Uk Hg) as (w & Hw). exists w. apply RF. exact Hw.
  - intros rq Hin Hd. destruct (HN _ Hin Hd) as [Hold | Hnew]; [|left; exact Hnew].
    destruct (Tq _ Hold Hd) as [(fr0 & A & B) | [(h & k & A & B & C & D) | (fr & A & B)]].
    + left. exists fr0. split; auto.
    + right. left. destruct (UF _ _ A B) as (k' & A' & B' & C' & D'). exists h, k'. repeat split; auto; congruence.
    + right. right. exists fr. split; auto.
Qed.

Ltac uh_app_fwd := let h := fresh in let k := fresh in let P := fresh in let U := fresh in
  intros h k P U; sproj; exists k; split; [rewrite nth_error_app1; [exact P | eapply nth_error_lt; eassumption] | auto].

Lemma T_stream_dispatch s fr0 : sff s -> T s -> rd s = RdRead -> T (stream_dispatch s fr0).
Proof.
  intros F HT Erd. unfold stream_dispatch.
  destruct (find_reg (fid fr0) (hs s) 0) as [h|].
  - destruct (is_rst fr0).
    + destruct (nth_error (hs s) h) as [k|] eqn:Hn; [|exact HT].
      apply (T_from_old s); [exact HT | rpend_fwd_tac | uh_fwd_tac HT | uh_bwd_tac HT | run_fwd_tac | log_noread | offer_fwd].
    + apply (T_from_old s); [exact HT | rpend_fwd_tac | uh_fwd_tac HT | uh_bwd_tac HT | run_fwd_tac | log_noread | offer_fwd].
  - destruct (is_rst fr0); [exact HT|].
    destruct (has_body fr0); [apply (T_from_old s); [exact HT | rpend_fwd_tac | uh_fwd_tac HT | uh_bwd_tac HT | run_fwd_tac | log_noread | offer_fwd]|].
    destruct (has_trl fr0); [exact HT|].
    destruct (md_bad fr0); [apply (T_from_old s); [exact HT | rpend_fwd_tac | uh_fwd_tac HT | uh_bwd_tac HT | run_fwd_tac | log_noread | offer_fwd]|].
    apply (T_from_old s); [exact HT | rpend_fwd_tac | uh_app_fwd | | run_fwd_tac | log_noread | offer_fwd].
    intros h k' P U. sproj. apply nth_app_new in P. destruct P as [P | (_ & ->)]; [exists k'; auto | simpl in U; discriminate U].
Qed.

Lemma T_hunregister s g kg : T s -> nth_error (hs s) g = Some kg -> T (add_log (set_h s g (hunregister kg)) [SvUnreg g]).
Proof.
  intros HT Hg. apply (T_from_old s); [exact HT | rpend_fwd_tac | | | run_fwd_tac | log_noread | offer_fwd].
  - intros h k P U. sproj. destruct (Nat.eq_dec h g) as [->|Hne].
    + rewrite Hg in P. inversion P; subst. eexists. split; [apply nth_upd_same; eapply nth_error_lt; eauto|]. simpl. auto.
    + exists k. split; [apply nth_upd_fwd; auto | auto].
  - intros h k' P U. sproj. apply nth_upd_cases in P. destruct P as [(-> & -> & _) | (_ & P)]; [exists kg; simpl in *; auto | exists k'; auto].
Qed.

(* a worker takes the request on offer *)
Lemma T_offer s w f :
  T s -> rd s = RdOffer f -> has_hdr f = true -> nth_error (wk s) w = Some WkIdle ->
  T (start_unary (add_log (set_rd s RdRead) [SvJob w f]) w f).
Proof.
  intros [Tn Tr Tq] Erd Hh Hw. unfold start_unary. rewrite Hh. simpl negb. cbv iota.
  assert (RW : forall p w' h', nth_error (wk s) w' = Some (WkRun h') -> nth_error (upd w p (wk s)) w' = Some (WkRun h')).
  { intros p w' h' P. apply nth_upd_fwd; auto. intros ->. rewrite Hw in P. discriminate. }
  assert (RP : forall p evs fr, rpend s fr ->
                 wr s = WrWrite fr \/ (exists w', nth_error (upd w p (wk s)) w' = Some (WkHand fr)) \/ In (SvWrite fr) ((Server.log s ++ [SvJob w f]) ++ evs)).
  { intros p evs fr [A | [(w' & A) | A]]; auto.
    - right. left. exists w'. apply nth_upd_fwd; auto. intros ->. rewrite Hw in A. discriminate.
    - right. right. apply in_or_app. left. apply in_or_app. auto. }
  assert (BAD : forall fr', fid fr' = fid f ->
            T (set_wk (add_log (set_rd s RdRead) [SvJob w f]) w (WkHand fr'))).
  { intros fr' Hid. constructor; sproj.
    - exact Tn.
    - intros h k Hn U Hg. destruct (Tr _ _ Hn U Hg) as (w' & P). exists w'. apply RW. exact P.
    - intros rq Hin Hd. in_log Hin. destruct (Tq _ Hin Hd) as [(fr0 & A & B) | [X | (fr & A & B)]].
      + rewrite Erd in A. inversion A; subst fr0. right. right. exists fr'. split; [|congruence].
        unfold rpend. sproj. right. left. exists w. apply nth_upd_same. eapply nth_error_lt; eauto.
      + right. left. exact X.
      + right. right. exists fr. split; auto. unfold rpend. sproj.
        specialize (RP (WkHand fr') [] fr A). rewrite app_nil_r in RP. exact RP. }
  destruct (md_bad f); [apply BAD; reflexivity|].
  destruct (body_tok f <? 0); [apply BAD; reflexivity|].
  constructor; sproj.
  - intros h k P U. apply nth_app_new in P. destruct P as [P | (_ & ->)]; [eauto | left; reflexivity].
  - intros h k P U Hg. apply nth_app_new in P. destruct P as [P | (-> & ->)].
    + destruct (Tr _ _ P U Hg) as (w' & Q). exists w'. apply RW. exact Q.
    + exists w. apply nth_upd_same. eapply nth_error_lt; eauto.
  - intros rq Hin Hd. in_log Hin. destruct (Tq _ Hin Hd) as [(fr0 & A & B) | [(h & k & A & B & C & D) | (fr & A & B)]].
    + rewrite Erd in A. inversion A; subst fr0. right. left. exists (length (hs s)), (new_unary f).
      split; [apply nth_app_last | simpl; auto].
    + right. left. exists h, k. split; [rewrite nth_error_app1; [exact A | eapply nth_error_lt; eauto] | auto].
    + right. right. exists fr. split; auto. unfold rpend. sproj. apply RP. exact A.
Qed.

Lemma T_int s i s' : inv_hdr s -> sff s -> T s -> rule_of i s = Some s' -> T s'.
Proof.
  intros [_ Ihd] F HT H. destruct i; simpl in H.
  all: try solve [ start_rule H; sff_tac F;
                   (apply (T_from_old s); [exact HT | try rpend_fwd_tac | try (uh_fwd_tac HT) | try (uh_bwd_tac HT) | try run_fwd_tac | try log_noread | try offer_fwd]) ].
  - (* r_rd_read *)
    unfold r_rd_read in H. destruct (rd s) eqn:Erd; try discriminate.
    destruct (Server.inbox s) as [|fr0 rest] eqn:Ei.
    + destr_in H; inv_some H; sff_tac F.
    + assert (T1 : dispatch fr0 <> DUnary -> T (add_log (set_inbox s rest) [SvRead fr0])).
      { intros Hnu. apply (T_from_step s); [exact HT | rpend_fwd_tac | uh_fwd_tac HT | uh_bwd_tac HT | run_fwd_tac | log_ext | | offer_fwd].
        sproj. intros rq Hin Hd. apply in_app_or in Hin. destruct Hin as [Hin | [Hin | []]]; [left; exact Hin|].
        inversion Hin; subst. contradiction. }
      destruct (dispatch fr0) eqn:Ed; inv_some H.
      * apply T1. discriminate.
      * apply (T_from_step s); [exact HT | rpend_fwd_tac | uh_fwd_tac HT | uh_bwd_tac HT | run_fwd_tac | log_ext | | ].
        -- sproj. intros rq Hin Hd. apply in_app_or in Hin. destruct Hin as [Hin | [Hin | []]]; [left; exact Hin|].
           inversion Hin; subst. right. exists rq. auto.
        -- sproj. rewrite Erd. intros ? E. discriminate E.
      * apply T_stream_dispatch; [unfold sff in *; exact F | apply T1; discriminate | sproj; exact Erd].
  - (* r_rd_offer *)
    unfold r_rd_offer in H. destruct (rd s) eqn:Erd; try discriminate.
    destruct (find_idle (wk s) 0) as [w|] eqn:Ew; [|discriminate]. inv_some H.
    destruct (find_idle_spec _ _ _ Ew) as (_ & Hw). rewrite Nat.sub_0_r in Hw.
    apply T_offer; auto. apply dispatch_hdr. rewrite Ihd. discriminate.
  - (* r_h_unreg *)
    unfold r_h_unreg in H. destruct (nth_error (hs s) h) as [k|] eqn:Hn; [|discriminate].
    destruct (h_pc k) eqn:Hpc; try discriminate. destruct (mu_free s); [|discriminate].
    assert (T1 : T (set_h s h (hset_pc k HDead))).
    { apply (T_from_old s); [exact HT | rpend_fwd_tac | uh_fwd_tac HT | uh_bwd_tac HT | run_fwd_tac | log_noread | offer_fwd]. }
    destruct (find_reg _ _ _) as [g|]; [destruct (nth_error _ g) as [kg|] eqn:Hg|]; inv_some H; try exact T1.
    apply T_hunregister; [exact T1 | exact Hg].
Qed.

Lemma finish_unary_keep l h f w p :
  nth_error l w = Some p -> (forall g, p = WkRun g -> g <> h) -> nth_error (finish_unary l h f) w = Some p.
Proof.
  intros Hn Hp. unfold finish_unary. rewrite nth_error_map, Hn. simpl. destruct p; auto.
  destruct (Nat.eqb_spec h0 h); auto. subst. exfalso. eapply Hp; eauto.
Qed.

Lemma finish_unary_hit l h f w : nth_error l w = Some (WkRun h) -> nth_error (finish_unary l h f) w = Some (WkHand f).
Proof. intros Hn. unfold finish_unary. rewrite nth_error_map, Hn. simpl. rewrite Nat.eqb_refl. reflexivity. Qed.

Lemma T_hstep f s h k o :
  T s -> nth_error (hs s) h = Some k -> h_pc k = HGate -> pol_c01 f s h o = true -> T (hstep s h k o).
Proof.
  intros HT Hn Hg Hpol. unfold pol_c01 in Hpol. rewrite Hn in Hpol.
  destruct (h_unary k) eqn:Hu.
  - (* unary: the return *)
    destruct o; try discriminate Hpol. destruct rep as [r|]; [|discriminate Hpol]. destruct e; try discriminate Hpol.
    unfold hstep. rewrite Hu. destruct HT as [Tn Tr Tq]. constructor; sproj.
    + intros h0 k0 P U. apply nth_upd_cases in P. destruct P as [(-> & -> & _) | (_ & P)]; [right; reflexivity | eauto].
    + intros h0 k0 P U G. apply nth_upd_cases in P. destruct P as [(-> & -> & _) | (Hne & P)]; [simpl in G; discriminate G|].
      destruct (Tr _ _ P U G) as (w & Q). exists w. apply finish_unary_keep; auto. intros g E. inversion E; subst. auto.
    + intros rq Hin Hd. in_log Hin. destruct (Tq _ Hin Hd) as [(fr0 & A & B) | [(h0 & k0 & A & B & C & D) | (fr & A & B)]].
      * left. eauto.
      * destruct (Nat.eq_dec h0 h) as [->|Hne].
        -- rewrite Hn in A. inversion A; subst k0. destruct (Tr _ _ Hn Hu Hg) as (w & Q).
           right. right. exists (unary_reply k (Some r) HNil). split; [|exact C].
           unfold rpend. sproj. right. left. exists w. apply finish_unary_hit. exact Q.
        -- right. left. exists h0, k0. split; [apply nth_upd_fwd; auto | auto].
      * right. right. exists fr. split; auto. unfold rpend in *. sproj. destruct A as [A | [(w & A) | A]]; auto.
        -- right. left. exists w. apply finish_unary_keep; auto. intros g E. discriminate E.
        -- right. right. apply in_or_app. auto.
  - (* a stream handler: only its own entry and the log (no read) change *)
    destruct (hstep_shape s h k o Hn Hg) as (k' & Hhs & Hu' & _ & _ & _ & Hq & _).
    destruct (hstep_log s h k o) as (evs & Elog & Hev).
    destruct (hstep_rd_crashed s h k o) as [Erd _].
    assert (Ewk : wk (hstep s h k o) = wk s /\ wr (hstep s h k o) = wr s).
    { unfold hstep. rewrite Hu. destruct o; try destruct (h_hsent k); sproj; auto. }
    destruct Ewk as [Ewk Ewr].
    apply (T_from_old s); [exact HT | | | | | | ].
    + intros fr [A | [(w & A) | A]]; unfold rpend; rewrite Ewk, Ewr, Elog.
      * left. exact A.
      * right. left. exists w. exact A.
      * right. right. apply in_or_app. left. exact A.
    + intros h0 k0 P U. rewrite Hhs. destruct (Nat.eq_dec h0 h) as [->|Hne]; [congruence|].
      exists k0. split; [apply nth_upd_fwd; auto | auto].
    + intros h0 k0 P U. rewrite Hhs in P. apply nth_upd_cases in P. destruct P as [(-> & -> & _) | (_ & P)]; [congruence | eauto].
    + intros w h0 P. rewrite Ewk. exact P.
    + exists evs. split; auto. clear - Hev. induction evs as [|e evs IH]; auto.
      simpl. pose proof (Hev e (or_introl eq_refl)) as X. destruct e; try contradiction; apply IH; intros; apply Hev; right; auto.
    + rewrite Erd. auto.
Qed.

Lemma T_ext f s a : T s -> pol_ok (pol_c01 f) s (Server.LExt a) = true -> env_ok a = true -> T (Server.ext s a).
Proof.
  intros HT Hpol Ha. destruct a; try discriminate Ha; simpl.
  - apply (T_from_old s); [exact HT | rpend_fwd_tac | uh_fwd_tac HT | uh_bwd_tac HT | run_fwd_tac | log_noread | offer_fwd].
  - destruct (nth_error (hs s) h) as [k|] eqn:Hn; [|exact HT]. destruct (h_pc k) eqn:Hg; try exact HT.
    eapply T_hstep; eauto.
Qed.

Lemma T_init nw : T (init_n nw).
Proof.
  constructor; simpl.
  - intros h k P. destruct h; discriminate.
  - intros h k P. destruct h; discriminate.
  - intros rq [].
Qed.

(* runs of the server in which no fault is injected and unary handlers obey the policy *)
Definition lbl_ok (l : Server.label) : bool := match l with Server.LExt a => env_ok a | Server.LInt _ => true end.

Lemma FT_run f ls : forall v v', inv_hdr v -> sff v -> T v ->
  srun_pol (pol_c01 f) v ls = Some v' -> forallb lbl_ok ls = true -> inv_hdr v' /\ sff v' /\ T v'.
Proof.
  induction ls as [|l ls IH]; simpl; intros v v' Ih F HT H Hl.
  - inversion H; subst; auto.
  - destruct (pol_ok (pol_c01 f) v l) eqn:Hp; [|discriminate].
    destruct (Server.lstep v l) as [v1|] eqn:E; [|discriminate].
    apply andb_prop in Hl. destruct Hl as [Hl1 Hl2].
    apply (IH v1); auto; destruct l as [a|n]; simpl in E.
    + inversion E; subst. apply inv_hdr_ext; auto.
    + destruct (nth_error (Server.rules v) n) as [r|] eqn:En; [|discriminate].
      apply nth_error_In in En. apply rules_cases in En. destruct En as [i ->]. eapply inv_hdr_int; eauto.
    + inversion E; subst. apply sff_ext; auto.
    + destruct (nth_error (Server.rules v) n) as [r|] eqn:En; [|discriminate].
      apply nth_error_In in En. apply rules_cases in En. destruct En as [i ->]. eapply sff_int; eauto.
    + inversion E; subst. eapply T_ext; eauto.
    + destruct (nth_error (Server.rules v) n) as [r|] eqn:En; [|discriminate].
      apply nth_error_In in En. apply rules_cases in En. destruct En as [i ->]. eapply T_int; eauto.
Qed.

(* More facts about the server model alone (arbitrary peer), for C01_complete:
   - [O]: every frame on its way to the transport (or written) carries the id of a frame that was read;
   - [sff]: while the environment injects no fault, no failure flag is ever set;
   - [NA]: under the policy of C01 no unary handler ever waits for its context;
   - [T]: while no fault is injected, every unary request read is on offer, or at a live handler that owns a
     worker, or has a reply pending or written. *)
From Coq Require Import List ZArith Bool Lia Arith.
Import ListNotations.
From Goat Require Import Model.Client Model.Server Proofs.ClientBase Proofs.ServerProofs Proofs.ServerInv Proofs.ServerTrace
  Model.Sys Proofs.SysLog Proofs.SysFacts.
Open Scope Z_scope.

(* ---------- O: origin of every frame ---------- *)
Definition orig (v : Server.state) (fr : frame) : Prop := exists rq, In (SvRead rq) (Server.log v) /\ fid rq = fid fr.

Record O (v : Server.state) : Prop := mkO {
  o_pend : forall fr, pending v fr -> orig v fr;
  o_hs : forall h k, nth_error (hs v) h = Some k -> In (SvRead (h_req k)) (Server.log v);
  o_offer : forall fr, rd v = RdOffer fr -> In (SvRead fr) (Server.log v);
  o_rst : forall fr, rd v = RdRst fr -> In (SvRead fr) (Server.log v) }.

Lemma orig_mono s s' fr : (exists evs, Server.log s' = Server.log s ++ evs) -> orig s fr -> orig s' fr.
Proof. intros (evs & E) (rq & Hin & Hid). exists rq. split; auto. rewrite E. apply in_or_app. auto. Qed.

Definition pend_same (s s' : Server.state) : Prop := forall fr, pending s' fr -> pending s fr.

(* the handlers of s' are those of s, possibly updated at one index without changing the request frame *)
Definition hs_same_req (s s' : Server.state) : Prop :=
  forall h k', nth_error (hs s') h = Some k' -> exists k, nth_error (hs s) h = Some k /\ h_req k' = h_req k.

Lemma O_from_old s s' :
  O s -> pend_same s s' -> hs_same_req s s' -> (exists evs, Server.log s' = Server.log s ++ evs) ->
  (forall fr, rd s' = RdOffer fr -> rd s = RdOffer fr) -> (forall fr, rd s' = RdRst fr -> rd s = RdRst fr) -> O s'.
Proof.
  intros [Op Oh Oo Or] PS HS HL H1 H2. pose proof HL as (evs & E). constructor.
  - intros fr P. eapply orig_mono; eauto.
  - intros h k' Hn. destruct (HS _ _ Hn) as (k & Hk & ->). rewrite E. apply in_or_app. left. eauto.
  - intros fr Hr. rewrite E. apply in_or_app. left. auto.
  - intros fr Hr. rewrite E. apply in_or_app. left. auto.
Qed.

Ltac pend_same_tac :=
  let fr := fresh "fr" in let P := fresh "P" in
  intros fr P; destruct P as [P | wX P | hX kX skX P Q | P]; sproj;
  [ try discriminate P; try (inversion P; subst; clear P); eauto using pending
  | try (apply nth_upd_cases in P; destruct P as [(-> & P & _) | (_ & P)]; [try discriminate P; try (inversion P; subst; clear P) | ]); eauto using pending
  | try (apply nth_upd_cases in P; destruct P as [(-> & -> & _) | (_ & P)]; [simpl in Q; try discriminate Q; try (inversion Q; subst; clear Q) | ]); eauto using pending
  | in_log P; eauto using pending ].

Ltac hs_same_tac :=
  let h := fresh "hY" in let k' := fresh "kY" in let P := fresh "PY" in
  intros h k' P; sproj;
  first [ eexists; split; [exact P | reflexivity]
        | apply nth_upd_cases in P; destruct P as [(-> & -> & _) | (_ & P)];
          [ eexists; split; [eassumption | reflexivity] | eexists; split; [exact P | reflexivity] ] ].

Lemma O_from_step s s' :
  O s -> (forall fr, pending s' fr -> pending s fr \/ orig s' fr) ->
  (forall h k', nth_error (hs s') h = Some k' ->
     (exists k, nth_error (hs s) h = Some k /\ h_req k' = h_req k) \/ In (SvRead (h_req k')) (Server.log s')) ->
  (exists evs, Server.log s' = Server.log s ++ evs) ->
  (forall fr, rd s' = RdOffer fr -> rd s = RdOffer fr \/ In (SvRead fr) (Server.log s')) ->
  (forall fr, rd s' = RdRst fr -> rd s = RdRst fr \/ In (SvRead fr) (Server.log s')) -> O s'.
Proof.
  intros [Op Oh Oo Or] PS HS HL H1 H2. pose proof HL as (evs & E). constructor.
  - intros fr P. destruct (PS fr P) as [P0 | Og]; auto. eapply orig_mono; eauto.
  - intros h k' Hn. destruct (HS _ _ Hn) as [(k & Hk & ->) | Hr]; auto. rewrite E. apply in_or_app. left. eauto.
  - intros fr Hr. destruct (H1 _ Hr); auto. rewrite E. apply in_or_app. left. auto.
  - intros fr Hr. destruct (H2 _ Hr); auto. rewrite E. apply in_or_app. left. auto.
Qed.

Ltac old_l := let fr := fresh in let P := fresh in intros fr P; left; revert fr P.

Lemma O_stream_dispatch s fr0 : O s -> In (SvRead fr0) (Server.log s) -> rd s = RdRead -> O (stream_dispatch s fr0).
Proof.
  intros HO Hr Erd. unfold stream_dispatch.
  destruct (find_reg (fid fr0) (hs s) 0) as [h|].
  - destruct (is_rst fr0).
    + destruct (nth_error (hs s) h) as [k|] eqn:Hn; [|exact HO].
      apply (O_from_old s); [exact HO | pend_same_tac | hs_same_tac | log_ext | rd_same | rd_same].
    + apply (O_from_old s); [exact HO | pend_same_tac | hs_same_tac | log_ext | rd_same | rd_same].
  - destruct (is_rst fr0); [exact HO|].
    destruct (has_body fr0).
    { apply (O_from_step s); [exact HO | old_l; pend_same_tac | intros ? ? P; left; revert P; sproj; intros P; eauto | log_ext | rd_same | ].
      sproj. intros ? E. inversion E; subst. right. exact Hr. }
    destruct (has_trl fr0); [exact HO|].
    destruct (md_bad fr0).
    { apply (O_from_step s); [exact HO | old_l; pend_same_tac | intros ? ? P; left; revert P; sproj; intros P; eauto | log_ext | rd_same | ].
      sproj. intros ? E. inversion E; subst. right. exact Hr. }
    apply (O_from_step s); [exact HO | | | log_ext | rd_same | rd_same].
    + intros fr P. left. destruct P as [P | wX P | hX kX skX P Q | P]; sproj; eauto using pending.
      * apply nth_app_new in P. destruct P as [P | (_ & ->)]; [eauto using pending | simpl in Q; discriminate Q].
      * in_log P; eauto using pending.
    + intros h k' P. sproj. apply nth_app_new in P. destruct P as [P | (_ & ->)]; [left; eauto|].
      right. simpl. apply in_or_app. left. exact Hr.
Qed.

Lemma O_start_unary s w fr0 : O s -> In (SvRead fr0) (Server.log s) -> rd s = RdRead -> O (start_unary s w fr0).
Proof.
  intros HO Hr Erd. unfold start_unary.
  assert (Og : forall s', (exists evs, Server.log s' = Server.log s ++ evs) -> forall fr, fid fr = fid fr0 -> orig s' fr).
  { intros s' (evs & E) fr Hid. exists fr0. split; auto. rewrite E. apply in_or_app. auto. }
  destruct (negb (has_hdr fr0)); [apply (O_from_old s); [exact HO | pend_same_tac | hs_same_tac | log_ext | rd_same | rd_same]|].
  destruct (md_bad fr0).
  { apply (O_from_step s); [exact HO | | intros ? ? P; left; revert P; sproj; intros P; eauto | log_ext | rd_same | rd_same].
    intros fr P. destruct P as [P | wX P | hX kX skX P Q | P]; sproj; eauto using pending.
    apply nth_upd_cases in P. destruct P as [(-> & P & _) | (_ & P)]; [|eauto using pending].
    inversion P; subst. right. apply Og; [log_ext | reflexivity]. }
  destruct (body_tok fr0 <? 0).
  { apply (O_from_step s); [exact HO | | intros ? ? P; left; revert P; sproj; intros P; eauto | log_ext | rd_same | rd_same].
    intros fr P. destruct P as [P | wX P | hX kX skX P Q | P]; sproj; eauto using pending.
    apply nth_upd_cases in P. destruct P as [(-> & P & _) | (_ & P)]; [|eauto using pending].
    inversion P; subst. right. apply Og; [log_ext | reflexivity]. }
  apply (O_from_step s); [exact HO | | | log_ext | rd_same | rd_same].
  - intros fr P. left. destruct P as [P | wX P | hX kX skX P Q | P]; sproj; eauto using pending.
    + apply nth_upd_cases in P. destruct P as [(-> & P & _) | (_ & P)]; [discriminate P | eauto using pending].
    + apply nth_app_new in P. destruct P as [P | (_ & ->)]; [eauto using pending | simpl in Q; discriminate Q].
    + in_log P; eauto using pending.
  - intros h k' P. sproj. apply nth_app_new in P. destruct P as [P | (_ & ->)]; [left; eauto|].
    right. simpl. apply in_or_app. left. exact Hr.
Qed.

Lemma O_hunregister s g kg : O s -> nth_error (hs s) g = Some kg -> O (add_log (set_h s g (hunregister kg)) [SvUnreg g]).
Proof.
  intros HO Hg. apply (O_from_old s); [exact HO | | hs_same_tac | log_ext | rd_same | rd_same].
  intros fr P. destruct P as [P | wX P | hX kX skX P Q | P]; sproj; eauto using pending.
  - apply nth_upd_cases in P. destruct P as [(-> & -> & _) | (_ & P)]; [ | eauto using pending].
    eapply PHs; [exact Hg | exact Q].
  - in_log P; eauto using pending.
Qed.

Lemma O_int s i s' : O s -> rule_of i s = Some s' -> O s'.
Proof.
  intros HO H. destruct i; simpl in H.
  all: try solve [ start_rule H; (apply (O_from_old s); [exact HO | try pend_same_tac | try hs_same_tac | try log_ext | try rd_same | try rd_same]) ].
  - (* r_rd_read *)
    unfold r_rd_read in H. destruct (rd s) eqn:Erd; try discriminate.
    destruct (Server.inbox s) as [|fr0 rest] eqn:Ei.
    + destr_in H; inv_some H; apply (O_from_old s); [exact HO | pend_same_tac | hs_same_tac | log_ext | rd_same | rd_same | exact HO | pend_same_tac | hs_same_tac | log_ext | rd_same | rd_same].
    + assert (O1 : O (add_log (set_inbox s rest) [SvRead fr0])).
      { apply (O_from_old s); [exact HO | pend_same_tac | hs_same_tac | log_ext | rd_same | rd_same]. }
      destruct (dispatch fr0); inv_some H.
      * exact O1.
      * apply (O_from_step s); [exact HO | old_l; pend_same_tac | intros ? ? P; left; revert P; sproj; intros P; eauto | log_ext | | rd_same].
        sproj. intros ? E. inversion E; subst. right. apply in_or_app. right. simpl. auto.
      * apply O_stream_dispatch; [exact O1 | sproj; apply in_or_app; right; simpl; auto | sproj; exact Erd].
  - (* r_rd_offer *)
    unfold r_rd_offer in H. destruct (rd s) eqn:Erd; try discriminate.
    destruct (find_idle (wk s) 0) as [w|]; [|discriminate]. inv_some H.
    assert (Hr : In (SvRead f) (Server.log s)) by (apply (o_offer _ HO); exact Erd).
    assert (O1 : O (add_log (set_rd s RdRead) [SvJob w f])).
    { apply (O_from_old s); [exact HO | pend_same_tac | hs_same_tac | log_ext | rd_same | rd_same]. }
    apply O_start_unary; [exact O1 | sproj; apply in_or_app; left; exact Hr | sproj; reflexivity].
  - (* r_rd_rst *)
    unfold r_rd_rst in H. destruct (rd s) eqn:Erd; try discriminate. destruct (wr s) eqn:Ewr; try discriminate.
    assert (Hr : In (SvRead f) (Server.log s)) by (apply (o_rst _ HO); exact Erd).
    destruct (has_hdr f); inv_some H.
    + apply (O_from_step s); [exact HO | | intros ? ? P; left; revert P; sproj; intros P; eauto | log_ext | rd_same | rd_same].
      intros fr P. destruct P as [P | wX P | hX kX skX P Q | P]; sproj; eauto using pending.
      * inversion P; subst. right. exists f. split; [apply in_or_app; left; exact Hr | reflexivity].
      * in_log P; eauto using pending.
    + apply (O_from_old s); [exact HO | pend_same_tac | hs_same_tac | log_ext | rd_same | rd_same].
  - (* r_h_unreg *)
    unfold r_h_unreg in H. destruct (nth_error (hs s) h) as [k|] eqn:Hn; [|discriminate].
    destruct (h_pc k) eqn:Hpc; try discriminate. destruct (mu_free s); [|discriminate].
    assert (O1 : O (set_h s h (hset_pc k HDead))).
    { apply (O_from_old s); [exact HO | pend_same_tac | hs_same_tac | log_ext | rd_same | rd_same]. }
    destruct (find_reg _ _ _) as [g|]; [destruct (nth_error _ g) as [kg|] eqn:Hg|]; inv_some H; try exact O1.
    apply O_hunregister; [exact O1 | exact Hg].
Qed.

Lemma fid_resp fr e : fid (resp fr e) = eid e.
Proof. reflexivity. Qed.

Lemma O_hstep s h k o : O s -> nth_error (hs s) h = Some k -> h_pc k = HGate -> O (hstep s h k o).
Proof.
  intros HO Hn Hg.
  destruct (hstep_shape s h k o Hn Hg) as (k' & Hhs & _ & _ & _ & _ & Hq & _).
  destruct (hstep_log s h k o) as (evs & Elog & Hev).
  destruct (hstep_rd_crashed s h k o) as [Erd _].
  assert (Og : forall fr, fid fr = fid (h_req k) -> orig (hstep s h k o) fr).
  { intros fr Hid. exists (h_req k). split; auto. rewrite Elog. apply in_or_app. left. apply (o_hs _ HO h k Hn). }
  apply (O_from_step s); [exact HO | | | eauto | rewrite Erd; auto | rewrite Erd; auto].
  - (* pending frames: old ones, or frames carrying the id of this handler's request *)
    intros fr P. unfold hstep in *.
    destruct (h_unary k) eqn:Hu.
    + destruct o; try destruct (h_hsent k) eqn:Hs;
        first [ left; exact P
              | (eapply pend_upd_h in P;
                 [ | sproj; reflexivity | sproj; reflexivity
                   | sproj; first [reflexivity | symmetry; apply upd_same; exact Hn] | sproj; no_write ]);
                [ destruct P as [P | (sk & P)]; [left; exact P | simpl in P; rewrite ?Hg in P; discriminate P] ]
              | idtac ].
      destruct P as [P | wX P | hX kX skX P Q | P]; sproj.
      * left. eauto using pending.
      * apply finish_unary_nth in P. destruct P as (p0 & P0 & [(E & _) | (E1 & E2)]).
        -- subst p0. left. eauto using pending.
        -- inversion E2; subst fr. right. apply Og. reflexivity.
      * apply nth_upd_cases in P. destruct P as [(-> & -> & _) | (_ & P)]; [simpl in Q; discriminate Q | left; eauto using pending].
      * in_log P; left; eauto using pending.
    + assert (G : pending s fr \/ exists k' sk, h_pc k' = HInSend fr sk /\ (k' = k \/ fid fr = fid (h_req k))).
      { destruct o; try destruct (h_hsent k) eqn:Hs;
          (eapply pend_upd_h in P; [ | sproj; reflexivity | sproj; reflexivity | sproj; try reflexivity | sproj; no_write ]);
          try (destruct P as [P | (sk & P)]; [left; exact P | right; eexists; exists sk; split; [exact P|]]).
        all: try (simpl in P; try discriminate P; inversion P; subst; clear P).
        all: try (right; reflexivity).
        all: try (left; reflexivity).
        all: try (symmetry; apply upd_same; exact Hn).
        all: try (exfalso; match goal with X : h_pc _ = HInSend _ _ |- _ => rewrite Hg in X; discriminate X end). }
      destruct G as [G | (k2 & sk & Hpc & [-> | Hid])]; auto.
      rewrite Hg in Hpc. discriminate Hpc.
  - intros h0 k0 P. rewrite Hhs in P. apply nth_upd_cases in P. destruct P as [(-> & -> & _) | (_ & P)]; left; eauto.
Qed.

Lemma O_ext s a : O s -> O (Server.ext s a).
Proof.
  intros HO. destruct a; simpl.
  all: try solve [apply (O_from_old s); [exact HO | pend_same_tac | hs_same_tac | log_ext | rd_same | rd_same]].
  destruct (nth_error (hs s) h) as [k|] eqn:Hn; [|exact HO].
  destruct (h_pc k) eqn:Hg; try exact HO.
  apply O_hstep; auto.
Qed.

Lemma O_init nw : O (init_n nw).
Proof.
  constructor; simpl; try tauto; try discriminate.
  - intros fr P. destruct P as [P | w P | h k sk P Q | P]; simpl in *; try discriminate; try tauto.
    + apply nth_error_In in P. apply repeat_spec in P. discriminate.
    + destruct h; discriminate.
  - intros h k P. destruct h; discriminate.
Qed.

Theorem O_reach nw ls s : Server.lrun (init_n nw) ls = Some s -> O s.
Proof. apply lrun_inv; [intros; apply O_ext; auto | intros; eapply O_int; eauto | apply O_init]. Qed.

(* every frame the server wrote carries the id of a frame it had read *)
Theorem srv_write_origin nw ls s fr : Server.lrun (init_n nw) ls = Some s ->
  In (SvWrite fr) (Server.log s) -> exists rq, In (SvRead rq) (Server.log s) /\ fid rq = fid fr.
Proof. intros H Hw. apply (o_pend _ (O_reach _ _ _ H)). apply PLog. exact Hw. Qed.

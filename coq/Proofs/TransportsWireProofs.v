(* The transports over the concrete wire format of the Rpc envelope: the codec
   round trip (WireFormatProofs) discharges the codec hypothesis of the
   transport lemmas (TransportsProofs). *)
From Coq Require Import List ZArith Bool Lia.
Import ListNotations.
From Goat Require Import Base.Bytes Model.WireFormat Model.Transports.
From Goat Require Import Proofs.WireFormatProofs Proofs.TransportsProofs.
Open Scope Z_scope.

Lemma ws_end_to_end : forall ls s,
  ws_run encode decode ls = Some s -> ws_clean wf ls ->
  map (@WsMsg rpc) (ws_written (ws_log s)) =
  ws_frame_results (ws_log s) ++ map (ws_classify decode) (ws_wire s).
Proof.
  intros ls s Hrun Hclean.
  pose proof (ws_results encode decode ls s Hrun) as Hinv. unfold ws_inv in Hinv.
  assert (Hs : ws_sent_inv encode wf s).
  { unfold ws_run in Hrun. eapply ws_sent_clean; [exact Hclean| |exact Hrun]. split; [reflexivity|constructor]. }
  destruct Hs as [Hsent Hwf]. rewrite Hsent, map_map in Hinv. rewrite <- Hinv.
  apply map_ext_in. intros e He. rewrite Forall_forall in Hwf.
  unfold ws_classify. cbn [f_bin f_data]. rewrite decode_encode by auto. reflexivity.
Qed.

Lemma http_end_to_end : forall rt iv tmo now ls (s : hst rpc bytes) q c r e0,
  h_run decode rt iv tmo now ls = Some s -> wf e0 = true ->
  In (HEvReq q (BBytes (encode e0))) (hs_log s) -> In (HEvDeliver q c r) (hs_log s) ->
  In (HEvRead r (HROk e0)) (hs_log s).
Proof.
  intros rt iv tmo now ls s q c r e0 Hrun Hwf Hreq Hd.
  destruct (h_full_invariant _ _ _ _ _ _ _ Hrun) as (_ & _ & L1 & L2 & L3 & L4 & L5 & L6 & L7 & L8 & _).
  destruct (L8 _ _ _ Hd) as (_ & b & a & e & Hb & Hc & _ & Hrd).
  rewrite (L2 _ _ _ Hb Hreq) in Hc. unfold http_classify in Hc. rewrite decode_encode in Hc by exact Hwf.
  destruct (rt e0); try discriminate. inversion Hc; subst. exact Hrd.
Qed.

(* No refusal depends on the size of an envelope: the encoding of EVERY canonical envelope whose
   source maps to an address is classified "deliver, as that envelope" - however long its body is.
   With http_400_iff: such a request is never answered 400. *)
Lemma http_accepts_every_envelope : forall (rt : rpc -> route) e a,
  wf e = true -> rt e = RtAddr a -> http_classify decode rt (BBytes (encode e)) = VDeliver a e.
Proof.
  intros rt e a Hwf Hrt. unfold http_classify. rewrite (decode_encode e Hwf), Hrt. reflexivity.
Qed.

Lemma http_never_400_on_envelope : forall rt iv tmo now ls (s : hst rpc bytes) q e a,
  h_run decode rt iv tmo now ls = Some s -> wf e = true -> rt e = RtAddr a ->
  In (HEvReq q (BBytes (encode e))) (hs_log s) ->
  (forall b, In (HEvReq q b) (hs_log s) -> b = BBytes (encode e)) ->
  ~ In (HEvResp q 400) (hs_log s).
Proof.
  intros rt iv tmo now ls s q e a Hrun Hwf Hrt Hreq Huniq H400.
  destruct (proj1 (@http_400_iff _ _ decode rt iv tmo now ls s q Hrun) H400) as (b & why & Hb & Hc).
  rewrite (Huniq b Hb), (http_accepts_every_envelope rt e a Hwf Hrt) in Hc. discriminate.
Qed.

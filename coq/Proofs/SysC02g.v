(* C02, no loss towards the handler. Server fact [PI] (arbitrary peer that respects the per-stream shape
   [good]; no fault injected: [sff]): as long as a stream handler has not been cancelled, the frames read with
   its id after its opening frame are EXACTLY what it has taken, what sits in its queue and what the read loop
   is handing to it, in order; once cancelled (it returned), what it took stays a prefix of them. *)
From Coq Require Import List ZArith Bool Lia Arith.
Import ListNotations.
From Goat Require Import Model.Client Model.Server Proofs.ClientBase Proofs.ServerProofs Proofs.ServerInv Proofs.ServerTrace
  Model.Sys Proofs.SysLog Proofs.SysProofs Proofs.SysFacts Proofs.SysFacts2 Proofs.SysC02 Proofs.SysC02b Proofs.SysC02e.
Open Scope Z_scope.

Definition opener (f : frame) : bool := negb (has_body f) && negb (has_trl f) && negb (md_bad f).

(* what the peer must respect, per id: no reset, all frames of one id addressed alike (same method kind and
   destination), and only the first frame of an id may be an opening frame *)
Definition good (i : Z) (l : list sev) : Prop :=
  (forall f, In f (idreads i l) -> is_rst f = false) /\
  (forall f g, In f (idreads i l) -> In g (idreads i l) -> dispatch f = dispatch g) /\
  (forall f, In f (tl (idreads i l)) -> opener f = false).
Definition Good (l : list sev) : Prop := forall i, good i l.

Lemma in_tl_app {A} (x : A) a b : In x (tl a) -> In x (tl (a ++ b)).
Proof. destruct a; simpl; [tauto|]. intros H. apply in_or_app. auto. Qed.

Lemma Good_app l evs : Good (l ++ evs) -> Good l.
Proof.
  intros G i. destruct (G i) as (G1 & G2 & G3). rewrite idreads_app in *. repeat split.
  - intros f Hin. apply G1. apply in_or_app. auto.
  - intros f g Hf Hg. apply G2; apply in_or_app; auto.
  - intros f Hin. apply G3. apply in_tl_app. exact Hin.
Qed.

(* the same for a set of ids only *)
Definition Goods (sel : Z -> bool) (l : list sev) : Prop := forall i, sel i = true -> good i l.

Lemma Goods_app sel l evs : Goods sel (l ++ evs) -> Goods sel l.
Proof.
  intros G i Si. destruct (G i Si) as (G1 & G2 & G3). rewrite idreads_app in *. repeat split.
  - intros f Hin. apply G1. apply in_or_app. auto.
  - intros f g Hf Hg. apply G2; apply in_or_app; auto.
  - intros f Hin. apply G3. apply in_tl_app. exact Hin.
Qed.

Definition pc_end (k : hnd) : bool := match h_pc k with HUnreg | HDead => true | _ => false end.

Definition PIh (s : Server.state) (h : nat) (k : hnd) : Prop :=
  h_cancel k = pc_end k /\ dispatch (h_req k) = DStream /\
  exists T, idreads (fid (h_req k)) (Server.log s) = h_req k :: T /\
    (h_cancel k = false -> T = takes h (Server.log s) ++ qpart k ++ fpart h (rd s)) /\
    (h_cancel k = true -> is_prefix (takes h (Server.log s)) T).

(* [sel]: the stream ids concerned (a reset, a cancellation on another stream is none of their business) *)
Definition PIs (sel : Z -> bool) (s : Server.state) : Prop :=
  forall h k, nth_error (hs s) h = Some k -> h_unary k = false -> sel (fid (h_req k)) = true -> PIh s h k.
Definition PI (s : Server.state) : Prop := PIs (fun _ => true) s.

Definition kept (s s' : Server.state) (h : nat) (k' : hnd) : Prop :=
  exists k, nth_error (hs s) h = Some k /\ h_req k' = h_req k /\ h_unary k' = h_unary k /\ h_q k' = h_q k /\
            h_cancel k' = h_cancel k /\ pc_end k' = pc_end k /\
            (fpart h (rd s') = fpart h (rd s) \/ (fpart h (rd s') = [] /\ h_cancel k = true)).

Lemma is_prefix_app_r {A} (p l r : list A) : is_prefix p l -> is_prefix p (l ++ r).
Proof. intros [x ->]. exists (x ++ r). rewrite app_assoc. reflexivity. Qed.

(* a rule that reads nothing and takes nothing; each stream handler is either kept (queue, cancellation, end of
   its life unchanged; the hand-off to it unchanged, or abandoned if it is cancelled) or its clause is proved
   directly *)
Lemma PI_step sel s s' evs :
  PIs sel s ->
  (forall h k', nth_error (hs s') h = Some k' -> h_unary k' = false -> sel (fid (h_req k')) = true -> kept s s' h k' \/ PIh s' h k') ->
  Server.log s' = Server.log s ++ evs -> no_takes evs -> sreads evs = [] -> PIs sel s'.
Proof.
  intros HP HK E Hnt Hsr h k' Hn Hu Sl.
  destruct (HK _ _ Hn Hu Sl) as [(k & Hk & Hreq & Hun & Hq & Hc & Hpe & Hfp) | Direct]; [|exact Direct].
  rewrite Hreq in Sl.
  assert (Eid : forall i, idreads i (Server.log s') = idreads i (Server.log s)).
  { intros i. rewrite E, idreads_app. unfold idreads at 2. rewrite Hsr. simpl. apply app_nil_r. }
  rewrite Hun in Hu. destruct (HP _ _ Hk Hu Sl) as (Hce & Hd & T & HT & Hb & Hcc).
  unfold PIh. rewrite Hreq, Eid, Hc, Hpe. split; auto. split; auto.
  exists T. split; auto. rewrite E, takes_app, Hnt, app_nil_r.
  assert (Q : qpart k' = qpart k) by (unfold qpart; rewrite Hq; reflexivity). rewrite Q.
  split; auto. intros Hf. destruct Hfp as [-> | (_ & Hall)]; auto. rewrite Hall in Hf. discriminate.
Qed.

Ltac fp_same := sproj; first [ left; reflexivity | match goal with E : rd _ = _ |- _ => rewrite E; left; reflexivity end ].

Ltac kept_tac :=
  let h := fresh "hY" in let k' := fresh "kY" in let P := fresh "PY" in let U := fresh "UY" in let S := fresh "SY" in
  intros h k' P U S; left; unfold kept; sproj;
  first [ eexists; split; [exact P | repeat split; try reflexivity; fp_same]
        | apply nth_upd_cases in P; destruct P as [(-> & -> & _) | (_ & P)];
          [ eexists; split; [eassumption | repeat split; try reflexivity;
                                            first [ fp_same
                                                  | unfold pc_end; simpl;
                                                    repeat match goal with E : h_pc _ = _ |- _ => rewrite E end; reflexivity ] ]
          | eexists; split; [exact P | repeat split; try reflexivity; fp_same] ] ].

Lemma kept_same s s' h k : nth_error (hs s) h = Some k -> rd s' = rd s -> kept s s' h k.
Proof. intros Hn Hr. exists k. repeat split; auto. left. rewrite Hr. reflexivity. Qed.

Lemma idreads_snoc_read i l f : idreads i (l ++ [SvRead f]) = idreads i l ++ (if fid f =? i then [f] else []).
Proof. rewrite idreads_app. unfold idreads at 2. simpl. reflexivity. Qed.

(* one more frame is read; for the handler (h, k), unchanged by the step, it either carries another id, or the
   handler is cancelled, or it is being handed to this very handler *)
Lemma PIh_read s s' h k f evs :
  PIh s h k -> rd s = RdRead -> Server.log s' = (Server.log s ++ [SvRead f]) ++ evs -> no_takes evs -> sreads evs = [] ->
  ((fid f <> fid (h_req k) /\ fpart h (rd s') = []) \/ h_cancel k = true \/
   (fid f = fid (h_req k) /\ rd s' = RdFwd h f)) -> PIh s' h k.
Proof.
  intros (Hce & Hd & T & HT0 & Hb & Hcc) Erd E Hnt Hsr Hcase.
  unfold PIh. split; auto. split; auto.
  rewrite E, takes_app, takes_app, Hnt, app_nil_r. simpl takes. rewrite app_nil_r.
  rewrite idreads_app, idreads_snoc_read. unfold idreads at 2. rewrite Hsr. simpl filter. rewrite app_nil_r.
  rewrite Erd in Hb. simpl in Hb.
  destruct Hcase as [(Hne & Hfp) | [Hc | (Hid & Hrd)]].
  - destruct (Z.eqb_spec (fid f) (fid (h_req k))); [contradiction|]. rewrite app_nil_r. exists T. rewrite Hfp. split; auto.
  - destruct (fid f =? fid (h_req k)).
    + exists (T ++ [f]). rewrite HT0. split; [reflexivity|]. split; [intros Hf; congruence|]. intros _. apply is_prefix_app_r. auto.
    + rewrite app_nil_r. exists T. split; auto. split; [intros Hf; congruence | auto].
  - rewrite Hid, Z.eqb_refl. exists (T ++ [f]). rewrite HT0. split; [reflexivity|]. rewrite Hrd. simpl. rewrite Nat.eqb_refl. split.
    + intros Hf. rewrite (Hb Hf). rewrite !app_nil_r. rewrite <- !app_assoc. reflexivity.
    + intros Hf. apply is_prefix_app_r. auto.
Qed.

Lemma PI_int sel nw s i s' : inv nw s -> sff s -> TK s -> Goods sel (Server.log s') -> PIs sel s -> rule_of i s = Some s' -> PIs sel s'.
Proof.
  intros HI F HT G HP H. destruct i; simpl in H.
  all: try solve [ start_rule H; sff_tac F;
                   (eapply (PI_step sel s); [exact HP | try kept_tac | sproj; first [symmetry; apply app_nil_r | rewrite <- ?app_assoc; reflexivity]
                                        | try no_takes_tac | try reflexivity]) ].
  - (* r_rd_read *)
    unfold r_rd_read in H. destruct (rd s) eqn:Erd; try discriminate.
    destruct (sff_fields _ F) as (F1 & _ & _ & _ & _ & _ & _ & F8 & _).
    destruct (Server.inbox s) as [|f rest] eqn:Ei.
    { rewrite F1, F8 in H. discriminate. }
    (* facts about the new frame, from the shape the peer respects *)
    assert (Hlog1 : forall evs, Server.log s' = (Server.log s ++ [SvRead f]) ++ evs ->
              In f (idreads (fid f) (Server.log s'))).
    { intros evs E. rewrite E, idreads_app, idreads_snoc_read, Z.eqb_refl. apply in_or_app. left. apply in_or_app. right. left. reflexivity. }
    (* a stream handler with the frame's id that is not cancelled is registered *)
    assert (Hregd : forall hZ kZ, nth_error (hs s) hZ = Some kZ -> h_unary kZ = false -> sel (fid (h_req kZ)) = true -> h_cancel kZ = false -> h_reg kZ = true).
    { intros hZ kZ P U Sl C. destruct (HP _ _ P U Sl) as (Hce & _). destruct (i_h _ _ HI _ _ P) as (_ & K2 & _).
      rewrite (K2 U). unfold pc_dead. unfold pc_end in Hce. destruct (h_pc kZ); try reflexivity; congruence. }
    (* the frames read with the id of a stream handler start with its opening frame *)
    assert (Hin0 : forall hZ kZ, nth_error (hs s) hZ = Some kZ -> h_unary kZ = false -> sel (fid (h_req kZ)) = true ->
              In (h_req kZ) (idreads (fid (h_req kZ)) (Server.log s)) /\ dispatch (h_req kZ) = DStream).
    { intros hZ kZ P U Sl. destruct (HP _ _ P U Sl) as (_ & Hd & T & HT0 & _). rewrite HT0. split; [left; reflexivity | exact Hd]. }
    destruct (dispatch f) eqn:Ed; inv_some H.
    + (* skipped *)
      intros hZ kZ P U Sl. sproj. eapply (PIh_read s _ hZ kZ f []); [apply HP; auto | exact Erd | sproj; rewrite app_nil_r; reflexivity | no_takes_tac | reflexivity | ].
      left. split; [|sproj; rewrite Erd; reflexivity]. intros Hid.
      assert (Sf : sel (fid f) = true) by (rewrite Hid; exact Sl).
      destruct (Hin0 _ _ P U Sl) as (Hi & Hds). destruct (G (fid f) Sf) as (_ & G2 & _).
      assert (X : dispatch f = dispatch (h_req kZ)).
      { apply G2; [eapply (Hlog1 []); sproj; rewrite app_nil_r; reflexivity|]. sproj. rewrite idreads_app, Hid. apply in_or_app. left. exact Hi. }
      congruence.
    + (* a unary request *)
      intros hZ kZ P U Sl. sproj. eapply (PIh_read s _ hZ kZ f []); [apply HP; auto | exact Erd | sproj; rewrite app_nil_r; reflexivity | no_takes_tac | reflexivity | ].
      left. split; [|sproj; reflexivity]. intros Hid.
      assert (Sf : sel (fid f) = true) by (rewrite Hid; exact Sl).
      destruct (Hin0 _ _ P U Sl) as (Hi & Hds). destruct (G (fid f) Sf) as (_ & G2 & _).
      assert (X : dispatch f = dispatch (h_req kZ)).
      { apply G2; [eapply (Hlog1 []); sproj; rewrite app_nil_r; reflexivity|]. sproj. rewrite idreads_app, Hid. apply in_or_app. left. exact Hi. }
      congruence.
    + (* a frame of a stream method *)
      destruct (sel (fid f)) eqn:Sf.
      { (* of a stream that concerns us *)
      assert (Hrst : is_rst f = false).
      { destruct (G (fid f) Sf) as (G1 & _). apply G1. destruct (stream_dispatch_log (add_log (set_inbox s rest) [SvRead f]) f) as (_ & _ & evs & E & _).
        eapply (Hlog1 evs). rewrite E. reflexivity. }
      (* handlers with another id, and cancelled handlers, are not concerned *)
      assert (Hsame : forall hZ kZ, nth_error (hs s) hZ = Some kZ -> h_unary kZ = false -> fid (h_req kZ) = fid f -> h_cancel kZ = false ->
                find_reg (fid f) (hs s) 0 = Some hZ).
      { intros hZ kZ P U Hid C. assert (Sl : sel (fid (h_req kZ)) = true) by (rewrite Hid; exact Sf). pose proof (Hregd _ _ P U Sl C) as Hr.
        destruct (find_reg (fid f) (hs s) 0) as [g|] eqn:Ef.
        - destruct (find_reg_some _ _ _ _ Ef) as (_ & kg & Hkg & Hrg & Hidg). rewrite Nat.sub_0_r in Hkg.
          f_equal. eapply (i_uniq _ _ HI g hZ kg kZ); eauto. congruence.
        - exfalso. eapply (find_reg_none _ _ _ Ef hZ kZ); eauto. }
      unfold stream_dispatch in *. cbn [hs add_log set_inbox] in *.
      destruct (find_reg (fid f) (hs s) 0) as [h1|] eqn:Ef.
      * rewrite Hrst. destruct (find_reg_some _ _ _ _ Ef) as (_ & k1 & Hk1 & Hr1 & Hid1). rewrite Nat.sub_0_r in Hk1.
        intros hZ kZ P U Sl. sproj. eapply (PIh_read s _ hZ kZ f []); [apply HP; auto | exact Erd | sproj; rewrite app_nil_r; reflexivity | no_takes_tac | reflexivity | ].
        sproj. destruct (Z.eq_dec (fid f) (fid (h_req kZ))) as [Hid | Hne].
        -- destruct (h_cancel kZ) eqn:C; [right; left; reflexivity|]. right. right. split; auto.
           pose proof (Hsame _ _ P U (eq_sym Hid) C) as X. inversion X; subst. reflexivity.
        -- left. split; auto. simpl. destruct (Nat.eqb_spec h1 hZ) as [->|_]; [|reflexivity].
           rewrite Hk1 in P. inversion P; subst. congruence.
      * (* nobody is registered under this id: handlers with this id are cancelled *)
        assert (Hold : forall hZ kZ, nth_error (hs s) hZ = Some kZ -> h_unary kZ = false ->
                  fid f <> fid (h_req kZ) \/ h_cancel kZ = true).
        { intros hZ kZ P U. destruct (Z.eq_dec (fid f) (fid (h_req kZ))) as [Hid | Hne]; auto.
          destruct (h_cancel kZ) eqn:C; auto. pose proof (Hsame _ _ P U (eq_sym Hid) C) as X. discriminate X. }
        assert (Hgen : forall s2 evs, hs s2 = hs s -> (forall h0, fpart h0 (rd s2) = []) ->
                  Server.log s2 = (Server.log s ++ [SvRead f]) ++ evs -> no_takes evs -> sreads evs = [] -> PIs sel s2).
        { intros s2 evs E2 Efp El Hnt Hsr hZ kZ P U Sl. rewrite E2 in P.
          eapply (PIh_read s _ hZ kZ f evs); [apply HP; auto | exact Erd | exact El | exact Hnt | exact Hsr | ].
          destruct (Hold _ _ P U) as [X | X]; [left; split; auto | right; left; exact X]. }
        rewrite Hrst in *.
        destruct (has_body f) eqn:Hb; [apply (Hgen _ []); [reflexivity | intros; reflexivity | sproj; rewrite app_nil_r; reflexivity | no_takes_tac | reflexivity]|].
        destruct (has_trl f) eqn:Htr; [apply (Hgen _ []); [reflexivity | intros; sproj; rewrite Erd; reflexivity | sproj; rewrite app_nil_r; reflexivity | no_takes_tac | reflexivity]|].
        destruct (md_bad f) eqn:Hmd; [apply (Hgen _ []); [reflexivity | intros; reflexivity | sproj; rewrite app_nil_r; reflexivity | no_takes_tac | reflexivity]|].
        (* a new stream handler *)
        assert (Hop : opener f = true) by (unfold opener; rewrite Hb, Htr, Hmd; reflexivity).
        set (ev := SvInvoke (length (hs s)) false (fid f) (f_mth f) 0 (md_tok f)) in *.
        assert (Hempty : idreads (fid f) (Server.log s) = []).
        { destruct (idreads (fid f) (Server.log s)) as [|x l0] eqn:E0; auto. exfalso.
          destruct (G (fid f) Sf) as (_ & _ & G3). assert (X : opener f = false); [|congruence]. apply G3.
          sproj. rewrite idreads_app, idreads_snoc_read, E0, Z.eqb_refl. simpl. apply in_or_app. left. apply in_or_app. right. left. reflexivity. }
        intros hZ kZ P U Sl. sproj. apply nth_app_new in P. destruct P as [P | (-> & ->)].
        -- eapply (PIh_read s _ hZ kZ f [ev]); [apply HP; auto | exact Erd | sproj; reflexivity | no_takes_tac | reflexivity | ].
           left. split; [|sproj; rewrite Erd; reflexivity]. intros Hid.
           destruct (Hin0 _ _ P U Sl) as (Hi & _). rewrite <- Hid, Hempty in Hi. destruct Hi.
        -- unfold PIh. sproj. simpl. split; [reflexivity|]. split; [exact Ed|]. exists [].
           subst ev. rewrite idreads_app, idreads_snoc_read, Hempty, Z.eqb_refl. unfold idreads. simpl. split; [reflexivity|]. split; [|discriminate].
           intros _. rewrite !takes_app, (takes_fresh s HT), Erd. reflexivity. }
      (* of a stream that is none of our business: every handler concerned carries another id *)
      assert (Hne : forall hZ kZ, nth_error (hs s) hZ = Some kZ -> sel (fid (h_req kZ)) = true -> fid f <> fid (h_req kZ)).
      { intros hZ kZ P Sl Hid. rewrite <- Hid in Sl. congruence. }
      assert (Hgen : forall s2 evs, hs s2 = hs s -> (forall hZ kZ, nth_error (hs s) hZ = Some kZ -> sel (fid (h_req kZ)) = true -> fpart hZ (rd s2) = []) ->
                Server.log s2 = (Server.log s ++ [SvRead f]) ++ evs -> no_takes evs -> sreads evs = [] -> PIs sel s2).
      { intros s2 evs E2 Efp El Hnt Hsr hZ kZ P U Sl. rewrite E2 in P.
        eapply (PIh_read s _ hZ kZ f evs); [apply HP; auto | exact Erd | exact El | exact Hnt | exact Hsr | ].
        left. split; [apply (Hne _ _ P Sl) | apply (Efp _ _ P Sl)]. }
      unfold stream_dispatch in *. cbn [hs add_log set_inbox] in *.
      destruct (find_reg (fid f) (hs s) 0) as [h1|] eqn:Ef.
      * destruct (find_reg_some _ _ _ _ Ef) as (_ & k1 & Hk1 & Hr1 & Hid1). rewrite Nat.sub_0_r in Hk1.
        destruct (is_rst f).
        -- rewrite Hk1. intros hZ kZ P U Sl. sproj. apply nth_upd_cases in P. destruct P as [(-> & -> & _) | (Hn1 & P)].
           ++ exfalso. simpl in Sl. rewrite Hid1 in Sl. congruence.
           ++ eapply (PIh_read s _ hZ kZ f []); [apply HP; auto | exact Erd | sproj; rewrite app_nil_r; reflexivity | no_takes_tac | reflexivity | ].
              left. split; [apply (Hne _ _ P Sl) | sproj; rewrite Erd; reflexivity].
        -- apply (Hgen _ []); [reflexivity | | sproj; rewrite app_nil_r; reflexivity | no_takes_tac | reflexivity].
           intros hZ kZ P Sl. sproj. simpl. destruct (Nat.eqb_spec h1 hZ) as [->|_]; [|reflexivity].
           exfalso. rewrite Hk1 in P. inversion P; subst. rewrite Hid1 in Sl. congruence.
      * destruct (is_rst f); [apply (Hgen _ []); [reflexivity | intros; sproj; rewrite Erd; reflexivity | sproj; rewrite app_nil_r; reflexivity | no_takes_tac | reflexivity]|].
        destruct (has_body f) eqn:Hb; [apply (Hgen _ []); [reflexivity | intros; reflexivity | sproj; rewrite app_nil_r; reflexivity | no_takes_tac | reflexivity]|].
        destruct (has_trl f) eqn:Htr; [apply (Hgen _ []); [reflexivity | intros; sproj; rewrite Erd; reflexivity | sproj; rewrite app_nil_r; reflexivity | no_takes_tac | reflexivity]|].
        destruct (md_bad f) eqn:Hmd; [apply (Hgen _ []); [reflexivity | intros; reflexivity | sproj; rewrite app_nil_r; reflexivity | no_takes_tac | reflexivity]|].
        set (ev := SvInvoke (length (hs s)) false (fid f) (f_mth f) 0 (md_tok f)) in *.
        intros hZ kZ P U Sl. sproj. apply nth_app_new in P. destruct P as [P | (-> & ->)].
        -- eapply (PIh_read s _ hZ kZ f [ev]); [apply HP; auto | exact Erd | sproj; reflexivity | no_takes_tac | reflexivity | ].
           left. split; [apply (Hne _ _ P Sl) | sproj; rewrite Erd; reflexivity].
        -- exfalso. simpl in Sl. congruence.

  - (* r_rd_offer: at most a unary handler is appended *)
    unfold r_rd_offer in H. destruct (rd s) eqn:Erd; try discriminate.
    destruct (find_idle (wk s) 0) as [w|]; [|discriminate]. inv_some H.
    destruct (start_unary_log (add_log (set_rd s RdRead) [SvJob w f]) w f) as (_ & _ & evs & E & Hev).
    eapply (PI_step sel s _ ([SvJob w f] ++ evs)); [exact HP | | rewrite E; unfold add_log, set_rd; cbn [Server.log]; rewrite <- app_assoc; reflexivity | | ].
    + intros hZ kZ P U Sl. left. unfold start_unary in P.
      assert (Rd : rd (start_unary (add_log (set_rd s RdRead) [SvJob w f]) w f) = RdRead).
      { unfold start_unary. destruct (negb (has_hdr f)); [reflexivity|]. destruct (md_bad f); [reflexivity|]. destruct (body_tok f <? 0); reflexivity. }
      assert (Fp : fpart hZ (rd (start_unary (add_log (set_rd s RdRead) [SvJob w f]) w f)) = fpart hZ (rd s)) by (rewrite Rd, Erd; reflexivity).
      destruct (negb (has_hdr f)); [sproj; exists kZ; repeat split; auto|].
      destruct (md_bad f); [sproj; exists kZ; repeat split; auto|].
      destruct (body_tok f <? 0); [sproj; exists kZ; repeat split; auto|].
      sproj. apply nth_app_new in P. destruct P as [P | (_ & ->)]; [exists kZ; repeat split; auto | simpl in U; discriminate U].
    + intros h0. rewrite takes_app. simpl. apply takes_none. intros f0 Hin. destruct (Hev _ Hin) as (? & ? & ? & ? & ? & ? & X). discriminate X.
    + rewrite sreads_app. simpl. clear - Hev. induction evs as [|e evs IH]; auto.
      destruct (Hev e (or_introl eq_refl)) as (? & ? & ? & ? & ? & ? & ->). simpl. apply IH. intros e0 Hin. apply Hev. right. exact Hin.
  - (* r_rd_fwd_enq: the frame being handed over enters the queue *)
    start_rule H. rename Heqr into Erd. rename Heqo into Hn. rename Heqo0 into Hq.
    eapply (PI_step sel s _ [SvFwd h f]); [exact HP | | sproj; reflexivity | no_takes_tac | reflexivity].
    intros hZ kZ P U Sl. sproj. apply nth_upd_cases in P. destruct P as [(-> & -> & _) | (Hne & P)].
    + right. simpl in U. destruct (HP _ _ Hn U Sl) as (Hce & Hd & T & HT0 & Hb & Hcc).
      unfold PIh. sproj. simpl. split; auto. split; auto. exists T. rewrite takes_app, idreads_app. simpl takes. unfold idreads at 2. simpl.
      rewrite !app_nil_r. split; auto. split.
      * intros Hf. rewrite (Hb Hf), Erd. unfold qpart. simpl. rewrite Hq. simpl. rewrite Nat.eqb_refl. reflexivity.
      * exact Hcc.
    + left. exists kZ. repeat split; auto. left. rewrite Erd. simpl. destruct (Nat.eqb_spec h hZ) as [->|_]; [contradiction | reflexivity].
  - (* r_rd_fwd_gone: only for a cancelled handler *)
    start_rule H. rename Heqr into Erd. rename Heqo into Hn.
    assert (Hc : h_cancel h0 = true).
    { destruct (sff_fields _ F) as (_ & _ & _ & _ & _ & _ & _ & _ & Fc). unfold hdone in Heqb. rewrite Fc, orb_false_r in Heqb. exact Heqb. }
    eapply (PI_step sel s _ [SvDrop h f]); [exact HP | | sproj; reflexivity | no_takes_tac | reflexivity].
    intros hZ kZ P U Sl. sproj. left. exists kZ. repeat split; auto. rewrite Erd. simpl.
    destruct (Nat.eqb_spec h hZ) as [->|_]; [right; split; auto; rewrite Hn in P; inversion P; subst; exact Hc | left; reflexivity].
  - (* r_h_recv: the queued frame is taken *)
    start_rule H. rename Heqo into Hn. rename Heqo0 into Hq. rename Heqh1 into Hpc.
    intros hZ kZ P U Sl. sproj. unfold PIh. sproj. rewrite takes_app, idreads_app. unfold idreads at 2. simpl sreads. simpl filter. rewrite app_nil_r.
    apply nth_upd_cases in P. destruct P as [(-> & -> & _) | (Hne & P)].
    + simpl in U. destruct (HP _ _ Hn U Sl) as (Hce & Hd & T & HT0 & Hb & Hcc). simpl.
      rewrite Nat.eqb_refl. unfold pc_end in *. rewrite Hpc in Hce. simpl.
      split; [exact Hce|]. split; [exact Hd|]. exists T. split; [exact HT0|]. split.
      * intros Hf. rewrite (Hb Hf). unfold qpart. simpl. rewrite Hq. simpl. rewrite <- app_assoc. reflexivity.
      * intros Hf. congruence.
    + destruct (HP _ _ P U Sl) as (Hce & Hd & T & HT0 & Hb & Hcc). simpl.
      destruct (Nat.eqb_spec h hZ) as [->|_]; [contradiction|]. rewrite app_nil_r.
      split; auto. split; auto. exists T. auto.
  - (* r_h_send: the writer takes the handler's frame; a trailer ends the handler's life *)
    unfold r_h_send in H. destruct (nth_error (hs s) h) as [k|] eqn:Hn; [|discriminate].
    destruct (wr s) eqn:Ewr; try discriminate. destruct (h_pc k) eqn:Hpc; try discriminate.
    destruct k0; inv_some H.
    + eapply (PI_step sel s); [exact HP | kept_tac | sproj; reflexivity | no_takes_tac | reflexivity].
    + eapply (PI_step sel s); [exact HP | kept_tac | sproj; reflexivity | no_takes_tac | reflexivity].
    + eapply (PI_step sel s _ [SvTaken f]); [exact HP | | sproj; reflexivity | no_takes_tac | reflexivity].
      intros hZ kZ P U Sl. sproj. apply nth_upd_cases in P. destruct P as [(-> & -> & _) | (Hne & P)].
      * right. simpl in U. destruct (HP _ _ Hn U Sl) as (Hce & Hd & T & HT0 & Hb & Hcc).
        unfold pc_end in Hce. rewrite Hpc in Hce.
        unfold PIh. sproj. simpl. split; [reflexivity|]. split; [exact Hd|]. exists T.
        rewrite takes_app, idreads_app. simpl takes. unfold idreads at 2. simpl. rewrite !app_nil_r. split; [exact HT0|]. split; [discriminate|].
        intros _. rewrite (Hb Hce). eexists. reflexivity.
      * left. apply kept_same; auto.
  - (* r_h_send_ctx: the handler's context is not done while it is not cancelled *)
    unfold r_h_send_ctx in H. destruct (nth_error (hs s) h) as [k|] eqn:Hn; [|discriminate].
    destruct (h_pc k) eqn:Hpc; try discriminate.
    assert (Hdone : hdone s k = true) by (destruct k0; destruct (hdone s k); try discriminate; reflexivity).
    destruct (sff_fields _ F) as (_ & _ & _ & _ & _ & _ & _ & _ & Fc). unfold hdone in Hdone. rewrite Fc, orb_false_r in Hdone.
    destruct (h_unary k) eqn:Hun.
    + (* a unary handler is never in HInSend *)
      exfalso. destruct (i_h _ _ HI _ _ Hn) as (K1 & _). destruct (K1 Hun) as (_ & [X | [X | X]]); congruence.
    + destruct (sel (fid (h_req k))) eqn:Sk.
      { exfalso. destruct (HP _ _ Hn Hun Sk) as (Hce & _). unfold pc_end in Hce. rewrite Hpc in Hce. congruence. }
      (* a cancelled handler of a stream that is none of our business gives up *)
      assert (Kh : forall s2 k2, hs s2 = upd h k2 (hs s) -> h_req k2 = h_req k -> rd s2 = rd s ->
                   forall hZ kZ, nth_error (hs s2) hZ = Some kZ -> sel (fid (h_req kZ)) = true -> kept s s2 hZ kZ).
      { intros s2 k2 E2 Er2 Er hZ kZ P Sl. rewrite E2 in P. apply nth_upd_cases in P. destruct P as [(-> & -> & _) | (_ & P)].
        - rewrite Er2 in Sl. congruence.
        - apply kept_same; auto. }
      destruct k0; destr_in H; inv_some H;
        (eapply (PI_step sel s); [exact HP | | sproj; reflexivity | no_takes_tac | reflexivity];
         intros hZ kZ P U Sl; left; eapply Kh; [reflexivity | reflexivity | reflexivity | exact P | exact Sl]).
  - (* r_h_unreg: the entry found under the id is the handler's own *)
    unfold r_h_unreg in H. destruct (nth_error (hs s) h) as [k|] eqn:Hn; [|discriminate].
    destruct (h_pc k) eqn:Hpc; try discriminate. destruct (mu_free s); [|discriminate].
    destruct (i_h _ _ HI _ _ Hn) as (K1 & K2 & _).
    destruct (h_unary k) eqn:Hun.
    { exfalso. destruct (K1 eq_refl) as (_ & [X | [X | X]]); congruence. }
    assert (Hreg : h_reg k = true) by (rewrite (K2 eq_refl); unfold pc_dead; rewrite Hpc; reflexivity).
    assert (Kh : forall s2, hs s2 = upd h (hset_pc k HDead) (hs s) -> rd s2 = rd s ->
                 forall hZ kZ, nth_error (hs s2) hZ = Some kZ -> kept s s2 hZ kZ).
    { intros s2 E2 Er hZ kZ P. rewrite E2 in P. apply nth_upd_cases in P. destruct P as [(-> & -> & _) | (_ & P)].
      - exists k. repeat split; auto. unfold pc_end. simpl. rewrite Hpc. reflexivity. left. rewrite Er. reflexivity.
      - exists kZ. repeat split; auto. left. rewrite Er. reflexivity. }
    destruct (find_reg (fid (h_req k)) (hs (set_h s h (hset_pc k HDead))) 0) as [g|] eqn:Ef.
    + destruct (nth_error (hs (set_h s h (hset_pc k HDead))) g) as [kg|] eqn:Hg; inv_some H.
      * destruct (find_reg_some _ _ _ _ Ef) as (_ & k2 & Hk2 & Hreg2 & Hid2). rewrite Nat.sub_0_r in Hk2.
        rewrite Hg in Hk2. inversion Hk2; subst k2; clear Hk2.
        assert (g = h).
        { destruct (Nat.eq_dec g h); auto. exfalso. unfold set_h, set_hs in Hg; cbn [hs] in Hg.
          rewrite nth_upd_other in Hg by auto. apply n. eapply (i_uniq _ _ HI g h kg k); eauto. }
        subst g. unfold set_h, set_hs in Hg; cbn [hs] in Hg. rewrite nth_upd_same in Hg by (eapply nth_error_lt; eauto).
        inversion Hg; subst kg; clear Hg.
        eapply (PI_step sel s _ [SvUnreg h]); [exact HP | | sproj; reflexivity | no_takes_tac | reflexivity].
        intros hZ kZ P U Sl. left. sproj. rewrite upd_upd in P. apply nth_upd_cases in P. destruct P as [(-> & -> & _) | (_ & P)].
        -- simpl in Sl. destruct (HP _ _ Hn Hun Sl) as (Hce & _). unfold pc_end in Hce. rewrite Hpc in Hce.
           exists k. simpl. repeat split; auto. unfold pc_end. simpl. rewrite Hpc. reflexivity.
        -- exists kZ. repeat split; auto.
      * eapply (PI_step sel s _ []); [exact HP | | sproj; symmetry; apply app_nil_r | no_takes_tac | reflexivity].
        intros hZ kZ P U Sl. left. eapply Kh; eauto; reflexivity.
    + inv_some H. eapply (PI_step sel s _ []); [exact HP | | sproj; symmetry; apply app_nil_r | no_takes_tac | reflexivity].
      intros hZ kZ P U Sl. left. eapply Kh; eauto; reflexivity.
  - (* r_rd_cws_pick: serve has not returned *)
    exfalso. unfold r_rd_cws_pick in H. destruct (rd s) eqn:Erd; try discriminate.
    pose proof (i_exit_rd _ _ HI) as X. unfold rd_exited in X. rewrite Erd in X.
    destruct (sff_fields _ F) as (_ & _ & _ & _ & _ & _ & F7 & _). congruence.
Qed.

Lemma PI_ext sel s a : PIs sel s -> env_ok a = true -> PIs sel (Server.ext s a).
Proof.
  intros HP Ha. destruct a; try discriminate Ha; simpl.
  - eapply (PI_step sel s _ []); [exact HP | kept_tac | sproj; symmetry; apply app_nil_r | no_takes_tac | reflexivity].
  - destruct (nth_error (hs s) h) as [k|] eqn:Hn; [|exact HP]. destruct (h_pc k) eqn:Hg; try exact HP.
    destruct (hstep_shape s h k o Hn Hg) as (k' & Hhs & Hu & _ & Hc & _ & Hreq & Hq & _ & Hst).
    destruct (hstep_log s h k o) as (evs & Elog & Hev).
    destruct (hstep_rd_crashed s h k o) as [Erd _].
    eapply (PI_step sel s _ evs); [exact HP | | exact Elog | | ].
    + intros hZ kZ P U Sl. left. rewrite Hhs in P. apply nth_upd_cases in P. destruct P as [(-> & -> & _) | (_ & P)].
      * exists k. repeat split; auto.
        -- unfold pc_end. rewrite Hg. rewrite Hu in U. destruct (Hst U) as (A & B). destruct (h_pc k'); try reflexivity; congruence.
        -- left. rewrite Erd. reflexivity.
      * exists kZ. repeat split; auto. left. rewrite Erd. reflexivity.
    + intros h0. apply takes_none. intros f Hin. specialize (Hev _ Hin). exact Hev.
    + clear - Hev. induction evs as [|e evs IH]; auto. pose proof (Hev e (or_introl eq_refl)) as X.
      destruct e; try contradiction; simpl; apply IH; intros; apply Hev; right; auto.
Qed.

Lemma PI_init sel nw : PIs sel (init_n nw).
Proof. intros h k P. destruct h; discriminate. Qed.

(* over runs without injected fault, for a peer that respects the per-stream shape on the streams concerned *)
Theorem PIs_reach sel nw ls : forall s, Server.lrun (init_n nw) ls = Some s -> forallb lbl_ok ls = true ->
  Goods sel (Server.log s) -> PIs sel s.
Proof.
  intros s H Hl.
  assert (G : inv nw s /\ sff s /\ TK s /\ (Goods sel (Server.log s) -> PIs sel s)); [|tauto].
  revert s H Hl. induction ls as [|l ls IH] using rev_ind; intros s H Hl.
  - inversion H; subst. split; [apply inv_init|]. split; [apply sff_init|]. split; [apply TK_init | intros _; apply PI_init].
  - rewrite forallb_app in Hl. apply andb_prop in Hl. destruct Hl as [Hl1 Hl2]. simpl in Hl2. rewrite andb_true_r in Hl2.
    rewrite ServerProofs.lrun_app in H. destruct (Server.lrun (init_n nw) ls) as [s0|] eqn:E0; [|discriminate].
    simpl in H. destruct (Server.lstep s0 l) as [s1|] eqn:E1; [|discriminate]. inversion H; subst s1; clear H.
    destruct (IH _ eq_refl Hl1) as (HI & F & HT & HJ).
    destruct l as [a|n]; simpl in E1.
    + inversion E1; subst s. split; [apply inv_ext; auto|]. split; [apply sff_ext; auto|]. split; [apply TK_ext; auto|].
      intros G. apply PI_ext; auto. apply HJ.
      destruct a; simpl in G; try exact G; try discriminate Hl2.
      destruct (nth_error (hs s0) h) as [k|]; [|exact G]. destruct (h_pc k); try exact G.
      destruct (hstep_log s0 h k o) as (evs & E & _). rewrite E in G. eapply Goods_app; eauto.
    + destruct (nth_error (Server.rules s0) n) as [r|] eqn:En; [|discriminate].
      apply nth_error_In in En. apply rules_cases in En. destruct En as [i ->].
      split; [eapply inv_int; eauto|]. split; [eapply sff_int; eauto|]. split; [eapply TK_int; eauto|].
      intros G. eapply PI_int; eauto. apply HJ.
      destruct (sstep_int _ _ _ E1) as (evs & E & _). rewrite E in G. eapply Goods_app; eauto.
Qed.

Theorem PI_reach nw ls : forall s, Server.lrun (init_n nw) ls = Some s -> forallb lbl_ok ls = true ->
  Good (Server.log s) -> PI s.
Proof. intros s H Hl G. apply (PIs_reach _ _ _ _ H Hl). intros i _. apply G. Qed.

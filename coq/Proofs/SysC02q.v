(* C02, the list-level link, handler -> caller, server half. FS: the shape of every frame on its way to the writer
   (a worker's reply is never a bare message; a handler's frame carries its own stream id and is a bare message exactly
   when it comes from SendMsg). Arbitrary peer, all runs. *)
From Coq Require Import List ZArith Bool Lia Arith.
Import ListNotations.
From Goat Require Import Model.Client Model.Server Proofs.ServerProofs Proofs.ServerInv Proofs.ServerTrace Proofs.ServerProto
  Model.Sys Proofs.SysLog Proofs.SysProofs Proofs.SysFacts Proofs.SysFacts2 Proofs.SysC02b Proofs.SysC02c.
Open Scope Z_scope.

(* a bare message: a body, no trailer, no reset *)
Definition msgk (f : frame) : bool :=
  match ebody (f_env f), etrl (f_env f) with Some _, None => negb (erst (f_env f)) | _, _ => false end.
Definition kmsg (sk : skind) : bool := match sk with KMsg => true | _ => false end.

Record FS (v : Server.state) : Prop := mkFS {
  fs_wk : forall w f, nth_error (wk v) w = Some (WkHand f) -> msgk f = false;
  fs_hs : forall h k f sk, nth_error (hs v) h = Some k -> h_pc k = HInSend f sk -> fid f = fid (h_req k) /\ msgk f = kmsg sk }.

Definition wk_old (s s' : Server.state) : Prop :=
  forall w f, nth_error (wk s') w = Some (WkHand f) -> (exists w0, nth_error (wk s) w0 = Some (WkHand f)) \/ msgk f = false.
Definition hs_old (s s' : Server.state) : Prop :=
  forall h k' f sk, nth_error (hs s') h = Some k' -> h_pc k' = HInSend f sk ->
    (exists k, nth_error (hs s) h = Some k /\ h_pc k = HInSend f sk /\ h_req k' = h_req k) \/ (fid f = fid (h_req k') /\ msgk f = kmsg sk).

Lemma FS_from_old s s' : FS s -> wk_old s s' -> hs_old s s' -> FS s'.
Proof.
  intros [W Hh] WO HO. constructor.
  - intros w f P. destruct (WO _ _ P) as [(w0 & P0) | X]; eauto.
  - intros h k' f sk P Q. destruct (HO _ _ _ _ P Q) as [(k & Pk & Qk & R) | X]; auto. rewrite R. eauto.
Qed.

Ltac wk_old_tac :=
  let w := fresh "wZ" in let f := fresh "fZ" in let P := fresh "PZ" in
  intros w f P; sproj;
  first [ left; eexists; exact P
        | apply nth_upd_cases in P; destruct P as [(-> & P & _) | (_ & P)];
          [ first [discriminate P | inversion P; subst; right; reflexivity] | left; eexists; exact P ] ].

Ltac hs_old_tac :=
  let h := fresh "hZ" in let k := fresh "kZ" in let f := fresh "fZ" in let sk := fresh "skZ" in let P := fresh "PZ" in let Q := fresh "QZ" in
  intros h k f sk P Q; sproj;
  first [ left; eexists; split; [exact P | split; [exact Q | reflexivity]]
        | apply nth_upd_cases in P; destruct P as [(-> & -> & _) | (_ & P)];
          [ simpl in Q; first [ discriminate Q
                              | left; eexists; split; [eassumption | split; [first [exact Q | congruence] | reflexivity]] ]
          | left; eexists; split; [exact P | split; [exact Q | reflexivity]] ] ].

Lemma FS_stream_dispatch s fr0 : FS s -> FS (stream_dispatch s fr0).
Proof.
  intros HE. unfold stream_dispatch.
  destruct (find_reg (fid fr0) (hs s) 0) as [h|].
  - destruct (Server.is_rst fr0).
    + destruct (nth_error (hs s) h) as [k|] eqn:Hn; [|exact HE].
      apply (FS_from_old s); [exact HE | wk_old_tac | hs_old_tac].
    + apply (FS_from_old s); [exact HE | wk_old_tac | hs_old_tac].
  - destruct (Server.is_rst fr0); [exact HE|].
    destruct (has_body fr0); [apply (FS_from_old s); [exact HE | wk_old_tac | hs_old_tac]|].
    destruct (has_trl fr0); [exact HE|].
    destruct (md_bad fr0); [apply (FS_from_old s); [exact HE | wk_old_tac | hs_old_tac]|].
    apply (FS_from_old s); [exact HE | wk_old_tac | ].
    intros h k f sk P Q. sproj. apply nth_app_new in P. destruct P as [P | (_ & ->)]; [|simpl in Q; discriminate Q].
    left. eexists. split; [exact P | split; [exact Q | reflexivity]].
Qed.

Lemma FS_start_unary s w fr0 : FS s -> FS (start_unary s w fr0).
Proof.
  intros HE. unfold start_unary.
  destruct (negb (has_hdr fr0)); [apply (FS_from_old s); [exact HE | wk_old_tac | hs_old_tac]|].
  destruct (md_bad fr0); [apply (FS_from_old s); [exact HE | wk_old_tac | hs_old_tac]|].
  destruct (body_tok fr0 <? 0); [apply (FS_from_old s); [exact HE | wk_old_tac | hs_old_tac]|].
  apply (FS_from_old s); [exact HE | wk_old_tac | ].
  intros h k f sk P Q. sproj. apply nth_app_new in P. destruct P as [P | (_ & ->)]; [|simpl in Q; discriminate Q].
  left. eexists. split; [exact P | split; [exact Q | reflexivity]].
Qed.

Lemma FS_hunregister s g kg : FS s -> nth_error (hs s) g = Some kg -> FS (add_log (set_h s g (hunregister kg)) [SvUnreg g]).
Proof.
  intros HE Hg. apply (FS_from_old s); [exact HE | wk_old_tac | ].
  intros h k f sk P Q. sproj. apply nth_upd_cases in P. destruct P as [(-> & -> & _) | (_ & P)].
  - left. exists kg. split; [exact Hg | split; [exact Q | reflexivity]].
  - left. eexists. split; [exact P | split; [exact Q | reflexivity]].
Qed.

Lemma FS_int s i s' : FS s -> rule_of i s = Some s' -> FS s'.
Proof.
  intros HF H. destruct i; simpl in H.
  all: try solve [ start_rule H; (apply (FS_from_old s); [exact HF | try wk_old_tac | try hs_old_tac]) ].
  - unfold r_rd_read in H. destruct (rd s) eqn:Erd; try discriminate.
    destruct (Server.inbox s) as [|fr0 rest] eqn:Ei.
    + destr_in H; inv_some H; apply (FS_from_old s); [exact HF | wk_old_tac | hs_old_tac | exact HF | wk_old_tac | hs_old_tac].
    + assert (E1 : FS (add_log (set_inbox s rest) [SvRead fr0])) by (apply (FS_from_old s); [exact HF | wk_old_tac | hs_old_tac]).
      destruct (dispatch fr0); inv_some H.
      * exact E1.
      * apply (FS_from_old s); [exact HF | wk_old_tac | hs_old_tac].
      * apply FS_stream_dispatch. exact E1.
  - unfold r_rd_offer in H. destruct (rd s) eqn:Erd; try discriminate.
    destruct (find_idle (wk s) 0) as [w|]; [|discriminate]. inv_some H.
    apply FS_start_unary. apply (FS_from_old s); [exact HF | wk_old_tac | hs_old_tac].
  - unfold r_h_unreg in H. destruct (nth_error (hs s) h) as [k|] eqn:Hn; [|discriminate].
    destruct (h_pc k) eqn:Hpc; try discriminate. destruct (mu_free s); [|discriminate].
    assert (E1 : FS (set_h s h (hset_pc k HDead))) by (apply (FS_from_old s); [exact HF | wk_old_tac | hs_old_tac]).
    destruct (find_reg _ _ _) as [g|]; [destruct (nth_error _ g) as [kg|] eqn:Hg|]; inv_some H; try exact E1.
    apply FS_hunregister; [exact E1 | exact Hg].
Qed.

Lemma FS_hstep s h k o : FS s -> nth_error (hs s) h = Some k -> h_pc k = HGate -> FS (hstep s h k o).
Proof.
  intros HF Hn Hg. apply (FS_from_old s); [exact HF | | ].
  - intros w f P. unfold hstep in P. destruct (h_unary k); destruct o; try destruct (h_hsent k); sproj;
      try (left; eexists; exact P).
    all: apply finish_unary_nth in P; destruct P as (p0 & P0 & [(E & _) | (E1 & E2)]); [subst p0; left; eexists; exact P0|].
    all: inversion E2; subst f; right; unfold msgk; simpl; destruct rep; reflexivity.
  - intros h0 k' f sk P Q. unfold hstep in P. destruct (h_unary k) eqn:Hu; destruct o; try destruct (h_hsent k) eqn:Hs; sproj;
      try (left; eexists; split; [exact P | split; [exact Q | reflexivity]]);
      (apply nth_upd_cases in P; destruct P as [(-> & -> & _) | (_ & P)];
       [ simpl in Q; first [ discriminate Q | rewrite Hg in Q; discriminate Q
                           | inversion Q; subst; right; split; reflexivity ]
       | left; eexists; split; [exact P | split; [exact Q | reflexivity]] ]).
Qed.

Lemma FS_ext s a : FS s -> FS (Server.ext s a).
Proof.
  intros HF. destruct a; simpl.
  all: try solve [apply (FS_from_old s); [exact HF | wk_old_tac | hs_old_tac]].
  destruct (nth_error (hs s) h) as [k|] eqn:Hn; [|exact HF]. destruct (h_pc k) eqn:Hg; try exact HF.
  apply FS_hstep; auto.
Qed.

Theorem FS_reach nw ls s : Server.lrun (init_n nw) ls = Some s -> FS s.
Proof.
  apply lrun_inv; [intros; apply FS_ext; auto | intros; eapply FS_int; eauto | ].
  constructor.
  - intros w f P. simpl in P. apply nth_error_In in P. apply repeat_spec in P. discriminate.
  - intros h k f sk P. destruct h; discriminate.
Qed.

(* ---------- the SendMsg calls of the handlers that returned nil, with the frame each one handed to the writer ---------- *)
Fixpoint sends (l : list sev) : list (nat * frame) :=
  match l with
  | [] => []
  | x :: r => (match x, r with
               | SvTaken f, SvOp h OOk :: _ => if msgk f then [(h, f)] else []
               | _, _ => []
               end) ++ sends r
  end.

Fixpoint lastok (l : list sev) : Prop :=
  match l with
  | [] => True
  | [SvTaken f] => msgk f = false
  | _ :: r => lastok r
  end.

Lemma sends_app l m : lastok l -> sends (l ++ m) = sends l ++ sends m.
Proof.
  induction l as [|x l IH]; intros HL; [reflexivity|].
  assert (HL' : lastok l) by (destruct l; [exact I | destruct x; exact HL]).
  simpl. rewrite (IH HL'), app_assoc. f_equal. f_equal.
  destruct x; try reflexivity. destruct l as [|y l']; [|reflexivity]. simpl in HL. rewrite HL. simpl.
  destruct m as [|z m']; [reflexivity|]. destruct z; try reflexivity. destruct r; reflexivity.
Qed.

Lemma lastok_app l m : lastok l -> lastok m -> lastok (l ++ m).
Proof.
  intros A B. induction l as [|x l IH]; [exact B|].
  assert (HL' : lastok l) by (destruct l; [exact I | destruct x; exact A]).
  specialize (IH HL'). simpl. destruct (l ++ m) as [|y r] eqn:E.
  - destruct l; [|discriminate E]. simpl in E. subst m. destruct x; try exact I. exact A.
  - destruct x; exact IH.
Qed.

Definition mtk (l : list sev) : list frame := filter msgk (tk l).

Record SD (v : Server.state) : Prop := mkSD {
  sd_eq : map snd (sends (Server.log v)) = mtk (Server.log v);
  sd_own : forall h f, In (h, f) (sends (Server.log v)) -> exists k, nth_error (hs v) h = Some k /\ fid f = fid (h_req k);
  sd_last : lastok (Server.log v) }.

(* a step that lets the writer take nothing that is a bare message *)
Lemma SD_quiet s s' evs :
  SD s -> Server.log s' = Server.log s ++ evs -> hsig_fwd s s' -> sends evs = [] -> mtk evs = [] -> lastok evs -> SD s'.
Proof.
  intros [A B C] El HF S0 M0 L0. constructor.
  - rewrite El, (sends_app _ _ C), S0, app_nil_r. unfold mtk in *. rewrite tk_app, filter_app, M0, app_nil_r. exact A.
  - intros h f Hin. rewrite El, (sends_app _ _ C), S0, app_nil_r in Hin. destruct (B _ _ Hin) as (k & Hk & Hid).
    destruct (HF _ _ Hk) as (k' & Hk' & Hr & _). exists k'. split; [exact Hk' | congruence].
  - rewrite El. apply lastok_app; assumption.
Qed.

Ltac sd_log := sproj; first [ reflexivity | rewrite <- ?app_assoc; reflexivity | symmetry; apply app_nil_r ].
Ltac sd_quiet HS s := eapply (SD_quiet s); [exact HS | sd_log | hsig_fwd_tac | reflexivity | reflexivity | simpl; exact I].

Lemma hsig_fwd_upd s s' g kg k' :
  nth_error (hs s) g = Some kg -> hs s' = upd g k' (hs s) -> h_req k' = h_req kg -> h_unary k' = h_unary kg -> hsig_fwd s s'.
Proof.
  intros Hg E R U h k P. rewrite E. destruct (Nat.eq_dec h g) as [->|Hne].
  - rewrite Hg in P. inversion P; subst. exists k'. split; [apply nth_upd_same; eapply nth_error_lt; eauto | auto].
  - exists k. split; [apply nth_upd_fwd; auto | auto].
Qed.

Lemma SD_stream_dispatch s fr0 : SD s -> SD (stream_dispatch s fr0).
Proof.
  intros HS. unfold stream_dispatch.
  destruct (find_reg (fid fr0) (hs s) 0) as [h|].
  - destruct (Server.is_rst fr0).
    + destruct (nth_error (hs s) h) as [k|] eqn:Hn; [|exact HS]. sd_quiet HS s.
    + sd_quiet HS s.
  - destruct (Server.is_rst fr0); [exact HS|].
    destruct (has_body fr0); [sd_quiet HS s|].
    destruct (has_trl fr0); [exact HS|].
    destruct (md_bad fr0); [sd_quiet HS s|].
    eapply (SD_quiet s); [exact HS | sd_log | apply (hsig_fwd_app _ _ (new_stream fr0)); reflexivity | reflexivity | reflexivity | simpl; exact I].
Qed.

Lemma SD_start_unary s w fr0 : SD s -> SD (start_unary s w fr0).
Proof.
  intros HS. unfold start_unary.
  destruct (negb (has_hdr fr0)); [sd_quiet HS s|].
  destruct (md_bad fr0); [sd_quiet HS s|].
  destruct (body_tok fr0 <? 0); [sd_quiet HS s|].
  eapply (SD_quiet s); [exact HS | sd_log | apply (hsig_fwd_app _ _ (new_unary fr0)); reflexivity | reflexivity | reflexivity | simpl; exact I].
Qed.

Lemma SD_int s i s' : FS s -> SD s -> rule_of i s = Some s' -> SD s'.
Proof.
  intros HF HS H. destruct i; simpl in H.
  all: try solve [ start_rule H; sd_quiet HS s ].
  - unfold r_rd_read in H. destruct (rd s) eqn:Erd; try discriminate.
    destruct (Server.inbox s) as [|fr0 rest] eqn:Ei.
    + destr_in H; inv_some H; sd_quiet HS s.
    + assert (E1 : SD (add_log (set_inbox s rest) [SvRead fr0])) by (sd_quiet HS s).
      destruct (dispatch fr0); inv_some H.
      * exact E1.
      * sd_quiet HS s.
      * apply SD_stream_dispatch. exact E1.
  - unfold r_rd_offer in H. destruct (rd s) eqn:Erd; try discriminate.
    destruct (find_idle (wk s) 0) as [w|]; [|discriminate]. inv_some H.
    apply SD_start_unary. sd_quiet HS s.
  - (* r_rd_rst: a reset is no message *)
    start_rule H; try (sd_quiet HS s).
    all: eapply (SD_quiet s); [exact HS | sd_log | hsig_fwd_tac | reflexivity | reflexivity | simpl; reflexivity].
  - (* r_wk_hand: a worker's reply is no bare message *)
    start_rule H.
    match goal with P : nth_error (wk s) w = Some (WkHand ?f) |- _ => pose proof (fs_wk _ HF _ _ P) as M end.
    eapply (SD_quiet s); [exact HS | sd_log | hsig_fwd_tac | reflexivity | unfold mtk; simpl; rewrite M; reflexivity | simpl; exact M].
  - (* r_h_send *)
    unfold r_h_send in H. destruct (nth_error (hs s) h) as [k|] eqn:Hn; [|discriminate].
    destruct (Server.wr s) eqn:Ewr; try discriminate. destruct (h_pc k) eqn:Hpc; try discriminate.
    destruct (fs_hs _ HF _ _ _ _ Hn Hpc) as (Hid & Hm).
    destruct k0; inv_some H; simpl in Hm.
    + (* a message: SendMsg returns nil *)
      destruct HS as [A B C]. constructor.
      * sproj. rewrite (sends_app _ _ C). simpl. rewrite Hm. simpl. rewrite map_app, A. unfold mtk. rewrite tk_app, filter_app. simpl. rewrite Hm. reflexivity.
      * intros h0 f0 Hin. sproj. rewrite (sends_app _ _ C) in Hin. simpl in Hin. rewrite Hm in Hin. simpl in Hin.
        apply in_app_or in Hin. destruct Hin as [Hin | [Hin | []]].
        -- destruct (B _ _ Hin) as (k1 & Hk1 & Hi1). destruct (Nat.eq_dec h0 h) as [->|Hne].
           ++ rewrite Hn in Hk1. inversion Hk1; subst k1. eexists. split; [apply nth_upd_same; eapply nth_error_lt; eauto | exact Hi1].
           ++ exists k1. split; [apply nth_upd_fwd; auto | exact Hi1].
        -- inversion Hin; subst h0 f0. eexists. split; [apply nth_upd_same; eapply nth_error_lt; eauto | exact Hid].
      * sproj. apply lastok_app; [exact C | simpl; exact I].
    + eapply (SD_quiet s); [exact HS | sd_log | hsig_fwd_tac | simpl; rewrite Hm; reflexivity | unfold mtk; simpl; rewrite Hm; reflexivity | simpl; exact I].
    + eapply (SD_quiet s); [exact HS | sd_log | hsig_fwd_tac | reflexivity | unfold mtk; simpl; rewrite Hm; reflexivity | simpl; exact Hm].
  - unfold r_h_unreg in H. destruct (nth_error (hs s) h) as [k|] eqn:Hn; [|discriminate].
    destruct (h_pc k) eqn:Hpc; try discriminate. destruct (mu_free s); [|discriminate].
    assert (E1 : SD (set_h s h (hset_pc k HDead))) by (sd_quiet HS s).
    destruct (find_reg _ _ _) as [g|]; [destruct (nth_error _ g) as [kg|] eqn:Hg|]; inv_some H; try exact E1.
    eapply (SD_quiet (set_h s h (hset_pc k HDead))); [exact E1 | sd_log | eapply (hsig_fwd_upd _ _ g kg); [exact Hg | reflexivity | reflexivity | reflexivity] | reflexivity | reflexivity | simpl; exact I].
Qed.

Lemma SD_hstep s h k o : SD s -> nth_error (hs s) h = Some k -> h_pc k = HGate -> SD (hstep s h k o).
Proof.
  intros HS Hn Hg. pose proof (hsig_fwd_hstep s h k o Hn Hg) as HF. unfold hstep in *.
  destruct (h_unary k); destruct o; try destruct (h_hsent k);
    (eapply (SD_quiet s); [exact HS | sd_log | exact HF | reflexivity | reflexivity | simpl; exact I]).
Qed.

Lemma SD_ext s a : SD s -> SD (Server.ext s a).
Proof.
  intros HS. destruct a; simpl.
  all: try solve [sd_quiet HS s].
  destruct (nth_error (hs s) h) as [k|] eqn:Hn; [|exact HS]. destruct (h_pc k) eqn:Hg; try exact HS.
  apply SD_hstep; auto.
Qed.

Theorem SD_reach nw ls s : Server.lrun (init_n nw) ls = Some s -> SD s.
Proof.
  intros H. assert (G : FS s /\ SD s); [|tauto].
  revert H. apply (lrun_inv (fun v => FS v /\ SD v)).
  - intros s0 a (F & D). split; [apply FS_ext | apply SD_ext]; auto.
  - intros s0 i s1 (F & D) Hr. split; [eapply FS_int | eapply SD_int]; eauto.
  - split; [|constructor; simpl; [reflexivity | intros h f [] | exact I]].
    constructor.
    + intros w f P. simpl in P. apply nth_error_In in P. apply repeat_spec in P. discriminate.
    + intros h k f sk P. destruct h; discriminate.
Qed.

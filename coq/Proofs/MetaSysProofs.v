From Coq Require Import Permutation.
From Goat Require Import Base.Bytes Model.Base64 Model.Meta Model.SrvStream Model.MetaSys.
From Goat Require Import Proofs.Base64Proofs Proofs.MetaProofs Proofs.SrvStreamProofs.
Open Scope N_scope.

(* ---- request direction ---- *)
Lemma to_md_acc_to_kv_app m rest acc :
  wf_md m = true -> to_md_acc (to_kv m ++ rest) acc = to_md_acc rest (fold_left add_entry m acc).
Proof.
  revert acc. induction m as [|[k vs] m IH]; intros acc Hwf; [reflexivity|].
  cbn [wf_md forallb] in Hwf. apply andb_true_iff in Hwf as [He Hm].
  cbn [to_kv flat_map fold_left]. rewrite <- app_assoc. rewrite to_md_acc_entry.
  - apply IH. exact Hm.
  - cbn [fst snd] in He. intro Hb. rewrite Hb in He. exact He.
Qed.

Lemma injected_lower : lower injected_key = injected_lkey.
Proof. vm_compute. reflexivity. Qed.
Lemma injected_not_bin : is_bin injected_lkey = false.
Proof. vm_compute. reflexivity. Qed.

Theorem request_with_deadline om v :
  wf_md om = true ->
  handler_md (request_kvs om (Some v)) = Some (md_append injected_lkey v (norm om)).
Proof.
  intro Hwf. unfold handler_md, request_kvs, to_md. rewrite (to_md_acc_to_kv_app _ _ _ Hwf).
  cbn [to_md_acc]. rewrite injected_lower, injected_not_bin. reflexivity.
Qed.

Theorem request_without_deadline om :
  wf_md om = true -> handler_md (request_kvs om None) = Some (norm om).
Proof.
  intro Hwf. unfold handler_md, request_kvs. rewrite app_nil_r. apply codec_exact. exact Hwf.
Qed.

Lemma drop_md_append k v m : drop_key k (md_append k v m) = drop_key k m.
Proof.
  induction m as [|[k' vs] m IH]; cbn [md_append drop_key filter fst].
  - rewrite bytes_eqb_refl. reflexivity.
  - destruct (bytes_eqb k k') eqn:E.
    + cbn [filter fst]. apply bytes_eqb_eq in E. subst k'. rewrite bytes_eqb_refl. reflexivity.
    + cbn [filter fst]. unfold drop_key in IH. rewrite IH. reflexivity.
Qed.

Lemma drop_absent k m : (forall e, In e m -> fst e <> k) -> drop_key k m = m.
Proof.
  induction m as [|e m IH]; intro H; [reflexivity|].
  cbn [drop_key filter]. destruct (bytes_eqb (fst e) k) eqn:E.
  - apply bytes_eqb_eq in E. exfalso. apply (H e); [left; reflexivity|exact E].
  - cbn [negb]. f_equal. apply IH. intros e' Hin. apply H. right. exact Hin.
Qed.

Lemma keys_md_append k v m e : In e (md_append k v m) -> fst e = k \/ exists e', In e' m /\ fst e' = fst e.
Proof.
  induction m as [|[k' vs] m IH]; cbn [md_append]; intro H.
  - destruct H as [<-|[]]. left. reflexivity.
  - destruct (bytes_eqb k k') eqn:E.
    + destruct H as [<-|H].
      * right. exists (k', vs). split; [left; reflexivity|reflexivity].
      * right. exists e. split; [right; exact H|reflexivity].
    + destruct H as [<-|H].
      * right. exists (k', vs). split; [left; reflexivity|reflexivity].
      * destruct (IH H) as [Hk|[e' [Hin He]]]; [left; exact Hk|].
        right. exists e'. split; [right; exact Hin|exact He].
Qed.

Lemma keys_add_entry acc e0 e :
  In e (add_entry acc e0) -> fst e = lower (fst e0) \/ exists e', In e' acc /\ fst e' = fst e.
Proof.
  unfold add_entry. generalize (snd e0) as vs. intro vs. revert acc.
  induction vs as [|v vs IH]; intros acc H; cbn [fold_left] in H.
  - right. exists e. split; [exact H|reflexivity].
  - destruct (IH _ H) as [Hk|[e' [Hin He]]]; [left; exact Hk|].
    destruct (keys_md_append _ _ _ _ Hin) as [Hk|[e'' [Hin' He']]].
    + left. rewrite <- He. exact Hk.
    + right. exists e''. split; [exact Hin'|congruence].
Qed.

Lemma keys_fold m acc e :
  In e (fold_left add_entry m acc) ->
  (exists e0, In e0 m /\ fst e = lower (fst e0)) \/ exists e', In e' acc /\ fst e' = fst e.
Proof.
  revert acc. induction m as [|e0 m IH]; intros acc H; cbn [fold_left] in H.
  - right. exists e. split; [exact H|reflexivity].
  - destruct (IH _ H) as [[e1 [Hin He]]|[e' [Hin He]]].
    + left. exists e1. split; [right; exact Hin|exact He].
    + destruct (keys_add_entry _ _ _ Hin) as [Hk|[e'' [Hin' He']]].
      * left. exists e0. split; [left; reflexivity|congruence].
      * right. exists e''. split; [exact Hin'|congruence].
Qed.

Lemma keys_norm m e : In e (norm m) -> exists e0, In e0 m /\ fst e = lower (fst e0).
Proof.
  intro H. destruct (keys_fold _ _ _ H) as [Hx|[e' [[] _]]]. exact Hx.
Qed.

(* the handler's incoming metadata minus the injected key is exactly the
   normalised caller metadata, with or without a deadline *)
Theorem request_minus_injected om tmo :
  wf_md om = true ->
  (forall e, In e om -> lower (fst e) <> injected_lkey) ->
  option_map (drop_key injected_lkey) (handler_md (request_kvs om tmo)) = Some (norm om).
Proof.
  intros Hwf Hno.
  assert (Hd : drop_key injected_lkey (norm om) = norm om).
  { apply drop_absent. intros e Hin Hk. destruct (keys_norm _ _ Hin) as [e0 [Hin0 He]].
    apply (Hno e0 Hin0). congruence. }
  destruct tmo as [v|].
  - rewrite (request_with_deadline om v Hwf). cbn [option_map]. rewrite drop_md_append, Hd. reflexivity.
  - rewrite (request_without_deadline om Hwf). cbn [option_map]. rewrite Hd. reflexivity.
Qed.

(* ---- whatever the iteration order: the normalised map has every key's own values ---- *)
Theorem perm_values (m m' : mdmap) k vs :
  Permutation m' m ->
  NoDup (map (fun e => lower (fst e)) m) -> In (k, vs) m ->
  vals_of (lower k) (norm m') = vs.
Proof.
  intros Hp Hnd Hin. apply norm_keeps.
  - apply (Permutation_NoDup (l := map (fun e => lower (fst e)) m)); [|exact Hnd].
    apply Permutation_map. apply Permutation_sym. exact Hp.
  - apply (Permutation_in (l := m)); [apply Permutation_sym; exact Hp|exact Hin].
Qed.

Theorem perm_no_invention (m m' : mdmap) k :
  Permutation m' m -> (forall e, In e m -> lower (fst e) <> k) -> vals_of k (norm m') = [].
Proof.
  intros Hp H. apply norm_no_invention. intros e Hin. apply H.
  apply (Permutation_in (l := m')); [exact Hp|exact Hin].
Qed.

(* ---- response direction: streams ---- *)
Section RespProofs.
  Context {P ST : Type}.
  Notation sop := (sop mdmap P ST).
  Notation wenv := (wenv mdmap P ST).
  Notation sstate := (sstate mdmap).

  Fixpoint srun (s : sstate) (ops : list sop) : sstate :=
    match ops with [] => s | o :: r => srun (nexts s o) r end.

  Definition not_trailer (o : sop) : Prop := match o with SendTrailer _ => False | _ => True end.

  Lemma swritten_app s a b : swritten s (a ++ b) = swritten s a ++ swritten (srun s a) b.
  Proof.
    revert s. induction a as [|o a IH]; intro s; [reflexivity|].
    cbn [app swritten srun]. rewrite IH, app_assoc. reflexivity.
  Qed.

  Lemma accepted_hdrs_app s a b :
    accepted_hdrs s (a ++ b) = accepted_hdrs s a ++ accepted_hdrs (srun s a) b.
  Proof.
    revert s. induction a as [|o a IH]; intro s; [reflexivity|].
    cbn [app accepted_hdrs srun]. rewrite IH.
    destruct o; try reflexivity; destruct (res s _); reflexivity.
  Qed.

  Lemma tsent_srun s ops : Forall not_trailer ops -> tsent (srun s ops) = tsent s.
  Proof.
    intro H. revert s. induction H as [|o ops Ho _ IH]; intro s; [reflexivity|].
    cbn [srun]. rewrite IH. destruct o; try contradiction; unfold nexts, sstep; cbn.
    - destruct (hsent s); reflexivity.
    - destruct (hsent s); reflexivity.
    - destruct (tsent s) eqn:E; cbn; [exact E|reflexivity].
    - reflexivity.
    - reflexivity.
  Qed.

  Lemma trls_srun s ops :
    Forall not_trailer ops -> tsent s = false -> trls (srun s ops) = trls s ++ accepted_trls s ops.
  Proof.
    intro H. revert s. induction H as [|o ops Ho Hops IH]; intros s Ht; [cbn; rewrite app_nil_r; reflexivity|].
    cbn [srun accepted_trls].
    assert (Ht' : tsent (nexts s o) = false).
    { pose proof (tsent_srun s [o]) as X. cbn [srun] in X. rewrite X; [exact Ht|]. constructor; [exact Ho|constructor]. }
    rewrite (IH _ Ht').
    destruct o; try contradiction; unfold nexts, sstep; cbn.
    - destruct (hsent s); reflexivity.
    - destruct (hsent s); reflexivity.
    - rewrite Ht. cbn. rewrite <- app_assoc. reflexivity.
    - reflexivity.
    - reflexivity.
  Qed.

  Lemma no_trailer_written s ops :
    Forall not_trailer ops -> Forall (fun e => is_trailer e = false) (swritten s ops).
  Proof.
    intro H. revert s. induction H as [|o ops Ho _ IH]; intro s; [constructor|].
    cbn [swritten]. apply Forall_app. split; [|apply IH].
    destruct o; try contradiction; unfold wr_list, wr, sstep; cbn.
    - destruct (hsent s); constructor.
    - destruct (hsent s); cbn; repeat constructor.
    - destruct (tsent s); constructor.
    - repeat constructor.
    - constructor.
  Qed.

  (* the envelopes of a whole streaming RPC: what the handler's program wrote,
     then exactly one trailer envelope *)
  Lemma stream_envs_shape (ops : list sop) (st : ST) :
    Forall not_trailer ops ->
    stream_envs ops st =
    swritten sinit ops ++
    [WTrailer (if hsent (srun sinit ops) then None else Some (hdrs (srun sinit ops)))
              (accepted_trls sinit ops) st].
  Proof.
    intro H. unfold stream_envs. rewrite swritten_app. f_equal.
    cbn [swritten]. unfold wr_list, wr, sstep. cbn.
    rewrite (tsent_srun sinit ops H). cbn.
    rewrite (trls_srun sinit ops H eq_refl). cbn. reflexivity.
  Qed.

  (* Header(): whichever way the headers leave - SendHeader, first message, or
     with the final status (nil or error) - the first envelope carries every
     accepted header map and the caller decodes exactly their normalised join *)
  Theorem sys_stream_header (emit : mdmap -> mdmap) (ops : list sop) (st : ST) :
    Forall not_trailer ops ->
    wf_md (emit (join (accepted_hdrs sinit ops))) = true ->
    client_header emit (stream_envs ops st) = Some (Some (norm (emit (join (accepted_hdrs sinit ops))))) /\
    match stream_envs ops st with
    | [] => False
    | _ :: rest => Forall (fun e => env_kvs emit e = []) rest
    end.
  Proof.
    intros Hnt Hwf.
    pose proof (flush_headers (P := P) (ST := ST) (sinit (MD := mdmap)) (ops ++ [SendTrailer st]) eq_refl) as Hf.
    fold (stream_envs ops st) in Hf.
    assert (Hne : stream_envs ops st <> []).
    { rewrite (stream_envs_shape ops st Hnt). intro E. apply app_eq_nil in E as [_ E]. discriminate E. }
    destruct (stream_envs ops st) as [|e rest]; [congruence|].
    destruct Hf as [Hh Hrest]. cbn [hdrs sinit app] in Hh.
    rewrite accepted_hdrs_app in Hh. cbn [accepted_hdrs] in Hh.
    rewrite app_nil_r in Hh.
    split.
    - unfold client_header, env_kvs. rewrite Hh. rewrite (codec_exact _ Hwf). reflexivity.
    - eapply Forall_impl; [|exact Hrest]. intros e' He'. unfold env_kvs. rewrite He'. reflexivity.
  Qed.

  Lemma client_trailer_app (emit : mdmap -> mdmap) (a : list wenv) (t : wenv) :
    Forall (fun e => is_trailer e = false) a -> is_trailer t = true ->
    client_trailer emit (a ++ [t]) = Some (to_md (env_trailer_kvs emit t)).
  Proof.
    intros Ha Ht. induction Ha as [|e a He _ IH]; cbn [app client_trailer].
    - destruct t; try discriminate Ht. reflexivity.
    - destruct e; try discriminate He; exact IH.
  Qed.

  (* Trailer(): exactly the normalised join of every SetTrailer argument, on a
     nil and on an error return alike *)
  Theorem sys_stream_trailer (emit : mdmap -> mdmap) (ops : list sop) (st : ST) :
    Forall not_trailer ops ->
    wf_md (emit (join (accepted_trls sinit ops))) = true ->
    client_trailer emit (stream_envs ops st) = Some (Some (norm (emit (join (accepted_trls sinit ops))))).
  Proof.
    intros Hnt Hwf. rewrite (stream_envs_shape ops st Hnt).
    rewrite client_trailer_app; [|apply no_trailer_written; exact Hnt|reflexivity].
    unfold env_trailer_kvs. rewrite (codec_exact _ Hwf). reflexivity.
  Qed.
End RespProofs.

(* ---- response direction: unary ---- *)
Theorem sys_unary (emit : mdmap -> mdmap) (s : ustate mdmap) :
  (wf_md (emit (join (uh s))) = true -> to_md (unary_header_kvs emit s) = Some (norm (emit (join (uh s))))) /\
  (wf_md (emit (join (ut s))) = true -> to_md (unary_trailer_kvs emit s) = Some (norm (emit (join (ut s))))).
Proof. split; intro H; apply codec_exact; exact H. Qed.

(* C09, "or the exact result, if its complete response had already been
   delivered": a call gets the connection error only when nothing that was
   read for it is left: its queue is empty and the read loop holds nothing. *)
From Coq Require Import List ZArith Bool Lia Arith.
Import ListNotations.
From Goat Require Import Model.Client Proofs.ClientBase Proofs.ClientInv Proofs.ClientLog Proofs.ClientRoute.
Open Scope Z_scope.

(* the call has been given the connection error: by its stream loop, or (unary) at its Wait *)
Definition xinv (s : state) : Prop :=
  forall c k, nth_error (calls s) c = Some k ->
    l_rerr k = Some EConn -> rerr s = true /\ cbuf (k_chan k) = None.

Lemma xinv_init : xinv init.
Proof. intros c k H. destruct c; discriminate. Qed.

Definition xok (re re' : bool) (k k' : call) : Prop :=
  l_rerr k' = Some EConn -> (l_rerr k = Some EConn /\ cbuf (k_chan k') = cbuf (k_chan k) \/ cbuf (k_chan k') = None) /\ (l_rerr k = Some EConn \/ re' = true).

Lemma xinv_upd s s' c k k' :
  xinv s -> nth_error (calls s) c = Some k -> calls s' = upd c k' (calls s) -> (rerr s = true -> rerr s' = true) ->
  xok (rerr s) (rerr s') k k' -> xinv s'.
Proof.
  intros HX Hn Hc Hre X1 c0 k0 H0. rewrite Hc in H0. apply nth_upd_inv in H0. destruct H0 as [[-> ->]|[_ H0]].
  - pose proof (HX _ _ Hn) as A. intros Hl. destruct (X1 Hl) as [P Q]. split.
    + destruct Q as [Q|Q]; auto. apply Hre. apply A; auto.
    + destruct P as [[P1 P2]|P]; auto. rewrite P2. apply A; auto.
  - pose proof (HX _ _ H0) as A. intros Hl. destruct (A Hl). auto.
Qed.

Ltac xsolve k :=
  destruct k as [ku kp kpc kid kch kreg kctx sl sc sla srch sd sre str lre ltr lht lab srv shd ssq stq];
  unfold xok; csimpl; subst; csimpl;
  repeat match goal with |- context [if ?b then _ else _] => is_var b; destruct b; csimpl end;
  intros Hx; try discriminate Hx; auto;
  try (split; [ first [ left; split; [assumption | reflexivity] | right; reflexivity | right; assumption ] | first [ left; assumption | right; assumption | right; reflexivity ] ]);
  idtac.

Ltac xupd HX :=
  match goal with
  | E : nth_error (calls ?s) ?c = Some ?k |- xinv ?s' =>
      let cs := eval cbn [calls set_call add_log] in (calls s') in
      let k' := match cs with upd _ ?x _ => x end in
      apply (xinv_upd s s' c k k' HX E); [ reflexivity | csimpl; auto; intros; congruence | xsolve k ]
  end.

Lemma final_not_conn e : final_of e <> Some EConn.
Proof.
  unfold final_of. destruct (erst e); [discriminate|]. destruct (etrl e); [|discriminate].
  destruct (estatus e) as [st|]; [destruct (st_code st =? 0)|]; discriminate.
Qed.

Ltac xfin :=
  try solve
    [ match goal with Hx : _ = _ |- _ => unfold ctx_raw, ctx_status in Hx; csimpl; match type of Hx with context [match ?c with _ => _ end] => destruct c end; discriminate Hx end
    | match goal with Hx : Some ?x = Some EConn, Hf : final_of ?e = Some ?x |- _ => exfalso; inversion Hx; subst; exact (final_not_conn _ Hf) end
    | match goal with Hx : context [if rerr ?s then _ else _] |- _ => destruct (rerr s) eqn:Hre; try discriminate Hx; split; [right; auto | right; auto] end
    | match goal with Hx : Some (if ?b then _ else _) = Some EConn |- _ =>
        destruct b eqn:?;
        [ unfold ctx_status in Hx; csimpl; match type of Hx with context [match ?c with _ => _ end] => destruct c end; discriminate Hx
        | match type of Hx with context [if rerr ?s then _ else _] => destruct (rerr s) eqn:Hre end; try discriminate Hx; split; [right; auto | right; auto] ] end
    | split; [right; auto | right; auto] ].

Lemma xinv_with_call s c f :
  xinv s -> (forall k k', f k = Some k' -> l_rerr k' = l_rerr k /\ k_chan k' = k_chan k) -> xinv (with_call s c f).
Proof.
  intros HX Hf. unfold with_call. destruct (nth_error (calls s) c) eqn:E; auto. destruct (f c0) eqn:Ef; auto.
  destruct (Hf _ _ Ef) as [A B].
  apply (xinv_upd s (set_call s c c1) c c0 c1 HX E); csimpl; auto.
  unfold xok. intros Hx. rewrite A in Hx. rewrite B. auto.
Qed.

Ltac xwc k := apply xinv_with_call; auto; intros k k' H;
  repeat match type of H with
         | match ?x with _ => _ end = Some _ => destruct x eqn:?; try discriminate H
         end; inversion H; subst k'; clear H; csimpl; auto.

Lemma xinv_same s s' : xinv s -> calls s' = calls s -> (rerr s = true -> rerr s' = true) -> xinv s'.
Proof. intros HX Hc Hr c k Hn Hl. rewrite Hc in Hn. destruct (HX _ _ Hn Hl). auto. Qed.

Lemma xinv_ext s a : xinv s -> xinv (ext s a).
Proof.
  intros HX. destruct a; simpl; try solve [xwc k]; try solve [eapply xinv_same; eauto].
  - intros c k Hn Hl. csimpl. apply nth_app_cases in Hn. destruct Hn as [[Hn _]|[_ ->]]; [apply (HX _ _ Hn Hl)|discriminate].
  - intros c k Hn Hl. csimpl. apply nth_app_cases in Hn. destruct Hn as [[Hn _]|[_ ->]]; [apply (HX _ _ Hn Hl)|discriminate].
  - destruct (nth_error (calls s) c) eqn:E; auto. destruct (k_pc c0) eqn:Ep; auto.
    match goal with |- xinv ?s' => apply (xinv_upd s s' c c0 (set_id (set_pc c0 PReg) (counter s + 1)) HX E) end; csimpl; auto.
    unfold xok; csimpl. auto.
Qed.

Lemma xinv_step s l s' : cinv s -> sinv s -> xinv s -> lstep s l = Some s' -> xinv s'.
Proof.
  intros HI HS HX H. apply lstep_kind in H. destruct H.
  - subst. apply xinv_ext; auto.
  - (* r_rl_unblock: the read loop is alive, so no call has been given the connection error *)
    unfold r_rl_unblock in H. open_rule H.
    + eapply xinv_same; eauto.
    + match goal with |- xinv ?s' => apply (xinv_upd s s' c c0 (set_chan c0 (mkChan (Some e) (cclosed (k_chan c0))) (k_reg c0)) HX E0) end; csimpl; auto.
      unfold xok; csimpl. intros Hx. exfalso. destruct (HX _ _ E0 Hx) as [Hr _].
      apply (si_rerr_dead _ HS) in Hr. congruence.
  - unfold r_rl_read in H. open_rule H.
    + (* closeError *)
      intros c k' Hn Hl. csimpl. unfold close_all in Hn. apply nth_map_inv in Hn. destruct Hn as (k & Hk & ->).
      split; auto. destruct (k_reg k); csimpl; apply (HX _ _ Hk); auto.
    + eapply xinv_same; eauto.
    + match goal with E1 : find_reg _ _ 0 = Some _ |- _ => pose proof E1 as E1'; apply find_reg0_some in E1'; destruct E1' as (kk & Hk & Hr & Hid) end.
      match goal with E2 : nth_error _ _ = Some ?k |- _ => rewrite Hk in E2; inversion E2; subst k end.
      match goal with |- xinv ?s' => apply (xinv_upd s s' n kk (set_chan kk (mkChan (Some e) false) true) HX Hk) end; csimpl; auto.
      unfold xok; csimpl. intros Hx. exfalso. destruct (HX _ _ Hk Hx) as [Hre _].
      rewrite (si_rerr_unreg _ HS Hre _ _ Hk) in Hr. discriminate.
    + eapply xinv_same; eauto.
  - unfold r_check in H. open_rule H; xupd HX; xfin.
  - unfold r_reg in H. open_rule H; xupd HX; xfin.
  - unfold r_wait in H. open_rule H; xupd HX; xfin.
  - unfold r_wait_ctx in H. open_rule H; xupd HX; xfin.
  - unfold r_unreg in H. open_rule H; xupd HX; xfin.
  - unfold r_loop_read, closed_err in H. open_rule H; xupd HX; xfin.
  - unfold r_loop_read_ctx in H. open_rule H; xupd HX; xfin.
  - unfold r_loop_hand in H. open_rule H; xupd HX; xfin.
  - unfold r_loop_hand_ctx in H. open_rule H; xupd HX; xfin.
  - unfold r_loop_exit in H. open_rule H; xupd HX; xfin.
  - unfold r_loop_unreg in H. open_rule H; xupd HX; xfin.
  - unfold r_recv in H. open_rule H; xupd HX; xfin.
  - unfold r_header in H. open_rule H; xupd HX; xfin.
  - unfold r_trailer in H. open_rule H; xupd HX; xfin.
  - unfold r_send in H. open_rule H; xupd HX; xfin.
Qed.

Lemma xinv_reach ls s : lrun init ls = Some s -> xinv s.
Proof.
  intros H.
  assert (HH : (cinv s /\ sinv s) /\ xinv s).
  { eapply (lrun_inv (fun s => (cinv s /\ sinv s) /\ xinv s)); eauto.
    - intros s0 l s' [[HI HS] HX] Hs. split; [split|]; eauto using cinv_step, sinv_step, xinv_step.
    - split; [split|]. apply cinv_init. apply sinv_init. apply xinv_init. }
  tauto.
Qed.

(* C09_exact_result: a stream whose read loop ended with the connection error (the recorded read failure, which every
   later RecvMsg / SendMsg reports) had nothing left that was read for it: its queue is empty and the read loop holds
   nothing for it - all the envelopes the read loop ever routed to it, it had taken (or, at most one, lost by its own
   earlier unregistration): the failure never overtakes a delivered envelope *)
Lemma C09_exact_l ls s : lrun init ls = Some s ->
  forall c k, nth_error (calls s) c = Some k -> l_rerr k = Some EConn ->
    rerr s = true /\ chan_q k = [] /\ held s c = [] /\ routed c (log s) = taken c (log s) ++ dropped c (log s).
Proof.
  intros H c k Hn Hl. pose proof (xinv_reach _ _ H _ _ Hn Hl) as [Hr Hb].
  destruct (all4_reach _ _ H) as (HI & HS & HL & HR).
  assert (Hq : chan_q k = []) by (unfold chan_q; rewrite Hb; auto).
  assert (Hh : held s c = []) by (unfold held; rewrite (proj1 (si_rerr_dead _ HS) Hr); auto).
  repeat split; auto. rewrite (ri_eq _ HR _ _ Hn), Hq, Hh. reflexivity.
Qed.

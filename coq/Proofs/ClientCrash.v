(* C13, "does not crash": every operation of the client path that can panic in Go on state the PEER (or the order of the
   goroutines) controls, with the guard the code relies on, as a predicate over the model state; none of them is ever
   enabled in a reachable state. Sites (file:line of /repo 029d2b2):
   A  close(h.done) of an already closed channel        internal/client/multiplexer.go:76 (closeError), :278 (unregisterHandler)
      guard in the code: only handlers still in the registry are closed, under the registry mutex
   B  send on the closed channel cs.rCh                 internal/client/stream.go:395 (hand-off select of the stream loop)
      guard: rCh is closed only by the loop's own deferred block (stream.go:315)
   C  close(cs.rCh) a second time                       internal/client/stream.go:315
      guard: the deferred block runs once
   D  cs.ready.Done() a second time (negative WaitGroup counter)   internal/client/stream.go:339 (onReady)
      guard: `cs.header == nil`; after a release with an ERROR the header stays nil, so the guard alone is not enough:
      the loop must never come back to onReady after an error release
   E  panic("cs.rCh was closed but cs.done == false!")  internal/client/stream.go:275 (RecvMsg)  - the modelled EvPanic
   Not state-dependent, hence no site: every optional field of an envelope is read through a nil-safe getter or behind
   an explicit nil test (multiplexer.go:131 resp.Status != nil, :138 resp.Body != nil; stream.go:387 rpc.Body == nil,
   :428 rpc.Trailer == nil); no type assertion, slice index or map write on peer data outside the registry mutex (map
   writes multiplexer.go:77, :269, :281 are under rm.mutex: atomic rules in the model); h.ch is never closed
   (multiplexer.go:228 cannot send on a closed channel); base64 / protobuf decoding return errors. *)
From Coq Require Import List ZArith Bool Lia.
Import ListNotations.
From Goat Require Import Model.Client Proofs.ClientBase Proofs.ClientInv Proofs.ClientLog Proofs.ClientProps.
Open Scope Z_scope.

Definition crash_A (k : call) : Prop := k_reg k = true /\ cclosed (k_chan k) = true.
Definition crash_B (k : call) : Prop := exists b, s_loop k = LHand b /\ s_rchclosed k = true.
Definition crash_C (k : call) : Prop := s_loop k = LExit /\ s_rchclosed k = true.
Definition crash_D (k : call) : Prop := loop_runs (s_loop k) = true /\ exists e, s_latch k = Some (inr e).
Definition crash_site (s : state) : Prop :=
  (exists c k, nth_error (calls s) c = Some k /\ (crash_A k \/ crash_B k \/ crash_C k \/ crash_D k)) \/
  (exists c, In (EvPanic c) (log s)).

Lemma no_crash_site_l ls s : lrun init ls = Some s -> ~ crash_site s.
Proof.
  intros H [(c & k & Hn & Hk)|(c & Hc)].
  - pose proof H as H2. apply inv_reach in H2. destruct H2 as [HI _]. pose proof (cinv_call _ _ _ HI Hn) as K.
    destruct Hk as [[A B]|[(b & A & B)|[[A B]|[A (e & B)]]]].
    + rewrite (ki_reg_notclosed _ K A) in B. discriminate.
    + destruct (ki_rch_loop _ K B) as [X|X]; rewrite A in X; discriminate.
    + destruct (ki_rch_loop _ K B) as [X|X]; rewrite A in X; discriminate.
    + pose proof (ki_latch_run _ K A) as X. rewrite B in X. discriminate.
  - apply all_inv_reach in H. destruct H as (_ & _ & HL). apply (li_ev _ HL _ Hc).
Qed.

(* C10 composed: the connection model closed under handlers that honour their context. A "closed" step is an internal
   rule or the return of a handler that sits at its gate; [measure] decreases with every closed step, so every closed
   run ends, and where it cannot be extended ([final]) the Q-forms of ServerLive.v apply without a hypothesis on the
   handlers being left to the reader. *)
From Coq Require Import List ZArith Bool Lia Arith.
Import ListNotations.
From Goat Require Import Model.Client Model.Server Proofs.ServerProofs Proofs.ServerInv Proofs.ServerLive Proofs.ServerTrace Proofs.ServerTerm.
Open Scope nat_scope.

Definition is_gate (k : hnd) : bool := match h_pc k with HGate => true | _ => false end.
Definition at_gate (s : state) (h : nat) : bool :=
  match nth_error (hs s) h with Some k => is_gate k | None => false end.

(* the labels of the closed system: every internal rule, and "handler h, in its body, returns" *)
Definition closed_at (s : state) (l : label) : bool :=
  match l with
  | LInt _ => true
  | LExt (AHandlerStep h (HReturn _ _)) => at_gate s h
  | LExt _ => false
  end.

Fixpoint crun (s : state) (ls : list label) : option state :=
  match ls with
  | [] => Some s
  | l :: rest => if closed_at s l then match lstep s l with Some s' => crun s' rest | None => None end else None
  end.

Lemma crun_lrun s ls s' : crun s ls = Some s' -> lrun s ls = Some s'.
Proof.
  revert s. induction ls as [|l ls IH]; intros s H; simpl in *; [assumption|].
  destruct (closed_at s l); [|discriminate]. destruct (lstep s l); [auto | discriminate].
Qed.

(* a handler that honours its context returns once it is back in its body with its context done: a state in which
   such a handler sits at its gate is not final *)
Definition owes_return (s : state) (k : hnd) : bool := is_gate k && hdone s k.
Definition final (s : state) : bool := quiescent s && negb (existsb (owes_return s) (hs s)).

Lemma final_quiescent s : final s = true -> quiescent s = true.
Proof. unfold final. intros H. apply andb_true_iff in H. apply H. Qed.

Lemma final_honours s : final s = true -> honours s.
Proof.
  unfold final. intros H. apply andb_true_iff in H. destruct H as [Q E]. apply negb_true_iff in E.
  intros h k Hn Hd. assert (Hl := nth_error_lt _ _ _ Hn). unfold h_returned.
  destruct (h_pc k) eqn:Hp; auto; exfalso.
  - assert (X : existsb (owes_return s) (hs s) = true).
    { apply existsb_exists. exists k. split; [eapply nth_error_In; eassumption|]. unfold owes_return, is_gate. now rewrite Hp, Hd. }
    congruence.
  - pose proof (q_h s h r_h_recv_ctx Q Hl ltac:(simpl; tauto)) as H1. unfold r_h_recv_ctx in H1.
    rewrite Hn, Hp, Hd in H1. discriminate.
  - destruct k0; try discriminate;
      pose proof (q_h s h r_h_send_ctx Q Hl ltac:(simpl; tauto)) as H1; unfold r_h_send_ctx in H1;
      rewrite Hn, Hp, Hd in H1; discriminate.
  - pose proof (q_h s h r_h_await Q Hl ltac:(simpl; tauto)) as H1. unfold r_h_await in H1.
    rewrite Hn, Hp, Hd in H1. discriminate.
Qed.

(* ---------- every closed step decreases the measure ---------- *)
Lemma sum_finish h f l : sum w_wk (finish_unary l h f) = sum w_wk l.
Proof.
  unfold finish_unary. induction l as [|p l IH]; simpl; [reflexivity|]. rewrite IH.
  destruct p; simpl; try reflexivity. destruct (Nat.eqb h0 h); reflexivity.
Qed.

Lemma measure_ret s h k rep e :
  nth_error (hs s) h = Some k -> h_pc k = HGate -> measure (hstep s h k (HReturn rep e)) < measure s.
Proof.
  intros Hn Hp. unfold hstep. destruct (h_unary k); unfold measure; sproj; rewrite ?sum_finish.
  - pose proof (sum_upd w_h h k (hset_pc k HDead) (hs s) Hn) as E1. unfold w_h in *; simpl in *. rewrite Hp in *. simpl in *. lia.
  - pose proof (sum_upd w_h h k (hset_pc (hset_md k true (h_hdr k) (h_trl k)) (HInSend (trl_frame k e) KTrl)) (hs s) Hn) as E1.
    unfold w_h in *; simpl in *. rewrite Hp in *. simpl in *. lia.
Qed.

Lemma closed_step_measure nw ls s l s' :
  lrun (init_n nw) ls = Some s -> closed_at s l = true -> lstep s l = Some s' -> measure s' < measure s.
Proof.
  intros H Hc Hs. destruct l as [a|n].
  - destruct a; try discriminate. destruct o; try discriminate. simpl in Hc, Hs. unfold at_gate in Hc.
    destruct (nth_error (hs s) h) as [k|] eqn:Hn; [|discriminate]. unfold is_gate in Hc.
    destruct (h_pc k) eqn:Hp; try discriminate. inv_some Hs. now apply measure_ret.
  - cbn [lstep] in Hs. destruct (nth_error (rules s) n) as [r|] eqn:En; [|discriminate].
    apply nth_error_In in En. apply rules_cases in En. destruct En as [i ->].
    exact (srv_measure nw ls s i s' H Hs).
Qed.

(* (T) for the closed system: every closed run from a reachable state is at most [measure s] long *)
Theorem srv_closed_runs_bounded nw ls s : lrun (init_n nw) ls = Some s ->
  forall ls' s', crun s ls' = Some s' -> length ls' + measure s' <= measure s.
Proof.
  intros H ls'. revert ls s H. induction ls' as [|l ls' IH]; intros ls s H s' Hr.
  - simpl in Hr. inversion Hr; subst. simpl. lia.
  - cbn [crun] in Hr. destruct (closed_at s l) eqn:Hc; [|discriminate].
    destruct (lstep s l) as [s1|] eqn:E; [|discriminate].
    assert (H1 : lrun (init_n nw) (ls ++ [l]) = Some s1).
    { rewrite lrun_app, H. cbn [lrun]. now rewrite E. }
    specialize (IH (ls ++ [l]) s1 H1 s' Hr).
    pose proof (closed_step_measure nw ls s l s1 H Hc E). simpl length. lia.
Qed.

(* ... and can be extended to a final state: a closed run that cannot be extended is final *)
Lemma first_enabled_some rs s s' : first_enabled rs s = Some s' -> exists r, In r rs /\ r s = Some s'.
Proof.
  induction rs as [|r rs IH]; intros H; simpl in H; [discriminate|].
  destruct (r s) eqn:E.
  - inversion H; subst. exists r. split; [now left | assumption].
  - destruct (IH H) as [r' [Hin Hr]]. exists r'. split; [now right | assumption].
Qed.

Theorem srv_closed_reaches_final nw ls s : lrun (init_n nw) ls = Some s ->
  exists ls' s', crun s ls' = Some s' /\ final s' = true.
Proof.
  assert (G : forall n ls s, lrun (init_n nw) ls = Some s -> measure s < n -> exists ls' s', crun s ls' = Some s' /\ final s' = true).
  { clear. induction n as [|n IH]; intros ls s H Hm; [lia|].
    destruct (final s) eqn:F; [exists [], s; auto|].
    unfold final in F. apply andb_false_iff in F. destruct F as [F | F].
    - unfold quiescent in F. destruct (first_enabled (rules s) s) as [s1|] eqn:E; [|discriminate].
      apply first_enabled_some in E. destruct E as [r [Hin Hr]]. apply In_nth_error in Hin. destruct Hin as [n0 Hn0].
      assert (Hs : lstep s (LInt n0) = Some s1) by (cbn [lstep]; now rewrite Hn0).
      assert (H1 : lrun (init_n nw) (ls ++ [LInt n0]) = Some s1) by (rewrite lrun_app, H; cbn [lrun]; now rewrite Hs).
      pose proof (closed_step_measure nw ls s (LInt n0) s1 H eq_refl Hs) as Hd.
      destruct (IH _ _ H1 ltac:(lia)) as [ls' [s' [R Fi]]]. exists (LInt n0 :: ls'), s'. split; [|assumption].
      cbn [crun closed_at]. now rewrite Hs.
    - apply negb_false_iff in F. apply existsb_exists in F. destruct F as [k [Hin Ho]].
      apply In_nth_error in Hin. destruct Hin as [h Hn]. unfold owes_return in Ho. apply andb_true_iff in Ho. destruct Ho as [Hg _].
      set (l := LExt (AHandlerStep h (HReturn None HCanceled))).
      assert (Hc : closed_at s l = true) by (unfold l; simpl; unfold at_gate; now rewrite Hn).
      assert (Hs : lstep s l = Some (ext s (AHandlerStep h (HReturn None HCanceled)))) by reflexivity.
      assert (H1 : lrun (init_n nw) (ls ++ [l]) = Some (ext s (AHandlerStep h (HReturn None HCanceled))))
        by (rewrite lrun_app, H; cbn [lrun]; now rewrite Hs).
      pose proof (closed_step_measure nw ls s l _ H Hc Hs) as Hd.
      destruct (IH _ _ H1 ltac:(lia)) as [ls' [s' [R Fi]]]. exists (l :: ls'), s'. split; [|assumption].
      cbn [crun]. rewrite Hc, Hs. exact R. }
  intros H. apply (G (S (measure s)) ls s H). lia.
Qed.

(* ---------- the triggers are stable ---------- *)
Lemma stream_dispatch_failed s f : inbox_failed (stream_dispatch s f) = inbox_failed s.
Proof.
  unfold stream_dispatch. destruct (find_reg (fid f) (hs s) 0).
  - destruct (is_rst f); [destruct (nth_error (hs s) n)|]; reflexivity.
  - destruct (is_rst f); auto. destruct (has_body f); auto. destruct (has_trl f); auto. destruct (md_bad f); auto.
Qed.
Lemma start_unary_failed s w f : inbox_failed (start_unary s w f) = inbox_failed s.
Proof.
  unfold start_unary. destruct (negb (has_hdr f)); auto. destruct (md_bad f); auto. destruct (body_tok f <? 0)%Z; auto.
Qed.

Lemma hctx_mono s ls s' : hctx_done s = true -> lrun s ls = Some s' -> hctx_done s' = true.
Proof.
  intros H0 Hr. revert H0 Hr. apply (lrun_inv (fun s => hctx_done s = true)).
  - intros s0 a I. destruct a; simpl; unfold hctx_done in *; sproj; auto.
    destruct (nth_error (hs s0) h) as [k|]; [|exact I]. destruct (h_pc k); try exact I.
    destruct (hstep_other s0 h k o) as [_ [_ [_ [_ [_ [_ [E7 [_ [E9 _]]]]]]]]]. now rewrite E7, E9.
  - intros s0 i s1 I H. destruct i; simpl in H.
    all: try (start_rule H; unfold hctx_done in *; sproj; rewrite ?orb_true_r; auto; fail).
    + unfold r_rd_read in H. destruct (rd s0); try discriminate. destruct (inbox s0) as [|f rest].
      * destr_in H; inv_some H; unfold hctx_done in *; sproj; rewrite ?orb_true_r; auto.
      * destruct (dispatch f); inv_some H; try (unfold hctx_done in *; sproj; auto; fail).
        destruct (stream_dispatch_log (add_log (set_inbox s0 rest) [SvRead f]) f) as [E1 [E2 _]].
        unfold hctx_done in *. rewrite E1, E2. sproj. auto.
    + unfold r_rd_offer in H. destruct (rd s0); try discriminate. destruct (find_idle (wk s0) 0); [|discriminate]. inv_some H.
      destruct (start_unary_log (add_log (set_rd s0 RdRead) [SvJob n f]) n f) as [E1 [E2 _]].
      unfold hctx_done in *. rewrite E1, E2. sproj. auto.
Qed.

Lemma failed_mono s ls s' : inbox_failed s = true -> lrun s ls = Some s' -> inbox_failed s' = true.
Proof.
  intros H0 Hr. revert H0 Hr. apply (lrun_inv (fun s => inbox_failed s = true)).
  - intros s0 a I. destruct a; simpl; sproj; auto.
    destruct (nth_error (hs s0) h) as [k|]; [|exact I]. destruct (h_pc k); try exact I.
    destruct (hstep_other s0 h k o) as [_ [_ [_ [E4 _]]]]. now rewrite E4.
  - intros s0 i s1 I H. destruct i; simpl in H.
    all: try (start_rule H; sproj; auto; fail).
    + unfold r_rd_read in H. destruct (rd s0); try discriminate. destruct (inbox s0) as [|f rest].
      * destr_in H; inv_some H; sproj; auto; congruence.
      * destruct (dispatch f); inv_some H; try (sproj; auto; fail).
        rewrite stream_dispatch_failed. sproj. auto.
    + unfold r_rd_offer in H. destruct (rd s0); try discriminate. destruct (find_idle (wk s0) 0); [|discriminate]. inv_some H.
      rewrite start_unary_failed. sproj. auto.
Qed.

(* ---------- the composed theorems ---------- *)
Definition ended (s : state) : Prop :=
  serve_returned s = true
  /\ (forall h k, nth_error (hs s) h = Some k -> hdone s k = true)
  /\ (forall h k, nth_error (hs s) h = Some k -> h_pc k = HDead)
  /\ wr s = WrDead
  /\ (forall w p, nth_error (wk s) w = Some p -> p = WkDead)
  /\ registry_size s = 0.

Lemma final_ended nw s : inv nw s -> final s = true -> hctx_done s = true -> ended s.
Proof.
  intros I F Hc. pose proof (final_quiescent s F) as Q. pose proof (final_honours s F) as Hh.
  pose proof (srv_serve_returns nw s I Q Hh Hc) as Hs.
  pose proof (srv_ctx_done nw s I Hs) as Hd.
  assert (Hret : all_returned s) by (intros h k Hn; apply (Hh h k Hn); eauto).
  destruct (srv_no_leak nw s I Q Hs Hret) as [Hw [Hk Hp]].
  unfold ended. repeat (split; [assumption|]).
  apply (srv_registry_idle nw s I Q Hret). now right.
Qed.

(* Stop or a failed write, at any point of any run, then ANY continuation (more traffic, more faults, any handler
   behaviour, any interleaving): wherever the closed system can go no further - no internal rule enabled, no handler
   with a done context left in its body - Serve has returned, every handler's context is done, and no goroutine of
   the connection is left *)
Theorem srv_trigger_returns nw ls s : lrun (init_n nw) ls = Some s -> hctx_done s = true ->
  forall ls' s', lrun s ls' = Some s' -> final s' = true -> ended s'.
Proof.
  intros H Hc ls' s' Hr F.
  assert (H1 : lrun (init_n nw) (ls ++ ls') = Some s') by (now rewrite lrun_app, H).
  apply (final_ended nw); [exact (inv_reach nw _ _ H1) | assumption | eapply hctx_mono; eassumption].
Qed.

(* a transport read failure is seen by the next rw.Read only: the read loop must get there *)
Definition rd_not_kept (s : state) : Prop :=
  wblock s = false
  /\ (exists w p, nth_error (wk s) w = Some p /\ forall h, p <> WkRun h)
  /\ (forall h k, nth_error (hs s) h = Some k -> h_q k <> None -> h_returned k = true).

Lemma final_readfail_hctx nw s :
  1 <= nw -> inv nw s -> quiescent s = true -> inbox_failed s = true -> rd_not_kept s -> hctx_done s = true.
Proof.
  intros Hnw I Q Hf [Hb [[w [p [Hw Hp]]] Hq]]. destruct (hctx_done s) eqn:Hc; [reflexivity|]. exfalso.
  destruct (q_writer nw s I Q (or_introl Hb)) as [[_ Hwr] | [Hc' _]]; [|congruence].
  destruct (rd s) eqn:Erd.
  - pose proof (q_fixed s RRdRead Q Logic.I) as H1. simpl in H1. unfold r_rd_read in H1. rewrite Erd, Hf in H1.
    destruct (inbox s); [discriminate | destruct (dispatch f); discriminate].
  - pose proof (q_fixed s RRdOffer Q Logic.I) as H1. simpl in H1. unfold r_rd_offer in H1. rewrite Erd in H1.
    destruct (find_idle (wk s) 0) eqn:Ef; [discriminate|]. assert (Hl := nth_error_lt _ _ _ Hw).
    destruct p.
    + exact (find_idle_none _ _ Ef w Hw).
    + exact (Hp h eq_refl).
    + pose proof (q_wk s w r_wk_hand Q Hl ltac:(simpl; tauto)) as H2. unfold r_wk_hand in H2. rewrite Hw, Hwr in H2. discriminate.
    + pose proof (i_wk_dead nw s I w Hw). congruence.
  - pose proof (i_rd nw s I) as Hrd. rewrite Erd in Hrd. destruct Hrd as [k [Hn [Hreg Hid]]].
    assert (Hl := nth_error_lt _ _ _ Hn).
    pose proof (q_fixed s RRdFwdEnq Q Logic.I) as H0. simpl in H0. unfold r_rd_fwd_enq in H0. rewrite Erd, Hn in H0.
    destruct (h_q k) eqn:Eq; [|discriminate].
    assert (Hret : h_returned k = true) by (apply (Hq h k Hn); congruence).
    destruct (i_h nw s I h k Hn) as [K1 [K2 [K3 K4]]].
    unfold h_returned in Hret. destruct (h_pc k) eqn:Hpc; try discriminate.
    + destruct k0; try discriminate.
      pose proof (q_h s h r_h_send Q Hl ltac:(simpl; tauto)) as H1. unfold r_h_send in H1.
      rewrite Hn, Hwr, Hpc in H1. discriminate.
    + pose proof (q_fixed s RRdFwdGone Q Logic.I) as H1. simpl in H1. unfold r_rd_fwd_gone in H1.
      rewrite Erd, Hn in H1. unfold hdone in H1. rewrite (K3 eq_refl) in H1. discriminate.
    + rewrite (reg_alive nw s h k I Hn) in Hreg. unfold hs_alive, h_alive in Hreg. rewrite Hpc in Hreg.
      rewrite andb_false_r in Hreg. discriminate.
  - pose proof (q_fixed s RRdRst Q Logic.I) as H1. simpl in H1. unfold r_rd_rst in H1.
    rewrite Erd, Hwr in H1. destruct (has_hdr f); discriminate.
  - destruct (exited_hctx nw s I) as [H _]; [unfold rd_exited; now rewrite Erd | congruence].
  - destruct (exited_hctx nw s I) as [H _]; [unfold rd_exited; now rewrite Erd | congruence].
  - destruct (exited_hctx nw s I) as [H _]; [unfold rd_exited; now rewrite Erd | congruence].
Qed.

Theorem srv_trigger_returns_readfail nw ls s : 1 <= nw -> lrun (init_n nw) ls = Some s -> inbox_failed s = true ->
  forall ls' s', lrun s ls' = Some s' -> final s' = true -> rd_not_kept s' -> ended s'.
Proof.
  intros Hnw H Hf ls' s' Hr F K.
  assert (H1 : lrun (init_n nw) (ls ++ ls') = Some s') by (now rewrite lrun_app, H).
  pose proof (inv_reach nw _ _ H1) as I.
  apply (final_ended nw); [assumption | assumption|].
  apply (final_readfail_hctx nw); auto; [now apply final_quiescent | eapply failed_mono; eassumption].
Qed.

(* ---------- a closed run, computed (for Examples) ---------- *)
Fixpoint first_owing (s : state) (l : list hnd) (n : nat) : option nat :=
  match l with
  | [] => None
  | k :: t => if owes_return s k then Some n else first_owing s t (S n)
  end.

Fixpoint closed_labels (fuel : nat) (s : state) : list label :=
  match fuel with
  | O => []
  | S f =>
      match first_enabled_idx (rules s) s 0 with
      | Some (n, s') => LInt n :: closed_labels f s'
      | None => match first_owing s (hs s) 0 with
                | Some h => let a := AHandlerStep h (HReturn None HCanceled) in LExt a :: closed_labels f (ext s a)
                | None => []
                end
      end
  end.

(* C01, "never none" made precise: every frame the server has on its way to the transport is either an OK-shaped
   reply (no status, a non-negative body, not a reset) or is excused by a frame it READ under the same id that is not a
   well-formed unary request. Arbitrary peer; the handlers of unary methods return (Some (f request), nil) with f
   preserving non-negativity (policy pol_c01 f). *)
From Coq Require Import List ZArith Bool Lia Arith.
Import ListNotations.
From Goat Require Import Model.Client Model.Server Proofs.ServerProofs Proofs.ServerInv Proofs.ServerTrace
  Model.Sys Proofs.SysLog Proofs.SysProofs Proofs.SysFacts Proofs.SysFacts2.
Open Scope Z_scope.

Definition okshape (fr : frame) : Prop :=
  estatus (f_env fr) = None /\ erst (f_env fr) = false /\ exists b, ebody (f_env fr) = Some b /\ 0 <= b.
Definition goodreq (rq : frame) : Prop :=
  dispatch rq = DUnary /\ has_hdr rq = true /\ md_bad rq = false /\ 0 <= body_tok rq.
Definition excused (v : Server.state) (fr : frame) : Prop :=
  exists rq, In (SvRead rq) (Server.log v) /\ fid rq = fid fr /\ ~ goodreq rq.

Record OKS (v : Server.state) : Prop := mkOKS {
  o_pend : forall fr, pending v fr -> okshape fr \/ excused v fr;
  o_rst : forall f, rd v = RdRst f -> In (SvRead f) (Server.log v) /\ dispatch f = DStream }.

Lemma excused_mono s s' fr : (exists evs, Server.log s' = Server.log s ++ evs) -> excused s fr -> excused s' fr.
Proof. intros (evs & E) (rq & A & B & C). exists rq. split; [rewrite E; apply in_or_app; auto | auto]. Qed.

Definition pend_oldO (s s' : Server.state) : Prop := forall fr, pending s' fr -> pending s fr \/ okshape fr \/ excused s' fr.
Definition rst_old (s s' : Server.state) : Prop :=
  forall f, rd s' = RdRst f -> rd s = RdRst f \/ (In (SvRead f) (Server.log s') /\ dispatch f = DStream).

Lemma OKS_from_old s s' : OKS s -> pend_oldO s s' -> (exists evs, Server.log s' = Server.log s ++ evs) -> rst_old s s' -> OKS s'.
Proof.
  intros [HP HR] PO HL RO. constructor.
  - intros fr P. destruct (PO fr P) as [P0 | [X | X]]; auto. destruct (HP _ P0) as [Y | Y]; auto. right. eapply excused_mono; eauto.
  - intros f E. destruct (RO f E) as [E0 | X]; auto. destruct (HR _ E0) as (A & B). destruct HL as (evs & El). split; auto. rewrite El. apply in_or_app. auto.
Qed.

Ltac pend_oldO_tac :=
  let fr := fresh "fr" in let P := fresh "P" in
  intros fr P; destruct P as [P | wX P | hX kX skX P Q | P]; sproj;
  [ try discriminate P; try (inversion P; subst; clear P); first [ left; eauto using pending; fail | eauto using pending ]
  | try (apply nth_upd_cases in P; destruct P as [(-> & P & _) | (_ & P)]; [try discriminate P; try (inversion P; subst; clear P) | ]);
    first [ left; eauto using pending; fail | eauto using pending ]
  | try (apply nth_upd_cases in P; destruct P as [(-> & -> & _) | (_ & P)]; [simpl in Q; try discriminate Q; try (inversion Q; subst; clear Q) | ]);
    first [ left; eauto using pending; fail | eauto using pending ]
  | in_log P; eauto using pending ].

Ltac rst_old_tac :=
  let f := fresh "fZ" in let E := fresh "EZ" in
  intros f E; sproj; first [ left; exact E | discriminate E | left; congruence ].

Ltac pend_cases P Q :=
  destruct P as [P | wX P | hX kX skX P Q | P]; sproj.

Lemma OKS_stream_dispatch s fr0 : OKS s -> In (SvRead fr0) (Server.log s) -> dispatch fr0 = DStream -> OKS (stream_dispatch s fr0).
Proof.
  intros HE Hin Hd. unfold stream_dispatch.
  destruct (find_reg (fid fr0) (hs s) 0) as [h|].
  - destruct (Server.is_rst fr0).
    + destruct (nth_error (hs s) h) as [k|] eqn:Hn; [|exact HE].
      apply (OKS_from_old s); [exact HE | pend_oldO_tac | log_ext | rst_old_tac].
    + apply (OKS_from_old s); [exact HE | pend_oldO_tac | log_ext | rst_old_tac].
  - destruct (Server.is_rst fr0); [exact HE|].
    destruct (has_body fr0).
    { apply (OKS_from_old s); [exact HE | pend_oldO_tac | log_ext | ]. intros f E. sproj. inversion E; subst. right. split; [sproj; auto | exact Hd]. }
    destruct (has_trl fr0); [exact HE|].
    destruct (md_bad fr0).
    { apply (OKS_from_old s); [exact HE | pend_oldO_tac | log_ext | ]. intros f E. sproj. inversion E; subst. right. split; [sproj; auto | exact Hd]. }
    apply (OKS_from_old s); [exact HE | | log_ext | rst_old_tac].
    intros fr P. left. pend_cases P Q; eauto using pending.
    + apply nth_app_new in P. destruct P as [P | (_ & ->)]; [eauto using pending | simpl in Q; discriminate Q].
    + in_log P; eauto using pending.
Qed.

Lemma OKS_start_unary s w fr0 : OKS s -> In (SvRead fr0) (Server.log s) -> OKS (start_unary s w fr0).
Proof.
  intros HE Hin. unfold start_unary.
  destruct (negb (has_hdr fr0)); [apply (OKS_from_old s); [exact HE | pend_oldO_tac | log_ext | rst_old_tac]|].
  destruct (md_bad fr0) eqn:Emd.
  { apply (OKS_from_old s); [exact HE | | log_ext | rst_old_tac].
    intros fr P. pend_cases P Q; eauto using pending; try (in_log P; eauto using pending).
    apply nth_upd_cases in P. destruct P as [(-> & P & _) | (_ & P)]; [|eauto using pending].
    inversion P; subst fr. right. right. exists fr0. split; [sproj; exact Hin|]. split; [reflexivity|]. intros (_ & _ & G & _). congruence. }
  destruct (body_tok fr0 <? 0) eqn:Eb.
  { apply (OKS_from_old s); [exact HE | | log_ext | rst_old_tac].
    intros fr P. pend_cases P Q; eauto using pending; try (in_log P; eauto using pending).
    apply nth_upd_cases in P. destruct P as [(-> & P & _) | (_ & P)]; [|eauto using pending].
    inversion P; subst fr. right. right. exists fr0. split; [sproj; exact Hin|]. split; [reflexivity|]. intros (_ & _ & _ & G). apply Z.ltb_lt in Eb. lia. }
  apply (OKS_from_old s); [exact HE | | log_ext | rst_old_tac].
  intros fr P. left. pend_cases P Q; eauto using pending.
  - apply nth_upd_cases in P. destruct P as [(-> & P & _) | (_ & P)]; [discriminate P | eauto using pending].
  - apply nth_app_new in P. destruct P as [P | (_ & ->)]; [eauto using pending | simpl in Q; discriminate Q].
  - in_log P; eauto using pending.
Qed.

Lemma OKS_hunregister s g kg : OKS s -> nth_error (hs s) g = Some kg -> OKS (add_log (set_h s g (hunregister kg)) [SvUnreg g]).
Proof.
  intros HE Hg. apply (OKS_from_old s); [exact HE | | log_ext | rst_old_tac].
  intros fr P. left. pend_cases P Q; eauto using pending.
  - apply nth_upd_cases in P. destruct P as [(-> & -> & _) | (_ & P)]; [ | eauto using pending].
    eapply PHs; [exact Hg | exact Q].
  - in_log P; eauto using pending.
Qed.

Lemma OKS_int f s i s' : K f s -> OKS s -> rule_of i s = Some s' -> OKS s'.
Proof.
  intros HK HO H. destruct i; simpl in H.
  all: try solve [ start_rule H; (apply (OKS_from_old s); [exact HO | try pend_oldO_tac | try log_ext | try rst_old_tac]) ].
  - unfold r_rd_read in H. destruct (rd s) eqn:Erd; try discriminate.
    destruct (Server.inbox s) as [|fr0 rest] eqn:Ei.
    + destr_in H; inv_some H; apply (OKS_from_old s); [exact HO | pend_oldO_tac | log_ext | rst_old_tac | exact HO | pend_oldO_tac | log_ext | rst_old_tac].
    + assert (E1 : OKS (add_log (set_inbox s rest) [SvRead fr0])).
      { apply (OKS_from_old s); [exact HO | pend_oldO_tac | log_ext | rst_old_tac]. }
      destruct (dispatch fr0) eqn:Ed; inv_some H.
      * exact E1.
      * apply (OKS_from_old s); [exact HO | pend_oldO_tac | log_ext | rst_old_tac].
      * apply OKS_stream_dispatch; [exact E1 | sproj; apply in_or_app; right; left; reflexivity | exact Ed].
  - unfold r_rd_offer in H. destruct (rd s) eqn:Erd; try discriminate.
    destruct (find_idle (wk s) 0) as [w|]; [|discriminate]. inv_some H.
    apply OKS_start_unary.
    + apply (OKS_from_old s); [exact HO | pend_oldO_tac | log_ext | rst_old_tac].
    + sproj. apply in_or_app. left. apply (k_offer _ _ HK). exact Erd.
  - unfold r_rd_rst in H. destruct (rd s) eqn:Erd; try discriminate. destruct (Server.wr s) eqn:Ewr; try discriminate.
    destruct (o_rst _ HO _ Erd) as (Hin & Hd).
    destr_in H; inv_some H.
    + apply (OKS_from_old s); [exact HO | | log_ext | rst_old_tac].
      intros fr P. pend_cases P Q; eauto using pending.
      * inversion P; subst fr. right. right. exists f0. split; [sproj; apply in_or_app; left; exact Hin|]. split; [reflexivity|].
        intros (G & _). congruence.
      * in_log P; eauto using pending.
    + apply (OKS_from_old s); [exact HO | pend_oldO_tac | log_ext | rst_old_tac].
  - unfold r_h_unreg in H. destruct (nth_error (hs s) h) as [k|] eqn:Hn; [|discriminate].
    destruct (h_pc k) eqn:Hpc; try discriminate. destruct (mu_free s); [|discriminate].
    assert (E1 : OKS (set_h s h (hset_pc k HDead))).
    { apply (OKS_from_old s); [exact HO | pend_oldO_tac | log_ext | rst_old_tac]. }
    destruct (find_reg _ _ _) as [g|]; [destruct (nth_error _ g) as [kg|] eqn:Hg|]; inv_some H; try exact E1.
    apply OKS_hunregister; [exact E1 | exact Hg].
Qed.

Lemma OKS_hstep f s h k o :
  (forall x, 0 <= x -> 0 <= f x) -> K f s -> inv_dispatch s -> OKS s ->
  nth_error (hs s) h = Some k -> h_pc k = HGate -> pol_c01 f s h o = true -> OKS (hstep s h k o).
Proof.
  intros Hf HK (_ & HD) HO Hn Hg Hpol.
  assert (Sin := sig_in s h k Hn). pose proof (HD _ Sin) as Rq. pose proof (k_read _ _ HK _ _ Sin) as Rd.
  destruct (hstep_log s h k o) as (evs & Elog & _).
  assert (EX : h_unary k = false -> forall fr, fid fr = fid (h_req k) -> excused (hstep s h k o) fr).
  { intros Hu fr Hid. exists (h_req k). split; [rewrite Elog; apply in_or_app; left; exact Rd|]. split; [auto|].
    intros (G & _). unfold hsig in Rq. simpl in Rq. rewrite Hu in Rq. destruct Rq as (Rq & _). congruence. }
  apply (OKS_from_old s); [exact HO | | eauto | ].
  - unfold pol_c01 in Hpol. rewrite Hn in Hpol. unfold hstep in *. unfold hsig in Rq, Rd. simpl in Rq.
    destruct (h_unary k) eqn:Hu.
    + destruct o; try discriminate Hpol. destruct rep as [r|]; [|discriminate Hpol]. destruct e; try discriminate Hpol.
      apply Z.eqb_eq in Hpol. subst r. destruct Rq as (_ & _ & Rb). apply Z.ltb_ge in Rb.
      intros fr P. pend_cases P Q.
      * eauto using pending.
      * apply finish_unary_nth in P. destruct P as (p0 & P0 & [(E & _) | (E1 & E2)]).
        -- subst p0. eauto using pending.
        -- inversion E2; subst fr. right. left. split; [reflexivity|]. split; [reflexivity|]. eexists. split; [reflexivity|]. apply Hf. exact Rb.
      * apply nth_upd_cases in P. destruct P as [(-> & -> & _) | (_ & P)]; [simpl in Q; discriminate Q | eauto using pending].
      * in_log P; eauto using pending.
    + specialize (EX eq_refl).
      intros fr P.
      destruct o; try destruct (h_hsent k) eqn:Hs;
        (eapply pend_upd_h in P; [ | sproj; reflexivity | sproj; reflexivity | sproj; try reflexivity | sproj; no_write ]);
        try (destruct P as [P | (sk & P)]; [left; exact P | ]).
      all: try (simpl in P; try discriminate P; inversion P; subst; clear P).
      all: try (right; right; apply EX; reflexivity).
      all: try (left; assumption).
      all: try (symmetry; apply upd_same; exact Hn).
      all: try (exfalso; match goal with X : h_pc _ = HInSend _ _ |- _ => rewrite Hg in X; discriminate X end).
  - intros f0 E. left. destruct (hstep_rd_crashed s h k o) as [Er _]. rewrite Er in E. exact E.
Qed.

Lemma OKS_ext f s a :
  (forall x, 0 <= x -> 0 <= f x) -> K f s -> inv_dispatch s -> OKS s -> pol_ok (pol_c01 f) s (Server.LExt a) = true -> OKS (Server.ext s a).
Proof.
  intros Hf HK HD HO Hpol. destruct a; simpl.
  all: try solve [apply (OKS_from_old s); [exact HO | pend_oldO_tac | log_ext | rst_old_tac]].
  destruct (nth_error (hs s) h) as [k|] eqn:Hn; [|exact HO].
  destruct (h_pc k) eqn:Hg; try exact HO.
  eapply OKS_hstep; eauto.
Qed.

Lemma OKS_init nw : OKS (init_n nw).
Proof.
  constructor; [|intros f0 E; discriminate E].
  intros fr P. destruct P as [P | w P | h k sk P Q | P]; simpl in *; try discriminate; try tauto.
  - apply nth_error_In in P. apply repeat_spec in P. discriminate.
  - destruct h; discriminate.
Qed.

Lemma OKS_run f ls : (forall x, 0 <= x -> 0 <= f x) ->
  forall v v', inv_hdr v -> K f v -> inv_dispatch v -> OKS v -> srun_pol (pol_c01 f) v ls = Some v' -> OKS v'.
Proof.
  intros Hf. induction ls as [|l ls IH]; simpl; intros v v' Ih HK HD HO H.
  - inversion H; subst; auto.
  - destruct (pol_ok (pol_c01 f) v l) eqn:Hp; [|discriminate].
    destruct (Server.lstep v l) as [v1|] eqn:E; [|discriminate].
    destruct l as [a|n]; simpl in E.
    + inversion E; subst. apply (IH (Server.ext v a)); auto.
      * apply inv_hdr_ext; auto.
      * apply K_ext; auto.
      * eapply inv_dispatch_step; [exact HD | apply step_ok_ext; auto].
      * eapply OKS_ext; eauto.
    + destruct (nth_error (Server.rules v) n) as [r|] eqn:En; [|discriminate].
      apply nth_error_In in En. apply rules_cases in En. destruct En as [i ->].
      apply (IH v1); auto.
      * eapply inv_hdr_int; eauto.
      * eapply K_int; eauto.
      * eapply inv_dispatch_step; [exact HD | eapply step_ok_int; eauto].
      * eapply OKS_int; eauto.
Qed.

Theorem srv_reply_ok f ls v fr :
  (forall x, 0 <= x -> 0 <= f x) -> srun_pol (pol_c01 f) Server.init ls = Some v ->
  In (SvWrite fr) (Server.log v) -> okshape fr \/ excused v fr.
Proof.
  intros Hf H Hw.
  assert (HO : OKS v).
  { eapply (OKS_run f ls Hf Server.init); [apply inv_hdr_init | apply K_init | | apply OKS_init | exact H].
    apply (srv_dispatch nworkers []). reflexivity. }
  apply (o_pend _ HO). apply PLog. exact Hw.
Qed.

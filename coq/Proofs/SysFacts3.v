(* Facts about the client model alone (arbitrary environment), for C01_complete:
   [NN]: an envelope routed to a unary call that is still waiting for its reply sits in the call's queue, or
   is held for it by the read loop, or the call's queue has been closed; nothing is ever routed to a call
   that has not registered yet. *)
From Coq Require Import List ZArith Bool Lia Arith.
Import ListNotations.
From Goat Require Import Model.Client Proofs.ClientBase Proofs.ClientInv Proofs.ProtocolClient Model.Sys Proofs.SysLog.
Open Scope Z_scope.

Definition deliv (rlv : rlpc) (c : nat) (k : call) (e : env) : Prop :=
  match k_pc k with
  | PCheck _ | PParked | PReg => False
  | PWait => cbuf (k_chan k) = Some e \/ rlv = RLHold c e \/ cclosed (k_chan k) = true
  | _ => True
  end.

Definition NN (s : Client.state) : Prop :=
  forall c k e, nth_error (calls s) c = Some k -> k_unary k = true -> In (EvRead e (Some c)) (Client.log s) ->
    deliv (rl s) c k e.

Definition no_read (evs : list cev) : Prop := forall e c, ~ In (EvRead e (Some c)) evs.

(* a step that changes one call, logs no read and leaves the read loop alone *)
Lemma NN_upd s s' c0 k0 k' evs :
  NN s -> calls s' = upd c0 k' (calls s) -> nth_error (calls s) c0 = Some k0 ->
  Client.log s' = Client.log s ++ evs -> no_read evs -> rl s' = rl s ->
  k_unary k' = k_unary k0 ->
  (forall e, k_unary k0 = true -> deliv (rl s) c0 k0 e -> deliv (rl s) c0 k' e) -> NN s'.
Proof.
  intros HN Hc Hn Hl Hnr Hrl Hu Hd c k e P U Hin. rewrite Hl in Hin. apply in_app_or in Hin.
  destruct Hin as [Hin | Hin]; [|exfalso; eapply Hnr; eauto].
  rewrite Hrl. rewrite Hc in P. destruct (Nat.eq_dec c c0) as [->|Hne].
  - rewrite nth_upd_eq in P by (eapply nth_some_lt; eauto). inversion P; subst k.
    apply Hd; [congruence|]. apply HN; auto. congruence.
  - rewrite nth_upd_neq in P by auto. apply HN; auto.
Qed.

Lemma NN_same s s' evs :
  NN s -> calls s' = calls s -> Client.log s' = Client.log s ++ evs -> no_read evs -> rl s' = rl s -> NN s'.
Proof.
  intros HN Hc Hl Hnr Hrl c k e P U Hin. rewrite Hl in Hin. apply in_app_or in Hin.
  destruct Hin as [Hin | Hin]; [|exfalso; eapply Hnr; eauto]. rewrite Hrl. rewrite Hc in P. apply HN; auto.
Qed.

Ltac no_read_tac := let e := fresh in let t := fresh in let X := fresh in
  intros e t X; simpl in X; repeat (destruct X as [X | X]; [discriminate X|]); exact X.

Ltac kill_stream K :=
  (* a unary call that is waiting or fresh has no stream part *)
  try (exfalso;
       match goal with
       | E : s_loop ?k = _, P : k_pc ?k = _ |- _ =>
           let X := fresh in assert (X : s_loop k = LDead) by (apply (kinv_dead _ K); rewrite P; discriminate);
           rewrite X in E; discriminate E
       | E : s_sendq ?k = _ :: _, P : k_pc ?k = _ |- _ =>
           let X := fresh in assert (X : s_sendq k = []) by (apply (kinv_noq _ K); rewrite P; discriminate);
           rewrite X in E; discriminate E
       end).

Ltac deliv_tac K :=
  let e := fresh "e" in let U := fresh "U" in let D := fresh "D" in
  intros e U D; unfold deliv in *; csimpl;
  match goal with Hn : nth_error (calls _) _ = Some ?k0 |- _ =>
    destruct (k_pc k0) eqn:?; csimpl; try exact I; try contradiction; try congruence; try exact D; kill_stream K
  end.

Ltac NN_done HN HI :=
  csimpl;
  try match goal with |- context [if k_reg ?k then _ else _] => destruct (k_reg k) eqn:? end;
  csimpl;
  first [ eapply (NN_same _ _ []); [exact HN | reflexivity | csimpl; rewrite app_nil_r; reflexivity | no_read_tac | reflexivity]
        | eapply NN_same; [exact HN | reflexivity | csimpl; rewrite <- ?app_assoc; reflexivity | no_read_tac | reflexivity]
        | match goal with E : nth_error (calls ?s) ?c = Some ?k |- NN _ =>
            let K := fresh "K" in pose proof (cinv_call _ _ _ HI E) as K;
            first [ eapply (NN_upd s _ c k _ []); [exact HN | csimpl; reflexivity | exact E | csimpl; rewrite app_nil_r; reflexivity
                                                  | no_read_tac | reflexivity | csimpl; reflexivity | deliv_tac K]
                  | eapply (NN_upd s _ c k); [exact HN | csimpl; reflexivity | exact E | csimpl; rewrite <- ?app_assoc; reflexivity
                                             | no_read_tac | reflexivity | csimpl; reflexivity | deliv_tac K] ]
          end ].


Lemma NN_int s r s' : cinv s -> sinv s -> NN s -> In r (Client.rules s) -> r s = Some s' -> NN s'.
Proof.
  intros HI HS HN Hin H. apply rules_in in Hin. destruct Hin as [->|[->|(c & _ & Hin)]].
  - (* the read loop gets room in the queue, or drops *)
    unfold r_rl_unblock in H. destruct (rl s) as [|c0 e0|] eqn:Erl; try discriminate.
    destruct (nth_error (calls s) c0) as [k0|] eqn:E0; [|discriminate].
    destruct (cbuf (k_chan k0)) as [eb|] eqn:Eb.
    + destruct (cclosed (k_chan k0)) eqn:Ec; [|discriminate]. inversion H; subst s'; clear H.
      intros c k e P U Hin. csimpl. apply in_app_or in Hin. destruct Hin as [Hin | [Hin | []]]; [|discriminate Hin].
      specialize (HN c k e P U Hin). rewrite Erl in HN. unfold deliv in *. destruct (k_pc k); auto.
      destruct HN as [A | [A | A]]; auto. inversion A; subst. rewrite E0 in P. inversion P; subst. auto.
    + inversion H; subst s'; clear H. intros c k e P U Hin. csimpl.
      destruct (Nat.eq_dec c c0) as [->|Hne].
      * rewrite nth_upd_eq in P by (eapply nth_some_lt; eauto). inversion P; subst k. csimpl.
        specialize (HN c0 k0 e E0 U Hin). rewrite Erl in HN. unfold deliv in *. csimpl. destruct (k_pc k0); auto.
        destruct HN as [A | [A | A]]; auto; [congruence|]. inversion A; subst. auto.
      * rewrite nth_upd_neq in P by auto. specialize (HN c k e P U Hin). rewrite Erl in HN. unfold deliv in *.
        destruct (k_pc k); auto. destruct HN as [A | [A | A]]; auto. inversion A. congruence.
  - (* the read loop takes the next envelope *)
    unfold r_rl_read in H. destruct (rl s) eqn:Erl; try discriminate.
    destruct (Client.inbox s) as [|e0 rest] eqn:Ei.
    + destruct (Client.inbox_failed s); [|discriminate]. inversion H; subst s'; clear H.
      intros c k e P U Hin. csimpl. unfold close_all in P. rewrite nth_error_map in P.
      destruct (nth_error (calls s) c) as [k1|] eqn:E1; [|discriminate]. simpl in P.
      specialize (HN c k1 e E1). rewrite Erl in HN. unfold deliv in *.
      destruct (k_reg k1) eqn:Er; inversion P; subst k; csimpl; csimpl.
      * specialize (HN U Hin). destruct (k_pc k1); auto.
      * specialize (HN U Hin). destruct (k_pc k1); auto. destruct HN as [A | [A | A]]; auto. discriminate A.
    + cbv zeta in H. destruct (find_reg (eid e0) (calls s) 0) as [c0|] eqn:Ef.
      * destruct (nth_error (calls s) c0) as [k0|] eqn:E0; [|discriminate].
        destruct (find_reg0_some _ _ _ Ef) as (k0' & E0' & Hreg & Hid). rewrite E0 in E0'. inversion E0'; subst k0'.
        pose proof (cinv_call _ _ _ HI E0) as K.
        pose proof (ki_reg_pc _ K Hreg) as Hpc. pose proof (ki_reg_notclosed _ K Hreg) as Hnc.
        destruct (cbuf (k_chan k0)) as [eb|] eqn:Eb; inversion H; subst s'; clear H.
        -- (* queue full: held *)
           intros c k e P U Hin. csimpl. apply in_app_or in Hin. destruct Hin as [Hin | [Hin | []]].
           ++ specialize (HN c k e P U Hin). rewrite Erl in HN. unfold deliv in *. destruct (k_pc k); auto.
              destruct HN as [A | [A | A]]; auto. discriminate A.
           ++ inversion Hin; subst. rewrite E0 in P. inversion P; subst k. unfold deliv. destruct (k_pc k0); try discriminate Hpc; auto.
        -- (* queued *)
           intros c k e P U Hin. csimpl. apply in_app_or in Hin.
           destruct (Nat.eq_dec c c0) as [->|Hne].
           ++ rewrite nth_upd_eq in P by (eapply nth_some_lt; eauto). inversion P; subst k. csimpl.
              unfold deliv. csimpl. destruct (k_pc k0) eqn:Ep; try discriminate Hpc; auto.
              destruct Hin as [Hin | [Hin | []]].
              ** specialize (HN c0 k0 e E0 U Hin). rewrite Erl in HN. unfold deliv in HN. rewrite Ep in HN.
                 destruct HN as [A | [A | A]]; [congruence | discriminate A | congruence].
              ** inversion Hin; subst. auto.
           ++ rewrite nth_upd_neq in P by auto. destruct Hin as [Hin | [Hin | []]].
              ** specialize (HN c k e P U Hin). rewrite Erl in HN. exact HN.
              ** inversion Hin; subst. congruence.
      * inversion H; subst s'; clear H. intros c k e P U Hin. csimpl.
        apply in_app_or in Hin. destruct Hin as [Hin | [Hin | []]]; [|discriminate Hin].
        apply in_app_or in Hin. destruct Hin as [Hin | [Hin | []]]; [|discriminate Hin].
        specialize (HN c k e P U Hin). rewrite Erl in HN. exact HN.
  - simpl in Hin.
    repeat (destruct Hin as [<-|Hin];
            [ unfold r_check, r_reg, r_wait, r_wait_ctx, r_unreg, r_loop_read, r_loop_read_ctx, r_loop_hand,
                     r_loop_hand_ctx, r_loop_exit, r_loop_unreg, r_recv, r_header, r_trailer, r_send in H;
              open_rule H; try (NN_done HN HI) | ]).
    all: try destruct Hin.
Qed.

From Goat Require Import Proofs.ClientLog.

Lemma NN_with_call s c g :
  NN s -> (forall k k', g k = Some k' -> k_pc k' = k_pc k /\ k_chan k' = k_chan k /\ k_unary k' = k_unary k) -> NN (with_call s c g).
Proof.
  intros HN Hg. unfold with_call. destruct (nth_error (calls s) c) as [k|] eqn:E; [|exact HN].
  destruct (g k) as [k'|] eqn:G; [|exact HN]. destruct (Hg _ _ G) as (A & B & C).
  eapply (NN_upd s _ c k k' []); [exact HN | reflexivity | exact E | simpl; rewrite app_nil_r; reflexivity | intros ? ? [] | reflexivity | exact C | ].
  intros e U D. unfold deliv in *. rewrite A, B. exact D.
Qed.

Lemma NN_ext s a : cinv s -> linv s -> NN s -> NN (Client.ext s a).
Proof.
  intros HI HL HN. destruct a; simpl;
    try (apply NN_with_call; [exact HN|]; intros k k' G;
         repeat match type of G with
                | match ?x with _ => _ end = Some _ => destruct x eqn:?; try discriminate G
                end; inversion G; subst; csimpl; auto);
    try (eapply (NN_same _ _ []); [exact HN | reflexivity | simpl; rewrite app_nil_r; reflexivity | intros ? ? [] | reflexivity]).
  - (* a new unary call: nothing was ever routed to its index *)
    intros c k e P U Hin. csimpl.
    destruct (li_ev _ HL _ Hin) as (k1 & Hk1 & _).
    rewrite nth_error_app1 in P by (eapply nth_some_lt; eauto). apply HN; auto.
  - intros c k e P U Hin. csimpl.
    destruct (li_ev _ HL _ Hin) as (k1 & Hk1 & _).
    rewrite nth_error_app1 in P by (eapply nth_some_lt; eauto). apply HN; auto.
  - (* release of a parked call *)
    destruct (nth_error (calls s) c) as [k|] eqn:E; [|exact HN].
    destruct (k_pc k) eqn:P; try exact HN.
    eapply (NN_upd _ _ c k _ []); [exact HN | csimpl; reflexivity | exact E | csimpl; rewrite app_nil_r; reflexivity | intros ? ? [] | reflexivity | csimpl; reflexivity | ].
    intros e U D. unfold deliv in *. csimpl. rewrite P in D. exact D.
Qed.

Lemma NN_init : NN Client.init.
Proof. intros c k e P. destruct c; discriminate. Qed.

Theorem NN_reach ls s : Client.lrun Client.init ls = Some s -> NN s.
Proof.
  intros H.
  assert (G : (cinv s /\ sinv s /\ linv s) /\ NN s).
  { revert H. apply (lrun_inv (fun s => (cinv s /\ sinv s /\ linv s) /\ NN s)).
    - intros s0 l s1 ((HI & HS & HL) & HN) Hs. split.
      + split; [|split]; eauto using cinv_step, sinv_step, linv_step.
      + destruct l as [a|n]; simpl in Hs.
        * inversion Hs; subst. apply NN_ext; auto.
        * destruct (nth_error (Client.rules s0) n) as [r|] eqn:E; [|discriminate].
          apply nth_error_In in E. eapply NN_int; eauto.
    - split; [split; [apply cinv_init | split; [apply sinv_init | apply linv_init]] | apply NN_init]. }
  apply G.
Qed.

(* ---------- Q4: no envelope was ever read as "unhandled" under the id of a call that is registered ---------- *)
Definition Q4 (s : Client.state) : Prop :=
  forall c k e, nth_error (calls s) c = Some k -> k_reg k = true -> In (EvRead e None) (Client.log s) -> eid e <> k_id k.
(* what the environment must guarantee: nothing arrives under the id of a call that has not written yet *)
Definition W0 (s : Client.state) : Prop :=
  forall c k e, nth_error (calls s) c = Some k -> k_pc k = PReg -> In (EvRead e None) (Client.log s) -> eid e <> k_id k.

Definition no_unh (evs : list cev) : Prop := forall e, ~ In (EvRead e None) evs.

Lemma Q4_upd s s' c0 k0 k' evs :
  Q4 s -> W0 s -> calls s' = upd c0 k' (calls s) -> nth_error (calls s) c0 = Some k0 ->
  Client.log s' = Client.log s ++ evs -> no_unh evs ->
  (k_reg k' = true -> (k_reg k0 = true \/ k_pc k0 = PReg) /\ k_id k' = k_id k0) -> Q4 s'.
Proof.
  intros HQ HW Hc Hn Hl Hnu Hk c k e P Hr Hin. rewrite Hl in Hin. apply in_app_or in Hin.
  destruct Hin as [Hin | Hin]; [|exfalso; eapply Hnu; eauto].
  rewrite Hc in P. destruct (Nat.eq_dec c c0) as [->|Hne].
  - rewrite nth_upd_eq in P by (eapply nth_some_lt; eauto). inversion P; subst k.
    destruct (Hk Hr) as ([A | A] & B); rewrite B; [eapply HQ | eapply HW]; eauto.
  - rewrite nth_upd_neq in P by auto. eapply HQ; eauto.
Qed.

Lemma Q4_same s s' evs : Q4 s -> calls s' = calls s -> Client.log s' = Client.log s ++ evs -> no_unh evs -> Q4 s'.
Proof.
  intros HQ Hc Hl Hnu c k e P Hr Hin. rewrite Hl in Hin. apply in_app_or in Hin.
  destruct Hin as [Hin | Hin]; [|exfalso; eapply Hnu; eauto]. rewrite Hc in P. eapply HQ; eauto.
Qed.

Ltac no_unh_tac := let e := fresh in let X := fresh in
  intros e X; simpl in X; repeat (destruct X as [X | X]; [discriminate X|]); exact X.

Ltac reg_tac K :=
  let Hr := fresh "Hr" in
  intros Hr; csimpl;
  first [ split; [left; exact Hr | reflexivity]
        | split; [right; assumption | reflexivity]
        | discriminate Hr
        | exfalso; pose proof (ki_reg_pc _ K Hr) as X; match goal with P : k_pc _ = _ |- _ => rewrite P in X; discriminate X end ].

Ltac Q4_done HQ HW HI :=
  csimpl;
  try match goal with |- context [if k_reg ?k then _ else _] => destruct (k_reg k) eqn:? end;
  csimpl;
  first [ eapply (Q4_same _ _ []); [exact HQ | reflexivity | csimpl; rewrite app_nil_r; reflexivity | no_unh_tac]
        | eapply Q4_same; [exact HQ | reflexivity | csimpl; rewrite <- ?app_assoc; reflexivity | no_unh_tac]
        | match goal with E : nth_error (calls ?s) ?c = Some ?k |- Q4 _ =>
            let K := fresh "K" in pose proof (cinv_call _ _ _ HI E) as K;
            first [ eapply (Q4_upd s _ c k _ []); [exact HQ | exact HW | csimpl; reflexivity | exact E | csimpl; rewrite app_nil_r; reflexivity
                                                  | no_unh_tac | reg_tac K]
                  | eapply (Q4_upd s _ c k); [exact HQ | exact HW | csimpl; reflexivity | exact E | csimpl; rewrite <- ?app_assoc; reflexivity
                                             | no_unh_tac | reg_tac K] ]
          end ].

Lemma Q4_int s r s' : cinv s -> sinv s -> Q4 s -> W0 s -> In r (Client.rules s) -> r s = Some s' -> Q4 s'.
Proof.
  intros HI HS HQ HW Hin H. apply rules_in in Hin. destruct Hin as [->|[->|(c & _ & Hin)]].
  - unfold r_rl_unblock in H. open_rule H; try (Q4_done HQ HW HI).
  - unfold r_rl_read in H. open_rule H; try (Q4_done HQ HW HI).
    + (* connection failure: nobody stays registered *)
      intros c k e P Hr Hin. csimpl. unfold close_all in P. rewrite nth_error_map in P.
      destruct (nth_error (calls s) c) as [k1|]; [|discriminate]. simpl in P.
      destruct (k_reg k1) eqn:Er; inversion P; subst k; csimpl; congruence.
    + (* routed to a registered call *)
      match goal with Ef : find_reg _ _ _ = Some ?n, En : nth_error (calls s) ?n = Some ?k0 |- _ =>
        destruct (find_reg0_some _ _ _ Ef) as (k0' & E0' & Hreg & Hid); rewrite En in E0'; inversion E0'; subst k0';
        eapply (Q4_upd s _ n k0); [exact HQ | exact HW | csimpl; reflexivity | exact En | csimpl; reflexivity | no_unh_tac | ];
        intros _; csimpl; split; [left; exact Hreg | reflexivity]
      end.
    + (* unhandled: no registered call has this id *)
      match goal with Ef : find_reg _ _ _ = None |- _ => pose proof (find_reg_none _ _ _ Ef) as Hnone end.
      intros c k e0 P Hr Hin. csimpl. apply in_app_or in Hin. destruct Hin as [Hin | [Hin | []]]; [|discriminate Hin].
      apply in_app_or in Hin. destruct Hin as [Hin | [Hin | []]]; [eapply HQ; eauto|].
      inversion Hin; subst. intros Heq. eapply Hnone; eauto. eapply nth_error_In; eauto.
  - simpl in Hin.
    repeat (destruct Hin as [<-|Hin];
            [ unfold r_check, r_reg, r_wait, r_wait_ctx, r_unreg, r_loop_read, r_loop_read_ctx, r_loop_hand,
                     r_loop_hand_ctx, r_loop_exit, r_loop_unreg, r_recv, r_header, r_trailer, r_send in H;
              open_rule H; try (Q4_done HQ HW HI) | ]).
    all: try destruct Hin.
Qed.


Lemma Q4_with_call s c g :
  Q4 s -> W0 s -> (forall k k', g k = Some k' -> k_reg k' = k_reg k /\ k_id k' = k_id k) -> Q4 (with_call s c g).
Proof.
  intros HQ HW Hg. unfold with_call. destruct (nth_error (calls s) c) as [k|] eqn:E; [|exact HQ].
  destruct (g k) as [k'|] eqn:G; [|exact HQ]. destruct (Hg _ _ G) as (A & B).
  eapply (Q4_upd s _ c k k' []); [exact HQ | exact HW | reflexivity | exact E | simpl; rewrite app_nil_r; reflexivity | intros ? [] | ].
  intros Hr. split; [left; congruence | exact B].
Qed.

Lemma Q4_ext s a : cinv s -> Q4 s -> W0 s -> Q4 (Client.ext s a).
Proof.
  intros HI HQ HW. destruct a; simpl;
    try (apply Q4_with_call; [exact HQ | exact HW |]; intros k k' G;
         repeat match type of G with
                | match ?x with _ => _ end = Some _ => destruct x eqn:?; try discriminate G
                end; inversion G; subst; csimpl; auto);
    try (eapply (Q4_same _ _ []); [exact HQ | reflexivity | simpl; rewrite app_nil_r; reflexivity | intros ? []]).
  - intros c k e P Hr Hin. csimpl.
    destruct (nth_app_cases _ _ _ _ P) as [(P' & _) | (_ & ->)]; [eapply HQ; eauto | discriminate Hr].
  - intros c k e P Hr Hin. csimpl.
    destruct (nth_app_cases _ _ _ _ P) as [(P' & _) | (_ & ->)]; [eapply HQ; eauto | discriminate Hr].
  - destruct (nth_error (calls s) c) as [k|] eqn:E; [|exact HQ].
    destruct (k_pc k) eqn:P; try exact HQ.
    pose proof (cinv_call _ _ _ HI E) as K.
    eapply (Q4_upd _ _ c k _ []); [exact HQ | exact HW | csimpl; reflexivity | exact E | csimpl; rewrite app_nil_r; reflexivity | intros ? [] | ].
    csimpl. intros Hr. exfalso. pose proof (ki_reg_pc _ K Hr) as X. rewrite P in X. discriminate X.
Qed.

Lemma Q4_step s l s' : cinv s -> sinv s -> Q4 s -> W0 s -> Client.lstep s l = Some s' -> Q4 s'.
Proof.
  intros HI HS HQ HW H. destruct l as [a|n]; simpl in H.
  - inversion H; subst. apply Q4_ext; auto.
  - destruct (nth_error (Client.rules s) n) as [r|] eqn:E; [|discriminate].
    apply nth_error_In in E. eapply Q4_int; eauto.
Qed.

(* C12_reset_written on Model/Server.v: one reset on the wire per envelope that calls for one (Q-form), and the accounting behind it. *)
From Coq Require Import List ZArith Bool Lia Arith.
Import ListNotations.
From Goat Require Import Model.Client Model.Server Proofs.ServerProofs Proofs.ServerInv Proofs.ServerTrace Proofs.ServerLive
  Proofs.ServerWriter.
Open Scope Z_scope.

(* ---------- C12_reset_written: one reset on the wire per envelope that calls for one ---------- *)
(* an envelope naming a stream method of this server that must be answered by a reset when its id is not open *)
Definition calls_for_reset (f : frame) : bool :=
  match dispatch f with
  | DStream => negb (is_rst f) && (has_body f || (negb (has_trl f) && md_bad f))
  | _ => false
  end.

(* scanning the history: the open ids (handler index, id) from SvInvoke .. to SvUnreg, and the envelopes read that
   call for a reset while their id is not open *)
Definition id_open (op : list (nat * Z)) (id : Z) : bool := existsb (fun p => snd p =? id) op.
Definition due_step (st : list (nat * Z) * list frame) (e : sev) : list (nat * Z) * list frame :=
  match e with
  | SvRead f => (fst st, if calls_for_reset f && negb (id_open (fst st) (fid f)) then snd st ++ [f] else snd st)
  | SvInvoke h false id _ _ _ => (fst st ++ [(h, id)], snd st)
  | SvUnreg h => (filter (fun p => negb (Nat.eqb (fst p) h)) (fst st), snd st)
  | _ => st
  end.
Definition dscan (l : list sev) : list (nat * Z) * list frame := fold_left due_step l ([], []).
Definition rst_due (l : list sev) : list frame := snd (dscan l).

Lemma dscan_app l evs : dscan (l ++ evs) = fold_left due_step evs (dscan l).
Proof. unfold dscan. apply fold_left_app. Qed.

(* the registry as a list: (index, id) of the registered handlers, in index order *)
Fixpoint reg_from (n : nat) (l : list hnd) : list (nat * Z) :=
  match l with
  | [] => []
  | k :: t => (if h_reg k then [(n, fid (h_req k))] else []) ++ reg_from (S n) t
  end.

Lemma reg_from_app n l x : reg_from n (l ++ [x]) = reg_from n l ++ (if h_reg x then [(n + length l, fid (h_req x))]%nat else []).
Proof.
  revert n. induction l as [|k l IH]; intros n; simpl.
  - rewrite Nat.add_0_r, app_nil_r. reflexivity.
  - rewrite IH, <- app_assoc, <- plus_n_Sm. reflexivity.
Qed.

Lemma reg_from_ge n l p : In p (reg_from n l) -> (n <= fst p)%nat.
Proof.
  revert n. induction l as [|k l IH]; intros n H; simpl in H; [contradiction|].
  apply in_app_or in H. destruct H as [H | H].
  - destruct (h_reg k); [destruct H as [<- | []]; simpl; lia | contradiction].
  - apply IH in H. lia.
Qed.

Lemma reg_from_upd_same n l g k k' :
  nth_error l g = Some k -> h_reg k' = h_reg k -> h_req k' = h_req k -> reg_from n (upd g k' l) = reg_from n l.
Proof.
  revert n g. induction l as [|a l IH]; intros n [|g] Hn Hr Hq; simpl in *; try discriminate.
  - inversion Hn; subst. now rewrite Hr, Hq.
  - f_equal. now apply IH.
Qed.

Lemma filter_all {A} (p : A -> bool) l : (forall x, In x l -> p x = true) -> filter p l = l.
Proof.
  induction l as [|a l IH]; intros H; simpl; [reflexivity|]. rewrite (H a (or_introl eq_refl)). f_equal.
  apply IH. intros x Hx. apply H. now right.
Qed.

Lemma reg_from_unreg n l g k k' :
  nth_error l g = Some k -> h_reg k' = false ->
  reg_from n (upd g k' l) = filter (fun p => negb (Nat.eqb (fst p) (n + g))) (reg_from n l).
Proof.
  revert n g. induction l as [|a l IH]; intros n [|g] Hn Hr; simpl in *; try discriminate.
  - inversion Hn; subst. rewrite Hr. simpl. rewrite filter_app, Nat.add_0_r.
    assert (E : filter (fun p => negb (Nat.eqb (fst p) n)) (reg_from (S n) l) = reg_from (S n) l).
    { apply filter_all. intros p Hp. apply reg_from_ge in Hp.
      destruct (Nat.eqb_spec (fst p) n); [lia | reflexivity]. }
    rewrite E. destruct (h_reg k); simpl; [now rewrite Nat.eqb_refl | reflexivity].
  - rewrite filter_app, (IH (S n) g Hn Hr). replace (S n + g)%nat with (n + S g)%nat by lia. f_equal.
    destruct (h_reg a); simpl; [|reflexivity]. destruct (Nat.eqb_spec n (n + S g)); [lia | reflexivity].
Qed.

Lemma id_open_reg n l id : id_open (reg_from n l) id = match find_reg id l n with Some _ => true | None => false end.
Proof.
  revert n. induction l as [|k l IH]; intros n; simpl; [reflexivity|]. unfold id_open in *. rewrite existsb_app, IH.
  destruct (h_reg k); simpl; [|reflexivity]. destruct (fid (h_req k) =? id); reflexivity.
Qed.

(* ---------- only the read loop's resetStream produces reset envelopes ---------- *)
From Goat Require Import Proofs.ServerOrigin.

Record nrinv (s : state) : Prop := mkNr {
  nr_wk : forall w f, nth_error (wk s) w = Some (WkHand f) -> is_rst f = false;
  nr_hs : forall h k f c, nth_error (hs s) h = Some k -> h_pc k = HInSend f c -> is_rst f = false }.

Lemma nr_init nw : nrinv (init_n nw).
Proof.
  constructor; simpl.
  - intros w f H. apply nth_repeat in H. discriminate.
  - intros h k f c H. destruct h; discriminate.
Qed.

Lemma nr_hstep s h k o : nrinv s -> nth_error (hs s) h = Some k -> h_pc k = HGate -> nrinv (hstep s h k o).
Proof.
  intros [N1 N2] Hn Hp. unfold hstep.
  destruct (h_unary k) eqn:Hu, o; try destruct (h_hsent k) eqn:Hs; sproj.
  all: constructor; sproj; intros; otac; simpl in *; eauto.
  all: try (match goal with H : HInSend _ _ = HInSend _ _ |- _ => inversion H; subst; clear H end; reflexivity).
  all: apply finish_unary_nth in H; destruct H as (p0 & Hw & [[Hp0 _]|[Hp0 Hf]]); subst; eauto.
  all: inversion Hf; subst; reflexivity.
Qed.

Lemma nr_ext s a : nrinv s -> nrinv (ext s a).
Proof.
  intros N. destruct a; simpl; try (destruct N as [N1 N2]; constructor; sproj; auto; fail).
  destruct (nth_error (hs s) h) as [k|] eqn:E; auto. destruct (h_pc k) eqn:Ep; auto. apply nr_hstep; auto.
Qed.

Lemma nr_int s i s' : nrinv s -> rule_of i s = Some s' -> nrinv s'.
Proof.
  intros [N1 N2] H. destruct i; simpl in H.
  all: try (start_rule H; constructor; sproj; intros; otac; simpl in *; eauto; fail).
  - (* r_rd_read *)
    unfold r_rd_read in H. destruct (rd s); try discriminate. destruct (inbox s) as [|f rest].
    + destr_in H; inv_some H; constructor; sproj; auto.
    + destruct (dispatch f); inv_some H; try (constructor; sproj; auto; fail).
      unfold stream_dispatch. sproj.
      destruct (find_reg (fid f) (hs s) 0) as [g|];
        [destruct (is_rst f); [destruct (nth_error (hs s) g) eqn:Eg|]
        |destruct (is_rst f); [|destruct (has_body f); [|destruct (has_trl f); [|destruct (md_bad f)]]]];
        constructor; sproj; intros; otac; simpl in *; eauto.
  - (* r_rd_offer *)
    unfold r_rd_offer in H. destruct (rd s); try discriminate. destruct (find_idle (wk s) 0); [|discriminate]. inv_some H.
    unfold start_unary. destruct (negb (has_hdr f)); [|destruct (md_bad f); [|destruct (body_tok f <? 0)]];
      constructor; sproj; intros; otac; simpl in *; eauto.
Qed.

Theorem nr_reach nw ls s : lrun (init_n nw) ls = Some s -> nrinv s.
Proof. apply lrun_inv; [apply nr_ext | apply nr_int | apply nr_init]. Qed.

Definition rst_pend (s : state) : list frame := match rd s with RdRst f => [f] | _ => [] end.
Definition rsts_taken (l : list sev) : list frame := filter is_rst (taken_of l).

Record winv (s : state) : Prop := mkW {
  w_open : fst (dscan (log s)) = reg_from 0 (hs s);
  w_due : exists tail, map rst_reply (rst_due (log s)) = rsts_taken (log s) ++ map rst_reply (rst_pend s) ++ tail
                       /\ (tail = [] \/ (rd_exited s = true /\ exists f, tail = [f]))
                       /\ (tail <> [] -> rst_pend s = []) }.

Definition wquiet_ev (e : sev) : Prop :=
  match e with
  | SvRead _ | SvUnreg _ | SvInvoke _ false _ _ _ _ => False
  | SvTaken f => is_rst f = false
  | _ => True
  end.

Lemma wquiet_fold evs st : (forall e, In e evs -> wquiet_ev e) -> fold_left due_step evs st = st.
Proof.
  revert st. induction evs as [|e evs IH]; intros st H; [reflexivity|]. simpl.
  rewrite IH by (intros x Hx; apply H; now right). specialize (H e (or_introl eq_refl)).
  destruct e; simpl in *; try contradiction; try reflexivity. destruct unary; [reflexivity | contradiction].
Qed.

Lemma wquiet_taken evs : (forall e, In e evs -> wquiet_ev e) -> rsts_taken evs = [].
Proof.
  unfold rsts_taken, taken_of. induction evs as [|e evs IH]; intros H; [reflexivity|]. simpl. rewrite filter_app.
  rewrite IH by (intros x Hx; apply H; now right). rewrite app_nil_r. specialize (H e (or_introl eq_refl)).
  destruct e; simpl in *; try reflexivity. now rewrite H.
Qed.

Lemma rsts_taken_app l evs : rsts_taken (l ++ evs) = rsts_taken l ++ rsts_taken evs.
Proof. unfold rsts_taken, taken_of. rewrite flat_map_app, filter_app. reflexivity. Qed.

Lemma winv_quiet s s' evs :
  winv s -> log s' = log s ++ evs -> (forall e, In e evs -> wquiet_ev e) ->
  reg_from 0 (hs s') = reg_from 0 (hs s) -> rst_pend s' = rst_pend s ->
  (rd_exited s = true -> rd_exited s' = true) -> winv s'.
Proof.
  intros [W1 [t [T1 [T2 T3]]]] El Hq Er Ep Hx. constructor.
  - rewrite El, dscan_app, (wquiet_fold evs _ Hq). now rewrite Er.
  - exists t. unfold rst_due. rewrite El, dscan_app, (wquiet_fold evs _ Hq), rsts_taken_app, (wquiet_taken evs Hq), app_nil_r, Ep.
    split; [exact T1|]. split; [|exact T3]. destruct T2 as [-> | [E F]]; [left; reflexivity | right; auto].
Qed.

Lemma winv_init nw : winv (init_n nw).
Proof. constructor; [reflexivity|]. exists []. split; [reflexivity|]. split; [left; reflexivity | congruence]. Qed.

Lemma winv_ext s a : winv s -> winv (ext s a).
Proof.
  intros W. destruct a; simpl; try (apply (winv_quiet s _ [] W); [simpl; now rewrite app_nil_r | intros ? [] | reflexivity | reflexivity | auto]; fail).
  destruct (nth_error (hs s) h) as [k|] eqn:Hn; [|exact W]. destruct (h_pc k) eqn:Hg; try exact W.
  destruct (hstep_log s h k o) as [evs [E Hev]].
  destruct (hstep_shape s h k o Hn Hg) as [k' [Hhs [Hu [Hr [_ [_ [Hq _]]]]]]].
  destruct (hstep_other s h k o) as [E1 _].
  apply (winv_quiet s _ evs W E).
  - intros e Hin. specialize (Hev e Hin). destruct e; try contradiction; exact Logic.I.
  - rewrite Hhs. now apply reg_from_upd_same with (k := k).
  - unfold rst_pend. now rewrite E1.
  - unfold rd_exited. now rewrite E1.
Qed.

Ltac wq_tac W :=
  eapply (winv_quiet _ _ _ W);
  [ sproj; first [reflexivity | symmetry; apply app_nil_r]
  | let Hin := fresh "Hin" in intros ? Hin; simpl in Hin; repeat destruct Hin as [<- | Hin]; simpl; auto; try contradiction
  | sproj; try reflexivity;
    try (match goal with Hn : nth_error (hs _) ?h = Some ?k |- _ => apply (reg_from_upd_same 0 _ h k _ Hn); reflexivity end)
  | unfold rst_pend; sproj; repeat match goal with E : rd _ = _ |- _ => rewrite E end; reflexivity
  | unfold rd_exited; sproj; repeat match goal with E : rd _ = _ |- _ => rewrite E end; auto ].

Lemma is_rst_reply f : is_rst (rst_reply f) = true.
Proof. reflexivity. Qed.

Lemma serving_tail s t : (t = [] \/ (rd_exited s = true /\ exists f : frame, t = [f])) -> rd_exited s = false -> t = [].
Proof. intros [-> | [E _]] H; [reflexivity | congruence]. Qed.

(* the read loop reads an envelope: [due] says whether it calls for a reset, [p'] is what it then holds *)
Lemma winv_read s s1 f :
  winv s -> rd s = RdRead -> log s1 = log s ++ [SvRead f] -> hs s1 = hs s ->
  (if calls_for_reset f && negb (match find_reg (fid f) (hs s) 0 with Some _ => true | None => false end)
   then rd s1 = RdRst f else rst_pend s1 = []) ->
  rd_exited s1 = false -> winv s1.
Proof.
  intros [W1 [t [T1 [T2 T3]]]] Erd El Ehs Hc Hx.
  assert (t = []) by (apply (serving_tail s); [assumption | unfold rd_exited; now rewrite Erd]). subst t.
  assert (Ep : rst_pend s = []) by (unfold rst_pend; now rewrite Erd). rewrite Ep in T1. simpl in T1. rewrite ?app_nil_r in T1.
  constructor.
  - rewrite El, dscan_app. simpl. now rewrite Ehs.
  - unfold rst_due in *. rewrite El, dscan_app, rsts_taken_app. simpl. rewrite W1, id_open_reg.
    unfold rsts_taken at 2. simpl. rewrite ?app_nil_r.
    destruct (calls_for_reset f && negb (match find_reg (fid f) (hs s) 0 with Some _ => true | None => false end)).
    + exists []. unfold rst_pend. rewrite Hc, map_app, T1. simpl. rewrite ?app_nil_r.
      split; [reflexivity|]. split; [left; reflexivity | congruence].
    + exists []. rewrite Hc, T1. simpl. rewrite ?app_nil_r. split; [reflexivity|]. split; [left; reflexivity | congruence].
Qed.

Lemma winv_int nw s i s' : inv nw s -> nrinv s -> inv_hdr s -> winv s -> rule_of i s = Some s' -> winv s'.
Proof.
  intros Iv [N1 N2] [_ Ihd] W H. destruct i; simpl in H.
  all: try (start_rule H; wq_tac W; eauto; fail).
  - (* r_rd_read *)
    unfold r_rd_read in H. destruct (rd s) eqn:Erd; try discriminate. destruct (inbox s) as [|f rest].
    + destr_in H; inv_some H; wq_tac W.
    + set (s0 := add_log (set_inbox s rest) [SvRead f]).
      assert (Hs0 : forall p, (if calls_for_reset f && negb (match find_reg (fid f) (hs s) 0 with Some _ => true | None => false end)
                               then p = RdRst f else match p with RdRst _ => False | _ => True end) ->
                              rd_exited (set_rd s0 p) = false -> winv (set_rd s0 p)).
      { intros p Hp Hx. apply (winv_read s _ f W Erd); auto.
        destruct (calls_for_reset f && negb (match find_reg (fid f) (hs s) 0 with Some _ => true | None => false end));
          [exact Hp | unfold rst_pend; sproj; destruct p; auto; contradiction]. }
      destruct (dispatch f) eqn:Ed; inv_some H.
      * replace (add_log (set_inbox s rest) [SvRead f]) with (set_rd s0 RdRead) by (unfold s0; sproj; now rewrite Erd).
        apply Hs0; [unfold calls_for_reset; rewrite Ed; exact Logic.I | reflexivity].
      * apply Hs0; [unfold calls_for_reset; rewrite Ed; exact Logic.I | reflexivity].
      * unfold stream_dispatch. fold s0. change (hs s0) with (hs s).
        assert (Hrd0 : s0 = set_rd s0 RdRead) by (unfold s0; sproj; now rewrite Erd).
        destruct (find_reg (fid f) (hs s) 0) as [g|] eqn:Ef.
        -- assert (Hc : calls_for_reset f && negb true = false) by apply andb_false_r.
           destruct (is_rst f) eqn:Er.
           ++ destruct (find_reg_some _ _ _ _ Ef) as [_ [k [Hn _]]]. rewrite Nat.sub_0_r in Hn.
              change (nth_error (hs s0) g) with (nth_error (hs s) g). rewrite Hn.
              assert (W0 : winv s0) by (rewrite Hrd0; apply Hs0; [rewrite Hc; exact Logic.I | reflexivity]).
              apply (winv_quiet s0 _ [] W0); [sproj; now rewrite app_nil_r | intros ? [] | | reflexivity | auto].
              sproj. apply (reg_from_upd_same 0 _ g k _ Hn); reflexivity.
           ++ apply Hs0; [rewrite Hc; exact Logic.I | reflexivity].
        -- unfold calls_for_reset in Hs0. rewrite Ed in Hs0.
           destruct (is_rst f) eqn:Er; [rewrite Hrd0; apply Hs0; [exact Logic.I | reflexivity]|].
           destruct (has_body f) eqn:Eb; [apply Hs0; [reflexivity | reflexivity]|].
           destruct (has_trl f) eqn:Et; [rewrite Hrd0; apply Hs0; [exact Logic.I | reflexivity]|].
           destruct (md_bad f) eqn:Em; [apply Hs0; [reflexivity | reflexivity]|].
           assert (W0 : winv s0) by (rewrite Hrd0; apply Hs0; [exact Logic.I | reflexivity]).
           destruct W0 as [W1 [t [T1 [T2 T3]]]]. constructor.
           ++ sproj. rewrite dscan_app. simpl. unfold s0 in W1. sproj. rewrite W1, reg_from_app. reflexivity.
           ++ exists t. unfold rst_due in *. sproj. rewrite dscan_app, rsts_taken_app. simpl.
              unfold rsts_taken at 2. simpl. rewrite ?app_nil_r. unfold s0 in T1, T2, T3. sproj. auto.
  - (* r_rd_offer *)
    unfold r_rd_offer in H. destruct (rd s) eqn:Erd; try discriminate. destruct (find_idle (wk s) 0); [|discriminate]. inv_some H.
    unfold start_unary. destruct (negb (has_hdr f)); [|destruct (md_bad f); [|destruct (body_tok f <? 0)]].
    1-3: wq_tac W.
    eapply (winv_quiet _ _ _ W).
    + sproj. rewrite <- app_assoc. reflexivity.
    + intros e Hin. simpl in Hin. destruct Hin as [<- | [<- | []]]; exact Logic.I.
    + sproj. rewrite reg_from_app. simpl. now rewrite ?app_nil_r.
    + unfold rst_pend. sproj. now rewrite Erd.
    + unfold rd_exited. sproj. now rewrite Erd.
  - (* r_rd_rst *)
    unfold r_rd_rst in H. destruct (rd s) eqn:Erd; try discriminate. destruct (wr s); try discriminate.
    destruct (has_hdr f); inv_some H; [|wq_tac W].
    destruct W as [W1 [t [T1 [T2 T3]]]]. constructor.
    + sproj. rewrite dscan_app. simpl. exact W1.
    + assert (t = []) by (apply (serving_tail s); [assumption | unfold rd_exited; now rewrite Erd]). subst t.
      exists []. unfold rst_due in *. sproj. rewrite dscan_app, rsts_taken_app. simpl. unfold rsts_taken at 2. simpl.
      unfold rst_pend in *. rewrite Erd in T1. sproj. simpl in *. rewrite T1, ?app_nil_r.
      split; [reflexivity|]. split; [left; reflexivity | congruence].
  - (* r_rd_rst_ctx *)
    unfold r_rd_rst_ctx in H. destruct (rd s) eqn:Erd; try discriminate. destruct (hctx_done s); [|discriminate]. inv_some H.
    destruct W as [W1 [t [T1 [T2 T3]]]]. constructor.
    + sproj. rewrite dscan_app. simpl. exact W1.
    + assert (t = []) by (apply (serving_tail s); [assumption | unfold rd_exited; now rewrite Erd]). subst t.
      exists [rst_reply f]. unfold rst_due in *. sproj. rewrite dscan_app, rsts_taken_app. simpl. unfold rsts_taken at 2. simpl.
      unfold rst_pend in *. rewrite Erd in T1. sproj. simpl in *. rewrite T1, ?app_nil_r.
      split; [reflexivity|]. split; [right; split; [reflexivity | eauto] | reflexivity].
  - (* r_h_unreg *)
    unfold r_h_unreg in H. destruct (nth_error (hs s) h) as [k|] eqn:Hn; [|discriminate].
    destruct (h_pc k) eqn:Hp; try discriminate. destruct (mu_free s) eqn:Hmu; [|discriminate].
    destruct (unreg_self nw s h k Iv Hn Hp) as [Ef [U R]].
    unfold set_h at 1 2 3 in H. cbn [hs set_hs] in H. rewrite Ef in H.
    rewrite nth_upd_same in H by (eapply nth_error_lt; eauto). inv_some H.
    destruct W as [W1 [t [T1 [T2 T3]]]]. constructor.
    + sproj. rewrite dscan_app, upd_upd. simpl. rewrite W1. symmetry.
      rewrite (reg_from_unreg 0 (hs s) h k _ Hn) by reflexivity. reflexivity.
    + exists t. unfold rst_due in *. sproj. rewrite dscan_app, rsts_taken_app. simpl. unfold rsts_taken at 2. simpl.
      rewrite ?app_nil_r. unfold rst_pend, rd_exited in *. sproj. auto.
Qed.

Theorem winv_reach nw ls s : lrun (init_n nw) ls = Some s -> winv s.
Proof.
  intros H. assert (G : (inv nw s /\ nrinv s /\ inv_hdr s) /\ winv s).
  { revert H. apply (lrun_inv (fun s => (inv nw s /\ nrinv s /\ inv_hdr s) /\ winv s)).
    - intros s0 a [[I1 [I2 I3]] W]. split; [split; [now apply inv_ext | split; [now apply nr_ext | now apply inv_hdr_ext]] | now apply winv_ext].
    - intros s0 i s1 [[I1 [I2 I3]] W] Hr. split.
      + split; [eapply inv_int; eassumption | split; [eapply nr_int; eassumption | eapply inv_hdr_int; eassumption]].
      + eapply (winv_int nw); eassumption.
    - split; [split; [apply inv_init | split; [apply nr_init | apply inv_hdr_init]] | apply winv_init]. }
  apply G.
Qed.

(* the accounting, always: the envelopes that called for a reset are, in order and once each, answered by the resets
   the writer has taken, then the one the read loop is handing over, then at most one abandoned at the end *)
Theorem srv_reset_accounting nw ls s : lrun (init_n nw) ls = Some s ->
  exists tail, map rst_reply (rst_due (log s)) = rsts_taken (log s) ++ map rst_reply (rst_pend s) ++ tail
               /\ (tail = [] \/ (rd_exited s = true /\ exists f, tail = [f])).
Proof. intros H. destruct (w_due s (winv_reach nw ls s H)) as [t [T1 [T2 _]]]. eauto. Qed.

Lemma outcomes_all_written l : (forall f, ~ In (SvWFail f) l) -> map snd (outcomes l) = written l.
Proof.
  unfold outcomes, written. induction l as [|e l IH]; intros H; [reflexivity|]. simpl. rewrite map_app.
  rewrite IH by (intros f Hf; apply (H f); now right). destruct e; try reflexivity.
  exfalso. apply (H f). now left.
Qed.

(* C12_reset_written (Q): in every reachable quiescent state in which the transport does not block writes and the
   connection has not been ended, the resets on the wire are exactly, in order, one per envelope that called for one
   (a stream-method envelope for this server, not itself a reset, carrying a body or - without body and trailer -
   undecodable metadata, read while no stream was registered under its id): [rst_reply f] = f's id and method,
   source and destination swapped. Nothing else produces a reset. *)
Theorem srv_reset_written nw ls s : lrun (init_n nw) ls = Some s ->
  quiescent s = true -> wblock s = false -> hctx_done s = false ->
  filter is_rst (written (log s)) = map rst_reply (rst_due (log s)).
Proof.
  intros H Q Hb Hc. pose proof (inv_reach nw ls s H) as Iv.
  destruct (q_writer nw s Iv Q (or_introl Hb)) as [[_ Hw] | [Hc' _]]; [|congruence].
  assert (Hx : rd_exited s = false).
  { destruct (rd_exited s) eqn:E; [|reflexivity]. destruct (exited_hctx nw s Iv E). congruence. }
  assert (Hp : rst_pend s = []).
  { unfold rst_pend. destruct (rd s) eqn:Erd; auto. exfalso.
    pose proof (q_fixed s RRdRst Q Logic.I) as H1. simpl in H1. unfold r_rd_rst in H1. rewrite Erd, Hw in H1.
    destruct (has_hdr f); discriminate. }
  destruct (srv_reset_accounting nw ls s H) as [t [T1 T2]].
  assert (t = []) by (destruct T2 as [-> | [E _]]; [reflexivity | congruence]). subst t.
  rewrite Hp in T1. simpl in T1. rewrite app_nil_r in T1. rewrite T1. unfold rsts_taken.
  rewrite (srv_taken_written nw ls s H). unfold inflight. rewrite Hw, app_nil_r.
  rewrite outcomes_all_written; [reflexivity|].
  intros f Hf. pose proof (srv_wfail_cancels nw ls s H f Hf). congruence.
Qed.

(* C06, client half: what Model/Client.v writes on the wire, per stream id, is
   accepted by the protocol automaton of Model/Protocol.v - over all label
   sequences (any peer, any interleaving, cancellations, failures), for
   API-conformant users (no Send after CloseSend, one CloseSend). *)
From Coq Require Import List ZArith Bool Lia Arith.
Import ListNotations.
From Goat Require Import Model.Client Model.Protocol Proofs.ClientBase Proofs.ClientInv.
Open Scope Z_scope.

(* ---------- the written log ---------- *)
Definition wr_of (evs : list cev) : list env :=
  flat_map (fun e => match e with EvWrite x => [x] | _ => [] end) evs.
Definition wr (s : state) : list env := wr_of (log s).
Definition projE (i : Z) (l : list env) : list env := filter (fun e => eid e =? i) l.

Lemma wr_of_app a b : wr_of (a ++ b) = wr_of a ++ wr_of b.
Proof. unfold wr_of. apply flat_map_app. Qed.

Lemma projE_app i a b : projE i (a ++ b) = projE i a ++ projE i b.
Proof. unfold projE. apply filter_app. Qed.

Lemma projE_none i l : (forall e, In e l -> eid e <> i) -> projE i l = [].
Proof.
  induction l; simpl; intros H; auto.
  destruct (eid a =? i) eqn:E.
  - exfalso. apply (H a); auto. lia.
  - apply IHl. intros; apply H; auto.
Qed.

Lemma projE_all i l : (forall e, In e l -> eid e = i) -> projE i l = l.
Proof.
  induction l; simpl; intros H; auto.
  rewrite (proj2 (Z.eqb_eq _ _) (H a (or_introl eq_refl))). f_equal. apply IHl. intros; apply H; auto.
Qed.

Lemma projE_in i l e : In e (projE i l) -> In e l /\ eid e = i.
Proof. unfold projE. rewrite filter_In. intros [H1 H2]. split; auto. lia. Qed.

(* ---------- API conformance of the users (a condition on the label sequence) ---------- *)
Definition is_close (c : nat) (l : label) : bool :=
  match l with LExt (ACloseSend d) => Nat.eqb c d | _ => false end.
Definition closes (c : nat) (ls : list label) : nat := length (filter (is_close c) ls).

(* per stream: at most one CloseSend, and no Send after a CloseSend *)
Definition api_ok (ls : list label) : Prop :=
  forall c, (closes c ls <= 1)%nat /\
            forall ls1 b ls2, ls = ls1 ++ LExt (ASend c b) :: ls2 -> closes c ls1 = 0%nat.

Lemma closes_app c a b : closes c (a ++ b) = (closes c a + closes c b)%nat.
Proof. unfold closes. rewrite filter_app, app_length. auto. Qed.

Lemma api_ok_prefix ls l : api_ok (ls ++ [l]) -> api_ok ls.
Proof.
  intros H c. destruct (H c) as [H1 H2]. split.
  - rewrite closes_app in H1. lia.
  - intros ls1 b ls2 E. apply (H2 ls1 b (ls2 ++ [l])). rewrite E. rewrite <- app_assoc. reflexivity.
Qed.

Lemma api_ok_send ls c b : api_ok (ls ++ [LExt (ASend c b)]) -> closes c ls = 0%nat.
Proof. intros H. destruct (H c) as [_ H2]. apply (H2 ls b []). reflexivity. Qed.

Lemma api_ok_close ls c : api_ok (ls ++ [LExt (ACloseSend c)]) -> closes c ls = 0%nat.
Proof.
  intros H. destruct (H c) as [H1 _]. rewrite closes_app in H1. unfold closes at 2 in H1. simpl in H1.
  rewrite Nat.eqb_refl in H1. simpl in H1. lia.
Qed.

(* ---------- the shape of what one stream has written ---------- *)
Definition sshape (id : Z) (W : list env) (nC nR : nat) : Prop :=
  exists bs, W = open_env id :: map (body_env id) bs ++ repeat (close_env id) nC ++ repeat (rst_env id) nR.

Lemma sshape_open id : sshape id [open_env id] 0 0.
Proof. exists []. reflexivity. Qed.

Lemma sshape_body id W b : sshape id W 0 0 -> sshape id (W ++ [body_env id b]) 0 0.
Proof.
  intros [bs ->]. exists (bs ++ [b]). simpl. rewrite !app_nil_r. rewrite map_app. reflexivity.
Qed.

Lemma sshape_close id W : sshape id W 0 0 -> sshape id (W ++ [close_env id]) 1 0.
Proof. intros [bs ->]. exists bs. simpl. rewrite !app_nil_r. reflexivity. Qed.

Lemma sshape_rst id W nC : sshape id W nC 0 -> sshape id (W ++ [rst_env id]) nC 1.
Proof. intros [bs ->]. exists bs. simpl. rewrite !app_nil_r. rewrite <- !app_assoc. reflexivity. Qed.

Definition pend_close (k : call) : nat := match s_sendq k with None :: _ => 1 | _ => 0 end.
Definition rst_loop (l : slpc) : bool := match l with LTdUnreg | LDead => true | _ => false end.
Definition running_loop (l : slpc) : bool := match l with LRead | LHand _ => true | _ => false end.

Definition streamJ (c : nat) (k : call) (ls : list label) (W : list env) : Prop :=
  exists nC nR, sshape (k_id k) W nC nR /\ (nC + pend_close k <= closes c ls)%nat /\
                (forall b q, s_sendq k = Some b :: q -> nC = 0%nat) /\ (nR <= 1)%nat /\
                (nR = 1%nat -> rst_loop (s_loop k) = true /\ sctx_done k = true).

Definition is_ctx_err (e : option cerr) : bool :=
  match e with Some ECanceled | Some EDeadline => true | _ => false end.
Definition nrst (W : list env) : nat := length (filter erst W).
Definition is_wfail_on (l : label) : bool := match l with LExt (ASetWriteFail true) => true | _ => false end.
Definition no_wfail (ls : list label) : Prop := forall l, In l ls -> is_wfail_on l = false.

(* resets: at most one per stream, written by the stream loop's deferred block, never after a received
   trailer, and always written when the loop ends because of the context (or aborts) unless writes fail *)
Definition rstJ (k : call) (ls : list label) (W : list env) : Prop :=
  (k_pc k <> POpen -> nrst W = 0%nat) /\
  (nrst W <= 1)%nat /\
  (nrst W = 1%nat -> rst_loop (s_loop k) = true /\ l_hastrl k = false /\ (l_abort k = true \/ sctx_done k = true)) /\
  (rst_loop (s_loop k) = true -> k_pc k = POpen -> no_wfail ls -> l_hastrl k = false ->
   (l_abort k = true \/ is_ctx_err (l_rerr k) = true) -> nrst W = 1%nat) /\
  (s_loop k = LExit -> is_ctx_err (l_rerr k) = true -> sctx_done k = true) /\
  (s_done k = true -> s_rerr k = l_rerr k).

Definition callJ (c : nat) (k : call) (ls : list label) (W : list env) : Prop :=
  (length (s_sendq k) <= 1)%nat /\
  (running_loop (s_loop k) = true -> l_abort k = false) /\
  (pc_fresh (k_pc k) = true -> l_abort k = false) /\
  match k_pc k with
  | PCheck _ | PParked | PReg | POpenUnreg _ | POpenFailed => W = []
  | PWait => W = [req_env (k_id k) (k_payload k)]
  | PUnreg _ | PRet => W = [] \/ W = [req_env (k_id k) (k_payload k)]
  | POpen => l_abort k = false -> api_ok ls -> streamJ c k ls W
  end /\
  rstJ k ls W.

Definition J (ls : list label) (s : state) : Prop :=
  (forall e, In e (wr s) -> 0 < eid e <= counter s) /\
  (forall e, In e (wr s) -> exists c k, nth_error (calls s) c = Some k /\ k_id k = eid e) /\
  (forall c k, nth_error (calls s) c = Some k -> callJ c k ls (projE (k_id k) (wr s))).

Lemma J_init : J [] init.
Proof.
  split; [|split]; simpl; try tauto.
  intros c k Hn. destruct c; discriminate.
Qed.

(* ---------- monotonicity in the label sequence ---------- *)
Definition ext_ok (ls ls' : list label) : Prop :=
  (forall d, closes d ls <= closes d ls')%nat /\ (api_ok ls' -> api_ok ls) /\ (no_wfail ls' -> no_wfail ls).

Lemma ext_ok_snoc ls l : ext_ok ls (ls ++ [l]).
Proof.
  split; [|split].
  - intros d. rewrite closes_app. lia.
  - apply api_ok_prefix.
  - intros H x Hin. apply H. apply in_or_app. auto.
Qed.

Lemma callJ_mono c k ls ls' W : ext_ok ls ls' -> callJ c k ls W -> callJ c k ls' W.
Proof.
  intros (Hle & Hapi & Hnw) (H1 & H2 & H3 & H4 & R0 & R1 & R2 & R3 & R4 & R5). repeat split; auto.
  - destruct (k_pc k); auto. intros Ha Hok. destruct (H4 Ha (Hapi Hok)) as (nC & nR & S & A & B & C & D).
    exists nC, nR. specialize (Hle c). repeat split; auto; try lia; apply D; auto.
  - apply R2; auto.
  - apply R2; auto.
  - apply R2; auto.
Qed.

Lemma closes_snoc_le c ls l : (closes c ls <= closes c (ls ++ [l]))%nat.
Proof. rewrite closes_app. lia. Qed.

(* ---------- the generic step: call c becomes k', the events evs are logged ---------- *)
Lemma J_upd ls ls' s s' c k k' evs :
  cinv s -> sinv s -> J ls s ->
  nth_error (calls s) c = Some k ->
  calls s' = upd c k' (calls s) -> log s' = log s ++ evs -> counter s' = counter s ->
  k_id k' = k_id k ->
  ext_ok ls ls' ->
  (forall e, In e (wr_of evs) -> eid e = k_id k /\ 0 < k_id k) ->
  callJ c k' ls' (projE (k_id k) (wr s) ++ wr_of evs) ->
  J ls' s'.
Proof.
  intros HI HS (J1 & J2 & J3) Hn Hc Hl Hco Hid Hcl Hw Hk'.
  assert (Hwr : wr s' = wr s ++ wr_of evs). { unfold wr. rewrite Hl. apply wr_of_app. }
  split; [|split].
  - rewrite Hwr, Hco. intros e Hin. apply in_app_or in Hin. destruct Hin as [Hin|Hin]; [apply J1; auto|].
    destruct (Hw _ Hin) as [-> Hpos]. split; auto. eapply si_id_le; eauto.
  - rewrite Hwr, Hc. intros e Hin. apply in_app_or in Hin.
    assert (Hlt : (c < length (calls s))%nat) by (eapply nth_some_lt; eauto).
    destruct Hin as [Hin|Hin].
    + destruct (J2 _ Hin) as (c0 & k0 & Hn0 & Hi0). destruct (Nat.eq_dec c c0).
      * subst c0. rewrite Hn in Hn0. inversion Hn0; subst k0. exists c, k'. rewrite nth_upd_eq; auto. split; auto. congruence.
      * exists c0, k0. rewrite nth_upd_neq; auto.
    + destruct (Hw _ Hin) as [-> _]. exists c, k'. rewrite nth_upd_eq; auto.
  - rewrite Hwr, Hc. intros c0 k0 Hn0. apply nth_upd_inv in Hn0. destruct Hn0 as [[-> ->]|[Hne Hn0]].
    + rewrite Hid, projE_app. rewrite (projE_all (k_id k) (wr_of evs)); auto. intros e Hin. apply Hw; auto.
    + rewrite projE_app. rewrite (projE_none (k_id k0) (wr_of evs)).
      * rewrite app_nil_r. eapply callJ_mono; [exact Hcl|]. apply J3; auto.
      * intros e Hin. destruct (Hw _ Hin) as [-> Hpos]. eapply (si_id_uniq _ HS c c0); eauto.
Qed.

(* the same without new events that are writes *)
Lemma J_upd0 ls ls' s s' c k k' evs :
  cinv s -> sinv s -> J ls s ->
  nth_error (calls s) c = Some k ->
  calls s' = upd c k' (calls s) -> log s' = log s ++ evs -> counter s' = counter s ->
  k_id k' = k_id k ->
  ext_ok ls ls' ->
  wr_of evs = [] ->
  callJ c k' ls' (projE (k_id k) (wr s)) ->
  J ls' s'.
Proof.
  intros. eapply J_upd; eauto.
  - rewrite H8. simpl. tauto.
  - rewrite H8, app_nil_r. auto.
Qed.

(* a step that touches no call and writes nothing *)
Lemma J_same ls ls' s s' evs :
  J ls s -> calls s' = calls s -> log s' = log s ++ evs -> wr_of evs = [] -> counter s <= counter s' ->
  ext_ok ls ls' -> J ls' s'.
Proof.
  intros (J1 & J2 & J3) Hc Hl Hw Hco Hcl.
  assert (Hwr : wr s' = wr s). { unfold wr. rewrite Hl, wr_of_app, Hw, app_nil_r. auto. }
  split; [|split]; rewrite ?Hwr, ?Hc; auto.
  - intros e Hin. specialize (J1 _ Hin). lia.
  - intros c k Hn. eapply callJ_mono; [exact Hcl|]. auto.
Qed.

Lemma J_updN ls ls' s s' c k k' :
  cinv s -> sinv s -> J ls s ->
  nth_error (calls s) c = Some k ->
  calls s' = upd c k' (calls s) -> log s' = log s -> counter s' = counter s ->
  k_id k' = k_id k ->
  ext_ok ls ls' ->
  callJ c k' ls' (projE (k_id k) (wr s)) ->
  J ls' s'.
Proof.
  intros. eapply (J_upd0 ls ls' s s' c k k' []); eauto. rewrite app_nil_r; auto.
Qed.

(* ---------- frame: a step of call c that keeps its pc, id, send queue ---------- *)
Lemma callJ_frame c k k' ls ls' W :
  k_pc k' = k_pc k -> k_id k' = k_id k -> k_payload k' = k_payload k -> s_sendq k' = s_sendq k ->
  (l_abort k' = false -> l_abort k = false) ->
  (running_loop (s_loop k') = true -> l_abort k' = false) ->
  (pc_fresh (k_pc k') = true -> l_abort k' = false) ->
  (rst_loop (s_loop k) = true -> rst_loop (s_loop k') = true) ->
  (sctx_done k = true -> sctx_done k' = true) ->
  (* the deferred block's inputs are frozen once the loop has passed the reset decision *)
  (rst_loop (s_loop k') = true -> rst_loop (s_loop k) = true /\ l_hastrl k' = l_hastrl k /\ l_abort k' = l_abort k /\ l_rerr k' = l_rerr k) ->
  (s_loop k' = LExit -> is_ctx_err (l_rerr k') = true -> sctx_done k' = true) ->
  (s_done k' = true -> s_rerr k' = l_rerr k' \/ (s_done k = true /\ s_rerr k' = s_rerr k /\ l_rerr k' = l_rerr k)) ->
  ext_ok ls ls' ->
  callJ c k ls W -> callJ c k' ls' W.
Proof.
  intros Hpc Hid Hpl Hsq Hab Hrun Hfr Hrl Hctx Hfz Hx Hdn Hcl HW.
  apply (callJ_mono _ _ _ _ _ Hcl) in HW. destruct HW as (H1 & H2 & H3 & H4 & R0 & R1 & R2 & R3 & R4 & R5).
  unfold callJ, rstJ. rewrite Hpc, Hid, Hpl, Hsq. split; [auto|split; [auto|split; [rewrite <- Hpc; auto|split; [|split; [auto|split; [auto|split; [|split; [|split]]]]]]]].
  - destruct (k_pc k); auto. intros Ha Hok. destruct (H4 (Hab Ha) Hok) as (nC & nR & S & A & B & C & D).
    exists nC, nR. unfold pend_close in *. rewrite Hid, Hsq. repeat split; auto; try lia;
      [apply Hrl; apply D; auto | apply Hctx; apply D; auto].
  - intros Hn. destruct (R2 Hn) as (X1 & X2 & X3). destruct (Hfz (Hrl X1)) as (_ & F1 & F2 & _). split; [auto|split].
    + congruence.
    + destruct X3 as [X3|X3]; [left; congruence|right; auto].
  - intros Hr Hp Hnw Ht Hc. destruct (Hfz Hr) as (F0 & F1 & F2 & F3). apply R3; auto; try congruence.
  - auto.
  - intros Hd. destruct (Hdn Hd) as [F|(F0 & F1 & F2)]; auto. rewrite F1, F2. auto.
Qed.

Lemma rstJ_closed k ls W :
  k_pc k <> POpen -> nrst W = 0%nat -> s_loop k <> LExit -> s_done k = false -> rstJ k ls W.
Proof.
  intros Hp Hn Hl Hd. unfold rstJ. rewrite Hn, Hd. repeat split; auto; try lia; try discriminate; try congruence.
Qed.

Lemma kinv_notdone k : kinv k -> k_pc k <> POpen -> s_done k = false.
Proof. intros K Hp. destruct (s_done k) eqn:E; auto. exfalso. apply Hp. apply (ki_done_dead _ K E). Qed.

Lemma rstJ_zero k ls W : nrst W = 0%nat -> rst_loop (s_loop k) = false -> s_loop k <> LExit -> s_done k = false -> rstJ k ls W.
Proof.
  intros Hn Hl He Hd. unfold rstJ. rewrite Hn, Hl, Hd. repeat split; auto; try lia; try discriminate; try congruence.
Qed.

Lemma rstJ_frame k k' ls ls' W :
  k_pc k' = k_pc k -> s_loop k' = s_loop k -> l_hastrl k' = l_hastrl k -> l_abort k' = l_abort k -> l_rerr k' = l_rerr k ->
  (sctx_done k = true -> sctx_done k' = true) -> (no_wfail ls' -> no_wfail ls) ->
  s_done k' = s_done k -> s_rerr k' = s_rerr k ->
  rstJ k ls W -> rstJ k' ls' W.
Proof.
  intros E1 E2 E3 E4 E5 Hc Hnw E6 E7 (R0 & R1 & R2 & R3 & R4 & R5). unfold rstJ. rewrite E1, E2, E3, E4, E5, E6, E7.
  split; [auto|split; [auto|split; [|split; [|split]]]]; auto;
    try (intros Hn; destruct (R2 Hn) as (X1 & X2 & [X3|X3]); auto; fail);
    try (intros; apply R3; auto; fail);
    try (intros; apply Hc; apply R4; auto; fail).
Qed.

Lemma final_not_ctx e x : final_of e = Some x -> is_ctx_err (Some x) = false.
Proof.
  unfold final_of. destruct (erst e); [intros H; inversion H; reflexivity|].
  destruct (etrl e); try discriminate. destruct (estatus e) as [st|]; [destruct (st_code st =? 0)|]; intros H; inversion H; reflexivity.
Qed.

Lemma nrst_app a b : nrst (a ++ b) = (nrst a + nrst b)%nat.
Proof. unfold nrst. rewrite filter_app, app_length. auto. Qed.

Lemma kinv_dead k : kinv k -> k_pc k <> POpen -> s_loop k = LDead.
Proof.
  intros K Hp. destruct (s_loop k) eqn:E; auto; exfalso; apply Hp; apply (ki_loop_open _ K); unfold loop_alive; rewrite E; reflexivity.
Qed.

Lemma nrst_unary W id p : W = [] \/ W = [req_env id p] -> nrst W = 0%nat.
Proof. intros [->| ->]; reflexivity. Qed.

Ltac fsimpl := unfold running_loop, rst_loop, pc_fresh, sctx_done in *; csimpl.

Ltac pc_tac HW Ep :=
  let A := fresh "KA" in let B := fresh "KB" in let C := fresh "KC" in let D := fresh "KD" in let R := fresh "KR" in
  destruct HW as (A & B & C & D & R); rewrite Ep in *; unfold callJ; fsimpl;
  split; [|split; [|split; [|split]]]; auto;
  try (match goal with K : kinv ?k0 |- rstJ _ _ _ =>
         apply rstJ_closed; csimpl;
         [ try discriminate; try congruence
         | first [ rewrite D; reflexivity | apply (nrst_unary _ _ _ D) | apply (nrst_unary _ (k_id k0) (k_payload k0)); auto ]
         | rewrite (kinv_dead _ K) by (rewrite Ep; discriminate); discriminate
         | apply (kinv_notdone _ K); rewrite Ep; discriminate ]
       end).

(* a new call record is appended *)
Lemma J_new ls ls' s s' k0 :
  J ls s -> calls s' = calls s ++ [k0] -> log s' = log s -> counter s' = counter s -> k_id k0 = 0 ->
  ext_ok ls ls' ->
  callJ (length (calls s)) k0 ls' [] -> J ls' s'.
Proof.
  intros (J1 & J2 & J3) Hc Hl Hco Hid Hcl Hk.
  assert (Hwr : wr s' = wr s) by (unfold wr; rewrite Hl; auto).
  split; [|split]; rewrite Hwr, ?Hco, ?Hc; auto.
  - intros e Hin. destruct (J2 _ Hin) as (c & k & Hn & Hi). exists c, k. split; auto.
    rewrite nth_error_app1; eauto using nth_some_lt.
  - intros c k Hn. apply nth_app_cases in Hn. destruct Hn as [[Hn _]|[-> ->]].
    + eapply callJ_mono; [exact Hcl|]. auto.
    + rewrite Hid. rewrite projE_none; auto. intros e Hin. specialize (J1 _ Hin). lia.
Qed.

(* call c gets the next id *)
Lemma J_alloc ls ls' s s' c k k' :
  cinv s -> J ls s -> nth_error (calls s) c = Some k -> k_id k = 0 -> k_id k' = counter s + 1 ->
  calls s' = upd c k' (calls s) -> log s' = log s -> counter s' = counter s + 1 ->
  ext_ok ls ls' ->
  callJ c k' ls' [] -> J ls' s'.
Proof.
  intros HI (J1 & J2 & J3) Hn Hid0 Hid Hc Hl Hco Hcl Hk.
  assert (Hwr : wr s' = wr s) by (unfold wr; rewrite Hl; auto).
  assert (Hlt : (c < length (calls s))%nat) by (eapply nth_some_lt; eauto).
  split; [|split]; rewrite Hwr, ?Hco, ?Hc; auto.
  - intros e Hin. specialize (J1 _ Hin). lia.
  - intros e Hin. destruct (J2 _ Hin) as (c0 & k0 & Hn0 & Hi0). destruct (Nat.eq_dec c c0).
    + subst c0. rewrite Hn in Hn0. inversion Hn0; subst k0. specialize (J1 _ Hin). lia.
    + exists c0, k0. rewrite nth_upd_neq; auto.
  - intros c0 k0 Hn0. apply nth_upd_inv in Hn0. destruct Hn0 as [[-> ->]|[Hne Hn0]].
    + rewrite Hid. rewrite projE_none; auto. intros e Hin. specialize (J1 _ Hin). lia.
    + eapply callJ_mono; [exact Hcl|]. auto.
Qed.

(* ---------- environment actions ---------- *)
Lemma J_with_call ls l s c f :
  cinv s -> sinv s -> J ls s ->
  (forall k k', nth_error (calls s) c = Some k -> f k = Some k' ->
                k_id k' = k_id k /\ forall W, callJ c k ls W -> callJ c k' (ls ++ [l]) W) ->
  J (ls ++ [l]) (with_call s c f).
Proof.
  intros HI HS HJ Hf. unfold with_call.
  destruct (nth_error (calls s) c) eqn:E; [destruct (f c0) eqn:Ef|].
  - destruct (Hf _ _ eq_refl Ef) as [Hid Hk]. destruct HJ as (J1 & J2 & J3).
    eapply (J_updN ls (ls ++ [l]) s _ c c0 c1 HI HS (conj J1 (conj J2 J3)) E);
      [reflexivity|reflexivity|reflexivity|exact Hid|apply ext_ok_snoc|apply Hk; apply J3; auto].
  - eapply (J_same ls _ s s []); eauto; try reflexivity; try lia. rewrite app_nil_r; auto. apply ext_ok_snoc.
  - eapply (J_same ls _ s s []); eauto; try reflexivity; try lia. rewrite app_nil_r; auto. apply ext_ok_snoc.
Qed.

Ltac frame_fin R4 :=
  fsimpl; auto;
  try (intros; repeat split; auto; fail);
  try (intros; right; repeat split; auto; fail);
  try (intros; left; reflexivity);
  try (intros; rewrite ?orb_true_r; auto with bool; fail);
  try (intros; discriminate);
  try (let HL := fresh in let HE := fresh in intros HL HE; specialize (R4 HL HE); fsimpl;
       rewrite ?orb_true_r; auto with bool;
       try (apply orb_true_iff in R4; destruct R4 as [R4|R4]; rewrite ?R4, ?orb_true_r; auto with bool); fail).

Ltac frame_tac :=
  match goal with HW : callJ _ ?k0 _ _ |- _ =>
    let A := fresh "KA" in let B := fresh "KB" in let C := fresh "KC" in let D := fresh "KD" in
    let R0 := fresh "R0" in let R1 := fresh "R1" in let R2 := fresh "R2" in let R3 := fresh "R3" in let R4 := fresh "R4" in let R5 := fresh "R5" in
    pose proof HW as (A & B & C & D & R0 & R1 & R2 & R3 & R4 & R5);
    eapply (callJ_frame _ k0); [reflexivity | reflexivity | reflexivity | reflexivity | | | | | | | | | apply ext_ok_snoc | exact HW];
    clear D R0 R1 R2 R3 R5; frame_fin R4
  end.

Lemma J_ext ls s a : cinv s -> sinv s -> J ls s -> J (ls ++ [LExt a]) (ext s a).
Proof.
  intros HI HS HJ. destruct a; simpl.
  - eapply (J_new ls _ s _ (new_call true payload park)); eauto; try reflexivity. apply ext_ok_snoc.
    unfold callJ; csimpl. split; [|split; [|split; [|split]]]; auto. apply rstJ_closed; csimpl; auto; discriminate.
  - eapply (J_new ls _ s _ (new_call false 0 park)); eauto; try reflexivity. apply ext_ok_snoc.
    unfold callJ; csimpl. split; [|split; [|split; [|split]]]; auto. apply rstJ_closed; csimpl; auto; discriminate.
  - (* ARelease *)
    destruct (nth_error (calls s) c) eqn:E.
    2:{ eapply (J_same ls _ s s []); eauto; try reflexivity; try lia. rewrite app_nil_r; auto. apply ext_ok_snoc. }
    destruct (k_pc c0) eqn:Ep;
      try (eapply (J_same ls _ s s []); eauto; try reflexivity; try lia; [rewrite app_nil_r; auto | apply ext_ok_snoc]; fail).
    pose proof (cinv_call _ _ _ HI E) as K.
    pose proof (proj2 (proj2 HJ) _ _ E) as HW.
    eapply (J_alloc ls _ s _ c c0 (set_id (set_pc c0 PReg) (counter s + 1)) HI HJ E); try reflexivity.
    + apply (ki_noid _ K). rewrite Ep. reflexivity.
    + apply ext_ok_snoc.
    + pc_tac HW Ep.
  - (* ARecv *)
    apply J_with_call; auto. intros k k' Hn H.
    destruct (s_recv k) eqn:Er; try discriminate; destruct (k_pc k) eqn:Ep; try discriminate. inversion H; subst k'; clear H.
    split; auto. intros W HW. frame_tac.
  - apply J_with_call; auto. intros k k' Hn H.
    destruct (s_recv k) eqn:Er; try discriminate. inversion H; subst k'; clear H.
    split; auto. intros W HW. frame_tac.
  - (* ASend *)
    apply J_with_call; auto. intros k k' Hn H.
    destruct (k_pc k) eqn:Ep; try discriminate; destruct (s_sendq k) eqn:Eq; try discriminate. inversion H; subst k'; clear H.
    split; auto. intros W (H1 & H2 & H3 & H4 & HR). unfold callJ. csimpl. rewrite Ep in *.
    split; [simpl; lia|split; [auto|split; [auto|split]]].
    + intros Ha Hok. destruct (H4 Ha (api_ok_prefix _ _ Hok)) as (nC & nR & S & A & B & C & D).
      pose proof (api_ok_send _ _ _ Hok) as Hz. unfold pend_close in *. rewrite Eq in *.
      exists nC, nR. unfold pend_close. csimpl. repeat split; auto; try lia; try (apply D; auto); try (rewrite closes_app; lia).
    + eapply (rstJ_frame k _ ls); [reflexivity|reflexivity|reflexivity|reflexivity|reflexivity|auto|apply (proj2 (proj2 (ext_ok_snoc ls _)))|reflexivity|reflexivity|exact HR].
  - (* ACloseSend *)
    apply J_with_call; auto. intros k k' Hn H.
    destruct (k_pc k) eqn:Ep; try discriminate; destruct (s_sendq k) eqn:Eq; try discriminate. inversion H; subst k'; clear H.
    split; auto. intros W (H1 & H2 & H3 & H4 & HR). unfold callJ. csimpl. rewrite Ep in *.
    split; [simpl; lia|split; [auto|split; [auto|split]]].
    + intros Ha Hok. destruct (H4 Ha (api_ok_prefix _ _ Hok)) as (nC & nR & S & A & B & C & D).
      unfold pend_close in *. rewrite Eq in *.
      exists nC, nR. unfold pend_close. csimpl. repeat split; auto; try (apply D; auto).
      * rewrite closes_app. unfold closes at 2. simpl. rewrite Nat.eqb_refl. simpl. lia.
      * intros; discriminate.
    + eapply (rstJ_frame k _ ls); [reflexivity|reflexivity|reflexivity|reflexivity|reflexivity|auto|apply (proj2 (proj2 (ext_ok_snoc ls _)))|reflexivity|reflexivity|exact HR].
  - (* AHeader *)
    apply J_with_call; auto. intros k k' Hn H.
    destruct (k_pc k) eqn:Ep; try discriminate; destruct (s_header k) eqn:Eq; try discriminate. inversion H; subst k'; clear H.
    split; auto. intros W HW. frame_tac.
  - (* ATrailer *)
    apply J_with_call; auto. intros k k' Hn H.
    destruct (k_pc k) eqn:Ep; try discriminate; destruct (s_trailerq k) eqn:Eq; try discriminate. inversion H; subst k'; clear H.
    split; auto. intros W HW. frame_tac.
  - (* ACancel *)
    apply J_with_call; auto. intros k k' Hn H.
    destruct (k_ctx k) eqn:Ep; try discriminate; destruct (s_ctxc k) eqn:Eq; try discriminate. inversion H; subst k'; clear H.
    split; auto. intros W HW. frame_tac.
  - (* AExpire *)
    apply J_with_call; auto. intros k k' Hn H.
    destruct (k_ctx k) eqn:Ep; try discriminate; destruct (s_ctxc k) eqn:Eq; try discriminate. inversion H; subst k'; clear H.
    split; auto. intros W HW. frame_tac.
  - (* ADeliver *)
    eapply (J_same ls _ s _ []); eauto; try reflexivity; csimpl; try lia. rewrite app_nil_r; auto. apply ext_ok_snoc.
  - eapply (J_same ls _ s _ []); eauto; try reflexivity; csimpl; try lia. rewrite app_nil_r; auto. apply ext_ok_snoc.
  - eapply (J_same ls _ s _ []); eauto; try reflexivity; csimpl; try lia. rewrite app_nil_r; auto. apply ext_ok_snoc.
Qed.

(* every call record is transformed by a function that keeps what callJ looks at *)
Lemma J_map ls ls' s s' (g : call -> call) :
  J ls s -> calls s' = map g (calls s) -> log s' = log s -> counter s' = counter s ->
  (forall k, k_id (g k) = k_id k) ->
  (forall c k W, callJ c k ls W -> callJ c (g k) ls' W) -> J ls' s'.
Proof.
  intros (J1 & J2 & J3) Hc Hl Hco Hid Hg.
  assert (Hwr : wr s' = wr s) by (unfold wr; rewrite Hl; auto).
  split; [|split]; rewrite Hwr, ?Hco, ?Hc; auto.
  - intros e Hin. destruct (J2 _ Hin) as (c & k & Hn & Hi). exists c, (g k). split.
    + rewrite nth_error_map, Hn. reflexivity.
    + rewrite Hid. auto.
  - intros c k' Hn. apply nth_map_inv in Hn. destruct Hn as (k & Hn & ->). rewrite Hid. apply Hg. auto.
Qed.

(* ---------- internal rules ---------- *)
Ltac jN HI HS HJ E k' :=
  eapply (J_updN _ _ _ _ _ _ k' HI HS HJ E); [reflexivity|reflexivity|reflexivity|reflexivity|apply ext_ok_snoc|].
Ltac j0 HI HS HJ E k' evs :=
  eapply (J_upd0 _ _ _ _ _ _ k' evs HI HS HJ E); [reflexivity|reflexivity|reflexivity|reflexivity|apply ext_ok_snoc|reflexivity|].
Ltac jsame HJ evs :=
  eapply (J_same _ _ _ _ evs HJ); [reflexivity | csimpl; rewrite <- ?app_assoc; reflexivity | reflexivity | csimpl; lia | apply ext_ok_snoc].

Ltac getW HJ E :=
  let HW := fresh "HW" in
  pose proof (proj2 (proj2 HJ) _ _ E) as HW.

Lemma kinv_noq k : kinv k -> k_pc k <> POpen -> s_sendq k = [].
Proof.
  intros K Hp. destruct (s_sendq k) eqn:E; auto. exfalso. apply Hp. apply (ki_ops_open _ K).
  unfold ops_pending, send_pending. rewrite E. rewrite !orb_true_r. auto with bool.
Qed.

Ltac frame_loop Hop E0 :=
  match goal with HW : callJ _ ?k0 _ _ |- _ =>
    let A := fresh "KA" in let B := fresh "KB" in let C := fresh "KC" in let D := fresh "KD" in
    let R0 := fresh "R0" in let R1 := fresh "R1" in let R2 := fresh "R2" in let R3 := fresh "R3" in let R4 := fresh "R4" in let R5 := fresh "R5" in
    pose proof HW as (A & B & C & D & R0 & R1 & R2 & R3 & R4 & R5);
    eapply (callJ_frame _ k0); [reflexivity | reflexivity | reflexivity | reflexivity | | | | | | | | | apply ext_ok_snoc | exact HW];
    clear D R0 R1 R2 R3 R5; fsimpl; rewrite ?Hop, ?E0 in *; frame_fin R4;
    try (let Hd := fresh in intros Hd; exfalso;
         match goal with K : kinv _ |- _ => destruct (ki_done_dead _ K Hd) as [X _]; unfold loop_alive in X; rewrite E0 in X; discriminate end)
  end.

Ltac jW HI HS HJ E k' evs :=
  eapply (J_upd _ _ _ _ _ _ k' evs HI HS HJ E); [reflexivity|reflexivity|reflexivity|reflexivity|apply ext_ok_snoc| | ].

Lemma wr_one_id (x : env) i : eid x = i -> 0 < i -> forall e, In e [x] -> eid e = i /\ 0 < i.
Proof. intros H1 H2 e [<-|[]]. auto. Qed.

Ltac jauto HI HS HJ E :=
  match goal with
  | |- J _ (add_log (set_call _ _ ?k') ?evs) => j0 HI HS HJ E k' evs
  | |- J _ (set_call (add_log _ ?evs) _ ?k') => j0 HI HS HJ E k' evs
  | |- J _ (set_call _ _ ?k') => jN HI HS HJ E k'
  end.

Lemma J_int ls s n r s' :
  cinv s -> sinv s -> J ls s -> (no_wfail ls -> wfail s = false) ->
  nth_error (rules s) n = Some r -> r s = Some s' -> J (ls ++ [LInt n]) s'.
Proof.
  intros HI HS HJ Hwf Hr H. apply nth_error_In in Hr. apply rules_in in Hr.
  destruct Hr as [->|[->|(c & _ & Hin)]];
    [ | | simpl in Hin; repeat (destruct Hin as [<-|Hin]); try (exfalso; exact Hin) ].
  - unfold r_rl_unblock in H. open_rule H.
    + jsame HJ [EvDrop c e].
    + getW HJ E0. pose proof (cinv_call _ _ _ HI E0) as K.
      jN HI HS HJ E0 (set_chan c0 {| cbuf := Some e; cclosed := cclosed (k_chan c0) |} (k_reg c0)). frame_tac.
  - unfold r_rl_read in H. open_rule H.
    + eapply (J_map ls _ s _ (fun k => if k_reg k then set_chan k (mkChan (cbuf (k_chan k)) true) false else k) HJ);
        try reflexivity.
      * intros k. destruct (k_reg k); reflexivity.
      * intros c k W HW. destruct (k_reg k) eqn:Er.
        -- frame_tac.
        -- eapply callJ_mono; [apply ext_ok_snoc|]. auto.
    + jsame HJ [EvRead e (Some n0)].
    + getW HJ E2. j0 HI HS HJ E2 (set_chan c {| cbuf := Some e; cclosed := false |} true) [EvRead e (Some n0)]. frame_tac.
    + jsame HJ [EvRead e None; EvUnhandled (eid e)].
  - unfold r_check in H. open_rule H; getW HJ E; pose proof (cinv_call _ _ _ HI E) as K.
    + j0 HI HS HJ E (set_pc c0 PRet) [EvUnaryRet c (UErr EConn)]. pc_tac HW E0.
    + j0 HI HS HJ E (set_pc c0 POpenFailed) [EvOpenRet c (Some EConn)]. pc_tac HW E0.
    + jN HI HS HJ E (set_pc c0 PParked). pc_tac HW E0.
    + eapply (J_alloc ls _ s _ c c0 (set_id (set_pc c0 PReg) (counter s + 1)) HI HJ E); try reflexivity.
      * apply (ki_noid _ K). rewrite E0. reflexivity.
      * apply ext_ok_snoc.
      * pc_tac HW E0.
  - unfold r_reg in H. open_rule H; getW HJ E; pose proof (cinv_call _ _ _ HI E) as K;
      assert (Hpos : 0 < k_id c0) by (apply (ki_id _ K); rewrite E0; reflexivity).
    + j0 HI HS HJ E (set_pc c0 PRet) [EvUnaryRet c (UErr EConn)]. pc_tac HW E0.
    + j0 HI HS HJ E (set_pc c0 POpenFailed) [EvOpenRet c (Some EConn)]. pc_tac HW E0.
    + jN HI HS HJ E (set_pc (set_chan c0 {| cbuf := None; cclosed := false |} true)
         (PUnreg (UErr (if ctx_done (k_ctx c0) then ctx_raw c0 else EWrite)))). pc_tac HW E0.
    + jW HI HS HJ E (set_pc (set_chan c0 {| cbuf := None; cclosed := false |} true) PWait) [EvWrite (req_env (k_id c0) (k_payload c0))].
      * apply wr_one_id; auto.
      * destruct HW as (A & B & C & D & R). rewrite E0 in *. rewrite D. unfold callJ; fsimpl.
        split; [|split; [|split; [|split]]]; auto.
        apply rstJ_closed; csimpl; try discriminate; auto; [rewrite (kinv_dead _ K) by (rewrite E0; discriminate); discriminate | apply (kinv_notdone _ K); rewrite E0; discriminate].
    + jN HI HS HJ E (set_pc (set_chan c0 {| cbuf := None; cclosed := false |} true)
         (POpenUnreg (if ctx_done (k_ctx c0) then ctx_raw c0 else EWrite))). pc_tac HW E0.
    + jW HI HS HJ E (set_loop (set_pc (set_chan c0 {| cbuf := None; cclosed := false |} true) POpen) LRead)
         [EvWrite (open_env (k_id c0)); EvOpenRet c None].
      * apply wr_one_id; auto.
      * destruct HW as (A & B & C & D & R). rewrite E0 in *. rewrite D. unfold callJ; fsimpl.
        split; [|split; [|split; [|split]]]; auto.
        -- intros Ha Hok. exists 0%nat, 0%nat. unfold pend_close. csimpl.
           rewrite (kinv_noq _ K) by congruence. simpl. repeat split; auto; try lia; try discriminate.
           apply sshape_open.
        -- apply rstJ_zero; csimpl; auto; try discriminate. apply (kinv_notdone _ K); rewrite E0; discriminate.
  - unfold r_wait in H. open_rule H; getW HJ E; pose proof (cinv_call _ _ _ HI E) as K.
    + j0 HI HS HJ E (set_pc (set_chan c0 {| cbuf := None; cclosed := cclosed (k_chan c0) |} (k_reg c0)) (PUnreg (classify e))) [EvTake c e].
      pc_tac HW E0.
    + jN HI HS HJ E (set_pc c0 (PUnreg (UErr EClosed))). pc_tac HW E0.
  - unfold r_wait_ctx in H. open_rule H; getW HJ E; pose proof (cinv_call _ _ _ HI E) as K.
    jN HI HS HJ E (set_pc c0 (PUnreg (UErr (ctx_raw c0)))). pc_tac HW E0.
  - unfold r_unreg in H. open_rule H; getW HJ E; pose proof (cinv_call _ _ _ HI E) as K; destruct (k_reg c0) eqn:Er.
    + j0 HI HS HJ E (set_pc (set_chan c0 {| cbuf := cbuf (k_chan c0); cclosed := true |} false) PRet) [EvUnaryRet c r]. pc_tac HW E0.
    + j0 HI HS HJ E (set_pc c0 PRet) [EvUnaryRet c r]. pc_tac HW E0.
    + j0 HI HS HJ E (set_pc (set_chan c0 {| cbuf := cbuf (k_chan c0); cclosed := true |} false) POpenFailed) [EvOpenRet c (Some e)]. pc_tac HW E0.
    + j0 HI HS HJ E (set_pc c0 POpenFailed) [EvOpenRet c (Some e)]. pc_tac HW E0.
  - unfold r_loop_read in H. open_rule H; getW HJ E; pose proof (cinv_call _ _ _ HI E) as K;
      assert (Hop : k_pc c0 = POpen) by (apply (ki_loop_open _ K); unfold loop_alive; rewrite E0; reflexivity).
    + j0 HI HS HJ E (loop_exit (set_latch (set_chan c0 {| cbuf := None; cclosed := cclosed (k_chan c0) |} (k_reg c0)) (inr EBadMd)) (Some EBadMd) false None true) [EvTake c e].
      frame_loop Hop E0.
    + j0 HI HS HJ E (loop_exit (set_latch (set_chan c0 {| cbuf := None; cclosed := cclosed (k_chan c0) |} (k_reg c0))
            (inl match ehdr e with Some m => m | None => MdOk 0 end)) (Some c1)
            match etrl e with Some _ => true | None => false end (etrl e) false) [EvTake c e].
      frame_loop Hop E0. intros _ Hc. rewrite (final_not_ctx _ _ E3) in Hc. discriminate.
    + j0 HI HS HJ E (set_loop (set_latch (set_chan c0 {| cbuf := None; cclosed := cclosed (k_chan c0) |} (k_reg c0))
            (inl match ehdr e with Some m => m | None => MdOk 0 end)) (LHand z)) [EvTake c e].
      frame_loop Hop E0.
    + j0 HI HS HJ E (set_latch (set_chan c0 {| cbuf := None; cclosed := cclosed (k_chan c0) |} (k_reg c0))
            (inl match ehdr e with Some m => m | None => MdOk 0 end)) [EvTake c e].
      frame_loop Hop E0.
    + jN HI HS HJ E (loop_exit (set_latch c0 (inr (closed_err s c0))) (Some (closed_err s c0)) false None false).
      frame_loop Hop E0. intros _ Hc. unfold closed_err, sctx_done in Hc.
      destruct (s_ctxc c0 || ctx_done (k_ctx c0)) eqn:Ec; [reflexivity|]. destruct (rerr s); discriminate.
  - unfold r_loop_read_ctx in H. open_rule H; getW HJ E; pose proof (cinv_call _ _ _ HI E) as K;
      assert (Hop : k_pc c0 = POpen) by (apply (ki_loop_open _ K); unfold loop_alive; rewrite E0; reflexivity).
    jauto HI HS HJ E. frame_loop Hop E0.
  - unfold r_loop_hand in H. open_rule H; getW HJ E; pose proof (cinv_call _ _ _ HI E) as K;
      assert (Hop : k_pc c0 = POpen) by (apply (ki_loop_open _ K); unfold loop_alive; rewrite E0; reflexivity).
    jauto HI HS HJ E. frame_loop Hop E0.
  - unfold r_loop_hand_ctx in H. open_rule H; getW HJ E; pose proof (cinv_call _ _ _ HI E) as K;
      assert (Hop : k_pc c0 = POpen) by (apply (ki_loop_open _ K); unfold loop_alive; rewrite E0; reflexivity).
    jauto HI HS HJ E. frame_loop Hop E0.
  - unfold r_loop_exit in H. open_rule H; getW HJ E; pose proof (cinv_call _ _ _ HI E) as K;
      assert (Hop : k_pc c0 = POpen) by (apply (ki_loop_open _ K); unfold loop_alive; rewrite E0; reflexivity).
    + assert (Hpos : 0 < k_id c0) by (apply (ki_id _ K); rewrite Hop; reflexivity).
      match goal with |- J _ (add_log (set_call _ _ ?k') ?evs) => jW HI HS HJ E k' evs end.
      * apply wr_one_id; auto.
      * destruct HW as (A & B & C & D & R0 & R1 & R2 & R3 & R4 & R5). rewrite Hop in *.
        assert (Hn0 : nrst (projE (k_id c0) (wr s)) = 0%nat).
        { destruct (nrst (projE (k_id c0) (wr s))) as [|[|m]]; auto; try lia. destruct (R2 eq_refl) as [X _]. rewrite E0 in X. discriminate. }
        rewrite !andb_true_iff, negb_true_iff in E1. destruct E1 as [[Et Ec] Ew].
        unfold callJ. fsimpl. rewrite ?Hop. split; [|split; [|split; [|split]]]; auto; try discriminate.
        -- intros Ha Hok. destruct (D Ha (api_ok_prefix _ _ Hok)) as (nC & nR & S & A1 & B1 & C1 & D1).
           assert (nR = 0%nat). { destruct nR; auto. destruct nR; try lia. destruct (D1 eq_refl) as [X _]. rewrite E0 in X. discriminate. }
           subst nR. exists nC, 1%nat. unfold streamJ, pend_close in *. csimpl. repeat split; auto; try (rewrite closes_app; lia).
           ++ apply sshape_rst; auto.
           ++ rewrite Ha, orb_false_l in Ec. exact Ec.
        -- unfold rstJ. csimpl. rewrite nrst_app, Hn0. change (nrst (wr_of [EvWrite (rst_env (k_id c0))])) with 1%nat. simpl. unfold sctx_done. csimpl.
           split; [congruence|split; [lia|split; [|split; [|split]]]]; auto; try discriminate.
           intros _. split; [reflexivity|split; [auto|]]. apply orb_true_iff in Ec. tauto.
    + match goal with |- J _ (set_call _ _ ?k') => jN HI HS HJ E k' end.
      destruct HW as (A & B & C & D & R0 & R1 & R2 & R3 & R4 & R5). rewrite Hop in *.
      assert (Hn0 : nrst (projE (k_id c0) (wr s)) = 0%nat).
      { destruct (nrst (projE (k_id c0) (wr s))) as [|[|m]]; auto; try lia. destruct (R2 eq_refl) as [X _]. rewrite E0 in X. discriminate. }
      unfold callJ. fsimpl. rewrite ?Hop. split; [|split; [|split; [|split]]]; auto; try discriminate.
      * intros Ha Hok. destruct (D Ha (api_ok_prefix _ _ Hok)) as (nC & nR & S & A1 & B1 & C1 & D1).
        assert (nR = 0%nat). { destruct nR; auto. destruct nR; try lia. destruct (D1 eq_refl) as [X _]. rewrite E0 in X. discriminate. }
        subst nR. exists nC, 0%nat. unfold streamJ, pend_close in *. csimpl. repeat split; auto; try (rewrite closes_app; lia); try discriminate.
      * unfold rstJ. csimpl. rewrite Hn0. split; [auto|split; [lia|split; [discriminate|split; [|split; [discriminate|auto]]]]].
        intros _ _ Hnw Ht Hc. exfalso.
        assert (Hw0 : wfail s = false) by (apply Hwf; intros x Hx; apply Hnw; apply in_or_app; auto).
        assert (Hsd : l_abort c0 || sctx_done c0 = true).
        { unfold sctx_done in *. destruct Hc as [Hc|Hc]; [rewrite Hc; reflexivity|]. rewrite (R4 E0 Hc). apply orb_true_r. }
        unfold sctx_done in *. rewrite Ht, Hsd, Hw0 in E1. simpl in E1. discriminate.
  - unfold r_loop_unreg in H. open_rule H; getW HJ E; pose proof (cinv_call _ _ _ HI E) as K;
      assert (Hop : k_pc c0 = POpen) by (apply (ki_loop_open _ K); unfold loop_alive; rewrite E0; reflexivity).
    jauto HI HS HJ E. frame_loop Hop E0.
  - unfold r_recv in H. open_rule H; getW HJ E; jauto HI HS HJ E; frame_tac.
  - unfold r_header in H. open_rule H; getW HJ E; jauto HI HS HJ E; frame_tac.
  - unfold r_trailer in H. open_rule H; getW HJ E; jauto HI HS HJ E; frame_tac.
  - unfold r_send in H. open_rule H; getW HJ E; pose proof (cinv_call _ _ _ HI E) as K;
      assert (Hop : k_pc c0 = POpen) by (apply (ki_ops_open _ K); unfold ops_pending, send_pending; rewrite E0; rewrite !orb_true_r; auto with bool);
      assert (Hpos : 0 < k_id c0) by (apply (ki_id _ K); rewrite Hop; reflexivity);
      destruct HW as (A & B & C & D & R); rewrite Hop, E0 in *;
      assert (l = []) by (destruct l; auto; simpl in A; lia); subst l;
      assert (Hcl2 : closes c (ls ++ [LInt n]) = closes c ls) by (rewrite closes_app; unfold closes at 2; simpl; lia);
      assert (HNW : no_wfail (ls ++ [LInt n]) -> no_wfail ls) by (apply (ext_ok_snoc ls)).
    + (* the stream is done *)
      jauto HI HS HJ E. unfold callJ. fsimpl. rewrite ?Hop. split; [simpl; lia|split; [auto|split; [auto|split]]].
      * intros Ha Hok. destruct (D Ha (api_ok_prefix _ _ Hok)) as (nC & nR & S & A1 & B1 & C1 & D1). exists nC, nR. unfold pend_close in *. rewrite E0 in *. csimpl.
        repeat split; auto; try lia; try (apply D1; auto); try (intros; discriminate).
      * eapply (rstJ_frame c0 _ ls); [csimpl; congruence|reflexivity|reflexivity|reflexivity|reflexivity|auto|exact HNW|csimpl; congruence|reflexivity|exact R].
    + (* the write fails *)
      jauto HI HS HJ E. unfold callJ. fsimpl. rewrite ?Hop. split; [simpl; lia|split; [auto|split; [auto|split]]].
      * intros Ha Hok. destruct (D Ha (api_ok_prefix _ _ Hok)) as (nC & nR & S & A1 & B1 & C1 & D1). exists nC, nR. unfold pend_close in *. rewrite E0 in *. csimpl.
        repeat split; auto; try lia; try (apply D1; auto); try (intros; discriminate).
      * eapply (rstJ_frame c0 _ ls); [csimpl; congruence|reflexivity|reflexivity|reflexivity|reflexivity| |exact HNW|csimpl; congruence|reflexivity|exact R].
        unfold sctx_done. csimpl. auto.
    + (* a body is written *)
      match goal with |- J _ (add_log (set_call _ _ ?k') ?evs) => jW HI HS HJ E k' evs end.
      * apply wr_one_id; auto.
      * apply orb_false_iff in E4. destruct E4 as [E4 _]. apply orb_false_iff in E4. destruct E4 as [_ E4].
        unfold callJ. fsimpl. rewrite ?Hop. split; [simpl; lia|split; [auto|split; [auto|split]]].
        -- intros Ha Hok. destruct (D Ha (api_ok_prefix _ _ Hok)) as (nC & nR & S & A1 & B1 & C1 & D1).
           assert (nC = 0%nat) by (eapply B1; eauto). subst nC.
           assert (nR = 0%nat). { destruct nR; auto. destruct nR; try lia. destruct (D1 eq_refl) as [_ X]. unfold sctx_done in X. congruence. }
           subst nR. exists 0%nat, 0%nat. unfold pend_close in *. rewrite E0 in *. csimpl.
           repeat split; auto; try lia; try discriminate. apply sshape_body; auto.
        -- destruct R as (R0 & R1 & R2 & R3 & R4 & R5). unfold rstJ. csimpl. rewrite nrst_app.
           change (nrst (wr_of [EvWrite (body_env (k_id c0) z); EvSendRet c None])) with 0%nat. rewrite Nat.add_0_r. rewrite ?Hop.
           split; [auto|split; [auto|split; [|split; [|split]]]]; auto;
           try (intros Hr Hp Hnw; apply R3; auto).
    + (* CloseSend fails *)
      jauto HI HS HJ E. unfold callJ. fsimpl. rewrite ?Hop. split; [simpl; lia|split; [auto|split; [auto|split]]].
      * intros Ha Hok. destruct (D Ha (api_ok_prefix _ _ Hok)) as (nC & nR & S & A1 & B1 & C1 & D1). exists nC, nR. unfold pend_close in *. rewrite E0 in *. csimpl.
        repeat split; auto; try lia; try (apply D1; auto); try (intros; discriminate).
      * eapply (rstJ_frame c0 _ ls); [csimpl; congruence|reflexivity|reflexivity|reflexivity|reflexivity|auto|exact HNW|csimpl; congruence|reflexivity|exact R].
    + (* the trailer is written *)
      match goal with |- J _ (add_log (set_call _ _ ?k') ?evs) => jW HI HS HJ E k' evs end.
      * apply wr_one_id; auto.
      * apply orb_false_iff in E2. destruct E2 as [E2 _].
        unfold callJ. fsimpl. rewrite ?Hop. split; [simpl; lia|split; [auto|split; [auto|split]]].
        -- intros Ha Hok. destruct (D Ha (api_ok_prefix _ _ Hok)) as (nC & nR & S & A1 & B1 & C1 & D1). unfold pend_close in *. rewrite E0 in *.
           assert (Hcl : (closes c (ls ++ [LInt n]) <= 1)%nat) by (apply Hok).
           assert (nC = 0%nat) by lia. subst nC.
           assert (nR = 0%nat). { destruct nR; auto. destruct nR; try lia. destruct (D1 eq_refl) as [_ X]. unfold sctx_done in X. congruence. }
           subst nR. exists 1%nat, 0%nat. unfold pend_close. csimpl.
           repeat split; auto; try lia; try discriminate. apply sshape_close; auto.
        -- destruct R as (R0 & R1 & R2 & R3 & R4 & R5). unfold rstJ. csimpl. rewrite nrst_app.
           change (nrst (wr_of [EvWrite (close_env (k_id c0)); EvCloseSendRet c None])) with 0%nat. rewrite Nat.add_0_r. rewrite ?Hop.
           split; [auto|split; [auto|split; [|split; [|split]]]]; auto;
           try (intros Hr Hp Hnw; apply R3; auto).
Qed.

(* ---------- all runs ---------- *)
Lemma lrun_snoc_inv s ls l s2 : lrun s (ls ++ [l]) = Some s2 -> exists s1, lrun s ls = Some s1 /\ lstep s1 l = Some s2.
Proof.
  revert s. induction ls; simpl; intros s H.
  - destruct (lstep s l) eqn:E; try discriminate. inversion H; subst. eauto.
  - destruct (lstep s a) eqn:E; try discriminate. apply IHls in H. destruct H as (s1 & H1 & H2). eauto.
Qed.

Lemma wfail_with_call s c f : wfail (with_call s c f) = wfail s.
Proof. unfold with_call. destruct (nth_error (calls s) c) as [k|]; [destruct (f k)|]; reflexivity. Qed.

(* writes never fail unless the environment switches the failure on *)
Lemma wfail_reach ls : forall s, lrun init ls = Some s -> no_wfail ls -> wfail s = false.
Proof.
  induction ls using rev_ind; intros s H Hnw.
  - simpl in H. inversion H; subst. reflexivity.
  - apply lrun_snoc_inv in H. destruct H as (s1 & H1 & H2).
    assert (Hnw1 : no_wfail ls) by (intros y Hy; apply Hnw; apply in_or_app; auto).
    pose proof (IHls _ H1 Hnw1) as Hw.
    destruct x as [a|n]; simpl in H2.
    + inversion H2; subst. destruct a; simpl; rewrite ?wfail_with_call; auto.
      * repeat match goal with |- context [match ?x with _ => _ end] => destruct x end; auto.
      * destruct b; auto. specialize (Hnw (LExt (ASetWriteFail true))). simpl in Hnw.
        assert (true = false) by (apply Hnw; apply in_or_app; right; left; auto). discriminate.
    + destruct (nth_error (rules s1) n) eqn:E; try discriminate. apply nth_error_In in E. apply rules_in in E.
      destruct E as [->|[->|(c & _ & Hin)]];
        [ | | simpl in Hin; repeat (destruct Hin as [<-|Hin]); try (exfalso; exact Hin) ].
      all: match type of H2 with ?r _ _ = Some _ => unfold r in H2 | ?r _ = Some _ => unfold r in H2 end; open_rule H2; csimpl; auto.
Qed.

Lemma J_reach ls : forall s, lrun init ls = Some s -> J ls s.
Proof.
  induction ls using rev_ind; intros s H.
  - simpl in H. inversion H; subst. apply J_init.
  - apply lrun_snoc_inv in H. destruct H as (s1 & H1 & H2).
    pose proof (inv_reach _ _ H1) as [HI HS]. pose proof (IHls _ H1) as HJ.
    destruct x as [a|n]; simpl in H2.
    + inversion H2; subst. apply J_ext; auto.
    + destruct (nth_error (rules s1) n) eqn:E; try discriminate. eapply J_int; eauto.
      intros Hnw. eapply wfail_reach; eauto.
Qed.

(* ---------- from the shapes to the automaton ---------- *)
Definition lift (rt : Z -> Z * Z * Z) (e : env) : penv :=
  let '(m, sr, ds) := rt (eid e) in
  mkP (eid e)
      (match ehdr e with
       | Some (MdOk t) => Some (mkHd m sr ds t)
       | Some MdBad => Some (mkHd m sr ds (-1))
       | None => None
       end)
      (match estatus e with Some st => Some (st_code st) | None => None end)
      (ebody e)
      (match etrl e with Some (MdOk t) => Some t | Some MdBad => Some (-1) | None => None end)
      (erst e).

Lemma proj_lift rt i l : proj i (map (lift rt) l) = map (lift rt) (projE i l).
Proof.
  induction l; simpl; auto.
  assert (p_id (lift rt a) = eid a) by (unfold lift; destruct (rt (eid a)) as [[? ?] ?]; reflexivity).
  rewrite H. destruct (eid a =? i); simpl; rewrite IHl; auto.
Qed.

Lemma same_route_lift rt a b : eid a = eid b -> ehdr a <> None -> ehdr b <> None -> same_route (lift rt a) (lift rt b) = true.
Proof.
  intros Hid Ha Hb. unfold same_route, lift. rewrite Hid. destruct (rt (eid b)) as [[m sr] ds]. simpl.
  rewrite Z.eqb_refl. destruct (ehdr a) as [[?|]|]; try congruence; destruct (ehdr b) as [[?|]|]; try congruence; simpl;
  rewrite !Z.eqb_refl; reflexivity.
Qed.

Lemma c2s_tail rt id nC nR : (nC <= 1)%nat -> (nR <= 1)%nat ->
  forall bs, c2s_stream CSOpen (map (lift rt) (map (body_env id) bs ++ repeat (close_env id) nC ++ repeat (rst_env id) nR)) = true.
Proof.
  intros HC HR. induction bs; simpl.
  - destruct nC as [|[|]]; try lia; destruct nR as [|[|]]; try lia; simpl; unfold lift; simpl; destruct (rt id) as [[? ?] ?]; reflexivity.
  - unfold lift at 1. simpl. destruct (rt id) as [[? ?] ?]. simpl. exact IHbs.
Qed.

Lemma sshape_proto rt id W nC nR : sshape id W nC nR -> (nC <= 1)%nat -> (nR <= 1)%nat -> proto_c2s (map (lift rt) W) = true.
Proof.
  intros [bs ->] HC HR. unfold proto_c2s. apply andb_true_iff. split.
  - simpl. apply andb_true_iff. split.
    + unfold lift. simpl. destruct (rt id) as [[? ?] ?]. reflexivity.
    + apply forallb_forall. intros x Hin. apply in_map_iff in Hin. destruct Hin as (e & <- & Hin).
      apply same_route_lift; try (simpl; congruence).
      * apply in_app_or in Hin. destruct Hin as [Hin|Hin].
        -- apply in_map_iff in Hin. destruct Hin as (b & <- & _). reflexivity.
        -- apply in_app_or in Hin. destruct Hin as [Hin|Hin]; apply repeat_spec in Hin; subst; reflexivity.
      * apply in_app_or in Hin. destruct Hin as [Hin|Hin].
        -- apply in_map_iff in Hin. destruct Hin as (b & <- & _). simpl; congruence.
        -- apply in_app_or in Hin. destruct Hin as [Hin|Hin]; apply repeat_spec in Hin; subst; simpl; congruence.
  - pose proof (c2s_tail rt id nC nR HC HR bs) as T.
    assert (Hb : is_body (lift rt (open_env id)) = false) by (unfold lift; simpl; destruct (rt id) as [[? ?] ?]; reflexivity).
    assert (Ho : is_open (lift rt (open_env id)) = true) by (unfold lift; simpl; destruct (rt id) as [[? ?] ?]; reflexivity).
    cbn [map]. rewrite Hb, Ho. exact T.
Qed.

Lemma req_proto rt id p : proto_c2s (map (lift rt) [req_env id p]) = true.
Proof. unfold proto_c2s, lift. simpl. destruct (rt id) as [[? ?] ?]. reflexivity. Qed.

(* C06, client half *)
Theorem C06_client_l ls s rt i :
  lrun init ls = Some s -> api_ok ls ->
  (forall c k, nth_error (calls s) c = Some k -> k_id k = i -> l_abort k = false) ->
  proto_c2s (proj i (map (lift rt) (wr s))) = true.
Proof.
  intros H Hapi Hab. pose proof (J_reach _ _ H) as (J1 & J2 & J3). rewrite proj_lift.
  destruct (projE i (wr s)) eqn:EW; [reflexivity|].
  assert (Hin : In e (projE i (wr s))) by (rewrite EW; left; auto).
  apply projE_in in Hin. destruct Hin as [Hin Hid]. destruct (J2 _ Hin) as (c & k & Hn & Hk).
  rewrite <- EW. clear EW. rewrite Hid in Hk. clear Hid. subst i.
  destruct (J3 _ _ Hn) as (A & B & C & D & R).
  destruct (k_pc k); try (rewrite D; reflexivity); try (destruct D as [D|D]; rewrite D; try reflexivity; apply req_proto).
  - rewrite D. apply req_proto.
  - destruct (D (Hab _ _ Hn eq_refl) Hapi) as (nC & nR & S & A1 & B1 & C1 & D1).
    eapply sshape_proto; eauto. destruct (Hapi c) as [Hle _]. lia.
Qed.

(* ---------- C07: the reset envelope ---------- *)
Definition rsts (i : Z) (s : state) : nat := nrst (projE i (wr s)).

(* never two resets for one stream; a reset is written only by a stream whose loop has ended without having
   received a trailer, because of an abort or because its context is done *)
Lemma C07_reset_once_l ls s c k :
  lrun init ls = Some s -> nth_error (calls s) c = Some k ->
  (rsts (k_id k) s <= 1)%nat /\
  (rsts (k_id k) s = 1%nat -> k_pc k = POpen /\ rst_loop (s_loop k) = true /\ l_hastrl k = false /\ (l_abort k = true \/ sctx_done k = true)).
Proof.
  intros H Hn. destruct (J_reach _ _ H) as (J1 & J2 & J3). destruct (J3 _ _ Hn) as (A & B & C & D & R0 & R1 & R2 & R3 & R4).
  unfold rsts. split; auto. intros H1. destruct (R2 H1) as (X1 & X2 & X3). repeat split; auto.
  destruct (k_pc k) eqn:Ep; auto; exfalso; assert (Hne : k_pc k <> POpen) by congruence; rewrite Ep in *; specialize (R0 ltac:(discriminate)); lia.
Qed.

(* every reset on the wire belongs to such a stream: none for any other id *)
Lemma C07_reset_owner_l ls s e :
  lrun init ls = Some s -> In e (wr s) -> erst e = true ->
  exists c k, nth_error (calls s) c = Some k /\ k_id k = eid e /\ k_pc k = POpen /\ rst_loop (s_loop k) = true /\
              l_hastrl k = false /\ (l_abort k = true \/ sctx_done k = true).
Proof.
  intros H Hin He. pose proof (J_reach _ _ H) as (J1 & J2 & J3). destruct (J2 _ Hin) as (c & k & Hn & Hk).
  exists c, k. split; auto. split; auto.
  destruct (C07_reset_once_l _ _ _ _ H Hn) as [Hle H1]. apply H1. unfold rsts.
  assert (Hi : In e (filter erst (projE (k_id k) (wr s)))).
  { apply filter_In. split; auto. unfold projE. apply filter_In. split; auto. lia. }
  unfold rsts, nrst in *. destruct (filter erst (projE (k_id k) (wr s))) as [|x [|y t]]; simpl in *; try tauto; lia.
Qed.

(* the reset IS written: once the loop of a stream has ended because of its context (its terminal error is the
   Canceled / DeadlineExceeded status) or by an abort, without a trailer, exactly one reset for its id is on the
   wire - provided the environment never made writes fail *)
Lemma C07_reset_sent_l ls s c k :
  lrun init ls = Some s -> no_wfail ls -> nth_error (calls s) c = Some k ->
  k_pc k = POpen -> rst_loop (s_loop k) = true -> l_hastrl k = false ->
  (l_abort k = true \/ is_ctx_err (l_rerr k) = true) -> rsts (k_id k) s = 1%nat.
Proof.
  intros H Hnw Hn Hp Hl Ht Hc. destruct (J_reach _ _ H) as (J1 & J2 & J3).
  destruct (J3 _ _ Hn) as (A & B & C & D & R0 & R1 & R2 & R3 & R4). apply R3; auto.
Qed.

(* once the stream is done its published terminal error is the error its loop ended with *)
Lemma C07_rerr_l ls s c k :
  lrun init ls = Some s -> nth_error (calls s) c = Some k -> s_done k = true -> s_rerr k = l_rerr k.
Proof.
  intros H Hn Hd. destruct (J_reach _ _ H) as (J1 & J2 & J3).
  destruct (J3 _ _ Hn) as (A & B & C & D & R0 & R1 & R2 & R3 & R4 & R5). auto.
Qed.

(* ---------- a decidable form of the users' conformance (for concrete runs) ---------- *)
Definition is_send (c : nat) (l : label) : bool :=
  match l with LExt (ASend d _) => Nat.eqb c d | _ => false end.

Fixpoint scan (c : nat) (closed : bool) (ls : list label) : bool :=
  match ls with
  | [] => true
  | l :: t => if is_close c l then negb closed && scan c true t
              else if is_send c l then negb closed && scan c closed t
              else scan c closed t
  end.

Lemma scan_closed c ls : scan c true ls = true ->
  closes c ls = 0%nat /\ forall ls1 b ls2, ls <> ls1 ++ LExt (ASend c b) :: ls2.
Proof.
  induction ls as [|l t IH]; simpl; intros H.
  - split; auto. intros ls1 b ls2 E. destruct ls1; discriminate.
  - destruct (is_close c l) eqn:Ec; [discriminate|]. destruct (is_send c l) eqn:Es; [discriminate|].
    destruct (IH H) as [H1 H2]. split.
    + unfold closes in *. simpl. rewrite Ec. auto.
    + intros ls1 b ls2 E. destruct ls1; simpl in E; inversion E; subst.
      * simpl in Es. rewrite Nat.eqb_refl in Es. discriminate.
      * eapply H2; eauto.
Qed.

Lemma scan_sound c ls : scan c false ls = true ->
  (closes c ls <= 1)%nat /\ forall ls1 b ls2, ls = ls1 ++ LExt (ASend c b) :: ls2 -> closes c ls1 = 0%nat.
Proof.
  induction ls as [|l t IH]; simpl; intros H.
  - split; auto. intros ls1 b ls2 E. destruct ls1; discriminate.
  - destruct (is_close c l) eqn:Ec.
    + simpl in H. destruct (scan_closed _ _ H) as [H1 H2]. split.
      * unfold closes in *. simpl. rewrite Ec. simpl. lia.
      * intros ls1 b ls2 E. destruct ls1; simpl in E; inversion E; subst.
        -- simpl in Ec. discriminate.
        -- exfalso. eapply H2; eauto.
    + assert (Ht : scan c false t = true) by (destruct (is_send c l); simpl in H; auto).
      destruct (IH Ht) as [H1 H2]. split.
      * unfold closes in *. simpl. rewrite Ec. auto.
      * intros ls1 b ls2 E. destruct ls1; simpl in E; inversion E; subst; auto.
        unfold closes. simpl. rewrite Ec. apply (H2 _ _ _ eq_refl).
Qed.

Definition label_call (l : label) : list nat :=
  match l with LExt (ASend c _) | LExt (ACloseSend c) => [c] | _ => [] end.

Lemma scan_unmentioned c ls cl : ~ In c (flat_map label_call ls) -> scan c cl ls = true.
Proof.
  revert cl. induction ls as [|l t IH]; simpl; intros cl H; auto.
  assert (Hc : is_close c l = false).
  { destruct l as [[]|]; simpl; auto. destruct (Nat.eqb_spec c c0); auto. subst. exfalso. apply H. simpl. auto. }
  assert (Hs : is_send c l = false).
  { destruct l as [[]|]; simpl; auto. destruct (Nat.eqb_spec c c0); auto. subst. exfalso. apply H. simpl. auto. }
  rewrite Hc, Hs. apply IH. intros Hin. apply H. apply in_or_app. auto.
Qed.

Definition api_okb (ls : list label) : bool := forallb (fun c => scan c false ls) (flat_map label_call ls).

Lemma api_okb_sound ls : api_okb ls = true -> api_ok ls.
Proof.
  intros H c. apply scan_sound. destruct (in_dec Nat.eq_dec c (flat_map label_call ls)) as [Hin|Hn].
  - unfold api_okb in H. rewrite forallb_forall in H. auto.
  - apply scan_unmentioned; auto.
Qed.

(* C06_server, unary half: assembly over sv's Proofs/ServerUnary.v (shape and count of the unary responses taken by the
   writer), Proofs/ServerRoute.v (the unary envelopes read are, in order, the jobs handed to workers), Proofs/ServerWriter.v
   (written is a subsequence of taken) and Proofs/ServerOrigin.v (a written envelope echoes the method of a read one). *)
From Coq Require Import List ZArith Bool Lia Arith.
Import ListNotations.
From Goat Require Import Model.Client Model.Protocol Model.Server Proofs.ServerProofs Proofs.ServerInv Proofs.ServerTrace
  Proofs.ServerOrigin Proofs.ServerWriter Proofs.ServerProto Proofs.ServerRoute Proofs.ServerUnary.
Open Scope Z_scope.

Lemma Sub_length {A} (a b : list A) : Sub a b -> (length a <= length b)%nat.
Proof. intros H. induction H; simpl; lia. Qed.

Lemma filter_through {A} (p q : A -> bool) l :
  (forall x, In x l -> p x = true -> q x = true) -> filter p l = filter p (filter q l).
Proof.
  induction l as [|x l IH]; intros H; simpl; [reflexivity|].
  destruct (p x) eqn:Px.
  - rewrite (H x (or_introl eq_refl) Px). simpl. rewrite Px. f_equal. apply IH. intros y Hy. apply H. right; auto.
  - destruct (q x); simpl; rewrite ?Px; apply IH; intros y Hy; apply H; right; auto.
Qed.

Lemma dispatch_unary_mth g : is_unary_req g = true -> exists m, f_mth g = MUnary m.
Proof.
  unfold is_unary_req, dispatch. destruct (ehdr (f_env g)); [|discriminate].
  destruct (f_mth g) eqn:E; try discriminate; eauto.
  all: destruct (f_dst g =? srv_name); discriminate.
Qed.

(* the peer's side for id i: every envelope read with id i is a unary-method request, and there is at most one *)
Definition uconf (i : Z) (l : list sev) : Prop :=
  (forall g, In (SvRead g) l -> fid g = i -> is_unary_req g = true) /\ (cnt i (ureads l) <= 1)%nat.

(* then on the wire: at most ONE envelope of id i, and it has a header and a trailer and is no reset *)
Theorem C06_server_unary_l nw ls s i :
  lrun (init_n nw) ls = Some s -> uconf i (log s) ->
  (length (idf i (written (log s))) <= 1)%nat /\
  forall f, In f (idf i (written (log s))) -> ushape f = true /\ umth f = true.
Proof.
  intros H [U1 U2].
  assert (Um : forall f, In f (written (log s)) -> (fid f =? i) = true -> umth f = true).
  { intros f Hf Hi. apply in_written in Hf. destruct (C06_server_origin_l _ _ _ _ H Hf) as (g & Hg & A1 & _ & _ & A4).
    apply Z.eqb_eq in Hi. destruct (dispatch_unary_mth g (U1 g Hg ltac:(congruence))) as [m Em].
    unfold umth. rewrite A4, Em. reflexivity. }
  split.
  - unfold idf. rewrite (filter_through _ umth _ Um).
    assert (S1 : Sub (filter umth (written (log s))) (utaken (log s))).
    { unfold utaken. apply Sub_filter. apply subseq_Sub. eapply srv_written_order; eauto. }
    apply (Sub_filter (fun f => fid f =? i)) in S1. apply Sub_length in S1.
    pose proof (srv_unary_at_most_once nw ls s i H) as C1.
    destruct (srv_unary_once nw ls s H) as (tail & E & _).
    assert (C2 : (cnt i (ServerUnary.jobs (log s)) <= cnt i (ureads (log s)))%nat).
    { unfold cnt. rewrite E. change (ServerUnary.jobs (log s)) with (ServerRoute.jobs (log s)).
      rewrite !filter_app, !app_length. lia. }
    unfold cnt in *. lia.
  - intros f Hf. unfold idf in Hf. apply filter_In in Hf. destruct Hf as [Hf Hi].
    pose proof (Um f Hf Hi) as Hu. split; auto.
    apply in_written in Hf. eapply srv_unary_resp_shape; eauto. eapply srv_written_taken; eauto.
Qed.
Print Assumptions C06_server_unary_l.

(* The server stream object under transport-write failures, and the unary
   collector's programs (C04: closes the gaps "no theorem mentions urun" and "the
   wok = false branches of sstep are reached by no theorem"). *)
From Coq Require Import List Bool.
Import ListNotations.
From Goat Require Import Model.SrvStream Proofs.SrvStreamProofs.

Section Faults.
  Context {MD P ST : Type}.
  Notation sstate := (sstate MD).
  Notation sop := (sop MD P ST).
  Notation wenv := (wenv MD P ST).

  Definition has_hdr (e : wenv) : bool := match hdr_md e with Some _ => true | None => false end.

  (* once the headers are marked sent - by a successful OR a failed write - no
     envelope carries header metadata and no header map is retained any more *)
  Lemma hsent_nothing (s : sstate) (w : list (sop * bool)) :
    hsent s = true -> filter has_hdr (sdelivered s w) = [] /\ retained_hdrs s w = [].
  Proof.
    revert s. induction w as [|[o wok] w IH]; intros s Hs; [split; reflexivity|].
    cbn [sdelivered retained_hdrs].
    destruct o as [md|md|md|p|p|st]; cbn [sstep]; rewrite ?Hs; cbn [fst snd app filter].
    - apply IH; first [exact Hs|reflexivity|cbn; exact Hs].
    - apply IH; first [exact Hs|reflexivity|cbn; exact Hs].
    - destruct (tsent s); cbn [fst snd]; apply IH; first [exact Hs|reflexivity|cbn; exact Hs].
    - destruct (IH (mkS (hdrs s) true (trls s) (tsent s)) eq_refl) as [H1 H2].
      destruct wok; cbn [app filter has_hdr hdr_md]; split; assumption.
    - apply IH; first [exact Hs|reflexivity|cbn; exact Hs].
    - destruct (tsent s); cbn [fst snd app filter].
      + apply IH; first [exact Hs|reflexivity|cbn; exact Hs].
      + destruct (IH (mkS (hdrs s) true (trls s) true) eq_refl) as [H1 H2].
        destruct wok; cbn [app filter has_hdr hdr_md]; split; assumption.
  Qed.

  (* For EVERY program and EVERY pattern of write failures: at most one envelope
     that reaches the peer carries header metadata, and it carries exactly the maps
     the object retained (SetHeader arguments and the arguments of SendHeader calls
     that were not refused - a SendHeader whose write failed is retried by the next
     flush), in order. *)
  Theorem faults_headers (s : sstate) (w : list (sop * bool)) :
    hsent s = false ->
    match filter has_hdr (sdelivered s w) with
    | [] => True
    | e :: rest => rest = [] /\ hdr_md e = Some (hdrs s ++ retained_hdrs s w)
    end.
  Proof.
    revert s. induction w as [|[o wok] w IH]; intros s Hs; [exact I|].
    cbn [sdelivered retained_hdrs].
    destruct o as [md|md|md|p|p|st]; cbn [sstep]; rewrite ?Hs; cbn [fst snd app filter].
    - (* SetHeader *)
      specialize (IH (mkS (hdrs s ++ [md]) false (trls s) (tsent s)) eq_refl). cbn [hdrs] in IH.
      destruct (filter has_hdr _) as [|e rest]; [exact I|]. rewrite <- app_assoc in IH. exact IH.
    - (* SendHeader *)
      destruct wok; cbn [fst snd].
      + destruct (hsent_nothing (mkS (hdrs s ++ [md]) true (trls s) (tsent s)) w eq_refl) as [H1 H2].
        cbn [app filter has_hdr hdr_md]. rewrite H1, H2. split; reflexivity.
      + specialize (IH (mkS (hdrs s ++ [md]) false (trls s) (tsent s)) eq_refl). cbn [hdrs app] in IH.
        destruct (filter has_hdr _) as [|e rest]; [exact I|]. rewrite <- app_assoc in IH. exact IH.
    - (* SetTrailer *)
      destruct (tsent s); cbn [fst snd]; [apply IH; first [exact Hs|reflexivity|cbn; exact Hs]|].
      specialize (IH (mkS (hdrs s) false (trls s ++ [md]) false) eq_refl). exact IH.
    - (* SendMsg: marks the headers sent before writing *)
      destruct (hsent_nothing (mkS (hdrs s) true (trls s) (tsent s)) w eq_refl) as [H1 H2].
      destruct wok; cbn [app filter has_hdr hdr_md]; rewrite H1; [|exact I].
      rewrite H2, app_nil_r. split; reflexivity.
    - (* SendMsgBad *) apply IH; first [exact Hs|reflexivity|cbn; exact Hs].
    - (* SendTrailer *)
      destruct (tsent s) eqn:Et; cbn [fst snd app filter].
      + apply IH; first [exact Hs|reflexivity|cbn; exact Hs].
      + destruct (hsent_nothing (mkS (hdrs s) true (trls s) true) w eq_refl) as [H1 H2].
        destruct wok; cbn [app filter has_hdr hdr_md]; rewrite H1; [|exact I].
        rewrite H2, app_nil_r. split; reflexivity.
  Qed.

  (* what is LOST: when the write of the first message (or of the final status)
     fails while the headers are still pending, they were marked sent before the
     write and no envelope will ever carry them *)
  Theorem faults_headers_lost (s : sstate) (o : sop) (w : list (sop * bool)) :
    hsent s = false ->
    (exists p, o = SendMsg p) \/ (exists st, o = SendTrailer st /\ tsent s = false) ->
    filter has_hdr (sdelivered s ((o, false) :: w)) = [].
  Proof.
    intros Hs [[p ->]|[st [-> Ht]]]; cbn [sdelivered sstep]; rewrite ?Ht, ?Hs; cbn [fst snd app].
    - apply (hsent_nothing (mkS (hdrs s) true (trls s) (tsent s)) w eq_refl).
    - apply (hsent_nothing (mkS (hdrs s) true (trls s) true) w eq_refl).
  Qed.

  (* what is KEPT: a SendHeader whose write failed leaves its map pending; the next
     message carries it together with everything set before *)
  Theorem faults_sendheader_retried (s : sstate) (md : MD) (p : P) (w : list (sop * bool)) :
    hsent s = false ->
    sdelivered s ((SendHeader md, false) :: (SendMsg p, true) :: w) =
    WMsg (Some (hdrs s ++ [md])) p :: sdelivered (mkS (hdrs s ++ [md]) true (trls s) (tsent s)) w.
  Proof. intro Hs. cbn [sdelivered sstep]. rewrite Hs. cbn. reflexivity. Qed.

  (* the stream is closed for writing by the FIRST SendTrailer, successful or not:
     no trailer envelope ever follows a failed one *)
  Lemma tsent_no_trailer (s : sstate) (w : list (sop * bool)) :
    tsent s = true -> Forall (fun e => is_trailer e = false) (sdelivered s w).
  Proof.
    revert s. induction w as [|[o wok] w IH]; intros s Hs; [constructor|].
    cbn [sdelivered].
    destruct o as [md|md|md|p|p|st]; cbn [sstep]; rewrite ?Hs; cbn [fst snd app].
    - destruct (hsent s); cbn [fst snd app]; apply IH; first [exact Hs|reflexivity|cbn; exact Hs].
    - destruct (hsent s); cbn [fst snd app]; [apply IH; first [exact Hs|reflexivity|cbn; exact Hs]|].
      destruct wok; cbn [fst snd app]; [constructor; [reflexivity|]|]; apply IH; first [exact Hs|reflexivity|cbn; exact Hs].
    - apply IH; first [exact Hs|reflexivity|cbn; exact Hs].
    - destruct wok; cbn [app]; [constructor; [reflexivity|]|]; apply IH; first [exact Hs|reflexivity|cbn; exact Hs].
    - apply IH; first [exact Hs|reflexivity|cbn; exact Hs].
    - apply IH; first [exact Hs|reflexivity|cbn; exact Hs].
  Qed.

  Theorem faults_trailer_once (s : sstate) (st : ST) (wok : bool) (w : list (sop * bool)) :
    tsent s = false ->
    Forall (fun e : wenv => is_trailer e = false) (sdelivered (fst (fst (sstep s (SendTrailer st : sop) wok))) w).
  Proof. intro Ht. cbn [sstep]. rewrite Ht. cbn [fst]. apply tsent_no_trailer. reflexivity. Qed.
End Faults.

(* ---- the unary collector: every program ---- *)
Section UnaryProgram.
  Context {MD : Type}.

  Lemma urun_collects (s : ustate MD) (ops : list (uop MD)) :
    uh (fst (urun s ops)) = uh s ++ uaccepted_h s ops /\
    ut (fst (urun s ops)) = ut s ++ uaccepted_t ops.
  Proof.
    revert s. induction ops as [|o ops IH]; intro s; [cbn; rewrite !app_nil_r; split; reflexivity|].
    cbn [urun uaccepted_h uaccepted_t].
    destruct o as [md|md|md]; cbn [ustep].
    - destruct (uhsent s) eqn:E; cbn [fst].
      + destruct (urun s ops) as [s2 rs] eqn:Er. cbn [fst].
        pose proof (IH s) as [H1 H2]. rewrite Er in H1, H2. cbn [fst] in H1, H2. split; assumption.
      + destruct (urun (mkU (uh s ++ [md]) false (ut s)) ops) as [s2 rs] eqn:Er. cbn [fst].
        pose proof (IH (mkU (uh s ++ [md]) false (ut s))) as [H1 H2]. rewrite Er in H1, H2. cbn [fst uh ut] in H1, H2.
        rewrite <- app_assoc in H1. split; assumption.
    - destruct (uhsent s) eqn:E; cbn [fst].
      + destruct (urun s ops) as [s2 rs] eqn:Er. cbn [fst].
        pose proof (IH s) as [H1 H2]. rewrite Er in H1, H2. cbn [fst] in H1, H2. split; assumption.
      + destruct (urun (mkU (uh s ++ [md]) true (ut s)) ops) as [s2 rs] eqn:Er. cbn [fst].
        pose proof (IH (mkU (uh s ++ [md]) true (ut s))) as [H1 H2]. rewrite Er in H1, H2. cbn [fst uh ut] in H1, H2.
        rewrite <- app_assoc in H1. split; assumption.
    - destruct (urun (mkU (uh s) (uhsent s) (ut s ++ [md])) ops) as [s2 rs] eqn:Er. cbn [fst].
      pose proof (IH (mkU (uh s) (uhsent s) (ut s ++ [md]))) as [H1 H2]. rewrite Er in H1, H2. cbn [fst uh ut] in H1, H2.
      rewrite <- app_assoc in H2. split; assumption.
  Qed.
End UnaryProgram.

(* Round trip of the wire-format model: decode (encode e) = Some e for every
   canonical envelope. *)
From Goat Require Import Base.Bytes Model.WireFormat.
From Coq Require Import ZifyBool ZifyN ZifyNat.
Open Scope N_scope.
Ltac Zify.zify_post_hook ::= Z.div_mod_to_equations.

(* ---------- varints ---------- *)
Lemma varint_enc_nonempty f v : exists c r, varint_enc f v = c :: r.
Proof. destruct f; cbn [varint_enc]; [eauto|]. destruct (v <? 128); eauto. Qed.

Lemma varint_dec_1 sh y rest :
  varint_dec 1 sh (y :: rest) = if y <? 2 then Some (y * sh, rest) else None.
Proof. reflexivity. Qed.
Lemma varint_dec_SS n sh y rest :
  varint_dec (S (S n)) sh (y :: rest) =
  if y <? 128 then Some (y * sh, rest)
  else match varint_dec (S n) (sh * 128) rest with
       | Some (v, r) => Some ((y - 128) * sh + v, r)
       | None => None
       end.
Proof. reflexivity. Qed.

Lemma varint_roundtrip f : forall sh v rest,
  v < 2 * 128 ^ N.of_nat f ->
  varint_dec (S f) sh (varint_enc f v ++ rest) = Some (v * sh, rest).
Proof.
  induction f as [|f IH]; intros sh v rest Hv.
  - cbn [varint_enc app]. rewrite varint_dec_1.
    change (N.of_nat 0) with 0 in Hv. rewrite N.pow_0_r in Hv.
    replace (v <? 2) with true by lia. reflexivity.
  - cbn [varint_enc].
    destruct (v <? 128) eqn:E.
    + cbn [app]. rewrite varint_dec_SS, E. reflexivity.
    + cbn [app]. rewrite varint_dec_SS.
      replace (128 + v mod 128 <? 128) with false by lia.
      rewrite IH.
      * f_equal. f_equal.
        replace (128 + v mod 128 - 128) with (v mod 128) by lia.
        transitivity ((128 * (v / 128) + v mod 128) * sh); [ring|].
        f_equal. symmetry. apply N.div_mod. lia.
      * rewrite Nat2N.inj_succ, N.pow_succ_r' in Hv. lia.
Qed.

Lemma dec_enc_varint v rest : v < two64 -> dec_varint (enc_varint v ++ rest) = Some (v, rest).
Proof.
  intro H. unfold dec_varint, enc_varint.
  rewrite (varint_roundtrip 9 1 v rest).
  - f_equal. f_equal. lia.
  - unfold two64 in H. change (2 * 128 ^ N.of_nat 9) with 18446744073709551616. exact H.
Qed.

(* ---------- one field ---------- *)
Definition num_ok (n : N) : Prop := 1 <= n /\ n <= max_num.

Definition good_tok (t : tok) : Prop :=
  match t with
  | (n, WVarint v) => num_ok n /\ v < two64
  | (n, WBytes bs) => num_ok n /\ len_ok bs = true
  | _ => False
  end.

Lemma firstn_app_exact {A} (a b : list A) : firstn (length a) (a ++ b) = a.
Proof. induction a; cbn; [destruct b; reflexivity|]. f_equal. assumption. Qed.
Lemma skipn_app_exact {A} (a b : list A) : skipn (length a) (a ++ b) = b.
Proof. induction a; cbn; [reflexivity|assumption]. Qed.

Lemma dec_field_tok t rest : good_tok t -> dec_field (enc_tok t ++ rest) = Some (fst t, snd t, rest).
Proof.
  destruct t as [n w]. destruct w as [v| | |bs|]; cbn [good_tok]; try tauto.
  - intros [[Hn1 Hn2] Hv]. unfold max_num in Hn2.
    cbn [enc_tok fst snd]. unfold dec_field.
    rewrite <- app_assoc.
    rewrite dec_enc_varint by (unfold two64; lia).
    replace (n * 8 / 8) with n by lia.
    replace ((n <? 1) || (max_num <? n)) with false by (unfold max_num; lia).
    replace (n * 8 mod 8) with 0 by lia.
    rewrite dec_enc_varint by exact Hv. reflexivity.
  - intros [[Hn1 Hn2] Hl]. unfold max_num in Hn2. unfold len_ok in Hl.
    cbn [enc_tok fst snd]. unfold dec_field.
    rewrite <- !app_assoc.
    rewrite dec_enc_varint by (unfold two64; lia).
    replace ((n * 8 + 2) / 8) with n by lia.
    replace ((n <? 1) || (max_num <? n)) with false by (unfold max_num; lia).
    replace ((n * 8 + 2) mod 8) with 2 by lia.
    rewrite dec_enc_varint by lia.
    rewrite app_length.
    replace (N.of_nat (length bs + length rest) <? N.of_nat (length bs)) with false by lia.
    rewrite Nat2N.id, firstn_app_exact, skipn_app_exact. reflexivity.
Qed.

Lemma enc_tok_nonempty t : good_tok t -> exists c r, enc_tok t = c :: r.
Proof.
  destruct t as [n w]. destruct w as [v| | |bs|]; cbn [good_tok]; try tauto; intros _; cbn [enc_tok].
  - destruct (varint_enc_nonempty 9 (n * 8)) as (c & r & E). unfold enc_varint at 1. rewrite E. cbn. eauto.
  - destruct (varint_enc_nonempty 9 (n * 8 + 2)) as (c & r & E). unfold enc_varint at 1. rewrite E. cbn. eauto.
Qed.

(* ---------- the field splitter undoes the renderer ---------- *)
Lemma fields_fuel_render toks : forall f,
  Forall good_tok toks -> (length toks <= f)%nat -> fields_fuel f (render toks) = Some toks.
Proof.
  induction toks as [|t ts IH]; intros f Hg Hf.
  - destruct f; reflexivity.
  - inversion Hg as [|? ? Ht Hts]; subst.
    destruct f as [|f]; [cbn in Hf; lia|].
    unfold render. cbn [flat_map]. fold (render ts).
    destruct (enc_tok_nonempty t Ht) as (c & r & E).
    assert (Hd := dec_field_tok t (render ts) Ht).
    rewrite E in *. cbn [app] in *. cbn [fields_fuel].
    rewrite Hd. rewrite IH by (auto; cbn in Hf; lia).
    destruct t; reflexivity.
Qed.

Lemma enc_tok_length t : good_tok t -> (1 <= length (enc_tok t))%nat.
Proof. intro H. destruct (enc_tok_nonempty t H) as (c & r & E). rewrite E. cbn. lia. Qed.

Lemma render_length toks : Forall good_tok toks -> (length toks <= length (render toks))%nat.
Proof.
  induction 1 as [|t ts Ht _ IH]; [cbn; lia|].
  unfold render. cbn [flat_map length]. rewrite app_length. fold (render ts).
  pose proof (enc_tok_length t Ht). lia.
Qed.

Lemma fields_render toks : Forall good_tok toks -> fields (render toks) = Some toks.
Proof. intro H. unfold fields. apply fields_fuel_render; [exact H|apply render_length, H]. Qed.

Lemma dec_msg_render {A} (upd : N -> wval -> A -> option A) toks acc :
  Forall good_tok toks -> dec_msg upd (render toks) acc = fold_toks upd toks acc.
Proof. intro H. unfold dec_msg. rewrite fields_render by exact H. reflexivity. Qed.

(* ---------- folding ---------- *)
Lemma fold_app {A} (upd : N -> wval -> A -> option A) a b acc :
  fold_toks upd (a ++ b) acc =
  match fold_toks upd a acc with Some acc' => fold_toks upd b acc' | None => None end.
Proof.
  revert acc. induction a as [|[n w] a IH]; intro acc; cbn [app fold_toks]; [reflexivity|].
  destruct (upd n w acc); [apply IH|reflexivity].
Qed.

Lemma fold_tstr {A} (upd : N -> wval -> A -> option A) n s acc acc' :
  (s <> [] -> upd n (WBytes s) acc = Some acc') -> (s = [] -> acc' = acc) ->
  fold_toks upd (t_str n s) acc = Some acc'.
Proof.
  intros H1 H2. destruct s as [|c s]; cbn [t_str fold_toks].
  - rewrite H2; reflexivity.
  - rewrite H1 by discriminate. reflexivity.
Qed.

Lemma fold_map {A T} (upd : N -> wval -> A -> option A) (mk : T -> tok) (snoc : A -> T -> A) l : forall acc,
  (forall a x, In x l -> upd (fst (mk x)) (snd (mk x)) a = Some (snoc a x)) ->
  fold_toks upd (map mk l) acc = Some (fold_left snoc l acc).
Proof.
  induction l as [|x l IH]; intros acc H; cbn [map fold_toks fold_left]; [reflexivity|].
  destruct (mk x) as [n w] eqn:E.
  specialize (H acc x (or_introl eq_refl)) as Hx. rewrite E in Hx. cbn [fst snd] in Hx. rewrite Hx.
  apply IH. intros a y Hy. apply H. right. exact Hy.
Qed.

(* ---------- well-formedness, unpacked ---------- *)
Lemma wf_kv_inv k : wf_kv k = true ->
  wf_str (kv_key k) = true /\ wf_str (kv_val k) = true /\ len_ok (render (toks_kv k)) = true.
Proof. unfold wf_kv. rewrite !andb_true_iff. tauto. Qed.
Lemma wf_any_inv a : wf_any a = true ->
  wf_str (any_url a) = true /\ wf_bin (any_val a) = true /\ len_ok (render (toks_any a)) = true.
Proof. unfold wf_any. rewrite !andb_true_iff. tauto. Qed.
Lemma wf_header_inv h : wf_header h = true ->
  wf_str (h_method h) = true /\ (forall k, In k (h_headers h) -> wf_kv k = true) /\
  wf_str (h_source h) = true /\ wf_str (h_dest h) = true /\
  (forall s, In s (h_record h) -> wf_str s = true) /\ (forall s, In s (h_next h) -> wf_str s = true) /\
  len_ok (render (toks_header h)) = true.
Proof. unfold wf_header. rewrite !andb_true_iff, !forallb_forall. tauto. Qed.
Lemma wf_status_inv s : wf_status s = true ->
  (-2147483648 <= s_code s)%Z /\ (s_code s < 2147483648)%Z /\ wf_str (s_msg s) = true /\
  (forall a, In a (s_details s) -> wf_any a = true) /\ len_ok (render (toks_status s)) = true.
Proof.
  unfold wf_status. rewrite !andb_true_iff, !forallb_forall.
  intros ((((H1 & H2) & H3) & H4) & H5). repeat split; try assumption; lia.
Qed.
Lemma wf_body_inv d : wf_body d = true -> wf_bin d = true /\ len_ok (render (toks_body d)) = true.
Proof. unfold wf_body. rewrite !andb_true_iff. tauto. Qed.
Lemma wf_trailer_inv t : wf_trailer t = true ->
  (forall k, In k t -> wf_kv k = true) /\ len_ok (render (toks_trailer t)) = true.
Proof. unfold wf_trailer. rewrite !andb_true_iff, !forallb_forall. tauto. Qed.
Lemma wf_reset_inv t : wf_reset t = true -> wf_str t = true /\ len_ok (render (toks_reset t)) = true.
Proof. unfold wf_reset. rewrite !andb_true_iff. tauto. Qed.
Lemma wf_inv e : wf e = true ->
  r_id e < two64 /\ wf_opt wf_header (r_header e) = true /\ wf_opt wf_status (r_status e) = true /\
  wf_opt wf_body (r_body e) = true /\ wf_opt wf_trailer (r_trailer e) = true /\ wf_opt wf_reset (r_reset e) = true.
Proof.
  unfold wf. rewrite !andb_true_iff. intros (((((H1 & H2) & H3) & H4) & H5) & H6).
  repeat split; try assumption. lia.
Qed.

Lemma wf_str_utf8 s : wf_str s = true -> str s = Some s.
Proof.
  unfold wf_str, str. intro H. apply andb_true_iff in H as [H _]. apply andb_true_iff in H as [_ H].
  rewrite H. reflexivity.
Qed.
Lemma wf_str_len s : wf_str s = true -> len_ok s = true.
Proof. unfold wf_str. intro H. apply andb_true_iff in H as [_ H]. exact H. Qed.
Lemma wf_bin_len s : wf_bin s = true -> len_ok s = true.
Proof. unfold wf_bin. intro H. apply andb_true_iff in H as [_ H]. exact H. Qed.

Lemma num_ok_small n : 1 <= n -> n <= 6 -> num_ok n.
Proof. unfold num_ok, max_num. lia. Qed.

Lemma good_tstr n s : 1 <= n -> n <= 6 -> len_ok s = true -> Forall good_tok (t_str n s).
Proof.
  intros. destruct s; cbn [t_str]; constructor; [|constructor].
  cbn [good_tok]. split; [apply num_ok_small; assumption|assumption].
Qed.

Lemma good_map {T} n (f : T -> bytes) l : 1 <= n -> n <= 6 ->
  (forall x, In x l -> len_ok (f x) = true) -> Forall good_tok (map (fun x => (n, WBytes (f x))) l).
Proof.
  intros H1 H2 H. apply Forall_forall. intros t Ht. apply in_map_iff in Ht as (x & <- & Hx).
  cbn [good_tok]. split; [apply num_ok_small; assumption|auto].
Qed.

(* ---------- KeyValue ---------- *)
Lemma good_kv k : wf_kv k = true -> Forall good_tok (toks_kv k).
Proof.
  intro H. destruct (wf_kv_inv k H) as (Hk & Hv & _). unfold toks_kv.
  apply Forall_app; split; apply good_tstr; try lia; apply wf_str_len; assumption.
Qed.

Lemma fold_kv k : wf_kv k = true -> fold_toks upd_kv (toks_kv k) kv0 = Some k.
Proof.
  intro H. destruct (wf_kv_inv k H) as (Hk & Hv & _). unfold toks_kv. rewrite fold_app.
  rewrite (fold_tstr upd_kv 1 (kv_key k) kv0 (mkKV (kv_key k) [])).
  - rewrite (fold_tstr upd_kv 2 (kv_val k) _ k); [reflexivity| |].
    + intros _. cbn [upd_kv kv_key kv_val]. rewrite (wf_str_utf8 _ Hv). destruct k; reflexivity.
    + intro E. destruct k as [a b]. cbn in *. subst. reflexivity.
  - intros _. cbn [upd_kv kv_val kv0]. rewrite (wf_str_utf8 _ Hk). reflexivity.
  - intro E. rewrite E. reflexivity.
Qed.

Lemma dec_kv k : wf_kv k = true -> dec_msg upd_kv (render (toks_kv k)) kv0 = Some k.
Proof. intro H. rewrite dec_msg_render by (apply good_kv, H). apply fold_kv, H. Qed.

Lemma wf_kv_len k : wf_kv k = true -> len_ok (render (toks_kv k)) = true.
Proof. intro H. apply (wf_kv_inv k H). Qed.

(* ---------- Any ---------- *)
Lemma good_any a : wf_any a = true -> Forall good_tok (toks_any a).
Proof.
  intro H. destruct (wf_any_inv a H) as (Hu & Hv & _). unfold toks_any.
  apply Forall_app; split; apply good_tstr; try lia; [apply wf_str_len|apply wf_bin_len]; assumption.
Qed.

Lemma fold_any a : wf_any a = true -> fold_toks upd_any (toks_any a) any0 = Some a.
Proof.
  intro H. destruct (wf_any_inv a H) as (Hu & Hv & _). unfold toks_any. rewrite fold_app.
  rewrite (fold_tstr upd_any 1 (any_url a) any0 (mkAny (any_url a) [])).
  - rewrite (fold_tstr upd_any 2 (any_val a) _ a); [reflexivity| |].
    + intros _. cbn [upd_any any_url any_val]. destruct a; reflexivity.
    + intro E. destruct a as [u v]. cbn in *. subst. reflexivity.
  - intros _. cbn [upd_any any_val any0]. rewrite (wf_str_utf8 _ Hu). reflexivity.
  - intro E. rewrite E. reflexivity.
Qed.

Lemma dec_any a : wf_any a = true -> dec_msg upd_any (render (toks_any a)) any0 = Some a.
Proof. intro H. rewrite dec_msg_render by (apply good_any, H). apply fold_any, H. Qed.

Lemma wf_any_len a : wf_any a = true -> len_ok (render (toks_any a)) = true.
Proof. intro H. apply (wf_any_inv a H). Qed.

(* ---------- folding a repeated field ---------- *)
Lemma fold_left_append {T} (l pre : list T) :
  fold_left (fun a x => a ++ [x]) l pre = pre ++ l.
Proof.
  revert pre. induction l as [|x l IH]; intro pre; cbn [fold_left]; [rewrite app_nil_r; reflexivity|].
  rewrite IH, <- app_assoc. reflexivity.
Qed.

(* ---------- RequestHeader ---------- *)
Lemma good_header h : wf_header h = true -> Forall good_tok (toks_header h).
Proof.
  intro H. destruct (wf_header_inv h H) as (Hm & Hhs & Hs & Hd & Hr & Hn & _). unfold toks_header.
  repeat (apply Forall_app; split).
  - apply good_tstr; try lia. apply wf_str_len; assumption.
  - apply (good_map 2 (fun k => render (toks_kv k))); try lia. intros x Hx. apply wf_kv_len. auto.
  - apply good_tstr; try lia. apply wf_str_len; assumption.
  - apply good_tstr; try lia. apply wf_str_len; assumption.
  - apply (good_map 5 (fun s => s)); try lia. intros x Hx. apply wf_str_len. auto.
  - apply (good_map 6 (fun s => s)); try lia. intros x Hx. apply wf_str_len. auto.
Qed.

Lemma fold_header h : wf_header h = true -> fold_toks upd_header (toks_header h) header0 = Some h.
Proof.
  intro H. destruct (wf_header_inv h H) as (Hm & Hhs & Hs & Hd & Hr & Hn & _).
  destruct h as [m hs src dst rc nx]. cbn [h_method h_headers h_source h_dest h_record h_next] in *.
  unfold toks_header. cbn [h_method h_headers h_source h_dest h_record h_next].
  rewrite fold_app.
  rewrite (fold_tstr upd_header 1 m header0 (mkHeader m [] [] [] [] []));
    [|intros _; cbn; rewrite (wf_str_utf8 _ Hm); reflexivity|intros ->; reflexivity].
  rewrite fold_app.
  rewrite (fold_map upd_header (fun k => (2, WBytes (render (toks_kv k))))
             (fun a k => mkHeader (h_method a) (h_headers a ++ [k]) (h_source a) (h_dest a) (h_record a) (h_next a))).
  2:{ intros a x Hx. cbn [fst snd upd_header]. rewrite dec_kv by auto. reflexivity. }
  assert (E1 : forall l a, fold_left (fun a k => mkHeader (h_method a) (h_headers a ++ [k]) (h_source a) (h_dest a) (h_record a) (h_next a)) l a
                       = mkHeader (h_method a) (h_headers a ++ l) (h_source a) (h_dest a) (h_record a) (h_next a)).
  { induction l as [|x l IH]; intro a; cbn [fold_left]; [rewrite app_nil_r; destruct a; reflexivity|].
    rewrite IH. cbn. rewrite <- app_assoc. reflexivity. }
  rewrite E1. cbn [h_method h_headers h_source h_dest h_record h_next app].
  rewrite fold_app.
  rewrite (fold_tstr upd_header 3 src _ (mkHeader m hs src [] [] []));
    [|intros _; cbn; rewrite (wf_str_utf8 _ Hs); reflexivity|intros ->; reflexivity].
  rewrite fold_app.
  rewrite (fold_tstr upd_header 4 dst _ (mkHeader m hs src dst [] []));
    [|intros _; cbn; rewrite (wf_str_utf8 _ Hd); reflexivity|intros ->; reflexivity].
  rewrite fold_app.
  rewrite (fold_map upd_header (fun s => (5, WBytes s))
             (fun a s => mkHeader (h_method a) (h_headers a) (h_source a) (h_dest a) (h_record a ++ [s]) (h_next a))).
  2:{ intros a x Hx. cbn [fst snd upd_header]. rewrite wf_str_utf8 by auto. reflexivity. }
  assert (E2 : forall l a, fold_left (fun a s => mkHeader (h_method a) (h_headers a) (h_source a) (h_dest a) (h_record a ++ [s]) (h_next a)) l a
                       = mkHeader (h_method a) (h_headers a) (h_source a) (h_dest a) (h_record a ++ l) (h_next a)).
  { induction l as [|x l IH]; intro a; cbn [fold_left]; [rewrite app_nil_r; destruct a; reflexivity|].
    rewrite IH. cbn. rewrite <- app_assoc. reflexivity. }
  rewrite E2. cbn [h_method h_headers h_source h_dest h_record h_next app].
  rewrite (fold_map upd_header (fun s => (6, WBytes s))
             (fun a s => mkHeader (h_method a) (h_headers a) (h_source a) (h_dest a) (h_record a) (h_next a ++ [s]))).
  2:{ intros a x Hx. cbn [fst snd upd_header]. rewrite wf_str_utf8 by auto. reflexivity. }
  assert (E3 : forall l a, fold_left (fun a s => mkHeader (h_method a) (h_headers a) (h_source a) (h_dest a) (h_record a) (h_next a ++ [s])) l a
                       = mkHeader (h_method a) (h_headers a) (h_source a) (h_dest a) (h_record a) (h_next a ++ l)).
  { induction l as [|x l IH]; intro a; cbn [fold_left]; [rewrite app_nil_r; destruct a; reflexivity|].
    rewrite IH. cbn. rewrite <- app_assoc. reflexivity. }
  rewrite E3. reflexivity.
Qed.

Lemma dec_header h : wf_header h = true -> dec_msg upd_header (render (toks_header h)) header0 = Some h.
Proof. intro H. rewrite dec_msg_render by (apply good_header, H). apply fold_header, H. Qed.

(* ---------- ResponseStatus ---------- *)
Lemma int32_roundtrip c :
  (-2147483648 <= c)%Z -> (c < 2147483648)%Z -> int32_of (of_int32 c) = c /\ of_int32 c < two64.
Proof.
  intros H1 H2. unfold int32_of, of_int32, two64.
  split.
  - destruct (Z.of_N (Z.to_N (c mod 18446744073709551616) mod 4294967296) <? 2147483648)%Z eqn:E; lia.
  - lia.
Qed.

Lemma good_status s : wf_status s = true -> Forall good_tok (toks_status s).
Proof.
  intro H. destruct (wf_status_inv s H) as (Hc1 & Hc2 & Hm & Hds & _). unfold toks_status.
  repeat (apply Forall_app; split).
  - destruct (s_code s =? 0)%Z; constructor; [|constructor].
    cbn [good_tok]. split; [apply num_ok_small; lia|].
    apply int32_roundtrip; lia.
  - apply good_tstr; try lia. apply wf_str_len; assumption.
  - apply (good_map 3 (fun a => render (toks_any a))); try lia. intros x Hx. apply wf_any_len. auto.
Qed.

Lemma fold_status s : wf_status s = true -> fold_toks upd_status (toks_status s) status0 = Some s.
Proof.
  intro H. destruct (wf_status_inv s H) as (Hc1 & Hc2 & Hm & Hds & _).
  destruct s as [c m ds]. cbn [s_code s_msg s_details] in *.
  unfold toks_status. cbn [s_code s_msg s_details].
  rewrite fold_app.
  assert (Erest : fold_toks upd_status (t_str 2 m ++ map (fun a => (3, WBytes (render (toks_any a)))) ds) (mkStatus c [] [])
                  = Some (mkStatus c m ds)).
  { rewrite fold_app.
    rewrite (fold_tstr upd_status 2 m _ (mkStatus c m []));
      [|intros _; cbn; rewrite (wf_str_utf8 _ Hm); reflexivity|intros ->; reflexivity].
    rewrite (fold_map upd_status (fun a => (3, WBytes (render (toks_any a))))
               (fun st a => mkStatus (s_code st) (s_msg st) (s_details st ++ [a]))).
    2:{ intros a x Hx. cbn [fst snd upd_status]. rewrite dec_any by auto. reflexivity. }
    assert (E1 : forall l a, fold_left (fun st a => mkStatus (s_code st) (s_msg st) (s_details st ++ [a])) l a
                         = mkStatus (s_code a) (s_msg a) (s_details a ++ l)).
    { induction l as [|x l IH]; intro a; cbn [fold_left]; [rewrite app_nil_r; destruct a; reflexivity|].
      rewrite IH. cbn. rewrite <- app_assoc. reflexivity. }
    rewrite E1. reflexivity. }
  destruct (c =? 0)%Z eqn:Ec.
  - cbn [fold_toks]. replace status0 with (mkStatus c [] []) by (unfold status0; f_equal; lia). exact Erest.
  - cbn [fold_toks upd_status]. destruct (int32_roundtrip c) as [-> _]; [lia|lia|].
    cbn [s_msg s_details status0]. exact Erest.
Qed.

Lemma dec_status s : wf_status s = true -> dec_msg upd_status (render (toks_status s)) status0 = Some s.
Proof. intro H. rewrite dec_msg_render by (apply good_status, H). apply fold_status, H. Qed.

(* ---------- Body, Trailer, Reset ---------- *)
Lemma dec_body d : wf_body d = true -> dec_msg upd_body (render (toks_body d)) [] = Some d.
Proof.
  intro H. destruct (wf_body_inv d H) as (Hb & _).
  rewrite dec_msg_render by (apply good_tstr; try lia; apply wf_bin_len; assumption).
  unfold toks_body. apply fold_tstr; [intros _; reflexivity|intros ->; reflexivity].
Qed.

Lemma dec_trailer t : wf_trailer t = true -> dec_msg upd_trailer (render (toks_trailer t)) [] = Some t.
Proof.
  intro H0. destruct (wf_trailer_inv t H0) as (H & _).
  rewrite dec_msg_render.
  - unfold toks_trailer.
    rewrite (fold_map upd_trailer (fun k => (1, WBytes (render (toks_kv k)))) (fun a k => a ++ [k])).
    + rewrite fold_left_append. reflexivity.
    + intros a x Hx. cbn [fst snd upd_trailer]. rewrite dec_kv by auto. reflexivity.
  - apply (good_map 1 (fun k => render (toks_kv k))); try lia. intros x Hx. apply wf_kv_len. auto.
Qed.

Lemma dec_reset t : wf_reset t = true -> dec_msg upd_reset (render (toks_reset t)) [] = Some t.
Proof.
  intro H0. destruct (wf_reset_inv t H0) as (H & _).
  rewrite dec_msg_render by (apply good_tstr; try lia; apply wf_str_len; assumption).
  unfold toks_reset. apply fold_tstr; [intros _; cbn; apply wf_str_utf8; assumption|intros ->; reflexivity].
Qed.

(* ---------- the envelope ---------- *)
Lemma good_topt {A} n (f : A -> list tok) (wfx : A -> bool) (o : option A) :
  1 <= n -> n <= 6 -> (forall x, wfx x = true -> len_ok (render (f x)) = true) ->
  wf_opt wfx o = true -> Forall good_tok (t_opt n f o).
Proof.
  intros H1 H2 Hl Hw. destruct o as [x|]; cbn [t_opt]; constructor; [|constructor].
  cbn [good_tok]. split; [apply num_ok_small; assumption|]. apply Hl. exact Hw.
Qed.

Lemma wf_header_len h : wf_header h = true -> len_ok (render (toks_header h)) = true.
Proof. intro H. apply (wf_header_inv h H). Qed.
Lemma wf_status_len s : wf_status s = true -> len_ok (render (toks_status s)) = true.
Proof. intro H. apply (wf_status_inv s H). Qed.
Lemma wf_body_len d : wf_body d = true -> len_ok (render (toks_body d)) = true.
Proof. intro H. apply (wf_body_inv d H). Qed.
Lemma wf_trailer_len t : wf_trailer t = true -> len_ok (render (toks_trailer t)) = true.
Proof. intro H. apply (wf_trailer_inv t H). Qed.
Lemma wf_reset_len t : wf_reset t = true -> len_ok (render (toks_reset t)) = true.
Proof. intro H. apply (wf_reset_inv t H). Qed.

Lemma good_rpc e : wf e = true -> Forall good_tok (toks_rpc e).
Proof.
  intro H. destruct (wf_inv e H) as (Hid & Hh & Hs & Hb & Ht & Hr). unfold toks_rpc.
  repeat (apply Forall_app; split).
  - destruct (r_id e =? 0); constructor; [|constructor].
    cbn [good_tok]. split; [apply num_ok_small; lia|lia].
  - apply (good_topt 2 toks_header wf_header); try lia; [apply wf_header_len|assumption].
  - apply (good_topt 3 toks_status wf_status); try lia; [apply wf_status_len|assumption].
  - apply (good_topt 4 toks_body wf_body); try lia; [apply wf_body_len|assumption].
  - apply (good_topt 5 toks_trailer wf_trailer); try lia; [apply wf_trailer_len|assumption].
  - apply (good_topt 6 toks_reset wf_reset); try lia; [apply wf_reset_len|assumption].
Qed.

Lemma fold_rpc e : wf e = true -> fold_toks upd_rpc (toks_rpc e) rpc0 = Some e.
Proof.
  intro H. destruct (wf_inv e H) as (Hid & Hh & Hs & Hb & Ht & Hr).
  destruct e as [id hd st bd tr rs]. cbn [r_id r_header r_status r_body r_trailer r_reset] in *.
  unfold toks_rpc. cbn [r_id r_header r_status r_body r_trailer r_reset].
  rewrite fold_app.
  assert (Erest : fold_toks upd_rpc (t_opt 2 toks_header hd ++ t_opt 3 toks_status st ++ t_opt 4 toks_body bd
                                     ++ t_opt 5 toks_trailer tr ++ t_opt 6 toks_reset rs)
                            (mkRpc id None None None None None) = Some (mkRpc id hd st bd tr rs)).
  { rewrite fold_app.
    assert (E1 : fold_toks upd_rpc (t_opt 2 toks_header hd) (mkRpc id None None None None None)
                 = Some (mkRpc id hd None None None None)).
    { destruct hd as [h|]; cbn [t_opt fold_toks upd_rpc r_header dflt wf_opt] in *; [|reflexivity].
      rewrite dec_header by assumption. reflexivity. }
    rewrite E1. rewrite fold_app.
    assert (E2 : fold_toks upd_rpc (t_opt 3 toks_status st) (mkRpc id hd None None None None)
                 = Some (mkRpc id hd st None None None)).
    { destruct st as [s|]; cbn [t_opt fold_toks upd_rpc r_status dflt wf_opt] in *; [|reflexivity].
      rewrite dec_status by assumption. reflexivity. }
    rewrite E2. rewrite fold_app.
    assert (E3 : fold_toks upd_rpc (t_opt 4 toks_body bd) (mkRpc id hd st None None None)
                 = Some (mkRpc id hd st bd None None)).
    { destruct bd as [d|]; cbn [t_opt fold_toks upd_rpc r_body dflt wf_opt] in *; [|reflexivity].
      rewrite dec_body by assumption. reflexivity. }
    rewrite E3. rewrite fold_app.
    assert (E4 : fold_toks upd_rpc (t_opt 5 toks_trailer tr) (mkRpc id hd st bd None None)
                 = Some (mkRpc id hd st bd tr None)).
    { destruct tr as [t|]; cbn [t_opt fold_toks upd_rpc r_trailer dflt wf_opt] in *; [|reflexivity].
      rewrite dec_trailer by assumption. reflexivity. }
    rewrite E4.
    destruct rs as [t|]; cbn [t_opt fold_toks upd_rpc r_reset dflt wf_opt] in *; [|reflexivity].
    rewrite dec_reset by assumption. reflexivity. }
  destruct (id =? 0) eqn:E.
  - cbn [fold_toks]. replace rpc0 with (mkRpc id None None None None None) by (unfold rpc0; f_equal; lia). exact Erest.
  - cbn [fold_toks upd_rpc r_header r_status r_body r_trailer r_reset rpc0]. exact Erest.
Qed.

Theorem decode_encode e : wf e = true -> decode (encode e) = Some e.
Proof.
  intro H. unfold decode, encode.
  rewrite dec_msg_render by (apply good_rpc, H). apply fold_rpc, H.
Qed.

(* the encoder is injective on canonical envelopes *)
Corollary encode_injective e1 e2 : wf e1 = true -> wf e2 = true -> encode e1 = encode e2 -> e1 = e2.
Proof.
  intros H1 H2 E. apply decode_encode in H1, H2. rewrite E in H1. congruence.
Qed.

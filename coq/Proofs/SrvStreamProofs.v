From Coq Require Import List Bool Lia.
Import ListNotations.
From Goat Require Import Model.SrvStream.

Section P.
  Context {MD P ST : Type}.
  Notation sstate := (sstate MD).
  Notation sop := (sop MD P ST).
  Notation wenv := (wenv MD P ST).

  Ltac step_cases s o :=
    destruct o as [md|md|md|p|p|st];
    unfold wr_list, wr, nexts, res; cbn [sstep fst snd];
    destruct (hsent s) eqn:?Hh; destruct (tsent s) eqn:?Ht; cbn [fst snd app hsent tsent hdrs trls].

  (* after the headers have left, no envelope carries header metadata and no
     further header metadata is accepted *)
  Lemma sent_no_more (s : sstate) (ops : list sop) :
    hsent s = true ->
    Forall (fun e => hdr_md e = None) (swritten s ops) /\ accepted_hdrs s ops = [].
  Proof.
    revert s. induction ops as [|o ops IH]; intros s Hs; cbn [swritten accepted_hdrs].
    - split; constructor.
    - assert (Hn : hsent (nexts s o) = true).
      { step_cases s o; congruence. }
      destruct (IH _ Hn) as [IH1 IH2]. split.
      + apply Forall_app. split; [|exact IH1].
        step_cases s o; try congruence; repeat constructor.
      + rewrite IH2. step_cases s o; try congruence; reflexivity.
  Qed.

  (* the first envelope written carries everything accepted, whichever of the
     three flush paths produces it; later envelopes carry nothing *)
  Theorem flush_headers (s : sstate) (ops : list sop) :
    hsent s = false ->
    match swritten s ops with
    | [] => True
    | e :: rest =>
        hdr_md e = Some (hdrs s ++ accepted_hdrs s ops) /\
        Forall (fun e' => hdr_md e' = None) rest
    end.
  Proof.
    revert s. induction ops as [|o ops IH]; intros s Hs; cbn [swritten accepted_hdrs]; [exact I|].
    destruct o as [md|md|md|p|p|st].
    - (* SetHeader *)
      unfold wr_list, wr, res, nexts. cbn [sstep]. rewrite Hs. cbn [fst snd app].
      specialize (IH (mkS (hdrs s ++ [md]) false (trls s) (tsent s)) eq_refl).
      destruct (swritten _ ops) as [|e rest]; [exact I|].
      cbn [hdrs] in IH. rewrite <- app_assoc in IH. exact IH.
    - (* SendHeader *)
      unfold wr_list, wr, res, nexts. cbn [sstep]. rewrite Hs. cbn [fst snd app].
      destruct (sent_no_more (mkS (hdrs s ++ [md]) true (trls s) (tsent s)) ops eq_refl) as [H1 H2].
      rewrite H2. split; [reflexivity|exact H1].
    - (* SetTrailer *)
      unfold wr_list, wr, res, nexts. cbn [sstep].
      destruct (tsent s); cbn [fst snd app].
      + apply IH; exact Hs.
      + pose proof (IH (mkS (hdrs s) (hsent s) (trls s ++ [md]) false) Hs) as IH'.
        cbn [hdrs] in IH'. exact IH'.
    - (* SendMsg *)
      unfold wr_list, wr, res, nexts. cbn [sstep]. rewrite Hs. cbn [fst snd app].
      destruct (sent_no_more (mkS (hdrs s) true (trls s) (tsent s)) ops eq_refl) as [H1 H2].
      rewrite H2, app_nil_r. split; [reflexivity|exact H1].
    - (* SendMsgBad: nothing happens *)
      unfold wr_list, wr, res, nexts. cbn [sstep fst snd app]. apply IH; exact Hs.
    - (* SendTrailer *)
      unfold wr_list, wr, res, nexts. cbn [sstep].
      destruct (tsent s) eqn:Et; cbn [fst snd app].
      + apply IH; exact Hs.
      + rewrite Hs.
        destruct (sent_no_more (mkS (hdrs s) true (trls s) true) ops eq_refl) as [H1 H2].
        rewrite H2, app_nil_r. split; [reflexivity|exact H1].
  Qed.

  Definition is_trailer (e : wenv) : bool := match e with WTrailer _ _ _ => true | _ => false end.
  Definition trl_md (e : wenv) : list MD := match e with WTrailer _ t _ => t | _ => [] end.

  Lemma tsent_no_more (s : sstate) (ops : list sop) :
    tsent s = true -> Forall (fun e => is_trailer e = false) (swritten s ops).
  Proof.
    revert s. induction ops as [|o ops IH]; intros s Hs; cbn [swritten]; [constructor|].
    assert (Hn : tsent (nexts s o) = true).
    { step_cases s o; congruence. }
    apply Forall_app. split; [|exact (IH _ Hn)].
    step_cases s o; try congruence; repeat constructor.
  Qed.

  (* at most one trailer envelope is ever written, and it carries exactly the
     SetTrailer arguments accepted before it, in order *)
  Theorem flush_trailers (s : sstate) (ops : list sop) :
    tsent s = false ->
    forall pre e post, swritten s ops = pre ++ e :: post -> is_trailer e = true ->
      Forall (fun e' => is_trailer e' = false) pre /\
      Forall (fun e' => is_trailer e' = false) post /\
      trl_md e = trls s ++ accepted_trls s ops.
  Proof.
    revert s. induction ops as [|o ops IH]; intros s Hs pre e post H He; cbn [swritten accepted_trls] in *.
    - destruct pre; discriminate.
    - destruct o as [md|md|md|p|p|st]; unfold wr_list, wr, nexts in *; cbn [sstep] in *.
      + (* SetHeader *)
        destruct (hsent s); cbn [fst snd app] in *.
        * exact (IH s Hs pre e post H He).
        * exact (IH (mkS (hdrs s ++ [md]) false (trls s) (tsent s)) Hs pre e post H He).
      + (* SendHeader *)
        destruct (hsent s); cbn [fst snd app] in *.
        * exact (IH s Hs pre e post H He).
        * destruct pre as [|p0 pre]; [injection H as <- _; discriminate|].
          injection H as <- H.
          destruct (IH (mkS (hdrs s ++ [md]) true (trls s) (tsent s)) Hs pre e post H He) as (H1 & H2 & H3).
          split; [constructor; [reflexivity|exact H1]|]. split; [exact H2|exact H3].
      + (* SetTrailer *)
        rewrite Hs in *. cbn [fst snd app] in *.
        destruct (IH (mkS (hdrs s) (hsent s) (trls s ++ [md]) false) eq_refl pre e post H He) as (H1 & H2 & H3).
        split; [exact H1|]. split; [exact H2|]. cbn [trls] in H3. rewrite H3, <- app_assoc. reflexivity.
      + (* SendMsg *)
        cbn [fst snd app] in *.
        destruct pre as [|p0 pre]; [injection H as <- _; discriminate|].
        injection H as <- H.
        destruct (IH (mkS (hdrs s) true (trls s) (tsent s)) Hs pre e post H He) as (H1 & H2 & H3).
        split; [constructor; [reflexivity|exact H1]|]. split; [exact H2|exact H3].
      + (* SendMsgBad *)
        cbn [fst snd app] in *. exact (IH s Hs pre e post H He).
      + (* SendTrailer *)
        rewrite Hs in *. cbn [fst snd app] in *.
        pose proof (tsent_no_more (mkS (hdrs s) true (trls s) true) ops eq_refl) as Hn.
        destruct pre as [|p0 pre].
        * injection H as <- <-. split; [constructor|]. split; [exact Hn|].
          cbn [trl_md].
          assert (Hz : forall (s' : sstate) (ops' : list sop), tsent s' = true -> accepted_trls s' ops' = []).
          { clear. intros s' ops'. revert s'. induction ops' as [|o' ops' IH']; intros s' Hs'; [reflexivity|].
            cbn [accepted_trls].
            assert (Hn : tsent (nexts s' o') = true) by (step_cases s' o'; congruence).
            destruct o'; try (apply IH'; exact Hn). rewrite Hs'. apply IH'; exact Hn. }
          rewrite Hz by reflexivity. rewrite app_nil_r. reflexivity.
        * injection H as <- H. exfalso.
          rewrite H in Hn. apply Forall_app in Hn as [_ Hn]. inversion Hn as [|x l Hx _]; subst.
          rewrite He in Hx. discriminate.
  Qed.
End P.

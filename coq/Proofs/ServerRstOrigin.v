(* C06, server half: a reset on the wire answers a body (or an undecodable opener) for a stream id the server does not,
   or no longer, know - as a theorem over all runs. *)
From Coq Require Import List ZArith Bool Lia Arith.
Import ListNotations.
From Goat Require Import Model.Client Model.Server Proofs.ServerProofs Proofs.ServerInv Proofs.ServerTrace Proofs.ServerWriter Proofs.ServerResetW.
Open Scope Z_scope.

(* an envelope counted by [rst_due] was read, calls for a reset, and its id was not open at that point of the history *)
Lemma rst_due_read l f : In f (rst_due l) ->
  exists l1 l2, l = l1 ++ SvRead f :: l2 /\ calls_for_reset f = true /\ id_open (fst (dscan l1)) (fid f) = false.
Proof.
  induction l as [|e l IH] using rev_ind; [intros []|].
  unfold rst_due. rewrite dscan_app. cbn [fold_left]. intros Hin.
  assert (Old : In f (rst_due l) -> exists l1 l2, l ++ [e] = l1 ++ SvRead f :: l2 /\ calls_for_reset f = true /\ id_open (fst (dscan l1)) (fid f) = false).
  { intros Ho. destruct (IH Ho) as [l1 [l2 [E [C O]]]]. exists l1, (l2 ++ [e]). rewrite E, <- app_assoc. auto. }
  destruct e; try (apply Old; exact Hin).
  - simpl in Hin. destruct (calls_for_reset f0 && negb (id_open (fst (dscan l)) (fid f0))) eqn:Ec; [|apply Old; exact Hin].
    apply in_app_or in Hin. destruct Hin as [Hin | [<- | []]]; [apply Old; exact Hin|].
    apply andb_true_iff in Ec. destruct Ec as [C O]. apply negb_true_iff in O. exists l, []. auto.
  - simpl in Hin. destruct unary; apply Old; exact Hin.
Qed.

(* every reset the transport accepted is [rst_reply f] - f's id and method, source and destination swapped - for an
   envelope f the server READ before: a stream-method envelope addressed to it, not itself a reset, carrying a body or -
   without body and trailer - undecodable metadata, whose id was not open (never opened, or already unregistered) when
   it was read. Nothing else makes the server send a reset. *)
Theorem srv_reset_only_answers nw ls s r : lrun (init_n nw) ls = Some s ->
  In (SvWrite r) (log s) -> is_rst r = true ->
  exists f l1 l2, r = rst_reply f /\ log s = l1 ++ SvRead f :: l2 /\ calls_for_reset f = true
                  /\ id_open (fst (dscan l1)) (fid f) = false.
Proof.
  intros H Hw Hr. pose proof (srv_written_taken nw ls s r H Hw) as Ht. apply in_taken in Ht.
  assert (Hin : In r (rsts_taken (log s))) by (unfold rsts_taken; apply filter_In; auto).
  destruct (srv_reset_accounting nw ls s H) as [tail [E _]].
  assert (Hm : In r (map rst_reply (rst_due (log s)))) by (rewrite E; apply in_or_app; now left).
  apply in_map_iff in Hm. destruct Hm as [f [<- Hd]].
  destruct (rst_due_read _ _ Hd) as [l1 [l2 [E1 [C O]]]]. exists f, l1, l2. auto.
Qed.

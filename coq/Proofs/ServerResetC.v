(* C07, server side: a reset TAKEN by the read loop for a registered stream, composed with what follows - no
   "the server has read everything" hypothesis. Over cw's Proofs/ServerCancel.v and sv's Proofs/ServerClosed.v. *)
From Coq Require Import List ZArith Bool Lia Arith.
Import ListNotations.
From Goat Require Import Model.Client Model.Server Proofs.ServerProofs Proofs.ServerInv Proofs.ServerLive Proofs.ServerCancel Proofs.ServerTerm Proofs.ServerClosed.
Open Scope Z_scope.

Theorem srv_reset_cancels s f rest h :
  rd s = RdRead -> inbox s = f :: rest -> dispatch f = DStream -> is_rst f = true ->
  find_reg (fid f) (hs s) 0 = Some h ->
  exists s1, r_rd_read s = Some s1 /\
    forall ls' s', lrun s1 ls' = Some s' ->
      exists k, nth_error (hs s') h = Some k /\ hdone s' k = true
                /\ (quiescent s' = true -> h_blocked k = false)
                /\ (final s' = true -> h_returned k = true).
Proof.
  intros Hr Hi Hd Hrst Hf.
  assert (E : exists s1, r_rd_read s = Some s1) by (unfold r_rd_read; rewrite Hr, Hi, Hd; eauto).
  destruct E as [s1 E]. exists s1. split; [assumption|]. intros ls' s' Hrun.
  destruct (C07_reset_cancels_l s s1 f rest h ls' s' Hr Hi Hd Hrst Hf E Hrun) as [k [Hn Hk]].
  exists k. split; [assumption|]. split; [assumption|]. split.
  - intros Q. exact (C07_handler_unblocks_l s' h k Q Hn Hk).
  - intros F. exact (final_honours s' F h k Hn Hk).
Qed.

(* Writer accounting of Model/Server.v: what the writer goroutine took from writeChan, what became of it. *)
From Coq Require Import List ZArith Bool Lia Arith.
Import ListNotations.
From Goat Require Import Model.Client Model.Server Proofs.ServerProofs Proofs.ServerInv Proofs.ServerTrace.
Open Scope Z_scope.

(* ---------- writer accounting ---------- *)
(* every envelope the writer takes from writeChan is, in order, written or refused by the transport, or still in
   the writer's hands *)
Definition taken_of (l : list sev) : list frame := flat_map (fun e => match e with SvTaken f => [f] | _ => [] end) l.
(* the writer's outcomes in order: (true, f) = the transport accepted f, (false, f) = it refused f *)
Definition outcomes (l : list sev) : list (bool * frame) :=
  flat_map (fun e => match e with SvWrite f => [(true, f)] | SvWFail f => [(false, f)] | _ => [] end) l.
Definition written (l : list sev) : list frame := flat_map (fun e => match e with SvWrite f => [f] | _ => [] end) l.
Definition inflight (s : state) : list frame := match wr s with WrWrite f => [f] | _ => [] end.

Definition inv_tw (s : state) : Prop := taken_of (log s) = map snd (outcomes (log s)) ++ inflight s.

Lemma stream_dispatch_wr s f : wr (stream_dispatch s f) = wr s.
Proof.
  unfold stream_dispatch. destruct (find_reg (fid f) (hs s) 0).
  - destruct (is_rst f); [destruct (nth_error (hs s) n)|]; reflexivity.
  - destruct (is_rst f); auto. destruct (has_body f); auto. destruct (has_trl f); auto. destruct (md_bad f); auto.
Qed.
Lemma start_unary_wr s w f : wr (start_unary s w f) = wr s.
Proof.
  unfold start_unary. destruct (negb (has_hdr f)); auto. destruct (md_bad f); auto. destruct (body_tok f <? 0); auto.
Qed.

Lemma tw_quiet s s' evs :
  inv_tw s -> log s' = log s ++ evs -> wr s' = wr s ->
  (forall e, In e evs -> match e with SvTaken _ | SvWrite _ | SvWFail _ => False | _ => True end) -> inv_tw s'.
Proof.
  intros I El Ew Hq. unfold inv_tw, taken_of, outcomes, inflight in *. rewrite El, Ew, !flat_map_app, map_app.
  assert (E1 : flat_map (fun e => match e with SvTaken f => [f] | _ => [] end) evs = []).
  { clear -Hq. induction evs as [|e evs IH]; [reflexivity|]. simpl. rewrite IH by (intros x Hx; apply Hq; now right).
    specialize (Hq e (or_introl eq_refl)). destruct e; try contradiction; reflexivity. }
  assert (E2 : flat_map (fun e => match e with SvWrite f => [(true, f)] | SvWFail f => [(false, f)] | _ => [] end) evs = []).
  { clear -Hq. induction evs as [|e evs IH]; [reflexivity|]. simpl. rewrite IH by (intros x Hx; apply Hq; now right).
    specialize (Hq e (or_introl eq_refl)). destruct e; try contradiction; reflexivity. }
  rewrite E1, E2. simpl. rewrite !app_nil_r. exact I.
Qed.

Lemma tw_ext s a : inv_tw s -> inv_tw (ext s a).
Proof.
  intros I. destruct a; simpl; try exact I.
  destruct (nth_error (hs s) h) as [k|]; [|exact I]. destruct (h_pc k); try exact I.
  destruct (hstep_log s h k o) as [evs [E Hev]]. destruct (hstep_other s h k o) as [_ [Ew _]].
  apply (tw_quiet s _ evs I E Ew). intros e Hin. specialize (Hev e Hin). destruct e; try contradiction; exact Logic.I.
Qed.

Ltac tw_tac I :=
  unfold inv_tw, taken_of, outcomes, inflight in *; sproj;
  repeat match goal with E : wr _ = _ |- _ => rewrite E in * end;
  rewrite ?flat_map_app, ?map_app; simpl; rewrite ?app_nil_r; try rewrite I; rewrite ?app_nil_r, <- ?app_assoc; auto.

Lemma tw_int s i s' : inv_tw s -> rule_of i s = Some s' -> inv_tw s'.
Proof.
  intros I H. destruct i; simpl in H.
  all: try (start_rule H; tw_tac I; fail).
  - (* r_rd_read *)
    unfold r_rd_read in H. destruct (rd s); try discriminate. destruct (inbox s) as [|f rest].
    + destr_in H; inv_some H; tw_tac I.
    + destruct (dispatch f); inv_some H; try (tw_tac I; fail).
      destruct (stream_dispatch_log (add_log (set_inbox s rest) [SvRead f]) f) as [_ [_ [evs [E2 Hev]]]].
      apply (tw_quiet s _ ([SvRead f] ++ evs) I).
      * rewrite E2. sproj. now rewrite app_assoc.
      * now rewrite stream_dispatch_wr.
      * intros e Hin. apply in_app_or in Hin. destruct Hin as [[<- | []] | Hin]; [exact Logic.I|].
        destruct (Hev _ Hin) as [? [? [? [? [? [? ->]]]]]]. exact Logic.I.
  - (* r_rd_offer *)
    unfold r_rd_offer in H. destruct (rd s); try discriminate. destruct (find_idle (wk s) 0); [|discriminate]. inv_some H.
    destruct (start_unary_log (add_log (set_rd s RdRead) [SvJob n f]) n f) as [_ [_ [evs [E2 Hev]]]].
    apply (tw_quiet s _ ([SvJob n f] ++ evs) I).
    + rewrite E2. sproj. now rewrite app_assoc.
    + now rewrite start_unary_wr.
    + intros e Hin. apply in_app_or in Hin. destruct Hin as [[<- | []] | Hin]; [exact Logic.I|].
      destruct (Hev _ Hin) as [? [? [? [? [? [? ->]]]]]]. exact Logic.I.
Qed.

Theorem srv_taken_written nw ls s : lrun (init_n nw) ls = Some s ->
  taken_of (log s) = map snd (outcomes (log s)) ++ inflight s.
Proof. apply (lrun_inv inv_tw); [apply tw_ext | apply tw_int | reflexivity]. Qed.

(* the envelopes on the wire are the accepted outcomes, in the order the writer took them *)
Lemma written_outcomes l : written l = map snd (filter fst (outcomes l)).
Proof.
  unfold written, outcomes. induction l as [|e l IH]; [reflexivity|]. simpl. rewrite filter_app, map_app, <- IH.
  destruct e; reflexivity.
Qed.

Lemma in_written l f : In f (written l) <-> In (SvWrite f) l.
Proof.
  unfold written. rewrite in_flat_map. split.
  - intros [e [Hin Hf]]. destruct e; try contradiction. destruct Hf as [<- | []]. assumption.
  - intros H. exists (SvWrite f). split; [assumption | left; reflexivity].
Qed.

Lemma in_taken l f : In f (taken_of l) <-> In (SvTaken f) l.
Proof.
  unfold taken_of. rewrite in_flat_map. split.
  - intros [e [Hin Hf]]. destruct e; try contradiction. destruct Hf as [<- | []]. assumption.
  - intros H. exists (SvTaken f). split; [assumption | left; reflexivity].
Qed.

Corollary srv_written_taken nw ls s f : lrun (init_n nw) ls = Some s -> In (SvWrite f) (log s) -> In (SvTaken f) (log s).
Proof.
  intros H Hw. apply in_taken. rewrite (srv_taken_written nw ls s H). apply in_or_app. left.
  apply in_written in Hw. rewrite written_outcomes in Hw. apply in_map_iff in Hw. destruct Hw as [[b g] [E Hin]].
  simpl in E. subst g. apply filter_In in Hin. apply in_map_iff. exists (b, f). split; [reflexivity | apply Hin].
Qed.

(* order: the sequence on the wire is a subsequence of the sequence taken *)
Inductive subseq {A} : list A -> list A -> Prop :=
| sub_nil l : subseq [] l
| sub_keep x a b : subseq a b -> subseq (x :: a) (x :: b)
| sub_skip x a b : subseq a b -> subseq a (x :: b).

Lemma subseq_filter_map {A B} (g : A -> B) (p : A -> bool) l : subseq (map g (filter p l)) (map g l).
Proof. induction l as [|x l IH]; simpl; [constructor|]. destruct (p x); simpl; constructor; assumption. Qed.

Lemma subseq_app_r {A} (a b c : list A) : subseq a b -> subseq a (b ++ c).
Proof. induction 1; simpl; constructor; assumption. Qed.

Corollary srv_written_order nw ls s : lrun (init_n nw) ls = Some s -> subseq (written (log s)) (taken_of (log s)).
Proof.
  intros H. rewrite (srv_taken_written nw ls s H), written_outcomes. apply subseq_app_r. apply subseq_filter_map.
Qed.

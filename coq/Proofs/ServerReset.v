(* C07, server half: once the LAST envelope the server has read for a stream id is the caller's reset, every
   registered handler of that id has been cancelled. *)
From Coq Require Import List ZArith Bool Lia Arith.
Import ListNotations.
From Goat Require Import Model.Client Model.Server Proofs.ServerProofs Proofs.ServerInv Proofs.SysLog Proofs.ServerCancel.
Open Scope Z_scope.

Definition is_sdisp (f : frame) : bool := match dispatch f with DStream => true | _ => false end.

(* scanning the frames read so far: after a reset of stream id i the id is armed; any other stream-method frame of
   the id (which could open a new stream on it) disarms it *)
Definition arm (i : Z) (a : bool) (f : frame) : bool :=
  if (fid f =? i) && is_sdisp f then is_rst f else a.
Definition armed (i : Z) (fs : list frame) : bool := fold_left (arm i) fs false.

Lemma armed_snoc i fs f : armed i (fs ++ [f]) = arm i (armed i fs) f.
Proof. unfold armed. rewrite fold_left_app. reflexivity. Qed.

Definition rinv (i : Z) (s : state) : Prop :=
  armed i (sreads (log s)) = true ->
  forall h k, nth_error (hs s) h = Some k -> h_reg k = true -> fid (h_req k) = i -> h_cancel k = true.

(* handler records: registration only ends, cancellation is for good, the request is fixed - on every step that
   is not the read of an envelope *)
Definition hmono2 (s s' : state) : Prop :=
  forall h k', nth_error (hs s') h = Some k' ->
    exists k, nth_error (hs s) h = Some k /\ (h_cancel k = true -> h_cancel k' = true) /\
              h_req k' = h_req k /\ (h_reg k' = true -> h_reg k = true).

Lemma rinv_keep i s s' : sgrow s s' -> hmono2 s s' -> rinv i s -> rinv i s'.
Proof.
  intros [(evs & E & R) _] M I Ha h k' Hn Hr Hi. rewrite E, sreads_app, R, app_nil_r in Ha.
  destruct (M _ _ Hn) as (k & Hk & C & Q & G). apply C. eapply I; eauto. congruence.
Qed.

Lemma hmono2_refl s s' : hs s' = hs s -> hmono2 s s'.
Proof. intros E h k Hn. exists k. rewrite <- E. auto. Qed.

Lemma hmono2_upd s s' g k0 k' :
  nth_error (hs s) g = Some k0 -> hs s' = upd g k' (hs s) ->
  (h_cancel k0 = true -> h_cancel k' = true) -> h_req k' = h_req k0 -> (h_reg k' = true -> h_reg k0 = true) -> hmono2 s s'.
Proof.
  intros Hg E C R G h k Hn. rewrite E in Hn. rewrite nth_upd in Hn. destruct (Nat.eqb_spec g h).
  - subst. rewrite Hg in Hn. inversion Hn; subst. exists k0. auto.
  - exists k. auto.
Qed.

Lemma hmono2_trans a b c : hmono2 a b -> hmono2 b c -> hmono2 a c.
Proof.
  intros H1 H2 h k Hn. destruct (H2 _ _ Hn) as (k1 & N1 & C1 & R1 & G1). destruct (H1 _ _ N1) as (k0 & N0 & C0 & R0 & G0).
  exists k0. repeat split; auto; congruence.
Qed.

Lemma hstep_mono2 s h k o : nth_error (hs s) h = Some k -> hmono2 s (hstep s h k o).
Proof.
  intros Hn. unfold hstep.
  destruct (h_unary k), o; try destruct (h_hsent k); sproj;
    try (apply hmono2_refl; reflexivity);
    try (eapply (hmono2_upd s _ h k); [exact Hn | reflexivity | simpl; auto | reflexivity | simpl; auto]).
Qed.

Ltac mono2_fin :=
  first [ apply hmono2_refl; reflexivity
        | match goal with Hn : nth_error (hs ?s) ?h = Some ?k |- hmono2 ?s _ =>
            eapply (hmono2_upd s _ h k); [exact Hn | sproj; reflexivity | simpl; auto | reflexivity | simpl; auto]
          end ].

(* every rule but the read and the unary hand-off (which appends a never-registered unary record) *)
Lemma hmono2_int s i s' : i <> RRdRead -> i <> RRdOffer -> rule_of i s = Some s' -> hmono2 s s'.
Proof.
  intros N1 N2 H. destruct i; try congruence; simpl in H.
  all: try (start_rule H; sproj; mono2_fin; fail).
  (* r_h_unreg *)
  unfold r_h_unreg in H. destruct (nth_error (hs s) h) as [k|] eqn:E; try discriminate.
  destruct (h_pc k); try discriminate. destruct (mu_free s); try discriminate.
  assert (M1 : hmono2 s (set_h s h (hset_pc k HDead))).
  { eapply (hmono2_upd s _ h k); [exact E | reflexivity | simpl; auto | reflexivity | simpl; auto]. }
  destruct (find_reg (fid (h_req k)) (hs (set_h s h (hset_pc k HDead))) 0) as [g|]; [|inv_some H; exact M1].
  destruct (nth_error (hs (set_h s h (hset_pc k HDead))) g) as [kg|] eqn:Eg; inv_some H; [|exact M1].
  eapply hmono2_trans; [exact M1|].
  eapply (hmono2_upd _ _ g kg); [exact Eg | reflexivity | simpl; auto | reflexivity | simpl; intros; discriminate].
Qed.

Lemma sgrow_int s i s' : i <> RRdRead -> rule_of i s = Some s' -> sgrow s s'.
Proof.
  intros N H. destruct i; try congruence; simpl in H.
  all: try solve [unf_rules H; destr_in H; inv_some H; sgrow_done].
  unfold r_rd_offer in H. destruct (rd s) eqn:Erd; try discriminate.
  destruct (find_idle (wk s) 0); [|discriminate]. inv_some H.
  eapply sgrow_trans; [|apply sgrow_start_unary]. sgrow_done.
Qed.

Lemma rinv_ext i s a : rinv i s -> rinv i (ext s a).
Proof.
  intros I. destruct a.
  - (* ADeliver: neither the log nor the handlers change *)
    exact I.
  - eapply rinv_keep; eauto. apply slog_ext; intros; discriminate. apply hmono2_refl; reflexivity.
  - eapply rinv_keep; eauto. apply slog_ext; intros; discriminate. apply hmono2_refl; reflexivity.
  - eapply rinv_keep; eauto. apply slog_ext; intros; discriminate. apply hmono2_refl; reflexivity.
  - eapply rinv_keep; eauto. apply slog_ext; intros; discriminate. apply hmono2_refl; reflexivity.
  - eapply rinv_keep; eauto. apply slog_ext; intros; discriminate. apply hmono2_refl; reflexivity.
  - eapply rinv_keep; eauto. apply slog_ext; intros; discriminate.
    simpl. destruct (nth_error (hs s) h) as [k|] eqn:E; [|apply hmono2_refl; reflexivity].
    destruct (h_pc k); try (apply hmono2_refl; reflexivity). apply hstep_mono2; auto.
Qed.

Lemma rinv_int nw i s j s' : inv nw s -> rinv i s -> rule_of j s = Some s' -> rinv i s'.
Proof.
  intros Iv I H.
  assert (Hcase : j = RRdRead \/ j = RRdOffer \/ (j <> RRdRead /\ j <> RRdOffer)).
  { destruct j; auto; right; right; split; discriminate. }
  destruct Hcase as [->|[->|[N1 N2]]].
  - (* the read *)
    simpl in H. unfold r_rd_read in H. destruct (rd s) eqn:Erd; try discriminate.
    destruct (inbox s) as [|f rest] eqn:Ei.
    + eapply rinv_keep; eauto.
      * destr_in H; inv_some H; sgrow_done.
      * destr_in H; inv_some H; apply hmono2_refl; reflexivity.
    + assert (Hlog1 : sreads (log s ++ [SvRead f]) = sreads (log s) ++ [f]) by (rewrite sreads_app; reflexivity).
      destruct (dispatch f) eqn:Ed; inv_some H.
      * (* skipped *)
        intros Ha h k Hn Hr Hi. sproj. rewrite Hlog1, armed_snoc in Ha. unfold arm, is_sdisp in Ha. rewrite Ed, andb_false_r in Ha.
        eapply I; eauto.
      * intros Ha h k Hn Hr Hi. sproj. rewrite Hlog1, armed_snoc in Ha. unfold arm, is_sdisp in Ha. rewrite Ed, andb_false_r in Ha.
        eapply I; eauto.
      * (* a stream-method envelope *)
        assert (Hsd : is_sdisp f = true) by (unfold is_sdisp; rewrite Ed; reflexivity).
        pose proof (sgrow_stream_dispatch (add_log (set_inbox s rest) [SvRead f]) f) as [(evs & El & Er) _].
        intros Ha h k Hn Hr Hi. rewrite El in Ha. sproj. rewrite sreads_app, Er, app_nil_r, Hlog1, armed_snoc in Ha.
        unfold arm in Ha. rewrite Hsd, andb_true_r in Ha.
        unfold stream_dispatch in Hn. sproj.
        destruct (fid f =? i) eqn:Efi.
        -- (* the envelope is of stream i: armed means it is a reset *)
           apply Z.eqb_eq in Efi. rewrite Ha in Hn.
           destruct (find_reg (fid f) (hs s) 0) as [g|] eqn:Ef.
           ++ destruct (find_reg_some _ _ _ _ Ef) as (_ & kg & Hg & Hrg & Hig). rewrite Nat.sub_0_r in Hg. rewrite Hg in Hn. sproj.
              rewrite nth_upd in Hn. destruct (Nat.eqb_spec g h).
              ** subst g. rewrite Hg in Hn. inversion Hn; subst k. reflexivity.
              ** exfalso. apply n. eapply (i_uniq _ _ Iv g h kg k); eauto. congruence.
           ++ exfalso. eapply (find_reg_none _ _ _ Ef h k); eauto. congruence.
        -- (* an envelope of another stream: the handlers of stream i are untouched *)
           assert (Hne : fid f <> i) by (apply Z.eqb_neq; auto).
           destruct (find_reg (fid f) (hs s) 0) as [g|] eqn:Ef.
           ++ destruct (find_reg_some _ _ _ _ Ef) as (_ & kg & Hg & Hrg & Hig). rewrite Nat.sub_0_r in Hg.
              destruct (is_rst f).
              ** rewrite Hg in Hn. sproj. rewrite nth_upd in Hn. destruct (Nat.eqb_spec g h).
                 --- subst g. rewrite Hg in Hn. inversion Hn; subst k. simpl in Hi. congruence.
                 --- eapply I; eauto.
              ** sproj. eapply I; eauto.
           ++ destruct (is_rst f); [sproj; eapply I; eauto|].
              destruct (has_body f); [sproj; eapply I; eauto|].
              destruct (has_trl f); [sproj; eapply I; eauto|].
              destruct (md_bad f); sproj; [eapply I; eauto|].
              apply nth_app_new in Hn. destruct Hn as [Hn|[_ ->]]; [eapply I; eauto|]. simpl in Hi. congruence.
  - (* the unary hand-off appends a record that is never registered *)
    simpl in H. unfold r_rd_offer in H. destruct (rd s) eqn:Erd; try discriminate.
    destruct (find_idle (wk s) 0) as [w|]; try discriminate. inv_some H.
    assert (G : sgrow s (start_unary (add_log (set_rd s RdRead) [SvJob w f]) w f)).
    { eapply sgrow_trans; [|apply sgrow_start_unary]. sgrow_done. }
    destruct G as [(evs & El & Er) _].
    intros Ha h k Hn Hr Hi. rewrite El, sreads_app, Er, app_nil_r in Ha.
    unfold start_unary in Hn. destruct (negb (has_hdr f)); [sproj; eapply I; eauto|].
    destruct (md_bad f); [sproj; eapply I; eauto|]. destruct (body_tok f <? 0); [sproj; eapply I; eauto|].
    sproj. apply nth_app_new in Hn. destruct Hn as [Hn|[_ ->]]; [eapply I; eauto|]. simpl in Hr. discriminate.
  - eapply rinv_keep; eauto. eapply sgrow_int; eauto. eapply hmono2_int; eauto.
Qed.

Theorem rinv_reach nw i ls s : lrun (init_n nw) ls = Some s -> rinv i s.
Proof.
  intros H.
  assert (G : inv nw s /\ rinv i s).
  { revert H. apply (lrun_inv (fun s => inv nw s /\ rinv i s)).
    - intros s0 a [A B]. split; [apply inv_ext; auto | apply rinv_ext; auto].
    - intros s0 j s1 [A B] Hj. split; [eapply inv_int; eauto | eapply rinv_int; eauto].
    - split; [apply inv_init|]. intros _ h k Hn. destruct h; discriminate. }
  tauto.
Qed.

(* C07, server: if the last stream-method envelope of id i that the server has read is a reset, every registered
   handler of id i has a done context *)
Theorem C07_last_reset_cancels_l nw ls s i h k :
  lrun (init_n nw) ls = Some s -> armed i (sreads (log s)) = true ->
  nth_error (hs s) h = Some k -> h_reg k = true -> fid (h_req k) = i -> hdone s k = true.
Proof.
  intros H Ha Hn Hr Hi. unfold hdone. rewrite (rinv_reach _ _ _ _ H Ha _ _ Hn Hr Hi). reflexivity.
Qed.

(* Client model: internal rules keep "every call is unary, has a non-negative payload and is not (going to be) held at
   its yield point". *)
From Coq Require Import List ZArith Bool Lia Arith.
Import ListNotations.
From Goat Require Import Model.Client Proofs.ClientBase.
Open Scope Z_scope.

Definition okc (k : call) : bool :=
  k_unary k && (0 <=? k_payload k) && match k_pc k with PParked | PCheck true => false | _ => true end.

Lemma forallb_upd {A} (p : A -> bool) c x l : forallb p l = true -> p x = true -> forallb p (upd c x l) = true.
Proof.
  revert c. induction l as [|a l IH]; intros c H Hx; [destruct c; reflexivity|]. simpl in H. apply andb_true_iff in H. destruct H as [Ha Hl].
  destruct c; simpl; [now rewrite Hx, Hl | now rewrite Ha, IH].
Qed.

Lemma forallb_nth {A} (p : A -> bool) c x l : forallb p l = true -> nth_error l c = Some x -> p x = true.
Proof. intros H Hn. rewrite forallb_forall in H. apply H. eapply nth_error_In; eassumption. Qed.

Lemma okc_close_all ks : forallb okc ks = true -> forallb okc (close_all ks) = true.
Proof.
  induction ks as [|a l IH]; intros H; [reflexivity|]. simpl in H. apply andb_true_iff in H. destruct H as [Ha Hl].
  simpl. rewrite (IH Hl), andb_true_r. destruct (k_reg a); exact Ha.
Qed.

Ltac okc_tac k :=
  match goal with Hk : okc k = true |- _ =>
    destruct k as [ku kp kpc kid kch kreg kctx sl sc sla srch sd sre str lre ltr lht lab srv shd ssq stq];
    unfold okc in *; csimpl; subst; csimpl;
    repeat match goal with |- context [if ?b then _ else _] => is_var b; destruct b; csimpl end;
    simpl in *;
    first [ discriminate Hk
          | (apply andb_true_iff in Hk; destruct Hk as [Hk1 Hk3]; rewrite ?Hk1; simpl in *;
             repeat match goal with |- context [if ?b then _ else _] => is_var b; destruct b; simpl in * end;
             first [reflexivity | discriminate Hk3 | assumption | congruence]) ]
  end.

Ltac p_call H0 :=
  match goal with
  | E : nth_error (calls ?s) ?c = Some ?k |- forallb okc _ = true =>
      pose proof (forallb_nth okc c k (calls s) H0 E) as Hk;
      csimpl; apply forallb_upd; [exact H0 | okc_tac k]
  end.

Lemma okc_rule s r s' : In r (rules s) -> r s = Some s' -> forallb okc (calls s) = true -> forallb okc (calls s') = true.
Proof.
  intros Hin H H0. apply rules_in in Hin. destruct Hin as [->|[->|(c & _ & Hin)]].
  - unfold r_rl_unblock in H. open_rule H; [exact H0|].
    lazymatch goal with E0 : nth_error (calls s) ?n = Some ?k |- _ => pose proof (forallb_nth okc n k (calls s) H0 E0) as Hk end.
    apply forallb_upd; [exact H0 | exact Hk].
  - unfold r_rl_read in H. open_rule H; try exact H0.
    + now apply okc_close_all.
    + match goal with E2 : nth_error (calls s) ?n = Some ?k |- _ => pose proof (forallb_nth okc n k (calls s) H0 E2) as Hk end.
      apply forallb_upd; [exact H0 | exact Hk].
  - simpl in Hin. destruct Hin as [<-|[<-|[<-|[<-|[<-|[<-|[<-|[<-|[<-|[<-|[<-|[<-|[<-|[<-|[<-|[]]]]]]]]]]]]]]]].
    + unfold r_check in H. open_rule H; p_call H0.
    + unfold r_reg in H. open_rule H; p_call H0.
    + unfold r_wait in H. open_rule H; p_call H0.
    + unfold r_wait_ctx in H. open_rule H; p_call H0.
    + unfold r_unreg in H. open_rule H; p_call H0.
    + unfold r_loop_read in H. open_rule H; p_call H0.
    + unfold r_loop_read_ctx in H. open_rule H; p_call H0.
    + unfold r_loop_hand in H. open_rule H; p_call H0.
    + unfold r_loop_hand_ctx in H. open_rule H; p_call H0.
    + unfold r_loop_exit in H. open_rule H; p_call H0.
    + unfold r_loop_unreg in H. open_rule H; p_call H0.
    + unfold r_recv in H. open_rule H; p_call H0.
    + unfold r_header in H. open_rule H; p_call H0.
    + unfold r_trailer in H. open_rule H; p_call H0.
    + unfold r_send in H. open_rule H; p_call H0.
Qed.

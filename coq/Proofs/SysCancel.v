(* C07 and C11 end to end, on the product model Model/Sys.v: corollaries of the component theorems, the
   projection lemmas (a Sys run projects to a Client run and a Server run) and the wire invariant. *)
From Coq Require Import List ZArith Bool Lia Arith.
Import ListNotations.
From Goat Require Import Model.Client Model.Protocol Model.Server Proofs.ClientBase Proofs.ClientInv Proofs.ClientLive Proofs.ClientLog
  Proofs.ClientProps Proofs.ProtocolClient Proofs.ClientCancel Proofs.ClientWedge
  Proofs.ServerProofs Proofs.ServerInv Proofs.ServerCancel Proofs.ServerReset Proofs.ServerWriter Proofs.ServerProto
  Model.Sys Proofs.SysLog Proofs.SysProofs Proofs.SysC01b.
Open Scope Z_scope.

Lemma wr_cwrites l : wr_of l = cwrites l.
Proof. induction l as [|x l IH]; simpl; auto. destruct x; simpl; rewrite ?IH; auto. Qed.

(* frames of other ids do not matter *)
Lemma armed_filter i fs : armed i fs = armed i (filter (fun f => fid f =? i) fs).
Proof.
  unfold armed. generalize false. induction fs as [|f fs IH]; intros a; simpl; auto.
  destruct (fid f =? i) eqn:E; simpl.
  - apply IH.
  - rewrite <- IH. unfold arm at 2. rewrite E. reflexivity.
Qed.

Lemma armed_last i fs g : fid g = i -> is_sdisp g = true -> Server.is_rst g = true -> armed i (fs ++ [g]) = true.
Proof. intros A B C. rewrite armed_snoc. unfold arm. rewrite A, Z.eqb_refl, B. simpl. exact C. Qed.

Lemma filter_map_env i fs : map f_env (filter (fun f => fid f =? i) fs) = projE i (map f_env fs).
Proof. induction fs as [|f fs IH]; simpl; auto. unfold fid in *. destruct (eid (f_env f) =? i); simpl; rewrite <- IH; auto. Qed.

Lemma map_snoc_inv {A B} (g : A -> B) l pre y : map g l = pre ++ [y] -> exists l0 x, l = l0 ++ [x] /\ map g l0 = pre /\ g x = y.
Proof.
  revert pre. induction l as [|a l IH]; intros pre H; simpl in H.
  - destruct pre; discriminate.
  - destruct pre as [|p pre]; simpl in H.
    + inversion H. destruct l; [|discriminate]. exists [], a. auto.
    + inversion H. destruct (IH _ H2) as (l0 & x & -> & M & G). exists (a :: l0), x. simpl. rewrite M. auto.
Qed.

Lemma nrst_shape id bs nC nR :
  nrst (open_env id :: map (body_env id) bs ++ repeat (close_env id) nC ++ repeat (rst_env id) nR) = nR.
Proof.
  unfold nrst. simpl. rewrite !filter_app, !app_length.
  assert (A : length (filter erst (map (body_env id) bs)) = 0%nat) by (induction bs; simpl; auto).
  assert (B : length (filter erst (repeat (close_env id) nC)) = 0%nat) by (induction nC; simpl; auto).
  assert (C : length (filter erst (repeat (rst_env id) nR)) = nR) by (induction nR; simpl; auto).
  lia.
Qed.

(* ---------- C07 end to end ---------- *)
Lemma C07_sys_l pol ls s c k :
  Sys.lrun pol Sys.init ls = Some s ->
  no_wfail (proj_c pol Sys.init ls) -> api_ok (proj_c pol Sys.init ls) ->
  nth_error (calls (cl s)) c = Some k -> k_pc k = POpen -> s_done k = true -> is_ctx_err (s_rerr k) = true ->
  l_hastrl k = false -> l_abort k = false ->
  nrst (projE (k_id k) (map f_env (sent_c2s s))) = 1%nat /\
  (c2s s = [] -> Server.inbox (sv s) = [] ->
   forall h kh, nth_error (hs (sv s)) h = Some kh -> h_reg kh = true -> fid (h_req kh) = k_id k -> hdone (sv s) kh = true).
Proof.
  intros H Hnw Hapi Hn Hp Hd He Ht Hab.
  pose proof (proj_c_run _ _ _ _ H) as Hc. pose proof (proj_s_run _ _ _ _ H) as Hs. simpl in Hc, Hs.
  destruct (winv_reach _ _ _ H) as [W1 W2 W3].
  pose proof (C07_status_reset_l _ _ _ _ Hc Hnw Hn Hp Hd He Ht) as Hr. unfold rsts, wr in Hr. rewrite wr_cwrites, <- W1 in Hr.
  split; [exact Hr|].
  intros Ec Ei h kh Hh Hreg Hid.
  eapply (C07_last_reset_cancels_l nworkers _ _ (k_id k)); eauto.
  (* everything sent has been read; the last envelope of the id is the reset *)
  rewrite Ec, Ei, !app_nil_r in W2. rewrite W2. rewrite armed_filter.
  destruct (J_reach _ _ Hc) as (J1 & J2 & J3). destruct (J3 _ _ Hn) as (_ & _ & _ & D & _). rewrite Hp in D.
  destruct (D Hab Hapi) as (nC & nR & (bs & S) & _).
  unfold wr in S. rewrite wr_cwrites, <- W1 in S.
  assert (HnR : nR = 1%nat). { rewrite S, nrst_shape in Hr. exact Hr. }
  subst nR. simpl in S. rewrite <- filter_map_env in S.
  change (open_env (k_id k) :: map (body_env (k_id k)) bs ++ repeat (close_env (k_id k)) nC ++ [rst_env (k_id k)])
    with ((open_env (k_id k) :: map (body_env (k_id k)) bs) ++ repeat (close_env (k_id k)) nC ++ [rst_env (k_id k)]) in S.
  rewrite !app_assoc in S. apply map_snoc_inv in S. destruct S as (l0 & g & El & _ & Eg).
  rewrite El. apply armed_last.
  - unfold fid. rewrite Eg. reflexivity.
  - (* the reset frame carries the stream's method kind and the server's name *)
    assert (Hin : In g (sent_c2s s)).
    { assert (X : In g (filter (fun f => fid f =? k_id k) (sent_c2s s))) by (rewrite El; apply in_or_app; right; left; auto).
      apply filter_In in X. tauto. }
    destruct (sent_ok_init _ _ _ H g Hin) as (n' & k' & Hn' & Hid' & Hpos & Hm & Hdst).
    assert (Hg : fid g = k_id k) by (unfold fid; rewrite Eg; reflexivity).
    destruct (ClientInv.inv_reach _ _ Hc) as [HI HS].
    assert (n' = c).
    { destruct (Nat.eq_dec n' c); auto. exfalso. eapply (si_id_uniq _ HS n' c k' k); eauto; try lia; congruence. }
    subst n'. rewrite Hn in Hn'. inversion Hn'; subst k'.
    pose proof (ki_kind _ (cinv_call _ _ _ HI Hn)) as Hk. unfold is_sdisp, dispatch. rewrite Eg. simpl.
    rewrite Hm, Hdst. unfold kind_of. destruct (k_unary k); [rewrite Hp in Hk; discriminate|]. rewrite Z.eqb_refl. reflexivity.
  - unfold Server.is_rst. rewrite Eg. reflexivity.
Qed.

(* in a quiescent state of the system whose server read loop is at its Read (not held by back-pressure, not gone) *)
Lemma C07_sys_quiescent_l pol ls s c k :
  Sys.lrun pol Sys.init ls = Some s ->
  no_wfail (proj_c pol Sys.init ls) -> api_ok (proj_c pol Sys.init ls) ->
  Sys.quiescent s = true -> rd (sv s) = RdRead ->
  nth_error (calls (cl s)) c = Some k -> k_pc k = POpen -> sctx_done k = true -> is_ctx_err (s_rerr k) = true ->
  l_hastrl k = false -> l_abort k = false ->
  nrst (projE (k_id k) (map f_env (sent_c2s s))) = 1%nat /\
  forall h kh, nth_error (hs (sv s)) h = Some kh -> h_reg kh = true -> fid (h_req kh) = k_id k -> hdone (sv s) kh = true.
Proof.
  intros H Hnw Hapi Hq Hrd Hn Hp Hc He Ht Hab.
  unfold Sys.quiescent in Hq. rewrite !andb_true_iff in Hq. destruct Hq as [[[[Q1 Q2] Q3] Q4] Q5].
  pose proof (proj_c_run _ _ _ _ H) as Hcl. simpl in Hcl.
  destruct (C07_caller_unblocked_l _ _ _ _ Hcl Q1 Hn Hp Hc) as (_ & Hd & _).
  destruct (C07_sys_l _ _ _ _ _ H Hnw Hapi Hn Hp Hd He Ht Hab) as [A B]. split; auto.
  apply B.
  - destruct (c2s s); auto; discriminate.
  - apply (C07_srv_all_read_l _ Q2 Hrd).
Qed.

(* ---------- C11 end to end: the probe ---------- *)
(* in a quiescent state of the system a unary call has returned, or is held by the environment at its yield point,
   or waits with a live context for a reply that is not there (both wires are empty and its queue is empty) *)
Lemma C11_sys_probe_l pol ls s c k :
  Sys.lrun pol Sys.init ls = Some s -> Sys.quiescent s = true ->
  nth_error (calls (cl s)) c = Some k -> k_unary k = true ->
  k_pc k = PRet \/ k_pc k = PParked \/
  (k_pc k = PWait /\ ctx_done (k_ctx k) = false /\ cbuf (k_chan k) = None /\ cclosed (k_chan k) = false /\
   s2c s = [] /\ c2s s = []).
Proof.
  intros H Hq Hn Hu. unfold Sys.quiescent in Hq. rewrite !andb_true_iff in Hq. destruct Hq as [[[[Q1 Q2] Q3] Q4] Q5].
  pose proof (proj_c_run _ _ _ _ H) as Hcl. simpl in Hcl.
  destruct (C11_unary_settles_l _ _ _ _ Hcl Q1 Hn Hu) as [A|[A|(A & B & C & D)]]; auto.
  right. right. repeat split; auto.
  - destruct (s2c s); auto; discriminate.
  - destruct (c2s s); auto; discriminate.
Qed.

(* ---------- C06 end to end: what the client puts on the wire keeps the peer's side of the server theorem ---------- *)
Lemma sconf_app i a b : sconf i (a ++ b) -> sconf i a.
Proof.
  intros (A & B & C). split; [|split].
  - intros x Hx. apply A. apply in_or_app; auto.
  - intros pre x post E. apply (B pre x (post ++ b)). rewrite E, <- app_assoc. reflexivity.
  - intros x y Hx Hy. apply C; apply in_or_app; auto.
Qed.

Definition src_ok (s : Sys.state) : Prop := forall fr, In fr (sent_c2s s) -> f_src fr = cli_name.

Lemma src_ok_reach pol ls : forall s s', src_ok s -> Sys.lrun pol s ls = Some s' -> src_ok s'.
Proof.
  induction ls as [|l ls IH]; simpl; intros s s' HS H.
  - inversion H; subst; auto.
  - destruct (Sys.lstep pol s l) as [s1|] eqn:E; [|discriminate]. apply (IH s1); auto.
    destruct l as [x|x| |]; cbn [Sys.lstep] in E.
    + destruct (client_label_ok x); [|discriminate]. destruct (Client.lstep (cl s) x) as [c'|]; [|discriminate].
      inversion E; subst s1. intros fr Hin. cbn [sent_c2s] in Hin. apply in_app_or in Hin. destruct Hin as [Hin|Hin]; auto.
      apply in_map_iff in Hin. destruct Hin as (e & <- & _). reflexivity.
    + destruct (server_label_ok x && pol_ok pol (sv s) x); [|discriminate]. destruct (Server.lstep (sv s) x); [|discriminate].
      inversion E; subst s1. exact HS.
    + destruct (c2s s); [discriminate|]. inversion E; subst s1. exact HS.
    + destruct (s2c s); [discriminate|]. inversion E; subst s1. exact HS.
Qed.

Lemma idf_split i pre g post : fid g = i -> idf i (pre ++ g :: post) = idf i pre ++ g :: idf i post.
Proof. intros H. unfold idf. rewrite filter_app. simpl. rewrite (proj2 (Z.eqb_eq _ _) H). reflexivity. Qed.

Lemma C06_sys_sconf pol ls s c k :
  Sys.lrun pol Sys.init ls = Some s -> api_ok (proj_c pol Sys.init ls) ->
  nth_error (calls (cl s)) c = Some k -> k_pc k = POpen -> l_abort k = false ->
  sconf (k_id k) (sent_c2s s).
Proof.
  intros H Hapi Hn Hp Hab.
  pose proof (proj_c_run _ _ _ _ H) as Hc. simpl in Hc.
  destruct (winv_reach _ _ _ H) as [W1 _ _].
  destruct (ClientInv.inv_reach _ _ Hc) as [HI HS].
  pose proof (cinv_call _ _ _ HI Hn) as K.
  assert (Hpos : 0 < k_id k) by (apply (ki_id _ K); rewrite Hp; reflexivity).
  assert (Hstream : k_unary k = false).
  { pose proof (ki_kind _ K) as Hk. destruct (k_unary k); auto. rewrite Hp in Hk. discriminate. }
  assert (Hown : forall fr, In fr (sent_c2s s) -> fid fr = k_id k -> f_mth fr = MStream 0 /\ f_dst fr = srv_name).
  { intros fr Hin Hid. destruct (sent_ok_init _ _ _ H fr Hin) as (n' & k' & Hn' & Hid' & _ & Hm & Hd).
    assert (n' = c).
    { destruct (Nat.eq_dec n' c); auto. exfalso. eapply (si_id_uniq _ HS n' c k' k); eauto; try lia; congruence. }
    subst n'. rewrite Hn in Hn'. inversion Hn'; subst k'. unfold kind_of in Hm. rewrite Hstream in Hm. auto. }
  (* the shape of the client's envelopes of this id *)
  destruct (J_reach _ _ Hc) as (_ & _ & J3). destruct (J3 _ _ Hn) as (_ & _ & _ & D & _). rewrite Hp in D.
  destruct (D Hab Hapi) as (nC & nR & (bs & S) & _).
  unfold wr in S. rewrite wr_cwrites, <- W1, <- filter_map_env in S. fold (idf (k_id k) (sent_c2s s)) in S.
  split; [|split].
  - intros g Hin Hi Hd. destruct (Hown _ Hin Hi) as (Hm & _). unfold dispatch in Hd. rewrite Hm in Hd.
    destruct (ehdr (f_env g)); try discriminate. destruct (f_dst g =? srv_name); discriminate.
  - intros pre g post E Hi (g0 & Hin0 & Hi0).
    assert (X : In g0 (idf (k_id k) pre)) by (unfold idf; apply filter_In; split; auto; apply Z.eqb_eq; auto).
    rewrite E, (idf_split _ _ _ _ Hi), map_app in S. simpl in S.
    destruct (idf (k_id k) pre) as [|a r]; [destruct X|]. simpl in S. inversion S as [[Sa St]].
    (* g's envelope is among the bodies, closes and resets *)
    assert (Hg : In (f_env g) (map (body_env (k_id k)) bs ++ repeat (close_env (k_id k)) nC ++ repeat (rst_env (k_id k)) nR)).
    { rewrite <- St. apply in_or_app. right. left. reflexivity. }
    unfold hdr_only, has_body, has_trl, Server.is_rst.
    apply in_app_or in Hg. destruct Hg as [Hg|Hg].
    + apply in_map_iff in Hg. destruct Hg as (b & <- & _). reflexivity.
    + apply in_app_or in Hg. destruct Hg as [Hg|Hg]; apply repeat_spec in Hg; rewrite Hg; reflexivity.
  - intros g1 g2 I1 I2 E1 E2. destruct (Hown _ I1 E1) as (M1 & D1). destruct (Hown _ I2 E2) as (M2 & D2).
    assert (Hsrc : src_ok s) by (eapply (src_ok_reach pol ls Sys.init s); [intros fr []|exact H]).
    repeat split; try congruence. rewrite (Hsrc _ I1), (Hsrc _ I2). reflexivity.
Qed.

(* C06 end to end: for every run of the system with API-conformant users, the envelopes the SERVER writes for the id
   of a (non-aborted) stream call of the client are accepted by the server-to-client automaton; the envelopes the
   CLIENT writes for it are accepted by the client-to-server automaton (C06_client on the projected run) *)
Lemma C06_sys_l pol ls s c k :
  Sys.lrun pol Sys.init ls = Some s -> api_ok (proj_c pol Sys.init ls) ->
  nth_error (calls (cl s)) c = Some k -> k_pc k = POpen -> l_abort k = false ->
  proto_s2c false (proj (k_id k) (map pf (written (Server.log (sv s))))) = true /\
  forall rt, proto_c2s (proj (k_id k) (map (lift rt) (wr (cl s)))) = true.
Proof.
  intros H Hapi Hn Hp Hab. split.
  - pose proof (proj_s_run _ _ _ _ H) as Hs. simpl in Hs.
    eapply (C06_server_stream_l nworkers); eauto.
    destruct (winv_reach _ _ _ H) as [_ W2 _].
    pose proof (C06_sys_sconf _ _ _ _ _ H Hapi Hn Hp Hab) as Sc. rewrite <- W2 in Sc. eapply sconf_app; eauto.
  - intros rt. pose proof (proj_c_run _ _ _ _ H) as Hc. simpl in Hc.
    eapply C06_client_l; eauto.
    intros c' k' Hn' Hid. destruct (ClientInv.inv_reach _ _ Hc) as [HI HS].
    assert (c' = c).
    { destruct (Nat.eq_dec c' c); auto. exfalso.
      assert (Hpos : 0 < k_id k) by (apply (ki_id _ (cinv_call _ _ _ HI Hn)); rewrite Hp; reflexivity).
      eapply (si_id_uniq _ HS c' c k' k); eauto; try lia. }
    subst c'. rewrite Hn in Hn'. inversion Hn'; subst k'. exact Hab.
Qed.

(* C07 and C11 end to end, on the product model Model/Sys.v: corollaries of the component theorems, the
   projection lemmas (a Sys run projects to a Client run and a Server run) and the wire invariant. *)
From Coq Require Import List ZArith Bool Lia Arith.
Import ListNotations.
From Goat Require Import Model.Client Model.Server Proofs.ClientBase Proofs.ClientInv Proofs.ClientLive Proofs.ClientLog
  Proofs.ClientProps Proofs.ProtocolClient Proofs.ClientCancel Proofs.ClientWedge
  Proofs.ServerProofs Proofs.ServerInv Proofs.ServerCancel Proofs.ServerReset
  Model.Sys Proofs.SysLog Proofs.SysProofs Proofs.SysC01b.
Open Scope Z_scope.

Lemma wr_cwrites l : wr_of l = cwrites l.
Proof. induction l as [|x l IH]; simpl; auto. destruct x; simpl; rewrite ?IH; auto. Qed.

(* frames of other ids do not matter *)
Lemma armed_filter i fs : armed i fs = armed i (filter (fun f => fid f =? i) fs).
Proof.
  unfold armed. generalize false. induction fs as [|f fs IH]; intros a; simpl; auto.
  destruct (fid f =? i) eqn:E; simpl.
  - apply IH.
  - rewrite <- IH. unfold arm at 2. rewrite E. reflexivity.
Qed.

Lemma armed_last i fs g : fid g = i -> is_sdisp g = true -> Server.is_rst g = true -> armed i (fs ++ [g]) = true.
Proof. intros A B C. rewrite armed_snoc. unfold arm. rewrite A, Z.eqb_refl, B. simpl. exact C. Qed.

Lemma filter_map_env i fs : map f_env (filter (fun f => fid f =? i) fs) = projE i (map f_env fs).
Proof. induction fs as [|f fs IH]; simpl; auto. unfold fid in *. destruct (eid (f_env f) =? i); simpl; rewrite <- IH; auto. Qed.

Lemma map_snoc_inv {A B} (g : A -> B) l pre y : map g l = pre ++ [y] -> exists l0 x, l = l0 ++ [x] /\ map g l0 = pre /\ g x = y.
Proof.
  revert pre. induction l as [|a l IH]; intros pre H; simpl in H.
  - destruct pre; discriminate.
  - destruct pre as [|p pre]; simpl in H.
    + inversion H. destruct l; [|discriminate]. exists [], a. auto.
    + inversion H. destruct (IH _ H2) as (l0 & x & -> & M & G). exists (a :: l0), x. simpl. rewrite M. auto.
Qed.

Lemma nrst_shape id bs nC nR :
  nrst (open_env id :: map (body_env id) bs ++ repeat (close_env id) nC ++ repeat (rst_env id) nR) = nR.
Proof.
  unfold nrst. simpl. rewrite !filter_app, !app_length.
  assert (A : length (filter erst (map (body_env id) bs)) = 0%nat) by (induction bs; simpl; auto).
  assert (B : length (filter erst (repeat (close_env id) nC)) = 0%nat) by (induction nC; simpl; auto).
  assert (C : length (filter erst (repeat (rst_env id) nR)) = nR) by (induction nR; simpl; auto).
  lia.
Qed.

(* ---------- C07 end to end ---------- *)
Lemma C07_sys_l pol ls s c k :
  Sys.lrun pol Sys.init ls = Some s ->
  no_wfail (proj_c pol Sys.init ls) -> api_ok (proj_c pol Sys.init ls) ->
  nth_error (calls (cl s)) c = Some k -> k_pc k = POpen -> s_done k = true -> is_ctx_err (s_rerr k) = true ->
  l_hastrl k = false -> l_abort k = false ->
  nrst (projE (k_id k) (map f_env (sent_c2s s))) = 1%nat /\
  (c2s s = [] -> Server.inbox (sv s) = [] ->
   forall h kh, nth_error (hs (sv s)) h = Some kh -> h_reg kh = true -> fid (h_req kh) = k_id k -> hdone (sv s) kh = true).
Proof.
  intros H Hnw Hapi Hn Hp Hd He Ht Hab.
  pose proof (proj_c_run _ _ _ _ H) as Hc. pose proof (proj_s_run _ _ _ _ H) as Hs. simpl in Hc, Hs.
  destruct (winv_reach _ _ _ H) as [W1 W2 W3].
  pose proof (C07_status_reset_l _ _ _ _ Hc Hnw Hn Hp Hd He Ht) as Hr. unfold rsts, wr in Hr. rewrite wr_cwrites, <- W1 in Hr.
  split; [exact Hr|].
  intros Ec Ei h kh Hh Hreg Hid.
  eapply (C07_last_reset_cancels_l nworkers _ _ (k_id k)); eauto.
  (* everything sent has been read; the last envelope of the id is the reset *)
  rewrite Ec, Ei, !app_nil_r in W2. rewrite W2. rewrite armed_filter.
  destruct (J_reach _ _ Hc) as (J1 & J2 & J3). destruct (J3 _ _ Hn) as (_ & _ & _ & D & _). rewrite Hp in D.
  destruct (D Hab Hapi) as (nC & nR & (bs & S) & _).
  unfold wr in S. rewrite wr_cwrites, <- W1 in S.
  assert (HnR : nR = 1%nat). { rewrite S, nrst_shape in Hr. exact Hr. }
  subst nR. simpl in S. rewrite <- filter_map_env in S.
  change (open_env (k_id k) :: map (body_env (k_id k)) bs ++ repeat (close_env (k_id k)) nC ++ [rst_env (k_id k)])
    with ((open_env (k_id k) :: map (body_env (k_id k)) bs) ++ repeat (close_env (k_id k)) nC ++ [rst_env (k_id k)]) in S.
  rewrite !app_assoc in S. apply map_snoc_inv in S. destruct S as (l0 & g & El & _ & Eg).
  rewrite El. apply armed_last.
  - unfold fid. rewrite Eg. reflexivity.
  - (* the reset frame carries the stream's method kind and the server's name *)
    assert (Hin : In g (sent_c2s s)).
    { assert (X : In g (filter (fun f => fid f =? k_id k) (sent_c2s s))) by (rewrite El; apply in_or_app; right; left; auto).
      apply filter_In in X. tauto. }
    destruct (sent_ok_init _ _ _ H g Hin) as (n' & k' & Hn' & Hid' & Hpos & Hm & Hdst).
    assert (Hg : fid g = k_id k) by (unfold fid; rewrite Eg; reflexivity).
    destruct (ClientInv.inv_reach _ _ Hc) as [HI HS].
    assert (n' = c).
    { destruct (Nat.eq_dec n' c); auto. exfalso. eapply (si_id_uniq _ HS n' c k' k); eauto; try lia; congruence. }
    subst n'. rewrite Hn in Hn'. inversion Hn'; subst k'.
    pose proof (ki_kind _ (cinv_call _ _ _ HI Hn)) as Hk. unfold is_sdisp, dispatch. rewrite Eg. simpl.
    rewrite Hm, Hdst. unfold kind_of. destruct (k_unary k); [rewrite Hp in Hk; discriminate|]. rewrite Z.eqb_refl. reflexivity.
  - unfold Server.is_rst. rewrite Eg. reflexivity.
Qed.

(* in a quiescent state of the system whose server read loop is at its Read (not held by back-pressure, not gone) *)
Lemma C07_sys_quiescent_l pol ls s c k :
  Sys.lrun pol Sys.init ls = Some s ->
  no_wfail (proj_c pol Sys.init ls) -> api_ok (proj_c pol Sys.init ls) ->
  Sys.quiescent s = true -> rd (sv s) = RdRead ->
  nth_error (calls (cl s)) c = Some k -> k_pc k = POpen -> sctx_done k = true -> is_ctx_err (s_rerr k) = true ->
  l_hastrl k = false -> l_abort k = false ->
  nrst (projE (k_id k) (map f_env (sent_c2s s))) = 1%nat /\
  forall h kh, nth_error (hs (sv s)) h = Some kh -> h_reg kh = true -> fid (h_req kh) = k_id k -> hdone (sv s) kh = true.
Proof.
  intros H Hnw Hapi Hq Hrd Hn Hp Hc He Ht Hab.
  unfold Sys.quiescent in Hq. rewrite !andb_true_iff in Hq. destruct Hq as [[[[Q1 Q2] Q3] Q4] Q5].
  pose proof (proj_c_run _ _ _ _ H) as Hcl. simpl in Hcl.
  destruct (C07_caller_unblocked_l _ _ _ _ Hcl Q1 Hn Hp Hc) as (_ & Hd & _).
  destruct (C07_sys_l _ _ _ _ _ H Hnw Hapi Hn Hp Hd He Ht Hab) as [A B]. split; auto.
  apply B.
  - destruct (c2s s); auto; discriminate.
  - apply (C07_srv_all_read_l _ Q2 Hrd).
Qed.

(* ---------- C11 end to end: the probe ---------- *)
(* in a quiescent state of the system a unary call has returned, or is held by the environment at its yield point,
   or waits with a live context for a reply that is not there (both wires are empty and its queue is empty) *)
Lemma C11_sys_probe_l pol ls s c k :
  Sys.lrun pol Sys.init ls = Some s -> Sys.quiescent s = true ->
  nth_error (calls (cl s)) c = Some k -> k_unary k = true ->
  k_pc k = PRet \/ k_pc k = PParked \/
  (k_pc k = PWait /\ ctx_done (k_ctx k) = false /\ cbuf (k_chan k) = None /\ cclosed (k_chan k) = false /\
   s2c s = [] /\ c2s s = []).
Proof.
  intros H Hq Hn Hu. unfold Sys.quiescent in Hq. rewrite !andb_true_iff in Hq. destruct Hq as [[[[Q1 Q2] Q3] Q4] Q5].
  pose proof (proj_c_run _ _ _ _ H) as Hcl. simpl in Hcl.
  destruct (C11_unary_settles_l _ _ _ _ Hcl Q1 Hn Hu) as [A|[A|(A & B & C & D)]]; auto.
  right. right. repeat split; auto.
  - destruct (s2c s); auto; discriminate.
  - destruct (c2s s); auto; discriminate.
Qed.

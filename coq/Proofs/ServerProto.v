(* C06, server half, on Model/Server.v: the envelopes of one stream id that the server hands to its writer
   (and so, in order, the ones it writes) are accepted by the server-to-client protocol automaton. *)
From Coq Require Import List ZArith Bool Lia Arith.
Import ListNotations.
From Goat Require Import Model.Client Model.Protocol Model.Server Proofs.ServerProofs Proofs.ServerInv Proofs.ServerTrace
  Proofs.SysLog Proofs.ServerCancel Proofs.ServerOrigin Proofs.ServerWriter.
Open Scope Z_scope.

(* ---------- the stream automaton as a state function ---------- *)
Definition s2c_step (st : sst) (e : penv) : option sst :=
  match st with
  | SSStart => if is_open e then Some SSMid else if is_body e then Some SSMid
               else if is_trailer e then Some SSClosed else if Protocol.is_rst e then Some SSReset else None
  | SSMid => if negb (md_of e =? 0) then None
             else if is_body e then Some SSMid else if is_trailer e then Some SSClosed
             else if Protocol.is_rst e then Some SSReset else None
  | SSClosed => if Protocol.is_rst e && (md_of e =? 0) then Some SSClosed else None
  | SSReset => if Protocol.is_rst e && (md_of e =? 0) then Some SSReset else None
  end.

Fixpoint s2c_end (st : sst) (l : list penv) : option sst :=
  match l with
  | [] => Some st
  | e :: r => match s2c_step st e with Some st' => s2c_end st' r | None => None end
  end.

Lemma s2c_stream_end st l : s2c_stream st l = true <-> s2c_end st l <> None.
Proof.
  revert st. induction l as [|e r IH]; intros st; simpl.
  - split; [discriminate | auto].
  - destruct st; simpl;
      repeat match goal with |- context [if ?b then _ else _] => destruct b eqn:? end;
      simpl; try apply IH; split; try discriminate; try congruence; auto.
Qed.

Lemma s2c_end_snoc st l e :
  s2c_end st (l ++ [e]) = match s2c_end st l with Some st' => s2c_step st' e | None => None end.
Proof.
  revert st. induction l as [|x r IH]; intros st; simpl.
  - destruct (s2c_step st e); auto.
  - destruct (s2c_step st x); auto.
Qed.

(* acceptance only shrinks along a run: Closed/Reset <= Mid <= Start *)
Definition sle (a b : sst) : bool :=
  match a, b with
  | _, SSStart => true
  | SSStart, _ => false
  | _, SSMid => true
  | SSMid, _ => false
  | _, _ => true          (* Closed and Reset accept the same sequences *)
  end.

Lemma s2c_step_mono a b e a' : sle a b = true -> s2c_step a e = Some a' -> exists b', s2c_step b e = Some b' /\ sle a' b' = true.
Proof.
  intros L H. destruct a, b; try discriminate L; simpl in *;
    repeat match type of H with context [if ?x then _ else _] => destruct x eqn:?; simpl in * end;
    try discriminate H; inversion H; subst; simpl;
    repeat match goal with |- context [if ?x then _ else _] => destruct x eqn:?; simpl in * end;
    try discriminate; try congruence; eauto;
    try (exfalso; repeat match goal with X : _ && _ = true |- _ => apply andb_true_iff in X; destruct X end;
         repeat match goal with X : negb _ = true |- _ => apply negb_true_iff in X end; congruence).
Qed.

Lemma sle_refl a : sle a a = true.
Proof. destruct a; reflexivity. Qed.

Lemma sle_trans a b c : sle a b = true -> sle b c = true -> sle a c = true.
Proof. destruct a, b, c; simpl; auto. Qed.

Lemma s2c_step_down a e a' : s2c_step a e = Some a' -> sle a' a = true.
Proof.
  destruct a; simpl; repeat match goal with |- context [if ?x then _ else _] => destruct x end;
    intros H; inversion H; reflexivity.
Qed.

Lemma s2c_end_mono l : forall a b a', sle a b = true -> s2c_end a l = Some a' -> exists b', s2c_end b l = Some b' /\ sle a' b' = true.
Proof.
  induction l as [|e r IH]; simpl; intros a b a' L H.
  - inversion H; subst. eauto.
  - destruct (s2c_step a e) as [a1|] eqn:E; try discriminate.
    destruct (s2c_step_mono _ _ _ _ L E) as (b1 & Eb & L1). rewrite Eb. eauto.
Qed.

Inductive Sub {A} : list A -> list A -> Prop :=
| SubNil : Sub [] []
| SubSkip x l1 l2 : Sub l1 l2 -> Sub l1 (x :: l2)
| SubKeep x l1 l2 : Sub l1 l2 -> Sub (x :: l1) (x :: l2).

Lemma Sub_refl {A} (l : list A) : Sub l l.
Proof. induction l; [apply SubNil | apply SubKeep; auto]. Qed.

Lemma Sub_app {A} (a b c d : list A) : Sub a b -> Sub c d -> Sub (a ++ c) (b ++ d).
Proof. intros H. induction H; simpl; intros; [auto | apply SubSkip; auto | apply SubKeep; auto]. Qed.

Lemma Sub_nil {A} (l : list A) : Sub [] l.
Proof. induction l; [apply SubNil | apply SubSkip; auto]. Qed.

Lemma Sub_map {A B} (g : A -> B) l1 l2 : Sub l1 l2 -> Sub (map g l1) (map g l2).
Proof. intros H. induction H; simpl; [apply SubNil | apply SubSkip; auto | apply SubKeep; auto]. Qed.

Lemma Sub_filter {A} (p : A -> bool) l1 l2 : Sub l1 l2 -> Sub (filter p l1) (filter p l2).
Proof. intros H. induction H; simpl; [apply SubNil | destruct (p x); [apply SubSkip|]; auto | destruct (p x); [apply SubKeep|]; auto]. Qed.

Lemma Sub_in {A} (l1 l2 : list A) x : Sub l1 l2 -> In x l1 -> In x l2.
Proof. intros H. induction H; simpl; intros; auto. destruct H0; auto. Qed.

(* a subsequence of an accepted sequence is accepted *)
Lemma s2c_end_sub l1 l2 : Sub l1 l2 -> forall st st2, s2c_end st l2 = Some st2 ->
  exists st1, s2c_end st l1 = Some st1 /\ sle st2 st1 = true.
Proof.
  intros H. induction H; intros st st2 E; simpl in *.
  - inversion E; subst. exists st2. split; auto. apply sle_refl.
  - destruct (s2c_step st x) as [st'|] eqn:Es; try discriminate.
    destruct (IHSub _ _ E) as (s1 & E1 & L1).
    destruct (s2c_end_mono _ _ _ _ (s2c_step_down _ _ _ Es) E1) as (s1' & E1' & L1').
    exists s1'. split; auto. eapply sle_trans; eauto.
  - destruct (s2c_step st x) as [st'|] eqn:Es; try discriminate. eauto.
Qed.

Lemma const_route_sub l1 l2 : Sub l1 l2 -> (forall a b, In a l2 -> In b l2 -> same_route a b = true) ->
  (forall a, In a l2 -> has (p_hdr a) = true) -> const_route l1 = true.
Proof.
  intros S R Hh. destruct l1 as [|e r]; simpl; auto.
  assert (Ie : In e l2) by (eapply Sub_in; eauto; left; auto).
  rewrite (Hh _ Ie). simpl. apply forallb_forall. intros x Hx. apply R; auto. eapply Sub_in; eauto. right; auto.
Qed.

(* ---------- what the server hands to its writer ---------- *)
Fixpoint tk (l : list sev) : list frame :=
  match l with
  | [] => []
  | SvTaken f :: t => f :: tk t
  | _ :: t => tk t
  end.

Lemma tk_app a b : tk (a ++ b) = tk a ++ tk b.
Proof. induction a as [|x a IH]; simpl; auto. destruct x; simpl; rewrite ?IH; auto. Qed.

Definition idf (i : Z) (fs : list frame) : list frame := filter (fun f => fid f =? i) fs.

Lemma idf_app i a b : idf i (a ++ b) = idf i a ++ idf i b.
Proof. apply filter_app. Qed.

Definition mtok (m : mkind) : Z :=
  match m with MBad => -1 | MUnkSvc => -2 | MUnkMeth => -3 | MUnary x => 2 * x | MStream x => 2 * x + 1 end.

(* a frame as an envelope of Model/Protocol.v *)
Definition pf (f : frame) : penv :=
  mkP (fid f)
      (match ehdr (f_env f) with
       | Some (MdOk t) => Some (mkHd (mtok (f_mth f)) (f_src f) (f_dst f) t)
       | Some MdBad => Some (mkHd (mtok (f_mth f)) (f_src f) (f_dst f) (-1))
       | None => None
       end)
      (match estatus (f_env f) with Some st => Some (st_code st) | None => None end)
      (ebody (f_env f))
      (match etrl (f_env f) with Some (MdOk t) => Some t | Some MdBad => Some (-1) | None => None end)
      (erst (f_env f)).

(* ---------- the peer's side of the bargain, for stream id i ---------- *)
Definition hdr_only (g : frame) : bool := negb (has_body g) && negb (has_trl g) && negb (Server.is_rst g).

Definition sconf (i : Z) (reads : list frame) : Prop :=
  (forall g, In g reads -> fid g = i -> dispatch g <> DUnary) /\
  (forall pre g post, reads = pre ++ g :: post -> fid g = i -> (exists g0, In g0 pre /\ fid g0 = i) -> hdr_only g = false) /\
  (forall g1 g2, In g1 reads -> In g2 reads -> fid g1 = i -> fid g2 = i ->
                 f_mth g1 = f_mth g2 /\ f_src g1 = f_src g2 /\ f_dst g1 = f_dst g2).

Lemma sconf_prefix i r g : sconf i (r ++ [g]) -> sconf i r.
Proof.
  intros (A & B & C). split; [|split].
  - intros x Hx. apply A. apply in_or_app; auto.
  - intros pre x post E. apply (B pre x (post ++ [g])). rewrite E, <- app_assoc. reflexivity.
  - intros x y Hx Hy. apply C; apply in_or_app; auto.
Qed.

(* ---------- the invariant ---------- *)
Definition hfor (i : Z) (s : state) (h : nat) (k : hnd) : Prop := nth_error (hs s) h = Some k /\ fid (h_req k) = i.

Definition shape_ok (kd : skind) (f : frame) : Prop :=
  match kd with
  | KMsg => is_body (pf f) = true
  | KHdr => is_open (pf f) = true
  | KTrl => is_trailer (pf f) = true
  end.

Definition coup (i : Z) (k : hnd) (st : sst) : Prop :=
  match h_pc k with
  | HUnreg | HDead => True
  | HInSend f kd =>
      (st = SSStart \/ st = SSMid) /\ (h_hsent k = false -> st = SSStart) /\
      fid f = i /\ shape_ok kd f /\ (md_of (pf f) <> 0 -> st = SSStart) /\
      match kd with KHdr => h_hsent k = false | _ => h_hsent k = true end
  | _ => (st = SSStart \/ st = SSMid) /\ (h_hsent k = false -> st = SSStart)
  end.

Record pinv (i : Z) (s : state) : Prop := mkPinv {
  pv_orig : forall f, In f (tk (log s)) -> has_origin (log s) f;
  pv_wk : sconf i (sreads (log s)) -> forall w f, nth_error (wk s) w = Some (WkHand f) -> fid f <> i;
  pv_uniq : sconf i (sreads (log s)) -> forall h1 h2 k1 k2, hfor i s h1 k1 -> hfor i s h2 k2 -> h1 = h2;
  pv_rst : sconf i (sreads (log s)) -> forall f, rd s = RdRst f -> fid f = i -> forall h k, hfor i s h k -> h_reg k = false;
  pv_shape : sconf i (sreads (log s)) ->
             exists st, s2c_end SSStart (map pf (idf i (tk (log s)))) = Some st /\
                        (forall h k, hfor i s h k -> coup i k st) /\
                        ((forall h k, ~ hfor i s h k) -> st = SSStart \/ st = SSReset) }.

Lemma pinv_init nw i : pinv i (init_n nw).
Proof.
  constructor; simpl; intros; try tauto.
  - apply nth_repeat in H0. discriminate.
  - destruct H0 as [H0 _]. destruct h1; discriminate.
  - discriminate.
  - exists SSStart. split; auto. split; auto. intros h k [H0 _]. destruct h; discriminate.
Qed.

Lemma in_sreads' f l : In f (sreads l) <-> In (SvRead f) l.
Proof.
  induction l as [|x l IH]; simpl; [tauto|]. destruct x; simpl; rewrite ?IH; try (split; [auto | intros [X|X]; [discriminate|auto]]).
  split; [intros [->|X]; auto | intros [X|X]; [inversion X; auto | auto]].
Qed.

(* a handler of stream id i is a stream handler: a unary handler starts from a unary-method envelope *)
Lemma hfor_stream nw ls s i h k :
  lrun (init_n nw) ls = Some s -> sconf i (sreads (log s)) -> hfor i s h k -> h_unary k = false.
Proof.
  intros H (A & _) [Hn Hi]. destruct (h_unary k) eqn:Hu; auto. exfalso.
  destruct (srv_dispatch _ _ _ H) as (_ & Hreq).
  assert (Hin : In (true, h_req k) (sigs s)).
  { unfold sigs. apply in_map_iff. exists k. split; [unfold hsig; rewrite Hu; reflexivity | eapply nth_error_In; eauto]. }
  specialize (Hreq _ Hin). simpl in Hreq. destruct Hreq as (Hd & _).
  pose proof (o_h _ (orig_reach _ _ _ H) _ _ Hn) as Hr. apply (A (h_req k)); auto. apply in_sreads'. exact Hr.
Qed.

(* the general frame: nothing of stream i is taken, nothing is read, the handlers of id i keep their coupling *)
Lemma pinv_frame i s s' evs :
  pinv i s ->
  log s' = log s ++ evs -> sreads evs = [] -> (sconf i (sreads (log s)) -> idf i (tk evs) = []) ->
  (forall f, In f (tk evs) -> has_origin (log s ++ evs) f) ->
  (forall h k', nth_error (hs s') h = Some k' ->
     exists k, nth_error (hs s) h = Some k /\ h_req k' = h_req k /\ (h_reg k' = true -> h_reg k = true) /\
               (fid (h_req k) = i -> forall st, coup i k st -> coup i k' st)) ->
  (forall h k, nth_error (hs s) h = Some k -> exists k', nth_error (hs s') h = Some k') ->
  (sconf i (sreads (log s)) -> forall w f, nth_error (wk s') w = Some (WkHand f) ->
     (exists w', nth_error (wk s) w' = Some (WkHand f)) \/ fid f <> i) ->
  (forall f, rd s' = RdRst f -> rd s = RdRst f) ->
  pinv i s'.
Proof.
  intros [P1 P2 P3 P4 P5] El Er Et Ho Hh Hex Hw Hrd.
  assert (Hreads : sreads (log s') = sreads (log s)) by (rewrite El, sreads_app, Er, app_nil_r; auto).
  assert (Htk : sconf i (sreads (log s)) -> idf i (tk (log s')) = idf i (tk (log s))) by (intros X; rewrite El, tk_app, idf_app, (Et X), app_nil_r; auto).
  assert (Hback : forall h k', hfor i s' h k' -> exists k, hfor i s h k /\ (h_reg k' = true -> h_reg k = true) /\ (forall st, coup i k st -> coup i k' st)).
  { intros h k' [Hn Hi]. destruct (Hh _ _ Hn) as (k & Hk & Hq & Hg & Hc). exists k. rewrite Hq in Hi. repeat split; auto. }
  constructor; rewrite ?Hreads.
  - intros f Hin. rewrite El in *. rewrite tk_app in Hin. apply in_app_or in Hin. destruct Hin as [Hin|Hin]; auto.
    apply origin_mono; auto.
  - intros Hs w f Hn. destruct (Hw Hs _ _ Hn) as [(w' & Hn')|Hne]; eauto.
  - intros Hs h1 h2 k1 k2 H1 H2. destruct (Hback _ _ H1) as (x1 & X1 & _). destruct (Hback _ _ H2) as (x2 & X2 & _). eapply P3; eauto.
  - intros Hs f Hr Hf h k Hk. destruct (Hback _ _ Hk) as (x & X & G & _).
    destruct (h_reg k) eqn:E; auto. rewrite (P4 Hs _ (Hrd _ Hr) Hf _ _ X) in G. symmetry. apply G. reflexivity.
  - intros Hs. destruct (P5 Hs) as (st & E & C1 & C2). exists st. rewrite (Htk Hs). split; auto. split.
    + intros h k' Hk. destruct (Hback _ _ Hk) as (x & X & _ & Hc). apply Hc. eapply C1; eauto.
    + intros Hno. apply C2. intros h k [Hn Hi]. destruct (Hex _ _ Hn) as (k' & Hn').
      destruct (Hh _ _ Hn') as (k0 & Hk0 & Hq & _). rewrite Hn in Hk0. inversion Hk0; subst k0.
      apply (Hno h k'). split; auto. congruence.
Qed.

Lemma nth_upd_inv' {A} g (x : A) l h y :
  nth_error (upd g x l) h = Some y -> (h = g /\ y = x /\ exists y0, nth_error l h = Some y0) \/ (h <> g /\ nth_error l h = Some y).
Proof.
  rewrite nth_upd. destruct (Nat.eqb_spec g h).
  - subst. destruct (nth_error l h) eqn:E; intros H; inversion H; left; eauto.
  - auto.
Qed.

Lemma nth_upd_ex {A} g (x : A) l h y : nth_error l h = Some y -> exists y', nth_error (upd g x l) h = Some y'.
Proof. intros H. rewrite nth_upd. destruct (Nat.eqb g h); rewrite H; eauto. Qed.

(* handler h (record k, at its gate) becomes k'; the log grows by events that are neither reads nor takes *)
Lemma pinv_hupd i s s' h k k' evs :
  pinv i s -> nth_error (hs s) h = Some k ->
  log s' = log s ++ evs -> sreads evs = [] -> tk evs = [] ->
  hs s' = upd h k' (hs s) -> h_req k' = h_req k -> (h_reg k' = true -> h_reg k = true) ->
  (fid (h_req k) = i -> forall st, coup i k st -> coup i k' st) ->
  (sconf i (sreads (log s)) -> forall w f, nth_error (wk s') w = Some (WkHand f) ->
     (exists w', nth_error (wk s) w' = Some (WkHand f)) \/ fid f <> i) ->
  (forall f, rd s' = RdRst f -> rd s = RdRst f) ->
  pinv i s'.
Proof.
  intros P Hn El Er Et Eh Hq Hg Hc Hw Hrd.
  eapply (pinv_frame i s s' evs); eauto.
  - intros _. rewrite Et. reflexivity.
  - rewrite Et. intros f [].
  - intros h0 k0 H0. rewrite Eh in H0. apply nth_upd_inv' in H0. destruct H0 as [(-> & -> & _)|[Hne H0]].
    + exists k. auto.
    + exists k0. repeat split; auto.
  - intros h0 k0 H0. rewrite Eh. eapply nth_upd_ex; eauto.
Qed.

Ltac coup_tac Hp :=
  let Hi := fresh "Hi" in let st := fresh "st" in let C := fresh "C" in
  intros Hi st C; unfold coup in *; rewrite Hp in C; cbn [h_pc h_hsent hset_pc hset_md hset_q hset_cancel hset_donesig] in *;
  rewrite ?Hp; try (destruct C as [C1 C2]); repeat split; auto; try tauto.

Lemma pinv_same i s s' evs :
  pinv i s -> log s' = log s ++ evs -> sreads evs = [] -> tk evs = [] -> hs s' = hs s ->
  (forall w f, nth_error (wk s') w = Some (WkHand f) -> exists w', nth_error (wk s) w' = Some (WkHand f)) ->
  (forall f, rd s' = RdRst f -> rd s = RdRst f) -> pinv i s'.
Proof.
  intros P El Er Et Eh Hw Hrd. eapply (pinv_frame i s s' evs); eauto.
  - intros _. rewrite Et. reflexivity.
  - rewrite Et. intros f [].
  - intros h k' Hk. rewrite Eh in Hk. exists k'. repeat split; auto.
  - intros h k Hk. rewrite Eh. eauto.
Qed.

Ltac same0 P := eapply (pinv_same _ _ _ [] P); [sproj; rewrite ?app_nil_r; reflexivity | reflexivity | reflexivity | reflexivity | sproj; eauto | sproj; auto].

Ltac hupd P Hn Hp k' evs :=
  eapply (pinv_hupd _ _ _ _ _ k' evs P Hn);
  [ sproj; rewrite ?app_nil_r; reflexivity | reflexivity | reflexivity | sproj; reflexivity | reflexivity | simpl; auto
  | coup_tac Hp | sproj; intros _ w f Hw; left; eauto | sproj; auto ].

Lemma pinv_ext nw ls i s a : lrun (init_n nw) ls = Some s -> pinv i s -> pinv i (ext s a).
Proof.
  intros Hrun P. destruct a; simpl; try (same0 P; fail).
  destruct (nth_error (hs s) h) as [k|] eqn:Hn; [|exact P].
  destruct (h_pc k) eqn:Hp; try exact P.
  unfold hstep. destruct (h_unary k) eqn:Hu.
  - (* a unary handler *)
    destruct o; try exact P.
    + destruct (h_hsent k) eqn:Hs.
      * eapply (pinv_same _ _ _ [SvOp h OHdrSent] P); sproj; eauto.
      * hupd P Hn Hp (hset_md k false (h_hdr k + t) (h_trl k)) [SvOp h OOk].
    + destruct (h_hsent k) eqn:Hs.
      * eapply (pinv_same _ _ _ [SvOp h OHdrSent] P); sproj; eauto.
      * hupd P Hn Hp (hset_md k true (h_hdr k + t) (h_trl k)) [SvOp h OOk].
    + hupd P Hn Hp (hset_md k (h_hsent k) (h_hdr k) (h_trl k + t)) [SvOp h OOk].
    + hupd P Hn Hp (hset_pc k HInAwait) (@nil sev).
    + (* the unary reply goes to the worker: its id is not a stream id *)
      eapply (pinv_hupd _ _ _ _ _ (hset_pc k HDead) [SvRet h; SvReply h (unary_reply k rep e)] P Hn);
        [ sproj; reflexivity | reflexivity | reflexivity | sproj; reflexivity | reflexivity | simpl; auto | coup_tac Hp | | sproj; auto ].
      sproj. intros Hs w f Hw. apply finish_unary_nth in Hw. destruct Hw as (p0 & Hw0 & [[-> _]|[-> Hf]]); [left; eauto|].
      right. inversion Hf; subst. unfold unary_reply, resp, fid; simpl. intros Hi.
      assert (X : h_unary k = false) by (eapply (hfor_stream nw ls s i h k); eauto; split; auto). congruence.
  - (* a stream handler *)
    destruct o.
    + hupd P Hn Hp (hset_pc k HInRecv) (@nil sev).
    + (* SendMsg: the message carries the pending header metadata iff nothing was sent before *)
      eapply (pinv_hupd _ _ _ _ _ (hset_pc (hset_md k true (h_hdr k) (h_trl k)) (HInSend (msg_frame k b) KMsg)) [] P Hn);
        [ sproj; rewrite ?app_nil_r; reflexivity | reflexivity | reflexivity | sproj; reflexivity | reflexivity | simpl; auto
        | | sproj; intros _ w f Hw; left; eauto | sproj; auto ].
      intros Hi st C. unfold coup in *. rewrite Hp in C. destruct C as [C1 C2]. cbn [h_pc h_hsent hset_pc hset_md].
      split; [auto|split; [intros; discriminate|split; [exact Hi|split; [reflexivity|split; [|reflexivity]]]]].
      unfold pf, msg_frame, resp, md_of. simpl. destruct (h_hsent k); [intros X; exfalso; apply X; reflexivity | auto].
    + destruct (h_hsent k) eqn:Hs.
      * eapply (pinv_same _ _ _ [SvOp h OHdrSent] P); sproj; eauto.
      * hupd P Hn Hp (hset_md k false (h_hdr k + t) (h_trl k)) [SvOp h OOk].
    + destruct (h_hsent k) eqn:Hs.
      * eapply (pinv_same _ _ _ [SvOp h OHdrSent] P); sproj; eauto.
      * eapply (pinv_hupd _ _ _ _ _ _ [] P Hn);
          [ sproj; rewrite ?app_nil_r; reflexivity | reflexivity | reflexivity | sproj; reflexivity | reflexivity | simpl; auto
          | | sproj; intros _ w f Hw; left; eauto | sproj; auto ].
        intros Hi st C. unfold coup in *. rewrite Hp in C. destruct C as [C1 C2]. cbn [h_pc h_hsent hset_pc hset_md].
        pose proof (C2 Hs) as X. split; [auto|split; [auto|split; [exact Hi|split; [reflexivity|split; [auto|reflexivity]]]]].
    + hupd P Hn Hp (hset_md k (h_hsent k) (h_hdr k) (h_trl k + t)) [SvOp h OOk].
    + hupd P Hn Hp (hset_pc k HInAwait) (@nil sev).
    + eapply (pinv_hupd _ _ _ _ _ (hset_pc (hset_md k true (h_hdr k) (h_trl k)) (HInSend (trl_frame k e) KTrl))
                [SvRet h; SvTrailer h (trl_frame k e)] P Hn);
        [ sproj; reflexivity | reflexivity | reflexivity | sproj; reflexivity | reflexivity | simpl; auto
        | | sproj; intros _ w f Hw; left; eauto | sproj; auto ].
      intros Hi st C. unfold coup in *. rewrite Hp in C. destruct C as [C1 C2]. cbn [h_pc h_hsent hset_pc hset_md].
      split; [auto|split; [intros; discriminate|split; [exact Hi|split; [reflexivity|split; [|reflexivity]]]]].
      unfold pf, trl_frame, resp, md_of. simpl. destruct (h_hsent k); [intros X; exfalso; apply X; reflexivity | auto].
Qed.

Ltac coup_any :=
  let Hi := fresh "Hi" in let st := fresh "st" in let C := fresh "C" in
  intros Hi st C; unfold coup in *;
  repeat match goal with E : h_pc _ = _ |- _ => rewrite E in * end;
  cbn [h_pc h_hsent hset_pc hset_md hset_q hset_cancel hset_donesig hunregister] in *;
  repeat match goal with E : h_pc _ = _ |- _ => rewrite E in * end;
  try exact I; try tauto.

Ltac hupd_auto P :=
  match goal with
  | Hn : nth_error (hs ?s) ?h = Some ?k |- pinv _ (add_log (set_h _ ?h ?k') ?evs) =>
      eapply (pinv_hupd _ s _ h k k' evs P Hn)
  | Hn : nth_error (hs ?s) ?h = Some ?k |- pinv _ (add_log (set_h (set_rd _ _) ?h ?k') ?evs) =>
      eapply (pinv_hupd _ s _ h k k' evs P Hn)
  | Hn : nth_error (hs ?s) ?h = Some ?k |- pinv _ (set_h (set_rd _ _) ?h ?k') =>
      eapply (pinv_hupd _ s _ h k k' [] P Hn)
  | Hn : nth_error (hs ?s) ?h = Some ?k |- pinv _ (set_h _ ?h ?k') =>
      eapply (pinv_hupd _ s _ h k k' [] P Hn)
  end;
  [ sproj; rewrite ?app_nil_r; reflexivity | reflexivity | reflexivity | sproj; reflexivity | reflexivity | simpl; auto
  | coup_any | sproj; let Hw := fresh "Hw" in intros _ ? ? Hw; left; eauto | sproj; intros; try discriminate; auto ].

Ltac same_auto P :=
  match goal with
  | |- pinv _ (add_log _ ?evs) => eapply (pinv_same _ _ _ evs P)
  | |- pinv _ _ => eapply (pinv_same _ _ _ [] P)
  end;
  [ sproj; rewrite ?app_nil_r; reflexivity | reflexivity | reflexivity | sproj; reflexivity
  | sproj; let Hw := fresh "Hw" in intros ? ? Hw; try (apply nth_upd_inv' in Hw; destruct Hw as [(_ & Hw & _)|[_ Hw]]; try discriminate); eauto
  | sproj; intros; try discriminate; auto ].

Lemma pinv_int_easy i s j s' :
  match j with RRdRead | RRdOffer | RRdRst | RHSend _ | RHUnreg _ | RWkHand _ => False | _ => True end ->
  pinv i s -> rule_of j s = Some s' -> pinv i s'.
Proof.
  intros Hj P H. destruct j; try contradiction; simpl in H.
  all: try (start_rule H; first [ hupd_auto P | same_auto P ]; fail).
  all: try (start_rule H; first [ hupd_auto P | same_auto P ]; fail).
Qed.

Lemma s2c_end_hdr st l st' : s2c_end st l = Some st' -> forall e, In e l -> has (p_hdr e) = true.
Proof.
  revert st. induction l as [|x r IH]; simpl; intros st H e Hin; [tauto|].
  destruct (s2c_step st x) as [s1|] eqn:E; try discriminate. destruct Hin as [<-|Hin]; [|eauto].
  destruct st; simpl in E; unfold is_open, is_body, is_trailer, Protocol.is_rst in E;
    destruct (has (p_hdr x)); auto; simpl in E;
    repeat match type of E with context [if ?b then _ else _] => destruct b end; discriminate.
Qed.

(* a worker hands its reply to the writer: never an envelope of a stream id *)
Lemma pinv_wk_hand nw ls i s w s' : lrun (init_n nw) ls = Some s -> pinv i s -> r_wk_hand w s = Some s' -> pinv i s'.
Proof.
  intros Hrun P H. unfold r_wk_hand in H. destruct (nth_error (wk s) w) as [[| |f|]|] eqn:Ew; try discriminate.
  destruct (wr s) eqn:Ewr; try discriminate. inv_some H.
  eapply (pinv_frame i s _ [SvTaken f] P); sproj; try reflexivity.
  - intros Hs. simpl. unfold idf. simpl. pose proof (pv_wk _ _ P Hs _ _ Ew) as Hne.
    destruct (fid f =? i) eqn:E; auto. apply Z.eqb_eq in E. contradiction.
  - intros g [<-|[]]. apply origin_mono. eapply (o_wk _ (orig_reach _ _ _ Hrun)); eauto.
  - intros h k' Hk. exists k'. repeat split; auto.
  - intros h k Hk. eauto.
  - intros _ w0 g Hw. apply nth_upd_inv' in Hw. destruct Hw as [(_ & Hw & _)|[_ Hw]]; [discriminate|left; eauto].
  - auto.
Qed.

Lemma rst_step st f : has_hdr f = true ->
  exists st', s2c_step st (pf (rst_reply f)) = Some st' /\ (st = SSStart \/ st = SSReset -> st' = SSReset).
Proof.
  intros Hh. unfold pf, rst_reply, resp, s2c_step, is_open, is_body, is_trailer, Protocol.is_rst, md_of. simpl.
  destruct st; simpl; eexists; split; try reflexivity; intros [X|X]; try discriminate; auto.
Qed.

Lemma dead_coup i k st : h_pc k = HDead -> coup i k st.
Proof. intros H. unfold coup. rewrite H. exact I. Qed.

Lemma pinv_rd_rst nw ls i s s' : lrun (init_n nw) ls = Some s -> pinv i s -> r_rd_rst s = Some s' -> pinv i s'.
Proof.
  intros Hrun P H. unfold r_rd_rst in H. destruct (rd s) eqn:Erd; try discriminate. destruct (wr s) eqn:Ewr; try discriminate.
  destruct (has_hdr f) eqn:Hh; inv_some H.
  2:{ eapply (pinv_same _ _ _ [] P); sproj; rewrite ?app_nil_r; auto; try reflexivity. eauto. }
  pose proof (orig_reach _ _ _ Hrun) as O. pose proof (o_rd _ O) as Ord. rewrite Erd in Ord.
  pose proof (inv_reach _ _ _ Hrun) as Iv.
  destruct P as [P1 P2 P3 P4 P5].
  assert (Hreads : sreads (log s ++ [SvTaken (rst_reply f)]) = sreads (log s)) by (rewrite sreads_app; simpl; apply app_nil_r).
  constructor; sproj; rewrite ?Hreads.
  - intros g Hin. rewrite tk_app in Hin. apply in_app_or in Hin. destruct Hin as [Hin|[<-|[]]].
    + apply origin_mono; auto.
    + exists f. split; [apply read_mono; auto | unfold rst_reply; apply answers_resp; reflexivity].
  - auto.
  - auto.
  - intros; discriminate.
  - intros Hs. destruct (P5 Hs) as (st & E & C1 & C2).
    rewrite tk_app, idf_app, map_app. simpl tk. unfold idf at 2. simpl filter.
    change (fid (rst_reply f)) with (fid f).
    destruct (fid f =? i) eqn:Ei.
    + apply Z.eqb_eq in Ei. destruct (rst_step st f Hh) as (st' & Es & Hst).
      exists st'. simpl map. rewrite s2c_end_snoc, E. split; [exact Es|]. split.
      * intros h k Hk. apply dead_coup.
        pose proof (P4 Hs _ Erd Ei _ _ Hk) as Hreg.
        pose proof (hfor_stream _ _ _ _ _ _ Hrun Hs Hk) as Hu. destruct Hk as [Hn _].
        destruct (i_h _ _ Iv _ _ Hn) as (_ & K2 & _). rewrite (K2 Hu) in Hreg. unfold pc_dead in Hreg.
        destruct (h_pc k); try discriminate; reflexivity.
      * intros Hno. right. apply Hst. apply C2. exact Hno.
    + exists st. simpl. rewrite app_nil_r. auto.
Qed.

Lemma take_step st f kd :
  (st = SSStart \/ st = SSMid) -> shape_ok kd f -> (md_of (pf f) <> 0 -> st = SSStart) -> (kd = KHdr -> st = SSStart) ->
  s2c_step st (pf f) = Some (match kd with KTrl => SSClosed | _ => SSMid end).
Proof.
  intros Hst Hsh Hmd Hk. unfold shape_ok in Hsh.
  assert (Hz : st = SSMid -> md_of (pf f) =? 0 = true).
  { intros ->. destruct (md_of (pf f) =? 0) eqn:E; auto. apply Z.eqb_neq in E. specialize (Hmd E). discriminate. }
  destruct kd; unfold s2c_step.
  - assert (Ho : is_open (pf f) = false).
    { unfold is_body, is_open in *. destruct (has (p_hdr (pf f))), (has (p_body (pf f))); simpl in *; auto; discriminate. }
    destruct Hst as [-> | ->]; [rewrite Ho, Hsh; reflexivity | rewrite (Hz eq_refl), Hsh; reflexivity].
  - rewrite (Hk eq_refl), Hsh. reflexivity.
  - assert (Ho : is_open (pf f) = false).
    { unfold is_trailer, is_open in *. destruct (has (p_hdr (pf f))), (has (p_trl (pf f))), (has (p_body (pf f))); simpl in *; auto; discriminate. }
    assert (Hb : is_body (pf f) = false).
    { unfold is_trailer, is_body in *. destruct (has (p_hdr (pf f))), (has (p_trl (pf f))), (has (p_body (pf f))); simpl in *; auto; discriminate. }
    destruct Hst as [-> | ->]; [rewrite Ho, Hb, Hsh; reflexivity | rewrite (Hz eq_refl), Hb, Hsh; reflexivity].
Qed.

(* the writer takes a stream handler's envelope *)
Lemma pinv_h_send nw ls i s h s' : lrun (init_n nw) ls = Some s -> pinv i s -> r_h_send h s = Some s' -> pinv i s'.
Proof.
  intros Hrun P H. unfold r_h_send in H. destruct (nth_error (hs s) h) as [k|] eqn:Hn; try discriminate.
  destruct (wr s) eqn:Ewr; try discriminate. destruct (h_pc k) eqn:Hp; try discriminate.
  pose proof (orig_reach _ _ _ Hrun) as O.
  assert (Hof : has_origin (log s) f) by (exists (h_req k); split; [eapply (o_h _ O); eauto | eapply (o_send _ O); eauto]).
  assert (Hfid : fid f = fid (h_req k)) by (destruct (o_send _ O _ _ _ _ Hn Hp) as (X & _); exact X).
  (* the three kinds share everything but the new record and the events after the take *)
  assert (G : forall k' evs2,
             h_req k' = h_req k -> h_reg k' = h_reg k -> sreads evs2 = [] -> tk evs2 = [] ->
             (h_pc k' = match k0 with KTrl => HUnreg | _ => HGate end) ->
             (h_hsent k' = match k0 with KHdr => true | _ => h_hsent k end) ->
             pinv i (add_log (set_wr (set_h s h k') (WrWrite f)) (SvTaken f :: evs2))).
  { intros k' evs2 Hq Hg Er2 Et2 Hpc' Hhs'.
    destruct (Z.eq_dec (fid (h_req k)) i) as [Hi|Hne].
    - (* an envelope of stream i *)
      destruct P as [P1 P2 P3 P4 P5].
      assert (Hreads : sreads (log s ++ SvTaken f :: evs2) = sreads (log s)) by (rewrite sreads_app; simpl; rewrite Er2; apply app_nil_r).
      assert (Hhf : forall h0 k0', hfor i (add_log (set_wr (set_h s h k') (WrWrite f)) (SvTaken f :: evs2)) h0 k0' ->
                     (h0 = h /\ k0' = k') \/ (h0 <> h /\ hfor i s h0 k0')).
      { intros h0 k0' [A B]. sproj. apply nth_upd_inv' in A. destruct A as [(-> & -> & _)|[A1 A2]]; [left; auto | right; split; auto; split; auto]. }
      constructor; sproj; rewrite ?Hreads.
      + intros g Hin. rewrite tk_app in Hin. simpl in Hin. rewrite Et2 in Hin. apply in_app_or in Hin.
        destruct Hin as [Hin|[<-|[]]]; apply origin_mono; auto.
      + auto.
      + intros Hs h1 h2 k1 k2 H1 H2. apply Hhf in H1. apply Hhf in H2.
        destruct H1 as [[-> ->]|[N1 H1]]; destruct H2 as [[-> ->]|[N2 H2]]; auto.
        * exfalso. apply N2. symmetry. eapply (P3 Hs h h2 k k2); eauto. split; auto.
        * exfalso. apply N1. eapply (P3 Hs h1 h k1 k); eauto. split; auto.
        * eapply P3; eauto.
      + intros Hs g Hr Hg0 h0 k0' Hk. apply Hhf in Hk. destruct Hk as [[-> ->]|[_ Hk]].
        * rewrite Hg. eapply (P4 Hs g Hr Hg0 h k); split; auto.
        * eapply P4; eauto.
      + intros Hs. destruct (P5 Hs) as (st & E & C1 & C2).
        pose proof (C1 h k (conj Hn Hi)) as Ck. unfold coup in Ck. rewrite Hp in Ck.
        destruct Ck as (Cst & Chs & Cf & Csh & Cmd & Ckd).
        assert (Hk0 : k0 = KHdr -> st = SSStart) by (intros ->; auto).
        pose proof (take_step st f k0 Cst Csh Cmd Hk0) as Est.
        exists (match k0 with KTrl => SSClosed | _ => SSMid end).
        rewrite tk_app. simpl tk. rewrite Et2, idf_app, map_app. unfold idf at 2. simpl filter.
        rewrite Hfid, Hi, Z.eqb_refl. simpl map. rewrite s2c_end_snoc, E. split; [exact Est|]. split.
        * intros h0 k0' Hk. apply Hhf in Hk. destruct Hk as [[-> ->]|[N Hk]].
          -- unfold coup. rewrite Hpc'. destruct k0; auto; rewrite Hhs'; split; auto; intros X; try discriminate X.
             rewrite X in Ckd. discriminate.
          -- exfalso. apply N. eapply (P3 Hs h0 h k0' k); eauto. split; auto.
        * intros Hno. exfalso. apply (Hno h k'). split; [sproj; apply nth_upd_same; eapply nth_error_lt; eauto | congruence].
    - (* an envelope of another stream *)
      eapply (pinv_frame i s _ (SvTaken f :: evs2) P); sproj; try reflexivity.
      + simpl. exact Er2.
      + intros _. simpl. rewrite Et2. unfold idf. simpl. destruct (fid f =? i) eqn:E; auto. apply Z.eqb_eq in E. congruence.
      + intros g Hin. simpl in Hin. rewrite Et2 in Hin. destruct Hin as [<-|[]]. apply origin_mono; auto.
      + intros h0 k0' Hk. apply nth_upd_inv' in Hk. destruct Hk as [(-> & -> & _)|[_ Hk]].
        * exists k. repeat split; auto; try congruence; try (intros X; contradiction).
        * exists k0'. repeat split; auto.
      + intros h0 k1 Hk. eapply nth_upd_ex; eauto.
      + intros _ w g Hw. left; eauto.
      + auto. }
  destruct k0; inv_some H.
  - apply (G (hset_pc k HGate) [SvOp h OOk]); reflexivity.
  - apply (G (hset_pc (hset_md k true (h_hdr k) (h_trl k)) HGate) [SvOp h OOk]); reflexivity.
  - apply (G (hset_pc (hset_cancel k) HUnreg) []); reflexivity.
Qed.

Lemma pinv_h_unreg i s h s' : pinv i s -> r_h_unreg h s = Some s' -> pinv i s'.
Proof.
  intros P H. unfold r_h_unreg in H. destruct (nth_error (hs s) h) as [k|] eqn:Hn; try discriminate.
  destruct (h_pc k) eqn:Hp; try discriminate. destruct (mu_free s); try discriminate.
  assert (P1 : pinv i (set_h s h (hset_pc k HDead))).
  { eapply (pinv_hupd _ s _ h k (hset_pc k HDead) [] P Hn);
      [ sproj; rewrite ?app_nil_r; reflexivity | reflexivity | reflexivity | sproj; reflexivity | reflexivity | simpl; auto
      | coup_any | sproj; intros _ ? ? Hw; left; eauto | sproj; auto ]. }
  destruct (find_reg (fid (h_req k)) (hs (set_h s h (hset_pc k HDead))) 0) as [g|]; [|inv_some H; exact P1].
  destruct (nth_error (hs (set_h s h (hset_pc k HDead))) g) as [kg|] eqn:Eg; inv_some H; [|exact P1].
  eapply (pinv_hupd _ _ _ g kg (hunregister kg) [SvUnreg g] P1 Eg);
    [ sproj; reflexivity | reflexivity | reflexivity | sproj; reflexivity | reflexivity | simpl; intros; discriminate
    | | sproj; intros _ ? ? Hw; left; eauto | sproj; auto ].
  intros Hi st C. unfold coup in *. cbn [h_pc h_hsent hunregister] in *. exact C.
Qed.

(* a handler record of another id is appended *)
Lemma pinv_app i s s' x evs :
  pinv i s -> log s' = log s ++ evs -> sreads evs = [] -> tk evs = [] -> hs s' = hs s ++ [x] ->
  (sconf i (sreads (log s)) -> fid (h_req x) <> i) ->
  (sconf i (sreads (log s)) -> forall w f, nth_error (wk s') w = Some (WkHand f) ->
     (exists w', nth_error (wk s) w' = Some (WkHand f)) \/ fid f <> i) ->
  (forall f, rd s' = RdRst f -> rd s = RdRst f) ->
  pinv i s'.
Proof.
  intros [P1 P2 P3 P4 P5] El Er Et Eh Hx Hw Hrd.
  assert (Hreads : sreads (log s') = sreads (log s)) by (rewrite El, sreads_app, Er, app_nil_r; auto).
  assert (Htk : tk (log s') = tk (log s)) by (rewrite El, tk_app, Et, app_nil_r; auto).
  assert (Hback : sconf i (sreads (log s)) -> forall h k, hfor i s' h k -> hfor i s h k).
  { intros Hs h k [Hn Hi]. rewrite Eh in Hn. apply nth_app_new in Hn. destruct Hn as [Hn|[_ ->]]; [split; auto|]. exfalso. apply (Hx Hs); auto. }
  assert (Hfwd : forall h k, hfor i s h k -> hfor i s' h k).
  { intros h k [Hn Hi]. split; auto. rewrite Eh. apply nth_app_old. auto. }
  constructor; rewrite ?Hreads, ?Htk.
  - intros f Hin. rewrite El. apply origin_mono; auto.
  - intros Hs w f Hn. destruct (Hw Hs _ _ Hn) as [(w' & Hn')|Hne]; eauto.
  - intros Hs h1 h2 k1 k2 H1 H2. eapply P3; eauto.
  - intros Hs f Hr Hf h k Hk. eapply P4; eauto.
  - intros Hs. destruct (P5 Hs) as (st & E & C1 & C2). exists st. split; auto. split.
    + intros h k Hk. eapply C1; eauto.
    + intros Hno. apply C2. intros h k Hk. apply (Hno h k). auto.
Qed.

(* the unary hand-off: what it creates carries the id of a unary-method envelope *)
Lemma pinv_rd_offer nw ls i s s' : lrun (init_n nw) ls = Some s -> pinv i s -> r_rd_offer s = Some s' -> pinv i s'.
Proof.
  intros Hrun P H. unfold r_rd_offer in H. destruct (rd s) eqn:Erd; try discriminate.
  destruct (find_idle (wk s) 0) as [w|] eqn:Ew; try discriminate. inv_some H.
  pose proof (orig_reach _ _ _ Hrun) as O. pose proof (o_rd _ O) as Ord. rewrite Erd in Ord.
  destruct (inv_hdr_reach _ _ _ Hrun) as [_ Hd]. rewrite Erd in Hd.
  assert (Hne : sconf i (sreads (log s)) -> fid f <> i).
  { intros (A & _) Hi. apply (A f); auto. apply in_sreads'. exact Ord. }
  unfold start_unary. rewrite (dispatch_hdr f) by congruence. simpl negb. cbv iota.
  destruct (md_bad f); [|destruct (body_tok f <? 0)].
  - eapply (pinv_frame i s _ [SvJob w f] P); sproj; try reflexivity.
    + intros g [].
    + intros h k' Hk. exists k'. repeat split; auto.
    + intros h k Hk. eauto.
    + intros Hs w0 g Hw. apply nth_upd_inv' in Hw. destruct Hw as [(_ & Hw & _)|[_ Hw]]; [|left; eauto].
      right. inversion Hw; subst. exact (Hne Hs).
    + intros; discriminate.
  - eapply (pinv_frame i s _ [SvJob w f] P); sproj; try reflexivity.
    + intros g [].
    + intros h k' Hk. exists k'. repeat split; auto.
    + intros h k Hk. eauto.
    + intros Hs w0 g Hw. apply nth_upd_inv' in Hw. destruct Hw as [(_ & Hw & _)|[_ Hw]]; [|left; eauto].
      right. inversion Hw; subst. exact (Hne Hs).
    + intros; discriminate.
  - eapply (pinv_app i s _ (new_unary f) [SvJob w f; SvInvoke (length (hs s)) true (fid f) (f_mth f) (body_tok f) (md_tok f)] P);
      sproj; try reflexivity.
    + rewrite <- app_assoc. reflexivity.
    + exact Hne.
    + intros Hs w0 g Hw. apply nth_upd_inv' in Hw. destruct Hw as [(_ & Hw & _)|[_ Hw]]; [discriminate|left; eauto].
    + intros; discriminate.
Qed.

(* the read of an envelope that starts no handler *)
Lemma pinv_read i s s' f evs2 :
  pinv i s -> log s' = log s ++ SvRead f :: evs2 -> sreads evs2 = [] -> tk evs2 = [] ->
  (forall h k', nth_error (hs s') h = Some k' ->
     exists k, nth_error (hs s) h = Some k /\ h_req k' = h_req k /\ (h_reg k' = true -> h_reg k = true) /\
               (fid (h_req k) = i -> forall st, coup i k st -> coup i k' st)) ->
  (forall h k, nth_error (hs s) h = Some k -> exists k', nth_error (hs s') h = Some k') ->
  (forall w g, nth_error (wk s') w = Some (WkHand g) -> exists w', nth_error (wk s) w' = Some (WkHand g)) ->
  (forall g, rd s' = RdRst g ->
     rd s = RdRst g \/ (g = f /\ forall h k, nth_error (hs s) h = Some k -> h_reg k = true -> fid (h_req k) <> fid f)) ->
  pinv i s'.
Proof.
  intros [P1 P2 P3 P4 P5] El Er Et Hh Hex Hw Hrd.
  assert (Hreads : sreads (log s') = sreads (log s) ++ [f]) by (rewrite El, sreads_app; simpl; rewrite Er; reflexivity).
  assert (Htk : tk (log s') = tk (log s)) by (rewrite El, tk_app; simpl; rewrite Et; apply app_nil_r).
  assert (Hback : forall h k', hfor i s' h k' -> exists k, hfor i s h k /\ (h_reg k' = true -> h_reg k = true) /\ (forall st, coup i k st -> coup i k' st)).
  { intros h k' [Hn Hi]. destruct (Hh _ _ Hn) as (k & Hk & Hq & Hg & Hc). exists k. rewrite Hq in Hi. repeat split; auto. }
  constructor; rewrite ?Hreads, ?Htk.
  - intros g Hin. rewrite El. apply origin_mono; auto.
  - intros Hs w g Hn. apply sconf_prefix in Hs. destruct (Hw _ _ Hn) as (w' & Hn'). eauto.
  - intros Hs h1 h2 k1 k2 H1 H2. apply sconf_prefix in Hs.
    destruct (Hback _ _ H1) as (x1 & X1 & _). destruct (Hback _ _ H2) as (x2 & X2 & _). eapply P3; eauto.
  - intros Hs g Hr Hg h k Hk. apply sconf_prefix in Hs. destruct (Hback _ _ Hk) as (x & X & G & _).
    destruct (h_reg k) eqn:E; auto. exfalso. specialize (G eq_refl).
    destruct (Hrd _ Hr) as [Hr0|[-> Hno]].
    + rewrite (P4 Hs _ Hr0 Hg _ _ X) in G. discriminate.
    + destruct X as [Xn Xi]. apply (Hno _ _ Xn G). congruence.
  - intros Hs. apply sconf_prefix in Hs. destruct (P5 Hs) as (st & E & C1 & C2). exists st. split; auto. split.
    + intros h k' Hk. destruct (Hback _ _ Hk) as (x & X & _ & Hc). apply Hc. eapply C1; eauto.
    + intros Hno. apply C2. intros h k [Hn Hi]. destruct (Hex _ _ Hn) as (k' & Hn').
      destruct (Hh _ _ Hn') as (k0 & Hk0 & Hq & _). rewrite Hn in Hk0. inversion Hk0; subst k0.
      apply (Hno h k'). split; auto. congruence.
Qed.

Ltac read_same P f :=
  eapply (pinv_read _ _ _ f [] P);
  [ sproj; reflexivity | reflexivity | reflexivity
  | sproj; let Hk := fresh "Hk" in intros ? ? Hk; eexists; repeat split; eauto
  | sproj; intros; eauto | sproj; intros; eauto | sproj; intros; try discriminate; auto ].

Lemma pinv_rd_read nw ls i s s' : lrun (init_n nw) ls = Some s -> pinv i s -> r_rd_read s = Some s' -> pinv i s'.
Proof.
  intros Hrun P H. unfold r_rd_read in H. destruct (rd s) eqn:Erd; try discriminate.
  destruct (inbox s) as [|f rest] eqn:Ei.
  - destr_in H; inv_some H; same_auto P.
  - destruct (dispatch f) eqn:Ed; inv_some H.
    + read_same P f; rewrite Erd in *; discriminate.
    + read_same P f.
    + unfold stream_dispatch. sproj.
      destruct (find_reg (fid f) (hs s) 0) as [g|] eqn:Ef.
      * destruct (find_reg_some _ _ _ _ Ef) as (_ & kg & Hg & Hrg & Hig). rewrite Nat.sub_0_r in Hg.
        destruct (is_rst f).
        -- rewrite Hg. sproj.
           eapply (pinv_read _ _ _ f [] P); sproj; try reflexivity.
           ++ intros h k' Hk. apply nth_upd_inv' in Hk. destruct Hk as [(-> & -> & _)|[_ Hk]].
              ** exists kg. repeat split; auto.
              ** exists k'. repeat split; auto.
           ++ intros h k Hk. eapply nth_upd_ex; eauto.
           ++ intros; eauto.
           ++ intros g0 Hr. rewrite Erd in Hr. discriminate.
        -- read_same P f.
      * pose proof (find_reg_none _ _ _ Ef) as Hnone.
        destruct (is_rst f) eqn:Hrst; [read_same P f; rewrite Erd in *; discriminate|].
        destruct (has_body f) eqn:Hb.
        { eapply (pinv_read _ _ _ f [] P); sproj; try reflexivity.
          - intros h k' Hk. exists k'. repeat split; auto.
          - intros; eauto.
          - intros; eauto.
          - intros g0 Hr. inversion Hr; subst. right. split; auto. }
        destruct (has_trl f) eqn:Ht; [read_same P f; rewrite Erd in *; discriminate|].
        destruct (md_bad f) eqn:Hm.
        { eapply (pinv_read _ _ _ f [] P); sproj; try reflexivity.
          - intros h k' Hk. exists k'. repeat split; auto.
          - intros; eauto.
          - intros; eauto.
          - intros g0 Hr. inversion Hr; subst. right. split; auto. }
        (* a new stream handler *)
        pose proof (orig_reach _ _ _ Hrun) as O.
        destruct P as [P1 P2 P3 P4 P5].
        assert (Hreads : sreads ((log s ++ [SvRead f]) ++ [SvInvoke (length (hs s)) false (fid f) (f_mth f) 0 (md_tok f)]) = sreads (log s) ++ [f]).
        { rewrite !sreads_app. simpl. rewrite app_nil_r. reflexivity. }
        assert (Htk : tk ((log s ++ [SvRead f]) ++ [SvInvoke (length (hs s)) false (fid f) (f_mth f) 0 (md_tok f)]) = tk (log s)).
        { rewrite !tk_app. simpl. rewrite !app_nil_r. reflexivity. }
        assert (Hho : hdr_only f = true) by (unfold hdr_only; rewrite Hb, Ht, Hrst; reflexivity).
        assert (Hfirst : sconf i (sreads (log s) ++ [f]) -> fid f = i -> forall g0, In g0 (sreads (log s)) -> fid g0 <> i).
        { intros (_ & B & _) Hi g0 Hin Hg0. specialize (B (sreads (log s)) f [] eq_refl Hi (ex_intro _ g0 (conj Hin Hg0))). congruence. }
        assert (NoOld : sconf i (sreads (log s) ++ [f]) -> fid f = i -> forall h k, ~ hfor i s h k).
        { intros Hs Hi h k [Hn Hk]. apply (Hfirst Hs Hi (h_req k)); auto. apply in_sreads'. eapply (o_h _ O); eauto. }
        assert (NoTk : sconf i (sreads (log s) ++ [f]) -> fid f = i -> idf i (tk (log s)) = []).
        { intros Hs Hi. unfold idf. destruct (filter (fun f0 => fid f0 =? i) (tk (log s))) as [|g r] eqn:E; auto. exfalso.
          assert (Hin : In g (filter (fun f0 => fid f0 =? i) (tk (log s)))) by (rewrite E; left; auto).
          apply filter_In in Hin. destruct Hin as [Hin Hg]. apply Z.eqb_eq in Hg.
          destruct (P1 _ Hin) as (g0 & Hr & (A & _)). apply (Hfirst Hs Hi g0); [apply in_sreads'; auto | congruence]. }
        assert (Hcases : forall h k, hfor i {| inbox := rest; inbox_failed := inbox_failed s; wfail := wfail s; wblock := wblock s;
                             srv_stop := srv_stop s; serve_ctx := serve_ctx s; conn_cancel := conn_cancel s; cause_write := cause_write s;
                             exit_cancel := exit_cancel s; rd := rd s; wk := wk s; wr := wr s; hs := hs s ++ [new_stream f];
                             crashed := crashed s;
                             log := (log s ++ [SvRead f]) ++ [SvInvoke (length (hs s)) false (fid f) (f_mth f) 0 (md_tok f)] |} h k ->
                           hfor i s h k \/ (h = length (hs s) /\ k = new_stream f /\ fid f = i)).
        { intros h k [Hn Hk]. cbn [hs] in Hn. apply nth_app_new in Hn. destruct Hn as [Hn|[-> ->]]; [left; split; auto | right; auto]. }
        constructor; cbn [log wk rd hs]; rewrite ?Hreads, ?Htk.
        -- intros g Hin. apply origin_mono. apply origin_mono. auto.
        -- intros Hs. apply P2. eapply sconf_prefix; eauto.
        -- intros Hs h1 h2 k1 k2 H1 H2. apply Hcases in H1. apply Hcases in H2.
           destruct H1 as [H1|(-> & -> & Hi1)]; destruct H2 as [H2|(-> & -> & Hi2)]; auto.
           ++ eapply P3; eauto. eapply sconf_prefix; eauto.
           ++ exfalso. eapply NoOld; eauto.
           ++ exfalso. eapply NoOld; eauto.
        -- intros Hs g Hr. rewrite Erd in Hr. discriminate.
        -- intros Hs. destruct (Z.eq_dec (fid f) i) as [Hi|Hne].
           ++ exists SSStart. rewrite (NoTk Hs Hi). split; [reflexivity|]. split; [|auto].
              intros h k Hk. apply Hcases in Hk. destruct Hk as [Hk|(-> & -> & _)]; [exfalso; eapply NoOld; eauto|].
              unfold coup. simpl. auto.
           ++ destruct (P5 (sconf_prefix _ _ _ Hs)) as (st & E & C1 & C2). exists st. split; auto. split.
              ** intros h k Hk. apply Hcases in Hk. destruct Hk as [Hk|(_ & _ & Hi)]; [eauto | contradiction].
              ** intros Hno. apply C2. intros h k [Hn Hk]. apply (Hno h k). split; auto. cbn [hs]. apply nth_app_old. auto.
Qed.

(* ---------- all internal rules, all runs ---------- *)
Lemma pinv_int nw ls i s j s' : lrun (init_n nw) ls = Some s -> pinv i s -> rule_of j s = Some s' -> pinv i s'.
Proof.
  intros Hrun P H.
  destruct j;
    try (match goal with H0 : rule_of ?j0 _ = _ |- _ => eapply (pinv_int_easy _ _ j0); [exact I | exact P | exact H0] end);
    simpl in H.
  - eapply pinv_rd_read; eauto.
  - eapply pinv_rd_offer; eauto.
  - eapply pinv_rd_rst; eauto.
  - eapply pinv_wk_hand; eauto.
  - eapply pinv_h_send; eauto.
  - eapply pinv_h_unreg; eauto.
Qed.

Lemma srv_lrun_snoc_inv s ls l s2 : lrun s (ls ++ [l]) = Some s2 -> exists s1, lrun s ls = Some s1 /\ lstep s1 l = Some s2.
Proof.
  rewrite lrun_app. destruct (lrun s ls) as [s1|]; [|discriminate]. simpl.
  destruct (lstep s1 l) as [s3|] eqn:E; [|discriminate]. intros H. inversion H; subst. eauto.
Qed.

Theorem pinv_reach nw i ls : forall s, lrun (init_n nw) ls = Some s -> pinv i s.
Proof.
  induction ls using rev_ind; intros s H.
  - simpl in H. inversion H; subst. apply pinv_init.
  - apply srv_lrun_snoc_inv in H. destruct H as (s1 & H1 & H2). pose proof (IHls _ H1) as P.
    destruct x as [a|n]; simpl in H2.
    + inversion H2; subst. eapply pinv_ext; eauto.
    + destruct (nth_error (rules s1) n) as [r|] eqn:En; [|discriminate].
      apply nth_error_In in En. apply rules_cases in En. destruct En as [j ->]. eapply pinv_int; eauto.
Qed.

(* ---------- the writer (sv's accounting, Proofs/ServerWriter.v): what is written is, in order, a subsequence of what
   was taken ---------- *)
Lemma tk_taken l : tk l = taken_of l.
Proof. unfold taken_of. induction l as [|x l IH]; simpl; auto. destruct x; simpl; rewrite ?IH; auto. Qed.

Lemma subseq_Sub {A} (a b : list A) : subseq a b -> Sub a b.
Proof. intros H. induction H; [apply Sub_nil | apply SubKeep; auto | apply SubSkip; auto]. Qed.

Lemma proj_pf i l : proj i (map pf l) = map pf (idf i l).
Proof.
  unfold proj, idf. induction l as [|x l IH]; simpl; auto.
  change (p_id (pf x)) with (fid x). destruct (fid x =? i); simpl; rewrite IH; auto.
Qed.

(* C06, server half, streams: for every run of the server model against a peer that keeps its side of the bargain for
   stream id i ([sconf]: no unary-method envelope carries the id, only the first envelope of the id is header-only, the
   route is constant), the envelopes of id i the server has WRITTEN are accepted by the server-to-client automaton *)
Theorem C06_server_stream_l nw ls s i :
  lrun (init_n nw) ls = Some s -> sconf i (sreads (log s)) ->
  proto_s2c false (proj i (map pf (written (log s)))) = true.
Proof.
  intros H Hs. pose proof (pinv_reach nw i ls s H) as P.
  destruct (pv_shape _ _ P Hs) as (st & E & _).
  assert (Hsub : Sub (idf i (written (log s))) (idf i (tk (log s)))).
  { apply Sub_filter. rewrite tk_taken. apply subseq_Sub. eapply srv_written_order; eauto. }
  pose proof (proj_pf i (written (log s))) as Hproj.
  rewrite Hproj. apply (Sub_map pf) in Hsub.
  destruct (s2c_end_sub _ _ Hsub _ _ E) as (st1 & E1 & _).
  unfold proto_s2c. apply andb_true_iff. split.
  - (* constant route: every taken envelope of the id answers a read envelope of the id, and those agree *)
    eapply (const_route_sub _ _ Hsub).
    + intros a b Ha Hb. apply in_map_iff in Ha. apply in_map_iff in Hb.
      destruct Ha as (fa & <- & Ia). destruct Hb as (fb & <- & Ib).
      apply filter_In in Ia. apply filter_In in Ib. destruct Ia as [Ia Ea]. destruct Ib as [Ib Eb].
      apply Z.eqb_eq in Ea. apply Z.eqb_eq in Eb.
      destruct (pv_orig _ _ P _ Ia) as (ga & Ra & (A1 & A2 & A3 & A4)).
      destruct (pv_orig _ _ P _ Ib) as (gb & Rb & (B1 & B2 & B3 & B4)).
      destruct Hs as (_ & _ & C). apply in_sreads' in Ra. apply in_sreads' in Rb.
      destruct (C ga gb Ra Rb ltac:(congruence) ltac:(congruence)) as (C1 & C2 & C3).
      pose proof (s2c_end_hdr _ _ _ E (pf fa) ltac:(apply in_map; apply filter_In; split; auto; apply Z.eqb_eq; auto)) as Ha.
      pose proof (s2c_end_hdr _ _ _ E (pf fb) ltac:(apply in_map; apply filter_In; split; auto; apply Z.eqb_eq; auto)) as Hb.
      unfold same_route, pf in *. simpl in *. rewrite Ea, Eb, Z.eqb_refl.
      destruct (ehdr (f_env fa)) as [[?|]|]; try discriminate; destruct (ehdr (f_env fb)) as [[?|]|]; try discriminate; simpl;
        rewrite A4, B4, C1, A2, B2, C3, A3, B3, C2, !Z.eqb_refl; reflexivity.
    + intros a Ha. exact (s2c_end_hdr _ _ _ E a Ha).
  - apply s2c_stream_end. congruence.
Qed.

(* ---------- reset order: on the wire no trailer of the id follows a reset of the id ---------- *)
Lemma after_rst_only_rst st l st' :
  (st = SSClosed \/ st = SSReset) -> s2c_end st l = Some st' -> forall e, In e l -> Protocol.is_rst e = true.
Proof.
  revert st. induction l as [|x r IH]; simpl; intros st Hst H e Hin; [tauto|].
  destruct (s2c_step st x) as [s1|] eqn:E; try discriminate.
  assert (Hx : Protocol.is_rst x = true /\ (s1 = SSClosed \/ s1 = SSReset)).
  { destruct Hst as [-> | ->]; simpl in E; destruct (Protocol.is_rst x); simpl in E; try discriminate;
      destruct (md_of x =? 0); inversion E; auto. }
  destruct Hx as [Hx1 Hx2]. destruct Hin as [Hin|Hin]; [subst; auto | eapply IH; eauto].
Qed.

Lemma rst_moves st e st' : s2c_step st e = Some st' -> Protocol.is_rst e = true -> is_open e = false -> is_body e = false ->
  is_trailer e = false -> st' = SSClosed \/ st' = SSReset.
Proof.
  intros H R O B T. destruct st; simpl in H; rewrite ?O, ?B, ?T, ?R in H; simpl in H;
    repeat match type of H with context [if ?b then _ else _] => destruct b end; inversion H; auto.
Qed.

Lemma rst_shape e : Protocol.is_rst e = true -> is_open e = false /\ is_body e = false /\ is_trailer e = false.
Proof.
  unfold Protocol.is_rst, is_open, is_body, is_trailer. intros H.
  destruct (has (p_hdr e)), (p_rst e), (has (p_body e)), (has (p_status e)), (has (p_trl e)); simpl in *; try discriminate; auto.
Qed.

Lemma accepted_reset_order st pre r post st' :
  s2c_end st (pre ++ r :: post) = Some st' -> Protocol.is_rst r = true -> forall t, In t post -> is_trailer t = false.
Proof.
  revert st. induction pre as [|x pre IH]; simpl; intros st H Hr t Hin.
  - destruct (s2c_step st r) as [s1|] eqn:E; try discriminate.
    destruct (rst_shape _ Hr) as (O & B & T).
    pose proof (after_rst_only_rst _ _ _ (rst_moves _ _ _ E Hr O B T) H t Hin) as Ht. apply rst_shape in Ht. tauto.
  - destruct (s2c_step st x) as [s1|] eqn:E; try discriminate. eapply IH; eauto.
Qed.

Theorem C06_reset_order_l nw ls s i pre r post :
  lrun (init_n nw) ls = Some s -> sconf i (sreads (log s)) ->
  proj i (map pf (written (log s))) = pre ++ r :: post -> Protocol.is_rst r = true ->
  forall t, In t post -> is_trailer t = false.
Proof.
  intros H Hs Hp Hr. pose proof (C06_server_stream_l _ _ _ _ H Hs) as A.
  unfold proto_s2c in A. apply andb_true_iff in A. destruct A as [_ A]. apply s2c_stream_end in A.
  destruct (s2c_end SSStart (proj i (map pf (written (log s))))) as [st'|] eqn:E; [|congruence].
  rewrite Hp in E. eapply accepted_reset_order; eauto.
Qed.
(* ---------- a decidable form of [sconf] (for concrete runs) ---------- *)
Definition mkind_eqb (a b : mkind) : bool :=
  match a, b with
  | MBad, MBad | MUnkSvc, MUnkSvc | MUnkMeth, MUnkMeth => true
  | MUnary x, MUnary y | MStream x, MStream y => x =? y
  | _, _ => false
  end.

Lemma mkind_eqb_eq a b : mkind_eqb a b = true -> a = b.
Proof. destruct a, b; simpl; try discriminate; auto; intros H; apply Z.eqb_eq in H; subst; auto. Qed.

Definition not_unary (g : frame) : bool := match dispatch g with DUnary => false | _ => true end.
Definition route_eqb (a b : frame) : bool := mkind_eqb (f_mth a) (f_mth b) && (f_src a =? f_src b) && (f_dst a =? f_dst b).

Definition sconfb (i : Z) (reads : list frame) : bool :=
  let fs := idf i reads in
  forallb not_unary fs &&
  match fs with
  | [] => true
  | g0 :: rest => forallb (fun g => negb (hdr_only g) && route_eqb g0 g) rest
  end.

Lemma in_idf i l g : In g (idf i l) <-> In g l /\ fid g = i.
Proof. unfold idf. rewrite filter_In. rewrite Z.eqb_eq. tauto. Qed.

Lemma route_eqb_eq a b : route_eqb a b = true -> f_mth a = f_mth b /\ f_src a = f_src b /\ f_dst a = f_dst b.
Proof.
  unfold route_eqb. rewrite !andb_true_iff. intros [[A B] C]. apply mkind_eqb_eq in A. apply Z.eqb_eq in B. apply Z.eqb_eq in C. auto.
Qed.

Lemma sconfb_sound i reads : sconfb i reads = true -> sconf i reads.
Proof.
  unfold sconfb. intros H. apply andb_true_iff in H. destruct H as [H1 H2]. rewrite forallb_forall in H1.
  split; [|split].
  - intros g Hin Hi Hd. assert (X : In g (idf i reads)) by (apply in_idf; auto). specialize (H1 _ X). unfold not_unary in H1. rewrite Hd in H1. discriminate.
  - intros pre g post E Hi (g0 & Hin0 & Hi0).
    rewrite E in H2. rewrite idf_app in H2. simpl in H2. unfold idf at 2 in H2. simpl in H2. rewrite (proj2 (Z.eqb_eq _ _) Hi) in H2.
    assert (X : In g0 (idf i pre)) by (apply in_idf; auto).
    destruct (idf i pre) as [|a r] eqn:Ep; [destruct X|]. simpl in H2. rewrite forallb_forall in H2.
    assert (Y : In g (r ++ g :: filter (fun f => fid f =? i) post)) by (apply in_or_app; right; left; auto).
    specialize (H2 _ Y). apply andb_true_iff in H2. destruct H2 as [H2 _]. apply negb_true_iff in H2. exact H2.
  - intros g1 g2 I1 I2 E1 E2.
    assert (X1 : In g1 (idf i reads)) by (apply in_idf; auto). assert (X2 : In g2 (idf i reads)) by (apply in_idf; auto).
    destruct (idf i reads) as [|a r]; [destruct X1|]. rewrite forallb_forall in H2.
    assert (R : forall g, In g (a :: r) -> f_mth a = f_mth g /\ f_src a = f_src g /\ f_dst a = f_dst g).
    { intros g [<-|Hg]; auto. specialize (H2 _ Hg). apply andb_true_iff in H2. destruct H2 as [_ H2]. apply route_eqb_eq; auto. }
    destruct (R _ X1) as (A1 & A2 & A3). destruct (R _ X2) as (B1 & B2 & B3). repeat split; congruence.
Qed.

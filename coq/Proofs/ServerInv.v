(* Structural invariants of Model/Server.v over all label sequences. *)
From Coq Require Import List ZArith Bool Lia Arith.
Import ListNotations.
From Goat Require Import Model.Client Model.Server Proofs.ServerProofs.
Open Scope Z_scope.

Definition pc_dead (k : hnd) : bool := match h_pc k with HDead => true | _ => false end.
Definition rd_exited (s : state) : bool := match rd s with RdCws _ | RdWait _ _ | RdDead _ => true | _ => false end.

(* ---------- helper lemmas on the handler list ---------- *)
Lemma upd_same {A} n (x : A) l : nth_error l n = Some x -> upd n x l = l.
Proof. revert n; induction l as [|a l IH]; intros [|n] H; simpl in *; try congruence. f_equal; auto. Qed.

Lemma nth_app_new {A} (l : list A) x n y :
  nth_error (l ++ [x]) n = Some y -> nth_error l n = Some y \/ (n = length l /\ y = x).
Proof.
  intros H. destruct (lt_dec n (length l)) as [Hl|Hl].
  - left. now rewrite nth_error_app1 in H.
  - right. rewrite nth_error_app2 in H by lia. destruct (n - length l)%nat eqn:E; simpl in H.
    + inversion H. split; [lia | reflexivity].
    + destruct n0; discriminate.
Qed.

Lemma nth_app_old {A} (l : list A) x n y : nth_error l n = Some y -> nth_error (l ++ [x]) n = Some y.
Proof. intros H. rewrite nth_error_app1; [assumption | now apply nth_error_lt in H]. Qed.

(* what one handler operation changes *)
Lemma hstep_shape s h k o :
  nth_error (hs s) h = Some k -> h_pc k = HGate ->
  exists k', hs (hstep s h k o) = upd h k' (hs s)
    /\ h_unary k' = h_unary k /\ h_reg k' = h_reg k /\ h_cancel k' = h_cancel k /\ h_donesig k' = h_donesig k
    /\ h_req k' = h_req k /\ h_q k' = h_q k
    /\ (h_unary k = true -> h_pc k' = HGate \/ h_pc k' = HInAwait \/ h_pc k' = HDead)
    /\ (h_unary k = false -> h_pc k' <> HDead /\ h_pc k' <> HUnreg).
Proof.
  intros Hn Hg. unfold hstep.
  destruct (h_unary k) eqn:Hu, o; try destruct (h_hsent k) eqn:Hs; sproj;
    try (exists k; rewrite (upd_same _ _ _ Hn); rewrite Hg; repeat split; auto; try congruence; intros; discriminate);
    eexists; (split; [reflexivity|]); simpl; rewrite ?Hg; repeat split; auto; try congruence; intros; try discriminate.
Qed.

Lemma hstep_wk s h k o :
  nth_error (hs s) h = Some k -> h_pc k = HGate ->
  (wk (hstep s h k o) = wk s /\ forall k', nth_error (hs (hstep s h k o)) h = Some k' -> h_pc k' <> HDead)
  \/ (h_unary k = true /\ (exists f, wk (hstep s h k o) = finish_unary (wk s) h f)
      /\ forall k', nth_error (hs (hstep s h k o)) h = Some k' -> h_pc k' = HDead).
Proof.
  intros Hn Hg. assert (Hl := nth_error_lt _ _ _ Hn). unfold hstep.
  destruct (h_unary k) eqn:Hu, o; try destruct (h_hsent k) eqn:Hs; sproj.
  all: try (left; split; [reflexivity|]; intros k' H;
            first [rewrite nth_upd_same in H by assumption | rewrite Hn in H]; inversion H; subst; simpl; congruence).
  all: right; split; [reflexivity|]; split; [eexists; reflexivity|]; intros k' H;
       rewrite nth_upd_same in H by assumption; inversion H; reflexivity.
Qed.

Lemma hstep_other s h k o :
  rd (hstep s h k o) = rd s /\ wr (hstep s h k o) = wr s /\ inbox (hstep s h k o) = inbox s
  /\ inbox_failed (hstep s h k o) = inbox_failed s /\ wfail (hstep s h k o) = wfail s
  /\ wblock (hstep s h k o) = wblock s /\ srv_stop (hstep s h k o) = srv_stop s
  /\ serve_ctx (hstep s h k o) = serve_ctx s /\ conn_cancel (hstep s h k o) = conn_cancel s
  /\ exit_cancel (hstep s h k o) = exit_cancel s /\ cause_write (hstep s h k o) = cause_write s.
Proof.
  unfold hstep. destruct (h_unary k), o; try destruct (h_hsent k); sproj; repeat split; auto.
Qed.

Lemma finish_unary_nth l h f w p :
  nth_error (finish_unary l h f) w = Some p ->
  exists p0, nth_error l w = Some p0 /\
             (p = p0 /\ (forall g, p0 = WkRun g -> g <> h) \/ (p0 = WkRun h /\ p = WkHand f)).
Proof.
  unfold finish_unary. rewrite nth_error_map. destruct (nth_error l w) as [p0|]; simpl; [|discriminate].
  intros H. inversion H; subst. exists p0. split; [reflexivity|].
  destruct p0; try (left; split; [reflexivity | intros; discriminate]).
  destruct (Nat.eqb_spec h0 h).
  - subst. right. auto.
  - left. split; [reflexivity|]. intros g Hg. inversion Hg. subst. assumption.
Qed.

Lemma finish_unary_length l h f : length (finish_unary l h f) = length l.
Proof. unfold finish_unary. apply map_length. Qed.

Lemma find_idle_spec l n w : find_idle l n = Some w -> (n <= w)%nat /\ nth_error l (w - n) = Some WkIdle.
Proof.
  revert n. induction l as [|p l IH]; intros n H; simpl in H; [discriminate|].
  destruct p; try (apply IH in H; destruct H as [H1 H2]; split; [lia|];
                   replace (w - n)%nat with (S (w - S n)) by lia; exact H2).
  inversion H; subst. split; [lia|]. now rewrite Nat.sub_diag.
Qed.

Lemma find_idle_none l n : find_idle l n = None -> forall w, nth_error l w <> Some WkIdle.
Proof.
  revert n. induction l as [|p l IH]; intros n H w; [destruct w; discriminate|].
  simpl in H. destruct p; try discriminate; destruct w; simpl; try discriminate; eapply IH; eassumption.
Qed.

Lemma find_reg_some id l n g :
  find_reg id l n = Some g ->
  (n <= g)%nat /\ exists k, nth_error l (g - n) = Some k /\ h_reg k = true /\ fid (h_req k) = id.
Proof.
  revert n. induction l as [|k l IH]; intros n H; simpl in H; [discriminate|].
  destruct (h_reg k && (fid (h_req k) =? id)) eqn:E.
  - inversion H; subst. split; [lia|]. rewrite Nat.sub_diag. exists k.
    apply andb_true_iff in E. destruct E as [E1 E2]. apply Z.eqb_eq in E2. auto.
  - apply IH in H. destruct H as [H1 [k' [H2 H3]]]. split; [lia|]. exists k'.
    replace (g - n)%nat with (S (g - S n)) by lia. auto.
Qed.

Lemma find_reg_none id l n :
  find_reg id l n = None -> forall h k, nth_error l h = Some k -> h_reg k = true -> fid (h_req k) <> id.
Proof.
  revert n. induction l as [|k0 l IH]; intros n H h k Hn Hr; [destruct h; discriminate|].
  simpl in H. destruct (h_reg k0 && (fid (h_req k0) =? id)) eqn:E; [discriminate|].
  destruct h; simpl in Hn.
  - inversion Hn; subst. rewrite Hr in E. simpl in E. now apply Z.eqb_neq.
  - eapply IH; eassumption.
Qed.

Lemma any_reg_false l : any_reg l = false -> forall h k, nth_error l h = Some k -> h_reg k = false.
Proof.
  unfold any_reg. intros H h k Hn. apply nth_error_In in Hn.
  destruct (h_reg k) eqn:E; [|reflexivity].
  assert (existsb h_reg l = true) by (apply existsb_exists; eauto). congruence.
Qed.

Lemma any_reg_true l : any_reg l = true -> exists h k, nth_error l h = Some k /\ h_reg k = true.
Proof.
  unfold any_reg. intros H. apply existsb_exists in H. destruct H as [k [Hin Hr]].
  apply In_nth_error in Hin. destruct Hin as [h Hh]. eauto.
Qed.

(* ---------- pointwise and list-level pieces ---------- *)
Definition hok (k : hnd) : Prop :=
  (h_unary k = true -> h_reg k = false /\ (h_pc k = HGate \/ h_pc k = HInAwait \/ h_pc k = HDead))
  /\ (h_unary k = false -> h_reg k = negb (pc_dead k))
  /\ (h_pc k = HUnreg -> h_cancel k = true)
  /\ (h_donesig k = true -> h_reg k = false).

Definition uniq (l : list hnd) : Prop :=
  forall i j ki kj, nth_error l i = Some ki -> nth_error l j = Some kj ->
    h_reg ki = true -> h_reg kj = true -> fid (h_req ki) = fid (h_req kj) -> i = j.

Definition wk_run_ok (ws : list wkpc) (l : list hnd) : Prop :=
  forall w h, nth_error ws w = Some (WkRun h) ->
    exists k, nth_error l h = Some k /\ h_unary k = true /\ h_pc k <> HDead.

Lemma nth_upd_cases {A} g (x : A) l h y :
  nth_error (upd g x l) h = Some y -> (h = g /\ y = x /\ exists z, nth_error l g = Some z) \/ (h <> g /\ nth_error l h = Some y).
Proof.
  rewrite nth_upd. destruct (Nat.eqb_spec g h) as [->|Hne].
  - destruct (nth_error l h) eqn:E; [|discriminate]. intros H; inversion H; subst. left. eauto.
  - intros H. right. split; [congruence | assumption].
Qed.

Lemma all_upd (P : hnd -> Prop) g k' l :
  (forall h k, nth_error l h = Some k -> P k) -> P k' -> forall h k, nth_error (upd g k' l) h = Some k -> P k.
Proof. intros Hall Hk h k H. apply nth_upd_cases in H. destruct H as [[_ [-> _]] | [_ H]]; eauto. Qed.

Lemma all_app (P : hnd -> Prop) x l :
  (forall h k, nth_error l h = Some k -> P k) -> P x -> forall h k, nth_error (l ++ [x]) h = Some k -> P k.
Proof. intros Hall Hx h k H. apply nth_app_new in H. destruct H as [H | [_ ->]]; eauto. Qed.

Lemma uniq_upd g k k' l :
  uniq l -> nth_error l g = Some k -> h_req k' = h_req k -> (h_reg k' = true -> h_reg k = true) -> uniq (upd g k' l).
Proof.
  intros Hu Hg Hreq Hreg i j ki kj Hi Hj Ri Rj Hid.
  apply nth_upd_cases in Hi. apply nth_upd_cases in Hj.
  destruct Hi as [[-> [-> _]] | [Hi1 Hi2]], Hj as [[-> [-> _]] | [Hj1 Hj2]]; auto.
  - apply (Hu g j k kj); auto. congruence.
  - apply (Hu i g ki k); auto. congruence.
  - apply (Hu i j ki kj); auto.
Qed.

Lemma uniq_app x l :
  uniq l -> (h_reg x = true -> forall h k, nth_error l h = Some k -> h_reg k = true -> fid (h_req k) <> fid (h_req x)) ->
  uniq (l ++ [x]).
Proof.
  intros Hu Hx i j ki kj Hi Hj Ri Rj Hid.
  apply nth_app_new in Hi. apply nth_app_new in Hj.
  destruct Hi as [Hi | [-> ->]], Hj as [Hj | [-> ->]]; auto.
  - apply (Hu i j ki kj); auto.
  - exfalso. apply (Hx Rj i ki Hi Ri). assumption.
  - exfalso. apply (Hx Ri j kj Hj Rj). congruence.
Qed.

Lemma wk_run_upd_h ws g k k' l :
  wk_run_ok ws l -> nth_error l g = Some k -> h_unary k' = h_unary k ->
  (h_unary k = true -> h_pc k <> HDead -> h_pc k' <> HDead) -> wk_run_ok ws (upd g k' l).
Proof.
  intros Hw Hg Hu Hp w h H. destruct (Hw w h H) as [k0 [H1 [H2 H3]]].
  destruct (Nat.eq_dec h g) as [->|Hne].
  - exists k'. rewrite nth_upd_same by (eapply nth_error_lt; eauto).
    assert (k0 = k) by congruence. subst. split; [reflexivity|]. split; [congruence|]. auto.
  - exists k0. rewrite nth_upd_other by congruence. auto.
Qed.

Lemma wk_run_app ws x l : wk_run_ok ws l -> wk_run_ok ws (l ++ [x]).
Proof.
  intros Hw w h H. destruct (Hw w h H) as [k0 [H1 H2]]. exists k0. split; [now apply nth_app_old | assumption].
Qed.

Lemma wk_run_upd_w ws w p l :
  wk_run_ok ws l -> (forall h, p = WkRun h -> exists k, nth_error l h = Some k /\ h_unary k = true /\ h_pc k <> HDead) ->
  wk_run_ok (upd w p ws) l.
Proof.
  intros Hw Hp w' h H. apply nth_upd_cases in H. destruct H as [[_ [H _]] | [_ H]]; [apply Hp; congruence | eauto].
Qed.

Lemma dead_upd (P : Prop) ws w p :
  (forall w', nth_error ws w' = Some WkDead -> P) -> (p = WkDead -> P) ->
  forall w', nth_error (upd w p ws) w' = Some WkDead -> P.
Proof. intros Hall Hp w' H. apply nth_upd_cases in H. destruct H as [[_ [H _]] | [_ H]]; eauto. Qed.

Lemma hok_new_stream f : hok (new_stream f).
Proof. unfold hok, new_stream, pc_dead; simpl. repeat split; intros; try discriminate; auto. Qed.
Lemma hok_new_unary f : hok (new_unary f).
Proof. unfold hok, new_unary, pc_dead; simpl. repeat split; intros; try discriminate; auto. Qed.

Definition rd_ok (p : rdpc) (l : list hnd) : Prop :=
  match p with
  | RdFwd h f => exists k, nth_error l h = Some k /\ h_reg k = true /\ fid (h_req k) = fid f
  | RdWait h _ => exists k, nth_error l h = Some k /\ (h_reg k = true \/ h_donesig k = true)
  | RdDead _ => any_reg l = false
  | _ => True
  end.

Lemma rd_ok_upd p g k k' l :
  rd_ok p l -> nth_error l g = Some k -> h_reg k' = h_reg k -> h_req k' = h_req k ->
  (h_donesig k = true -> h_donesig k' = true) -> rd_ok p (upd g k' l).
Proof.
  intros H Hg Hr Hq Hd. destruct p; simpl in *; auto.
  - destruct H as [k0 [R1 [R2 R3]]]. destruct (Nat.eq_dec h g) as [->|Hne].
    + exists k'. rewrite nth_upd_same by (eapply nth_error_lt; eauto). assert (k0 = k) by congruence. subst.
      split; [reflexivity|]. split; congruence.
    + exists k0. rewrite nth_upd_other by congruence. auto.
  - destruct H as [k0 [R1 R2]]. destruct (Nat.eq_dec h g) as [->|Hne].
    + exists k'. rewrite nth_upd_same by (eapply nth_error_lt; eauto). assert (k0 = k) by congruence. subst.
      split; [reflexivity|]. rewrite Hr. destruct R2; auto.
    + exists k0. rewrite nth_upd_other by congruence. auto.
  - unfold any_reg in *. destruct (existsb h_reg (upd g k' l)) eqn:Ex; [|reflexivity].
    apply existsb_exists in Ex. destruct Ex as [x [Hin Hx]]. apply In_nth_error in Hin. destruct Hin as [n Hn'].
    apply nth_upd_cases in Hn'. destruct Hn' as [[_ [-> _]] | [_ Hn']].
    + rewrite Hr in Hx. rewrite (any_reg_false _ H _ _ Hg) in Hx. discriminate.
    + rewrite (any_reg_false _ H _ _ Hn') in Hx. discriminate.
Qed.

Lemma rd_ok_app p x l : rd_ok p l -> h_reg x = false \/ (match p with RdDead _ => False | _ => True end) -> rd_ok p (l ++ [x]).
Proof.
  intros H Hx. destruct p; simpl in *; auto.
  - destruct H as [k0 [R1 R2]]. exists k0. split; [now apply nth_app_old | assumption].
  - destruct H as [k0 [R1 R2]]. exists k0. split; [now apply nth_app_old | assumption].
  - destruct Hx as [Hx | []]. unfold any_reg in *. rewrite existsb_app. rewrite H. simpl. now rewrite Hx.
Qed.

Lemma upd_h_fields s g k k' :
  nth_error (hs s) g = Some k -> (forall h k, nth_error (hs s) h = Some k -> hok k) -> uniq (hs s) ->
  wk_run_ok (wk s) (hs s) ->
  hok k' -> h_unary k' = h_unary k -> h_req k' = h_req k -> h_reg k' = h_reg k ->
  (h_unary k = true -> h_pc k <> HDead -> h_pc k' <> HDead) ->
  (forall h k, nth_error (upd g k' (hs s)) h = Some k -> hok k) /\ uniq (upd g k' (hs s))
  /\ wk_run_ok (wk s) (upd g k' (hs s)).
Proof.
  intros Hg Hall Hu Hw Hk' U Q R P. split; [|split].
  - apply all_upd; assumption.
  - apply uniq_upd with (k := k); auto. congruence.
  - apply wk_run_upd_h with (k := k); auto.
Qed.

(* ---------- the invariant ---------- *)
Record inv (nw : nat) (s : state) : Prop := mkInv {
  i_wk : length (wk s) = nw;
  i_exit_conn : exit_cancel s = true -> conn_cancel s = true;
  i_exit_rd : exit_cancel s = rd_exited s;
  i_wr_dead : wr s = WrDead -> hctx_done s = true;
  i_wk_dead : forall w, nth_error (wk s) w = Some WkDead -> hctx_done s = true;
  i_wk_run : wk_run_ok (wk s) (hs s);
  i_h : forall h k, nth_error (hs s) h = Some k -> hok k;
  i_uniq : uniq (hs s);
  i_rd : rd_ok (rd s) (hs s) }.

Lemma nth_repeat {A} (x : A) n w y : nth_error (repeat x n) w = Some y -> y = x.
Proof. revert w. induction n as [|n IH]; intros [|w] H; simpl in H; try discriminate; [congruence | eauto]. Qed.

Lemma inv_init nw : inv nw (init_n nw).
Proof.
  constructor; simpl.
  - apply repeat_length.
  - discriminate.
  - reflexivity.
  - discriminate.
  - intros w H. apply nth_repeat in H. discriminate.
  - intros w h H. simpl in H. apply nth_repeat in H. discriminate.
  - intros h k H. destruct h; discriminate.
  - intros i j ki kj H. destruct i; discriminate.
  - exact I.
Qed.

(* ---------- environment actions preserve it ---------- *)
Lemma hctx_done_mono_env s failed wf wb stop sctx :
  (srv_stop s = true -> stop = true) -> hctx_done s = true -> hctx_done (set_env s failed wf wb stop sctx) = true.
Proof.
  unfold hctx_done, set_env; simpl. intros H H1. apply orb_true_iff in H1. apply orb_true_iff.
  destruct H1; auto.
Qed.

Lemma inv_set_env nw s failed wf wb stop sctx :
  (srv_stop s = true -> stop = true) -> inv nw s -> inv nw (set_env s failed wf wb stop sctx).
Proof.
  intros Hs I. destruct I. constructor; simpl; auto.
  - intros H. apply hctx_done_mono_env; auto.
  - intros w H. apply hctx_done_mono_env; eauto.
Qed.

Lemma inv_ext nw s a : inv nw s -> inv nw (ext s a).
Proof.
  intros I. destruct a; simpl; try (apply inv_set_env; auto; fail).
  - (* ADeliver *) destruct I. constructor; simpl; auto.
  - (* AHandlerStep *)
    destruct (nth_error (hs s) h) as [k|] eqn:Hn; [|assumption].
    destruct (h_pc k) eqn:Hg; try assumption.
    destruct (hstep_shape s h k o Hn Hg) as [k' [Hhs [Hu [Hr [Hc [Hd [Hq [Hqq [Hpu Hps]]]]]]]]].
    assert (Hnk' : nth_error (hs (hstep s h k o)) h = Some k').
    { rewrite Hhs. apply nth_upd_same. eapply nth_error_lt; eauto. }
    assert (Hwk : (wk (hstep s h k o) = wk s /\ h_pc k' <> HDead)
                  \/ (h_unary k = true /\ h_pc k' = HDead /\ exists f, wk (hstep s h k o) = finish_unary (wk s) h f)).
    { destruct (hstep_wk s h k o Hn Hg) as [[W1 W2] | [W1 [W2 W3]]]; [left | right]; auto. }
    destruct (hstep_other s h k o) as [E1 [E2 [E3 [E4 [E5 [E6 [E7 [E8 [E9 [E10 E11]]]]]]]]]].
    destruct I.
    assert (Hk : hok k) by eauto.
    assert (Hk' : hok k').
    { destruct Hk as [K1 [K2 [K3 K4]]]. unfold hok. rewrite Hu, Hr, Hd, Hc. repeat split.
      - apply K1; assumption.
      - apply Hpu; assumption.
      - intros U. specialize (K2 U). destruct (Hps U) as [P1 P2]. rewrite K2. unfold pc_dead. rewrite Hg.
        destruct (h_pc k'); try reflexivity. congruence.
      - intros P. destruct (h_unary k) eqn:U.
        + destruct (Hpu eq_refl) as [P1 | [P1 | P1]]; congruence.
        + destruct (Hps eq_refl); congruence.
      - assumption. }
    constructor; unfold hctx_done in *; rewrite ?E1, ?E2, ?E7, ?E9, ?E10, ?Hhs; auto.
    + destruct Hwk as [[-> _] | [_ [_ [f ->]]]]; [assumption | now rewrite finish_unary_length].
    + unfold rd_exited. now rewrite E1.
    + destruct Hwk as [[-> _] | [_ [_ [f ->]]]]; [assumption|].
      intros w H. apply finish_unary_nth in H. destruct H as [p0 [H0 [[Ep _] | [_ ?]]]]; [subst p0; eauto | discriminate].
    + destruct Hwk as [[-> Hnd] | [U [Hdead [f ->]]]].
      * apply wk_run_upd_h with (k := k); auto.
      * intros w g H. apply finish_unary_nth in H. destruct H as [p0 [H0 [[Ep Hne] | [_ ?]]]]; [subst p0|discriminate].
        destruct (i_wk_run0 w g H0) as [k0 [K1 [K2 K3]]].
        exists k0. rewrite nth_upd_other by (intro; subst; eapply Hne; eauto). auto.
    + apply all_upd; assumption.
    + apply uniq_upd with (k := k); auto. congruence.
    + apply rd_ok_upd with (k := k); auto. congruence.
Qed.

(* ---------- internal rules preserve it ---------- *)
Ltac start_rule H := unf_rules H; destr_in H; inv_some H.
Ltac rdrw := unfold rd_exited in *; try match goal with E : rd ?s = _ |- _ => rewrite E in * end.
Ltac fin :=
  try rewrite upd_length; auto;
  try exact I;
  try (intros; discriminate);
  try (intros; apply orb_true_r);
  try (match goal with
       | Hd : forall w, nth_error (wk ?s) w = Some WkDead -> _ |- forall w0, nth_error (upd _ _ (wk ?s)) w0 = Some WkDead -> _ =>
           apply (dead_upd _ _ _ _ Hd); intros; try discriminate; auto
       end);
  try (apply wk_run_upd_w; [assumption | intros ? ?; discriminate]).
Ltac fields I := destruct I; rdrw; constructor; sproj; unfold hctx_done in *; sproj; rdrw; sproj; auto.

(* hok of an updated record, from hok of the old one *)
Ltac hok_tac Hk :=
  let K1 := fresh "K1" in let K2 := fresh "K2" in let K3 := fresh "K3" in let K4 := fresh "K4" in
  destruct Hk as [K1 [K2 [K3 K4]]]; unfold hok, pc_dead in *; simpl in *;
  repeat match goal with E : h_pc _ = _ |- _ => rewrite E in * end;
  repeat split; intros;
  try match goal with U : h_unary _ = true |- _ => destruct (K1 U) as [? [? | [? | ?]]]; try congruence end;
  try match goal with U : h_unary _ = false |- _ => specialize (K2 U) end;
  auto; try congruence; try discriminate.

(* the rule rewrites handler g (record k, found by Hn) into k' keeping unary / req / reg / donesig *)
Ltac upd_rule I g k k' Hn :=
  let Iwk := fresh "Iwk" in let Iec := fresh "Iec" in let Ier := fresh "Ier" in let Iwd := fresh "Iwd" in
  let Ikd := fresh "Ikd" in let Irun := fresh "Irun" in let Ih := fresh "Ih" in let Iu := fresh "Iu" in
  let Ird := fresh "Ird" in
  destruct I as [Iwk Iec Ier Iwd Ikd Irun Ih Iu Ird];
  let Hk := fresh "Hk" in assert (Hk : hok k) by eauto;
  let Hk' := fresh "Hk'" in assert (Hk' : hok k') by (hok_tac Hk);
  let F1 := fresh "F1" in let F2 := fresh "F2" in let F3 := fresh "F3" in
  destruct (upd_h_fields _ g k k' Hn Ih Iu Irun Hk' eq_refl eq_refl eq_refl) as [F1 [F2 F3]];
  [ simpl; intros; try discriminate; try congruence
  | rdrw; constructor; sproj; unfold hctx_done in *; sproj; rdrw; sproj; auto; fin;
    try (eapply rd_ok_upd; eauto; fail) ].

Lemma inv_int_wait nw s s' : inv nw s -> r_rd_wait s = Some s' -> inv nw s'.
Proof.
  intros I H. start_rule H.
  match goal with Hn : nth_error (hs _) ?h = Some ?k |- inv _ (set_h _ _ ?k') => upd_rule I h k k' Hn end.
Qed.

Lemma inv_int_pick nw s h s' : inv nw s -> r_rd_cws_pick h s = Some s' -> inv nw s'.
Proof.
  intros I H. start_rule H.
  match goal with Hn : nth_error (hs _) ?h = Some ?k |- inv _ (set_h _ _ ?k') => upd_rule I h k k' Hn end.
  simpl. exists (hset_cancel h0). rewrite nth_upd_same by (eapply nth_error_lt; eauto). split; [reflexivity|]. left. assumption.
Qed.

Lemma inv_int_simple nw s i s' :
  match i with RRdRead | RRdOffer | RHUnreg _ => False | _ => True end ->
  inv nw s -> rule_of i s = Some s' -> inv nw s'.
Proof.
  intros Hi I H. destruct i; try contradiction; simpl in H.
  all: try (start_rule H; fields I; fin; fail).
  all: try (start_rule H;
            match goal with
            | Hn : nth_error (hs _) ?h = Some ?k |- inv _ (add_log (set_h _ _ ?k') _) => upd_rule I h k k' Hn
            | Hn : nth_error (hs _) ?h = Some ?k |- inv _ (add_log (set_wr (set_h _ _ ?k') _) _) => upd_rule I h k k' Hn
            | Hn : nth_error (hs _) ?h = Some ?k |- inv _ (add_log (set_h (set_rd _ _) _ ?k') _) => upd_rule I h k k' Hn
            end; fail).
  - eapply inv_int_wait; eassumption.
  - eapply inv_int_pick; eassumption.
Qed.

Lemma inv_log_inbox nw s i evs : inv nw s -> inv nw (add_log (set_inbox s i) evs).
Proof. intros I. destruct I. constructor; sproj; auto. Qed.

Lemma inv_stream_dispatch nw s f : inv nw s -> rd s = RdRead -> inv nw (stream_dispatch s f).
Proof.
  intros I Erd. unfold stream_dispatch.
  destruct (find_reg (fid f) (hs s) 0) as [h|] eqn:Ef.
  - destruct (find_reg_some _ _ _ _ Ef) as [_ [k [Hn [Hr Hid]]]]. rewrite Nat.sub_0_r in Hn.
    destruct (is_rst f).
    + rewrite Hn. upd_rule I h k (hset_cancel k) Hn.
    + fields I; fin. simpl. exists k. auto.
  - destruct (is_rst f); [assumption|].
    destruct (has_body f); [fields I; fin|].
    destruct (has_trl f); [assumption|].
    destruct (md_bad f); [fields I; fin|].
    destruct I as [Iwk Iec Ier Iwd Ikd Irun Ih Iu Ird]. constructor; sproj; auto.
    + now apply wk_run_app.
    + apply all_app; [assumption | apply hok_new_stream].
    + apply uniq_app; [assumption|]. intros _ h k Hn Hr. simpl. eapply find_reg_none; eauto.
    + apply rd_ok_app; [assumption|]. right. rewrite Erd. exact I.
Qed.

Lemma inv_int_read nw s s' : inv nw s -> r_rd_read s = Some s' -> inv nw s'.
Proof.
  intros I H. unfold r_rd_read in H. destruct (rd s) eqn:Erd; try discriminate.
  destruct (inbox s) as [|f rest] eqn:Ei.
  - destr_in H; inv_some H; fields I; fin.
  - destruct (dispatch f); inv_some H.
    + apply inv_log_inbox; assumption.
    + fields I; fin.
    + apply inv_stream_dispatch; [apply inv_log_inbox; assumption | exact Erd].
Qed.

Lemma inv_start_unary nw s w f : inv nw s -> inv nw (start_unary s w f).
Proof.
  intros I. unfold start_unary.
  destruct (negb (has_hdr f)); [fields I; fin|].
  destruct (md_bad f); [fields I; fin|].
  destruct (body_tok f <? 0); [fields I; fin|].
  destruct I as [Iwk Iec Ier Iwd Ikd Irun Ih Iu Ird]. constructor; sproj; auto.
  - now rewrite upd_length.
  - apply (dead_upd _ _ _ _ Ikd). discriminate.
  - intros w' h H. apply nth_upd_cases in H. destruct H as [[_ [H _]] | [_ H]].
    + inversion H; subst. exists (new_unary f). rewrite nth_error_app2 by lia. rewrite Nat.sub_diag.
      split; [reflexivity|]. split; [reflexivity | discriminate].
    + destruct (Irun w' h H) as [k [K1 K2]]. exists k. split; [now apply nth_app_old | assumption].
  - apply all_app; [assumption | apply hok_new_unary].
  - apply uniq_app; [assumption|]. intros Hr. discriminate.
  - apply rd_ok_app; [assumption|]. left. reflexivity.
Qed.

Lemma inv_int_offer nw s s' : inv nw s -> r_rd_offer s = Some s' -> inv nw s'.
Proof.
  intros I H. unfold r_rd_offer in H. destruct (rd s) eqn:Erd; try discriminate.
  destruct (find_idle (wk s) 0) as [w|] eqn:Ew; [|discriminate]. inv_some H.
  apply inv_start_unary. fields I; fin.
Qed.

Lemma upd_upd {A} n (x y : A) l : upd n y (upd n x l) = upd n y l.
Proof. revert n; induction l as [|a l IH]; intros [|n]; simpl; auto. f_equal. apply IH. Qed.

Lemma rd_ok_unreg p g k k' l :
  rd_ok p l -> match p with RdFwd _ _ => False | _ => True end -> nth_error l g = Some k ->
  h_reg k' = false -> h_donesig k' = true -> rd_ok p (upd g k' l).
Proof.
  intros H Hp Hg Hr Hd. destruct p; simpl in *; auto; try contradiction.
  - destruct H as [k0 [R1 R2]]. destruct (Nat.eq_dec h g) as [->|Hne].
    + exists k'. rewrite nth_upd_same by (eapply nth_error_lt; eauto). auto.
    + exists k0. rewrite nth_upd_other by congruence. auto.
  - unfold any_reg in *. destruct (existsb h_reg (upd g k' l)) eqn:Ex; [|reflexivity].
    apply existsb_exists in Ex. destruct Ex as [x [Hin Hx]]. apply In_nth_error in Hin. destruct Hin as [n Hn'].
    apply nth_upd_cases in Hn'. destruct Hn' as [[_ [-> _]] | [_ Hn']]; [congruence|].
    rewrite (any_reg_false _ H _ _ Hn') in Hx. discriminate.
Qed.

(* unregisterStream finds the caller's own entry *)
Lemma unreg_self nw s h k :
  inv nw s -> nth_error (hs s) h = Some k -> h_pc k = HUnreg ->
  find_reg (fid (h_req k)) (upd h (hset_pc k HDead) (hs s)) 0 = Some h /\ h_unary k = false /\ h_reg k = true.
Proof.
  intros I Hn Hp. destruct I as [Iwk Iec Ier Iwd Ikd Irun Ih Iu Ird].
  assert (Hk : hok k) by eauto. destruct Hk as [K1 [K2 [K3 K4]]].
  assert (U : h_unary k = false).
  { destruct (h_unary k); [|reflexivity]. destruct (K1 eq_refl) as [_ [P | [P | P]]]; congruence. }
  assert (R : h_reg k = true) by (rewrite (K2 U); unfold pc_dead; now rewrite Hp).
  split; [|split; assumption].
  assert (Hu' : uniq (upd h (hset_pc k HDead) (hs s))) by (apply uniq_upd with (k := k); auto).
  assert (Hn' : nth_error (upd h (hset_pc k HDead) (hs s)) h = Some (hset_pc k HDead))
    by (apply nth_upd_same; eapply nth_error_lt; eauto).
  destruct (find_reg (fid (h_req k)) (upd h (hset_pc k HDead) (hs s)) 0) as [g|] eqn:Ef.
  - destruct (find_reg_some _ _ _ _ Ef) as [_ [kg [G1 [G2 G3]]]]. rewrite Nat.sub_0_r in G1.
    f_equal. apply (Hu' g h kg (hset_pc k HDead)); auto.
  - exfalso. apply (find_reg_none _ _ _ Ef h (hset_pc k HDead) Hn'); auto.
Qed.

Lemma inv_int_unreg nw s h s' : inv nw s -> r_h_unreg h s = Some s' -> inv nw s'.
Proof.
  intros I H. unfold r_h_unreg in H.
  destruct (nth_error (hs s) h) as [k|] eqn:Hn; [|discriminate].
  destruct (h_pc k) eqn:Hp; try discriminate.
  destruct (mu_free s) eqn:Hmu; [|discriminate].
  destruct (unreg_self nw s h k I Hn Hp) as [Ef [U R]].
  unfold set_h at 1 2 3 in H. cbn [hs set_hs] in H. rewrite Ef in H.
  rewrite nth_upd_same in H by (eapply nth_error_lt; eauto). inv_some H.
  destruct I as [Iwk Iec Ier Iwd Ikd Irun Ih Iu Ird]. assert (Hk : hok k) by eauto.
  constructor; sproj; auto; rewrite upd_upd.
  - apply wk_run_upd_h with (k := k); auto. intros; congruence.
  - apply all_upd; [assumption|]. destruct Hk as [K1 [K2 [K3 K4]]]. unfold hok, pc_dead; simpl.
    repeat split; intros; auto; congruence.
  - apply uniq_upd with (k := k); auto; simpl; discriminate.
  - apply rd_ok_unreg with (k := k); auto. unfold mu_free in Hmu. destruct (rd s); auto; discriminate.
Qed.

Theorem inv_int nw s i s' : inv nw s -> rule_of i s = Some s' -> inv nw s'.
Proof.
  intros I H.
  destruct i;
    try (eapply inv_int_simple; [ | exact I | exact H]; exact Logic.I);
    simpl in H.
  - eapply inv_int_read; eassumption.
  - eapply inv_int_offer; eassumption.
  - eapply inv_int_unreg; eassumption.
Qed.

Theorem inv_reach nw ls s : lrun (init_n nw) ls = Some s -> inv nw s.
Proof. apply lrun_inv; [apply inv_ext | apply inv_int | apply inv_init]. Qed.

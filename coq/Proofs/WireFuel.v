(* C19, wire format: the fuel given to the byte-level decoder is always enough. [fields] runs [fields_fuel] with the
   length of the input, [dec_field] runs [skip_groups] with one more than the length of what follows the start-group
   tag; both recursions consume at least one byte per step, so the out-of-fuel branch (which answers None, like
   "undecodable") is never the one that answers: with ANY larger fuel the result is the same. *)
From Coq Require Import List ZArith Bool Lia NArith.
Import ListNotations.
From Goat Require Import Base.Bytes Model.WireFormat.
Open Scope N_scope.

Lemma varint_dec_len n : forall sh b v r, varint_dec n sh b = Some (v, r) -> (length r < length b)%nat.
Proof.
  induction n as [|n IH]; intros sh b v r H; [discriminate|].
  destruct b as [|y rest]; [destruct n; discriminate|].
  destruct n as [|n'].
  - cbn in H. destruct (y <? 2); inversion H; subst. cbn. lia.
  - change (varint_dec (S (S n')) sh (y :: rest)) with
      (if y <? 128 then Some (y * sh, rest)
       else match varint_dec (S n') (sh * 128) rest with Some (v, r) => Some ((y - 128) * sh + v, r) | None => None end) in H.
    destruct (y <? 128); [inversion H; subst; cbn; lia|].
    destruct (varint_dec (S n') (sh * 128) rest) as [[v0 r0]|] eqn:E; [|discriminate].
    inversion H; subst. apply IH in E. cbn. lia.
Qed.

Lemma dec_varint_len b v r : dec_varint b = Some (v, r) -> (length r < length b)%nat.
Proof. apply varint_dec_len. Qed.

Lemma skipn_len {A} n (l : list A) : (length (skipn n l) <= length l)%nat.
Proof. rewrite skipn_length. lia. Qed.

Ltac split_tag t :=
  destruct t as [|[[[?p|?p|]|[?p|?p|]|]|[[?p|?p|]|[?p|?p|]|]|]].

Ltac open_goal :=
  repeat match goal with
         | |- context [match dec_varint ?x with _ => _ end] =>
             let E := fresh "E" in destruct (dec_varint x) as [[? ?]|] eqn:E; [apply dec_varint_len in E|reflexivity]
         | |- context [if ?c then _ else _] => destruct c; try reflexivity
         end.

Ltac open_hyp H :=
  repeat match type of H with
         | context [match dec_varint ?x with _ => _ end] =>
             let E := fresh "E" in destruct (dec_varint x) as [[? ?]|] eqn:E; [apply dec_varint_len in E|discriminate H]
         | context [match skip_groups ?f ?st ?x with _ => _ end] =>
             let E := fresh "Es" in destruct (skip_groups f st x) as [?|] eqn:E; [|discriminate H]
         | context [if ?c then _ else _] => destruct c; try discriminate H
         end.

(* skip_groups: any two fuels above the length of the input give the same answer *)
Lemma skip_groups_stable : forall f1 f2 st b,
  (length b < f1)%nat -> (length b < f2)%nat -> skip_groups f1 st b = skip_groups f2 st b.
Proof.
  induction f1 as [|f1 IH]; intros f2 st b H1 H2; [lia|].
  destruct f2 as [|f2]; [lia|]. destruct st as [|top below]; [reflexivity|].
  cbn [skip_groups]. destruct (dec_varint b) as [[tag b1]|] eqn:Ev; [|reflexivity].
  apply dec_varint_len in Ev.
  destruct ((tag / 8 <? 1) || (max_group_num <? tag / 8)); [reflexivity|].
  split_tag (tag mod 8); open_goal; try reflexivity; apply IH; rewrite ?skipn_length; lia.
Qed.

Lemma skip_groups_len : forall f st b r, skip_groups f st b = Some r -> (length r <= length b)%nat.
Proof.
  induction f as [|f IH]; intros st b r H; destruct st as [|top below]; cbn [skip_groups] in H;
    try (inversion H; subst; lia); try discriminate.
  destruct (dec_varint b) as [[tag b1]|] eqn:Ev; [|discriminate]. apply dec_varint_len in Ev.
  destruct ((tag / 8 <? 1) || (max_group_num <? tag / 8)); [discriminate|].
  split_tag (tag mod 8); open_hyp H; try discriminate H; apply IH in H; rewrite ?skipn_length in H; lia.
Qed.

(* a field consumes at least one byte *)
Lemma dec_field_len b num w rest : dec_field b = Some (num, w, rest) -> (length rest < length b)%nat.
Proof.
  unfold dec_field. intro H. destruct (dec_varint b) as [[tag b1]|] eqn:Ev; [|discriminate]. apply dec_varint_len in Ev.
  destruct ((tag / 8 <? 1) || (max_num <? tag / 8)); [discriminate|].
  split_tag (tag mod 8); open_hyp H; try discriminate H;
    try (match goal with Es : skip_groups _ _ _ = Some _ |- _ => apply skip_groups_len in Es end);
    repeat match type of H with
           | context [skipn ?n ?l] =>
               let Hs := fresh "Hs" in let sk := fresh "sk" in let Hk := fresh "Hk" in
               pose proof (skipn_len n l) as Hs; remember (skipn n l) as sk eqn:Hk; clear Hk
           end;
    inversion H; subst; lia.
Qed.

Lemma fields_fuel_stable : forall f1 f2 b, (length b <= f1)%nat -> (length b <= f2)%nat -> fields_fuel f1 b = fields_fuel f2 b.
Proof.
  induction f1 as [|f1 IH]; intros f2 b H1 H2.
  - destruct b; [destruct f2; reflexivity|cbn in H1; lia].
  - destruct b as [|y b']; [destruct f2; reflexivity|]. destruct f2 as [|f2]; [cbn in H2; lia|].
    cbn [fields_fuel]. destruct (dec_field (y :: b')) as [[[num w] rest]|] eqn:Ef; [|reflexivity].
    apply dec_field_len in Ef. rewrite (IH f2 rest); [reflexivity| |]; cbn in *; lia.
Qed.

(* the fuel [fields] passes is enough for every input: more fuel never changes the answer, so a None of [fields] is never
   "out of fuel" *)
Theorem decode_fuel_enough : forall b f, (length b <= f)%nat -> fields_fuel f b = fields b.
Proof. intros b f H. unfold fields. apply fields_fuel_stable; [exact H|lia]. Qed.

(* likewise for the fuel [dec_field] passes to [skip_groups] at a start-group tag *)
Theorem skip_groups_fuel_enough : forall b st f, (length b < f)%nat -> skip_groups f st b = skip_groups (S (length b)) st b.
Proof. intros b st f H. apply skip_groups_stable; [exact H|lia]. Qed.

(* and never answers None for want of fuel: with enough fuel every input that is a sequence of fields is recognised - the
   only way to None is a byte pattern that is not a field *)
Theorem fields_none_not_fuel : forall b, fields b = None -> forall f, (length b <= f)%nat -> fields_fuel f b = None.
Proof. intros b H f Hf. rewrite decode_fuel_enough by exact Hf. exact H. Qed.

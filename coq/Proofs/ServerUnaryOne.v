(* C06, server half, unary: exactly one response per dispatched request, wherever a live connection is at rest. *)
From Coq Require Import List ZArith Bool Lia Arith.
Import ListNotations.
From Goat Require Import Model.Client Model.Server Proofs.ServerProofs Proofs.ServerInv Proofs.ServerLive Proofs.ServerTrace
  Proofs.ServerRoute Proofs.ServerProbe Proofs.ServerWriter Proofs.ServerUnary Proofs.ServerStall.
Open Scope Z_scope.

(* at rest on a live connection whose transport does not block writes, everything the writer took is on the wire *)
Theorem srv_live_taken_written nw ls s : lrun (init_n nw) ls = Some s ->
  quiescent s = true -> wblock s = false -> hctx_done s = false -> taken_of (log s) = written (log s).
Proof.
  intros H Q Hb Hc. pose proof (inv_reach nw ls s H) as Iv.
  destruct (q_writer nw s Iv Q (or_introl Hb)) as [[_ Hw] | [Hc' _]]; [|congruence].
  rewrite (srv_taken_written nw ls s H). unfold inflight. rewrite Hw, app_nil_r.
  apply outcomes_all_written. intros f Hin. pose proof (srv_wfail_cancels nw ls s H f Hin). congruence.
Qed.

Lemma live_nothing_lost nw ls s i : lrun (init_n nw) ls = Some s -> hctx_done s = false -> cnt i (ulost (log s)) = 0%nat.
Proof.
  intros H Hc. unfold cnt. destruct (filter (fun f => fid f =? i) (ulost (log s))) as [|f l] eqn:E; [reflexivity|]. exfalso.
  assert (Hin : In f (filter (fun f => fid f =? i) (ulost (log s)))) by (rewrite E; now left).
  apply filter_In in Hin. destruct Hin as [Hin _]. unfold ulost in Hin. apply filter_In in Hin. destruct Hin as [Hin Hu].
  unfold lost_of in Hin. apply in_flat_map in Hin. destruct Hin as [e [He Hf]]. destruct e; try contradiction.
  destruct Hf as [<- | []].
  destruct (p_lost s (pinv_reach nw ls s H) f0 He) as [Hd | [m Hm]]; [congruence|].
  unfold umth in Hu. rewrite Hm in Hu. discriminate.
Qed.

(* the unary-method envelopes on the wire *)
Definition uwritten (l : list sev) : list frame := filter umth (written l).

(* exactly one: wherever a live connection (no Stop, no failed write) is at rest with a transport that does not block
   writes, per id i: the unary requests of id i handed to workers are exactly as many as the unary-method envelopes of id
   i on the wire plus the workers still running a handler for such a request. So every dispatched unary request whose
   handler has returned (or that was refused as undecodable) has exactly ONE response envelope on the wire, and a request
   whose handler is still running has none. *)
Theorem srv_unary_exactly_one nw ls s i : lrun (init_n nw) ls = Some s ->
  quiescent s = true -> wblock s = false -> hctx_done s = false ->
  cnt i (ServerUnary.jobs (log s)) = (cnt i (uwritten (log s)) + busy i s)%nat
  /\ (forall w p, nth_error (wk s) w = Some p -> busyp i (hs s) p = true -> exists h, p = WkRun h).
Proof.
  intros H Q Hb Hc. pose proof (inv_reach nw ls s H) as Iv. split.
  - rewrite (srv_unary_count nw ls s i H), (live_nothing_lost nw ls s i H Hc).
    unfold uwritten, utaken. rewrite (srv_live_taken_written nw ls s H Q Hb Hc). lia.
  - intros w p Hw Hp. destruct p; simpl in Hp; try discriminate; [eauto|]. exfalso.
    destruct (q_writer nw s Iv Q (or_introl Hb)) as [[_ Hwr] | [Hc' _]]; [|congruence].
    assert (Hl := nth_error_lt _ _ _ Hw).
    pose proof (q_wk s w r_wk_hand Q Hl ltac:(simpl; tauto)) as H2. unfold r_wk_hand in H2. rewrite Hw, Hwr in H2. discriminate.
Qed.

(* ---------- the shape of a unary response: "a body or a non-OK status" ---------- *)
From Goat Require Import Proofs.ServerOrigin Proofs.ServerDispatch.

Definition nonok (f : frame) : bool := match estatus (f_env f) with Some st => negb (st_code st =? 0) | None => false end.
(* Protocol.is_unary_resp on frames: header, trailer, no reset, and a body or a non-OK status *)
Definition uresp (f : frame) : bool := ushape f && (has_body f || nonok f).

(* where unary-method envelopes come from: the worker's refusal of an undecodable request, or the response built from
   the return (rep, e) of a unary handler *)
Definition good (f : frame) : Prop :=
  (exists g, f = badmd_reply g \/ f = undec_reply g) \/ (exists k rep e, f = unary_reply k rep e).

Record ginv (s : state) : Prop := mkG {
  g_wk : forall w f, nth_error (wk s) w = Some (WkHand f) -> good f;
  g_taken : forall f, In (SvTaken f) (log s) -> good f \/ smth f = true }.

Lemma ginv_init nw : ginv (init_n nw).
Proof. constructor; simpl; [intros w f H; apply nth_repeat in H; discriminate | intros f []]. Qed.

Lemma ginv_hstep s h k o : ginv s -> nth_error (hs s) h = Some k -> h_pc k = HGate -> ginv (hstep s h k o).
Proof.
  intros [G1 G2] Hn Hp. unfold hstep. destruct (h_unary k) eqn:Hu, o; try destruct (h_hsent k) eqn:Hs; sproj.
  all: constructor; sproj; intros; otac; simpl in *; eauto.
  all: try (match goal with H : In _ (_ ++ _) |- _ => in_log H; eauto end).
  all: try (apply finish_unary_nth in H; destruct H as (p0 & Hw & [[Hp0 _]|[Hp0 Hf]]); subst; eauto;
            inversion Hf; subst; right; eauto).
Qed.

Lemma ginv_ext s a : ginv s -> ginv (ext s a).
Proof.
  intros G. destruct a; simpl; try (destruct G as [G1 G2]; constructor; sproj; auto; fail).
  destruct (nth_error (hs s) h) as [k|] eqn:E; auto. destruct (h_pc k) eqn:Ep; auto. apply ginv_hstep; auto.
Qed.

Ltac g_tac := constructor; sproj; intros; otac; simpl in *; eauto;
              try (match goal with H : In _ (_ ++ _) |- _ => in_log H; eauto end).

Lemma ginv_int s i s' : mctx s -> minv s -> ginv s -> rule_of i s = Some s' -> ginv s'.
Proof.
  intros [[_ Ihd] Id] [M1 M2 M3] [G1 G2] H. destruct i; simpl in H.
  all: try (start_rule H; g_tac; fail).
  - (* r_rd_read *)
    unfold r_rd_read in H. destruct (rd s); try discriminate. destruct (inbox s) as [|f rest].
    + destr_in H; inv_some H; g_tac.
    + destruct (dispatch f); inv_some H; try (g_tac; fail).
      unfold stream_dispatch. sproj.
      destruct (find_reg (fid f) (hs s) 0) as [g|];
        [destruct (is_rst f); [destruct (nth_error (hs s) g) eqn:Eg|]
        |destruct (is_rst f); [|destruct (has_body f); [|destruct (has_trl f); [|destruct (md_bad f)]]]];
        g_tac.
  - (* r_rd_offer *)
    unfold r_rd_offer in H. destruct (rd s) eqn:Erd; try discriminate. destruct (find_idle (wk s) 0); [|discriminate]. inv_some H.
    assert (Hh : has_hdr f = true) by (apply dispatch_hdr; congruence).
    unfold start_unary. rewrite Hh. simpl negb. cbv iota.
    destruct (md_bad f); [|destruct (body_tok f <? 0)]; g_tac; left; eauto.
  - (* r_rd_rst *)
    unfold r_rd_rst in H. destruct (rd s) eqn:Erd; try discriminate. destruct (wr s); try discriminate.
    destruct (has_hdr f); inv_some H; g_tac.
    inversion H; subst. right. exact (smth_stream f Ihd).
  - (* r_wk_hand *)
    start_rule H. g_tac.
    all: try (match goal with E : SvTaken _ = SvTaken _ |- _ => inversion E; subst end); left; eauto.
  - (* r_h_send *)
    start_rule H; g_tac.
    all: try (match goal with E : SvTaken _ = SvTaken _ |- _ => inversion E; subst end); right; eauto.
Qed.

Theorem ginv_reach nw ls s : lrun (init_n nw) ls = Some s -> ginv s.
Proof.
  intros H. assert (G : (mctx s /\ minv s) /\ ginv s).
  { revert H. apply (lrun_inv (fun s => (mctx s /\ minv s) /\ ginv s)).
    - intros s0 a [[[I1 I2] M] G]. split; [|now apply ginv_ext].
      split; [split; [now apply inv_hdr_ext | eapply inv_dispatch_step; [eassumption | now apply step_ok_ext]] |].
      apply minv_ext; [split; assumption | assumption].
    - intros s0 i s1 [[[I1 I2] M] G] Hr. split.
      + split; [split; [eapply inv_hdr_int; eassumption | eapply inv_dispatch_step; [eassumption | eapply step_ok_int; eassumption]]|].
        eapply minv_int; [split; eassumption | eassumption | eassumption].
      + eapply ginv_int; [split; eassumption | eassumption | eassumption | eassumption].
    - split; [split; [split; [apply inv_hdr_init | split; [reflexivity | intros p []]] | apply minv_init] | apply ginv_init]. }
  apply G.
Qed.

Lemma uresp_reject g : uresp (badmd_reply g) = true /\ uresp (undec_reply g) = true.
Proof. split; reflexivity. Qed.

(* a handler's return (rep, e) gives a body iff rep is a reply, a non-OK status iff e is an error other than a status
   error with code OK *)
Definition ret_ok (rep : option Z) (e : herr) : bool :=
  match rep with Some _ => true | None => match ustatus e with Some st => negb (st_code st =? 0) | None => false end end.
Lemma uresp_reply k rep e : uresp (unary_reply k rep e) = ret_ok rep e.
Proof.
  unfold uresp, ushape, unary_reply, resp, has_hdr, has_trl, is_rst, has_body, nonok, ret_ok; simpl.
  destruct rep; [reflexivity|]. destruct (ustatus e); reflexivity.
Qed.

(* every unary-method envelope on the wire is a unary response in the sense of the protocol text - header, trailer, no
   reset, and a body or a non-OK status - or it is [unary_reply k None e], built from a handler that returned neither a
   reply nor a non-OK error *)
Theorem srv_unary_resp_full nw ls s f : lrun (init_n nw) ls = Some s ->
  In (SvWrite f) (log s) -> umth f = true ->
  uresp f = true \/ exists k rep e, f = unary_reply k rep e /\ ret_ok rep e = false.
Proof.
  intros H Hw Hu. pose proof (srv_written_taken nw ls s f H Hw) as Ht.
  destruct (g_taken s (ginv_reach nw ls s H) f Ht) as [[[g [-> | ->]] | [k [rep [e ->]]]] | Hs].
  - left. apply uresp_reject.
  - left. apply uresp_reject.
  - destruct (ret_ok rep e) eqn:R; [left; now rewrite uresp_reply | right; eauto].
  - rewrite (umth_not_smth f Hu) in Hs. discriminate.
Qed.

(* Shared infrastructure for the proofs about Model/Client.v: list lemmas, the
   case analysis of one step of the LTS, tactics that open a rule and reduce the
   record setters, induction over label sequences. *)
From Coq Require Import List ZArith Bool Lia Arith.
Import ListNotations.
From Goat Require Import Model.Client.
Open Scope Z_scope.

(* ---------- lists ---------- *)
Lemma length_upd {A} (n : nat) (x : A) l : length (upd n x l) = length l.
Proof. revert n; induction l; destruct n; simpl; auto. Qed.

Lemma nth_upd_eq {A} (n : nat) (x : A) l : (n < length l)%nat -> nth_error (upd n x l) n = Some x.
Proof. revert n; induction l; destruct n; simpl; intros; try lia; auto. apply IHl; lia. Qed.

Lemma nth_upd_neq {A} (n m : nat) (x : A) l : n <> m -> nth_error (upd n x l) m = nth_error l m.
Proof. revert n m; induction l; destruct n, m; simpl; intros; try congruence; auto. Qed.

Lemma nth_some_lt {A} (l : list A) n x : nth_error l n = Some x -> (n < length l)%nat.
Proof. intros H. apply nth_error_Some. congruence. Qed.

Lemma nth_upd_inv {A} n (x' : A) l c y :
  nth_error (upd n x' l) c = Some y -> (c = n /\ y = x') \/ (c <> n /\ nth_error l c = Some y).
Proof.
  destruct (Nat.eq_dec n c).
  - subst. intros H. pose proof (nth_some_lt _ _ _ H) as L. rewrite length_upd in L.
    rewrite nth_upd_eq in H by auto. inversion H; auto.
  - rewrite nth_upd_neq by auto. auto.
Qed.

Lemma nth_app_cases {A} (l : list A) y n x :
  nth_error (l ++ [y]) n = Some x -> (nth_error l n = Some x /\ (n < length l)%nat) \/ (n = length l /\ x = y).
Proof.
  intros H. destruct (Nat.ltb_spec n (length l)).
  - rewrite nth_error_app1 in H by auto. auto.
  - rewrite nth_error_app2 in H by auto. destruct (n - length l)%nat eqn:E; simpl in H.
    + inversion H. right. split; auto. lia.
    + destruct n0; discriminate.
Qed.

Lemma nth_app_last {A} (l : list A) x : nth_error (l ++ [x]) (length l) = Some x.
Proof. rewrite nth_error_app2 by lia. rewrite Nat.sub_diag. reflexivity. Qed.

Lemma nth_map_inv {A B} (f : A -> B) l n y : nth_error (map f l) n = Some y -> exists x, nth_error l n = Some x /\ y = f x.
Proof.
  revert n; induction l; destruct n; simpl; intros; try discriminate.
  - inversion H. eauto.
  - eauto.
Qed.

Lemma Forall_upd {A} (P : A -> Prop) n x l : Forall P l -> P x -> Forall P (upd n x l).
Proof.
  intros H Hx. revert n. induction H; destruct n; simpl; constructor; auto.
Qed.

Lemma Forall_nth {A} (P : A -> Prop) l n x : Forall P l -> nth_error l n = Some x -> P x.
Proof. intros H Hn. rewrite Forall_forall in H. apply H. eapply nth_error_In; eauto. Qed.

Lemma Forall_nth_iff {A} (P : A -> Prop) l : Forall P l <-> (forall n x, nth_error l n = Some x -> P x).
Proof.
  split.
  - intros; eapply Forall_nth; eauto.
  - intros H. apply Forall_forall. intros x Hin. apply In_nth_error in Hin. destruct Hin as (n & Hn). eauto.
Qed.

(* ---------- find_reg ---------- *)
Lemma find_reg_some id ks n c :
  find_reg id ks n = Some c ->
  (n <= c)%nat /\ exists k, nth_error ks (c - n) = Some k /\ k_reg k = true /\ k_id k = id /\
                            forall j kj, (j < c - n)%nat -> nth_error ks j = Some kj -> k_reg kj = true -> k_id kj <> id.
Proof.
  revert n; induction ks; simpl; intros; try discriminate.
  destruct (k_reg a && (k_id a =? id)) eqn:E.
  - inversion H; subst. split; [lia|]. rewrite Nat.sub_diag. simpl. exists a.
    apply andb_true_iff in E. destruct E. repeat split; auto. lia. intros; lia.
  - apply IHks in H. destruct H as (Hle & x & Hn & Hr & Hk & Hmin). split; [lia|].
    exists x. replace (c - n)%nat with (S (c - S n)) by lia. simpl. repeat split; auto.
    intros j kj Hj Hnj Hrj. destruct j; simpl in Hnj.
    + inversion Hnj; subst. rewrite Hrj in E. simpl in E. lia.
    + eapply Hmin; eauto. lia.
Qed.

Lemma find_reg_none id ks n :
  find_reg id ks n = None -> forall k, In k ks -> k_reg k = true -> k_id k <> id.
Proof.
  revert n; induction ks; simpl; intros; try tauto.
  destruct (k_reg a && (k_id a =? id)) eqn:E; try discriminate.
  destruct H0.
  - subst. rewrite H1 in E. simpl in E. lia.
  - eauto.
Qed.

Lemma find_reg0_some id ks c :
  find_reg id ks 0 = Some c -> exists k, nth_error ks c = Some k /\ k_reg k = true /\ k_id k = id.
Proof. intros H. apply find_reg_some in H. rewrite Nat.sub_0_r in H. destruct H as (_ & k & ? & ? & ? & _). eauto. Qed.

(* ---------- case analysis of one step ---------- *)
Inductive step_kind (s s' : state) : Prop :=
| SkExt (a : act) (H : s' = ext s a)
| SkRlUnblock (H : r_rl_unblock s = Some s')
| SkRlRead (H : r_rl_read s = Some s')
| SkCheck (c : nat) (H : r_check c s = Some s')
| SkReg (c : nat) (H : r_reg c s = Some s')
| SkWait (c : nat) (H : r_wait c s = Some s')
| SkWaitCtx (c : nat) (H : r_wait_ctx c s = Some s')
| SkUnreg (c : nat) (H : r_unreg c s = Some s')
| SkLoopRead (c : nat) (H : r_loop_read c s = Some s')
| SkLoopReadCtx (c : nat) (H : r_loop_read_ctx c s = Some s')
| SkLoopHand (c : nat) (H : r_loop_hand c s = Some s')
| SkLoopHandCtx (c : nat) (H : r_loop_hand_ctx c s = Some s')
| SkLoopExit (c : nat) (H : r_loop_exit c s = Some s')
| SkLoopUnreg (c : nat) (H : r_loop_unreg c s = Some s')
| SkRecv (c : nat) (H : r_recv c s = Some s')
| SkHeader (c : nat) (H : r_header c s = Some s')
| SkTrailer (c : nat) (H : r_trailer c s = Some s')
| SkSend (c : nat) (H : r_send c s = Some s').

Lemma rules_in r s :
  In r (rules s) ->
  r = r_rl_unblock \/ r = r_rl_read \/ exists c, (c < length (calls s))%nat /\ In r (map (fun f => f c) per_call_rules).
Proof.
  unfold rules. intros [<-|[<-|H]]; auto.
  right; right. apply in_flat_map in H. destruct H as (c & Hc & H). apply in_seq in Hc. exists c. split; auto. lia.
Qed.

Lemma int_step_kind s r s' : In r (rules s) -> r s = Some s' -> step_kind s s'.
Proof.
  intros Hin H. apply rules_in in Hin. destruct Hin as [->|[->|(c & _ & Hin)]].
  - apply SkRlUnblock; auto.
  - apply SkRlRead; auto.
  - simpl in Hin.
    repeat (destruct Hin as [<-|Hin]; [eauto using step_kind|]). destruct Hin.
Qed.

Lemma lstep_kind s l s' : lstep s l = Some s' -> step_kind s s'.
Proof.
  destruct l; simpl; intros H.
  - inversion H. eapply SkExt; eauto.
  - destruct (nth_error (rules s) n) eqn:E; try discriminate.
    apply nth_error_In in E. eapply int_step_kind; eauto.
Qed.

Lemma rules_has_call r c s : (c < length (calls s))%nat -> In r per_call_rules -> In (r c) (rules s).
Proof.
  intros Hc Hr. unfold rules. right. right.
  apply in_flat_map. exists c. split. apply in_seq; lia. apply (in_map (fun r0 : nat -> rule => r0 c)); auto.
Qed.

Lemma first_enabled_none rs s : first_enabled rs s = None -> forall r, In r rs -> r s = None.
Proof.
  induction rs; simpl; intros H r Hin; [tauto|].
  destruct (a s) eqn:E; try discriminate. destruct Hin as [<-|Hin]; auto.
Qed.

Lemma quiescent_none s r : quiescent s = true -> In r (rules s) -> r s = None.
Proof.
  unfold quiescent. intros H Hin. destruct (first_enabled (rules s) s) eqn:E; try discriminate.
  eapply first_enabled_none; eauto.
Qed.

Lemma quiescent_call s r c : quiescent s = true -> (c < length (calls s))%nat -> In r per_call_rules -> r c s = None.
Proof. intros. apply quiescent_none; auto. apply rules_has_call; auto. Qed.

(* ---------- induction over label sequences ---------- *)
Lemma lrun_inv (P : state -> Prop) :
  (forall s l s', P s -> lstep s l = Some s' -> P s') ->
  forall ls s s', P s -> lrun s ls = Some s' -> P s'.
Proof.
  intros Hstep. induction ls; simpl; intros.
  - inversion H0; subst; auto.
  - destruct (lstep s a) eqn:E; try discriminate. eauto.
Qed.

Lemma lrun_app s ls1 ls2 s1 : lrun s ls1 = Some s1 -> lrun s (ls1 ++ ls2) = lrun s1 ls2.
Proof.
  revert s. induction ls1; simpl; intros.
  - inversion H; auto.
  - destruct (lstep s a); try discriminate. auto.
Qed.

Lemma lrun_snoc s ls l s1 s2 : lrun s ls = Some s1 -> lstep s1 l = Some s2 -> lrun s (ls ++ [l]) = Some s2.
Proof. intros H1 H2. rewrite (lrun_app _ _ _ _ H1). simpl. rewrite H2. auto. Qed.

(* ---------- tactics ---------- *)
(* reduce projections of explicit records and the setters *)
Ltac csimpl :=
  cbn [k_unary k_payload k_pc k_id k_chan k_reg k_ctx s_loop s_ctxc s_latch s_rchclosed s_done s_rerr s_trl
       l_rerr l_trl l_hastrl l_abort s_recv s_header s_sendq s_trailerq
       counter rerr rl inbox inbox_failed wfail calls log cbuf cclosed
       set_call add_log set_pc set_chan set_id set_ctx set_loop set_recv set_latch loop_exit set_ops new_call
       protected_free sctx_done ctx_done] in *.

(* open a rule hypothesis: destruct every scrutinee, keep the successful branches *)
Ltac open_rule H :=
  cbv zeta in H; csimpl;
  repeat match type of H with
         | match ?x with _ => _ end = Some _ => let E := fresh "E" in destruct x eqn:E; try discriminate H; csimpl
         | (if ?x then _ else _) = Some _ => let E := fresh "E" in destruct x eqn:E; try discriminate H; csimpl
         | (let _ := _ in _) = Some _ => cbv zeta in H
         end;
  try (inversion H; subst; clear H); csimpl.

(* ---------- label sequences of deterministic runs (for the Examples of the Props files) ---------- *)
Fixpoint first_enabled_idx (rs : list rule) (s : state) (i : nat) : option (nat * state) :=
  match rs with
  | [] => None
  | r :: rest => match r s with Some s' => Some (i, s') | None => first_enabled_idx rest s (S i) end
  end.

Fixpoint settle_trace (fuel : nat) (s : state) : list label * state :=
  match fuel with
  | O => ([], s)
  | S f => match first_enabled_idx (rules s) s 0 with
           | Some (i, s') => let (ls, s2) := settle_trace f s' in (LInt i :: ls, s2)
           | None => ([], s)
           end
  end.

(* the environment actions [acts], each followed by internal rules until none is enabled *)
Definition run_trace (acts : list act) : list label * state :=
  fold_left (fun (p : list label * state) a =>
               let s1 := ext (snd p) a in
               let (ls, s2) := settle_trace (fuel_of s1) s1 in (fst p ++ LExt a :: ls, s2)) acts ([], init).

(* C02, order towards the handler: the envelopes a stream handler takes from its queue (one per RecvMsg
   result), in order, are a SUBSEQUENCE of the envelopes read from the transport with the handler's id - hence,
   through the wire, of the envelopes its caller wrote on that stream: nothing reordered, duplicated,
   fabricated or altered (a loss is possible only by the drop of a frame whose handler has gone). Arbitrary
   peer, all runs. *)
From Coq Require Import List ZArith Bool Lia Arith.
Import ListNotations.
From Goat Require Import Model.Client Model.Server Proofs.ClientBase Proofs.ServerProofs Proofs.ServerInv Proofs.ServerTrace
  Model.Sys Proofs.SysLog Proofs.SysProofs Proofs.SysFacts Proofs.SysFacts2 Proofs.SysC02 Proofs.SysC02b.
Open Scope Z_scope.

(* ---------- subsequences ---------- *)
Inductive subseq {A} : list A -> list A -> Prop :=
| sub_nil l : subseq [] l
| sub_skip x a l : subseq a l -> subseq a (x :: l)
| sub_take x a l : subseq a l -> subseq (x :: a) (x :: l).

Lemma subseq_refl {A} (l : list A) : subseq l l.
Proof. induction l; [apply sub_nil | apply sub_take; auto]. Qed.

Lemma subseq_app_r {A} (a l r : list A) : subseq a l -> subseq a (l ++ r).
Proof. induction 1; simpl; [apply sub_nil | apply sub_skip; auto | apply sub_take; auto]. Qed.

Lemma subseq_snoc {A} (a l : list A) x : subseq a l -> subseq (a ++ [x]) (l ++ [x]).
Proof.
  induction 1; simpl.
  - induction l; simpl; [apply sub_take; apply sub_nil | apply sub_skip; auto].
  - apply sub_skip; auto.
  - apply sub_take; auto.
Qed.

Lemma subseq_drop_last {A} (a r l : list A) : subseq (a ++ r) l -> subseq a l.
Proof.
  revert l. induction a as [|x a IH]; intros l H; [apply sub_nil|].
  simpl in H. induction l as [|y l IHl]; [inversion H|].
  inversion H; subst.
  - apply sub_skip. apply IHl. assumption.
  - apply sub_take. apply IH. assumption.
Qed.

Lemma subseq_prefix {A} (a p l : list A) : subseq a p -> is_prefix p l -> subseq a l.
Proof. intros H [r ->]. apply subseq_app_r. exact H. Qed.

Lemma subseq_map {A B} (g : A -> B) a l : subseq a l -> subseq (map g a) (map g l).
Proof. induction 1; simpl; [apply sub_nil | apply sub_skip; auto | apply sub_take; auto]. Qed.

Lemma subseq_filter {A} (g : A -> bool) (l : list A) : subseq (filter g l) l.
Proof. induction l as [|x l IH]; simpl; [apply sub_nil|]. destruct (g x); [apply sub_take | apply sub_skip]; auto. Qed.

Lemma subseq_trans {A} (a b c : list A) : subseq a b -> subseq b c -> subseq a c.
Proof.
  intros H1 H2. revert a H1. induction H2; intros a0 H1.
  - inversion H1. apply sub_nil.
  - apply sub_skip. auto.
  - inversion H1; subst; [apply sub_nil | apply sub_skip; auto | apply sub_take; auto].
Qed.

(* ---------- what a handler has taken, holds in its queue, or is being handed by the read loop ---------- *)
Fixpoint takes (h : nat) (l : list sev) : list frame :=
  match l with
  | [] => []
  | SvTake h' f :: t => if Nat.eqb h' h then f :: takes h t else takes h t
  | _ :: t => takes h t
  end.

Lemma takes_app h a b : takes h (a ++ b) = takes h a ++ takes h b.
Proof. induction a as [|x a IH]; simpl; auto. destruct x; auto. destruct (Nat.eqb h0 h); simpl; rewrite IH; auto. Qed.

Definition qpart (k : hnd) : list frame := match h_q k with Some f => [f] | None => [] end.
Definition fpart (h : nat) (p : rdpc) : list frame := match p with RdFwd h' f => if Nat.eqb h' h then [f] else [] | _ => [] end.
Definition idreads (i : Z) (l : list sev) : list frame := filter (fun f => fid f =? i) (sreads l).

Definition FI (v : Server.state) : Prop :=
  forall h k, nth_error (hs v) h = Some k ->
    subseq (takes h (Server.log v) ++ qpart k ++ fpart h (rd v)) (idreads (fid (h_req k)) (Server.log v)).

Lemma idreads_app i a b : idreads i (a ++ b) = idreads i a ++ idreads i b.
Proof. unfold idreads. rewrite sreads_app, filter_app. reflexivity. Qed.

Lemma subseq_del_mid {A} (a m c l : list A) : subseq (a ++ m ++ c) l -> subseq (a ++ c) l.
Proof.
  revert l. induction a as [|x a IH]; intros l H; simpl in *.
  - revert l H. induction m as [|y m IHm]; intros l H; simpl in *; auto.
    apply IHm. clear IHm. induction l as [|z l IHl]; [inversion H|].
    inversion H; subst; [apply sub_skip; auto | apply sub_skip; auto].
  - induction l as [|z l IHl]; [inversion H|].
    inversion H; subst; [apply sub_skip; auto | apply sub_take; auto].
Qed.

Definition no_takes (evs : list sev) : Prop := forall h, takes h evs = [].

Lemma FI_from_old s s' evs :
  FI s -> hq_bwd s s' -> Server.log s' = Server.log s ++ evs -> no_takes evs ->
  (forall h, fpart h (rd s') = fpart h (rd s) \/ fpart h (rd s') = []) -> FI s'.
Proof.
  intros HF HB E Hnt Hrd h k' Hn.
  destruct (HB _ _ Hn) as (k & Hk & Hreq & Hq).
  specialize (HF _ _ Hk). rewrite E, takes_app, Hnt, app_nil_r, idreads_app, Hreq.
  apply subseq_app_r.
  assert (Q : qpart k' = qpart k \/ qpart k' = []) by (unfold qpart; destruct Hq as [-> | ->]; auto).
  destruct (Hrd h) as [-> | ->]; destruct Q as [-> | ->]; auto.
  - simpl. apply (subseq_del_mid _ (qpart k)). exact HF.
  - rewrite app_nil_r. rewrite app_assoc in HF. apply subseq_drop_last in HF. exact HF.
  - simpl. rewrite app_nil_r. apply subseq_drop_last in HF. exact HF.
Qed.

Ltac no_takes_tac := let h := fresh in intros h; simpl; reflexivity.
Ltac fpart_tac := let h := fresh in intros h; sproj;
  first [ left; reflexivity | right; reflexivity
        | match goal with E : rd _ = _ |- _ => rewrite E; first [left; reflexivity | right; reflexivity] end ].

Lemma takes_none h l : (forall f, ~ In (SvTake h f) l) -> takes h l = [].
Proof.
  induction l as [|x l IH]; intros Hn; simpl; auto.
  assert (IH' : takes h l = []) by (apply IH; intros f0 Hin; apply (Hn f0); right; exact Hin).
  destruct x; auto.
  match goal with |- context [Nat.eqb ?a h] => destruct (Nat.eqb_spec a h) as [->|Hne] end; auto.
  exfalso. eapply Hn. left. reflexivity.
Qed.

Lemma takes_fresh s : TK s -> takes (length (hs s)) (Server.log s) = [].
Proof.
  intros HT. apply takes_none. intros f Hin. destruct (tk_take _ HT _ _ Hin) as (_ & k & Hk & _).
  apply nth_error_lt in Hk. lia.
Qed.

Lemma FI_append s x evs :
  TK s -> FI s -> h_q x = None -> no_takes evs -> (forall h, fpart h (rd s) = []) ->
  FI (add_log (set_hs s (hs s ++ [x])) evs).
Proof.
  intros HT HF Hx Hnt Hrd h k' P. sproj. rewrite takes_app, Hnt, app_nil_r, idreads_app. apply subseq_app_r.
  apply nth_app_new in P. destruct P as [P | (-> & ->)].
  - apply HF. exact P.
  - unfold qpart. rewrite Hx, Hrd, (takes_fresh s HT). simpl. apply sub_nil.
Qed.

Lemma FI_stream_dispatch s fr0 :
  TK s -> FI s -> rd s = RdRead ->
  (* the frame has just been read: the reads with its id end with it *)
  (exists l0, Server.log s = l0 ++ [SvRead fr0] /\ FI (mkState (Server.inbox s) (inbox_failed s) (wfail s) (wblock s) (srv_stop s) (serve_ctx s)
                                                    (conn_cancel s) (cause_write s) (exit_cancel s) (rd s) (wk s) (wr s) (hs s) (crashed s) l0)) ->
  FI (stream_dispatch s fr0).
Proof.
  intros HT HF Erd (l0 & El & HF0). unfold stream_dispatch.
  assert (Hfp : forall h, fpart h (rd s) = []) by (intros; rewrite Erd; reflexivity).
  destruct (find_reg (fid fr0) (hs s) 0) as [h|] eqn:Ef.
  - destruct (find_reg_some _ _ _ _ Ef) as (_ & k & Hk & _ & Hid). rewrite Nat.sub_0_r in Hk.
    destruct (is_rst fr0).
    + rewrite Hk. eapply (FI_from_old s _ []); [exact HF | hq_bwd_tac | sproj; symmetry; apply app_nil_r | no_takes_tac | fpart_tac].
    + (* forwarded to h: the new frame is appended on both sides *)
      intros h0 k0 P. sproj. destruct (Nat.eq_dec h0 h) as [->|Hne].
      * rewrite Hk in P. inversion P; subst k0. unfold fpart. rewrite Nat.eqb_refl.
        specialize (HF0 h k Hk). cbn [Server.log hs rd] in HF0. rewrite Erd in HF0. simpl in HF0. rewrite app_nil_r in HF0.
        rewrite El, takes_app. simpl. rewrite app_nil_r, idreads_app. unfold idreads at 2. simpl. rewrite Hid, Z.eqb_refl. simpl.
        (* a queue content and the new frame *)
        rewrite Hid in HF0. rewrite app_assoc. apply subseq_snoc. exact HF0.
      * specialize (HF h0 k0 P). rewrite Erd in HF. simpl in HF. unfold fpart.
        destruct (Nat.eqb_spec h h0) as [->|_]; [contradiction|]. exact HF.
  - destruct (is_rst fr0); [exact HF|].
    destruct (has_body fr0); [eapply (FI_from_old s _ []); [exact HF | hq_bwd_tac | sproj; symmetry; apply app_nil_r | no_takes_tac | fpart_tac]|].
    destruct (has_trl fr0); [exact HF|].
    destruct (md_bad fr0); [eapply (FI_from_old s _ []); [exact HF | hq_bwd_tac | sproj; symmetry; apply app_nil_r | no_takes_tac | fpart_tac]|].
    intros h0 k0 P.
    pose proof (FI_append s (new_stream fr0) [SvInvoke (length (hs s)) false (fid fr0) (f_mth fr0) 0 (md_tok fr0)] HT HF eq_refl (fun _ => eq_refl) Hfp h0 k0) as X.
    sproj. rewrite Erd in *. apply X. exact P.
Qed.

Lemma FI_hunregister s g kg : FI s -> nth_error (hs s) g = Some kg -> FI (add_log (set_h s g (hunregister kg)) [SvUnreg g]).
Proof.
  intros HF Hg. eapply (FI_from_old s); [exact HF | | sproj; reflexivity | no_takes_tac | fpart_tac].
  intros h k' P. sproj. apply nth_upd_cases in P. destruct P as [(-> & -> & _) | (_ & P)];
    eexists; (split; [eassumption | split; [reflexivity | left; reflexivity]]).
Qed.

Lemma FI_int s i s' : TK s -> FI s -> rule_of i s = Some s' -> FI s'.
Proof.
  intros HT HF H. destruct i; simpl in H.
  all: try solve [ start_rule H; (eapply (FI_from_old s); [exact HF | try hq_bwd_tac | sproj; first [symmetry; apply app_nil_r | rewrite <- ?app_assoc; reflexivity] | try no_takes_tac | try fpart_tac]) ].
  - (* r_rd_read *)
    unfold r_rd_read in H. destruct (rd s) eqn:Erd; try discriminate.
    destruct (Server.inbox s) as [|fr0 rest] eqn:Ei.
    + destr_in H; inv_some H; (eapply (FI_from_old s _ []); [exact HF | hq_bwd_tac | sproj; symmetry; apply app_nil_r | no_takes_tac | fpart_tac]).
    + assert (F1 : FI (add_log (set_inbox s rest) [SvRead fr0])).
      { eapply (FI_from_old s); [exact HF | hq_bwd_tac | sproj; reflexivity | no_takes_tac | fpart_tac]. }
      destruct (dispatch fr0); inv_some H.
      * exact F1.
      * eapply (FI_from_old s); [exact HF | hq_bwd_tac | sproj; reflexivity | no_takes_tac | ].
        intros h. sproj. rewrite Erd. left. reflexivity.
      * apply FI_stream_dispatch; [ | exact F1 | sproj; exact Erd | ].
        -- apply (TK_from_old s); [exact HT | hq_bwd_tac | hreq_fwd_tac | no_take_tac | fwd_same].
        -- exists (Server.log s). sproj. split; [reflexivity|].
           intros h k P. cbn [Server.log hs rd] in *. apply HF. exact P.
  - (* r_rd_offer *)
    unfold r_rd_offer in H. destruct (rd s) eqn:Erd; try discriminate.
    destruct (find_idle (wk s) 0) as [w|]; [|discriminate]. inv_some H.
    assert (T1 : TK (add_log (set_rd s RdRead) [SvJob w f])).
    { apply (TK_from_old s); [exact HT | hq_bwd_tac | hreq_fwd_tac | no_take_tac | fwd_same]. }
    assert (F1 : FI (add_log (set_rd s RdRead) [SvJob w f])).
    { eapply (FI_from_old s); [exact HF | hq_bwd_tac | sproj; reflexivity | no_takes_tac | fpart_tac]. }
    unfold start_unary.
    destruct (negb (has_hdr f)); [eapply (FI_from_old _ _ [] F1); [hq_bwd_tac | sproj; symmetry; apply app_nil_r | no_takes_tac | fpart_tac]|].
    destruct (md_bad f); [eapply (FI_from_old _ _ [] F1); [hq_bwd_tac | sproj; symmetry; apply app_nil_r | no_takes_tac | fpart_tac]|].
    destruct (body_tok f <? 0); [eapply (FI_from_old _ _ [] F1); [hq_bwd_tac | sproj; symmetry; apply app_nil_r | no_takes_tac | fpart_tac]|].
    assert (F2 := FI_append _ (new_unary f) [SvInvoke (length (hs s)) true (fid f) (f_mth f) (body_tok f) (md_tok f)] T1 F1 eq_refl (fun _ => eq_refl) (fun _ => eq_refl)).
    eapply (FI_from_old _ _ [] F2); [hq_bwd_tac | sproj; symmetry; apply app_nil_r | no_takes_tac | fpart_tac].
  - (* r_rd_fwd_enq *)
    start_rule H. intros hZ kZ P. sproj. rewrite takes_app, idreads_app. simpl takes. unfold idreads at 2. simpl sreads. simpl filter. rewrite !app_nil_r.
    apply nth_upd_cases in P. destruct P as [(-> & -> & _) | (Hne & P)].
    + specialize (HF _ _ Heqo). rewrite Heqr in HF. unfold qpart in *. rewrite Heqo0 in HF. simpl in HF. rewrite Nat.eqb_refl in HF.
      simpl. exact HF.
    + specialize (HF _ _ P). rewrite Heqr in HF. simpl in HF.
      destruct (Nat.eqb_spec h hZ) as [->|_]; [contradiction|]. simpl. rewrite app_nil_r in HF. exact HF.
  - (* r_h_recv *)
    start_rule H.
    match goal with Hn : nth_error (hs s) ?h = Some ?k, Hq : h_q ?k = Some ?f |- _ =>
      intros hZ kZ P; sproj; rewrite takes_app, idreads_app; simpl idreads; rewrite app_nil_r;
      apply nth_upd_cases in P; destruct P as [(-> & -> & _) | (Hne & P)];
      [ specialize (HF h k Hn); unfold qpart in *; rewrite Hq in HF; simpl in HF |- *; rewrite Nat.eqb_refl; simpl;
        rewrite <- app_assoc; simpl; exact HF
      | specialize (HF hZ kZ P); simpl; destruct (Nat.eqb_spec h hZ) as [->|_]; [contradiction|]; rewrite app_nil_r; exact HF ]
    end.
  - (* r_h_unreg *)
    unfold r_h_unreg in H. destruct (nth_error (hs s) h) as [k|] eqn:Hn; [|discriminate].
    destruct (h_pc k) eqn:Hpc; try discriminate. destruct (mu_free s); [|discriminate].
    assert (F1 : FI (set_h s h (hset_pc k HDead))).
    { eapply (FI_from_old s _ []); [exact HF | hq_bwd_tac | sproj; symmetry; apply app_nil_r | no_takes_tac | fpart_tac]. }
    destruct (find_reg _ _ _) as [g|]; [destruct (nth_error _ g) as [kg|] eqn:Hg|]; inv_some H; try exact F1.
    apply FI_hunregister; [exact F1 | exact Hg].
Qed.

Lemma FI_ext s a : FI s -> FI (Server.ext s a).
Proof.
  intros HF. destruct a; simpl.
  all: try solve [eapply (FI_from_old s _ []); [exact HF | hq_bwd_tac | sproj; symmetry; apply app_nil_r | no_takes_tac | fpart_tac]].
  destruct (nth_error (hs s) h) as [k|] eqn:Hn; [|exact HF]. destruct (h_pc k) eqn:Hg; try exact HF.
  destruct (hstep_shape s h k o Hn Hg) as (k' & Hhs & _ & _ & _ & _ & Hreq & Hq & _).
  destruct (hstep_log s h k o) as (evs & Elog & Hev).
  destruct (hstep_rd_crashed s h k o) as [Erd _].
  eapply (FI_from_old s _ evs); [exact HF | | exact Elog | | intros h0; rewrite Erd; left; reflexivity].
  - intros h0 k0 P. rewrite Hhs in P. apply nth_upd_cases in P. destruct P as [(-> & -> & _) | (_ & P)].
    + exists k. repeat split; auto.
    + exists k0. auto.
  - intros h0. apply takes_none. intros f Hin. specialize (Hev _ Hin). exact Hev.
Qed.

Lemma FI_init nw : FI (init_n nw).
Proof. intros h k P. destruct h; discriminate. Qed.

Theorem FI_reach nw ls s : Server.lrun (init_n nw) ls = Some s -> FI s.
Proof.
  intros H. assert (G : TK s /\ FI s).
  { revert H. apply (lrun_inv (fun s => TK s /\ FI s)).
    - intros s0 a (HT & HF). split; [apply TK_ext | apply FI_ext]; auto.
    - intros s0 i s1 (HT & HF) Hs. split; [eapply TK_int | eapply FI_int]; eauto.
    - split; [apply TK_init | apply FI_init]. }
  apply G.
Qed.

(* what a handler took, in order, is a subsequence of what was read under its id *)
Theorem srv_takes_subseq nw ls s h k : Server.lrun (init_n nw) ls = Some s -> nth_error (hs s) h = Some k ->
  subseq (takes h (Server.log s)) (idreads (fid (h_req k)) (Server.log s)).
Proof. intros H Hn. pose proof (FI_reach _ _ _ H h k Hn) as X. apply subseq_drop_last in X. exact X. Qed.

Lemma map_env_idreads i l : map f_env (idreads i l) = by_id i (map f_env (sreads l)).
Proof.
  unfold idreads, by_id. induction (sreads l) as [|f t IH]; simpl; auto.
  unfold fid at 1. destruct (eid (f_env f) =? i); simpl; rewrite IH; reflexivity.
Qed.

(* end to end: the envelopes a stream handler took from its queue (one per RecvMsg result, in order) are a
   subsequence of the envelopes its caller wrote with the stream's id, in the order of writing *)
Theorem C02_handler_order pol ls s h k :
  Sys.lrun pol Sys.init ls = Some s -> nth_error (hs (sv s)) h = Some k ->
  subseq (map f_env (takes h (Server.log (sv s)))) (by_id (fid (h_req k)) (cwrites (Client.log (cl s)))).
Proof.
  intros H Hn. pose proof (proj_s_run _ _ _ _ H) as Hs.
  pose proof (srv_takes_subseq _ _ _ _ _ Hs Hn) as X. apply (subseq_map f_env) in X. rewrite map_env_idreads in X.
  eapply subseq_prefix; [exact X | eapply wire_c2s_prefix_id; eauto].
Qed.

(* and each receive result is the classification of the corresponding envelope, in the same order *)
Fixpoint recv_results (h : nat) (l : list sev) : list opres :=
  match l with
  | [] => []
  | SvOp h' r :: t => if Nat.eqb h' h && is_recv_res r then r :: recv_results h t else recv_results h t
  | _ :: t => recv_results h t
  end.

Lemma recv_results_app h a b : recv_results h (a ++ b) = recv_results h a ++ recv_results h b.
Proof.
  induction a as [|x a IH]; simpl; auto. destruct x; auto.
  destruct (Nat.eqb h0 h && is_recv_res r); simpl; rewrite IH; auto.
Qed.

Lemma no_take_recv h evs : no_take evs -> recv_results h evs = [] /\ takes h evs = [].
Proof.
  induction evs as [|x evs IH]; intros Hn; simpl; auto.
  assert (IH' : recv_results h evs = [] /\ takes h evs = []) by (apply IH; intros e Hin; apply Hn; right; exact Hin).
  destruct IH' as [A B]. pose proof (Hn x (or_introl eq_refl)) as X.
  destruct x; auto; simpl in X; try contradiction.
  rewrite X, andb_false_r. auto.
Qed.

Lemma step_log_takes s i s' : rule_of i s = Some s' ->
  exists evs, Server.log s' = Server.log s ++ evs /\
              (no_take evs \/ exists h f, evs = [SvTake h f; SvOp h (recv_res f)]).
Proof.
  intros H. destruct i; simpl in H.
  all: try solve [ start_rule H; sproj;
                   first [ exists []; (split; [rewrite app_nil_r; reflexivity | left; intros ? []])
                         | eexists; (split; [rewrite <- ?app_assoc; reflexivity
                                            | left; let e := fresh in let X := fresh in intros e X; simpl in X;
                                              repeat (destruct X as [X | X]; [subst e; first [exact I | reflexivity] | ]); contradiction ]) ] ].
  - unfold r_rd_read in H. destruct (rd s); try discriminate. destruct (Server.inbox s) as [|f rest].
    + destr_in H; inv_some H; sproj; exists []; (split; [rewrite app_nil_r; reflexivity | left; intros ? []]).
    + destruct (dispatch f) eqn:Ed; inv_some H.
      * sproj. eexists; (split; [reflexivity | left; intros e [<- | []]; exact I]).
      * sproj. eexists; (split; [reflexivity | left; intros e [<- | []]; exact I]).
      * destruct (stream_dispatch_log (add_log (set_inbox s rest) [SvRead f]) f) as (_ & _ & evs & E & Hev).
        exists ([SvRead f] ++ evs). rewrite E. unfold add_log, set_inbox; cbn [Server.log]. rewrite <- app_assoc. split; auto.
        left. intros e Hin. apply in_app_or in Hin. destruct Hin as [[<- | []] | Hin]; [exact I|].
        destruct (Hev _ Hin) as (? & ? & ? & ? & ? & ? & ->). exact I.
  - unfold r_rd_offer in H. destruct (rd s); try discriminate. destruct (find_idle (wk s) 0); [|discriminate]. inv_some H.
    destruct (start_unary_log (add_log (set_rd s RdRead) [SvJob n f]) n f) as (_ & _ & evs & E & Hev).
    exists ([SvJob n f] ++ evs). rewrite E. unfold add_log, set_rd; cbn [Server.log]. rewrite <- app_assoc. split; auto.
    left. intros e Hin. apply in_app_or in Hin. destruct Hin as [[<- | []] | Hin]; [exact I|].
    destruct (Hev _ Hin) as (? & ? & ? & ? & ? & ? & ->). exact I.
  - start_rule H. sproj. eexists. split; [reflexivity|]. right. eauto.
Qed.

Definition RR (s : Server.state) : Prop := forall h, recv_results h (Server.log s) = map recv_res (takes h (Server.log s)).

Theorem RR_reach nw ls s : Server.lrun (init_n nw) ls = Some s -> RR s.
Proof.
  apply lrun_inv.
  - intros s0 a HR h. assert (G : exists evs, Server.log (Server.ext s0 a) = Server.log s0 ++ evs /\ no_take evs).
    { destruct a; simpl; try (exists []; split; [rewrite app_nil_r; reflexivity | intros ? []]).
      destruct (nth_error (hs s0) h0) as [k|]; [|exists []; split; [rewrite app_nil_r; reflexivity | intros ? []]].
      destruct (h_pc k); try (exists []; split; [rewrite app_nil_r; reflexivity | intros ? []]).
      destruct (hstep_log s0 h0 k o) as (evs & E & Hev). exists evs. split; auto.
      intros e Hin. specialize (Hev _ Hin). destruct e; try contradiction; auto.
      (* hstep never logs a receive result *)
      clear - Hin E. unfold hstep in E. destruct (h_unary k), o; try destruct (h_hsent k); sproj;
        try (apply app_inv_head in E; subst evs; simpl in Hin; repeat (destruct Hin as [Hin | Hin]; [try discriminate Hin; inversion Hin; subst; reflexivity|]); contradiction);
        try (rewrite <- (app_nil_r (Server.log s0)) in E at 1; apply app_inv_head in E; subst evs; destruct Hin). }
    destruct G as (evs & E & Hn). rewrite E, recv_results_app, takes_app, map_app, (HR h).
    destruct (no_take_recv h evs Hn) as [A B]. rewrite A, B. reflexivity.
  - intros s0 i s1 HR Hs h. destruct (step_log_takes _ _ _ Hs) as (evs & E & [Hn | (h1 & f & ->)]).
    + rewrite E, recv_results_app, takes_app, map_app, (HR h). destruct (no_take_recv h evs Hn) as [A B]. rewrite A, B. reflexivity.
    + rewrite E, recv_results_app, takes_app, map_app, (HR h). simpl. rewrite (recv_res_is f), andb_true_r.
      destruct (Nat.eqb h1 h); reflexivity.
  - intros h. reflexivity.
Qed.

(* the RecvMsg results of a stream handler, in order, are the classifications of a subsequence of the envelopes
   its caller wrote on that stream, in the order of writing *)
Theorem C02_handler_results_order pol ls s h k :
  Sys.lrun pol Sys.init ls = Some s -> nth_error (hs (sv s)) h = Some k ->
  exists es, subseq es (by_id (fid (h_req k)) (cwrites (Client.log (cl s)))) /\
             exists fs, map f_env fs = es /\ recv_results h (Server.log (sv s)) = map recv_res fs.
Proof.
  intros H Hn. pose proof (proj_s_run _ _ _ _ H) as Hs.
  exists (map f_env (takes h (Server.log (sv s)))). split; [eapply C02_handler_order; eauto|].
  exists (takes h (Server.log (sv s))). split; auto. apply (RR_reach _ _ _ Hs).
Qed.

(* Quiescence theorems of Model/Client.v: what cannot be pending, registered or
   alive in a state in which no internal rule is enabled (C09, C13, C14). *)
From Coq Require Import List ZArith Bool Lia Arith.
Import ListNotations.
From Goat Require Import Model.Client Proofs.ClientBase Proofs.ClientInv.
Open Scope Z_scope.

Lemma filter_length_le {A} (f g : A -> bool) l :
  (forall x, In x l -> f x = true -> g x = true) -> (length (filter f l) <= length (filter g l))%nat.
Proof.
  induction l; simpl; intros H; auto.
  destruct (f a) eqn:Ef.
  - rewrite (H a) by auto. simpl. apply le_n_S. apply IHl. intros; apply H; auto.
  - destruct (g a); simpl; [apply le_S|]; apply IHl; intros; apply H; auto.
Qed.

Lemma filter_none {A} (f : A -> bool) l : (forall x, In x l -> f x = false) -> filter f l = [].
Proof. induction l; simpl; intros H; auto. rewrite (H a) by auto. apply IHl. intros; apply H; auto. Qed.

Lemma kinv_reg_live k : kinv k -> k_reg k = true -> terminated k = false.
Proof.
  intros K Hr. pose proof (ki_reg_pc _ K Hr) as Hp. pose proof (ki_reg_open _ K Hr) as Ho.
  unfold terminated. destruct (k_pc k); try discriminate; auto. rewrite Ho; auto.
Qed.

Lemma kinv_loop_live k : kinv k -> loop_alive k = true -> terminated k = false.
Proof.
  intros K Hl. pose proof (ki_loop_open _ K Hl) as Hp. unfold terminated. rewrite Hp, Hl. auto.
Qed.

(* ---------- C14: bounded in every state ---------- *)
Lemma C14_bounded_l ls s : lrun init ls = Some s ->
  (registry_size s <= live_calls s)%nat /\ (live_loops s <= live_calls s)%nat.
Proof.
  intros H. apply inv_reach in H. destruct H as [[HF _] _]. rewrite Forall_forall in HF.
  unfold registry_size, live_calls, live_loops. split; apply filter_length_le; intros k Hin Hk.
  - rewrite kinv_reg_live; auto.
  - rewrite kinv_loop_live; auto.
Qed.

Lemma C14_released_l ls s : lrun init ls = Some s ->
  forall c k, nth_error (calls s) c = Some k -> terminated k = true -> k_reg k = false /\ loop_alive k = false.
Proof.
  intros H c k Hn Ht. apply inv_reach in H. destruct H as [HI _]. pose proof (cinv_call _ _ _ HI Hn) as K.
  split.
  - destruct (k_reg k) eqn:E; auto. rewrite kinv_reg_live in Ht; auto.
  - destruct (loop_alive k) eqn:E; auto. rewrite kinv_loop_live in Ht; auto.
Qed.

(* ---------- opening the rules of a quiescent state ---------- *)
Ltac qrule Hq Hlt Hn r c :=
  let Hr := fresh "Hr" in
  pose proof (quiescent_call _ r c Hq Hlt ltac:(simpl; tauto)) as Hr; unfold r in Hr; rewrite Hn in Hr; csimpl.

(* in a quiescent state the read loop holds no envelope for a call that has unregistered *)
Lemma quiescent_hold s : cinv s -> sinv s -> quiescent s = true ->
  forall c e, rl s = RLHold c e -> exists k, nth_error (calls s) c = Some k /\ k_reg k = true /\ is_some (cbuf (k_chan k)) = true.
Proof.
  intros HI HS Hq c e Hh. destruct (si_hold _ HS _ _ Hh) as (k & Hn & Hw & _).
  pose proof (quiescent_none s r_rl_unblock Hq ltac:(unfold rules; simpl; auto)) as Hr.
  unfold r_rl_unblock in Hr. rewrite Hh, Hn in Hr.
  exists k. split; auto. destruct (cbuf (k_chan k)) eqn:Eb; try discriminate.
  destruct (cclosed (k_chan k)) eqn:Ec; try discriminate. unfold was_reg in Hw. rewrite Ec in Hw.
  rewrite orb_false_r in Hw. auto.
Qed.

(* in a quiescent state a live stream loop is waiting: its context is live and either its queue is empty and
   open, or it offers a message nobody receives *)
Lemma quiescent_loop s : cinv s -> quiescent s = true ->
  forall c k, nth_error (calls s) c = Some k -> loop_alive k = true ->
    sctx_done k = false /\
    ((s_loop k = LRead /\ cbuf (k_chan k) = None /\ cclosed (k_chan k) = false) \/
     (exists b, s_loop k = LHand b /\ s_recv k <> RSel)).
Proof.
  intros HI Hq c k Hn Hl. pose proof (nth_some_lt _ _ _ Hn) as Hlt.
  unfold loop_alive in Hl. destruct (s_loop k) eqn:El; try discriminate.
  - qrule Hq Hlt Hn r_loop_read c. qrule Hq Hlt Hn r_loop_read_ctx c. rewrite El in *.
    destruct (sctx_done k) eqn:Ec; try discriminate. split; auto. left. split; auto.
    destruct (cbuf (k_chan k)) eqn:Eb.
    + exfalso. revert Hr. cbv zeta. csimpl.
      repeat match goal with |- context [match ?x with _ => _ end] => destruct x end; discriminate.
    + destruct (cclosed (k_chan k)); try discriminate. auto.
  - qrule Hq Hlt Hn r_loop_hand c. qrule Hq Hlt Hn r_loop_hand_ctx c. rewrite El in *.
    destruct (sctx_done k) eqn:Ec; try discriminate. split; auto. right. exists b. split; auto.
    intros Hs. rewrite Hs in Hr. discriminate.
  - qrule Hq Hlt Hn r_loop_exit c. rewrite El in Hr. exfalso. revert Hr. cbv zeta.
    match goal with |- context [if ?x then _ else _] => destruct x end; discriminate.
  - qrule Hq Hlt Hn r_loop_unreg c. rewrite El in Hr. discriminate.
Qed.

(* ---------- C14 (Q): idle level ---------- *)
Lemma C14_idle_l ls s : lrun init ls = Some s -> quiescent s = true ->
  (forall c k, nth_error (calls s) c = Some k -> terminated k = true) ->
  registry_size s = 0%nat /\ live_loops s = 0%nat /\ rl_blocked s = false.
Proof.
  intros H Hq Hall. pose proof (C14_released_l _ _ H) as Hrel. apply inv_reach in H. destruct H as [HI HS].
  unfold registry_size, live_loops. repeat split.
  - rewrite filter_none; auto. intros k Hin. apply In_nth_error in Hin. destruct Hin as (c & Hn). eapply Hrel; eauto.
  - rewrite filter_none; auto. intros k Hin. apply In_nth_error in Hin. destruct Hin as (c & Hn). eapply Hrel; eauto.
  - unfold rl_blocked. destruct (rl s) eqn:Er; auto.
    destruct (quiescent_hold _ HI HS Hq _ _ Er) as (k & Hn & Hr & _).
    destruct (Hrel _ _ Hn (Hall _ _ Hn)) as [Hr' _]. congruence.
Qed.

(* no stream loop survives the context of its RPC: in a quiescent state the loop of a cancelled or expired
   stream is dead, hence (C14_released) the stream is unregistered *)
Lemma C14_cancel_released_l ls s : lrun init ls = Some s -> quiescent s = true ->
  forall c k, nth_error (calls s) c = Some k -> k_pc k = POpen -> sctx_done k = true -> terminated k = true.
Proof.
  intros H Hq c k Hn Hp Hd. apply inv_reach in H. destruct H as [HI HS].
  unfold terminated. rewrite Hp. destruct (loop_alive k) eqn:El; auto.
  destruct (quiescent_loop _ HI Hq _ _ Hn El) as [Hc _]. congruence.
Qed.

(* ---------- C09 / C13 (Q): after the read failure nothing is pending ---------- *)
(* once the read loop has recorded the failure: in every quiescent state, a call none of whose threads is held
   by the environment at a yield point has no operation pending: not the call itself (Invoke / NewStream), no
   RecvMsg, SendMsg / CloseSend, Header, Trailer *)
Lemma C09_settles_l ls s : lrun init ls = Some s -> quiescent s = true -> rerr s = true ->
  forall c k, nth_error (calls s) c = Some k -> parked k = false -> any_pending k = false.
Proof.
  intros H Hq Hre c k Hn Hpk. apply inv_reach in H. destruct H as [HI HS].
  pose proof (cinv_call _ _ _ HI Hn) as K. pose proof (nth_some_lt _ _ _ Hn) as Hlt.
  pose proof (si_rerr_unreg _ HS Hre _ _ Hn) as Hreg.
  unfold parked in Hpk. apply orb_false_iff in Hpk. destruct Hpk as [Hpk1 Hpk2].
  (* a live loop is offering a message that no RecvMsg is there to take *)
  assert (Hloop : loop_alive k = true -> exists b, s_loop k = LHand b /\ s_recv k <> RSel).
  { intros Hl. destruct (quiescent_loop _ HI Hq _ _ Hn Hl) as [_ [(E1 & E2 & E3)|Hh]]; auto.
    rewrite (ki_unreg_closed _ K Hreg) in E3; auto; discriminate. }
  assert (Hfree : protected_free k = true).
  { unfold protected_free. destruct (s_loop k) eqn:El; auto.
    - destruct Hloop as (b & Hb & _); [unfold loop_alive; rewrite El; auto|]. try (rewrite El in Hb); discriminate.
    - destruct Hloop as (b & Hb & _); [unfold loop_alive; rewrite El; auto|]. try (rewrite El in Hb); discriminate. }
  unfold protected_free in Hfree.
  unfold any_pending. repeat (apply orb_false_iff; split).
  - (* the call thread *)
    unfold call_pending. destruct (k_pc k) eqn:Ep; auto; exfalso.
    + qrule Hq Hlt Hn r_check c. rewrite Ep, Hre in Hr. destruct (k_unary k); discriminate.
    + qrule Hq Hlt Hn r_reg c. rewrite Ep, Hre in Hr. destruct (k_unary k); discriminate.
    + qrule Hq Hlt Hn r_wait c. rewrite Ep in Hr. destruct (cbuf (k_chan k)); try discriminate.
      rewrite (ki_unreg_closed _ K Hreg) in Hr; auto; discriminate.
    + qrule Hq Hlt Hn r_unreg c. rewrite Ep in Hr. discriminate.
    + qrule Hq Hlt Hn r_unreg c. rewrite Ep in Hr. discriminate.
  - (* RecvMsg *)
    unfold recv_pending. destruct (s_recv k) eqn:Er; auto; exfalso.
    + qrule Hq Hlt Hn r_recv c. rewrite Er in Hr. unfold protected_free in Hr. rewrite Hfree in Hr.
      destruct (s_done k); try discriminate. destruct park; discriminate.
    + qrule Hq Hlt Hn r_recv c. rewrite Er in Hr.
      destruct (loop_alive k) eqn:El.
      * destruct (Hloop eq_refl) as (b & _ & Hne). congruence.
      * assert (Hp : k_pc k = POpen) by (apply (ki_ops_open _ K); unfold ops_pending, recv_pending; rewrite Er; auto).
        destruct (ki_dead_done _ K Hp El) as [Hc _]. rewrite Hc in Hr. discriminate.
    + qrule Hq Hlt Hn r_recv c. rewrite Er in Hr. unfold protected_free in Hr. rewrite Hfree in Hr.
      destruct (s_done k); try discriminate. destruct (sctx_done k); discriminate.
  - (* SendMsg / CloseSend *)
    unfold send_pending. destruct (s_sendq k) eqn:Eq; auto; exfalso.
    qrule Hq Hlt Hn r_send c. rewrite Eq in Hr. unfold protected_free in Hr. rewrite Hfree in Hr.
    destruct o.
    * revert Hr. repeat match goal with |- context [if ?x then _ else _] => destruct x end; discriminate.
    * revert Hr. repeat match goal with |- context [if ?x then _ else _] => destruct x end; discriminate.
  - (* Header *)
    unfold header_pending. destruct (s_header k) eqn:Eh; auto; exfalso.
    assert (Hp : k_pc k = POpen).
    { apply (ki_ops_open _ K). unfold ops_pending, header_pending. rewrite Eh. rewrite orb_true_r. auto. }
    qrule Hq Hlt Hn r_header c. rewrite Eh in Hr. unfold protected_free in Hr. rewrite Hfree in Hr.
    assert (Hla : is_some (s_latch k) = true).
    { apply (ki_latch _ K Hp). destruct (s_loop k) eqn:El; auto.
      destruct Hloop as (b & Hb & _); [unfold loop_alive; rewrite El; auto|]. try (rewrite El in Hb); discriminate. }
    destruct (s_latch k); discriminate.
  - (* Trailer *)
    unfold trailer_pending. destruct (s_trailerq k) eqn:Et; auto; exfalso.
    qrule Hq Hlt Hn r_trailer c. rewrite Et in Hr. unfold protected_free in Hr. rewrite Hfree in Hr. discriminate.
Qed.

(* ... and a stream loop is dead unless it holds a message that no RecvMsg has come to take *)
Lemma C09_loops_l ls s : lrun init ls = Some s -> quiescent s = true -> rerr s = true ->
  forall c k, nth_error (calls s) c = Some k -> loop_alive k = true -> exists b, s_loop k = LHand b /\ s_recv k <> RSel.
Proof.
  intros H Hq Hre c k Hn Hl.
  apply inv_reach in H. destruct H as [HI HS]. pose proof (cinv_call _ _ _ HI Hn) as K.
  pose proof (si_rerr_unreg _ HS Hre _ _ Hn) as Hreg.
  destruct (quiescent_loop _ HI Hq _ _ Hn Hl) as [_ [(E1 & E2 & E3)|Hh]]; auto.
  rewrite (ki_unreg_closed _ K Hreg) in E3; auto; discriminate.
Qed.

(* when is an injected read failure NOT yet recorded in a quiescent state? Only when the read loop cannot get to its
   next Read: it is holding an envelope for a registered call whose one-slot queue is full (a stream whose caller is
   not reading): head-of-line blocking. The transport's Read has then not been called again, so the failure has not
   been observed by anybody. *)
Lemma C09_unrecorded_l ls s : lrun init ls = Some s -> quiescent s = true -> inbox_failed s = true -> rerr s = false ->
  exists c e k, rl s = RLHold c e /\ nth_error (calls s) c = Some k /\ k_reg k = true /\ is_some (cbuf (k_chan k)) = true.
Proof.
  intros H Hq Hf Hr. apply inv_reach in H. destruct H as [HI HS].
  destruct (rl s) eqn:Erl.
  - exfalso. pose proof (quiescent_none s r_rl_read Hq ltac:(unfold rules; simpl; auto)) as Hn.
    unfold r_rl_read in Hn. rewrite Erl in Hn. destruct (inbox s) eqn:Ei.
    + rewrite Hf in Hn. discriminate.
    + destruct (find_reg (eid e) (calls s) 0) eqn:Efr; try discriminate.
      destruct (nth_error (calls s) n) eqn:En.
      * destruct (cbuf (k_chan c)); discriminate.
      * apply find_reg0_some in Efr. destruct Efr as (k & Hk & _). congruence.
  - destruct (quiescent_hold _ HI HS Hq _ _ Erl) as (k & Hk & Hreg & Hb). exists c, e, k. auto.
  - exfalso. apply (si_rerr_dead _ HS) in Erl. congruence.
Qed.

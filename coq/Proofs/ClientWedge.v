(* C11, client half, on Model/Client.v: nothing waits on a dead consumer. *)
From Coq Require Import List ZArith Bool Lia Arith.
Import ListNotations.
From Goat Require Import Model.Client Proofs.ClientBase Proofs.ClientInv Proofs.ClientLive.
Open Scope Z_scope.

(* (Q) the read loop is held only by genuine back-pressure: the holder is a registered, open stream whose context
   is live and whose loop is offering a message that its user has not asked for yet *)
Lemma C11_hold_live_l ls s c e :
  lrun init ls = Some s -> quiescent s = true -> rl s = RLHold c e ->
  exists k b, nth_error (calls s) c = Some k /\ k_reg k = true /\ k_pc k = POpen /\ sctx_done k = false /\
              s_loop k = LHand b /\ s_recv k <> RSel.
Proof.
  intros H Hq Hh. pose proof (inv_reach _ _ H) as [HI HS].
  destruct (quiescent_hold _ HI HS Hq _ _ Hh) as (k & Hn & Hr & Hb).
  pose proof (cinv_call _ _ _ HI Hn) as K. pose proof (nth_some_lt _ _ _ Hn) as Hlt.
  pose proof (ki_reg_pc _ K Hr) as Hp.
  assert (Hop : k_pc k = POpen).
  { destruct (k_pc k) eqn:Ep; try discriminate; auto; exfalso.
    - qrule Hq Hlt Hn r_wait c. rewrite Ep in Hr0. destruct (cbuf (k_chan k)); try discriminate.
    - qrule Hq Hlt Hn r_unreg c. rewrite Ep in Hr0. discriminate.
    - qrule Hq Hlt Hn r_unreg c. rewrite Ep in Hr0. discriminate. }
  pose proof (ki_reg_open _ K Hr Hop) as Hl.
  destruct (quiescent_loop _ HI Hq _ _ Hn Hl) as [Hc [(E1 & E2 & E3)|(b & E1 & E2)]].
  - rewrite E2 in Hb. discriminate.
  - exists k, b. repeat split; auto.
Qed.

(* (Q) a unary call is never stuck behind somebody else: in a quiescent state it has returned, or it is held by
   the environment at its yield point, or it waits for its reply with a live context, an empty queue and its
   registration intact. In particular once its context is done (cancel, deadline) it has returned. *)
Lemma C11_unary_settles_l ls s c k :
  lrun init ls = Some s -> quiescent s = true -> nth_error (calls s) c = Some k -> k_unary k = true ->
  k_pc k = PRet \/ k_pc k = PParked \/
  (k_pc k = PWait /\ ctx_done (k_ctx k) = false /\ cbuf (k_chan k) = None /\ cclosed (k_chan k) = false).
Proof.
  intros H Hq Hn Hu. pose proof (inv_reach _ _ H) as [HI HS].
  pose proof (cinv_call _ _ _ HI Hn) as K. pose proof (nth_some_lt _ _ _ Hn) as Hlt.
  pose proof (ki_kind _ K) as Hk. rewrite Hu in Hk.
  destruct (k_pc k) eqn:Ep; try discriminate; auto.
  - exfalso. qrule Hq Hlt Hn r_check c. rewrite Ep in Hr. revert Hr. cbv zeta.
    repeat match goal with |- context [if ?x then _ else _] => destruct x end; discriminate.
  - exfalso. qrule Hq Hlt Hn r_reg c. rewrite Ep in Hr. revert Hr. cbv zeta.
    repeat match goal with |- context [if ?x then _ else _] => destruct x end; discriminate.
  - right. right. qrule Hq Hlt Hn r_wait c. qrule Hq Hlt Hn r_wait_ctx c. rewrite Ep in *.
    destruct (ctx_done (k_ctx k)); try discriminate.
    destruct (cbuf (k_chan k)); try discriminate. destruct (cclosed (k_chan k)); try discriminate. auto.
  - exfalso. qrule Hq Hlt Hn r_unreg c. rewrite Ep in Hr. discriminate.
Qed.

(* the one state in which a thread holds a lock while it waits for another one (the stream's protected mutex held
   by the deferred block while it needs the multiplexer mutex) is never stuck: the multiplexer mutex is never held
   across a blocking operation, so the step is always enabled *)
Lemma C11_teardown_never_stuck_l s c k :
  nth_error (calls s) c = Some k -> s_loop k = LTdUnreg -> exists s', r_loop_unreg c s = Some s'.
Proof. intros Hn Hl. unfold r_loop_unreg. rewrite Hn, Hl. eauto. Qed.

(* (Q) no stream loop sits in its deferred block *)
Lemma C11_no_defer_l ls s c k :
  lrun init ls = Some s -> quiescent s = true -> nth_error (calls s) c = Some k -> in_defer (s_loop k) = false.
Proof.
  intros H Hq Hn. pose proof (inv_reach _ _ H) as [HI HS].
  destruct (loop_alive k) eqn:El.
  - destruct (quiescent_loop _ HI Hq _ _ Hn El) as [_ [(E1 & _)|(b & E1 & _)]]; rewrite E1; reflexivity.
  - unfold loop_alive in El. destruct (s_loop k); try discriminate. reflexivity.
Qed.

(* (Q) with the read loop free, everything that was delivered has been routed *)
Lemma C11_all_routed_l s : quiescent s = true -> rl s = RLRead -> inbox s = [] /\ inbox_failed s = false.
Proof.
  intros Hq Hr. pose proof (quiescent_none s r_rl_read Hq ltac:(unfold rules; simpl; auto)) as H1.
  unfold r_rl_read in H1. rewrite Hr in H1. destruct (inbox s) as [|e rest].
  - split; auto. destruct (inbox_failed s); auto; discriminate.
  - exfalso. cbv zeta in H1. destruct (find_reg (eid e) (calls s) 0) as [c|] eqn:Ef; [|discriminate].
    destruct (find_reg0_some _ _ _ Ef) as (k & Hk & _). rewrite Hk in H1. destruct (cbuf (k_chan k)); discriminate.
Qed.

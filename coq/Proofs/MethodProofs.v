From Goat Require Import Base.Bytes Model.Method.
Open Scope N_scope.

Lemma split_last_none s : no_slash s = true -> split_last s = None.
Proof.
  induction s as [|c s IH]; intro H; [reflexivity|].
  cbn [no_slash forallb] in H. apply andb_true_iff in H as [Hc Hs].
  cbn [split_last]. rewrite (IH Hs). destruct (c =? slash); [discriminate|reflexivity].
Qed.

Lemma split_last_app a b :
  no_slash b = true -> split_last (a ++ slash :: b) = Some (a, b).
Proof.
  intro Hb. induction a as [|c a IH]; cbn [app split_last].
  - rewrite (split_last_none b Hb). rewrite N.eqb_refl. reflexivity.
  - rewrite IH. reflexivity.
Qed.

Lemma split_last_inv s a b :
  split_last s = Some (a, b) -> s = a ++ slash :: b /\ no_slash b = true.
Proof.
  revert a b. induction s as [|c s IH]; intros a b H; [discriminate|].
  cbn [split_last] in H. destruct (split_last s) as [[a' b']|] eqn:E.
  - injection H as <- <-. destruct (IH a' b' eq_refl) as [-> Hb]. split; [reflexivity|exact Hb].
  - destruct (c =? slash) eqn:Ec; [|discriminate]. injection H as <- <-.
    apply N.eqb_eq in Ec. subst c. split; [reflexivity|].
    clear IH. induction s as [|d s IHs]; [reflexivity|].
    cbn [split_last] in E. destruct (split_last s) as [[? ?]|]; [discriminate|].
    destruct (d =? slash) eqn:Ed; [discriminate|].
    cbn [no_slash forallb]. rewrite Ed. cbn. apply IHs. reflexivity.
Qed.

(* "/service/method" and "service/method" both parse to (service, method) *)
Theorem parse_method_slash svc m :
  no_slash m = true -> parse_method (slash :: svc ++ slash :: m) = Some (svc, m).
Proof.
  intro H. unfold parse_method. cbn [strip_slash]. rewrite N.eqb_refl.
  apply split_last_app. exact H.
Qed.

Theorem parse_method_noslash c r m :
  no_slash m = true -> c <> slash ->
  parse_method ((c :: r) ++ slash :: m) = Some (c :: r, m).
Proof.
  intros H Hc. unfold parse_method. cbn [app strip_slash].
  destruct (c =? slash) eqn:E; [apply N.eqb_eq in E; contradiction|].
  apply (split_last_app (c :: r) m H).
Qed.

Theorem parse_method_inv s a b :
  parse_method s = Some (a, b) -> strip_slash s = a ++ slash :: b /\ no_slash b = true.
Proof. unfold parse_method. apply split_last_inv. Qed.

(* a method string without any '/' after the optional leading one is rejected *)
Theorem parse_method_reject s :
  no_slash (strip_slash s) = true -> parse_method s = None.
Proof. unfold parse_method. apply split_last_none. Qed.

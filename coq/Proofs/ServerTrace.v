(* Invariants over the history log of Model/Server.v. *)
From Coq Require Import List ZArith Bool Lia Arith.
Import ListNotations.
From Goat Require Import Model.Client Model.Server Proofs.ServerProofs Proofs.ServerInv.
Open Scope Z_scope.

(* membership in an extended log *)
Ltac in_log H :=
  repeat (apply in_app_or in H; destruct H as [H | H]); try (simpl in H; repeat destruct H as [H | H]; try discriminate H; try contradiction).

(* stream_dispatch and start_unary only append SvInvoke events and change flags monotonically *)
Lemma stream_dispatch_log s f :
  conn_cancel (stream_dispatch s f) = conn_cancel s /\ srv_stop (stream_dispatch s f) = srv_stop s
  /\ exists evs, log (stream_dispatch s f) = log s ++ evs /\ forall e, In e evs -> exists h u i m p d, e = SvInvoke h u i m p d.
Proof.
  unfold stream_dispatch.
  destruct (find_reg (fid f) (hs s) 0).
  - destruct (is_rst f); [destruct (nth_error (hs s) n)|]; sproj; repeat split; auto; exists []; rewrite app_nil_r; split; auto;
      intros e [].
  - destruct (is_rst f); [repeat split; auto; exists []; rewrite app_nil_r; split; auto; intros e []|].
    destruct (has_body f); [sproj; repeat split; auto; exists []; rewrite app_nil_r; split; auto; intros e []|].
    destruct (has_trl f); [repeat split; auto; exists []; rewrite app_nil_r; split; auto; intros e []|].
    destruct (md_bad f); sproj; repeat split; auto.
    + exists []; rewrite app_nil_r; split; auto; intros e [].
    + eexists. split; [reflexivity|]. intros e [<- | []]. repeat eexists.
Qed.

Lemma start_unary_log s w f :
  conn_cancel (start_unary s w f) = conn_cancel s /\ srv_stop (start_unary s w f) = srv_stop s
  /\ exists evs, log (start_unary s w f) = log s ++ evs /\ forall e, In e evs -> exists h u i m p d, e = SvInvoke h u i m p d.
Proof.
  unfold start_unary.
  destruct (negb (has_hdr f)); [sproj; repeat split; auto; exists []; rewrite app_nil_r; split; auto; intros e []|].
  destruct (md_bad f); [sproj; repeat split; auto; exists []; rewrite app_nil_r; split; auto; intros e []|].
  destruct (body_tok f <? 0); sproj; repeat split; auto.
  - exists []; rewrite app_nil_r; split; auto; intros e [].
  - eexists. split; [reflexivity|]. intros e [<- | []]. repeat eexists.
Qed.

Lemma hstep_log s h k o :
  exists evs, log (hstep s h k o) = log s ++ evs /\
    forall ev, In ev evs -> match ev with SvOp _ _ | SvRet _ | SvReply _ _ | SvTrailer _ _ => True | _ => False end.
Proof.
  unfold hstep. destruct (h_unary k), o; try destruct (h_hsent k); sproj;
    try (exists []; rewrite app_nil_r; split; [reflexivity | intros ev []]);
    eexists; (split; [reflexivity|]); intros ev Hin; simpl in Hin; repeat destruct Hin as [<- | Hin]; try exact I; contradiction.
Qed.

(* ---------- a failed write has cancelled the connection ---------- *)
Definition inv_wfail (s : state) : Prop := forall f, In (SvWFail f) (log s) -> conn_cancel s = true.

Lemma inv_wfail_ext s a : inv_wfail s -> inv_wfail (ext s a).
Proof.
  intros I. destruct a; simpl; try exact I.
  destruct (nth_error (hs s) h) as [k|]; [|exact I]. destruct (h_pc k); try exact I.
  destruct (hstep_log s h k o) as [evs [E Hev]]. destruct (hstep_other s h k o) as [_ [_ [_ [_ [_ [_ [_ [_ [E9 _]]]]]]]]].
  intros f Hin. rewrite E in Hin. rewrite E9. apply in_app_or in Hin. destruct Hin as [Hin | Hin]; [exact (I f Hin)|].
  specialize (Hev _ Hin). contradiction.
Qed.

Lemma inv_wfail_int s i s' : inv_wfail s -> rule_of i s = Some s' -> inv_wfail s'.
Proof.
  intros I H. destruct i; simpl in H.
  all: try (start_rule H; intros f0 Hin; sproj; in_log Hin; auto; try (apply I in Hin; rewrite Hin; auto); fail).
  - (* r_rd_read *)
    unfold r_rd_read in H. destruct (rd s); try discriminate. destruct (inbox s) as [|f rest].
    + destr_in H; inv_some H; intros f0 Hin; sproj; reflexivity.
    + destruct (dispatch f); inv_some H; try (intros f0 Hin; sproj; in_log Hin; auto; exact (I _ Hin)).
      destruct (stream_dispatch_log (add_log (set_inbox s rest) [SvRead f]) f) as [E1 [_ [evs [E2 Hev]]]].
      intros f0 Hin. rewrite E1. rewrite E2 in Hin. sproj. in_log Hin; auto; try exact (I _ Hin).
      destruct (Hev _ Hin) as [? [? [? [? [? [? ?]]]]]]. discriminate.
  - (* r_rd_offer *)
    unfold r_rd_offer in H. destruct (rd s); try discriminate. destruct (find_idle (wk s) 0); [|discriminate]. inv_some H.
    destruct (start_unary_log (add_log (set_rd s RdRead) [SvJob n f]) n f) as [E1 [_ [evs [E2 Hev]]]].
    intros f0 Hin. rewrite E1. rewrite E2 in Hin. sproj. in_log Hin; auto; try exact (I _ Hin).
    destruct (Hev _ Hin) as [? [? [? [? [? [? ?]]]]]]. discriminate.
Qed.

Theorem srv_wfail_cancels nw ls s : lrun (init_n nw) ls = Some s -> forall f, In (SvWFail f) (log s) -> hctx_done s = true.
Proof.
  intros H f Hin. unfold hctx_done.
  assert (I : inv_wfail s).
  { revert H. apply lrun_inv; [apply inv_wfail_ext | apply inv_wfail_int | intros g []]. }
  rewrite (I f Hin). apply orb_true_r.
Qed.

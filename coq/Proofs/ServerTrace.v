(* Invariants over the history log of Model/Server.v. *)
From Coq Require Import List ZArith Bool Lia Arith.
Import ListNotations.
From Goat Require Import Model.Client Model.Server Proofs.ServerProofs Proofs.ServerInv.
Open Scope Z_scope.

(* membership in an extended log *)
Ltac in_log H :=
  repeat (apply in_app_or in H; destruct H as [H | H]); try (simpl in H; repeat destruct H as [H | H]; try discriminate H; try contradiction).

(* stream_dispatch and start_unary only append SvInvoke events and change flags monotonically *)
Lemma stream_dispatch_log s f :
  conn_cancel (stream_dispatch s f) = conn_cancel s /\ srv_stop (stream_dispatch s f) = srv_stop s
  /\ exists evs, log (stream_dispatch s f) = log s ++ evs /\ forall e, In e evs -> exists h u i m p d, e = SvInvoke h u i m p d.
Proof.
  unfold stream_dispatch.
  destruct (find_reg (fid f) (hs s) 0).
  - destruct (is_rst f); [destruct (nth_error (hs s) n)|]; sproj; repeat split; auto; exists []; rewrite app_nil_r; split; auto;
      intros e [].
  - destruct (is_rst f); [repeat split; auto; exists []; rewrite app_nil_r; split; auto; intros e []|].
    destruct (has_body f); [sproj; repeat split; auto; exists []; rewrite app_nil_r; split; auto; intros e []|].
    destruct (has_trl f); [repeat split; auto; exists []; rewrite app_nil_r; split; auto; intros e []|].
    destruct (md_bad f); sproj; repeat split; auto.
    + exists []; rewrite app_nil_r; split; auto; intros e [].
    + eexists. split; [reflexivity|]. intros e [<- | []]. repeat eexists.
Qed.

Lemma start_unary_log s w f :
  conn_cancel (start_unary s w f) = conn_cancel s /\ srv_stop (start_unary s w f) = srv_stop s
  /\ exists evs, log (start_unary s w f) = log s ++ evs /\ forall e, In e evs -> exists h u i m p d, e = SvInvoke h u i m p d.
Proof.
  unfold start_unary.
  destruct (negb (has_hdr f)); [sproj; repeat split; auto; exists []; rewrite app_nil_r; split; auto; intros e []|].
  destruct (md_bad f); [sproj; repeat split; auto; exists []; rewrite app_nil_r; split; auto; intros e []|].
  destruct (body_tok f <? 0); sproj; repeat split; auto.
  - exists []; rewrite app_nil_r; split; auto; intros e [].
  - eexists. split; [reflexivity|]. intros e [<- | []]. repeat eexists.
Qed.

Lemma hstep_log s h k o :
  exists evs, log (hstep s h k o) = log s ++ evs /\
    forall ev, In ev evs -> match ev with SvOp _ _ | SvRet _ | SvReply _ _ | SvTrailer _ _ => True | _ => False end.
Proof.
  unfold hstep. destruct (h_unary k), o; try destruct (h_hsent k); sproj;
    try (exists []; rewrite app_nil_r; split; [reflexivity | intros ev []]);
    eexists; (split; [reflexivity|]); intros ev Hin; simpl in Hin; repeat destruct Hin as [<- | Hin]; try exact I; contradiction.
Qed.

(* ---------- a failed write has cancelled the connection ---------- *)
Definition inv_wfail (s : state) : Prop := forall f, In (SvWFail f) (log s) -> conn_cancel s = true.

Lemma inv_wfail_ext s a : inv_wfail s -> inv_wfail (ext s a).
Proof.
  intros I. destruct a; simpl; try exact I.
  destruct (nth_error (hs s) h) as [k|]; [|exact I]. destruct (h_pc k); try exact I.
  destruct (hstep_log s h k o) as [evs [E Hev]]. destruct (hstep_other s h k o) as [_ [_ [_ [_ [_ [_ [_ [_ [E9 _]]]]]]]]].
  intros f Hin. rewrite E in Hin. rewrite E9. apply in_app_or in Hin. destruct Hin as [Hin | Hin]; [exact (I f Hin)|].
  specialize (Hev _ Hin). contradiction.
Qed.

Lemma inv_wfail_int s i s' : inv_wfail s -> rule_of i s = Some s' -> inv_wfail s'.
Proof.
  intros I H. destruct i; simpl in H.
  all: try (start_rule H; intros f0 Hin; sproj; in_log Hin; auto; try (apply I in Hin; rewrite Hin; auto); fail).
  - (* r_rd_read *)
    unfold r_rd_read in H. destruct (rd s); try discriminate. destruct (inbox s) as [|f rest].
    + destr_in H; inv_some H; intros f0 Hin; sproj; reflexivity.
    + destruct (dispatch f); inv_some H; try (intros f0 Hin; sproj; in_log Hin; auto; exact (I _ Hin)).
      destruct (stream_dispatch_log (add_log (set_inbox s rest) [SvRead f]) f) as [E1 [_ [evs [E2 Hev]]]].
      intros f0 Hin. rewrite E1. rewrite E2 in Hin. sproj. in_log Hin; auto; try exact (I _ Hin).
      destruct (Hev _ Hin) as [? [? [? [? [? [? ?]]]]]]. discriminate.
  - (* r_rd_offer *)
    unfold r_rd_offer in H. destruct (rd s); try discriminate. destruct (find_idle (wk s) 0); [|discriminate]. inv_some H.
    destruct (start_unary_log (add_log (set_rd s RdRead) [SvJob n f]) n f) as [E1 [_ [evs [E2 Hev]]]].
    intros f0 Hin. rewrite E1. rewrite E2 in Hin. sproj. in_log Hin; auto; try exact (I _ Hin).
    destruct (Hev _ Hin) as [? [? [? [? [? [? ?]]]]]]. discriminate.
Qed.

Theorem srv_wfail_cancels nw ls s : lrun (init_n nw) ls = Some s -> forall f, In (SvWFail f) (log s) -> hctx_done s = true.
Proof.
  intros H f Hin. unfold hctx_done.
  assert (I : inv_wfail s).
  { revert H. apply lrun_inv; [apply inv_wfail_ext | apply inv_wfail_int | intros g []]. }
  rewrite (I f Hin). apply orb_true_r.
Qed.

(* ---------- dispatch: the handlers ever started, their invocation events, the envelopes they come from ---------- *)
Definition hsig (k : hnd) : bool * frame := (h_unary k, h_req k).
Definition sigs (s : state) : list (bool * frame) := map hsig (hs s).

Definition is_invoke (e : sev) : bool := match e with SvInvoke _ _ _ _ _ _ => true | _ => false end.

Definition invoke_of (n : nat) (p : bool * frame) : sev :=
  let (u, f) := p in SvInvoke n u (fid f) (f_mth f) (if u then body_tok f else 0) (md_tok f).

Fixpoint invs_from (n : nat) (l : list (bool * frame)) : list sev :=
  match l with
  | [] => []
  | p :: t => invoke_of n p :: invs_from (S n) t
  end.

(* what the read loop demands of an envelope before it starts a handler for it *)
Definition req_ok (p : bool * frame) : Prop :=
  let (u, f) := p in
  if u then dispatch f = DUnary /\ md_bad f = false /\ (body_tok f <? 0) = false
  else dispatch f = DStream /\ is_rst f = false /\ has_body f = false /\ has_trl f = false /\ md_bad f = false.

Lemma invs_from_app n l x : invs_from n (l ++ [x]) = invs_from n l ++ [invoke_of (n + length l) x].
Proof.
  revert n. induction l as [|p l IH]; intros n; simpl.
  - now rewrite Nat.add_0_r.
  - rewrite IH. now rewrite <- plus_n_Sm.
Qed.

Lemma map_upd_same {A B} (g : A -> B) h k k' l :
  nth_error l h = Some k -> g k' = g k -> map g (upd h k' l) = map g l.
Proof.
  revert h. induction l as [|a l IH]; intros [|h] Hn E; simpl in *; try discriminate; auto.
  - inversion Hn; subst. now rewrite E.
  - f_equal. now apply IH.
Qed.

Definition no_invoke (evs : list sev) : Prop := forall e, In e evs -> is_invoke e = false.

Lemma filter_no_invoke l evs : no_invoke evs -> filter is_invoke (l ++ evs) = filter is_invoke l.
Proof.
  intros H. rewrite filter_app. replace (filter is_invoke evs) with (@nil sev); [now rewrite app_nil_r|].
  symmetry. induction evs as [|e evs IH]; [reflexivity|]. simpl. rewrite (H e (or_introl eq_refl)).
  apply IH. intros e' Hin. apply H. now right.
Qed.

(* every step either keeps the signature list and adds no invocation event, or appends one handler
   together with its invocation event, for an envelope that was just read and qualifies *)
Definition step_ok (s s' : state) : Prop :=
  (exists evs, log s' = log s ++ evs /\ no_invoke evs /\ sigs s' = sigs s)
  \/ (exists evs p, log s' = log s ++ evs ++ [invoke_of (length (hs s)) p] /\ no_invoke evs
                    /\ sigs s' = sigs s ++ [p] /\ req_ok p).

Ltac same_sig :=
  left; eexists; split; [reflexivity|]; split;
  [ intros ? Hin; simpl in Hin; repeat destruct Hin as [<- | Hin]; try reflexivity; contradiction
  | unfold sigs; sproj; try reflexivity;
    try (match goal with Hn : nth_error (hs _) ?h = Some ?k |- _ => apply (map_upd_same hsig h k _ _ Hn); reflexivity end) ].

Lemma same_sig_nil s s' : log s' = log s -> sigs s' = sigs s -> step_ok s s'.
Proof. intros E1 E2. left. exists []. rewrite app_nil_r. repeat split; auto. intros e []. Qed.

Lemma step_ok_ext s a : inv_hdr s -> step_ok s (ext s a).
Proof.
  intros _. destruct a; simpl; try (apply same_sig_nil; reflexivity).
  destruct (nth_error (hs s) h) as [k|] eqn:Hn; [|apply same_sig_nil; reflexivity].
  destruct (h_pc k) eqn:Hg; try (apply same_sig_nil; reflexivity).
  destruct (hstep_log s h k o) as [evs [E Hev]].
  destruct (hstep_shape s h k o Hn Hg) as [k' [Hhs [Hu [_ [_ [_ [Hq _]]]]]]].
  left. exists evs. split; [assumption|]. split.
  - intros e Hin. specialize (Hev e Hin). destruct e; try contradiction; reflexivity.
  - unfold sigs. rewrite Hhs. apply (map_upd_same hsig h k k' _ Hn). unfold hsig. now rewrite Hu, Hq.
Qed.

Lemma stream_dispatch_step s f :
  dispatch f = DStream ->
  (log (stream_dispatch s f) = log s /\ sigs (stream_dispatch s f) = sigs s)
  \/ (log (stream_dispatch s f) = log s ++ [invoke_of (length (hs s)) (false, f)]
      /\ sigs (stream_dispatch s f) = sigs s ++ [(false, f)] /\ req_ok (false, f)).
Proof.
  intros Hd. unfold stream_dispatch.
  destruct (find_reg (fid f) (hs s) 0).
  - left. destruct (is_rst f); [destruct (nth_error (hs s) n) eqn:Hn|]; sproj; split; auto.
    unfold sigs; sproj. apply (map_upd_same hsig n h _ _ Hn). reflexivity.
  - destruct (is_rst f) eqn:E1; [left; auto|].
    destruct (has_body f) eqn:E2; [left; sproj; auto|].
    destruct (has_trl f) eqn:E3; [left; auto|].
    destruct (md_bad f) eqn:E4; [left; sproj; auto|].
    right. sproj. split; [reflexivity|]. split.
    + unfold sigs; sproj. rewrite map_app. reflexivity.
    + simpl. auto.
Qed.

Lemma start_unary_step s w f :
  dispatch f = DUnary ->
  (log (start_unary s w f) = log s /\ sigs (start_unary s w f) = sigs s)
  \/ (log (start_unary s w f) = log s ++ [invoke_of (length (hs s)) (true, f)]
      /\ sigs (start_unary s w f) = sigs s ++ [(true, f)] /\ req_ok (true, f)).
Proof.
  intros Hd. unfold start_unary.
  destruct (negb (has_hdr f)); [left; sproj; auto|].
  destruct (md_bad f) eqn:E1; [left; sproj; auto|].
  destruct (body_tok f <? 0) eqn:E2; [left; sproj; auto|].
  right. sproj. split; [reflexivity|]. split.
  - unfold sigs; sproj. rewrite map_app. reflexivity.
  - simpl. auto.
Qed.

Lemma step_ok_int s i s' : inv_hdr s -> rule_of i s = Some s' -> step_ok s s'.
Proof.
  intros [_ Ihd] H. destruct i; simpl in H.
  all: try (start_rule H; sproj; first [apply same_sig_nil; reflexivity | same_sig]; fail).
  - (* r_rd_read *)
    unfold r_rd_read in H. destruct (rd s); try discriminate. destruct (inbox s) as [|f rest].
    + destr_in H; inv_some H; apply same_sig_nil; reflexivity.
    + destruct (dispatch f) eqn:Ed; inv_some H; try (sproj; same_sig).
      destruct (stream_dispatch_step (add_log (set_inbox s rest) [SvRead f]) f Ed) as [[E1 E2] | [E1 [E2 E3]]].
      * left. exists [SvRead f]. rewrite E1, E2. sproj. repeat split; auto.
        intros e [<- | []]. reflexivity.
      * right. exists [SvRead f], (false, f). rewrite E1, E2. sproj. rewrite <- app_assoc. repeat split; auto.
        -- intros e [<- | []]. reflexivity.
        -- apply E3.
        -- apply E3.
        -- apply E3.
        -- apply E3.
  - (* r_rd_offer *)
    unfold r_rd_offer in H. destruct (rd s) eqn:Erd; try discriminate.
    destruct (find_idle (wk s) 0); [|discriminate]. inv_some H.
    destruct (start_unary_step (add_log (set_rd s RdRead) [SvJob n f]) n f Ihd) as [[E1 E2] | [E1 [E2 E3]]].
    + left. exists [SvJob n f]. rewrite E1, E2. sproj. repeat split; auto. intros e [<- | []]. reflexivity.
    + right. exists [SvJob n f], (true, f). rewrite E1, E2. sproj. rewrite <- app_assoc. repeat split; auto.
      * intros e [<- | []]. reflexivity.
      * apply E3.
      * apply E3.
  - (* r_rd_wait *)
    start_rule H. apply same_sig_nil; [reflexivity|]. unfold sigs; sproj.
    match goal with Hn : nth_error (hs _) ?h = Some ?k |- _ => apply (map_upd_same hsig h k _ _ Hn); reflexivity end.
  - (* r_h_unreg *)
    unfold r_h_unreg in H. destruct (nth_error (hs s) h) as [k|] eqn:Hn; [|discriminate].
    destruct (h_pc k); try discriminate. destruct (mu_free s); [|discriminate].
    assert (E0 : map hsig (upd h (hset_pc k HDead) (hs s)) = map hsig (hs s))
      by (apply (map_upd_same hsig h k _ _ Hn); reflexivity).
    destruct (find_reg _ _ _) as [g|]; [destruct (nth_error _ g) as [kg|] eqn:Hg|]; inv_some H.
    + left. exists [SvUnreg g]. sproj. repeat split; auto.
      * intros e [<- | []]. reflexivity.
      * unfold sigs; sproj. rewrite (map_upd_same hsig g kg _ _ Hg) by reflexivity. exact E0.
    + apply same_sig_nil; [reflexivity | exact E0].
    + apply same_sig_nil; [reflexivity | exact E0].
  - (* r_rd_cws_pick *)
    start_rule H. apply same_sig_nil; [reflexivity|]. unfold sigs; sproj.
    match goal with Hn : nth_error (hs _) ?h = Some ?k |- _ => apply (map_upd_same hsig h k _ _ Hn); reflexivity end.
Qed.

(* the invariant: the invocation events in the log are exactly one per handler ever started, in order, carrying
   the id, method, payload and metadata of the envelope that started it; and that envelope qualified *)
Definition inv_dispatch (s : state) : Prop :=
  filter is_invoke (log s) = invs_from 0 (sigs s) /\ (forall p, In p (sigs s) -> req_ok p).

Lemma sigs_length s : length (sigs s) = length (hs s).
Proof. unfold sigs. apply map_length. Qed.

Lemma inv_dispatch_step s s' : inv_dispatch s -> step_ok s s' -> inv_dispatch s'.
Proof.
  intros [D1 D2] [[evs [E1 [E2 E3]]] | [evs [p [E1 [E2 [E3 E4]]]]]].
  - split; rewrite E3; [|assumption]. rewrite E1. rewrite filter_no_invoke by assumption. assumption.
  - split; rewrite E3.
    + rewrite E1, app_assoc, filter_app, filter_no_invoke by assumption.
      rewrite invs_from_app, D1. simpl. rewrite sigs_length. f_equal.
      destruct p as [u f]. reflexivity.
    + intros q Hin. apply in_app_or in Hin. destruct Hin as [Hin | [<- | []]]; auto.
Qed.

Theorem srv_dispatch nw ls s : lrun (init_n nw) ls = Some s -> inv_dispatch s.
Proof.
  intros H.
  assert (G : inv_hdr s /\ inv_dispatch s).
  { revert H. apply (lrun_inv (fun s => inv_hdr s /\ inv_dispatch s)).
    - intros s0 a [I1 I2]. split; [now apply inv_hdr_ext | eapply inv_dispatch_step; [eassumption | now apply step_ok_ext]].
    - intros s0 i s1 [I1 I2] Hr. split; [eapply inv_hdr_int; eassumption|].
      eapply inv_dispatch_step; [eassumption | eapply step_ok_int; eassumption].
    - split; [apply inv_hdr_init | split; [reflexivity | intros p []]]. }
  apply G.
Qed.


(* ---------- the dispatch decision of the read loop, stated exactly ---------- *)
Ltac crush_iff :=
  repeat split; intros;
  repeat match goal with
         | H : _ /\ _ |- _ => destruct H
         | H : _ \/ _ |- _ => destruct H
         | H : exists _, _ |- _ => destruct H
         end;
  try congruence; try discriminate; try lia; eauto.

Lemma stream_dispatch_iff s f :
  rd s = RdRead ->
  (length (hs (stream_dispatch s f)) = S (length (hs s))
   <-> (find_reg (fid f) (hs s) 0 = None /\ is_rst f = false /\ has_body f = false /\ has_trl f = false /\ md_bad f = false))
  /\ (rd (stream_dispatch s f) = RdRst f
      <-> (find_reg (fid f) (hs s) 0 = None /\ is_rst f = false /\ (has_body f = true \/ (has_trl f = false /\ md_bad f = true))))
  /\ ((exists h, rd (stream_dispatch s f) = RdFwd h f) <-> (exists h, find_reg (fid f) (hs s) 0 = Some h /\ is_rst f = false)).
Proof.
  intros Erd. unfold stream_dispatch.
  destruct (find_reg (fid f) (hs s) 0) as [h|] eqn:Ef.
  - destruct (is_rst f) eqn:E1; [destruct (nth_error (hs s) h)|]; sproj; rewrite ?upd_length, ?Erd; crush_iff.
  - destruct (is_rst f) eqn:E1; [rewrite Erd; crush_iff|].
    destruct (has_body f) eqn:E2; [sproj; crush_iff|].
    destruct (has_trl f) eqn:E3; [rewrite Erd; crush_iff|].
    destruct (md_bad f) eqn:E4; [sproj; crush_iff|].
    sproj. rewrite app_length, Erd. simpl. crush_iff.
Qed.

Theorem srv_dispatch_stream_step s f rest :
  rd s = RdRead -> inbox s = f :: rest -> dispatch f = DStream ->
  exists s', r_rd_read s = Some s'
    /\ (length (hs s') = S (length (hs s))
        <-> (find_reg (fid f) (hs s) 0 = None /\ is_rst f = false /\ has_body f = false /\ has_trl f = false /\ md_bad f = false))
    /\ (rd s' = RdRst f
        <-> (find_reg (fid f) (hs s) 0 = None /\ is_rst f = false /\ (has_body f = true \/ (has_trl f = false /\ md_bad f = true))))
    /\ ((exists h, rd s' = RdFwd h f) <-> (exists h, find_reg (fid f) (hs s) 0 = Some h /\ is_rst f = false)).
Proof.
  intros Erd Ei Ed. unfold r_rd_read. rewrite Erd, Ei, Ed. eexists. split; [reflexivity|].
  apply (stream_dispatch_iff (add_log (set_inbox s rest) [SvRead f]) f). exact Erd.
Qed.

(* the reset the read loop hands to the writer from resetStream is the reset for that envelope: same id and
   method, source and destination swapped *)
Theorem srv_reset_step s f s' :
  rd s = RdRst f -> r_rd_rst s = Some s' -> crashed s' = false ->
  wr s' = WrWrite (rst_reply f) /\ rd s' = RdRead
  /\ eid (f_env (rst_reply f)) = fid f /\ f_src (rst_reply f) = f_dst f /\ f_dst (rst_reply f) = f_src f
  /\ f_mth (rst_reply f) = f_mth f /\ erst (f_env (rst_reply f)) = true.
Proof.
  intros Erd H Hc. unfold r_rd_rst in H. rewrite Erd in H. destruct (wr s); try discriminate.
  destruct (has_hdr f); inv_some H; [|discriminate]. sproj. repeat split; reflexivity.
Qed.

(* C02_args_h2c / C02_args_prefix_h2c: the list-level link handler -> caller, end to end. hargs h log = the arguments
   of handler h's SendMsg calls that returned nil, in call order (a frame taken by the writer immediately followed by
   [SvOp h OOk]: one step of the model, C02_link_haccept; the frame is msg_frame k b for the argument b, C02_link_hsend). *)
From Coq Require Import List ZArith Bool Lia Arith.
Import ListNotations.
From Goat Require Import Model.Client Model.Protocol Model.Server Proofs.ClientBase Proofs.ClientInv Proofs.ClientLog Proofs.ClientProps
  Proofs.ProtocolClient Proofs.ServerProofs Proofs.ServerInv Proofs.ServerTrace Proofs.ServerWriter Proofs.ServerProto
  Model.Sys Proofs.SysLog Proofs.SysProofs Proofs.SysC01d Proofs.SysC02 Proofs.SysC02f Proofs.SysC02i Proofs.SysC02j Proofs.SysC02k Proofs.SysC02q.
Open Scope Z_scope.

Definition hsentF (h : nat) (l : list sev) : list frame := map snd (filter (fun p => Nat.eqb (fst p) h) (sends l)).
Definition hargs (h : nat) (l : list sev) : list Z := tbodies (map f_env (hsentF h l)).

Lemma idf_filter_comm i l : idf i (filter msgk l) = filter msgk (idf i l).
Proof.
  unfold idf. induction l as [|x l IH]; [reflexivity|]. simpl.
  destruct (msgk x) eqn:M, (fid x =? i) eqn:E; simpl; rewrite ?M, ?E, IH; reflexivity.
Qed.

Lemma idf_map_snd i (l : list (nat * frame)) : idf i (map snd l) = map snd (filter (fun p => fid (snd p) =? i) l).
Proof. unfold idf. induction l as [|x l IH]; [reflexivity|]. simpl. destruct (fid (snd x) =? i); simpl; rewrite IH; reflexivity. Qed.

(* the messages towards RecvMsg in a list of frames are the non-negative bodies of its bare messages *)
Lemma tb_frame x :
  tb (f_env x) = filter (fun b => 0 <=? b) (if msgk x then match ebody (f_env x) with Some b => [b] | None => [] end else []).
Proof.
  unfold tb, final_of, msgk.
  destruct (ebody (f_env x)) as [b|]; destruct (etrl (f_env x)) as [m|]; destruct (erst (f_env x)); simpl; try reflexivity;
    try (destruct (estatus (f_env x)) as [st|]; [destruct (st_code st =? 0)|]; reflexivity).
  destruct (Z.ltb_spec b 0), (Z.leb_spec 0 b); try lia; reflexivity.
Qed.

Lemma pb_msgk L : pb (map f_env L) = filter (fun b => 0 <=? b) (tbodies (map f_env (filter msgk L))).
Proof.
  induction L as [|x L IH]; [reflexivity|].
  change (pb (map f_env (x :: L))) with (tb (f_env x) ++ pb (map f_env L)). rewrite IH, tb_frame. simpl.
  destruct (msgk x); simpl; [|reflexivity].
  change (tbodies (f_env x :: map f_env (filter msgk L))) with
    ((match ebody (f_env x) with Some b => [b] | None => [] end) ++ tbodies (map f_env (filter msgk L))).
  rewrite filter_app. reflexivity.
Qed.

Theorem C02_args_h2c pol ls s h k c kc :
  Sys.lrun pol Sys.init ls = Some s ->
  nth_error (hs (sv s)) h = Some k -> nth_error (calls (cl s)) c = Some kc -> k_unary kc = false -> k_pc kc = POpen ->
  k_id kc = fid (h_req k) ->
  filter msgk (idf (k_id kc) (tk (Server.log (sv s)))) = hsentF h (Server.log (sv s)).
Proof.
  intros H Hn Hc Hu Hp Hid.
  pose proof (proj_c_run _ _ _ _ H) as Hcl. pose proof (proj_s_run _ _ _ _ H) as Hs.
  destruct (all_inv_reach _ _ Hcl) as (HI & _).
  assert (Hpos : 0 < k_id kc) by (apply open_pos; [eapply cinv_call; eauto | exact Hp]).
  pose proof (sys_sconf _ _ _ _ _ H Hc Hu Hpos) as SC.
  pose proof (pinv_reach _ (k_id kc) _ _ Hs) as PV.
  destruct (SD_reach _ _ _ Hs) as [A B _].
  rewrite <- idf_filter_comm. fold (mtk (Server.log (sv s))). rewrite <- A, idf_map_snd. unfold hsentF. f_equal.
  apply filter_ext_in. intros (h', f) Hin. simpl.
  destruct (B _ _ Hin) as (k' & Hk' & Hf).
  destruct (Nat.eqb_spec h' h) as [->|Hne].
  - rewrite Hn in Hk'. inversion Hk'; subst k'. apply Z.eqb_eq. congruence.
  - apply Z.eqb_neq. intros X. apply Hne.
    eapply (pv_uniq _ _ PV SC h' h k' k); split; auto; congruence.
Qed.

Theorem C02_args_prefix_h2c pol ls s h k c kc :
  Sys.lrun pol Sys.init ls = Some s -> fault_free ls = true ->
  nth_error (hs (sv s)) h = Some k -> nth_error (calls (cl s)) c = Some kc -> k_unary kc = false -> k_pc kc = POpen ->
  k_id kc = fid (h_req k) ->
  is_prefix (msgs c (Client.log (cl s))) (filter (fun b => 0 <=? b) (hargs h (Server.log (sv s)))).
Proof.
  intros H Hff Hn Hc Hu Hp Hid.
  pose proof (C02_prefix_h2c _ _ _ _ _ H Hff Hc Hu Hp) as P.
  unfold accepted in P. rewrite by_id_map_env, pb_msgk in P.
  unfold hargs. rewrite <- (C02_args_h2c _ _ _ _ _ _ _ H Hn Hc Hu Hp Hid). exact P.
Qed.

(* C02, API level, first clause proved end to end: the handler observes io.EOF only after its caller has
   half-closed the stream (written the OK trailer of that stream id).

   Server fact [TK] (arbitrary peer): whatever a stream handler takes from its queue was read from the
   transport and carries the id of the frame that started the handler; an EOF result comes from such a frame.
   Client fact [WS] (arbitrary environment): every envelope the client writes is one of its five shapes. *)
From Coq Require Import List ZArith Bool Lia Arith.
Import ListNotations.
From Goat Require Import Model.Client Model.Server Proofs.ClientBase Proofs.ClientInv Proofs.ClientLog Proofs.ClientProps
  Proofs.ServerProofs Proofs.ServerInv Proofs.ServerTrace Model.Sys Proofs.SysLog Proofs.SysProofs Proofs.SysFacts Proofs.SysFacts2.
Open Scope Z_scope.

Definition from_read (v : Server.state) (h : nat) (f : frame) : Prop :=
  In (SvRead f) (Server.log v) /\ exists k, nth_error (hs v) h = Some k /\ fid f = fid (h_req k).

Definition is_recv_res (r : opres) : bool :=
  match r with ORecvMsg _ | ORecvEof | ORecvStatus _ | ORecvUnmarshal => true | _ => false end.

Lemma recv_res_is f : is_recv_res (recv_res f) = true.
Proof. unfold recv_res. destruct (etrl (f_env f)); [destruct (estatus (f_env f)) as [st|]; [destruct (st_code st =? 0)|]|destruct (ebody (f_env f)) as [b|]; [destruct (b <? 0)|]]; reflexivity. Qed.

Record TK (v : Server.state) : Prop := mkTK {
  tk_take : forall h f, In (SvTake h f) (Server.log v) -> from_read v h f;
  tk_q : forall h k f, nth_error (hs v) h = Some k -> h_q k = Some f -> from_read v h f;
  tk_fwd : forall h f, rd v = RdFwd h f -> from_read v h f;
  tk_eof : forall h r, is_recv_res r = true -> In (SvOp h r) (Server.log v) -> exists f, In (SvTake h f) (Server.log v) /\ recv_res f = r }.

(* handlers keep their request frame; queues only change where the lemma says *)
Definition hq_bwd (s s' : Server.state) : Prop :=
  forall h k', nth_error (hs s') h = Some k' ->
    exists k, nth_error (hs s) h = Some k /\ h_req k' = h_req k /\ (h_q k' = h_q k \/ h_q k' = None).
Definition hreq_fwd (s s' : Server.state) : Prop :=
  forall h k, nth_error (hs s) h = Some k -> exists k', nth_error (hs s') h = Some k' /\ h_req k' = h_req k.
Definition no_take (evs : list sev) : Prop :=
  forall e, In e evs -> match e with SvTake _ _ => False | SvOp _ r => is_recv_res r = false | _ => True end.

Lemma from_read_mono s s' h f :
  hreq_fwd s s' -> (exists evs, Server.log s' = Server.log s ++ evs) -> from_read s h f -> from_read s' h f.
Proof.
  intros HF (evs & E) (Hr & k & Hk & Hid). split; [rewrite E; apply in_or_app; auto|].
  destruct (HF _ _ Hk) as (k' & Hk' & Hq). exists k'. split; auto. congruence.
Qed.

Lemma TK_from_old s s' :
  TK s -> hq_bwd s s' -> hreq_fwd s s' ->
  (exists evs, Server.log s' = Server.log s ++ evs /\ no_take evs) ->
  (forall h f, rd s' = RdFwd h f -> rd s = RdFwd h f) -> TK s'.
Proof.
  intros [Tt Tq Tf Te] HB HF (evs & E & Hnt) Hrd.
  assert (HL : exists evs, Server.log s' = Server.log s ++ evs) by eauto.
  constructor.
  - intros h f Hin. rewrite E in Hin. apply in_app_or in Hin. destruct Hin as [Hin | Hin].
    + eapply from_read_mono; eauto.
    + exfalso. apply (Hnt _ Hin).
  - intros h k' f Hn Hq. destruct (HB _ _ Hn) as (k & Hk & Hreq & [Hsame | Hnone]); [|congruence].
    rewrite Hsame in Hq. eapply from_read_mono; eauto.
  - intros h f Hr. eapply from_read_mono; eauto.
  - intros h r Hr Hin. rewrite E in Hin. apply in_app_or in Hin. destruct Hin as [Hin | Hin].
    + destruct (Te _ _ Hr Hin) as (f & A & B). exists f. split; auto. rewrite E. apply in_or_app. auto.
    + exfalso. pose proof (Hnt _ Hin) as X. simpl in X. congruence.
Qed.

Ltac hq_bwd_tac :=
  let h := fresh "hY" in let k' := fresh "kY" in let P := fresh "PY" in
  intros h k' P; sproj;
  first [ eexists; split; [exact P | split; [reflexivity | left; reflexivity]]
        | apply nth_upd_cases in P; destruct P as [(-> & -> & _) | (_ & P)];
          [ eexists; split; [eassumption | split; [reflexivity | first [left; reflexivity | right; reflexivity]]]
          | eexists; split; [exact P | split; [reflexivity | left; reflexivity]] ] ].

Ltac hreq_fwd_tac :=
  let h := fresh "hY" in let k := fresh "kY" in let P := fresh "PY" in
  intros h k P; sproj;
  first [ eexists; split; [exact P | reflexivity]
        | match goal with E : nth_error (hs ?s) ?h0 = Some ?k0 |- _ =>
            destruct (Nat.eq_dec h h0) as [->|?];
            [ rewrite E in P; inversion P; subst; eexists; split; [apply nth_upd_same; eapply nth_error_lt; eassumption | reflexivity]
            | exists k; split; [apply nth_upd_fwd; assumption | reflexivity] ]
          end ].

Ltac no_take_tac := sproj;
  first [ exists []; split; [rewrite app_nil_r; reflexivity | intros ? []]
        | eexists; split; [rewrite <- ?app_assoc; reflexivity
                          | let e := fresh in let X := fresh in intros e X; simpl in X;
                            repeat (destruct X as [X | X]; [subst e; first [exact I | reflexivity] | ]); try contradiction ] ].

Ltac fwd_same := sproj; intros ? ? E; first [ discriminate E | exact E | congruence ].

Ltac hq_app_bwd :=
  let h := fresh in let k' := fresh in let P := fresh in
  intros h k' P; sproj; apply nth_app_new in P; destruct P as [P | (_ & ->)];
  [ eexists; split; [exact P | split; [reflexivity | left; reflexivity]] | ].

Lemma TK_append s x evs :
  TK s -> h_q x = None -> no_take evs ->
  TK (add_log (set_hs s (hs s ++ [x])) evs).
Proof.
  intros [Tt Tq Tf Te] Hx Hnt.
  assert (HF : hreq_fwd s (add_log (set_hs s (hs s ++ [x])) evs)).
  { intros h k P. sproj. exists k. split; auto. rewrite nth_error_app1; auto. eapply nth_error_lt; eauto. }
  assert (HL : exists e0, Server.log (add_log (set_hs s (hs s ++ [x])) evs) = Server.log s ++ e0) by (sproj; eauto).
  constructor; sproj.
  - intros h f Hin. apply in_app_or in Hin. destruct Hin as [Hin | Hin]; [|exfalso; apply (Hnt _ Hin)].
    apply (from_read_mono s _ h f HF HL). auto.
  - intros h k f P Hq. apply nth_app_new in P. destruct P as [P | (_ & ->)]; [|congruence].
    apply (from_read_mono s _ h f HF HL). eauto.
  - intros h f Hr. apply (from_read_mono s _ h f HF HL). auto.
  - intros h r Hr Hin. apply in_app_or in Hin. destruct Hin as [Hin | Hin]; [|exfalso; pose proof (Hnt _ Hin) as X; simpl in X; congruence].
    destruct (Te _ _ Hr Hin) as (f & A & B). exists f. split; auto. apply in_or_app. auto.
Qed.

Lemma TK_stream_dispatch s fr0 : TK s -> In (SvRead fr0) (Server.log s) -> rd s = RdRead -> TK (stream_dispatch s fr0).
Proof.
  intros HT Hr Erd. unfold stream_dispatch.
  destruct (find_reg (fid fr0) (hs s) 0) as [h|] eqn:Ef.
  - destruct (find_reg_some _ _ _ _ Ef) as (_ & k & Hk & _ & Hid). rewrite Nat.sub_0_r in Hk.
    destruct (is_rst fr0).
    + rewrite Hk. apply (TK_from_old s); [exact HT | hq_bwd_tac | hreq_fwd_tac | no_take_tac | fwd_same].
    + destruct HT as [Tt Tq Tf Te]. constructor; sproj; auto.
      intros hh ff E. inversion E; subst. split; auto. exists k. auto.
  - destruct (is_rst fr0); [exact HT|].
    destruct (has_body fr0); [apply (TK_from_old s); [exact HT | hq_bwd_tac | hreq_fwd_tac | no_take_tac | fwd_same]|].
    destruct (has_trl fr0); [exact HT|].
    destruct (md_bad fr0); [apply (TK_from_old s); [exact HT | hq_bwd_tac | hreq_fwd_tac | no_take_tac | fwd_same]|].
    apply TK_append; [exact HT | reflexivity | intros e [<- | []]; exact I].
Qed.

Lemma TK_hunregister s g kg : TK s -> nth_error (hs s) g = Some kg -> TK (add_log (set_h s g (hunregister kg)) [SvUnreg g]).
Proof.
  intros HT Hg. apply (TK_from_old s); [exact HT | | | no_take_tac | fwd_same].
  - intros h k' P. sproj. apply nth_upd_cases in P. destruct P as [(-> & -> & _) | (_ & P)];
      eexists; (split; [eassumption | split; [reflexivity | left; reflexivity]]).
  - intros h k P. sproj. destruct (Nat.eq_dec h g) as [->|?].
    + rewrite Hg in P. inversion P; subst. eexists. split; [apply nth_upd_same; eapply nth_error_lt; eauto | reflexivity].
    + exists k. split; [apply nth_upd_fwd; auto | reflexivity].
Qed.

Lemma TK_int s i s' : TK s -> rule_of i s = Some s' -> TK s'.
Proof.
  intros HT H. destruct i; simpl in H.
  all: try solve [ start_rule H; (apply (TK_from_old s); [exact HT | try hq_bwd_tac | try hreq_fwd_tac | try no_take_tac | try fwd_same]) ].
  - (* r_rd_read *)
    unfold r_rd_read in H. destruct (rd s) eqn:Erd; try discriminate.
    destruct (Server.inbox s) as [|fr0 rest] eqn:Ei.
    + destr_in H; inv_some H; apply (TK_from_old s); [exact HT | hq_bwd_tac | hreq_fwd_tac | no_take_tac | fwd_same | exact HT | hq_bwd_tac | hreq_fwd_tac | no_take_tac | fwd_same].
    + assert (T1 : TK (add_log (set_inbox s rest) [SvRead fr0])).
      { apply (TK_from_old s); [exact HT | hq_bwd_tac | hreq_fwd_tac | no_take_tac | fwd_same]. }
      destruct (dispatch fr0); inv_some H.
      * exact T1.
      * apply (TK_from_old s); [exact HT | hq_bwd_tac | hreq_fwd_tac | no_take_tac | fwd_same].
      * apply TK_stream_dispatch; [exact T1 | sproj; apply in_or_app; right; simpl; auto | sproj; exact Erd].
  - (* r_rd_offer *)
    unfold r_rd_offer in H. destruct (rd s) eqn:Erd; try discriminate.
    destruct (find_idle (wk s) 0) as [w|]; [|discriminate]. inv_some H.
    assert (T1 : TK (add_log (set_rd s RdRead) [SvJob w f])).
    { apply (TK_from_old s); [exact HT | hq_bwd_tac | hreq_fwd_tac | no_take_tac | fwd_same]. }
    unfold start_unary.
    destruct (negb (has_hdr f)); [apply (TK_from_old _ _ T1); [hq_bwd_tac | hreq_fwd_tac | no_take_tac | fwd_same]|].
    destruct (md_bad f); [apply (TK_from_old _ _ T1); [hq_bwd_tac | hreq_fwd_tac | no_take_tac | fwd_same]|].
    destruct (body_tok f <? 0); [apply (TK_from_old _ _ T1); [hq_bwd_tac | hreq_fwd_tac | no_take_tac | fwd_same]|].
    assert (T2 := TK_append _ (new_unary f) [SvInvoke (length (hs s)) true (fid f) (f_mth f) (body_tok f) (md_tok f)] T1 eq_refl).
    match type of T2 with ?P -> _ => assert (X : P) by (intros e [<- | []]; exact I); specialize (T2 X) end.
    apply (TK_from_old _ _ T2); [hq_bwd_tac | hreq_fwd_tac | no_take_tac | fwd_same].
  - (* r_rd_fwd_enq *)
    start_rule H. destruct HT as [Tt Tq Tf Te].
    match goal with Erd : rd s = RdFwd ?h ?f, Hn : nth_error (hs s) ?h = Some ?k |- _ =>
      destruct (Tf _ _ Erd) as (Hr & k1 & Hk1 & Hid); rewrite Hn in Hk1; inversion Hk1; subst k1;
      assert (HF : hreq_fwd s (add_log (set_h (set_rd s RdRead) h (hset_q k (Some f))) [SvFwd h f])) by hreq_fwd_tac;
      assert (HL : exists e0, Server.log (add_log (set_h (set_rd s RdRead) h (hset_q k (Some f))) [SvFwd h f]) = Server.log s ++ e0) by (sproj; eauto);
      constructor; sproj
    end.
    + intros hh ff Hin. in_log Hin. eapply from_read_mono; eauto.
    + intros hh kk ff P Hq. apply nth_upd_cases in P. destruct P as [(-> & -> & _) | (_ & P)].
      * simpl in Hq. inversion Hq; subst. eapply from_read_mono; eauto.
      * eapply from_read_mono; eauto.
    + intros ? ? E. discriminate E.
    + intros hh r Hrr Hin. in_log Hin. destruct (Te _ _ Hrr Hin) as (f1 & A & B). exists f1. split; auto. apply in_or_app. auto.
  - (* r_h_recv *)
    start_rule H. destruct HT as [Tt Tq Tf Te].
    match goal with Hn : nth_error (hs s) ?h = Some ?k, Hq : h_q ?k = Some ?f |- _ =>
      pose proof (Tq _ _ _ Hn Hq) as FR;
      assert (HF : hreq_fwd s (add_log (set_h s h (hset_pc (hset_q k None) HGate)) [SvTake h f; SvOp h (recv_res f)])) by hreq_fwd_tac;
      assert (HL : exists e0, Server.log (add_log (set_h s h (hset_pc (hset_q k None) HGate)) [SvTake h f; SvOp h (recv_res f)]) = Server.log s ++ e0) by (sproj; eauto);
      constructor; sproj
    end.
    + intros hh ff Hin. apply in_app_or in Hin. destruct Hin as [Hin | [Hin | [Hin | []]]]; try discriminate Hin.
      * eapply from_read_mono; eauto.
      * inversion Hin; subst. eapply from_read_mono; eauto.
    + intros hh kk ff P Hq. apply nth_upd_cases in P. destruct P as [(-> & -> & _) | (_ & P)].
      * simpl in Hq. discriminate Hq.
      * eapply from_read_mono; eauto.
    + intros hh ff E. eapply from_read_mono; eauto.
    + intros hh r Hrr Hin. apply in_app_or in Hin. destruct Hin as [Hin | [Hin | [Hin | []]]]; try discriminate Hin.
      * destruct (Te _ _ Hrr Hin) as (f1 & A & B). exists f1. split; auto. apply in_or_app. auto.
      * inversion Hin; subst. eexists. split; [apply in_or_app; right; left; reflexivity | auto].
  - (* r_h_unreg *)
    unfold r_h_unreg in H. destruct (nth_error (hs s) h) as [k|] eqn:Hn; [|discriminate].
    destruct (h_pc k) eqn:Hpc; try discriminate. destruct (mu_free s); [|discriminate].
    assert (T1 : TK (set_h s h (hset_pc k HDead))).
    { apply (TK_from_old s); [exact HT | hq_bwd_tac | hreq_fwd_tac | no_take_tac | fwd_same]. }
    destruct (find_reg _ _ _) as [g|]; [destruct (nth_error _ g) as [kg|] eqn:Hg|]; inv_some H; try exact T1.
    apply TK_hunregister; [exact T1 | exact Hg].
Qed.

Lemma TK_ext s a : TK s -> TK (Server.ext s a).
Proof.
  intros HT. destruct a; simpl.
  all: try solve [apply (TK_from_old s); [exact HT | hq_bwd_tac | hreq_fwd_tac | no_take_tac | fwd_same]].
  destruct (nth_error (hs s) h) as [k|] eqn:Hn; [|exact HT]. destruct (h_pc k) eqn:Hg; try exact HT.
  destruct (hstep_shape s h k o Hn Hg) as (k' & Hhs & _ & _ & _ & _ & Hreq & Hq & _).
  destruct (hstep_log s h k o) as (evs & Elog & Hev).
  destruct (hstep_rd_crashed s h k o) as [Erd _].
  apply (TK_from_old s); [exact HT | | | | rewrite Erd; auto].
  - intros h0 k0 P. rewrite Hhs in P. apply nth_upd_cases in P. destruct P as [(-> & -> & _) | (_ & P)].
    + exists k. repeat split; auto.
    + exists k0. auto.
  - intros h0 k0 P. rewrite Hhs. destruct (Nat.eq_dec h0 h) as [->|?].
    + rewrite Hn in P. inversion P; subst. exists k'. split; [apply nth_upd_same; eapply nth_error_lt; eauto | exact Hreq].
    + exists k0. split; [apply nth_upd_fwd; auto | reflexivity].
  - exists evs. split; auto. intros e Hin. specialize (Hev e Hin). destruct e; try contradiction; auto.
    (* hstep never logs a receive result *)
    clear - Hin Elog Hn Hg. unfold hstep in Elog. destruct (h_unary k), o; try destruct (h_hsent k); sproj;
      try (apply app_inv_head in Elog; subst evs; simpl in Hin; repeat (destruct Hin as [Hin | Hin]; [try discriminate Hin; inversion Hin; subst; reflexivity|]); contradiction);
      try (rewrite <- (app_nil_r (Server.log s)) in Elog at 1; apply app_inv_head in Elog; subst evs; destruct Hin).
Qed.

Lemma TK_init nw : TK (init_n nw).
Proof.
  constructor; simpl; try tauto; try discriminate.
  - intros h k f P. destruct h; discriminate.
Qed.

Theorem TK_reach nw ls s : Server.lrun (init_n nw) ls = Some s -> TK s.
Proof. apply lrun_inv; [intros; apply TK_ext; auto | intros; eapply TK_int; eauto | apply TK_init]. Qed.

(* the handler's EOF comes from a frame with an OK trailer, read from the transport under the handler's id *)
Theorem srv_eof_origin nw ls s h : Server.lrun (init_n nw) ls = Some s -> In (SvOp h ORecvEof) (Server.log s) ->
  exists f k, In (SvRead f) (Server.log s) /\ nth_error (hs s) h = Some k /\ fid f = fid (h_req k) /\ recv_res f = ORecvEof.
Proof.
  intros H Hin. pose proof (TK_reach _ _ _ H) as HT.
  destruct (tk_eof _ HT h ORecvEof eq_refl Hin) as (f & Ht & Hres). destruct (tk_take _ HT _ _ Ht) as (Hr & k & Hk & Hid). eauto 8.
Qed.

(* every receive result of a handler comes from a frame read from the transport under the handler's id *)
Theorem srv_recv_origin nw ls s h r : Server.lrun (init_n nw) ls = Some s -> is_recv_res r = true -> In (SvOp h r) (Server.log s) ->
  exists f k, In (SvRead f) (Server.log s) /\ nth_error (hs s) h = Some k /\ fid f = fid (h_req k) /\ recv_res f = r.
Proof.
  intros H Hr Hin. pose proof (TK_reach _ _ _ H) as HT.
  destruct (tk_eof _ HT _ _ Hr Hin) as (f & Ht & Hres). destruct (tk_take _ HT _ _ Ht) as (Hrd & k & Hk & Hid). eauto 8.
Qed.

(* ---------- client: the shapes of what it writes ---------- *)
Definition wshape (e : env) : Prop :=
  (exists b, e = req_env (eid e) b) \/ e = open_env (eid e) \/ e = close_env (eid e) \/ e = rst_env (eid e).
(* req_env and body_env are the same envelope shape *)

Definition WS (s : Client.state) : Prop := forall e, In (EvWrite e) (Client.log s) -> wshape e.

Lemma WS_ext_log s s' evs : WS s -> Client.log s' = Client.log s ++ evs -> (forall e, In (EvWrite e) evs -> wshape e) -> WS s'.
Proof. intros HW E Hn e Hin. rewrite E in Hin. apply in_app_or in Hin. destruct Hin; auto. Qed.

Ltac ws_new := let e := fresh in let X := fresh in
  intros e X; simpl in X; repeat (destruct X as [X | X]; [try discriminate X; inversion X; subst; unfold wshape; simpl; eauto 6 | ]); try contradiction.

Lemma WS_step s l s' : WS s -> Client.lstep s l = Some s' -> WS s'.
Proof.
  intros HW H. destruct l as [a|n]; simpl in H.
  - inversion H; subst. intros e Hin. rewrite clog_ext in Hin. auto.
  - destruct (nth_error (Client.rules s) n) as [r|] eqn:E; [|discriminate]. apply nth_error_In in E.
    apply rules_in in E. destruct E as [->|[->|(c & _ & Hin)]].
    + unfold r_rl_unblock in H. open_rule H; (eapply WS_ext_log; [exact HW | csimpl; first [rewrite <- ?app_assoc; reflexivity | symmetry; apply app_nil_r] | ws_new]).
    + unfold r_rl_read in H. open_rule H; (eapply WS_ext_log; [exact HW | csimpl; first [rewrite <- ?app_assoc; reflexivity | symmetry; apply app_nil_r] | ws_new]).
    + simpl in Hin.
      repeat (destruct Hin as [<-|Hin];
              [ unfold r_check, r_reg, r_wait, r_wait_ctx, r_unreg, r_loop_read, r_loop_read_ctx, r_loop_hand,
                       r_loop_hand_ctx, r_loop_exit, r_loop_unreg, r_recv, r_header, r_trailer, r_send in H;
                open_rule H; (eapply WS_ext_log; [exact HW | csimpl; first [rewrite <- ?app_assoc; reflexivity | symmetry; apply app_nil_r] | ws_new]) | ]).
      destruct Hin.
Qed.

Theorem WS_reach ls s : Client.lrun Client.init ls = Some s -> WS s.
Proof. apply (ClientBase.lrun_inv WS); [intros; eapply WS_step; eauto | intros e []]. Qed.

(* ---------- the theorem ---------- *)
(* if the handler of a stream observed io.EOF, its caller had half-closed that stream: the OK trailer with
   the stream's id is in the client's write log (it is written by CloseSend and by nothing else) *)
Theorem C02_handler_eof_sound pol ls s h :
  Sys.lrun pol Sys.init ls = Some s -> In (SvOp h ORecvEof) (Server.log (sv s)) ->
  exists k, nth_error (hs (sv s)) h = Some k /\ In (EvWrite (close_env (fid (h_req k)))) (Client.log (cl s)).
Proof.
  intros H Hin. pose proof (proj_s_run _ _ _ _ H) as Hs. pose proof (proj_c_run _ _ _ _ H) as Hc.
  destruct (srv_eof_origin _ _ _ _ Hs Hin) as (f & k & Hr & Hk & Hid & Hres).
  exists k. split; auto.
  destruct (server_read_was_written _ _ _ _ H Hr) as (_ & Hw).
  pose proof (WS_reach _ _ Hc _ Hw) as Hsh.
  assert (Htr : etrl (f_env f) <> None).
  { unfold recv_res in Hres. destruct (etrl (f_env f)); [discriminate|]. destruct (ebody (f_env f)) as [b|]; [destruct (b <? 0)|]; discriminate. }
  rewrite <- Hid. unfold fid.
  destruct Hsh as [(b & E) | [E | [E | E]]]; rewrite E in Htr; simpl in Htr; congruence.
Qed.

(* no fabrication, no alteration towards the handler: every message a handler received is the body of an
   envelope its caller wrote on that stream *)
Theorem C02_handler_recv_was_sent pol ls s h b :
  Sys.lrun pol Sys.init ls = Some s -> In (SvOp h (ORecvMsg b)) (Server.log (sv s)) -> b <> 0 ->
  exists k e, nth_error (hs (sv s)) h = Some k /\ In (EvWrite e) (Client.log (cl s)) /\ eid e = fid (h_req k) /\ ebody e = Some b.
Proof.
  intros H Hin Hb. pose proof (proj_s_run _ _ _ _ H) as Hs.
  destruct (srv_recv_origin _ _ _ h (ORecvMsg b) Hs eq_refl Hin) as (f & k & Hr & Hk & Hid & Hres).
  destruct (server_read_was_written _ _ _ _ H Hr) as (_ & Hw).
  exists k, (f_env f). repeat split; auto.
  unfold recv_res in Hres. destruct (etrl (f_env f)); [destruct (estatus (f_env f)) as [st|]; [destruct (st_code st =? 0)|]; discriminate|].
  destruct (ebody (f_env f)) as [b0|]; [destruct (b0 <? 0); [discriminate|]; inversion Hres; reflexivity|].
  inversion Hres. congruence.
Qed.

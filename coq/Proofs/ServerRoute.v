(* C05, server half, on Model/Server.v: exact routing accounting.
   - per stream handler h: the envelopes read from the transport while h was the registered entry of their id
     ([routed]: the sub-sequence of the inbox with h's id during h's registration; resets cancel and are not
     routed) are, in order and once each, those the read loop has settled for h (put into h's queue or dropped
     because h's context was done), then the one it is holding for h, then at most one that it abandoned when it
     left serve; and the envelopes put into h's queue are, in order and once each, those h took, then the queued one;
   - unary: the envelopes read that name a registered unary method of this server (header present, destination =
     the server's name) are, in order and once each, those handed to a worker (one SvJob each: exactly one
     worker), then the one on offer, then at most one abandoned when the read loop left serve. *)
From Coq Require Import List ZArith Bool Lia Arith.
Import ListNotations.
From Goat Require Import Model.Client Model.Server Proofs.ServerProofs Proofs.ServerInv Proofs.ServerTrace.
Open Scope Z_scope.

(* ---------- the projections of the history ---------- *)
Definition settled (h : nat) (l : list sev) : list frame :=
  flat_map (fun e => match e with SvFwd g f | SvDrop g f => if Nat.eqb g h then [f] else [] | _ => [] end) l.
Definition fwds (h : nat) (l : list sev) : list frame :=
  flat_map (fun e => match e with SvFwd g f => if Nat.eqb g h then [f] else [] | _ => [] end) l.
Definition takes (h : nat) (l : list sev) : list frame :=
  flat_map (fun e => match e with SvTake g f => if Nat.eqb g h then [f] else [] | _ => [] end) l.
Definition jobs (l : list sev) : list frame :=
  flat_map (fun e => match e with SvJob _ f => [f] | _ => [] end) l.
Definition is_unary_req (f : frame) : bool := match dispatch f with DUnary => true | _ => false end.
Definition ureads (l : list sev) : list frame :=
  flat_map (fun e => match e with SvRead f => if is_unary_req f then [f] else [] | _ => [] end) l.

(* an envelope that processStreamingRpc forwards to the entry registered under [id] *)
Definition routable (id : Z) (f : frame) : bool :=
  match dispatch f with DStream => (fid f =? id) && negb (is_rst f) | _ => false end.

(* scanning the history: handler h is registered from its SvInvoke to its SvUnreg; the envelopes read meanwhile
   that are routable to its id *)
Definition rstep (h : nat) (id : Z) (st : bool * list frame) (e : sev) : bool * list frame :=
  match e with
  | SvInvoke g _ _ _ _ _ => if Nat.eqb g h then (true, snd st) else st
  | SvUnreg g => if Nat.eqb g h then (false, snd st) else st
  | SvRead f => if fst st && routable id f then (fst st, snd st ++ [f]) else st
  | _ => st
  end.
Definition rscan (h : nat) (id : Z) (l : list sev) : bool * list frame := fold_left (rstep h id) l (false, []).
Definition routed (h : nat) (id : Z) (l : list sev) : list frame := snd (rscan h id l).
Definition regflag (h : nat) (id : Z) (l : list sev) : bool := fst (rscan h id l).

Definition held (s : state) (h : nat) : list frame :=
  match rd s with RdFwd g f => if Nat.eqb g h then [f] else [] | _ => [] end.
Definition offered (s : state) : list frame := match rd s with RdOffer f => [f] | _ => [] end.
Definition queue (k : hnd) : list frame := match h_q k with Some f => [f] | None => [] end.

Lemma rscan_app h id l evs : rscan h id (l ++ evs) = fold_left (rstep h id) evs (rscan h id l).
Proof. unfold rscan. apply fold_left_app. Qed.

(* events that none of the projections looks at *)
Definition quiet_ev (e : sev) : bool :=
  match e with
  | SvRead _ | SvInvoke _ _ _ _ _ _ | SvUnreg _ | SvFwd _ _ | SvDrop _ _ | SvTake _ _ | SvJob _ _ => false
  | _ => true
  end.
Definition quiet_evs (evs : list sev) : Prop := forall e, In e evs -> quiet_ev e = true.

Lemma quiet_cons e evs : quiet_evs (e :: evs) -> quiet_ev e = true /\ quiet_evs evs.
Proof. intros H. split; [apply H; now left | intros x Hx; apply H; now right]. Qed.

Lemma quiet_fold h id evs st : quiet_evs evs -> fold_left (rstep h id) evs st = st.
Proof.
  revert st. induction evs as [|e evs IH]; intros st H; [reflexivity|]. apply quiet_cons in H. destruct H as [He H].
  simpl. rewrite IH by assumption. destruct e; try discriminate; reflexivity.
Qed.

Lemma quiet_flat {B} (p : sev -> list B) evs :
  (forall e, quiet_ev e = true -> p e = []) -> quiet_evs evs -> flat_map p evs = [].
Proof.
  intros Hp. induction evs as [|e evs IH]; intros H; [reflexivity|]. apply quiet_cons in H. destruct H as [He H].
  simpl. rewrite (Hp e He), IH by assumption. reflexivity.
Qed.

Lemma quiet_settled h evs : quiet_evs evs -> settled h evs = [].
Proof. apply quiet_flat. intros e He. destruct e; try discriminate; reflexivity. Qed.
Lemma quiet_fwds h evs : quiet_evs evs -> fwds h evs = [].
Proof. apply quiet_flat. intros e He. destruct e; try discriminate; reflexivity. Qed.
Lemma quiet_takes h evs : quiet_evs evs -> takes h evs = [].
Proof. apply quiet_flat. intros e He. destruct e; try discriminate; reflexivity. Qed.
Lemma quiet_jobs evs : quiet_evs evs -> jobs evs = [].
Proof. apply quiet_flat. intros e He. destruct e; try discriminate; reflexivity. Qed.
Lemma quiet_ureads evs : quiet_evs evs -> ureads evs = [].
Proof. apply quiet_flat. intros e He. destruct e; try discriminate; reflexivity. Qed.

(* ---------- the invariant ---------- *)
Definition lost_ok (s : state) (tail : list frame) : Prop :=
  tail = [] \/ (rd_exited s = true /\ exists f, tail = [f]).

Definition ev_handler (e : sev) : option nat :=
  match e with SvInvoke g _ _ _ _ _ | SvUnreg g | SvFwd g _ | SvDrop g _ | SvTake g _ => Some g | _ => None end.

Record rinv (s : state) : Prop := mkRinv {
  r_bound : forall e g, In e (log s) -> ev_handler e = Some g -> (g < length (hs s))%nat;
  r_reg : forall h k, nth_error (hs s) h = Some k -> h_unary k = false ->
            regflag h (fid (h_req k)) (log s) = h_reg k;
  r_route : forall h k, nth_error (hs s) h = Some k -> h_unary k = false ->
            exists tail, routed h (fid (h_req k)) (log s) = settled h (log s) ++ held s h ++ tail /\ lost_ok s tail
                         /\ (tail <> [] -> held s h = []);
  r_queue : forall h k, nth_error (hs s) h = Some k -> fwds h (log s) = takes h (log s) ++ queue k;
  r_unary : exists tail, ureads (log s) = jobs (log s) ++ offered s ++ tail /\ lost_ok s tail
                         /\ (tail <> [] -> offered s = []) }.

(* the part of a handler record the invariant looks at *)
Definition rsig (k : hnd) : bool * frame * bool * option frame := (h_unary k, h_req k, h_reg k, h_q k).

Lemma nth_map_sig l l' h k' :
  map rsig l' = map rsig l -> nth_error l' h = Some k' -> exists k, nth_error l h = Some k /\ rsig k = rsig k'.
Proof.
  intros E Hn. assert (H : nth_error (map rsig l') h = Some (rsig k')) by (rewrite nth_error_map, Hn; reflexivity).
  rewrite E, nth_error_map in H. destruct (nth_error l h) as [k|]; [|discriminate]. exists k. split; [reflexivity|].
  simpl in H. congruence.
Qed.

Lemma map_sig_length l l' : map rsig l' = map rsig l -> length l' = length l.
Proof. intros E. rewrite <- (map_length rsig l'), E. apply map_length. Qed.

(* a step that adds only quiet events, keeps the signatures, what the read loop holds / offers, and does not
   come back from having left serve *)
Lemma rinv_quiet s s' evs :
  rinv s -> log s' = log s ++ evs -> quiet_evs evs -> map rsig (hs s') = map rsig (hs s) ->
  (forall h, held s' h = held s h) -> offered s' = offered s -> (rd_exited s = true -> rd_exited s' = true) -> rinv s'.
Proof.
  intros [R1 R2 R3 R4 R5] El Hq Es Hh Ho Hx.
  assert (Hlost : forall t, lost_ok s t -> lost_ok s' t).
  { intros t [-> | [E F]]; [left; reflexivity | right; auto]. }
  constructor.
  - intros e g Hin He. rewrite (map_sig_length _ _ Es). rewrite El in Hin. apply in_app_or in Hin.
    destruct Hin as [Hin | Hin]; [eauto|]. specialize (Hq e Hin). destruct e; discriminate.
  - intros h k' Hn U. destruct (nth_map_sig _ _ _ _ Es Hn) as [k [Hk Ek]]. assert (E1 : h_unary k = h_unary k') by (unfold rsig in Ek; congruence). assert (E2 : h_req k = h_req k') by (unfold rsig in Ek; congruence). assert (E3 : h_reg k = h_reg k') by (unfold rsig in Ek; congruence). assert (E4 : h_q k = h_q k') by (unfold rsig in Ek; congruence).
    unfold regflag. rewrite El, rscan_app, quiet_fold by assumption. rewrite <- E2, <- E3. apply R2; congruence.
  - intros h k' Hn U. destruct (nth_map_sig _ _ _ _ Es Hn) as [k [Hk Ek]]. assert (E1 : h_unary k = h_unary k') by (unfold rsig in Ek; congruence). assert (E2 : h_req k = h_req k') by (unfold rsig in Ek; congruence). assert (E3 : h_reg k = h_reg k') by (unfold rsig in Ek; congruence). assert (E4 : h_q k = h_q k') by (unfold rsig in Ek; congruence).
    destruct (R3 h k Hk ltac:(congruence)) as [tail [T1 [T2 T3]]]. exists tail.
    unfold routed, settled. rewrite El, rscan_app, quiet_fold, flat_map_app by assumption.
    fold (settled h (log s)). fold (settled h evs). rewrite (quiet_settled h evs Hq), app_nil_r, Hh.
    rewrite <- E2. split; [exact T1 | split; auto].
  - intros h k' Hn. destruct (nth_map_sig _ _ _ _ Es Hn) as [k [Hk Ek]]. assert (E1 : h_unary k = h_unary k') by (unfold rsig in Ek; congruence). assert (E2 : h_req k = h_req k') by (unfold rsig in Ek; congruence). assert (E3 : h_reg k = h_reg k') by (unfold rsig in Ek; congruence). assert (E4 : h_q k = h_q k') by (unfold rsig in Ek; congruence).
    unfold fwds, takes. rewrite El, !flat_map_app. fold (fwds h evs). fold (takes h evs).
    rewrite (quiet_fwds h evs Hq), (quiet_takes h evs Hq), !app_nil_r. unfold queue. rewrite <- E4. apply R4. assumption.
  - destruct R5 as [tail [T1 [T2 T3]]]. exists tail. unfold ureads, jobs. rewrite El, !flat_map_app.
    fold (ureads evs). fold (jobs evs). rewrite (quiet_ureads evs Hq), (quiet_jobs evs Hq), !app_nil_r, Ho. auto.
Qed.

Lemma rinv_init nw : rinv (init_n nw).
Proof.
  constructor; simpl; try (intros; contradiction).
  - intros h k H. destruct h; discriminate.
  - intros h k H. destruct h; discriminate.
  - intros h k H. destruct h; discriminate.
  - exists []. split; [reflexivity|]. split; [left; reflexivity | intros H; congruence].
Qed.

Ltac q_evs := intros ? Hin; simpl in Hin; repeat destruct Hin as [<- | Hin]; try reflexivity; try contradiction.
Ltac q_rd := intros; unfold held, offered, rd_exited in *; sproj;
             repeat match goal with E : rd _ = _ |- _ => rewrite E in * end; auto.
Ltac q_sig := sproj; try reflexivity;
              try (match goal with Hn : nth_error (hs _) ?h = Some ?k |- _ => apply (map_upd_same rsig h k _ _ Hn); reflexivity end).
Ltac q_rule I s :=
  first [ apply (rinv_quiet s _ [] I); [sproj; now rewrite app_nil_r | intros ? [] | q_sig | q_rd | q_rd | q_rd]
        | eapply (rinv_quiet s _ _ I); [sproj; reflexivity | q_evs | q_sig | q_rd | q_rd | q_rd] ].

Lemma rinv_ext s a : rinv s -> rinv (ext s a).
Proof.
  intros I. destruct a; simpl; try (q_rule I s; fail).
  destruct (nth_error (hs s) h) as [k|] eqn:Hn; [|assumption].
  destruct (h_pc k) eqn:Hg; try assumption.
  destruct (hstep_log s h k o) as [evs [E Hev]].
  destruct (hstep_shape s h k o Hn Hg) as [k' [Hhs [Hu [Hr [_ [_ [Hq [Hqq _]]]]]]]].
  destruct (hstep_other s h k o) as [E1 _].
  apply (rinv_quiet s _ evs I); auto.
  - intros e Hin. specialize (Hev e Hin). destruct e; try contradiction; reflexivity.
  - rewrite Hhs. apply (map_upd_same rsig h k k' _ Hn). unfold rsig. now rewrite Hu, Hr, Hq, Hqq.
  - intros g. unfold held. now rewrite E1.
  - unfold offered. now rewrite E1.
  - unfold rd_exited. now rewrite E1.
Qed.

(* ---------- nothing in the history is about a handler index that does not exist yet ---------- *)
Definition fresh (n : nat) (l : list sev) : Prop := forall e g, In e l -> ev_handler e = Some g -> g <> n.

Lemma fresh_of_bound s : rinv s -> fresh (length (hs s)) (log s).
Proof. intros I e g Hin He. pose proof (r_bound s I e g Hin He). lia. Qed.

Lemma fresh_cons n e l : fresh n (e :: l) -> (forall g, ev_handler e = Some g -> g <> n) /\ fresh n l.
Proof. intros H. split; [intros g; apply H; now left | intros x g Hx; apply H; now right]. Qed.

Lemma rscan_fresh_gen n id l st : fresh n l -> fst st = false -> fold_left (rstep n id) l st = st.
Proof.
  revert st. induction l as [|e l IH]; intros st H Hst; [reflexivity|]. apply fresh_cons in H. destruct H as [He H].
  simpl. assert (E : rstep n id st e = st).
  { destruct e; simpl; auto.
    - rewrite Hst. reflexivity.
    - destruct (Nat.eqb_spec h n); [exfalso; apply (He h eq_refl); assumption | reflexivity].
    - destruct (Nat.eqb_spec h n); [exfalso; apply (He h eq_refl); assumption | reflexivity]. }
  rewrite E. apply IH; assumption.
Qed.

Lemma rscan_fresh n id l : fresh n l -> rscan n id l = (false, []).
Proof. intros H. unfold rscan. apply rscan_fresh_gen; auto. Qed.

Lemma flat_fresh {B} n (p : sev -> list B) l :
  (forall e, p e <> [] -> ev_handler e = Some n) -> fresh n l -> flat_map p l = [].
Proof.
  intros Hp. induction l as [|e l IH]; intros H; [reflexivity|]. apply fresh_cons in H. destruct H as [He H].
  simpl. rewrite IH by assumption. rewrite app_nil_r. destruct (p e) eqn:E; [reflexivity|].
  exfalso. apply (He n); [apply Hp; congruence | reflexivity].
Qed.

Lemma settled_fresh n l : fresh n l -> settled n l = [].
Proof.
  apply flat_fresh. intros e He. destruct e; simpl in *; try congruence;
    destruct (Nat.eqb_spec h n); subst; congruence.
Qed.
Lemma fwds_fresh n l : fresh n l -> fwds n l = [].
Proof.
  apply flat_fresh. intros e He. destruct e; simpl in *; try congruence;
    destruct (Nat.eqb_spec h n); subst; congruence.
Qed.
Lemma takes_fresh n l : fresh n l -> takes n l = [].
Proof.
  apply flat_fresh. intros e He. destruct e; simpl in *; try congruence;
    destruct (Nat.eqb_spec h n); subst; congruence.
Qed.

Lemma lost_serving s t : lost_ok s t -> rd_exited s = false -> t = [].
Proof. intros [-> | [E _]] H; [reflexivity | congruence]. Qed.

Ltac lsimp := unfold regflag, routed, settled, fwds, takes, ureads, jobs in *; rewrite ?rscan_app, ?flat_map_app; simpl;
              rewrite ?app_nil_r.

(* ---------- a handler takes a message from its queue ---------- *)
Lemma rinv_recv s h s' : rinv s -> r_h_recv h s = Some s' -> rinv s'.
Proof.
  intros [R1 R2 R3 R4 R5] H. unfold r_h_recv in H. destruct (nth_error (hs s) h) as [k|] eqn:Hn; [|discriminate].
  destruct (h_pc k); try discriminate. destruct (h_q k) as [f|] eqn:Hq; [|discriminate]. inv_some H.
  assert (Hl := nth_error_lt _ _ _ Hn).
  constructor; sproj.
  - intros e g Hin He. rewrite upd_length. apply in_app_or in Hin. destruct Hin as [Hin|Hin]; [eauto|].
    simpl in Hin. destruct Hin as [<-|[<-|[]]]; simpl in He; inversion He; subst; assumption.
  - intros g k' Hg U. apply nth_upd_cases in Hg. destruct Hg as [[-> [-> _]]|[Hne Hg]]; lsimp; [apply (R2 h k Hn U) | apply (R2 g k' Hg U)].
  - intros g k' Hg U. apply nth_upd_cases in Hg. destruct Hg as [[-> [-> _]]|[Hne Hg]]; lsimp.
    + destruct (R3 h k Hn U) as [t T]. exists t. simpl. exact T.
    + destruct (R3 g k' Hg U) as [t T]. exists t. exact T.
  - intros g k' Hg. apply nth_upd_cases in Hg. destruct Hg as [[-> [-> _]]|[Hne Hg]]; lsimp.
    + rewrite Nat.eqb_refl. simpl. rewrite (R4 h k Hn). unfold queue. rewrite Hq. simpl. rewrite ?app_nil_r. reflexivity.
    + destruct (Nat.eqb_spec h g); [congruence|]. simpl. rewrite ?app_nil_r. apply (R4 g k' Hg).
  - destruct R5 as [t T]. exists t. lsimp. exact T.
Qed.

Lemma held_other s g f h : rd s = RdFwd g f -> h <> g -> held s h = [].
Proof. intros E Hne. unfold held. rewrite E. destruct (Nat.eqb_spec g h); [congruence | reflexivity]. Qed.
Lemma held_self s g f : rd s = RdFwd g f -> held s g = [f].
Proof. intros E. unfold held. rewrite E, Nat.eqb_refl. reflexivity. Qed.

(* the read loop settles the envelope it holds for handler g: into the queue, or dropped *)
Lemma rinv_settle s s' g f k k' ev :
  rinv s -> rd s = RdFwd g f -> nth_error (hs s) g = Some k ->
  hs s' = upd g k' (hs s) -> log s' = log s ++ [ev] -> rd s' = RdRead ->
  (ev = SvFwd g f /\ h_q k = None /\ k' = hset_q k (Some f)) \/ (ev = SvDrop g f /\ k' = k) ->
  rinv s'.
Proof.
  intros [R1 R2 R3 R4 R5] Erd Hn Ehs El Erd' Hev. assert (Hl := nth_error_lt _ _ _ Hn).
  assert (Hx : rd_exited s = false) by (unfold rd_exited; now rewrite Erd).
  assert (Hx' : rd_exited s' = false) by (unfold rd_exited; now rewrite Erd').
  assert (Hsig : h_unary k' = h_unary k /\ h_req k' = h_req k /\ h_reg k' = h_reg k).
  { destruct Hev as [[_ [_ ->]] | [_ ->]]; auto. }
  destruct Hsig as [S1 [S2 S3]].
  assert (Hevh : ev_handler ev = Some g) by (destruct Hev as [[-> _] | [-> _]]; reflexivity).
  assert (Hset : forall h, settled h [ev] = if Nat.eqb g h then [f] else []).
  { intros h. destruct Hev as [[-> _] | [-> _]]; simpl; destruct (Nat.eqb g h); reflexivity. }
  assert (Hscan : forall h id st, fold_left (rstep h id) [ev] st = st).
  { intros h id st. destruct Hev as [[-> _] | [-> _]]; reflexivity. }
  assert (Hheld' : forall h, held s' h = []) by (intros h; unfold held; now rewrite Erd').
  constructor.
  - intros e h Hin He. rewrite Ehs, upd_length. rewrite El in Hin. apply in_app_or in Hin.
    destruct Hin as [Hin | [<- | []]]; [eauto|]. rewrite Hevh in He. inversion He; subst. assumption.
  - intros h kh Hh U. rewrite Ehs in Hh. unfold regflag. rewrite El, rscan_app, Hscan.
    apply nth_upd_cases in Hh. destruct Hh as [[-> [-> _]]|[Hne Hh]].
    + rewrite S2, S3. apply (R2 g k Hn). congruence.
    + apply (R2 h kh Hh U).
  - intros h kh Hh U. rewrite Ehs in Hh. unfold routed. rewrite El, rscan_app, Hscan. unfold settled. rewrite flat_map_app.
    fold (settled h (log s)). fold (settled h [ev]). rewrite Hset, Hheld'.
    apply nth_upd_cases in Hh. destruct Hh as [[-> [-> _]]|[Hne Hh]].
    + rewrite Nat.eqb_refl, S2. destruct (R3 g k Hn ltac:(congruence)) as [t [T1 [T2 T3]]].
      assert (t = []) by (apply (lost_serving s); assumption). subst t.
      unfold routed in T1. exists []. rewrite T1, (held_self s g f Erd), !app_nil_r. split; [reflexivity|]. split; [left; reflexivity | congruence].
    + destruct (Nat.eqb_spec g h); [congruence|]. destruct (R3 h kh Hh U) as [t [T1 [T2 T3]]].
      assert (t = []) by (apply (lost_serving s); assumption). subst t.
      unfold routed in T1. exists []. rewrite T1, (held_other s g f h Erd) by congruence. rewrite !app_nil_r.
      split; [reflexivity|]. split; [left; reflexivity | congruence].
  - intros h kh Hh. rewrite Ehs in Hh. unfold fwds, takes. rewrite El, !flat_map_app.
    fold (fwds h (log s)). fold (takes h (log s)).
    apply nth_upd_cases in Hh. destruct Hh as [[-> [-> _]]|[Hne Hh]].
    + destruct Hev as [[-> [Hq ->]] | [-> ->]]; simpl; rewrite ?Nat.eqb_refl, ?app_nil_r.
      * rewrite (R4 g k Hn). unfold queue. rewrite Hq. simpl. rewrite app_nil_r. reflexivity.
      * apply (R4 g k Hn).
    + assert (E1 : flat_map (fun e => match e with SvFwd g0 f0 => if Nat.eqb g0 h then [f0] else [] | _ => [] end) [ev] = []).
      { destruct Hev as [[-> _] | [-> _]]; simpl; [destruct (Nat.eqb_spec g h); [congruence | reflexivity] | reflexivity]. }
      assert (E2 : flat_map (fun e => match e with SvTake g0 f0 => if Nat.eqb g0 h then [f0] else [] | _ => [] end) [ev] = []).
      { destruct Hev as [[-> _] | [-> _]]; reflexivity. }
      rewrite E1, E2, !app_nil_r. apply (R4 h kh Hh).
  - destruct R5 as [t [T1 [T2 T3]]]. exists t. unfold ureads, jobs, offered in *. rewrite El, !flat_map_app, Erd'. rewrite Erd in T1.
    assert (E1 : flat_map (fun e => match e with SvRead f0 => if is_unary_req f0 then [f0] else [] | _ => [] end) [ev] = [])
      by (destruct Hev as [[-> _] | [-> _]]; reflexivity).
    assert (E2 : flat_map (fun e => match e with SvJob _ f0 => [f0] | _ => [] end) [ev] = [])
      by (destruct Hev as [[-> _] | [-> _]]; reflexivity).
    rewrite E1, E2, !app_nil_r. split; [exact T1|]. split; [|auto].
    destruct T2 as [-> | [E _]]; [left; reflexivity | congruence].
Qed.

Lemma rinv_fwd_enq s s' : rinv s -> r_rd_fwd_enq s = Some s' -> rinv s'.
Proof.
  intros I H. unfold r_rd_fwd_enq in H. destruct (rd s) eqn:Erd; try discriminate.
  destruct (nth_error (hs s) h) as [k|] eqn:Hn; [|discriminate]. destruct (h_q k) eqn:Hq; [discriminate|]. inv_some H.
  eapply (rinv_settle s _ h f k (hset_q k (Some f)) (SvFwd h f) I Erd Hn); sproj; auto.
Qed.

Lemma rinv_fwd_gone s s' : rinv s -> r_rd_fwd_gone s = Some s' -> rinv s'.
Proof.
  intros I H. unfold r_rd_fwd_gone in H. destruct (rd s) eqn:Erd; try discriminate.
  destruct (nth_error (hs s) h) as [k|] eqn:Hn; [|discriminate]. destruct (hdone s k); [|discriminate]. inv_some H.
  eapply (rinv_settle s _ h f k k (SvDrop h f) I Erd Hn); sproj; auto. symmetry. now apply upd_same.
Qed.

(* the read loop leaves serve while holding / offering an envelope *)
Lemma rinv_abandon s s' f :
  rinv s -> (exists g, rd s = RdFwd g f) \/ rd s = RdOffer f \/ (exists g, rd s = RdRst g /\ g = f) ->
  hs s' = hs s -> log s' = log s ++ [SvAbandon f] -> rd_exited s' = true -> rinv s'.
Proof.
  intros [R1 R2 R3 R4 R5] Hrd Ehs El Hx'.
  assert (Hx : rd_exited s = false).
  { unfold rd_exited. destruct Hrd as [[g ->] | [-> | [g [-> _]]]]; reflexivity. }
  assert (Hheld' : forall h, held s' h = []).
  { intros h. unfold held. unfold rd_exited in Hx'. destruct (rd s'); try discriminate; reflexivity. }
  assert (Hoff' : offered s' = []).
  { unfold offered. unfold rd_exited in Hx'. destruct (rd s'); try discriminate; reflexivity. }
  constructor.
  - intros e h Hin He. rewrite Ehs. rewrite El in Hin. apply in_app_or in Hin.
    destruct Hin as [Hin | [<- | []]]; [eauto | discriminate].
  - intros h kh Hh U. rewrite Ehs in Hh. unfold regflag. rewrite El, rscan_app. simpl. apply (R2 h kh Hh U).
  - intros h kh Hh U. rewrite Ehs in Hh. unfold routed, settled. rewrite El, rscan_app, flat_map_app. simpl.
    rewrite app_nil_r, Hheld'. destruct (R3 h kh Hh U) as [t [T1 [T2 T3]]].
    assert (t = []) by (apply (lost_serving s); assumption). subst t. rewrite app_nil_r in T1.
    exists (held s h). split; [exact T1|]. split; [|reflexivity].
    unfold held. destruct Hrd as [[g E] | [E | [g [E _]]]]; rewrite E; try (left; reflexivity).
    destruct (Nat.eqb g h); [right; split; [assumption | eauto] | left; reflexivity].
  - intros h kh Hh. rewrite Ehs in Hh. unfold fwds, takes. rewrite El, !flat_map_app. simpl. rewrite !app_nil_r. apply (R4 h kh Hh).
  - destruct R5 as [t [T1 [T2 T3]]]. assert (t = []) by (apply (lost_serving s); assumption). subst t.
    exists (offered s). unfold ureads, jobs. rewrite El, !flat_map_app. simpl. rewrite !app_nil_r, Hoff'. rewrite app_nil_r in T1.
    split; [exact T1|]. split; [|reflexivity].
    unfold offered. destruct Hrd as [[g E] | [E | [g [E _]]]]; rewrite E; try (left; reflexivity).
    right. split; [assumption | eauto].
Qed.

Lemma rinv_exits s i s' :
  match i with RRdOfferCtx | RRdFwdCctx | RRdFwdHctx => True | _ => False end ->
  rinv s -> rule_of i s = Some s' -> rinv s'.
Proof.
  intros Hi I H. destruct i; try contradiction; simpl in H; start_rule H.
  all: match goal with |- rinv (add_log _ [SvAbandon ?f]) => eapply (rinv_abandon s _ f I); sproj; eauto end.
Qed.

(* unregistration *)
Lemma rinv_unreg nw s h s' : inv nw s -> rinv s -> r_h_unreg h s = Some s' -> rinv s'.
Proof.
  intros Iv [R1 R2 R3 R4 R5] H. unfold r_h_unreg in H.
  destruct (nth_error (hs s) h) as [k|] eqn:Hn; [|discriminate].
  destruct (h_pc k) eqn:Hp; try discriminate.
  destruct (mu_free s) eqn:Hmu; [|discriminate].
  destruct (unreg_self nw s h k Iv Hn Hp) as [Ef [U R]].
  unfold set_h at 1 2 3 in H. cbn [hs set_hs] in H. rewrite Ef in H.
  assert (Hl := nth_error_lt _ _ _ Hn).
  rewrite nth_upd_same in H by assumption. inv_some H.
  assert (Hheld : forall g, held s g = []).
  { intros g. unfold held. unfold mu_free in Hmu. destruct (rd s); try discriminate; reflexivity. }
  constructor; sproj; rewrite ?upd_upd.
  - intros e g Hin He. rewrite upd_length. apply in_app_or in Hin.
    destruct Hin as [Hin | [<- | []]]; [eauto|]. simpl in He. inversion He; subst. assumption.
  - intros g kg Hg Ug. apply nth_upd_cases in Hg. destruct Hg as [[-> [-> _]]|[Hne Hg]]; lsimp.
    + rewrite Nat.eqb_refl. reflexivity.
    + destruct (Nat.eqb_spec h g); [congruence|]. apply (R2 g kg Hg Ug).
  - intros g kg Hg Ug. assert (Hh' : forall x, held (add_log (set_hs s x) [SvUnreg h]) g = held s g) by (intros; reflexivity).
    apply nth_upd_cases in Hg. destruct Hg as [[-> [-> _]]|[Hne Hg]]; lsimp.
    + rewrite Nat.eqb_refl. simpl. destruct (R3 h k Hn U) as [t T]. exists t. exact T.
    + destruct (Nat.eqb_spec h g); [congruence|]. destruct (R3 g kg Hg Ug) as [t T]. exists t. exact T.
  - intros g kg Hg. apply nth_upd_cases in Hg. destruct Hg as [[-> [-> _]]|[Hne Hg]]; lsimp.
    + apply (R4 h k Hn).
    + apply (R4 g kg Hg).
  - destruct R5 as [t T]. exists t. lsimp. exact T.
Qed.

(* ---------- the read loop reads an envelope ---------- *)
Lemma rstep_read h id st f : rstep h id st (SvRead f) = if fst st && routable id f then (fst st, snd st ++ [f]) else st.
Proof. reflexivity. Qed.

(* ... that is routed to no stream handler and is no unary request *)
Lemma rinv_read_none s s1 f :
  rinv s -> rd_exited s = false -> log s1 = log s ++ [SvRead f] -> hs s1 = hs s ->
  (forall h, held s h = []) -> offered s = [] ->
  (forall h, held s1 h = []) -> offered s1 = [] -> rd_exited s1 = false ->
  is_unary_req f = false ->
  (forall g k, nth_error (hs s) g = Some k -> h_unary k = false -> h_reg k && routable (fid (h_req k)) f = false) ->
  rinv s1.
Proof.
  intros [R1 R2 R3 R4 R5] Hx El Ehs Hh Ho Hh1 Ho1 Hx1 Hu Hnone.
  constructor.
  - intros e g Hin He. rewrite Ehs. rewrite El in Hin. apply in_app_or in Hin. destruct Hin as [Hin | [<- | []]]; [eauto | discriminate].
  - intros g k Hg U. rewrite Ehs in Hg. unfold regflag. rewrite El, rscan_app. simpl.
    fold (regflag g (fid (h_req k)) (log s)). rewrite (R2 g k Hg U), (Hnone g k Hg U). apply (R2 g k Hg U).
  - intros g k Hg U. rewrite Ehs in Hg. unfold routed, settled. rewrite El, rscan_app, flat_map_app. simpl.
    fold (regflag g (fid (h_req k)) (log s)). rewrite (R2 g k Hg U), (Hnone g k Hg U), app_nil_r, Hh1.
    destruct (R3 g k Hg U) as [t [T1 [T2 T3]]]. rewrite Hh in T1. exists t. split; [exact T1|]. split; [|auto].
    destruct T2 as [-> | [E _]]; [left; reflexivity | congruence].
  - intros g k Hg. rewrite Ehs in Hg. unfold fwds, takes. rewrite El, !flat_map_app. simpl. rewrite !app_nil_r. apply (R4 g k Hg).
  - destruct R5 as [t [T1 [T2 T3]]]. exists t. unfold ureads, jobs. rewrite El, !flat_map_app. simpl. rewrite Hu, !app_nil_r, Ho1.
    rewrite Ho in T1. split; [exact T1|]. split; [|auto]. destruct T2 as [-> | [E _]]; [left; reflexivity | congruence].
Qed.

(* ... that is a unary request: it goes on offer *)
Lemma rinv_read_unary s s1 f :
  rinv s -> rd_exited s = false -> log s1 = log s ++ [SvRead f] -> hs s1 = hs s ->
  (forall h, held s h = []) -> offered s = [] -> rd s1 = RdOffer f -> dispatch f = DUnary -> rinv s1.
Proof.
  intros [R1 R2 R3 R4 R5] Hx El Ehs Hh Ho Erd1 Hd.
  assert (Hrt : forall id, routable id f = false) by (intros; unfold routable; now rewrite Hd).
  assert (Hh1 : forall h, held s1 h = []) by (intros; unfold held; now rewrite Erd1).
  constructor.
  - intros e g Hin He. rewrite Ehs. rewrite El in Hin. apply in_app_or in Hin. destruct Hin as [Hin | [<- | []]]; [eauto | discriminate].
  - intros g k Hg U. rewrite Ehs in Hg. unfold regflag. rewrite El, rscan_app. simpl. rewrite Hrt, andb_false_r. apply (R2 g k Hg U).
  - intros g k Hg U. rewrite Ehs in Hg. unfold routed, settled. rewrite El, rscan_app, flat_map_app. simpl.
    rewrite Hrt, andb_false_r, app_nil_r, Hh1.
    destruct (R3 g k Hg U) as [t [T1 [T2 T3]]]. rewrite Hh in T1. exists t. split; [exact T1|]. split; [|auto].
    left. apply (lost_serving s); assumption.
  - intros g k Hg. rewrite Ehs in Hg. unfold fwds, takes. rewrite El, !flat_map_app. simpl. rewrite !app_nil_r. apply (R4 g k Hg).
  - destruct R5 as [t [T1 [T2 T3]]]. assert (t = []) by (apply (lost_serving s); assumption). subst t.
    assert (Eu : is_unary_req f = true) by (unfold is_unary_req; now rewrite Hd).
    exists []. unfold ureads, jobs, offered. rewrite El, !flat_map_app, Erd1. simpl. rewrite Eu.
    rewrite Ho in T1. simpl in T1. rewrite app_nil_r in T1. unfold ureads, jobs in T1. rewrite T1, !app_nil_r.
    split; [reflexivity|]. split; [left; reflexivity | congruence].
Qed.

(* ... that is forwarded to the stream handler registered under its id *)
Lemma rinv_read_fwd nw s s1 f h k :
  inv nw s -> rinv s -> rd_exited s = false -> log s1 = log s ++ [SvRead f] -> hs s1 = hs s ->
  (forall g, held s g = []) -> offered s = [] -> rd s1 = RdFwd h f -> dispatch f = DStream -> is_rst f = false ->
  nth_error (hs s) h = Some k -> h_reg k = true -> fid (h_req k) = fid f -> rinv s1.
Proof.
  intros Iv [R1 R2 R3 R4 R5] Hx El Ehs Hh Ho Erd1 Hd Hrst Hn Hreg Hid.
  assert (Hrt : routable (fid (h_req k)) f = true).
  { unfold routable. rewrite Hd, Hrst, Hid, Z.eqb_refl. reflexivity. }
  assert (Hoth : forall g kg, nth_error (hs s) g = Some kg -> g <> h -> h_reg kg && routable (fid (h_req kg)) f = false).
  { intros g kg Hg Hne. destruct (h_reg kg) eqn:Rg; [|reflexivity]. simpl. unfold routable. rewrite Hd.
    destruct (fid f =? fid (h_req kg)) eqn:E; [|reflexivity]. apply Z.eqb_eq in E. exfalso. apply Hne.
    apply (i_uniq nw s Iv g h kg k Hg Hn Rg Hreg). congruence. }
  assert (Hu : is_unary_req f = false) by (unfold is_unary_req; now rewrite Hd).
  constructor.
  - intros e g Hin He. rewrite Ehs. rewrite El in Hin. apply in_app_or in Hin. destruct Hin as [Hin | [<- | []]]; [eauto | discriminate].
  - intros g kg Hg U. rewrite Ehs in Hg. unfold regflag. rewrite El, rscan_app. simpl.
    destruct (fst (rscan g (fid (h_req kg)) (log s)) && routable (fid (h_req kg)) f); apply (R2 g kg Hg U).
  - intros g kg Hg U. rewrite Ehs in Hg. unfold routed, settled. rewrite El, rscan_app, flat_map_app. simpl. rewrite app_nil_r.
    fold (regflag g (fid (h_req kg)) (log s)). rewrite (R2 g kg Hg U).
    destruct (R3 g kg Hg U) as [t [T1 [T2 T3]]]. assert (t = []) by (apply (lost_serving s); assumption). subst t.
    rewrite Hh in T1. simpl in T1. rewrite app_nil_r in T1. exists []. rewrite app_nil_r.
    destruct (Nat.eq_dec g h) as [->|Hne].
    + assert (kg = k) by congruence. subst kg. rewrite Hreg, Hrt. simpl. unfold routed in T1. rewrite T1.
      rewrite (held_self s1 h f Erd1). split; [reflexivity|]. split; [left; reflexivity | congruence].
    + rewrite (Hoth g kg Hg Hne). rewrite (held_other s1 h f g Erd1 Hne), app_nil_r.
      split; [exact T1|]. split; [left; reflexivity | congruence].
  - intros g kg Hg. rewrite Ehs in Hg. unfold fwds, takes. rewrite El, !flat_map_app. simpl. rewrite !app_nil_r. apply (R4 g kg Hg).
  - destruct R5 as [t [T1 [T2 T3]]]. exists t. unfold ureads, jobs, offered. rewrite El, !flat_map_app, Erd1. simpl. rewrite Hu, !app_nil_r.
    rewrite Ho in T1. split; [exact T1|]. split; [|auto]. left. apply (lost_serving s); assumption.
Qed.

(* ---------- a handler is started: appended to the list, with its invocation event ---------- *)
Lemma rinv_append s s' x u i m p d :
  rinv s -> hs s' = hs s ++ [x] -> log s' = log s ++ [SvInvoke (length (hs s)) u i m p d] ->
  rd s = RdRead -> rd s' = RdRead -> h_q x = None -> (h_unary x = false -> h_reg x = true) -> rinv s'.
Proof.
  intros I Ehs El Erd Erd' Hq Hreg. pose proof (fresh_of_bound s I) as Hf. destruct I as [R1 R2 R3 R4 R5].
  set (n := length (hs s)) in *.
  assert (Hh : forall g, held s g = []) by (intros; unfold held; now rewrite Erd).
  assert (Hh' : forall g, held s' g = []) by (intros; unfold held; now rewrite Erd').
  constructor.
  - intros e g Hin He. rewrite Ehs, app_length. simpl. rewrite El in Hin. apply in_app_or in Hin.
    destruct Hin as [Hin | [<- | []]].
    + pose proof (R1 e g Hin He). lia.
    + simpl in He. inversion He. fold n. lia.
  - intros g k Hg U. rewrite Ehs in Hg. unfold regflag. rewrite El, rscan_app. simpl.
    apply nth_app_new in Hg. destruct Hg as [Hg | [-> ->]].
    + destruct (Nat.eqb_spec n g); [apply nth_error_lt in Hg; lia|]. apply (R2 g k Hg U).
    + fold n. rewrite Nat.eqb_refl. simpl. symmetry. auto.
  - intros g k Hg U. rewrite Ehs in Hg. unfold routed, settled. rewrite El, rscan_app, flat_map_app. simpl. rewrite app_nil_r, Hh'.
    apply nth_app_new in Hg. destruct Hg as [Hg | [-> ->]].
    + destruct (Nat.eqb_spec n g); [apply nth_error_lt in Hg; lia|].
      destruct (R3 g k Hg U) as [t [T1 [T2 T3]]]. rewrite Hh in T1. exists t. split; [exact T1|]. split; [|auto].
      destruct T2 as [-> | [E _]]; [left; reflexivity | unfold rd_exited in E; rewrite Erd in E; discriminate].
    + fold n. rewrite Nat.eqb_refl. simpl. rewrite (rscan_fresh n _ _ Hf). simpl.
      fold (settled n (log s)). rewrite (settled_fresh n _ Hf). exists []. split; [reflexivity|]. split; [left; reflexivity | congruence].
  - intros g k Hg. rewrite Ehs in Hg. unfold fwds, takes. rewrite El, !flat_map_app. simpl. rewrite !app_nil_r.
    apply nth_app_new in Hg. destruct Hg as [Hg | [-> ->]].
    + apply (R4 g k Hg).
    + fold n. fold (fwds n (log s)). fold (takes n (log s)). rewrite (fwds_fresh n _ Hf), (takes_fresh n _ Hf). unfold queue. now rewrite Hq.
  - destruct R5 as [t [T1 [T2 T3]]]. exists t. unfold ureads, jobs, offered in *. rewrite El, !flat_map_app, Erd'. simpl. rewrite !app_nil_r.
    rewrite Erd in T1. split; [exact T1|]. split; [|auto].
    destruct T2 as [-> | [E _]]; [left; reflexivity | unfold rd_exited in E; rewrite Erd in E; discriminate].
Qed.

(* a worker takes the request on offer *)
Lemma rinv_job s s1 w f :
  rinv s -> rd s = RdOffer f -> log s1 = log s ++ [SvJob w f] -> hs s1 = hs s -> rd s1 = RdRead -> rinv s1.
Proof.
  intros [R1 R2 R3 R4 R5] Erd El Ehs Erd1.
  assert (Hx : rd_exited s = false) by (unfold rd_exited; now rewrite Erd).
  assert (Hh : forall g, held s g = []) by (intros; unfold held; now rewrite Erd).
  assert (Hh1 : forall g, held s1 g = []) by (intros; unfold held; now rewrite Erd1).
  constructor.
  - intros e g Hin He. rewrite Ehs. rewrite El in Hin. apply in_app_or in Hin. destruct Hin as [Hin | [<- | []]]; [eauto | discriminate].
  - intros g k Hg U. rewrite Ehs in Hg. unfold regflag. rewrite El, rscan_app. simpl. apply (R2 g k Hg U).
  - intros g k Hg U. rewrite Ehs in Hg. unfold routed, settled. rewrite El, rscan_app, flat_map_app. simpl. rewrite app_nil_r, Hh1.
    destruct (R3 g k Hg U) as [t [T1 [T2 T3]]]. rewrite Hh in T1. exists t. split; [exact T1|]. split; [|auto].
    left. apply (lost_serving s); assumption.
  - intros g k Hg. rewrite Ehs in Hg. unfold fwds, takes. rewrite El, !flat_map_app. simpl. rewrite !app_nil_r. apply (R4 g k Hg).
  - destruct R5 as [t [T1 [T2 T3]]]. assert (t = []) by (apply (lost_serving s); assumption). subst t.
    exists []. unfold ureads, jobs, offered in *. rewrite El, !flat_map_app, Erd1. simpl. rewrite Erd in T1. simpl in T1.
    rewrite T1. split; [rewrite ?app_nil_r, <- ?app_assoc; simpl; rewrite ?app_nil_r; reflexivity|]. split; [left; reflexivity | congruence].
Qed.

Lemma rinv_offer s s' : rinv s -> r_rd_offer s = Some s' -> rinv s'.
Proof.
  intros I H. unfold r_rd_offer in H. destruct (rd s) eqn:Erd; try discriminate.
  destruct (find_idle (wk s) 0) as [w|]; [|discriminate]. inv_some H.
  set (s1 := add_log (set_rd s RdRead) [SvJob w f]).
  assert (I1 : rinv s1) by (apply (rinv_job s s1 w f I Erd); reflexivity).
  unfold start_unary.
  destruct (negb (has_hdr f)); [q_rule I1 s1|].
  destruct (md_bad f); [q_rule I1 s1|].
  destruct (body_tok f <? 0); [q_rule I1 s1|].
  eapply (rinv_append s1 _ (new_unary f) _ _ _ _ _ I1); try reflexivity. discriminate.
Qed.

Lemma rinv_read nw s s' : inv nw s -> rinv s -> r_rd_read s = Some s' -> rinv s'.
Proof.
  intros Iv I H. unfold r_rd_read in H. destruct (rd s) eqn:Erd; try discriminate.
  assert (Hx : rd_exited s = false) by (unfold rd_exited; now rewrite Erd).
  assert (Hh : forall g, held s g = []) by (intros; unfold held; now rewrite Erd).
  assert (Ho : offered s = []) by (unfold offered; now rewrite Erd).
  destruct (inbox s) as [|f rest] eqn:Ei.
  - destr_in H; inv_some H; q_rule I s.
  - set (s0 := add_log (set_inbox s rest) [SvRead f]).
    assert (E0 : rd s0 = RdRead) by exact Erd.
    destruct (dispatch f) eqn:Ed; inv_some H.
    + (* skipped *)
      apply (rinv_read_none s s0 f I Hx); auto; try (unfold is_unary_req; now rewrite Ed).
      intros g k _ _. unfold routable. rewrite Ed. apply andb_false_r.
    + apply (rinv_read_unary s _ f I Hx); auto.
    + assert (Hu : is_unary_req f = false) by (unfold is_unary_req; now rewrite Ed).
      unfold stream_dispatch. fold s0.
      change (hs s0) with (hs s).
      destruct (find_reg (fid f) (hs s) 0) as [h|] eqn:Ef.
      * destruct (find_reg_some _ _ _ _ Ef) as [_ [k [Hn [Hr Hid]]]]. rewrite Nat.sub_0_r in Hn.
        destruct (is_rst f) eqn:Erst.
        -- (* reset for an open stream: cancel; routed to nobody *)
           assert (I0 : rinv s0).
           { apply (rinv_read_none s s0 f I Hx); auto.
             intros g kg _ _. unfold routable. rewrite Ed, Erst. simpl. rewrite !andb_false_r. reflexivity. }
           change (nth_error (hs s0) h) with (nth_error (hs s) h). rewrite Hn.
           apply (rinv_quiet s0 _ [] I0); auto.
           ++ sproj. now rewrite app_nil_r.
           ++ intros e [].
           ++ sproj. apply (map_upd_same rsig h k _ _ Hn). reflexivity.
        -- apply (rinv_read_fwd nw s _ f h k Iv I Hx); auto.
      * assert (Hnone : forall g k, nth_error (hs s) g = Some k -> h_unary k = false -> h_reg k && routable (fid (h_req k)) f = false).
        { intros g k Hg _. destruct (h_reg k) eqn:Rg; [|reflexivity]. simpl. unfold routable. rewrite Ed.
          destruct (fid f =? fid (h_req k)) eqn:E; [|reflexivity]. apply Z.eqb_eq in E. exfalso.
          apply (find_reg_none _ _ _ Ef g k Hg Rg). congruence. }
        assert (I0 : rinv s0) by (apply (rinv_read_none s s0 f I Hx); auto).
        destruct (is_rst f); [exact I0|].
        destruct (has_body f).
        { apply (rinv_read_none s _ f I Hx); auto. }
        destruct (has_trl f); [exact I0|].
        destruct (md_bad f).
        { apply (rinv_read_none s _ f I Hx); auto. }
        eapply (rinv_append s0 _ (new_stream f) _ _ _ _ _ I0); try reflexivity; auto.
Qed.

Theorem rinv_int nw s i s' : inv nw s -> rinv s -> rule_of i s = Some s' -> rinv s'.
Proof.
  intros Iv I H. destruct i; simpl in H.
  all: try (start_rule H; q_rule I s; fail).
  - eapply rinv_read; eassumption.
  - eapply rinv_offer; eassumption.
  - eapply (rinv_exits s RRdOfferCtx); [exact Logic.I | eassumption | exact H].
  - eapply rinv_fwd_enq; eassumption.
  - eapply rinv_fwd_gone; eassumption.
  - eapply (rinv_exits s RRdFwdCctx); [exact Logic.I | eassumption | exact H].
  - eapply (rinv_exits s RRdFwdHctx); [exact Logic.I | eassumption | exact H].
  - eapply rinv_recv; eassumption.
  - eapply rinv_unreg; eassumption.
Qed.

Theorem rinv_reach nw ls s : lrun (init_n nw) ls = Some s -> rinv s.
Proof.
  intros H. assert (G : inv nw s /\ rinv s).
  { revert H. apply (lrun_inv (fun s => inv nw s /\ rinv s)).
    - intros s0 a [I1 I2]. split; [now apply inv_ext | now apply rinv_ext].
    - intros s0 i s1 [I1 I2] Hr. split; [eapply inv_int; eassumption | eapply rinv_int; eassumption].
    - split; [apply inv_init | apply rinv_init]. }
  apply G.
Qed.

(* ---------- the theorems ---------- *)
Theorem srv_route_exact nw ls s : lrun (init_n nw) ls = Some s ->
  forall h k, nth_error (hs s) h = Some k -> h_unary k = false ->
    (exists tail, routed h (fid (h_req k)) (log s) = settled h (log s) ++ held s h ++ tail
                  /\ (tail = [] \/ (rd_exited s = true /\ exists f, tail = [f])))
    /\ fwds h (log s) = takes h (log s) ++ queue k
    /\ regflag h (fid (h_req k)) (log s) = h_reg k.
Proof.
  intros H h k Hn U. pose proof (rinv_reach nw ls s H) as I.
  destruct (r_route s I h k Hn U) as [t [T1 [T2 _]]].
  split; [exists t; auto|]. split; [apply (r_queue s I h k Hn) | apply (r_reg s I h k Hn U)].
Qed.

(* while the read loop serves nothing is lost: routed = settled ++ held, exactly *)
Corollary srv_route_exact_serving nw ls s : lrun (init_n nw) ls = Some s -> rd_exited s = false ->
  forall h k, nth_error (hs s) h = Some k -> h_unary k = false ->
    routed h (fid (h_req k)) (log s) = settled h (log s) ++ held s h.
Proof.
  intros H Hx h k Hn U. destruct (srv_route_exact nw ls s H h k Hn U) as [[t [T1 T2]] _].
  destruct T2 as [-> | [E _]]; [now rewrite app_nil_r in T1 | congruence].
Qed.

Theorem srv_unary_once nw ls s : lrun (init_n nw) ls = Some s ->
  exists tail, ureads (log s) = jobs (log s) ++ offered s ++ tail
               /\ (tail = [] \/ (rd_exited s = true /\ exists f, tail = [f])).
Proof.
  intros H. destruct (r_unary s (rinv_reach nw ls s H)) as [t [T1 [T2 _]]]. exists t. auto.
Qed.

Corollary srv_unary_once_serving nw ls s : lrun (init_n nw) ls = Some s -> rd_exited s = false ->
  ureads (log s) = jobs (log s) ++ offered s.
Proof.
  intros H Hx. destruct (srv_unary_once nw ls s H) as [t [T1 T2]].
  destruct T2 as [-> | [E _]]; [now rewrite app_nil_r in T1 | congruence].
Qed.

(* no event is about a handler that does not exist *)
Theorem srv_route_nobody nw ls s : lrun (init_n nw) ls = Some s ->
  forall h id, (length (hs s) <= h)%nat -> routed h id (log s) = [] /\ settled h (log s) = [] /\ takes h (log s) = [].
Proof.
  intros H h id Hh. pose proof (rinv_reach nw ls s H) as I.
  assert (Hf : fresh h (log s)).
  { intros e g Hin He. pose proof (r_bound s I e g Hin He). lia. }
  unfold routed. rewrite (rscan_fresh h id _ Hf). split; [reflexivity|]. split; [apply settled_fresh | apply takes_fresh]; assumption.
Qed.

(* (T) for the client model: a measure that every internal rule strictly
   decreases. Hence every run of internal rules is finite, and from every state
   a quiescent state is reached by internal rules alone (no live-lock). *)
From Coq Require Import List ZArith Bool Lia Arith.
Import ListNotations.
From Goat Require Import Model.Client Proofs.ClientBase.
Local Open Scope nat_scope.

Definition pc_rank (p : cpc) : nat :=
  match p with PCheck _ => 5 | PParked => 4 | PReg => 3 | PWait => 2 | PUnreg _ => 1 | POpenUnreg _ => 1 | _ => 0 end.
Definition loop_rank (l : slpc) : nat :=
  match l with LRead => 4 | LHand _ => 3 | LExit => 2 | LTdUnreg => 1 | LDead => 0 end.
Definition recv_rank (r : rpc) : nat :=
  match r with RCheck _ => 5 | RParked => 4 | RSel => 3 | RFinal => 1 | RNone => 0 end.
Definition opc_rank (o : opc) : nat := match o with OPending => 1 | ONone => 0 end.
Definition buf_rank (c : chan) : nat := match cbuf c with Some _ => 6 | None => 0 end.

Definition call_weight (k : call) : nat :=
  5 * pc_rank (k_pc k) + loop_rank (s_loop k) + recv_rank (s_recv k) + length (s_sendq k)
  + opc_rank (s_header k) + opc_rank (s_trailerq k) + buf_rank (k_chan k).

Definition rl_rank (r : rlpc) : nat := match r with RLDead => 0 | RLRead => 1 | RLHold _ _ => 8 end.

Fixpoint sum_weight (ks : list call) : nat :=
  match ks with [] => 0 | k :: t => call_weight k + sum_weight t end.

Definition mu (s : state) : nat := 8 * length (inbox s) + rl_rank (rl s) + sum_weight (calls s).

Lemma sum_upd ks c k k' :
  nth_error ks c = Some k -> sum_weight (upd c k' ks) + call_weight k = sum_weight ks + call_weight k'.
Proof.
  revert c. induction ks; destruct c; simpl; intros H; try discriminate.
  - inversion H; subst. lia.
  - specialize (IHks _ H). lia.
Qed.

Lemma sum_close_all ks : sum_weight (close_all ks) = sum_weight ks.
Proof.
  induction ks; simpl; auto. rewrite IHks. f_equal. destruct (k_reg a); auto.
Qed.

Lemma mu_upd_lt s s' c k k' :
  nth_error (calls s) c = Some k -> calls s' = upd c k' (calls s) -> inbox s' = inbox s -> rl s' = rl s ->
  call_weight k' < call_weight k -> mu s' < mu s.
Proof.
  intros Hn Hc Hi Hr Hw. unfold mu. rewrite Hc, Hi, Hr. pose proof (sum_upd _ _ _ k' Hn). lia.
Qed.

Ltac weight_lt k :=
  destruct k as [ku kp kpc kid kch kreg kctx sl sc sla srch sd sre str lre ltr lht lab srv shd ssq stq];
  unfold call_weight, buf_rank; csimpl; subst; csimpl;
  repeat match goal with E : cbuf ?ch = _ |- _ => rewrite E end;
  repeat match goal with |- context [if ?b then _ else _] => is_var b; destruct b; csimpl end;
  repeat match goal with |- context [match cbuf ?ch with _ => _ end] => is_var ch; destruct (cbuf ch) eqn:?; csimpl end;
  simpl; first [lia | congruence].

Ltac mu_call :=
  match goal with
  | E : nth_error (calls ?s) ?c = Some ?k |- mu ?s' < mu ?s =>
      let cs := eval cbn [calls set_call add_log] in (calls s') in
      let k' := match cs with upd _ ?x _ => x end in
      apply (mu_upd_lt s s' c k k' E); [reflexivity | reflexivity | reflexivity | weight_lt k]
  end.

Lemma mu_step s r s' : In r (rules s) -> r s = Some s' -> mu s' < mu s.
Proof.
  intros Hin H. apply rules_in in Hin. destruct Hin as [->|[->|(c & _ & Hin)]].
  - unfold r_rl_unblock in H. open_rule H.
    + unfold mu; csimpl. rewrite E. simpl. lia.
    + unfold mu; csimpl. rewrite E. pose proof (sum_upd _ _ _ (set_chan c0 {| cbuf := Some e; cclosed := cclosed (k_chan c0) |} (k_reg c0)) E0) as Hs.
      revert Hs. unfold call_weight, buf_rank; csimpl. rewrite E1. simpl. lia.
  - unfold r_rl_read in H. open_rule H.
    + unfold mu; csimpl. rewrite E, E0, sum_close_all. simpl. lia.
    + unfold mu; csimpl. rewrite E, E0. simpl. lia.
    + unfold mu; csimpl. rewrite E, E0. simpl length.
      match goal with E2 : nth_error (calls s) ?n = Some ?k |- _ =>
        pose proof (sum_upd _ _ _ (set_chan k {| cbuf := Some e; cclosed := false |} true) E2) as Hs end.
      revert Hs. unfold call_weight, buf_rank; csimpl. rewrite E3. simpl. lia.
    + unfold mu; csimpl. rewrite E, E0. simpl. lia.
  - simpl in Hin. destruct Hin as [<-|[<-|[<-|[<-|[<-|[<-|[<-|[<-|[<-|[<-|[<-|[<-|[<-|[<-|[<-|[]]]]]]]]]]]]]]]].
    + unfold r_check in H. open_rule H; mu_call.
    + unfold r_reg in H. open_rule H; mu_call.
    + unfold r_wait in H. open_rule H; mu_call.
    + unfold r_wait_ctx in H. open_rule H; mu_call.
    + unfold r_unreg in H. open_rule H; mu_call.
    + unfold r_loop_read in H. open_rule H; mu_call.
    + unfold r_loop_read_ctx in H. open_rule H; mu_call.
    + unfold r_loop_hand in H. open_rule H; mu_call.
    + unfold r_loop_hand_ctx in H. open_rule H; mu_call.
    + unfold r_loop_exit in H. open_rule H; mu_call.
    + unfold r_loop_unreg in H. open_rule H; mu_call.
    + unfold r_recv in H. open_rule H; mu_call.
    + unfold r_header in H. open_rule H; mu_call.
    + unfold r_trailer in H. open_rule H; mu_call.
    + unfold r_send in H. open_rule H; mu_call.
Qed.

Lemma C09_measure_l s n s' : lstep s (LInt n) = Some s' -> mu s' < mu s.
Proof.
  simpl. destruct (nth_error (rules s) n) eqn:E; try discriminate. intros H.
  eapply mu_step; eauto. eapply nth_error_In; eauto.
Qed.

(* every run of internal rules is finite: its length is bounded by the measure of its first state *)
Lemma C09_terminates_l s ns s' : lrun s (map LInt ns) = Some s' -> length ns + mu s' <= mu s.
Proof.
  revert s. induction ns; simpl; intros s H.
  - inversion H; subst. lia.
  - destruct (nth_error (rules s) a) eqn:E; try discriminate. destruct (r s) eqn:Er; try discriminate.
    assert (mu s0 < mu s) by (eapply mu_step; eauto; eapply nth_error_In; eauto).
    specialize (IHns _ H). lia.
Qed.

Lemma first_enabled_some rs s s' : first_enabled rs s = Some s' -> exists n r, nth_error rs n = Some r /\ r s = Some s'.
Proof.
  induction rs; simpl; intros H; try discriminate.
  destruct (a s) eqn:E.
  - inversion H; subst. exists 0, a. auto.
  - destruct (IHrs H) as (n & r & Hn & Hr). exists (S n), r. auto.
Qed.

Lemma not_quiescent_step s : quiescent s = false -> exists n s', lstep s (LInt n) = Some s'.
Proof.
  unfold quiescent. destruct (first_enabled (rules s) s) eqn:E; try discriminate. intros _.
  destruct (first_enabled_some _ _ _ E) as (n & r & Hn & Hr). exists n, s0. simpl. rewrite Hn. auto.
Qed.

(* a run that cannot be extended by an internal rule ends in a quiescent state *)
Lemma maximal_quiescent_l s : (forall n, lstep s (LInt n) = None) -> quiescent s = true.
Proof.
  intros H. destruct (quiescent s) eqn:E; auto. destruct (not_quiescent_step _ E) as (n & s' & Hs). rewrite H in Hs. discriminate.
Qed.

(* from every state internal rules alone lead to a quiescent state, within [mu s] steps *)
Lemma C09_reaches_quiescent_l s : exists ns s', lrun s (map LInt ns) = Some s' /\ quiescent s' = true /\ length ns <= mu s.
Proof.
  remember (mu s) as m eqn:Hm. revert s Hm. induction m as [m IH] using lt_wf_ind. intros s Hm.
  destruct (quiescent s) eqn:Eq.
  - exists [], s. simpl. repeat split; auto. lia.
  - destruct (not_quiescent_step _ Eq) as (n & s1 & Hs). pose proof (C09_measure_l _ _ _ Hs) as Hlt.
    destruct (IH (mu s1) ltac:(lia) s1 eq_refl) as (ns & s' & Hr & Hq & Hl).
    exists (n :: ns), s'. split; [|split]; auto.
    + change (map LInt (n :: ns)) with (LInt n :: map LInt ns). simpl lrun. simpl in Hs. rewrite Hs. auto.
    + simpl. lia.
Qed.

(* C07 / C11, server half, on Model/Server.v: a reset for a registered stream cancels
   that handler's context for good; a handler whose context is done is not blocked in
   any quiescent state; the read loop is held only by a live handler's full queue
   (back-pressure) or by the writer; a handler that has returned is never kept from
   unregistering by a dead consumer. *)
From Coq Require Import List ZArith Bool Lia Arith.
Import ListNotations.
From Goat Require Import Model.Client Model.Server Proofs.ServerProofs Proofs.ServerInv.
Open Scope Z_scope.

(* ---------- quiescence ---------- *)
Lemma first_enabled_none rs s : first_enabled rs s = None -> forall r, In r rs -> r s = None.
Proof.
  induction rs as [|a rs IH]; simpl; intros H r Hin; [tauto|].
  destruct (a s) eqn:E; try discriminate. destruct Hin as [<-|Hin]; auto.
Qed.

Lemma q_none s r : quiescent s = true -> In r (rules s) -> r s = None.
Proof.
  unfold quiescent. intros H Hin. destruct (first_enabled (rules s) s) eqn:E; try discriminate.
  eapply first_enabled_none; eauto.
Qed.

(* ---------- handler records only grow; cancellation is for good ---------- *)
Definition hmono (s s' : state) : Prop :=
  forall h k, nth_error (hs s) h = Some k ->
    exists k', nth_error (hs s') h = Some k' /\ (h_cancel k = true -> h_cancel k' = true) /\
               h_req k' = h_req k /\ h_unary k' = h_unary k.

Lemma hmono_refl s s' : hs s' = hs s -> hmono s s'.
Proof. intros E h k Hn. exists k. rewrite E. auto. Qed.

Lemma hmono_upd s s' g k0 k' :
  nth_error (hs s) g = Some k0 -> hs s' = upd g k' (hs s) ->
  (h_cancel k0 = true -> h_cancel k' = true) -> h_req k' = h_req k0 -> h_unary k' = h_unary k0 -> hmono s s'.
Proof.
  intros Hg E C R U h k Hn. rewrite E. destruct (Nat.eq_dec g h).
  - subst. rewrite Hn in Hg. inversion Hg; subst. exists k'. rewrite nth_upd_same by (eapply nth_error_lt; eauto). auto.
  - exists k. rewrite nth_upd_other; auto.
Qed.

Lemma hmono_app s s' x : hs s' = hs s ++ [x] -> hmono s s'.
Proof. intros E h k Hn. exists k. rewrite E. rewrite nth_error_app1; eauto using nth_error_lt. Qed.

Lemma hmono_trans a b c : hmono a b -> hmono b c -> hmono a c.
Proof.
  intros H1 H2 h k Hn. destruct (H1 _ _ Hn) as (k1 & N1 & C1 & R1 & U1). destruct (H2 _ _ N1) as (k2 & N2 & C2 & R2 & U2).
  exists k2. repeat split; auto; congruence.
Qed.

Lemma hstep_mono s h k o : nth_error (hs s) h = Some k -> hmono s (hstep s h k o).
Proof.
  intros Hn. unfold hstep.
  destruct (h_unary k), o; try destruct (h_hsent k); sproj;
    try (apply hmono_refl; reflexivity);
    try (eapply (hmono_upd s _ h k); [exact Hn | reflexivity | simpl; auto | reflexivity | reflexivity]).
Qed.

Lemma hmono_ext s a : hmono s (ext s a).
Proof.
  destruct a; simpl; try (apply hmono_refl; reflexivity).
  destruct (nth_error (hs s) h) as [k|] eqn:E; [|apply hmono_refl; reflexivity].
  destruct (h_pc k); try (apply hmono_refl; reflexivity). apply hstep_mono; auto.
Qed.

Lemma stream_dispatch_mono s f : hmono s (stream_dispatch s f).
Proof.
  unfold stream_dispatch. destruct (find_reg (fid f) (hs s) 0) as [g|].
  - destruct (is_rst f).
    + destruct (nth_error (hs s) g) as [k|] eqn:E; [|apply hmono_refl; reflexivity].
      eapply (hmono_upd s _ g k); [exact E | reflexivity | simpl; auto | reflexivity | reflexivity].
    + apply hmono_refl; reflexivity.
  - destruct (is_rst f); [apply hmono_refl; reflexivity|].
    destruct (has_body f); [apply hmono_refl; reflexivity|].
    destruct (has_trl f); [apply hmono_refl; reflexivity|].
    destruct (md_bad f); [apply hmono_refl; reflexivity|].
    eapply hmono_app. sproj. reflexivity.
Qed.

Ltac mono_fin :=
  first [ apply hmono_refl; reflexivity
        | match goal with Hn : nth_error (hs ?s) ?h = Some ?k |- hmono ?s _ =>
            eapply (hmono_upd s _ h k); [exact Hn | sproj; reflexivity | simpl; auto | reflexivity | reflexivity]
          end ].

Lemma hmono_int s i s' : rule_of i s = Some s' -> hmono s s'.
Proof.
  intros H. destruct i; simpl in H.
  all: try (start_rule H; sproj; mono_fin; fail).
  - (* r_rd_read *)
    unfold r_rd_read in H. destruct (rd s); try discriminate. destruct (inbox s) as [|f rest].
    + destr_in H; inv_some H; sproj; apply hmono_refl; reflexivity.
    + destruct (dispatch f); inv_some H; try (apply hmono_refl; reflexivity).
      eapply hmono_trans; [|apply stream_dispatch_mono]. apply hmono_refl; reflexivity.
  - (* r_rd_offer *)
    unfold r_rd_offer in H. destruct (rd s); try discriminate. destruct (find_idle (wk s) 0); try discriminate. inv_some H.
    unfold start_unary. destruct (negb (has_hdr f)); [apply hmono_refl; reflexivity|].
    destruct (md_bad f); [apply hmono_refl; reflexivity|]. destruct (body_tok f <? 0); [apply hmono_refl; reflexivity|].
    eapply hmono_app. sproj. reflexivity.
  - (* r_h_unreg *)
    unfold r_h_unreg in H. destruct (nth_error (hs s) h) as [k|] eqn:E; try discriminate.
    destruct (h_pc k); try discriminate. destruct (mu_free s); try discriminate.
    assert (M1 : hmono s (set_h s h (hset_pc k HDead))).
    { eapply (hmono_upd s _ h k); [exact E | reflexivity | simpl; auto | reflexivity | reflexivity]. }
    destruct (find_reg (fid (h_req k)) (hs (set_h s h (hset_pc k HDead))) 0) as [g|]; [|inv_some H; exact M1].
    destruct (nth_error (hs (set_h s h (hset_pc k HDead))) g) as [kg|] eqn:Eg; inv_some H; [|exact M1].
    eapply hmono_trans; [exact M1|].
    eapply (hmono_upd _ _ g kg); [exact Eg | reflexivity | simpl; auto | reflexivity | reflexivity].
Qed.

Definition hcanc (s : state) (h : nat) : Prop := exists k, nth_error (hs s) h = Some k /\ h_cancel k = true.

Lemma hcanc_mono s s' h : hmono s s' -> hcanc s h -> hcanc s' h.
Proof. intros M (k & Hn & Hc). destruct (M _ _ Hn) as (k' & N & C & _). exists k'. auto. Qed.

Lemma hcanc_stable ls : forall s s' h, lrun s ls = Some s' -> hcanc s h -> hcanc s' h.
Proof.
  induction ls as [|l t IH]; simpl; intros s s' h H Hc.
  - inversion H; subst; auto.
  - destruct (lstep s l) as [s1|] eqn:E; try discriminate. apply (IH s1); auto.
    destruct l as [a|n]; simpl in E.
    + inversion E; subst. eapply hcanc_mono; [apply hmono_ext|auto].
    + destruct (nth_error (rules s) n) as [r|] eqn:En; try discriminate.
      apply nth_error_In in En. apply rules_cases in En. destruct En as [i ->].
      eapply hcanc_mono; [eapply hmono_int; eauto|auto].
Qed.

(* reading a reset for a registered stream cancels that stream's handler *)
Lemma reset_read_cancels s s' f rest h :
  rd s = RdRead -> inbox s = f :: rest -> dispatch f = DStream -> is_rst f = true ->
  find_reg (fid f) (hs s) 0 = Some h -> r_rd_read s = Some s' -> hcanc s' h.
Proof.
  intros Hr Hi Hd Hrst Hf H. unfold r_rd_read in H. rewrite Hr, Hi, Hd in H. inv_some H.
  unfold stream_dispatch. sproj. rewrite Hf, Hrst.
  apply find_reg_some in Hf. destruct Hf as (Hle & k & Hn & _). rewrite Nat.sub_0_r in Hn.
  rewrite Hn. sproj. exists (hset_cancel k). split; [cbn [hs]; apply nth_upd_same; eapply nth_error_lt; eauto | reflexivity].
Qed.


(* after the read loop has read a reset for a registered stream the handler's context is done in every later state *)
Lemma C07_reset_cancels_l s s' f rest h ls s2 :
  rd s = RdRead -> inbox s = f :: rest -> dispatch f = DStream -> is_rst f = true ->
  find_reg (fid f) (hs s) 0 = Some h -> r_rd_read s = Some s' -> lrun s' ls = Some s2 ->
  exists k, nth_error (hs s2) h = Some k /\ hdone s2 k = true.
Proof.
  intros Hr Hi Hd Hrst Hf H1 H2. pose proof (reset_read_cancels _ _ _ _ _ Hr Hi Hd Hrst Hf H1) as Hc.
  destruct (hcanc_stable _ _ _ _ H2 Hc) as (k & Hn & Hk). exists k. split; auto. unfold hdone. rewrite Hk. reflexivity.
Qed.

(* ---------- (Q) a handler whose context is done is not parked in an operation ---------- *)
Lemma C07_handler_unblocks_l s h k :
  quiescent s = true -> nth_error (hs s) h = Some k -> hdone s k = true -> h_blocked k = false.
Proof.
  intros Hq Hn Hd. pose proof (nth_error_lt _ _ _ Hn) as Hlt. unfold h_blocked.
  destruct (h_pc k) eqn:Ep; auto; exfalso.
  - pose proof (q_none s (r_h_recv_ctx h) Hq (rules_h s h r_h_recv_ctx Hlt ltac:(simpl; tauto))) as Hr.
    unfold r_h_recv_ctx in Hr. rewrite Hn, Ep, Hd in Hr. discriminate.
  - pose proof (q_none s (r_h_send_ctx h) Hq (rules_h s h r_h_send_ctx Hlt ltac:(simpl; tauto))) as Hr.
    unfold r_h_send_ctx in Hr. rewrite Hn, Ep, Hd in Hr. destruct k0; discriminate.
  - pose proof (q_none s (r_h_await h) Hq (rules_h s h r_h_await Hlt ltac:(simpl; tauto))) as Hr.
    unfold r_h_await in Hr. rewrite Hn, Ep, Hd in Hr. discriminate.
Qed.

(* ---------- (Q) what can hold the read loop ---------- *)
(* in a quiescent state a read loop that is forwarding is held by a registered stream whose handler's context is
   live and whose queue is full: back-pressure by a live consumer, never a dead one *)
Lemma C11_srv_held_l nw ls s h f :
  lrun (init_n nw) ls = Some s -> quiescent s = true -> rd s = RdFwd h f ->
  exists k, nth_error (hs s) h = Some k /\ h_reg k = true /\ hdone s k = false /\ h_q k <> None /\
            cctx_done s = false /\ hctx_done s = false.
Proof.
  intros H Hq Hr. pose proof (inv_reach _ _ _ H) as Iv. pose proof (i_rd _ _ Iv) as Hok. rewrite Hr in Hok.
  destruct Hok as (k & Hn & Hreg & _). exists k. split; auto. split; auto.
  pose proof (q_none s r_rd_fwd_gone Hq (rules_fixed s RRdFwdGone I)) as H1.
  pose proof (q_none s r_rd_fwd_enq Hq (rules_fixed s RRdFwdEnq I)) as H2.
  pose proof (q_none s r_rd_fwd_cctx Hq (rules_fixed s RRdFwdCctx I)) as H3.
  pose proof (q_none s r_rd_fwd_hctx Hq (rules_fixed s RRdFwdHctx I)) as H4.
  unfold r_rd_fwd_gone in H1. unfold r_rd_fwd_enq in H2. unfold r_rd_fwd_cctx in H3. unfold r_rd_fwd_hctx in H4.
  rewrite Hr in *. rewrite Hn in *.
  split. { destruct (hdone s k); auto; discriminate. }
  split. { destruct (h_q k); congruence. }
  split. { destruct (cctx_done s); auto; discriminate. }
  destruct (hctx_done s); auto; discriminate.
Qed.

(* a stream handler that has returned (its trailer handed over or given up) unregisters: in a quiescent state it
   is parked before unregisterStream only while the read loop holds the registry lock for ANOTHER, live stream
   (back-pressure) or while handing a reset to the writer *)
Lemma C11_srv_returned_l nw ls s g kg :
  lrun (init_n nw) ls = Some s -> quiescent s = true -> nth_error (hs s) g = Some kg -> h_pc kg = HUnreg ->
  (exists h f k, rd s = RdFwd h f /\ h <> g /\ nth_error (hs s) h = Some k /\ hdone s k = false /\ h_q k <> None) \/
  (exists f, rd s = RdRst f).
Proof.
  intros H Hq Hn Hp. pose proof (nth_error_lt _ _ _ Hn) as Hlt.
  pose proof (q_none s (r_h_unreg g) Hq (rules_h s g r_h_unreg Hlt ltac:(simpl; tauto))) as Hr.
  unfold r_h_unreg in Hr. rewrite Hn, Hp in Hr.
  destruct (mu_free s) eqn:Em.
  - exfalso. revert Hr. cbv zeta.
    repeat match goal with |- context [match ?x with _ => _ end] => destruct x end; discriminate.
  - unfold mu_free in Em. destruct (rd s) eqn:Erd; try discriminate.
    + left. destruct (C11_srv_held_l _ _ _ _ _ H Hq Erd) as (k & Hk & Hreg & Hd & Hqf & _).
      exists h, f, k. repeat split; auto. intros ->. rewrite Hn in Hk. inversion Hk; subst k.
      pose proof (inv_reach _ _ _ H) as Iv. destruct (i_h _ _ Iv _ _ Hn) as (_ & _ & K3 & _).
      unfold hdone in Hd. rewrite (K3 Hp) in Hd. discriminate.
    + right. eauto.
Qed.

(* everything delivered has been read unless the read loop is held or has left *)
Lemma C07_srv_all_read_l s : quiescent s = true -> rd s = RdRead -> inbox s = [] /\ inbox_failed s = false /\ hctx_done s = false.
Proof.
  intros Hq Hr. pose proof (q_none s r_rd_read Hq (rules_fixed s RRdRead I)) as H1.
  unfold r_rd_read in H1. rewrite Hr in H1. destruct (inbox s) as [|f rest].
  - split; auto. destruct (inbox_failed s); try discriminate. destruct (hctx_done s); try discriminate. auto.
  - exfalso. destruct (dispatch f); discriminate.
Qed.

(* The lemmas the theorems of Props/C05.v, C09.v, C13.v are closed with:
   consequences of the invariants of ClientInv.v / ClientLog.v. *)
From Coq Require Import List ZArith Bool Lia Arith.
Import ListNotations.
From Goat Require Import Model.Client Proofs.ClientBase Proofs.ClientInv Proofs.ClientLog Proofs.ClientLive.
Open Scope Z_scope.

Definition two64 : Z := 18446744073709551616.

(* the id a call puts on the wire: the 64-bit counter value *)
Definition wire_id (k : call) : Z := k_id k mod two64.

(* ---------- C05: ids ---------- *)
Lemma C05_unique_l ls s : lrun init ls = Some s -> counter s < two64 ->
  forall c1 c2 k1 k2, nth_error (calls s) c1 = Some k1 -> nth_error (calls s) c2 = Some k2 -> c1 <> c2 ->
    0 < k_id k1 -> wire_id k1 <> wire_id k2.
Proof.
  intros H Hc c1 c2 k1 k2 H1 H2 Hne Hpos. apply all_inv_reach in H. destruct H as (HI & HS & HL).
  pose proof (si_id_le _ HS _ _ H1). pose proof (si_id_le _ HS _ _ H2).
  pose proof (ki_id0 _ (cinv_call _ _ _ HI H1)). pose proof (ki_id0 _ (cinv_call _ _ _ HI H2)).
  unfold wire_id. rewrite !Z.mod_small by (unfold two64 in *; lia). eapply (si_id_uniq _ HS); eauto.
Qed.

Lemma C05_counter_l ls s : lrun init ls = Some s ->
  forall c k, nth_error (calls s) c = Some k -> 0 <= k_id k <= counter s.
Proof.
  intros H c k Hn. apply all_inv_reach in H. destruct H as (HI & HS & HL).
  split. apply (ki_id0 _ (cinv_call _ _ _ HI Hn)). apply (si_id_le _ HS _ _ Hn).
Qed.

(* every id on the wire belongs to exactly one call *)
Lemma C05_wire_l ls s : lrun init ls = Some s ->
  forall e, In (EvWrite e) (log s) ->
    exists c k, nth_error (calls s) c = Some k /\ k_id k = eid e /\ 0 < eid e /\
                forall c' k', nth_error (calls s) c' = Some k' -> k_id k' = eid e -> c' = c.
Proof.
  intros H e Hin. apply all_inv_reach in H. destruct H as (HI & HS & HL).
  destruct (li_ev _ HL _ Hin) as (c & k & Hn & Hid & Hpos). exists c, k. repeat split; auto.
  intros c' k' Hn' Hid'. destruct (Nat.eq_dec c' c); auto. exfalso.
  eapply (si_id_uniq _ HS c c' k k'); eauto. lia. congruence.
Qed.

(* a registered call is the one the read loop finds under its id: no other call shadows it *)
Lemma find_reg_first id ks n c k :
  nth_error ks c = Some k -> k_reg k = true -> k_id k = id -> exists c', find_reg id ks n = Some c' /\ (c' <= n + c)%nat.
Proof.
  revert n c. induction ks; intros n c Hn Hr Hid; destruct c; simpl in *; try discriminate.
  - inversion Hn; subst a. rewrite Hr. rewrite Hid, Z.eqb_refl. simpl. exists n. split; auto. lia.
  - destruct (k_reg a && (k_id a =? id)).
    + exists n. split; auto. lia.
    + destruct (IHks (S n) c Hn Hr Hid) as (c' & Hf & Hle). exists c'. split; auto. lia.
Qed.

Lemma C05_found_l ls s : lrun init ls = Some s ->
  forall c k, nth_error (calls s) c = Some k -> k_reg k = true -> find_reg (k_id k) (calls s) 0 = Some c.
Proof.
  intros H c k Hn Hr. apply all_inv_reach in H. destruct H as (HI & HS & HL).
  destruct (find_reg_first (k_id k) (calls s) 0 c k Hn Hr eq_refl) as (c' & Hf & _).
  rewrite Hf. f_equal. destruct (find_reg0_some _ _ _ Hf) as (k' & Hn' & Hr' & Hid').
  destruct (Nat.eq_dec c' c); auto. exfalso.
  assert (Hpos : 0 < k_id k) by (apply (was_reg_pos _ (cinv_call _ _ _ HI Hn)); unfold was_reg; rewrite Hr; auto).
  eapply (si_id_uniq _ HS c c' k k'); eauto.
Qed.

(* ---------- C05 / C09 / C13: routing and honesty ---------- *)
(* an envelope the read loop routed to call c carries c's id; an envelope with an id nobody is registered
   under is logged as unhandled (and, being routed to nobody, taken by nobody: see C05_take_l) *)
Lemma C05_read_l ls s : lrun init ls = Some s ->
  forall e, (forall c, In (EvRead e (Some c)) (log s) -> exists k, nth_error (calls s) c = Some k /\ k_id k = eid e /\ 0 < eid e) /\
            (In (EvRead e None) (log s) -> In (EvUnhandled (eid e)) (log s)).
Proof.
  intros H e. apply all_inv_reach in H. destruct H as (HI & HS & HL). split.
  - intros c Hin. apply (li_ev _ HL _ Hin).
  - intros Hin. apply (li_ev _ HL _ Hin).
Qed.

(* whatever a call takes from its queue was read from the transport, routed to this call, and carries its id *)
Lemma C05_take_l ls s : lrun init ls = Some s ->
  forall c e, In (EvTake c e) (log s) ->
    In (EvRead e (Some c)) (log s) /\ exists k, nth_error (calls s) c = Some k /\ k_id k = eid e /\ 0 < eid e.
Proof.
  intros H c e Hin. apply all_inv_reach in H. destruct H as (HI & HS & HL).
  destruct (li_ev _ HL _ Hin) as [Ho Hr]. split; auto.
Qed.

(* what is still queued for a call, or held for it by the read loop, carries its id *)
Lemma C05_queue_l ls s : lrun init ls = Some s ->
  (forall c k e, nth_error (calls s) c = Some k -> cbuf (k_chan k) = Some e -> eid e = k_id k /\ In (EvRead e (Some c)) (log s)) /\
  (forall c e, rl s = RLHold c e -> In (EvRead e (Some c)) (log s) /\ exists k, nth_error (calls s) c = Some k /\ k_id k = eid e).
Proof.
  intros H. apply all_inv_reach in H. destruct H as (HI & HS & HL). split.
  - intros c k e Hn Hb. destruct (li_buf _ HL _ _ _ Hn Hb) as (A & B & C). auto.
  - intros c e Hh. split. apply (li_hold _ HL _ _ Hh). destruct (si_hold _ HS _ _ Hh) as (k & Hn & _ & Hid). eauto.
Qed.

(* honesty / non-interference: a success reported to call c carries data that an envelope taken by c - hence
   read from the transport with c's id and routed to c - carried *)
Definition backed (s : state) (c : nat) (b : Z) : Prop :=
  exists e k, In (EvTake c e) (log s) /\ In (EvRead e (Some c)) (log s) /\ ebody e = Some b /\
              nth_error (calls s) c = Some k /\ eid e = k_id k.

Lemma honest_l ls s : lrun init ls = Some s ->
  (forall c b, In (EvUnaryRet c (UOk b)) (log s) -> backed s c b) /\
  (forall c b, In (EvRecvRet c (RMsg b)) (log s) -> backed s c b).
Proof.
  intros H. pose proof (C05_take_l _ _ H) as HT. apply all_inv_reach in H. destruct H as (HI & HS & HL).
  split; intros c b Hin; destruct (li_ev _ HL _ Hin) as (e & He & Hb);
    destruct (HT _ _ He) as (Hr & k & Hn & Hid & _); exists e, k; repeat split; auto.
Qed.

(* ---------- C13: no panic ---------- *)
Lemma C13_no_panic_l ls s : lrun init ls = Some s -> forall c, ~ In (EvPanic c) (log s).
Proof.
  intros H c Hin. apply all_inv_reach in H. destruct H as (HI & HS & HL). apply (li_ev _ HL _ Hin).
Qed.

(* ---------- C09: nothing is registered once the failure is recorded; the failure is sticky ---------- *)
Lemma C09_unreg_l ls s : lrun init ls = Some s -> rerr s = true ->
  rl s = RLDead /\ registry_size s = 0%nat.
Proof.
  intros H Hr. apply all_inv_reach in H. destruct H as (HI & HS & HL). split.
  - apply (si_rerr_dead _ HS); auto.
  - unfold registry_size. rewrite filter_none; auto. intros k Hin. apply In_nth_error in Hin. destruct Hin as (c & Hn).
    eapply (si_rerr_unreg _ HS); eauto.
Qed.

Lemma rerr_sticky s l s' : rerr s = true -> lstep s l = Some s' -> rerr s' = true.
Proof.
  intros Hr H. apply lstep_kind in H. destruct H; subst.
  - destruct a; simpl; auto; unfold with_call;
      repeat match goal with |- context [match ?x with _ => _ end] => destruct x; csimpl; auto end; csimpl; auto.
  - unfold r_rl_unblock in H. open_rule H; auto; try congruence; try discriminate.
  - unfold r_rl_read in H. open_rule H; auto; try congruence; try discriminate.
  - unfold r_check in H. open_rule H; auto; try congruence; try discriminate.
  - unfold r_reg in H. open_rule H; auto; try congruence; try discriminate.
  - unfold r_wait in H. open_rule H; auto; try congruence; try discriminate.
  - unfold r_wait_ctx in H. open_rule H; auto; try congruence; try discriminate.
  - unfold r_unreg in H. open_rule H; auto; try congruence; try discriminate.
  - unfold r_loop_read in H. open_rule H; auto; try congruence; try discriminate.
  - unfold r_loop_read_ctx in H. open_rule H; auto; try congruence; try discriminate.
  - unfold r_loop_hand in H. open_rule H; auto; try congruence; try discriminate.
  - unfold r_loop_hand_ctx in H. open_rule H; auto; try congruence; try discriminate.
  - unfold r_loop_exit in H. open_rule H; auto; try congruence; try discriminate.
  - unfold r_loop_unreg in H. open_rule H; auto; try congruence; try discriminate.
  - unfold r_recv in H. open_rule H; auto; try congruence; try discriminate.
  - unfold r_header in H. open_rule H; auto; try congruence; try discriminate.
  - unfold r_trailer in H. open_rule H; auto; try congruence; try discriminate.
  - unfold r_send in H. open_rule H; auto; try congruence; try discriminate.
Qed.

Lemma C09_sticky_l s ls s' : rerr s = true -> lrun s ls = Some s' -> rerr s' = true.
Proof. intros Hr H. eapply (lrun_inv (fun s => rerr s = true)); eauto using rerr_sticky. Qed.

(* a call that reaches its fail-fast check (or, having passed it, its registration) after the failure was
   recorded returns the connection error at once: it never registers, writes or waits *)
Lemma C09_failfast_l s c k : rerr s = true -> nth_error (calls s) c = Some k ->
  (forall park, k_pc k = PCheck park ->
     exists s', r_check c s = Some s' /\
       log s' = log s ++ [if k_unary k then EvUnaryRet c (UErr EConn) else EvOpenRet c (Some EConn)] /\
       exists k', nth_error (calls s') c = Some k' /\ call_pending k' = false /\ k_reg k' = k_reg k) /\
  (k_pc k = PReg ->
     exists s', r_reg c s = Some s' /\
       log s' = log s ++ [if k_unary k then EvUnaryRet c (UErr EConn) else EvOpenRet c (Some EConn)] /\
       exists k', nth_error (calls s') c = Some k' /\ call_pending k' = false /\ k_reg k' = k_reg k).
Proof.
  intros Hr Hn. pose proof (nth_some_lt _ _ _ Hn) as Hlt. split.
  - intros park Hp. unfold r_check. rewrite Hn, Hp, Hr. destruct (k_unary k); eexists; (split; [reflexivity|]); csimpl;
      (split; [reflexivity|]); eexists; (split; [apply nth_upd_eq; auto|]); csimpl; auto.
  - intros Hp. unfold r_reg. rewrite Hn, Hp, Hr. destruct (k_unary k); eexists; (split; [reflexivity|]); csimpl;
      (split; [reflexivity|]); eexists; (split; [apply nth_upd_eq; auto|]); csimpl; auto.
Qed.

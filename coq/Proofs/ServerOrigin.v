(* C06, server half (partial), on Model/Server.v: every envelope the server writes answers an envelope it has
   read: same stream id, same method, source and destination of the request exchanged. *)
From Coq Require Import List ZArith Bool Lia Arith.
Import ListNotations.
From Goat Require Import Model.Client Model.Server Proofs.ServerProofs Proofs.ServerInv.
Open Scope Z_scope.

Definition answers (f g : frame) : Prop :=
  fid f = fid g /\ f_src f = f_dst g /\ f_dst f = f_src g /\ f_mth f = f_mth g.
Definition was_read (l : list sev) (g : frame) : Prop := In (SvRead g) l.
Definition has_origin (l : list sev) (f : frame) : Prop := exists g, was_read l g /\ answers f g.

Lemma answers_resp g e : eid e = fid g -> answers (resp g e) g.
Proof. intros H. unfold answers, resp, fid; simpl. auto. Qed.

Lemma origin_mono l evs f : has_origin l f -> has_origin (l ++ evs) f.
Proof. intros (g & H & A). exists g. split; auto. unfold was_read. apply in_or_app. auto. Qed.

Lemma read_mono l evs g : was_read l g -> was_read (l ++ evs) g.
Proof. unfold was_read. intros; apply in_or_app; auto. Qed.

Record orig (s : state) : Prop := mkOrig {
  o_h : forall h k, nth_error (hs s) h = Some k -> was_read (log s) (h_req k);
  o_send : forall h k f kd, nth_error (hs s) h = Some k -> h_pc k = HInSend f kd -> answers f (h_req k);
  o_wr : forall f, wr s = WrWrite f -> has_origin (log s) f;
  o_wk : forall w f, nth_error (wk s) w = Some (WkHand f) -> has_origin (log s) f;
  o_rd : match rd s with RdOffer f | RdFwd _ f | RdRst f => was_read (log s) f | _ => True end;
  o_log : forall f, In (SvWrite f) (log s) -> has_origin (log s) f }.

Lemma orig_init nw : orig (init_n nw).
Proof.
  constructor; simpl; intros; try tauto; try discriminate.
  - destruct h; discriminate.
  - destruct h; discriminate.
  - apply nth_repeat in H. discriminate.
Qed.

(* nth_error in an updated list *)
Lemma nth_upd_inv {A} g (x : A) l h y :
  nth_error (upd g x l) h = Some y -> (h = g /\ y = x) \/ (h <> g /\ nth_error l h = Some y).
Proof.
  rewrite nth_upd. destruct (Nat.eqb_spec g h).
  - subst. destruct (nth_error l h); intros H; inversion H; auto.
  - auto.
Qed.

Ltac otac :=
  repeat match goal with
         | H : nth_error (upd _ _ _) _ = Some _ |- _ => apply nth_upd_inv in H; destruct H as [[? ?]|[? H]]; subst
         | H : nth_error (_ ++ [_]) _ = Some _ |- _ => apply nth_app_new in H; destruct H as [H|[? ?]]; subst
         | H : In _ (_ ++ _) |- _ => apply in_app_or in H; destruct H as [H|H]
         | H : In _ [_] |- _ => destruct H as [H|[]]
         | H : In _ [_; _] |- _ => destruct H as [H|[H|[]]]
         | H : In _ [] |- _ => destruct H
         | H : SvWrite _ = SvWrite _ |- _ => inversion H; subst; clear H
         | H : WrWrite _ = WrWrite _ |- _ => inversion H; subst; clear H
         | H : Some _ = Some _ |- _ => inversion H; subst; clear H
         | H : HInSend _ _ = HInSend _ _ |- _ => inversion H; subst; clear H
         | H : WkHand _ = WkHand _ |- _ => inversion H; subst; clear H
         end; try discriminate; try congruence.

Lemma orig_hstep s h k o : orig s -> nth_error (hs s) h = Some k -> h_pc k = HGate -> orig (hstep s h k o).
Proof.
  intros O Hn Hp. destruct O as [O1 O2 O3 O4 O5 O6]. unfold hstep.
  destruct (h_unary k) eqn:Hu, o; try destruct (h_hsent k) eqn:Hs; sproj.
  all: constructor; sproj; intros; otac; simpl in *;
       try (apply read_mono; eauto; fail); try (apply origin_mono; eauto; fail); eauto;
       try (match goal with |- match rd _ with _ => _ end => destruct (rd s); auto; apply read_mono; auto end).
  all: try (match goal with H : HInSend _ _ = HInSend _ _ |- _ => inversion H; subst; clear H end;
            unfold msg_frame, hdr_frame, trl_frame; apply answers_resp; reflexivity).
  all: apply finish_unary_nth in H; destruct H as (p0 & Hw & [[Hp0 _]|[Hp0 Hf]]); subst.
  all: try (apply origin_mono; eapply O4; eauto; fail).
  all: inversion Hf; subst; exists (h_req k); split; [apply read_mono; eauto | unfold unary_reply; apply answers_resp; reflexivity].
Qed.

Lemma orig_ext s a : orig s -> orig (ext s a).
Proof.
  intros O. destruct a; simpl.
  all: try (destruct O as [O1 O2 O3 O4 O5 O6]; constructor; sproj; intros; otac; eauto; fail).
  destruct (nth_error (hs s) h) as [k|] eqn:E; auto. destruct (h_pc k) eqn:Ep; auto. apply orig_hstep; auto.
Qed.

Ltac ofin O1 O2 O3 O4 O5 O6 :=
  simpl in *; otac; simpl in *; otac; cbn [h_req h_pc hset_pc hset_q hset_cancel hset_donesig hset_md hunregister] in *;
  try (repeat apply read_mono; eauto; fail); try (repeat apply origin_mono; eauto; fail); eauto;
  try (match goal with |- match ?r with _ => _ end => destruct r; auto; try discriminate; try (repeat apply read_mono; auto) end);
  try (match goal with H : HInSend _ _ = HInSend _ _ |- _ => inversion H; subst; clear H end; eauto).

Lemma orig_int s i s' : orig s -> rule_of i s = Some s' -> orig s'.
Proof.
  intros O H. destruct i; simpl in H.
  all: try (start_rule H; destruct O as [O1 O2 O3 O4 O5 O6]; constructor; sproj; intros; ofin O1 O2 O3 O4 O5 O6; fail).
  all: try (start_rule H; destruct O as [O1 O2 O3 O4 O5 O6]; constructor; sproj; intros; ofin O1 O2 O3 O4 O5 O6; fail).
  - (* r_rd_read *)
    destruct O as [O1 O2 O3 O4 O5 O6]. unfold r_rd_read in H. destruct (rd s) eqn:Erd; try discriminate.
    destruct (inbox s) as [|f rest] eqn:Ei.
    + destr_in H; inv_some H; constructor; sproj; intros; ofin O1 O2 O3 O4 O5 O6.
    + assert (Hrf : was_read (log s ++ [SvRead f]) f) by (unfold was_read; apply in_or_app; right; left; auto).
      destruct (dispatch f) eqn:Ed; inv_some H.
      * constructor; sproj; intros; ofin O1 O2 O3 O4 O5 O6; try (rewrite Erd; auto).
      * constructor; sproj; intros; ofin O1 O2 O3 O4 O5 O6; try (rewrite Erd; auto).
      * unfold stream_dispatch. sproj.
        destruct (find_reg (fid f) (hs s) 0) as [g|].
        -- destruct (is_rst f).
           ++ destruct (nth_error (hs s) g) as [kg|] eqn:Eg; constructor; sproj; intros; ofin O1 O2 O3 O4 O5 O6; try (rewrite Erd; auto).
           ++ constructor; sproj; intros; ofin O1 O2 O3 O4 O5 O6.
        -- destruct (is_rst f); [constructor; sproj; intros; ofin O1 O2 O3 O4 O5 O6; rewrite Erd; auto|].
           destruct (has_body f); [constructor; sproj; intros; ofin O1 O2 O3 O4 O5 O6|].
           destruct (has_trl f); [constructor; sproj; intros; ofin O1 O2 O3 O4 O5 O6; rewrite Erd; auto|].
           destruct (md_bad f); constructor; sproj; intros; ofin O1 O2 O3 O4 O5 O6; try (rewrite Erd; auto);
             try (apply read_mono; exact Hrf).
  - (* r_rd_offer *)
    destruct O as [O1 O2 O3 O4 O5 O6]. unfold r_rd_offer in H. destruct (rd s) eqn:Erd; try discriminate.
    destruct (find_idle (wk s) 0) as [w|]; try discriminate. inv_some H.
    assert (Hof : forall e, eid e = fid f -> has_origin (log s ++ [SvJob w f]) (resp f e)).
    { intros e He. exists f. split; [apply read_mono; auto | apply answers_resp; auto]. }
    unfold start_unary. destruct (negb (has_hdr f)); [constructor; sproj; intros; ofin O1 O2 O3 O4 O5 O6|].
    destruct (md_bad f); [constructor; sproj; intros; ofin O1 O2 O3 O4 O5 O6; try (unfold badmd_reply; apply Hof; reflexivity)|].
    destruct (body_tok f <? 0); [constructor; sproj; intros; ofin O1 O2 O3 O4 O5 O6; try (unfold undec_reply; apply Hof; reflexivity)|].
    constructor; sproj; intros; ofin O1 O2 O3 O4 O5 O6.
  - (* r_rd_rst *)
    destruct O as [O1 O2 O3 O4 O5 O6]. unfold r_rd_rst in H. destruct (rd s) eqn:Erd; try discriminate.
    destruct (wr s) eqn:Ewr; try discriminate.
    destruct (has_hdr f); inv_some H; constructor; sproj; intros; ofin O1 O2 O3 O4 O5 O6.
    all: try (exists f; split; [apply read_mono; auto | unfold rst_reply; apply answers_resp; reflexivity]).
    all: try (match goal with E : RdRst _ = RdRst _ |- _ => inversion E; subst end; auto).
  - (* r_h_send *)
    destruct O as [O1 O2 O3 O4 O5 O6]. unfold r_h_send in H. destruct (nth_error (hs s) h) as [k|] eqn:En; try discriminate.
    destruct (wr s) eqn:Ewr; try discriminate. destruct (h_pc k) eqn:Ep; try discriminate.
    assert (Hof : has_origin (log s) f) by (exists (h_req k); split; [eapply O1; eauto | eapply O2; eauto]).
    destruct k0; inv_some H; constructor; sproj; intros; ofin O1 O2 O3 O4 O5 O6.
Qed.

Theorem orig_reach nw ls s : lrun (init_n nw) ls = Some s -> orig s.
Proof. apply lrun_inv; [apply orig_ext | apply orig_int | apply orig_init]. Qed.

(* C06, server half (partial): every envelope the server writes answers an envelope it has read *)
Theorem C06_server_origin_l nw ls s f :
  lrun (init_n nw) ls = Some s -> In (SvWrite f) (log s) ->
  exists g, In (SvRead g) (log s) /\ fid f = fid g /\ f_src f = f_dst g /\ f_dst f = f_src g /\ f_mth f = f_mth g.
Proof.
  intros H Hw. destruct (o_log _ (orig_reach _ _ _ H) _ Hw) as (g & Hr & A1 & A2 & A3 & A4). exists g. auto.
Qed.

(* C01_complete (Q-form): in a quiescent state of the system - both components quiescent, both wires empty,
   no handler waiting at its gate - reached without faults and cancellations by Invoke programs, every call
   has returned. *)
From Coq Require Import List ZArith Bool Lia Arith.
Import ListNotations.
From Goat Require Import Model.Client Model.Server Proofs.ClientBase Proofs.ClientInv Proofs.ClientLog Proofs.ClientLive
  Proofs.ClientProps Proofs.ClientWedge Proofs.ProtocolClient Proofs.ServerProofs Proofs.ServerInv Proofs.ServerTrace
  Proofs.ServerLive Model.Sys Proofs.SysLog Proofs.SysProofs Proofs.SysFacts Proofs.SysFacts2 Proofs.SysFacts3
  Proofs.SysC01 Proofs.SysC01b.
Open Scope Z_scope.

(* ---------- nothing reaches the client under the id of a call that has not written its request ---------- *)
Lemma W0_sys pol ls s : Sys.lrun pol Sys.init ls = Some s -> W0 (cl s).
Proof.
  intros H c k e Hn Hpc Hin Heq.
  pose proof (proj_c_run _ _ _ _ H) as Hc. pose proof (proj_s_run _ _ _ _ H) as Hs.
  destruct (client_read_was_written _ _ _ _ _ H Hin) as (fr & Hw & Hfe).
  destruct (srv_write_origin _ _ _ _ Hs Hw) as (rq & Hr & Hid).
  destruct (server_read_was_written _ _ _ _ H Hr) as (_ & Hcw).
  pose proof (J_reach _ _ Hc) as (_ & _ & HJ). specialize (HJ _ _ Hn).
  destruct HJ as (_ & _ & _ & HW & _). rewrite Hpc in HW.
  assert (Hp : In (f_env rq) (projE (k_id k) (wr (cl s)))).
  { unfold projE. apply filter_In. split; [apply in_wr_of; auto|]. apply Z.eqb_eq.
    unfold fid in Hid. rewrite Hid, Hfe. exact Heq. }
  rewrite HW in Hp. destruct Hp.
Qed.

Lemma sys_lrun_snoc pol ls l : forall s s2, Sys.lrun pol s (ls ++ [l]) = Some s2 ->
  exists s1, Sys.lrun pol s ls = Some s1 /\ Sys.lstep pol s1 l = Some s2.
Proof.
  induction ls as [|x ls IH]; simpl; intros s s2 H.
  - destruct (Sys.lstep pol s l) eqn:E; [|discriminate]. inversion H; subst. eauto.
  - destruct (Sys.lstep pol s x) eqn:E; [|discriminate]. eauto.
Qed.

Theorem Q4_sys pol ls : forall s, Sys.lrun pol Sys.init ls = Some s -> Q4 (cl s).
Proof.
  induction ls as [|l ls IH] using rev_ind; intros s H.
  - inversion H; subst. intros c k e P. destruct c; discriminate.
  - destruct (sys_lrun_snoc _ _ _ _ _ H) as (s1 & H1 & Hl).
    pose proof (IH _ H1) as HQ. pose proof (W0_sys _ _ _ H1) as HW.
    pose proof (proj_c_run _ _ _ _ H1) as Hc. destruct (all_inv_reach _ _ Hc) as (HI & HS & _).
    pose proof (lstep_cl _ _ _ _ Hl) as P. destruct l as [x|x| |].
    + destruct P as (P & _). eapply Q4_step; eauto.
    + destruct P as (_ & _ & _ & P). rewrite P. exact HQ.
    + destruct P as (f & rest & _ & _ & P & _). rewrite P. exact HQ.
    + destruct P as (e & rest & _ & P & _). rewrite P. apply Q4_ext; auto.
Qed.

(* ---------- the server side of a fault-free system run ---------- *)
Lemma proj_s_lbl_ok pol ls : forall s, fault_free ls = true -> forallb lbl_ok (proj_s pol s ls) = true.
Proof.
  induction ls as [|l ls IH]; simpl; intros s Hf; auto.
  apply andb_prop in Hf. destruct Hf as [Hl Hf].
  destruct (Sys.lstep pol s l) as [s1|] eqn:E; [|reflexivity].
  destruct l as [x|x| |]; simpl; auto.
  - rewrite IH by auto. rewrite andb_true_r. destruct x as [a|n]; simpl in *; auto. destruct a; simpl in *; auto; discriminate.
  - destruct (c2s s); simpl; auto.
Qed.

Lemma all_handlers_unary f ls s :
  Sys.lrun (pol_c01 f) Sys.init ls = Some s ->
  (forall c k, nth_error (calls (cl s)) c = Some k -> k_unary k = true) ->
  forall h kh, nth_error (hs (sv s)) h = Some kh -> h_unary kh = true.
Proof.
  intros H Hall h kh Hn. destruct (h_unary kh) eqn:Hu; auto. exfalso.
  pose proof (proj_s_run_pol _ _ _ _ H) as Hs. pose proof (srun_lrun _ _ _ _ Hs) as Hsl.
  destruct (srv_dispatch _ _ _ Hsl) as (_ & Hreq).
  assert (HK : K f (sv s)) by (eapply K_run; [apply inv_hdr_init | apply K_init | exact Hs]).
  assert (Hsig : In (false, h_req kh) (sigs (sv s))) by (rewrite <- Hu; eapply sig_in; eauto).
  pose proof (k_read _ _ HK _ _ Hsig) as Hr.
  destruct (server_read_was_written _ _ _ _ H Hr) as (Hsent & _).
  destruct (sent_ok_init _ _ _ H _ Hsent) as (c & k & Hk & _ & _ & Hm & Hd).
  specialize (Hreq _ Hsig). simpl in Hreq. destruct Hreq as (Hdisp & _).
  unfold kind_of in Hm. rewrite (Hall _ _ Hk) in Hm.
  unfold dispatch in Hdisp. rewrite Hm in Hdisp. destruct (ehdr (f_env (h_req kh))); try discriminate.
  destruct (f_dst (h_req kh) =? srv_name); discriminate.
Qed.

(* ---------- the theorem ---------- *)
Theorem C01_complete f ls s :
  Sys.lrun (pol_c01 f) Sys.init ls = Some s -> fault_free ls = true ->
  Sys.quiescent s = true ->
  (forall c k, nth_error (calls (cl s)) c = Some k -> k_unary k = true /\ k_pc k <> PParked) ->
  forall c k, nth_error (calls (cl s)) c = Some k -> k_pc k = PRet.
Proof.
  intros H Hff Hq Hall c k Hn.
  pose proof (proj_c_run _ _ _ _ H) as Hc. pose proof (proj_s_run_pol _ _ _ _ H) as Hs.
  pose proof (srun_lrun _ _ _ _ Hs) as Hsl.
  unfold Sys.quiescent in Hq. repeat (apply andb_prop in Hq; destruct Hq as [Hq ?]).
  rename Hq into Qc. rename H0 into Qgate. rename H1 into Qs2c. rename H2 into Qc2s. rename H3 into Qs.
  destruct (Hall _ _ Hn) as (Hu & Hnp).
  destruct (C11_unary_settles_l _ _ _ _ Hc Qc Hn Hu) as [Hret | [Hpark | (Hpc & Hctx & Hbuf & Hncl)]]; auto; [contradiction|].
  exfalso.
  (* the server is idle *)
  destruct (FT_run f _ (sv Sys.init) _ (inv_hdr_init nworkers) (sff_init nworkers) (T_init nworkers) Hs (proj_s_lbl_ok _ _ _ Hff)) as (Ihd & F & HT).
  pose proof (inv_reach nworkers _ _ Hsl) as HIs.
  assert (Hun : forall h kh, nth_error (hs (sv s)) h = Some kh -> h_unary kh = true).
  { eapply all_handlers_unary; eauto. intros c0 k0 P. apply (Hall _ _ P). }
  assert (Hdead : forall h kh, nth_error (hs (sv s)) h = Some kh -> h_pc kh = HDead).
  { intros h kh P. destruct (t_na _ HT _ _ P (Hun _ _ P)) as [G | D]; auto. exfalso.
    apply negb_true_iff in Qgate. assert (X : existsb at_gate (hs (sv s)) = true).
    { apply existsb_exists. exists kh. split; [eapply nth_error_In; eauto | unfold at_gate; rewrite G; reflexivity]. }
    congruence. }
  assert (Hret : all_returned (sv s)).
  { intros h kh P. unfold h_returned. rewrite (Hdead _ _ P). reflexivity. }
  destruct (sff_fields _ F) as (_ & _ & Fb & _ & _ & _ & _ & Fh & _).
  destruct (srv_quiescent_idle nworkers (sv s) ltac:(unfold nworkers; lia) HIs Qs Hret Fb Fh) as (Erd & Einb & Ewr & Hidle & _ & _).
  (* the call wrote its request, the server read it *)
  pose proof (J_reach _ _ Hc) as (_ & _ & HJ). specialize (HJ _ _ Hn). destruct HJ as (_ & _ & _ & HW & _). rewrite Hpc in HW.
  assert (Hwr : In (req_env (k_id k) (k_payload k)) (cwrites (Client.log (cl s)))).
  { rewrite <- wr_of_cwrites. assert (X : In (req_env (k_id k) (k_payload k)) (projE (k_id k) (wr (cl s)))) by (rewrite HW; left; reflexivity).
    unfold projE in X. apply filter_In in X. apply X. }
  assert (Ec2s : c2s s = []) by (destruct (c2s s); [reflexivity | discriminate]).
  assert (Es2c : s2c s = []) by (destruct (s2c s); [reflexivity | discriminate]).
  destruct (winv_reach _ _ _ H) as [W1 W2 W3]. rewrite Ec2s, Einb in W2. rewrite !app_nil_r in W2.
  rewrite <- W1, <- W2 in Hwr. apply in_map_iff in Hwr. destruct Hwr as (rq & Hrq & Hrqin).
  apply in_sreads in Hrqin.
  assert (Hsent : In rq (sent_c2s s)) by (rewrite <- W2; apply in_sreads; exact Hrqin).
  destruct (sent_ok_init _ _ _ H _ Hsent) as (c1 & k1 & Hk1 & Hid1 & Hpos1 & Hm1 & Hd1).
  assert (Hdisp : dispatch rq = DUnary).
  { unfold dispatch. rewrite Hrq. simpl. unfold kind_of in Hm1. rewrite (proj1 (Hall _ _ Hk1)) in Hm1. rewrite Hm1, Hd1, Z.eqb_refl. reflexivity. }
  (* so it has answered *)
  destruct (t_req _ HT _ Hrqin Hdisp) as [(fr0 & A & _) | [(h & kh & A & _ & _ & G) | (fr & A & B)]].
  { rewrite Erd in A. discriminate A. }
  { rewrite (Hdead _ _ A) in G. discriminate G. }
  destruct A as [A | [(w & A) | A]].
  { rewrite Ewr in A. discriminate A. }
  { pose proof (Hidle _ _ A) as X. discriminate X. }
  (* the client has read the answer *)
  assert (Hrl : rl (cl s) = RLRead).
  { destruct (rl (cl s)) as [|c2 e2|] eqn:Erl; auto; exfalso.
    - destruct (C11_hold_live_l _ _ _ _ Hc Qc Erl) as (k2 & b & P & _ & Hop & _).
      pose proof (ki_kind _ (cinv_call _ _ _ (proj1 (all_inv_reach _ _ Hc)) P)) as X.
      rewrite (proj1 (Hall _ _ P)), Hop in X. discriminate X.
    - destruct (all_inv_reach _ _ Hc) as (HI & HS & _).
      pose proof (proj2 (si_rerr_dead _ HS) Erl) as Hre. pose proof (si_rerr_unreg _ HS Hre _ _ Hn) as Hreg.
      pose proof (ki_unreg_closed _ (cinv_call _ _ _ HI Hn) Hreg (or_introl Hpc)) as X. congruence. }
  destruct (C11_all_routed_l _ Qc Hrl) as (Einc & _).
  rewrite Es2c, Einc in W3. rewrite !app_nil_r in W3.
  assert (Hread : In (f_env fr) (creads (Client.log (cl s)))).
  { rewrite W3. apply in_map. apply in_swrites. exact A. }
  apply in_creads in Hread. destruct Hread as (to & Hread).
  assert (Hide : eid (f_env fr) = k_id k).
  { unfold fid in B. rewrite B. rewrite Hrq. reflexivity. }
  destruct (all_inv_reach _ _ Hc) as (HI & HS & HL).
  assert (Hreg : k_reg k = true).
  { destruct (k_reg k) eqn:Er; auto. exfalso.
    pose proof (ki_unreg_closed _ (cinv_call _ _ _ HI Hn) Er (or_introl Hpc)). congruence. }
  destruct to as [c2|].
  - (* routed: to this call, which therefore holds it *)
    destruct (li_ev _ HL _ Hread) as (k2 & P2 & Hid2 & Hpos2).
    assert (c2 = c).
    { destruct (Nat.eq_dec c2 c); auto. exfalso. eapply (si_id_uniq _ HS c2 c k2 k); eauto. lia. congruence. }
    subst c2. pose proof (NN_reach _ _ Hc _ _ _ Hn Hu Hread) as D. unfold deliv in D. rewrite Hpc, Hrl in D.
    destruct D as [D | [D | D]]; [congruence | discriminate D | congruence].
  - (* unhandled: impossible for a registered call *)
    exact (Q4_sys _ _ _ H c k (f_env fr) Hn Hreg Hread Hide).
Qed.

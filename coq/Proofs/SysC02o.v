(* C02, the list-level link, caller -> handler: in EVERY run, for every stream, the body envelopes the client wrote under
   the stream's id, in wire order, are exactly body_env id b for the arguments b of the SendMsg calls of that stream that
   returned nil, in call order ([csent]: a write immediately followed by the nil return of SendMsg - one step of the
   model, see C02_link_send_reach; the argument is the head of the send queue put there by ASend, C02_link_send_arg). *)
From Coq Require Import List ZArith Bool Lia Arith.
Import ListNotations.
From Goat Require Import Model.Client Model.Server Proofs.ClientBase Proofs.ClientInv Proofs.ClientLog Proofs.ClientProps Proofs.ProtocolClient
  Model.Sys Proofs.SysLog Proofs.SysProofs Proofs.SysC01b Proofs.SysC02 Proofs.SysC02h.
Open Scope Z_scope.

Fixpoint csent (c : nat) (l : list cev) : list Z :=
  match l with
  | [] => []
  | x :: r => (match x, r with
               | EvWrite e, EvSendRet c' None :: _ =>
                   if Nat.eqb c' c then match ebody e with Some b => [b] | None => [] end else []
               | _, _ => []
               end) ++ csent c r
  end.

Definition safe (m : list cev) : Prop := match m with EvSendRet _ None :: _ => False | _ => True end.

Lemma csent_app c l m : safe m -> csent c (l ++ m) = csent c l ++ csent c m.
Proof.
  intros Hs. induction l as [|x l IH]; [reflexivity|].
  simpl. rewrite IH, app_assoc. f_equal. f_equal.
  destruct x; try reflexivity. destruct l as [|y l']; simpl; [|reflexivity].
  destruct m as [|z m']; [reflexivity|]. destruct z; try reflexivity. destruct r; [reflexivity | contradiction].
Qed.

Definition hasb (e : env) : bool := match ebody e with Some _ => true | None => false end.
Definition bod (i : Z) (l : list cev) : list env := filter hasb (by_id i (cwrites l)).

Lemma bod_app i a b : bod i (a ++ b) = bod i a ++ bod i b.
Proof. unfold bod. rewrite cwrites_app, by_id_app, filter_app. reflexivity. Qed.

Lemma filter_nil_all {A} (g : A -> bool) l : (forall x, In x l -> g x = false) -> filter g l = [].
Proof. induction l as [|x l IH]; intros H; simpl; auto. rewrite (H x) by (left; reflexivity). apply IH. intros y Hy. apply H. right. exact Hy. Qed.

Definition SNh (s : Client.state) (c : nat) (k : call) : Prop :=
  (k_pc k <> POpen -> csent c (Client.log s) = []) /\
  (k_unary k = false -> bod (k_id k) (Client.log s) = map (body_env (k_id k)) (csent c (Client.log s))).
Definition SN (s : Client.state) : Prop :=
  forall c, match nth_error (calls s) c with Some k => SNh s c k | None => csent c (Client.log s) = [] end.

Definition quietS (evs : list cev) : Prop := safe evs /\ (forall c, csent c evs = []) /\ (forall i, bod i evs = []).

Lemma SN_upd s s' c0 k0 k' evs :
  SN s -> calls s' = upd c0 k' (calls s) -> nth_error (calls s) c0 = Some k0 ->
  Client.log s' = Client.log s ++ evs -> quietS evs ->
  k_unary k' = k_unary k0 -> k_id k' = k_id k0 -> (k_pc k0 = POpen -> k_pc k' = POpen) -> SN s'.
Proof.
  intros HS Hc Hn Hl (Q0 & Q1 & Q2) Hu Hi Hp c. specialize (HS c). rewrite Hc, Hl.
  destruct (Nat.eq_dec c c0) as [->|Hne].
  - rewrite nth_upd_eq by (eapply nth_some_lt; eauto). rewrite Hn in HS. destruct HS as (A & B).
    unfold SNh. rewrite Hl, (csent_app _ _ _ Q0), Q1, app_nil_r, bod_app, Q2, app_nil_r, Hu, Hi. split; [|exact B].
    intros X. apply A. intros Y. apply X. auto.
  - rewrite nth_upd_neq by auto. destruct (nth_error (calls s) c) as [k|].
    + destruct HS as (A & B). unfold SNh. rewrite Hl, (csent_app _ _ _ Q0), Q1, app_nil_r, bod_app, Q2, app_nil_r. split; auto.
    + rewrite (csent_app _ _ _ Q0), Q1, app_nil_r. exact HS.
Qed.

Lemma SN_map s s' g evs :
  SN s -> calls s' = map g (calls s) -> Client.log s' = Client.log s ++ evs -> quietS evs ->
  (forall k, k_unary (g k) = k_unary k /\ k_id (g k) = k_id k /\ k_pc (g k) = k_pc k) -> SN s'.
Proof.
  intros HS Hc Hl (Q0 & Q1 & Q2) Hg c. specialize (HS c). rewrite Hc, nth_error_map, Hl.
  destruct (nth_error (calls s) c) as [k|]; simpl.
  - destruct HS as (A & B). destruct (Hg k) as (G1 & G2 & G3). unfold SNh.
    rewrite Hl, (csent_app _ _ _ Q0), Q1, app_nil_r, bod_app, Q2, app_nil_r, G1, G2, G3. split; auto.
  - rewrite (csent_app _ _ _ Q0), Q1, app_nil_r. exact HS.
Qed.

Lemma SN_same s s' evs : SN s -> calls s' = calls s -> Client.log s' = Client.log s ++ evs -> quietS evs -> SN s'.
Proof.
  intros HS Hc Hl Q. apply (SN_map s s' (fun k => k) evs); auto. rewrite Hc, map_id. reflexivity.
Qed.

Ltac bod_nil := let i := fresh in intros i; unfold bod, by_id; simpl;
  repeat match goal with |- context [if ?b then _ else _] => destruct b end; reflexivity.
Ltac quietS_tac := split; [exact I | split; [let c := fresh in intros c; reflexivity | bod_nil]].

Ltac sn_pc := csimpl; let hZ := fresh in intros hZ; first [exact hZ | reflexivity | congruence].

Ltac SN_done HS :=
  csimpl;
  try match goal with |- context [if k_reg ?k then _ else _] => destruct (k_reg k) eqn:? end;
  csimpl;
  first [ eapply (SN_same _ _ []); [exact HS | reflexivity | csimpl; rewrite app_nil_r; reflexivity | quietS_tac]
        | eapply SN_same; [exact HS | reflexivity | csimpl; rewrite <- ?app_assoc; reflexivity | quietS_tac]
        | eapply (SN_map _ _ _ []); [exact HS | unfold close_all; reflexivity | csimpl; rewrite app_nil_r; reflexivity | quietS_tac
                                    | let k := fresh in intros k; destruct (k_reg k); repeat split; reflexivity]
        | match goal with E : nth_error (calls ?s) ?c = Some ?k |- SN _ =>
            first [ eapply (SN_upd s _ c k _ []); [exact HS | csimpl; reflexivity | exact E | csimpl; rewrite app_nil_r; reflexivity
                                                  | quietS_tac | csimpl; reflexivity | csimpl; reflexivity | sn_pc]
                  | eapply (SN_upd s _ c k); [exact HS | csimpl; reflexivity | exact E | csimpl; rewrite <- ?app_assoc; reflexivity
                                             | quietS_tac | csimpl; reflexivity | csimpl; reflexivity | sn_pc] ]
          end ].

(* an id is allocated: nothing was written under it *)
Lemma SN_alloc s s' c0 k0 k' :
  SN s -> calls s' = upd c0 k' (calls s) -> nth_error (calls s) c0 = Some k0 -> Client.log s' = Client.log s ->
  k_unary k' = k_unary k0 -> k_pc k0 <> POpen -> k_pc k' <> POpen ->
  (forall e, In e (cwrites (Client.log s)) -> eid e <> k_id k') -> SN s'.
Proof.
  intros HS Hc Hn Hl Hu Hp0 Hp' Hfresh c. specialize (HS c). rewrite Hc, Hl.
  destruct (Nat.eq_dec c c0) as [->|Hne].
  - rewrite nth_upd_eq by (eapply nth_some_lt; eauto). rewrite Hn in HS. destruct HS as (A & _).
    unfold SNh. rewrite Hl, (A Hp0). split; [reflexivity|]. intros _. simpl.
    unfold bod, by_id. rewrite (filter_nil_all (fun e => eid e =? k_id k')); [reflexivity|]. intros e He. apply Z.eqb_neq. apply Hfresh. exact He.
  - rewrite nth_upd_neq by auto. destruct (nth_error (calls s) c) as [k|]; [unfold SNh in *; rewrite Hl; exact HS | exact HS].
Qed.

Lemma SN_step ls s l s' : Client.lrun Client.init ls = Some s -> SN s -> Client.lstep s l = Some s' -> SN s'.
Proof.
  intros Hrun HS H. destruct (all_inv_reach _ _ Hrun) as (HI & HSi & HL).
  pose proof (J_reach _ _ Hrun) as (HJ1 & _ & HJ).
  assert (Hfresh : forall e, In e (cwrites (Client.log s)) -> eid e <> counter s + 1).
  { intros e He. unfold wr in HJ1. rewrite wr_of_cwrites in HJ1. specialize (HJ1 e He). lia. }
  (* the writes of another call carry another id *)
  assert (Hother : forall c0 k0 c k, nth_error (calls s) c0 = Some k0 -> nth_error (calls s) c = Some k -> c <> c0 -> 0 < k_id k0 ->
                     (k_id k0 =? k_id k) = false).
  { intros c0 k0 c k P0 P Hne Hpos. apply Z.eqb_neq. eapply (si_id_uniq _ HSi c0 c k0 k); eauto. }
  assert (Hzero : forall e, In e (cwrites (Client.log s)) -> eid e <> 0).
  { intros e He. unfold wr in HJ1. rewrite wr_of_cwrites in HJ1. specialize (HJ1 e He). lia. }
  assert (Hnew : forall k0, k_pc k0 <> POpen -> k_id k0 = 0 ->
            SN (Client.mkState (counter s) (rerr s) (rl s) (Client.inbox s) (Client.inbox_failed s) (Client.wfail s) (calls s ++ [k0]) (Client.log s))).
  { intros k0 Hp Hi c. specialize (HS c). csimpl. destruct (Nat.lt_ge_cases c (length (calls s))) as [Hlt|Hge].
    - rewrite nth_error_app1 by exact Hlt. destruct (nth_error (calls s) c); exact HS.
    - rewrite (proj2 (nth_error_None _ _) Hge) in HS. destruct (Nat.eq_dec c (length (calls s))) as [->|Hne].
      + rewrite nth_error_app2, Nat.sub_diag by lia. simpl. unfold SNh. csimpl. rewrite HS. split; [reflexivity|]. intros _. simpl.
        unfold bod, by_id. rewrite (filter_nil_all (fun e => eid e =? k_id k0)); [reflexivity|]. intros e He. rewrite Hi. apply Z.eqb_neq. apply Hzero. exact He.
      + rewrite (proj2 (nth_error_None _ _)); [exact HS|]. rewrite app_length. simpl. lia. }
  destruct l as [a|n]; simpl in H.
  - inversion H; subst s'; clear H. destruct a; simpl;
      try (unfold with_call; destruct (nth_error (calls s) c) as [k|] eqn:E; [|exact HS];
           match goal with |- context [match ?x with _ => _ end] => destruct x eqn:G end; try exact HS;
           repeat match type of G with
                  | match ?x with _ => _ end = Some _ => destruct x eqn:?; try discriminate G
                  end; inversion G; subst;
           eapply (SN_upd s _ c k _ []); [exact HS | reflexivity | exact E | simpl; rewrite app_nil_r; reflexivity | quietS_tac | reflexivity | reflexivity | sn_pc]);
      try (eapply (SN_same _ _ []); [exact HS | reflexivity | simpl; rewrite app_nil_r; reflexivity | quietS_tac]).
    + apply Hnew; [discriminate | reflexivity].
    + apply Hnew; [discriminate | reflexivity].
    + destruct (nth_error (calls s) c) as [k|] eqn:E; [|exact HS]. destruct (k_pc k) eqn:P; try exact HS.
      eapply (SN_alloc _ _ c k); [exact HS | csimpl; reflexivity | exact E | reflexivity | reflexivity | congruence | csimpl; discriminate | csimpl; exact Hfresh].
  - destruct (nth_error (Client.rules s) n) as [r|] eqn:E; [|discriminate]. apply nth_error_In in E.
    apply rules_in in E. destruct E as [->|[->|(c & _ & Hin)]].
    + unfold r_rl_unblock in H. open_rule H; try (SN_done HS).
    + unfold r_rl_read in H. open_rule H; try (SN_done HS).
      eapply (SN_map s _ (fun k => if k_reg k then set_chan k (mkChan (cbuf (k_chan k)) true) false else k) []);
        [exact HS | reflexivity | csimpl; rewrite app_nil_r; reflexivity | quietS_tac | intros k; destruct (k_reg k); repeat split; reflexivity].
    + simpl in Hin.
      repeat (destruct Hin as [<-|Hin];
              [ unfold r_check, r_reg, r_wait, r_wait_ctx, r_unreg, r_loop_read, r_loop_read_ctx, r_loop_hand,
                       r_loop_hand_ctx, r_loop_exit, r_loop_unreg, r_recv, r_header, r_trailer, r_send in H;
                open_rule H; try (SN_done HS) | ]).
      all: try destruct Hin.
      * (* r_check: the id is allocated *)
        eapply (SN_alloc s _ c c0); [exact HS | csimpl; reflexivity | exact E | reflexivity | reflexivity | congruence | csimpl; discriminate | csimpl; exact Hfresh].
      * (* r_reg of a unary call: its request carries the id of that call only *)
        pose proof (cinv_call _ _ _ HI E) as K.
        assert (Hpos : 0 < k_id c0) by (apply (ki_id _ K); rewrite E0; reflexivity).
        intros c'. specialize (HS c'). csimpl.
        assert (Sf : safe [EvWrite (req_env (k_id c0) (k_payload c0))]) by exact I.
        destruct (Nat.eq_dec c' c) as [->|Hne].
        -- rewrite nth_upd_eq by (eapply nth_some_lt; eauto). rewrite E in HS. destruct HS as (A & _).
           unfold SNh. csimpl. rewrite (csent_app _ _ _ Sf). simpl. rewrite app_nil_r.
           split; [intros _; apply A; congruence | intros X; congruence].
        -- rewrite nth_upd_neq by auto. destruct (nth_error (calls s) c') as [k|] eqn:P.
           ++ destruct HS as (A & B). unfold SNh. csimpl. rewrite (csent_app _ _ _ Sf), bod_app. simpl. rewrite app_nil_r.
              split; [exact A|]. intros U. rewrite (B U). unfold bod, by_id. simpl.
              rewrite (Hother _ _ _ _ E P Hne Hpos). simpl. rewrite app_nil_r. reflexivity.
           ++ rewrite (csent_app _ _ _ Sf). simpl. rewrite app_nil_r. exact HS.
      * (* r_send on a finished stream: the recorded error is returned (never nil) *)
        pose proof (cinv_call _ _ _ HI E) as K. destruct (ki_done_dead _ K E3) as (_ & Hs & _).
        destruct (s_rerr c0) eqn:Er; [|discriminate Hs]. SN_done HS.
      * (* r_send: the message is written and nil is returned, in one step *)
        pose proof (cinv_call _ _ _ HI E) as K.
        assert (Po : k_pc c0 = POpen) by (apply (ki_ops_open _ K); unfold ops_pending, send_pending; rewrite E0, !orb_true_r; reflexivity).
        assert (Hpos : 0 < k_id c0) by (apply (ki_id _ K); rewrite Po; reflexivity).
        assert (Hus : k_unary c0 = false) by (pose proof (ki_kind _ K) as X; rewrite Po in X; destruct (k_unary c0); [discriminate X | reflexivity]).
        intros c'. specialize (HS c'). csimpl.
        assert (Sf : safe [EvWrite (body_env (k_id c0) z); EvSendRet c None]) by exact I.
        destruct (Nat.eq_dec c' c) as [->|Hne].
        -- rewrite nth_upd_eq by (eapply nth_some_lt; eauto). rewrite E in HS. destruct HS as (A & B).
           unfold SNh. csimpl. rewrite (csent_app _ _ _ Sf), bod_app. simpl. rewrite Nat.eqb_refl. simpl.
           split; [intros X; congruence|]. intros _. rewrite (B Hus), map_app. f_equal.
           unfold bod, by_id. simpl. rewrite Z.eqb_refl. reflexivity.
        -- rewrite nth_upd_neq by auto.
           assert (Cn : csent c' [EvWrite (body_env (k_id c0) z); EvSendRet c None] = []).
           { simpl. destruct (Nat.eqb_spec c c') as [->|_]; [contradiction | reflexivity]. }
           destruct (nth_error (calls s) c') as [k|] eqn:P.
           ++ destruct HS as (A & B). unfold SNh. csimpl. rewrite (csent_app _ _ _ Sf), bod_app, Cn, app_nil_r.
              split; [exact A|]. intros U. rewrite (B U). unfold bod, by_id. simpl.
              rewrite (Hother _ _ _ _ E P Hne Hpos). simpl. rewrite app_nil_r. reflexivity.
           ++ rewrite (csent_app _ _ _ Sf), Cn, app_nil_r. exact HS.
Qed.

Theorem SN_reach ls : forall s, Client.lrun Client.init ls = Some s -> SN s.
Proof.
  induction ls as [|l ls IH] using rev_ind; intros s H.
  - inversion H; subst. intros c. destruct c; reflexivity.
  - destruct (lrun_snoc_inv _ _ _ _ H) as (s1 & H1 & Hl). eapply SN_step; eauto.
Qed.

(* the list-level link, all runs *)
Theorem C02_args_c2h ls s c k :
  Client.lrun Client.init ls = Some s -> nth_error (calls s) c = Some k -> k_unary k = false ->
  filter hasb (by_id (k_id k) (cwrites (Client.log s))) = map (body_env (k_id k)) (csent c (Client.log s)).
Proof. intros H Hn Hu. pose proof (SN_reach _ _ H c) as X. rewrite Hn in X. apply (proj2 X Hu). Qed.

(* C02 over the product model Model/Sys.v, transport level: per stream id, what a side has read from the
   transport is, position by position, a prefix of what the other side wrote for that id (no loss,
   duplication, reordering, alteration, fabrication between the two components), and everything written has
   been read once both wires and both read queues are empty. *)
From Coq Require Import List ZArith Bool Lia Arith.
Import ListNotations.
From Goat Require Import Model.Client Model.Server Model.Sys Proofs.SysLog Proofs.SysProofs.
Open Scope Z_scope.

Definition by_id (i : Z) (l : list env) : list env := filter (fun e => eid e =? i) l.

Lemma filter_prefix {A} (g : A -> bool) p l : is_prefix p l -> is_prefix (filter g p) (filter g l).
Proof. intros [r ->]. exists (filter g r). apply filter_app. Qed.

Theorem wire_c2s_prefix_id pol ls s i : Sys.lrun pol Sys.init ls = Some s ->
  is_prefix (by_id i (map f_env (sreads (Server.log (sv s))))) (by_id i (cwrites (Client.log (cl s)))).
Proof. intros H. apply filter_prefix. eapply wire_c2s_prefix; eauto. Qed.

Theorem wire_s2c_prefix_id pol ls s i : Sys.lrun pol Sys.init ls = Some s ->
  is_prefix (by_id i (creads (Client.log (cl s)))) (by_id i (map f_env (swrites (Server.log (sv s))))).
Proof. intros H. apply filter_prefix. eapply wire_s2c_prefix; eauto. Qed.

Theorem wire_complete_id pol ls s i : Sys.lrun pol Sys.init ls = Some s ->
  c2s s = [] -> s2c s = [] -> Server.inbox (sv s) = [] -> Client.inbox (cl s) = [] ->
  by_id i (map f_env (sreads (Server.log (sv s)))) = by_id i (cwrites (Client.log (cl s))) /\
  by_id i (creads (Client.log (cl s))) = by_id i (map f_env (swrites (Server.log (sv s)))).
Proof.
  intros H E1 E2 E3 E4. destruct (wire_complete _ _ _ H E1 E2 E3 E4) as [A B]. rewrite A, B. auto.
Qed.

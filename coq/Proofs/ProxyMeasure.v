(* Termination of the internal rules of Model/Proxy.v: a measure that every internal rule strictly decreases; every
   internal-only continuation is bounded by it; from every state a maximal internal continuation exists; and the
   (Q) theorems restated over maximal continuations. *)
From Coq Require Import List ZArith Bool Lia Arith.
Import ListNotations.
From Goat Require Import Model.Proxy Proofs.ProxyProofs Proofs.ProxyOrder Proofs.ProxyWire.
Open Scope nat_scope.

Definition w_rd (r : rdpc) : nat := match r with RDIdle | RDDead => 0 | RDOfferErr => 1 | RDRead => 2 | RDOffer _ => 6 end.
Definition w_wr (w : wrpc) : nat := match w with WRIdle | WRDead => 0 | WROfferErr => 1 | WRSel => 2 | WRWrite _ => 3 end.
Definition w_dl (d : dlpc) : nat := match d with DLOffer => 1 | _ => 0 end.
(* an envelope still to be read weighs 5: reading it (1), forwarding it (4, of which 3 go to the destination's
   buffer), taking it (1), writing it (1), ... *)
Definition cm (c : client) : nat :=
  5 * length (p_inbox c) + w_rd (p_rd c) + 3 * length (p_buf c) + w_wr (p_wr c) + w_dl (p_dl c).
Fixpoint msum (l : list client) : nat := match l with [] => 0 | c :: t => cm c + msum t end.
Definition measure (s : state) : nat := (if fw s then 1 else 0) + msum (clients s).

Lemma msum_upd l j c c' : nth_error l j = Some c -> msum (upd j c' l) + cm c = msum l + cm c'.
Proof.
  revert j. induction l; intros j H; destruct j; simpl in *; try discriminate.
  - inversion H; subst. lia.
  - specialize (IHl _ H). lia.
Qed.

Lemma msum_app l x : msum (l ++ [x]) = msum l + cm x.
Proof. induction l; simpl; lia. Qed.

Lemma cm_enqueue cf c e : cm (fst (enqueue_c cf c e)) <= cm c + 3.
Proof.
  unfold enqueue_c. destruct (Nat.ltb (length (p_buf c)) (cf_buf cf)); simpl; [|lia].
  unfold cm, set_buf. simpl. rewrite app_length. simpl. lia.
Qed.

Ltac known :=
  repeat match goal with
         | H : p_rd _ = _ |- _ => rewrite H in *; clear H
         | H : p_wr _ = _ |- _ => rewrite H in *; clear H
         | H : p_dl _ = _ |- _ => rewrite H in *; clear H
         | H : p_inbox _ = _ |- _ => rewrite H in *; clear H
         | H : p_buf _ = _ |- _ => rewrite H in *; clear H
         | H : fw _ = _ |- _ => rewrite H in *; clear H
         end.

Ltac one_upd :=
  unfold measure, add_log, set_clients; simpl;
  match goal with
  | H : nth_error ?l ?j = Some ?c |- context [msum (upd ?j ?c' ?l)] =>
      pose proof (msum_upd l j c c' H) as MU
  end;
  unfold cm in *; simpl in *; known; simpl in *; lia.

Lemma rule_measure cf s r s' : In r (rules cf s) -> r s = Some s' -> measure s' < measure s.
Proof.
  intros Hin H. apply rules_in in Hin. destruct Hin as [->|(j & E)].
  - unfold r_fw_exit in H. open_rule H. apply andb_true_iff in E. destruct E as [F _].
    unfold measure. simpl. rewrite F. lia.
  - simpl in E.
    destruct E as [<-|[<-|[<-|[<-|[<-|[<-|[<-|[<-|[<-|[<-|[<-|[<-|[<-|[]]]]]]]]]]]]]].
    + (* fw_cmd *)
      unfold r_fw_cmd in H. open_rule H.
      * one_upd.
      * one_upd.
      * one_upd.
      * (* route *)
        unfold measure, add_log, set_clients. simpl.
        match goal with
        | H1 : nth_error (clients s) j = Some ?c, H2 : nth_error (upd j ?c1 (clients s)) ?n = Some ?c0
          |- context [enqueue_c cf ?c0 ?e'] =>
            pose proof (msum_upd _ _ _ (fst (enqueue_c cf c0 e')) H2) as M2;
            pose proof (msum_upd _ _ _ c1 H1) as M1;
            pose proof (cm_enqueue cf c0 e') as M3
        end.
        unfold cm in M1, M3. simpl in M1, M3. known. simpl in *. unfold cm in *. lia.
      * (* dial *)
        unfold measure, add_log, set_clients. simpl. rewrite msum_app.
        match goal with
        | H1 : nth_error (clients s) j = Some ?c |- context [upd j ?c1 (clients s)] =>
            pose proof (msum_upd _ _ _ c1 H1) as M1
        end.
        match goal with |- context [enqueue_c cf (new_dialled ?d) ?e'] =>
            pose proof (cm_enqueue cf (new_dialled d) e') as M3 end.
        unfold cm in M1, M3. simpl in M1, M3. known. simpl in *. unfold cm in *. lia.
    + unfold r_fw_err_rd, disconnect in H. open_rule H. one_upd.
    + unfold r_fw_err_wr, disconnect in H. open_rule H. one_upd.
    + unfold r_fw_err_dl, disconnect in H. open_rule H. one_upd.
    + unfold r_rd_read in H. open_rule H; one_upd.
    + unfold r_rd_ctx in H. open_rule H. one_upd.
    + unfold r_rd_giveup in H. open_rule H; one_upd.
    + unfold r_wr_take in H. open_rule H. one_upd.
    + unfold r_wr_exit in H. open_rule H. one_upd.
    + unfold r_wr_write in H. open_rule H; one_upd.
    + unfold r_wr_ctx in H. open_rule H. one_upd.
    + unfold r_wr_giveup in H. open_rule H. one_upd.
    + unfold r_dl_giveup in H. open_rule H. one_upd.
Qed.

(* ---------- termination ---------- *)
Definition ints (ns : list nat) : list label := map LInt ns.

Lemma C16_measure_l cf s n s' : lstep cf s (LInt n) = Some s' -> measure s' < measure s.
Proof.
  simpl. destruct (nth_error (rules cf s) n) eqn:E; try discriminate. intros H.
  eapply rule_measure; eauto. eapply nth_error_In; eauto.
Qed.

Lemma C16_terminates_l cf : forall ns s s', lrun cf s (ints ns) = Some s' -> length ns + measure s' <= measure s.
Proof.
  induction ns; intros s s' H.
  - simpl in H. inversion H. simpl. lia.
  - unfold ints in H. simpl map in H. cbn [lrun] in H.
    destruct (lstep cf s (LInt a)) eqn:E; try discriminate.
    apply C16_measure_l in E. specialize (IHns _ _ H). simpl. lia.
Qed.

Lemma not_quiescent_step cf s : quiescent cf s = false -> exists n s', lstep cf s (LInt n) = Some s'.
Proof.
  unfold quiescent. intros H. apply negb_false_iff in H. apply existsb_exists in H.
  destruct H as (r & Hin & He). unfold enabled in He. destruct (r s) eqn:E; try discriminate.
  apply In_nth_error in Hin. destruct Hin as (n & Hn). exists n, s0. simpl. rewrite Hn. auto.
Qed.

Lemma run_to_quiescence cf : forall k s, measure s <= k ->
  exists ns s', lrun cf s (ints ns) = Some s' /\ quiescent cf s' = true.
Proof.
  induction k; intros s Hk.
  - destruct (quiescent cf s) eqn:Q.
    + exists [], s. simpl. auto.
    + apply not_quiescent_step in Q. destruct Q as (n & s1 & E). apply C16_measure_l in E. lia.
  - destruct (quiescent cf s) eqn:Q.
    + exists [], s. simpl. auto.
    + apply not_quiescent_step in Q. destruct Q as (n & s1 & E).
      pose proof (C16_measure_l _ _ _ _ E) as Hm.
      destruct (IHk s1) as (ns & s' & Hr & Hq); [lia|].
      exists (n :: ns), s'. split; auto. unfold ints. simpl map. cbn [lrun]. rewrite E. exact Hr.
Qed.

Lemma C16_run_to_quiescence_l cf s :
  exists ns s', lrun cf s (ints ns) = Some s' /\ quiescent cf s' = true /\ length ns <= measure s.
Proof.
  destruct (run_to_quiescence cf (measure s) s (le_n _)) as (ns & s' & Hr & Hq).
  exists ns, s'. repeat split; auto. apply C16_terminates_l in Hr. lia.
Qed.

Lemma lrun_app cf : forall a b s, lrun cf s (a ++ b) = match lrun cf s a with Some s1 => lrun cf s1 b | None => None end.
Proof.
  induction a; intros b s; simpl; auto. destruct (lstep cf s a); auto.
Qed.

Lemma lrun_log cf : forall ls s s', lrun cf s ls = Some s' -> exists evs, log s' = log s ++ evs.
Proof.
  induction ls; intros s s' H; simpl in H.
  - inversion H. exists []. rewrite app_nil_r. auto.
  - destruct (lstep cf s a) eqn:E; try discriminate.
    apply lstep_shape in E. apply shape_log in E. destruct E as (e1 & E1).
    destruct (IHls _ _ H) as (e2 & E2). exists (e1 ++ e2). rewrite E2, E1, app_assoc. auto.
Qed.

Lemma fwds_app i l evs : fwds i (l ++ evs) = fwds i l ++ fwds i evs.
Proof. unfold fwds. apply pick_app. Qed.

(* C16_delivered: from every reachable state, along EVERY maximal continuation by internal rules (no environment
   action; no internal rule enabled at its end), a record whose write loop is alive and idle at the end has been
   handed, in order and once each, everything that was ever enqueued for it - in particular, when nothing was
   dropped for it, everything accepted and routed to it up to the state the continuation started from (and since) *)
Lemma C16_delivered_l : forall cf ls s, lrun cf init ls = Some s ->
  forall ns s', lrun cf s (ints ns) = Some s' -> quiescent cf s' = true ->
  forall i ci, nth_error (clients s') i = Some ci -> p_wr ci = WRSel ->
    buf_of s' i = [] /\ wr_pend s' i = [] /\ wfails i (log s') = [] /\
    outs i (log s') = enqs i (log s') /\
    (dropped i (log s') = [] ->
       outs i (log s') = fwds i (log s') /\ exists later, outs i (log s') = fwds i (log s) ++ later).
Proof.
  intros cf ls s H ns s' Hr Q i ci Hi Hw.
  assert (lrun cf init (ls ++ ints ns) = Some s') as H' by (rewrite lrun_app, H; exact Hr).
  destruct (C16_delivered_Q_l _ _ _ H' Q i ci Hi Hw) as (A & B & C & D & E).
  split; auto. split; auto. split; auto. split; auto. intros Hd. split.
  - apply E; auto.
  - destruct (lrun_log _ _ _ _ Hr) as (evs & Hl). exists (fwds i evs). rewrite (E Hd), Hl. apply fwds_app.
Qed.

(* ---------- internal rules leave the cancellation flag alone; the forwarding loop ends only by cancellation ---------- *)
Lemma rule_cancelled cf s r s' : In r (rules cf s) -> r s = Some s' -> cancelled s' = cancelled s.
Proof.
  intros Hin H. apply rules_in in Hin. destruct Hin as [->|(j & E)].
  - unfold r_fw_exit in H. open_rule H. (simpl; congruence).
  - simpl in E.
    destruct E as [<-|[<-|[<-|[<-|[<-|[<-|[<-|[<-|[<-|[<-|[<-|[<-|[<-|[]]]]]]]]]]]]]].
    + unfold r_fw_cmd in H. open_rule H; (simpl; congruence).
    + unfold r_fw_err_rd, disconnect in H. open_rule H; (simpl; congruence).
    + unfold r_fw_err_wr, disconnect in H. open_rule H; (simpl; congruence).
    + unfold r_fw_err_dl, disconnect in H. open_rule H; (simpl; congruence).
    + unfold r_rd_read in H. open_rule H; (simpl; congruence).
    + unfold r_rd_ctx in H. open_rule H; (simpl; congruence).
    + unfold r_rd_giveup in H. open_rule H; (simpl; congruence).
    + unfold r_wr_take in H. open_rule H; (simpl; congruence).
    + unfold r_wr_exit in H. open_rule H; (simpl; congruence).
    + unfold r_wr_write in H. open_rule H; (simpl; congruence).
    + unfold r_wr_ctx in H. open_rule H; (simpl; congruence).
    + unfold r_wr_giveup in H. open_rule H; (simpl; congruence).
    + unfold r_dl_giveup in H. open_rule H; (simpl; congruence).
Qed.

Lemma ints_cancelled cf : forall ns s s', lrun cf s (ints ns) = Some s' -> cancelled s' = cancelled s.
Proof.
  induction ns; intros s s' H.
  - simpl in H. inversion H. auto.
  - unfold ints in H. simpl map in H. cbn [lrun] in H.
    destruct (lstep cf s (LInt a)) eqn:E; try discriminate.
    rewrite (IHns _ _ H). simpl in E. destruct (nth_error (rules cf s) a) eqn:En; try discriminate.
    eapply rule_cancelled; eauto. eapply nth_error_In; eauto.
Qed.

Definition inv_fw (s : state) : Prop := fw s = false -> cancelled s = true.

Lemma fw_ok cf s : reachable cf s -> inv_fw s.
Proof.
  apply (reachable_inv cf inv_fw).
  - unfold inv_fw. simpl. discriminate.
  - intros s0 l s1 I H. apply lstep_shape in H. unfold inv_fw in *.
    destruct H; subst; simpl; auto.
Qed.

(* C17_shutdown over maximal continuations: once the context is cancelled, EVERY maximal internal continuation ends
   in a state without any goroutine of the proxy - provided the transports of that final state honour their
   context and no newConnection call is outstanding in it (an unanswered dial keeps its goroutine: it is inside the
   user's callback). The table is NOT emptied by the shutdown: the forwarding loop, which alone removes entries,
   is gone - neither in the code nor in the model. *)
Lemma C17_shutdown_terminates_l : forall cf ls s, lrun cf init ls = Some s -> cancelled s = true ->
  (exists ns s', lrun cf s (ints ns) = Some s' /\ quiescent cf s' = true /\ length ns <= measure s) /\
  forall ns s', lrun cf s (ints ns) = Some s' -> quiescent cf s' = true ->
    (forall i c, nth_error (clients s') i = Some c -> p_honour c = true /\ dial_pending c = false) ->
    fw s' = false /\ forall i c, nth_error (clients s') i = Some c -> client_alive c = false.
Proof.
  intros cf ls s H Can. split. apply C16_run_to_quiescence_l.
  intros ns s' Hr Q Hon. apply shutdown_quiescent with (cf := cf); auto.
  rewrite (ints_cancelled _ _ _ _ Hr). auto.
Qed.

(* C17_errors_reported over maximal continuations: while the context is live, at the end of EVERY maximal internal
   continuation the forwarding loop runs, no goroutine is left offering an envelope or an error, and every record
   one of whose loops has ended (or whose dial failed) has been reported to the callback and has lost its entry *)
Lemma C17_errors_reported_run_l : forall cf ls s, lrun cf init ls = Some s -> cancelled s = false ->
  forall ns s', lrun cf s (ints ns) = Some s' -> quiescent cf s' = true ->
    fw s' = true /\
    forall i c, nth_error (clients s') i = Some c ->
      p_rd c <> RDOfferErr /\ p_wr c <> WROfferErr /\ p_dl c <> DLOffer /\ (forall e, p_rd c <> RDOffer e) /\
      ((p_rd c = RDDead \/ p_wr c = WRDead \/ (p_dl c = DLDead /\ p_rd c = RDIdle)) ->
       discs i (log s') <> [] /\ p_reg c = false).
Proof.
  intros cf ls s H Can ns s' Hr Q.
  assert (lrun cf init (ls ++ ints ns) = Some s') as H' by (rewrite lrun_app, H; exact Hr).
  assert (cancelled s' = false) as Can' by (rewrite (ints_cancelled _ _ _ _ Hr); auto).
  assert (fw s' = true) as F.
  { destruct (fw s') eqn:F; auto. pose proof (fw_ok _ _ (ex_reach _ _ _ H') F). congruence. }
  split; auto. intros i c Hi.
  destruct (C17_errors_reported_l _ _ _ H' Q F i c Hi) as (A & B & C & D).
  split; auto. split; auto. split; auto. split; auto.
  intros X. exact (C17_remove_l _ _ _ H' Can' i c Hi X).
Qed.

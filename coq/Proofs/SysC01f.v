(* C01, "never none", the client half: with no fault and no cancellation every result of a unary call is the
   classification of an envelope the call took from its queue (UX); composition: C01_complete_ok. *)
From Coq Require Import List ZArith Bool Lia Arith.
Import ListNotations.
From Goat Require Import Model.Client Model.Server Proofs.ClientBase Proofs.ClientInv Proofs.ClientLog Proofs.ClientProps Proofs.ProtocolClient
  Proofs.ServerProofs Proofs.ServerInv Proofs.ServerTrace
  Model.Sys Proofs.SysLog Proofs.SysProofs Proofs.SysFacts Proofs.SysFacts2 Proofs.SysC01 Proofs.SysC01b Proofs.SysC01c Proofs.SysC01d
  Proofs.SysCff Proofs.SysC01e.
Open Scope Z_scope.

Definition taken_as (c : nat) (r : ures) (l : list cev) : Prop := exists e, In (EvTake c e) l /\ classify e = r.

Definition UXh (s : Client.state) (c : nat) (k : call) : Prop :=
  k_ctx k = CtxLive /\
  (k_unary k = true ->
   (forall r, k_pc k = PUnreg r -> taken_as c r (Client.log s)) /\
   (forall r, In (EvUnaryRet c r) (Client.log s) -> taken_as c r (Client.log s)) /\
   (k_pc k = PWait -> k_reg k = false -> rerr s = true)).
Definition UX (s : Client.state) : Prop := forall c k, nth_error (calls s) c = Some k -> UXh s c k.

Lemma taken_as_mono c r l evs : taken_as c r l -> taken_as c r (l ++ evs).
Proof. intros (e & A & B). exists e. split; auto. apply in_or_app. auto. Qed.

(* a step that changes call c0 only *)
Lemma UX_upd s s' c0 k0 k' evs :
  UX s -> calls s' = upd c0 k' (calls s) -> nth_error (calls s) c0 = Some k0 ->
  Client.log s' = Client.log s ++ evs -> (rerr s = true -> rerr s' = true) ->
  (forall c r, c <> c0 -> ~ In (EvUnaryRet c r) evs) ->
  k_ctx k' = k_ctx k0 -> k_unary k' = k_unary k0 ->
  (k_unary k0 = true ->
   (forall r, k_pc k' = PUnreg r -> k_pc k0 = PUnreg r \/ taken_as c0 r (Client.log s')) /\
   (forall r, In (EvUnaryRet c0 r) evs -> k_pc k0 = PUnreg r \/ taken_as c0 r (Client.log s')) /\
   (k_pc k' = PWait -> k_reg k' = false -> (k_pc k0 = PWait /\ k_reg k0 = false) \/ rerr s' = true)) ->
  UX s'.
Proof.
  intros HX Hc Hn Hl Hr Hq Hctx Hu Hk c k P. rewrite Hc in P. destruct (Nat.eq_dec c c0) as [->|Hne].
  - rewrite nth_upd_eq in P by (eapply nth_some_lt; eauto). inversion P; subst k.
    destruct (HX _ _ Hn) as (A & B). split; [congruence|]. intros U. rewrite Hu in U. destruct (B U) as (B1 & B2 & B3).
    destruct (Hk U) as (K1 & K2 & K3). split; [|split].
    + intros r Pc. destruct (K1 r Pc) as [X | X]; auto. rewrite Hl. apply taken_as_mono. auto.
    + intros r Hin. rewrite Hl in Hin. apply in_app_or in Hin. destruct Hin as [Hin | Hin].
      * rewrite Hl. apply taken_as_mono. auto.
      * destruct (K2 r Hin) as [X | X]; auto. rewrite Hl. apply taken_as_mono. auto.
    + intros Pw Rg. destruct (K3 Pw Rg) as [(X & Y) | X]; auto.
  - rewrite nth_upd_neq in P by auto. destruct (HX _ _ P) as (A & B). split; [exact A|]. intros U. destruct (B U) as (B1 & B2 & B3).
    split; [|split].
    + intros r Pc. rewrite Hl. apply taken_as_mono. auto.
    + intros r Hin. rewrite Hl in Hin. apply in_app_or in Hin. destruct Hin as [Hin | Hin]; [rewrite Hl; apply taken_as_mono; auto | exfalso; eapply Hq; eauto].
    + intros Pw Rg. auto.
Qed.

Lemma UX_same s s' evs :
  UX s -> calls s' = calls s -> Client.log s' = Client.log s ++ evs -> (rerr s = true -> rerr s' = true) ->
  (forall c r, ~ In (EvUnaryRet c r) evs) -> UX s'.
Proof.
  intros HX Hc Hl Hr Hq c k P. rewrite Hc in P. destruct (HX _ _ P) as (A & B). split; [exact A|]. intros U. destruct (B U) as (B1 & B2 & B3).
  split; [|split].
  - intros r Pc. rewrite Hl. apply taken_as_mono. auto.
  - intros r Hin. rewrite Hl in Hin. apply in_app_or in Hin. destruct Hin as [Hin | Hin]; [rewrite Hl; apply taken_as_mono; auto | exfalso; eapply Hq; eauto].
  - intros Pw Rg. auto.
Qed.

Ltac nouret_tac := let c := fresh in let r := fresh in let X := fresh in
  intros c r X; simpl in X; repeat (destruct X as [X|X]; [discriminate X|]); exact X.
Ltac nouret2_tac := let c := fresh in let r := fresh in let hZ := fresh in let X := fresh in
  intros c r hZ X; simpl in X; repeat (destruct X as [X|X]; [first [discriminate X | inversion X; congruence]|]); exact X.
Ltac rerr_tac2 := csimpl; intros; first [assumption | congruence].

Ltac ux_side :=
  csimpl; let hU := fresh in intros hU; split; [|split];
  [ let r := fresh in let h := fresh in intros r h; first [discriminate h | left; exact h | congruence]
  | let r := fresh in let X := fresh in intros r X; exfalso; simpl in X; repeat (destruct X as [X|X]; [discriminate X|]); exact X
  | let h1 := fresh in let h2 := fresh in intros h1 h2; first [discriminate h1 | discriminate h2 | left; split; assumption | congruence] ].

Ltac UX_done HX :=
  csimpl;
  try match goal with |- context [if k_reg ?k then _ else _] => destruct (k_reg k) eqn:? end;
  csimpl;
  first [ eapply (UX_same _ _ []); [exact HX | reflexivity | csimpl; rewrite app_nil_r; reflexivity | rerr_tac2 | nouret_tac]
        | eapply UX_same; [exact HX | reflexivity | csimpl; rewrite <- ?app_assoc; reflexivity | rerr_tac2 | nouret_tac]
        | match goal with E : nth_error (calls ?s) ?c = Some ?k |- UX _ =>
            first [ eapply (UX_upd s _ c k _ []); [exact HX | csimpl; reflexivity | exact E | csimpl; rewrite app_nil_r; reflexivity
                                                  | rerr_tac2 | nouret2_tac | csimpl; reflexivity | csimpl; reflexivity | ux_side]
                  | eapply (UX_upd s _ c k); [exact HX | csimpl; reflexivity | exact E | csimpl; rewrite <- ?app_assoc; reflexivity
                                             | rerr_tac2 | nouret2_tac | csimpl; reflexivity | csimpl; reflexivity | ux_side] ]
          end ].

Lemma UX_int s r s' : cinv s -> cff s -> UX s -> In r (Client.rules s) -> r s = Some s' -> UX s'.
Proof.
  intros HI (F1 & F2 & F3) HX Hin H. apply rules_in in Hin. destruct Hin as [->|[->|(c & _ & Hin)]].
  - unfold r_rl_unblock in H. open_rule H; try (UX_done HX).
  - unfold r_rl_read in H. open_rule H; try (UX_done HX). congruence.
  - simpl in Hin.
    repeat (destruct Hin as [<-|Hin];
            [ unfold r_check, r_reg, r_wait, r_wait_ctx, r_unreg, r_loop_read, r_loop_read_ctx, r_loop_hand,
                     r_loop_hand_ctx, r_loop_exit, r_loop_unreg, r_recv, r_header, r_trailer, r_send in H;
              open_rule H; try (UX_done HX) | ]).
    all: try destruct Hin.
    all: try congruence.
    + (* r_reg: the write fails or the context is done: excluded *)
      exfalso. destruct (HX _ _ E) as (A & _). rewrite A, F3 in *. simpl in *. discriminate.
    + (* r_wait: the result is the classification of the envelope taken *)
      eapply (UX_upd s _ c c0); [exact HX | csimpl; reflexivity | exact E | csimpl; reflexivity | rerr_tac2 | nouret2_tac | csimpl; reflexivity | csimpl; reflexivity | ].
      csimpl. intros U. split; [|split].
      * intros r0 Pr. inversion Pr; subst. right. exists e. split; [apply in_or_app; right; left; reflexivity | reflexivity].
      * intros r0 [X|[]]. discriminate X.
      * intros X. discriminate X.
    + (* r_wait on a closed, empty queue: only after a read failure *)
      exfalso. pose proof (cinv_call _ _ _ HI E) as K. destruct (HX _ _ E) as (_ & B).
      pose proof (ki_kind _ K) as Kk. rewrite E0 in Kk. destruct (k_unary c0) eqn:U; [|discriminate Kk].
      destruct (B eq_refl) as (_ & _ & B3).
      destruct (k_reg c0) eqn:Er; [pose proof (ki_reg_notclosed _ K Er); congruence | rewrite (B3 E0 eq_refl) in F2; discriminate F2].
    + (* r_wait_ctx: excluded *)
      exfalso. destruct (HX _ _ E) as (A & _). rewrite A in *. discriminate.
    + (* r_unreg *)
      destruct (k_reg c0); (eapply (UX_upd s _ c c0); [exact HX | csimpl; reflexivity | exact E | csimpl; reflexivity | rerr_tac2 | | csimpl; reflexivity | csimpl; reflexivity | ]).
      all: try (intros c' r' Hne [X|[]]; inversion X; congruence).
      all: csimpl; intros U; (split; [|split]);
        [ intros r0 X; discriminate X | intros r0 [X|[]]; inversion X; subst; left; exact E0 | intros X; discriminate X ].
    + (* r_loop_unreg: a stream *)
      assert (Po : k_pc c0 = POpen) by (apply (ki_loop_open _ (cinv_call _ _ _ HI E)); unfold loop_alive; rewrite E0; reflexivity).
      eapply (UX_upd s _ c c0 _ []); [exact HX | csimpl; reflexivity | exact E | csimpl; rewrite app_nil_r; reflexivity | rerr_tac2 | nouret2_tac | csimpl; reflexivity | csimpl; reflexivity | ].
      csimpl. intros U. split; [|split]; [intros r0 X; congruence | intros r0 [] | intros X; congruence].
    + (* r_send: teardown, a stream *)
      assert (Po : k_pc c0 = POpen) by (apply (ki_ops_open _ (cinv_call _ _ _ HI E)); unfold ops_pending, send_pending; rewrite E0, !orb_true_r; reflexivity).
      match goal with |- UX (Client.add_log _ ?evs) =>
        eapply (UX_upd s _ c c0 _ evs); [exact HX | csimpl; reflexivity | exact E | csimpl; reflexivity | rerr_tac2 | nouret2_tac | csimpl; reflexivity | csimpl; reflexivity | ] end.
      csimpl. intros U. split; [|split]; [intros r0 X; congruence | intros r0 [X|[]]; discriminate X | intros X; congruence].
Qed.

Lemma no_uret_fresh s c r : R s -> (length (calls s) <= c)%nat -> ~ In (EvUnaryRet c r) (Client.log s).
Proof.
  intros HR Hc Hin. specialize (HR c). rewrite (proj2 (nth_error_None _ _) Hc) in HR.
  unfold ret_count in HR. assert (X : In (EvUnaryRet c r) (filter (is_uret c) (Client.log s))).
  { apply filter_In. split; auto. unfold is_uret. rewrite Nat.eqb_refl. reflexivity. }
  destruct (filter (is_uret c) (Client.log s)); [destruct X | discriminate HR].
Qed.

Lemma UX_with_call s c g :
  UX s -> (forall k k', g k = Some k' -> k_ctx k' = k_ctx k /\ k_unary k' = k_unary k /\ k_pc k' = k_pc k /\ k_reg k' = k_reg k) -> UX (with_call s c g).
Proof.
  intros HX Hg. unfold with_call. destruct (nth_error (calls s) c) as [k|] eqn:E; [|exact HX].
  destruct (g k) as [k'|] eqn:G; [|exact HX]. destruct (Hg _ _ G) as (A & B & C & D).
  eapply (UX_upd s _ c k k' []); [exact HX | reflexivity | exact E | simpl; rewrite app_nil_r; reflexivity | auto | intros ? ? ? [] | exact A | exact B | ].
  intros U. rewrite C, D. split; [|split]; [intros; left; auto | intros r0 [] | intros; left; auto].
Qed.

Lemma UX_new s k0 : R s -> UX s -> k_ctx k0 = CtxLive -> (forall r, k_pc k0 <> PUnreg r) -> k_pc k0 <> PWait ->
  UX (Client.mkState (counter s) (rerr s) (rl s) (Client.inbox s) (Client.inbox_failed s) (Client.wfail s) (calls s ++ [k0]) (Client.log s)).
Proof.
  intros HR HX Hc Hp Hw c k P. csimpl. destruct (nth_app_cases _ _ _ _ P) as [(P' & _) | (-> & ->)]; [apply (HX _ _ P')|].
  split; [exact Hc|]. intros U. split; [|split].
  - intros r Pr. exfalso. eapply Hp; eauto.
  - intros r Hin. exfalso. eapply no_uret_fresh; eauto.
  - intros X. congruence.
Qed.

Definition not_cancel (a : Client.act) : Prop := match a with ACancel _ | AExpire _ => False | _ => True end.

Lemma UX_ext s a : R s -> UX s -> not_cancel a -> UX (Client.ext s a).
Proof.
  intros HR HX Ha. destruct a; try contradiction; simpl;
    try (apply UX_with_call; [exact HX|]; intros k k' G;
         repeat match type of G with
                | match ?x with _ => _ end = Some _ => destruct x eqn:?; try discriminate G
                end; inversion G; subst; csimpl; auto);
    try (eapply (UX_same _ _ []); [exact HX | reflexivity | simpl; rewrite app_nil_r; reflexivity | auto | intros ? ? []]).
  - apply UX_new; auto; discriminate.
  - apply UX_new; auto; discriminate.
  - destruct (nth_error (calls s) c) as [k|] eqn:E; [|exact HX].
    destruct (k_pc k) eqn:P; try exact HX.
    eapply (UX_upd _ _ c k _ []); [exact HX | csimpl; reflexivity | exact E | csimpl; rewrite app_nil_r; reflexivity | auto | intros ? ? ? [] | csimpl; reflexivity | csimpl; reflexivity | ].
    csimpl. intros U. split; [|split]; [intros r0 X; discriminate X | intros r0 [] | intros X; discriminate X].
Qed.

(* ---------- the system ---------- *)
Theorem UX_sys pol ls : forall s, Sys.lrun pol Sys.init ls = Some s -> fault_free ls = true -> no_cancel ls = true -> UX (cl s).
Proof.
  induction ls as [|l ls IH] using rev_ind; intros s H Hff Hnc.
  - inversion H; subst. intros c k P. destruct c; discriminate P.
  - unfold fault_free in Hff. rewrite forallb_app in Hff. apply andb_prop in Hff. destruct Hff as (Hff & Hl0). simpl in Hl0. rewrite andb_true_r in Hl0.
    unfold no_cancel in Hnc. rewrite forallb_app in Hnc. apply andb_prop in Hnc. destruct Hnc as (Hnc & Hl1). simpl in Hl1. rewrite andb_true_r in Hl1.
    destruct (sys_lrun_snoc _ _ _ _ _ H) as (s1 & H1 & Hl). pose proof (IH _ H1 Hff Hnc) as HX.
    pose proof (proj_c_run _ _ _ _ H1) as Hc1. pose proof (R_reach _ _ Hc1) as HR.
    pose proof (lstep_cl _ _ _ _ Hl) as X. destruct l as [x|x| |].
    + destruct X as (Hc & _ & _). destruct x as [a|n]; simpl in Hc.
      * inversion Hc. apply UX_ext; auto. destruct a; simpl in Hl1; try discriminate; exact I.
      * destruct (nth_error (Client.rules (cl s1)) n) as [r|] eqn:E; [|discriminate]. apply nth_error_In in E.
        eapply UX_int; [apply (all_inv_reach _ _ Hc1) | eapply cff_sys; eauto | exact HX | exact E | exact Hc].
    + destruct X as (_ & _ & _ & ->). exact HX.
    + destruct X as (f & rest & _ & _ & -> & _). exact HX.
    + destruct X as (e & rest & _ & -> & _). apply UX_ext; auto. exact I.
Qed.

(* C01, never none: fault-free, nobody cancels, payloads and f non-negative (a negative token is an undecodable message):
   in a quiescent state every call has returned OK with the reply f (its own request) *)
Theorem C01_complete_ok f ls s :
  (forall x, 0 <= x -> 0 <= f x) ->
  Sys.lrun (pol_c01 f) Sys.init ls = Some s -> fault_free ls = true -> no_cancel ls = true ->
  Sys.quiescent s = true ->
  (forall c k, nth_error (calls (cl s)) c = Some k -> k_unary k = true /\ k_pc k <> PParked /\ 0 <= k_payload k) ->
  forall c k, nth_error (calls (cl s)) c = Some k -> In (EvUnaryRet c (UOk (f (k_payload k)))) (Client.log (cl s)).
Proof.
  intros Hf H Hff Hnc Hq Hall c k Hn.
  pose proof (proj_c_run _ _ _ _ H) as Hc. pose proof (proj_s_run_pol _ _ _ _ H) as Hs.
  destruct (all_inv_reach _ _ Hc) as (HI & HS & HL).
  destruct (Hall _ _ Hn) as (Hu & _ & Hpay).
  assert (Hret : k_pc k = PRet).
  { eapply (C01_complete f ls s H Hff Hq); [|exact Hn]. intros c1 k1 P1. destruct (Hall _ _ P1) as (A & B & _). auto. }
  (* exactly one result *)
  pose proof (R_reach _ _ Hc c) as HR. rewrite Hn in HR. unfold is_ret in HR. rewrite Hret in HR. simpl in HR.
  unfold ret_count in HR.
  destruct (filter (is_uret c) (Client.log (cl s))) as [|ev l0] eqn:Ef; [discriminate HR|].
  assert (Hev : In ev (filter (is_uret c) (Client.log (cl s)))) by (rewrite Ef; left; reflexivity).
  apply filter_In in Hev. destruct Hev as (Hev & Hu1). destruct ev; try discriminate Hu1. simpl in Hu1. apply Nat.eqb_eq in Hu1. subst c0.
  (* it classifies an envelope the call took *)
  destruct (UX_sys _ _ _ H Hff Hnc _ _ Hn) as (_ & B). destruct (B Hu) as (_ & B2 & _).
  destruct (B2 _ Hev) as (e' & Htk & Hcl).
  destruct (li_ev _ HL _ Htk) as ((k1 & Hk1 & Hid & Hpos) & Hrd). rewrite Hn in Hk1. inversion Hk1; subst k1.
  destruct (client_read_was_written _ _ _ _ _ H Hrd) as (fr & Hw & Hfe).
  destruct (srv_reply_ok f _ _ fr Hf Hs Hw) as [(S1 & S2 & b & S3 & S4) | (rq & Q1 & Q2 & Q3)].
  - (* an OK-shaped reply *)
    rewrite Hfe in S1, S3. unfold classify in Hcl. rewrite S1, S3 in Hcl.
    destruct (b <? 0) eqn:Eb; [apply Z.ltb_lt in Eb; lia|]. subst r.
    rewrite <- (C01_pairing f ls s c k b H Hn Hu Hev). exact Hev.
  - (* excused by a bad request read under the call's id: but the client wrote a well-formed one *)
    exfalso. apply Q3.
    destruct (server_read_was_written _ _ _ _ H Q1) as (Hsent & Hcw).
    destruct (sent_ok_init _ _ _ H _ Hsent) as (c1 & k1 & Hk1' & Hid1 & Hpos1 & Hm1 & Hd1).
    assert (Hidk : fid rq = k_id k) by (rewrite Q2; unfold fid; rewrite Hfe; auto).
    assert (c1 = c).
    { destruct (Nat.eq_dec c1 c); auto. exfalso. eapply (si_id_uniq _ HS c1 c k1 k); eauto. lia. congruence. }
    subst c1. rewrite Hn in Hk1'. inversion Hk1'; subst k1.
    pose proof (unary_writes _ _ _ _ _ Hc Hn Hu Hcw Hidk) as Ereq.
    unfold goodreq, dispatch, has_hdr, md_bad, body_tok. rewrite Ereq, Hm1, Hd1. unfold kind_of. rewrite Hu. simpl.
    repeat split; auto.
Qed.

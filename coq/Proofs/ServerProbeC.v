(* C11, server side, closed-system form: on a live connection, wherever the closed system stops, every unary request
   (the probe) has been read and dispatched and the reply of every unary handler that returned is on the wire -
   whatever other handlers did (returned with unread messages, still running, parked). *)
From Coq Require Import List ZArith Bool Lia Arith.
Import ListNotations.
From Goat Require Import Model.Client Model.Server Proofs.ServerProofs Proofs.ServerInv Proofs.ServerLive Proofs.ServerTrace
  Proofs.ServerRoute Proofs.ServerDispatch Proofs.ServerProbe Proofs.ServerWriter Proofs.ServerServing Proofs.ServerTerm Proofs.ServerClosed.
Open Scope Z_scope.

(* a reply handed back by a unary handler is written wherever a LIVE connection is at rest with a transport that does
   not block writes: no hypothesis on the other handlers *)
Theorem srv_reply_written nw ls s : lrun (init_n nw) ls = Some s ->
  quiescent s = true -> wblock s = false -> hctx_done s = false ->
  forall h f, In (SvReply h f) (log s) -> In (SvWrite f) (log s).
Proof.
  intros H Q Hb Hc h f Hin.
  pose proof (inv_reach nw ls s H) as Iv. pose proof (pinv_reach nw ls s H) as P.
  destruct (q_writer nw s Iv Q (or_introl Hb)) as [[_ Hwr] | [Hc' _]]; [|congruence].
  destruct (p_reply s P h f Hin) as [[w Hw] | [Ht | Hl]].
  - exfalso. assert (Hl := nth_error_lt _ _ _ Hw).
    pose proof (q_wk s w r_wk_hand Q Hl ltac:(simpl; tauto)) as H2. unfold r_wk_hand in H2. rewrite Hw, Hwr in H2. discriminate.
  - apply in_taken in Ht. rewrite (srv_taken_written nw ls s H) in Ht. unfold inflight in Ht. rewrite Hwr, app_nil_r in Ht.
    apply in_map_iff in Ht. destruct Ht as [[b g] [E Ho]]. simpl in E. subst g.
    unfold outcomes in Ho. apply in_flat_map in Ho. destruct Ho as [e [He Hx]].
    destruct e; try contradiction; destruct Hx as [Hx | []]; inversion Hx; subst.
    + exact He.
    + exfalso. pose proof (srv_wfail_cancels nw ls s H f He). congruence.
  - exfalso. destruct (p_lost s P f Hl) as [Hx | [m Hm]]; [congruence|].
    destruct (p_rmth s P h f Hin) as [m' Hm']. congruence.
Qed.

(* the read loop of a live connection at rest is in rw.Read with nothing unread, unless something keeps it:
   [rd_not_kept] (ServerClosed.v) *)
Lemma q_rd_reading nw s :
  (1 <= nw)%nat -> inv nw s -> quiescent s = true -> hctx_done s = false -> rd_not_kept s ->
  rd s = RdRead /\ inbox s = [].
Proof.
  intros Hnw I Q Hc [Hb [[w [p [Hw Hp]]] Hq]].
  destruct (q_writer nw s I Q (or_introl Hb)) as [[_ Hwr] | [Hc' _]]; [|congruence].
  destruct (rd s) eqn:Erd.
  - split; [reflexivity|]. pose proof (q_fixed s RRdRead Q Logic.I) as H1. simpl in H1. unfold r_rd_read in H1. rewrite Erd in H1.
    destruct (inbox s); [reflexivity | destruct (dispatch f); discriminate].
  - exfalso. pose proof (q_fixed s RRdOffer Q Logic.I) as H1. simpl in H1. unfold r_rd_offer in H1. rewrite Erd in H1.
    destruct (find_idle (wk s) 0) eqn:Ef; [discriminate|]. assert (Hl := nth_error_lt _ _ _ Hw).
    destruct p.
    + exact (find_idle_none _ _ Ef w Hw).
    + exact (Hp h eq_refl).
    + pose proof (q_wk s w r_wk_hand Q Hl ltac:(simpl; tauto)) as H2. unfold r_wk_hand in H2. rewrite Hw, Hwr in H2. discriminate.
    + pose proof (i_wk_dead nw s I w Hw). congruence.
  - exfalso. pose proof (i_rd nw s I) as Hrd. rewrite Erd in Hrd. destruct Hrd as [k [Hn [Hreg Hid]]].
    assert (Hl := nth_error_lt _ _ _ Hn).
    pose proof (q_fixed s RRdFwdEnq Q Logic.I) as H0. simpl in H0. unfold r_rd_fwd_enq in H0. rewrite Erd, Hn in H0.
    destruct (h_q k) eqn:Eq; [|discriminate].
    assert (Hret : h_returned k = true) by (apply (Hq h k Hn); congruence).
    destruct (i_h nw s I h k Hn) as [K1 [K2 [K3 K4]]].
    unfold h_returned in Hret. destruct (h_pc k) eqn:Hpc; try discriminate.
    + destruct k0; try discriminate.
      pose proof (q_h s h r_h_send Q Hl ltac:(simpl; tauto)) as H1. unfold r_h_send in H1.
      rewrite Hn, Hwr, Hpc in H1. discriminate.
    + pose proof (q_fixed s RRdFwdGone Q Logic.I) as H1. simpl in H1. unfold r_rd_fwd_gone in H1.
      rewrite Erd, Hn in H1. unfold hdone in H1. rewrite (K3 eq_refl) in H1. discriminate.
    + rewrite (reg_alive nw s h k I Hn) in Hreg. unfold hs_alive, h_alive in Hreg. rewrite Hpc in Hreg.
      rewrite andb_false_r in Hreg. discriminate.
  - exfalso. pose proof (q_fixed s RRdRst Q Logic.I) as H1. simpl in H1. unfold r_rd_rst in H1.
    rewrite Erd, Hwr in H1. destruct (has_hdr f); discriminate.
  - exfalso. destruct (exited_hctx nw s I) as [H _]; [unfold rd_exited; now rewrite Erd | congruence].
  - exfalso. destruct (exited_hctx nw s I) as [H _]; [unfold rd_exited; now rewrite Erd | congruence].
  - exfalso. destruct (exited_hctx nw s I) as [H _]; [unfold rd_exited; now rewrite Erd | congruence].
Qed.

(* closed runs are peer-only *)
Lemma crun_peer_only s ls s' : crun s ls = Some s' -> forallb peer_only ls = true.
Proof.
  revert s. induction ls as [|l ls IH]; intros s H; [reflexivity|]. cbn [crun] in H.
  destruct (closed_at s l) eqn:Hc; [|discriminate]. destruct (lstep s l) as [s1|]; [|discriminate].
  simpl. rewrite (IH s1 H), andb_true_r. destruct l as [a|n]; [|reflexivity]. destruct a; try discriminate. reflexivity.
Qed.

(* the probe completes: a run in which only the peer and the handlers acted (any envelopes; handlers returned with unread
   messages, still running, parked - anything), continued by the closed system to a final state: if the read loop is not
   kept there (transport not blocking writes, a worker not running a handler, no stream handler sitting on a full
   queue), then every envelope the peer sent has been read, every unary request has been handed to a worker and a handler
   was started for exactly those that decode, and the reply of EVERY unary handler that has returned is on the wire *)
Theorem srv_probe_completes nw ls s : (1 <= nw)%nat -> forallb peer_only ls = true -> lrun (init_n nw) ls = Some s ->
  forall ls' s', crun s ls' = Some s' -> final s' = true -> rd_not_kept s' ->
    rd s' = RdRead /\ inbox s' = []
    /\ ureads (log s') = jobs (log s') /\ ureqs s' = filter unary_ok (ureads (log s'))
    /\ (forall h f, In (SvReply h f) (log s') -> In (SvWrite f) (log s')).
Proof.
  intros Hnw Hp H ls' s' Hr F K.
  assert (Hp' : forallb peer_only (ls ++ ls') = true) by (rewrite forallb_app, Hp; exact (crun_peer_only s ls' s' Hr)).
  assert (H1 : lrun (init_n nw) (ls ++ ls') = Some s') by (rewrite lrun_app, H; now apply crun_lrun).
  pose proof (srv_stays_serving nw _ _ Hp' H1) as S. destruct (serving_hctx s' S) as [Hc _].
  pose proof (inv_reach nw _ _ H1) as Iv. pose proof (final_quiescent s' F) as Q.
  destruct (q_rd_reading nw s' Hnw Iv Q Hc K) as [Erd Ei]. split; [assumption|]. split; [assumption|].
  assert (Hx : rd_exited s' = false) by (unfold rd_exited; now rewrite Erd).
  destruct K as [Hb [[w [p [Hw Hpw]]] _]].
  assert (Hidle : exists w, nth_error (wk s') w = Some WkIdle).
  { exists w. destruct (q_writer nw s' Iv Q (or_introl Hb)) as [[_ Hwr] | [Hc' _]]; [|congruence].
    assert (Hl := nth_error_lt _ _ _ Hw). destruct p; auto; exfalso.
    - exact (Hpw h eq_refl).
    - pose proof (q_wk s' w r_wk_hand Q Hl ltac:(simpl; tauto)) as H2. unfold r_wk_hand in H2. rewrite Hw, Hwr in H2. discriminate.
    - pose proof (i_wk_dead nw s' Iv w Hw). congruence. }
  destruct (srv_dispatch_complete nw _ s' H1 Q Hx Hidle) as [U1 U2].
  split; [assumption|]. split; [assumption|]. exact (srv_reply_written nw _ s' H1 Q Hb Hc).
Qed.

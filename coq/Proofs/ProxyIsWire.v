(* C16, end-to-end clause, proxy side: between a source record j and a destination record i the proxy is observationally
   a FIFO wire that rewrites only routing fields: what was put on the wire (accepted from j, routed to i, route applied)
   = what came out at i's connection ++ what is in flight, in order; every invariant of the abstract FIFO wire (closed
   under "enqueue at the tail" and "dequeue the head") therefore holds of the proxy's projection. *)
From Coq Require Import List ZArith Bool Lia Arith.
Import ListNotations.
From Goat Require Import Model.Proxy Proofs.ProxyProofs Proofs.ProxyOrder Proofs.ProxyWire.
Open Scope nat_scope.

(* the abstraction: per (source record, destination record) *)
(* number of envelopes of record i's enqueued sequence that have left the proxy: handed to the connection, or the
   object of the (at most one) failed write *)
Definition gone (s : state) (i : nat) : nat := length (outs i (log s)) + length (wfails i (log s)).
Definition from (j : nat) (l : list (nat * env)) : list env := map snd (filter (fun p => Nat.eqb (fst p) j) l).
(* put on the wire j -> i: accepted from j, routed to i, with the route applied *)
Definition wire_sent (s : state) (j i : nat) : list env := map snd (routed j i (log s)).
(* come out of the wire at i's connection *)
Definition wire_delivered (s : state) (j i : nat) : list env := from j (firstn (gone s i) (enqs_from i (log s))).
(* in flight: in i's write loop or buffer *)
Definition proxy_as_wire (s : state) (j i : nat) : list env := from j (skipn (gone s i) (enqs_from i (log s))).

Lemma from_app j a b : from j (a ++ b) = from j a ++ from j b.
Proof. unfold from. rewrite filter_app, map_app. auto. Qed.

(* C16_is_wire: sent = delivered ++ in flight (FIFO: in order, each once), for every pair, whenever nothing was
   dropped for the destination; and the envelopes in flight are, all sources together, exactly what i's write loop
   holds and what its buffer holds *)
Lemma C16_is_wire_l : forall cf ls s, lrun cf init ls = Some s -> forall j i, dropped i (log s) = [] ->
  wire_sent s j i = wire_delivered s j i ++ proxy_as_wire s j i /\
  map snd (skipn (gone s i) (enqs_from i (log s))) = wr_pend s i ++ buf_of s i /\
  map snd (firstn (gone s i) (enqs_from i (log s))) = outs i (log s) ++ wfails i (log s).
Proof.
  intros cf ls s H j i Hd.
  destruct (C16_wire_l _ _ _ H j i Hd) as (A & B & _).
  split; [|split].
  - unfold wire_sent, wire_delivered, proxy_as_wire. rewrite <- from_app, firstn_skipn. unfold from. rewrite B. auto.
  - rewrite <- skipn_map, A. unfold gone. rewrite app_assoc.
    rewrite skipn_app. rewrite app_length. rewrite Nat.sub_diag. simpl.
    rewrite skipn_all2 by (rewrite app_length; lia). auto.
  - rewrite <- firstn_map, A. unfold gone. rewrite app_assoc.
    rewrite firstn_app. rewrite app_length. rewrite Nat.sub_diag. simpl. rewrite app_nil_r.
    rewrite firstn_all2 by (rewrite app_length; lia). auto.
Qed.

(* the abstract FIFO wire: a pair (sent, delivered); enqueue appends to sent, dequeue moves the oldest undelivered
   envelope to delivered. [wire_invariant P]: P holds of the empty wire and is preserved by both steps. *)
Definition wire_invariant (P : list env -> list env -> Prop) : Prop :=
  P [] [] /\
  (forall snt dlv x, P snt dlv -> P (snt ++ [x]) dlv) /\
  (forall snt dlv x rest, P snt dlv -> snt = dlv ++ x :: rest -> P snt (dlv ++ [x])).

Lemma wire_enq_all P : wire_invariant P -> forall snt, P snt [].
Proof.
  intros (P0 & Pe & _) snt. induction snt using rev_ind; auto.
Qed.

Lemma wire_deq_prefix P : wire_invariant P -> forall dlv rest, P (dlv ++ rest) dlv.
Proof.
  intros W dlv. induction dlv using rev_ind; intros rest.
  - simpl. apply wire_enq_all; auto.
  - destruct W as (P0 & Pe & Pd). rewrite <- app_assoc. simpl.
    eapply Pd. apply IHdlv. reflexivity.
Qed.

(* C16_wire_transfer: every invariant of the abstract FIFO wire holds of the proxy's projection onto any pair of
   records, in every reachable state in which nothing was dropped for the destination *)
Lemma C16_wire_transfer_l : forall P, wire_invariant P ->
  forall cf ls s, lrun cf init ls = Some s -> forall j i, dropped i (log s) = [] ->
  P (wire_sent s j i) (wire_delivered s j i).
Proof.
  intros P W cf ls s H j i Hd. destruct (C16_is_wire_l _ _ _ H j i Hd) as (A & _). rewrite A.
  apply wire_deq_prefix; auto.
Qed.

(* an instance, the shape of C02's "what the reader got is a prefix of what the writer sent": *)
Lemma prefix_is_wire_invariant : wire_invariant (fun snt dlv => exists rest, snt = dlv ++ rest).
Proof.
  split; [|split].
  - exists []. auto.
  - intros snt dlv x (rest & ->). exists (rest ++ [x]). rewrite app_assoc. auto.
  - intros snt dlv x rest _ ->. exists rest. rewrite <- app_assoc. auto.
Qed.

Lemma C16_prefix_through_proxy_l : forall cf ls s, lrun cf init ls = Some s -> forall j i, dropped i (log s) = [] ->
  exists rest, wire_sent s j i = wire_delivered s j i ++ rest.
Proof. intros. apply (C16_wire_transfer_l _ prefix_is_wire_invariant cf ls s H j i H0). Qed.

(* ---------- the forward simulation, step by step ---------- *)
Lemma firstn_grow {A} (l a : list A) n n' : n <= n' -> n <= length l ->
  exists b, firstn n' (l ++ a) = firstn n l ++ b.
Proof.
  intros Hn Hl. exists (skipn n (firstn n' (l ++ a))).
  rewrite <- (firstn_skipn n (firstn n' (l ++ a))) at 1. f_equal.
  rewrite firstn_firstn. rewrite Nat.min_l by lia. rewrite firstn_app.
  replace (n - length l) with 0 by lia. simpl. rewrite app_nil_r. auto.
Qed.

Lemma enqs_from_app i l evs : enqs_from i (l ++ evs) = enqs_from i l ++ enqs_from i evs.
Proof. unfold enqs_from. apply pick_app. Qed.

Lemma gone_le cf ls s i : lrun cf init ls = Some s -> gone s i <= length (enqs_from i (log s)).
Proof.
  intros H. destruct (C16_accounting_l _ _ _ H i) as (A & _).
  rewrite <- (map_length snd), enqs_from_snd, A. unfold gone. rewrite !app_length. lia.
Qed.

(* C16_wire_step: one step of the proxy (any label: environment action or internal rule) moves the wire of every
   pair only forwards: what was sent and what was delivered are extended at the end - nothing is removed, reordered or
   inserted - and (C16_is_wire) delivered stays a prefix of sent. So the step is simulated by enqueues at the tail
   and dequeues of the head of the abstract wire; a step that touches neither is a stutter. *)
Lemma C16_wire_step_l : forall cf ls s l s', lrun cf init ls = Some s -> lstep cf s l = Some s' ->
  forall j i, dropped i (log s') = [] ->
  (exists a, wire_sent s' j i = wire_sent s j i ++ a) /\
  (exists b, wire_delivered s' j i = wire_delivered s j i ++ b) /\
  wire_sent s j i = wire_delivered s j i ++ proxy_as_wire s j i /\
  wire_sent s' j i = wire_delivered s' j i ++ proxy_as_wire s' j i.
Proof.
  intros cf ls s l s' H Hs j i Hd'.
  assert (lrun cf init (ls ++ [l]) = Some s') as H'.
  { clear Hd'. revert H. generalize init. induction ls; simpl; intros s0 H0.
    - inversion H0; subst. rewrite Hs. auto.
    - destruct (lstep cf s0 a); try discriminate. auto. }
  pose proof (lstep_shape _ _ _ _ Hs) as Sh. apply shape_log in Sh. destruct Sh as (evs & Hl).
  assert (dropped i (log s) = []) as Hd.
  { rewrite Hl in Hd'. unfold dropped in *. rewrite pick_app in Hd'. apply app_eq_nil in Hd'. tauto. }
  split; [|split; [|split]].
  - exists (map snd (routed j i evs)). unfold wire_sent. rewrite Hl. unfold routed. rewrite pick_app, map_app. auto.
  - unfold wire_delivered. rewrite Hl, enqs_from_app.
    destruct (firstn_grow (enqs_from i (log s)) (enqs_from i evs) (gone s i) (gone s' i)) as (b & Hb).
    + unfold gone. rewrite Hl. unfold outs, wfails. rewrite !pick_app, !app_length. lia.
    + eapply gone_le; eauto.
    + rewrite Hb. exists (from j b). apply from_app.
  - apply (C16_is_wire_l _ _ _ H j i Hd).
  - apply (C16_is_wire_l _ _ _ H' j i Hd').
Qed.

(* ---------- C17: the guards of forwardRpc's panic-capable operations are necessary ---------- *)
Lemma forward_nohdr_crash : exists cf n e, forward_gen false true cf n e = FCrash.
Proof. exists (mkCfg 0 1 (fun _ d => Some d)), 1%Z, (mkEnv false 0 0 [] None 0). reflexivity. Qed.

(* with both guards (the code) no input whatever reaches FCrash *)
Lemma forward_guarded_total : forall cf n e, forward_gen true true cf n e <> FCrash.
Proof. intros. apply forward_no_crash. Qed.

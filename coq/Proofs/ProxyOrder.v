(* C16, order per source-destination pair: the accepted envelopes of a source record are, in log order, a
   sub-sequence of what the forwarding loop received from it; what was enqueued for a destination from one source
   is a sub-sequence of both. *)
From Coq Require Import List ZArith Bool Lia.
Import ListNotations.
From Goat Require Import Model.Proxy Proofs.ProxyProofs.

Inductive Subseq {A} : list A -> list A -> Prop :=
| SubNil l : Subseq [] l
| SubTake x a b : Subseq a b -> Subseq (x :: a) (x :: b)
| SubSkip x a b : Subseq a b -> Subseq a (x :: b).

Lemma subseq_skip_app {A} (l c d : list A) : Subseq c d -> Subseq c (l ++ d).
Proof. induction l; simpl; auto. intros. apply SubSkip. auto. Qed.

Lemma subseq_app {A} (a b c d : list A) : Subseq a b -> Subseq c d -> Subseq (a ++ c) (b ++ d).
Proof.
  intros H. induction H; simpl; intros.
  - apply subseq_skip_app. auto.
  - apply SubTake. auto.
  - apply SubSkip. auto.
Qed.

Lemma subseq_refl {A} (l : list A) : Subseq l l.
Proof. induction l; constructor; auto. Qed.

Lemma pick_subseq {A B C} (f : A -> option B) (g : A -> option C) (h : B -> C) l :
  (forall x y, f x = Some y -> g x = Some (h y)) -> Subseq (map h (pick f l)) (pick g l).
Proof.
  intros H. induction l; simpl; [constructor|].
  destruct (f a) eqn:E.
  - rewrite (H _ _ E). simpl. apply SubTake. auto.
  - destruct (g a); [apply SubSkip|]; auto.
Qed.

(* the envelopes of record j the proxy accepted (source check passed, interceptor agreed), as received, in order *)
Definition accepted (j : nat) (l : list pev) : list env :=
  pick (fun ev => match ev with EvFwd j' e _ _ _ => if Nat.eqb j' j then Some e else None | _ => None end) l.
(* the envelopes from record j enqueued for record i: (as received, as handed on), in order *)
Definition pairs (j i : nat) (l : list pev) : list (env * env) :=
  pick (fun ev => match ev with
                  | EvFwd j' e i' e' true => if Nat.eqb j' j && Nat.eqb i' i then Some (e, e') else None
                  | _ => None end) l.

Lemma accepted_none j evs : Forall not_fwd evs -> accepted j evs = [].
Proof.
  induction 1; simpl; auto. unfold accepted in *. simpl. destruct x; simpl in *; try tauto; auto.
Qed.

Definition inv_o (j : nat) (s : state) : Prop := Subseq (accepted j (log s)) (cmds j (log s)).

Lemma inv_o_step cf j s l s' : inv_o j s -> lstep cf s l = Some s' -> inv_o j s'.
Proof.
  unfold inv_o. intros I H. apply lstep_shape in H.
  destruct H; subst; simpl; auto.
  - unfold accepted, cmds in *. rewrite !pick_app. apply subseq_app; auto.
    fold (accepted j evs). rewrite (accepted_none j evs (local_no_fwd _ _ _ _ _ _ H0)). constructor.
  - unfold accepted, cmds in *. rewrite !pick_app. apply subseq_app; auto.
    simpl. destruct (Nat.eqb j0 j); simpl; repeat constructor.
  - unfold accepted, cmds in *. rewrite !pick_app. apply subseq_app; auto.
    simpl. destruct (Nat.eqb j0 j); simpl; repeat constructor.
Qed.

Lemma C16_pair_order_l : forall cf ls s, lrun cf init ls = Some s -> forall j i,
  Subseq (map fst (pairs j i (log s))) (accepted j (log s)) /\
  Subseq (accepted j (log s)) (cmds j (log s)) /\
  Subseq (map snd (pairs j i (log s))) (enqs i (log s)).
Proof.
  intros cf ls s H j i. split; [|split].
  - apply pick_subseq. intros x y. destruct x; try discriminate. destruct ok; try discriminate.
    destruct (Nat.eqb j0 j); simpl; try discriminate. destruct (Nat.eqb i0 i); simpl; try discriminate.
    intros E. inversion E. auto.
  - change (inv_o j s). eapply lrun_inv; [intros; eapply inv_o_step; eauto| |exact H].
    unfold inv_o. simpl. constructor.
  - apply pick_subseq. intros x y. destruct x; try discriminate. destruct ok; try discriminate.
    destruct (Nat.eqb j0 j); simpl; try discriminate. destruct (Nat.eqb i0 i); simpl; try discriminate.
    intros E. inversion E. auto.
Qed.

(* the full statement "whatever is accepted is handed on" is false beyond the buffer: a reachable quiescent state in
   which an accepted envelope was dropped and will never be handed to the destination's connection *)
Lemma C16_no_loss_refuted_l : exists cf ls s i x,
  lrun cf init ls = Some s /\ quiescent cf s = true /\ In x (fwds i (log s)) /\
  ~ In x (outs i (log s) ++ wfails i (log s) ++ wr_pend s i ++ buf_of s i).
Proof.
  exists (mkCfg 99 2 (fun _ d => Some d)).
  exists [LExt (AAttach 1 true); LExt (AAttach 2 true); LExt (ASetWrite 1 WBlock);
          LExt (ADeliver 0 (mkEnv true 1 2 [] None 70)); LExt (ADeliver 0 (mkEnv true 1 2 [] None 71));
          LExt (ADeliver 0 (mkEnv true 1 2 [] None 72)); LExt (ADeliver 0 (mkEnv true 1 2 [] None 73));
          LInt 5; LInt 1; LInt 21; LInt 5; LInt 1; LInt 5; LInt 1; LInt 5; LInt 1;
          LExt (ASetWrite 1 WOk); LInt 23; LInt 21; LInt 23; LInt 21; LInt 23].
  eexists. exists 1%nat, (mkEnv true 1 2 [99] None 73).
  split; [vm_compute; reflexivity|]. split; [vm_compute; reflexivity|].
  split; [vm_compute; tauto|]. vm_compute. intros H.
  repeat (destruct H as [H|H]; [discriminate H|]). exact H.
Qed.

(* dial again: when the routed name has no table entry (never had one, or every record that carried it lost it:
   C17_remove) the forwarding step of an accepted envelope creates a new record for the name, starts its dial
   and puts the envelope into its buffer *)
Lemma C16_redial_l : forall cf s p cp e d e',
  fw s = true -> nth_error (clients s) p = Some cp -> p_rd cp = RDOffer e ->
  forward cf (p_name cp) e = FRoute d e' ->
  find_reg d (upd p (set_rd cp RDRead false) (clients s)) 0 = None ->
  exists s', r_fw_cmd cf p s = Some s' /\
    dials (log s') = dials (log s) ++ [(length (clients s), d)] /\
    nth_error (clients s') (length (clients s)) = Some (fst (enqueue_c cf (new_dialled d) e')) /\
    In (EvFwd p e (length (clients s)) e' (snd (enqueue_c cf (new_dialled d) e'))) (log s').
Proof.
  intros cf s p cp e d e' Hfw Hp Hrd Hf Hnone.
  unfold r_fw_cmd. rewrite Hfw, Hp, Hrd, Hf, Hnone. eexists. split; [reflexivity|].
  simpl. rewrite length_upd. split; [|split].
  - unfold dials. rewrite pick_app. simpl. reflexivity.
  - rewrite <- (length_upd p (set_rd cp RDRead false) (clients s)). apply nth_app_last.
  - apply in_or_app. right. simpl. auto.
Qed.

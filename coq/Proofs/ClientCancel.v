(* C07, client half: what the caller of a cancelled stream observes - over all runs
   of Model/Client.v. *)
From Coq Require Import List ZArith Bool Lia Arith.
Import ListNotations.
From Goat Require Import Model.Client Proofs.ClientBase Proofs.ClientInv Proofs.ClientLive Proofs.ProtocolClient.
Open Scope Z_scope.

(* ---------- (Q) in a quiescent state nothing of a cancelled stream is blocked ---------- *)
Definition recv_idle (r : rpc) : bool := match r with RNone | RParked => true | _ => false end.

Lemma C07_caller_unblocked_l ls s c k :
  lrun init ls = Some s -> quiescent s = true -> nth_error (calls s) c = Some k ->
  k_pc k = POpen -> sctx_done k = true ->
  s_loop k = LDead /\ s_done k = true /\ k_reg k = false /\ recv_idle (s_recv k) = true /\
  s_sendq k = [] /\ s_header k = ONone /\ s_trailerq k = ONone /\ exists x, s_rerr k = Some x.
Proof.
  intros H Hq Hn Hp Hd. pose proof (inv_reach _ _ H) as [HI HS].
  pose proof (cinv_call _ _ _ HI Hn) as K. pose proof (nth_some_lt _ _ _ Hn) as Hlt.
  assert (Hl : loop_alive k = false).
  { destruct (loop_alive k) eqn:El; auto. destruct (quiescent_loop _ HI Hq _ _ Hn El) as [Hc _]. congruence. }
  assert (Hld : s_loop k = LDead) by (unfold loop_alive in Hl; destruct (s_loop k); try discriminate; auto).
  destruct (ki_dead_done _ K Hp Hl) as [Hrc Hdn].
  destruct (ki_done_dead _ K Hdn) as (_ & Hre & _).
  assert (Hfree : protected_free k = true) by (unfold protected_free; rewrite Hld; auto).
  split; auto. split; auto. split.
  { destruct (k_reg k) eqn:Er; auto. pose proof (ki_reg_open _ K Er Hp). congruence. }
  split.
  { qrule Hq Hlt Hn r_recv c. rewrite Hfree, Hdn, Hrc in Hr. destruct (s_recv k); simpl in *; auto; discriminate. }
  split.
  { qrule Hq Hlt Hn r_send c. rewrite Hfree, Hdn in Hr. destruct (s_sendq k) as [|[b|] q]; auto; try discriminate.
    revert Hr. cbv zeta. match goal with |- context [if ?x then _ else _] => destruct x end; discriminate. }
  split.
  { qrule Hq Hlt Hn r_header c. rewrite Hfree in Hr. destruct (s_header k); auto.
    assert (Hla : is_some (s_latch k) = true) by (apply (ki_latch _ K Hp); rewrite Hld; reflexivity).
    destruct (s_latch k); try discriminate. }
  split.
  { qrule Hq Hlt Hn r_trailer c. rewrite Hfree in Hr. destruct (s_trailerq k); auto. discriminate. }
  destruct (s_rerr k); try discriminate. eauto.
Qed.

(* ---------- once the stream is done: every later receive and send reports its terminal error ---------- *)
Definition ok_ev (c : nat) (x : cerr) (e : cev) : Prop :=
  match e with
  | EvRecvRet d r => d = c -> r = RErr x
  | EvSendRet d r => d = c -> r = Some x
  | _ => True
  end.

Definition done_with (s : state) (c : nat) (x : cerr) : Prop :=
  exists k, nth_error (calls s) c = Some k /\ s_done k = true /\ s_rerr k = Some x.

Lemma done_at s c x k : done_with s c x -> nth_error (calls s) c = Some k -> s_done k = true /\ s_rerr k = Some x.
Proof. intros (k0 & Hn & Hd & Hx) E. rewrite Hn in E. inversion E; subst. auto. Qed.

Lemma done_same s s' c x : done_with s c x -> calls s' = calls s -> done_with s' c x.
Proof. intros (k & Hn & Hd & Hx) Hc. exists k. rewrite Hc. auto. Qed.

Lemma done_upd s s' c x c' k k' :
  done_with s c x -> nth_error (calls s) c' = Some k -> calls s' = upd c' k' (calls s) ->
  (c' = c -> s_done k = true -> s_rerr k = Some x -> s_done k' = true /\ s_rerr k' = Some x) ->
  done_with s' c x.
Proof.
  intros (k0 & Hn & Hd & Hx) Hn' Hc Heq. destruct (Nat.eq_dec c' c).
  - subst c'. rewrite Hn in Hn'. inversion Hn'; subst k0. destruct (Heq eq_refl Hd Hx) as (A & B).
    exists k'. rewrite Hc. rewrite nth_upd_eq; eauto using nth_some_lt.
  - exists k0. rewrite Hc. rewrite nth_upd_neq; auto.
Qed.

Lemma done_with_call s c x c' f :
  done_with s c x -> (forall k k', f k = Some k' -> s_done k' = s_done k /\ s_rerr k' = s_rerr k) ->
  done_with (with_call s c' f) c x.
Proof.
  intros HD Hf. unfold with_call. destruct (nth_error (calls s) c') as [k|] eqn:E; auto. destruct (f k) as [k'|] eqn:Ef; auto.
  destruct (Hf _ _ Ef) as [A B]. eapply (done_upd s (set_call s c' k') c x c' k k' HD E eq_refl). intros _ Hd Hx. rewrite A, B. auto.
Qed.

(* the event list of one step *)
Ltac evs_tac HD :=
  eexists; split; [csimpl; rewrite <- ?app_assoc; first [reflexivity | symmetry; apply app_nil_r] | ];
  repeat constructor; simpl; auto.
Ltac dsame HD := split; [eapply (done_same _ _ _ _ HD); reflexivity | evs_tac HD].
(* the touched call is the done one: its loop is dead, it is open, its terminal state is published *)
Ltac dcall HI HD E :=
  let Hd := fresh "Hd" in let Hx := fresh "Hx" in let K := fresh "K" in
  pose proof (cinv_call _ _ _ HI E) as K; destruct (done_at _ _ _ _ HD E) as [Hd Hx];
  let Hla := fresh "Hla" in let Hpo := fresh "Hpo" in
  destruct (ki_done_dead _ K Hd) as (Hla & _ & Hpo); unfold loop_alive in Hla; unfold recv_final in *; csimpl;
  rewrite ?Hd, ?Hx in *;
  try (match goal with E0 : s_loop _ = _ |- _ => rewrite E0 in Hla; discriminate Hla end);
  try congruence; try discriminate; auto.
Ltac dupd HI HD E :=
  split; [ match goal with
           | |- done_with (add_log (set_call _ _ ?k') _) _ _ => eapply (done_upd _ _ _ _ _ _ k' HD E); [reflexivity|]
           | |- done_with (set_call _ _ ?k') _ _ => eapply (done_upd _ _ _ _ _ _ k' HD E); [reflexivity|]
           end; intros -> _ _; dcall HI HD E
         | evs_tac HD; intros ->; dcall HI HD E ].

Lemma done_step s l s' c x : cinv s -> done_with s c x -> lstep s l = Some s' ->
  done_with s' c x /\ exists evs, log s' = log s ++ evs /\ Forall (ok_ev c x) evs.
Proof.
  intros HI HD H. apply lstep_kind in H.
  destruct H as [a H|H|H|c' H|c' H|c' H|c' H|c' H|c' H|c' H|c' H|c' H|c' H|c' H|c' H|c' H|c' H|c' H].
  - (* environment *)
    subst s'. assert (Hlog : log (ext s a) = log s).
    { destruct a; simpl; auto; try (unfold with_call; repeat match goal with |- context [match ?y with _ => _ end] => destruct y end; reflexivity). }
    split; [|exists []; rewrite app_nil_r; auto].
    destruct a; simpl; try (apply done_with_call; auto; intros k k' Hf;
      repeat match type of Hf with match ?y with _ => _ end = Some _ => destruct y; try discriminate Hf end; inversion Hf; split; reflexivity);
      try (destruct HD as (k & Hn & Hd & Hx); exists k; simpl; auto; fail).
    + destruct HD as (k & Hn & Hd & Hx); exists k; simpl. rewrite nth_error_app1; eauto using nth_some_lt.
    + destruct HD as (k & Hn & Hd & Hx); exists k; simpl. rewrite nth_error_app1; eauto using nth_some_lt.
    + destruct (nth_error (calls s) c0) as [k|] eqn:E; auto. destruct (k_pc k) eqn:Ep; auto.
      eapply (done_upd s _ c x c0 k (set_id (set_pc k PReg) (counter s + 1)) HD E); [reflexivity|]. intros _ Hd Hx. auto.
  - unfold r_rl_unblock in H. open_rule H.
    + dsame HD.
    + dupd HI HD E0.
  - unfold r_rl_read in H. open_rule H.
    + (* the read failure closes every registered channel: terminal states are untouched *)
      split; [|evs_tac HD]. destruct HD as (k & Hn & Hd & Hx).
      exists (if k_reg k then set_chan k (mkChan (cbuf (k_chan k)) true) false else k). csimpl. unfold close_all.
      rewrite nth_error_map, Hn. simpl. destruct (k_reg k); auto.
    + dsame HD.
    + dupd HI HD E2.
    + dsame HD.
  - unfold r_check in H. open_rule H; try (dupd HI HD E; fail).
  - match type of H with ?r _ _ = Some _ => unfold r in H end; open_rule H; try (dupd HI HD E; fail); try (dsame HD; fail).
  - match type of H with ?r _ _ = Some _ => unfold r in H end; open_rule H; try (dupd HI HD E; fail); try (dsame HD; fail).
  - match type of H with ?r _ _ = Some _ => unfold r in H end; open_rule H; try (dupd HI HD E; fail); try (dsame HD; fail).
  - match type of H with ?r _ _ = Some _ => unfold r in H end; open_rule H; try (dupd HI HD E; fail); try (dsame HD; fail).
  - match type of H with ?r _ _ = Some _ => unfold r in H end; open_rule H; try (dupd HI HD E; fail); try (dsame HD; fail).
  - match type of H with ?r _ _ = Some _ => unfold r in H end; open_rule H; try (dupd HI HD E; fail); try (dsame HD; fail).
  - match type of H with ?r _ _ = Some _ => unfold r in H end; open_rule H; try (dupd HI HD E; fail); try (dsame HD; fail).
  - match type of H with ?r _ _ = Some _ => unfold r in H end; open_rule H; try (dupd HI HD E; fail); try (dsame HD; fail).
  - match type of H with ?r _ _ = Some _ => unfold r in H end; open_rule H; try (dupd HI HD E; fail); try (dsame HD; fail).
  - match type of H with ?r _ _ = Some _ => unfold r in H end; open_rule H; try (dupd HI HD E; fail); try (dsame HD; fail).
  - match type of H with ?r _ _ = Some _ => unfold r in H end; open_rule H; try (dupd HI HD E; fail); try (dsame HD; fail).
  - match type of H with ?r _ _ = Some _ => unfold r in H end; open_rule H; try (dupd HI HD E; fail); try (dsame HD; fail).
  - match type of H with ?r _ _ = Some _ => unfold r in H end; open_rule H; try (dupd HI HD E; fail); try (dsame HD; fail).
  - match type of H with ?r _ _ = Some _ => unfold r in H end; open_rule H; try (dupd HI HD E; fail); try (dsame HD; fail).
Qed.

Lemma C07_after_done_l ls2 : forall ls1 s1 s2 c x,
  lrun init ls1 = Some s1 -> done_with s1 c x -> lrun s1 ls2 = Some s2 ->
  done_with s2 c x /\ exists evs, log s2 = log s1 ++ evs /\ Forall (ok_ev c x) evs.
Proof.
  induction ls2 as [|l t IH]; simpl; intros ls1 s1 s2 c x H1 HD H2.
  - inversion H2; subst. split; auto. exists []. rewrite app_nil_r. auto.
  - destruct (lstep s1 l) as [s|] eqn:E; try discriminate.
    pose proof (cinv_reach _ _ H1) as HI.
    destruct (done_step _ _ _ _ _ HI HD E) as (HD' & evs1 & L1 & F1).
    assert (H1' : lrun init (ls1 ++ [l]) = Some s) by (eapply lrun_snoc; eauto).
    destruct (IH _ _ _ _ _ H1' HD' H2) as (HD2 & evs2 & L2 & F2).
    split; auto. exists (evs1 ++ evs2). split.
    + rewrite L2, L1, app_assoc. reflexivity.
    + apply Forall_app. auto.
Qed.

(* a done stream whose terminal error is the context's status and that has received no trailer has exactly one
   reset on the wire, unless the environment made transport writes fail *)
Lemma C07_status_reset_l ls s c k :
  lrun init ls = Some s -> no_wfail ls -> nth_error (calls s) c = Some k ->
  k_pc k = POpen -> s_done k = true -> is_ctx_err (s_rerr k) = true -> l_hastrl k = false ->
  rsts (k_id k) s = 1%nat.
Proof.
  intros H Hnw Hn Hp Hd He Ht.
  pose proof (inv_reach _ _ H) as [HI _]. pose proof (cinv_call _ _ _ HI Hn) as K.
  destruct (ki_done_dead _ K Hd) as (Hla & _ & _).
  eapply C07_reset_sent_l; eauto.
  - unfold loop_alive in Hla. destruct (s_loop k); try discriminate; reflexivity.
  - right. rewrite <- (C07_rerr_l _ _ _ _ H Hn Hd). exact He.
Qed.

(* ---------- the strict receive statement (after the repair of D-07s, 72f38d7) ---------- *)
(* the errors a stream that was still running when its context ended can end with: the context's status, the
   outcome of a terminal envelope the loop took in the race, or the undecodable-metadata abort - never
   "respChan closed" or the connection error *)
Definition allowed (x : cerr) : bool :=
  match x with ECanceled | EDeadline | EEof | EStatus _ | EReset | EBadMd => true | _ => false end.

Definition ends_well (k : call) : Prop :=
  running_loop (s_loop k) = true \/ (forall x, l_rerr k = Some x -> allowed x = true).

Definition cancelled_running (s : state) (c : nat) : Prop :=
  exists k, nth_error (calls s) c = Some k /\ sctx_done k = true /\ ends_well k.

Lemma final_allowed e x : final_of e = Some x -> allowed x = true.
Proof.
  unfold final_of. destruct (erst e); [intros H; inversion H; reflexivity|].
  destruct (etrl e); try discriminate. destruct (estatus e) as [st|]; [destruct (st_code st =? 0)|]; intros H; inversion H; reflexivity.
Qed.

Lemma ctx_status_allowed k : allowed (ctx_status k) = true.
Proof. unfold ctx_status. destruct (k_ctx k); reflexivity. Qed.

Lemma cr_same s s' c : cancelled_running s c -> calls s' = calls s -> cancelled_running s' c.
Proof. intros (k & Hn & A & B) Hc. exists k. rewrite Hc. auto. Qed.

Lemma cr_upd s s' c c' k k' :
  cancelled_running s c -> nth_error (calls s) c' = Some k -> calls s' = upd c' k' (calls s) ->
  (c' = c -> sctx_done k = true -> ends_well k -> sctx_done k' = true /\ ends_well k') ->
  cancelled_running s' c.
Proof.
  intros (k0 & Hn & A & B) Hn' Hc Heq. destruct (Nat.eq_dec c' c).
  - subst c'. rewrite Hn in Hn'. inversion Hn'; subst k0. destruct (Heq eq_refl A B) as (A' & B').
    exists k'. rewrite Hc. rewrite nth_upd_eq; eauto using nth_some_lt.
  - exists k0. rewrite Hc. rewrite nth_upd_neq; auto.
Qed.

Lemma cr_with_call s c c' f :
  cancelled_running s c ->
  (forall k k', f k = Some k' -> (sctx_done k = true -> sctx_done k' = true) /\ s_loop k' = s_loop k /\ l_rerr k' = l_rerr k) ->
  cancelled_running (with_call s c' f) c.
Proof.
  intros HD Hf. unfold with_call. destruct (nth_error (calls s) c') as [k|] eqn:E; auto. destruct (f k) as [k'|] eqn:Ef; auto.
  destruct (Hf _ _ Ef) as (A & B & C). eapply (cr_upd s (set_call s c' k') c c' k k' HD E eq_refl).
  intros _ Hd He. split; auto. unfold ends_well in *. rewrite B, C. auto.
Qed.

Ltac crk :=
  let Hd := fresh "Hd" in let He := fresh "He" in
  intros _ Hd He; unfold ends_well, running_loop, sctx_done in *; csimpl;
  repeat match goal with E0 : s_loop _ = _ |- _ => rewrite E0 in * end; csimpl;
  split; [rewrite ?orb_true_r; auto with bool | ];
  try (left; reflexivity);
  try (right; intros x Hx; inversion Hx; subst; auto using ctx_status_allowed; fail);
  try (destruct He as [He|He]; [discriminate He | right; exact He]; fail);
  auto.

Ltac crupd HD E :=
  match goal with
  | |- cancelled_running (add_log (set_call _ _ ?k') _) _ => eapply (cr_upd _ _ _ _ _ k' HD E); [reflexivity|]
  | |- cancelled_running (set_call _ _ ?k') _ => eapply (cr_upd _ _ _ _ _ k' HD E); [reflexivity|]
  end; crk.

Lemma cr_step s l s' c : cancelled_running s c -> lstep s l = Some s' -> cancelled_running s' c.
Proof.
  intros HD H. apply lstep_kind in H.
  destruct H as [a H|H|H|c' H|c' H|c' H|c' H|c' H|c' H|c' H|c' H|c' H|c' H|c' H|c' H|c' H|c' H|c' H].
  - subst s'. destruct a; simpl;
      try (apply cr_with_call; auto; intros k k' Hf;
           repeat match type of Hf with match ?y with _ => _ end = Some _ => destruct y eqn:?; try discriminate Hf end;
           inversion Hf; unfold sctx_done; csimpl; repeat split; auto; intros; rewrite ?orb_true_r; auto with bool; fail);
      try (eapply cr_same; eauto; reflexivity; fail).
    + destruct HD as (k & Hn & A & B); exists k; simpl. rewrite nth_error_app1; eauto using nth_some_lt.
    + destruct HD as (k & Hn & A & B); exists k; simpl. rewrite nth_error_app1; eauto using nth_some_lt.
    + destruct (nth_error (calls s) c0) as [k|] eqn:E; auto. destruct (k_pc k) eqn:Ep; auto.
      eapply (cr_upd s _ c c0 k (set_id (set_pc k PReg) (counter s + 1)) HD E); [reflexivity|]. crk.
  - unfold r_rl_unblock in H. open_rule H; try (eapply cr_same; eauto; reflexivity). crupd HD E0.
  - unfold r_rl_read in H. open_rule H; try (eapply cr_same; eauto; reflexivity).
    + destruct HD as (k & Hn & A & B).
      exists (if k_reg k then set_chan k (mkChan (cbuf (k_chan k)) true) false else k). csimpl. unfold close_all.
      rewrite nth_error_map, Hn. simpl. destruct (k_reg k); auto.
    + crupd HD E2.
  - unfold r_check in H. open_rule H; crupd HD E.
  - unfold r_reg in H. open_rule H; crupd HD E.
  - unfold r_wait in H. open_rule H; crupd HD E.
  - unfold r_wait_ctx in H. open_rule H; crupd HD E.
  - unfold r_unreg in H. open_rule H; destruct (k_reg c0); crupd HD E.
  - unfold r_loop_read in H. open_rule H; crupd HD E.
    + right. intros x Hx. inversion Hx; subst. eapply final_allowed; eauto.
    + right. intros x Hx. inversion Hx; subst. unfold closed_err, sctx_done. rewrite Hd. apply ctx_status_allowed.
  - unfold r_loop_read_ctx in H. open_rule H; crupd HD E.
  - unfold r_loop_hand in H. open_rule H; crupd HD E.
  - unfold r_loop_hand_ctx in H. open_rule H; crupd HD E.
  - unfold r_loop_exit in H. open_rule H; crupd HD E.
  - unfold r_loop_unreg in H. open_rule H; crupd HD E.
  - unfold r_recv in H. open_rule H; crupd HD E.
  - unfold r_header in H. open_rule H; crupd HD E.
  - unfold r_trailer in H. open_rule H; crupd HD E.
  - unfold r_send in H. open_rule H; crupd HD E.
Qed.

Lemma cr_run ls2 : forall s1 s2 c, cancelled_running s1 c -> lrun s1 ls2 = Some s2 -> cancelled_running s2 c.
Proof.
  induction ls2 as [|l t IH]; simpl; intros s1 s2 c HD H.
  - inversion H; subst; auto.
  - destruct (lstep s1 l) as [s|] eqn:E; try discriminate. eapply IH; [eapply cr_step; eauto | eauto].
Qed.

(* C07, the strict receive statement: a stream whose loop was still running when its context ended (the call had
   not completed) ends, in every quiescent state of every continuation, with a terminal error that is the
   Canceled / DeadlineExceeded status - or the outcome of a terminal envelope the loop took in the race, or the
   undecodable-metadata abort - never "respChan closed" or the connection error; by C07_after_done every later
   RecvMsg returns exactly that error. *)
Lemma C07_recv_strict_l ls1 ls2 s1 s2 c k2 :
  lrun init ls1 = Some s1 -> cancelled_running s1 c -> lrun s1 ls2 = Some s2 ->
  quiescent s2 = true -> nth_error (calls s2) c = Some k2 -> k_pc k2 = POpen ->
  exists x, s_rerr k2 = Some x /\ allowed x = true /\ done_with s2 c x.
Proof.
  intros H1 HD H2 Hq Hn Hp.
  assert (Hr : lrun init (ls1 ++ ls2) = Some s2) by (rewrite (lrun_app _ _ _ _ H1); auto).
  destruct (cr_run _ _ _ _ HD H2) as (k & Hk & Hc & He). rewrite Hn in Hk. inversion Hk; subst k.
  destruct (C07_caller_unblocked_l _ _ _ _ Hr Hq Hn Hp Hc) as (Hl & Hd & _ & _ & _ & _ & _ & x & Hx).
  exists x. split; auto. split.
  - destruct He as [He|He]; [rewrite Hl in He; discriminate|]. apply He.
    rewrite <- (C07_rerr_l _ _ _ _ Hr Hn Hd). auto.
  - exists k2. auto.
Qed.

(* C01 completeness from a condition on the calls at the START of the closed continuation. *)
From Coq Require Import List ZArith Bool Lia Arith.
Import ListNotations.
From Goat Require Import Model.Client Model.Server Proofs.ClientBase Proofs.ServerProofs Model.Sys Proofs.SysLog Proofs.SysProofs.
From Goat Require Proofs.ClientCallsOk Proofs.SysTerm Proofs.SysC01f.
Open Scope Z_scope.

Lemma okc_closed_step pol s l s' :
  SysTerm.sys_closed_at s l = true -> Sys.lstep pol s l = Some s' ->
  forallb ClientCallsOk.okc (calls (cl s)) = true -> forallb ClientCallsOk.okc (calls (cl s')) = true.
Proof.
  intros C H H0. destruct l as [x|x| |]; simpl in H, C.
  - destruct x as [a|n]; [discriminate|]. cbn [client_label_ok] in H.
    destruct (Client.lstep (cl s) (Client.LInt n)) as [c'|] eqn:E; [|discriminate]. inversion H; subst s'; clear H.
    cbn [Client.lstep] in E. destruct (nth_error (Client.rules (cl s)) n) as [r|] eqn:En; [|discriminate].
    apply nth_error_In in En. cbn [cl]. exact (ClientCallsOk.okc_rule _ _ _ En E H0).
  - destruct (server_label_ok x && pol_ok pol (sv s) x); [|discriminate].
    destruct (Server.lstep (sv s) x); [|discriminate]. inversion H; subst s'. exact H0.
  - destruct (c2s s); [discriminate|]. inversion H; subst s'. exact H0.
  - destruct (s2c s); [discriminate|]. inversion H; subst s'. exact H0.
Qed.

Lemma okc_closed_run pol ls : forall s s', SysTerm.sys_crun pol s ls = Some s' ->
  forallb ClientCallsOk.okc (calls (cl s)) = true -> forallb ClientCallsOk.okc (calls (cl s')) = true.
Proof.
  induction ls as [|l ls IH]; intros s s' H H0; cbn [SysTerm.sys_crun] in H; [inversion H; subst; exact H0|].
  destruct (SysTerm.sys_closed_at s l) eqn:C; [|discriminate]. destruct (Sys.lstep pol s l) as [s1|] eqn:E; [|discriminate].
  apply (IH s1 s' H). exact (okc_closed_step pol s l s1 C E H0).
Qed.

Theorem C01_complete_closed_from_l f ls s ls' s' :
  (forall x, 0 <= x -> 0 <= f x) ->
  Sys.lrun (pol_c01 f) Sys.init ls = Some s -> fault_free ls = true -> no_cancel ls = true ->
  forallb ClientCallsOk.okc (calls (cl s)) = true ->
  SysTerm.sys_crun (pol_c01 f) s ls' = Some s' -> Sys.quiescent s' = true ->
  forall c k, nth_error (calls (cl s')) c = Some k -> In (EvUnaryRet c (UOk (f (k_payload k)))) (Client.log (cl s')).
Proof.
  intros Hf H FF NC H0 Hr Q.
  destruct (SysTerm.sys_crun_fault_free _ _ _ _ Hr) as [F2 N2].
  pose proof (okc_closed_run _ _ _ _ Hr H0) as H1.
  apply (SysC01f.C01_complete_ok f (ls ++ ls') s' Hf).
  - rewrite SysTerm.sys_lrun_app, H. now apply SysTerm.sys_crun_lrun.
  - unfold fault_free in *. now rewrite forallb_app, FF, F2.
  - unfold no_cancel in *. now rewrite forallb_app, NC, N2.
  - exact Q.
  - intros c k Hn. pose proof (ClientCallsOk.forallb_nth _ c k _ H1 Hn) as Hk. unfold ClientCallsOk.okc in Hk.
    apply andb_true_iff in Hk. destruct Hk as [Hk Hp]. apply andb_true_iff in Hk. destruct Hk as [Hu Hz].
    split; [exact Hu|]. split; [intros E; rewrite E in Hp; discriminate | now apply Z.leb_le].
Qed.

(* C12: a run in which only the peer and the handlers act never ends the connection. *)
From Coq Require Import List ZArith Bool Lia Arith.
Import ListNotations.
From Goat Require Import Model.Client Model.Server Proofs.ServerProofs Proofs.ServerInv Proofs.ServerTrace.
Open Scope Z_scope.

(* ---------- C12: nothing a peer sends (and nothing a handler does) ends the connection ---------- *)
(* the environment actions of a run in which only the peer and the handlers act: envelopes of any shape, handler
   operations, a transport that blocks or unblocks writes; no Stop, no cancellation of Serve's context, no transport
   read failure, no transport write failure *)
Definition peer_only (l : label) : bool :=
  match l with
  | LExt (ADeliver _) | LExt (AHandlerStep _ _) | LExt (ABlockWrites _) | LExt (ASetWriteFail false) | LInt _ => true
  | _ => false
  end.

Definition serving (s : state) : Prop :=
  srv_stop s = false /\ serve_ctx s = false /\ conn_cancel s = false /\ exit_cancel s = false
  /\ inbox_failed s = false /\ wfail s = false /\ rd_exited s = false /\ wr s <> WrDead
  /\ (forall w, nth_error (wk s) w <> Some WkDead).

Lemma serving_hctx s : serving s -> hctx_done s = false /\ cctx_done s = false.
Proof. intros [A [B [C [D _]]]]. unfold hctx_done, cctx_done. now rewrite A, B, C, D. Qed.

Lemma hstep_flags s h k o :
  srv_stop (hstep s h k o) = srv_stop s /\ serve_ctx (hstep s h k o) = serve_ctx s
  /\ conn_cancel (hstep s h k o) = conn_cancel s /\ exit_cancel (hstep s h k o) = exit_cancel s
  /\ inbox_failed (hstep s h k o) = inbox_failed s /\ wfail (hstep s h k o) = wfail s
  /\ rd (hstep s h k o) = rd s /\ wr (hstep s h k o) = wr s
  /\ (forall w, nth_error (wk s) w <> Some WkDead -> nth_error (wk (hstep s h k o)) w <> Some WkDead).
Proof.
  unfold hstep. destruct (h_unary k), o; try destruct (h_hsent k); sproj; repeat split; auto.
  all: intros w Hw Hc; apply finish_unary_nth in Hc; destruct Hc as [p0 [H0 [[E _] | [_ E]]]]; [subst p0; contradiction | discriminate].
Qed.

Lemma serving_sd s f : serving s -> serving (stream_dispatch s f).
Proof.
  intros [A [B [C [D [E [F [G [W K]]]]]]]]. unfold stream_dispatch.
  destruct (find_reg (fid f) (hs s) 0) as [g|].
  - destruct (is_rst f); [destruct (nth_error (hs s) g)|]; unfold serving, rd_exited in *; sproj; repeat split; auto.
  - destruct (is_rst f); [|destruct (has_body f); [|destruct (has_trl f); [|destruct (md_bad f)]]];
      unfold serving, rd_exited in *; sproj; repeat split; auto.
Qed.

Lemma serving_su s w f : serving s -> serving (start_unary s w f).
Proof.
  intros [A [B [C [D [E [F [G [W K]]]]]]]]. unfold start_unary.
  destruct (negb (has_hdr f)); [|destruct (md_bad f); [|destruct (body_tok f <? 0)]];
    unfold serving, rd_exited in *; sproj; repeat split; auto;
    (intros w0 Hw0; apply nth_upd_cases in Hw0; destruct Hw0 as [[_ [Hx _]] | [_ Hx]]; [discriminate | eapply K; eauto]).
Qed.

Lemma serving_step s l s' : serving s -> peer_only l = true -> lstep s l = Some s' -> serving s'.
Proof.
  intros S Hp H. pose proof (serving_hctx s S) as [Hh Hc]. destruct S as [A [B [C [D [E [F [G [W K]]]]]]]].
  destruct l as [a|n]; simpl in H.
  - inversion H; subst; clear H. destruct a; try discriminate; simpl; unfold serving; sproj; try (repeat split; auto; fail).
    + destruct b; [discriminate|]. repeat split; auto.
    + destruct (nth_error (hs s) h) as [k|]; [|repeat split; auto]. destruct (h_pc k); try (repeat split; auto; fail).
      destruct (hstep_flags s h k o) as [E1 [E2 [E3 [E4 [E5 [E6 [E7 [E8 E9]]]]]]]].
      unfold rd_exited. rewrite E1, E2, E3, E4, E5, E6, E7, E8. repeat split; auto.
  - destruct (nth_error (rules s) n) as [r|] eqn:En; [|discriminate].
    apply nth_error_In in En. apply rules_cases in En. destruct En as [i ->].
    unfold hctx_done, cctx_done in *.
    destruct i; simpl in H; unf_rules H; unfold hctx_done, cctx_done, hdone, exit_serve, cancel_conn in H;
      unfold hctx_done, cctx_done in H; rewrite ?A, ?B, ?C, ?D, ?E, ?F in H; simpl in H.
    all: try (destr_in H; inv_some H;
              unfold serving, rd_exited in *; sproj;
              repeat match goal with Erd : rd _ = _ |- _ => rewrite Erd in * end;
              repeat split; auto; try discriminate; try congruence;
              try (intros w0 Hw0; apply nth_upd_cases in Hw0; (destruct Hw0 as [[_ [Hx _]] | [_ Hx]]; [discriminate | eapply K; eauto])); fail).
    + (* r_rd_read *)
      destruct (rd s) eqn:Erd; try discriminate. destruct (inbox s) as [|f rest]; [discriminate|].
      assert (S0 : serving (add_log (set_inbox s rest) [SvRead f])).
      { unfold serving, rd_exited; sproj. rewrite Erd. repeat split; auto. }
      destruct (dispatch f); inv_some H; auto.
      * destruct S0 as [A' [B' [C' [D' [E' [F' [G' [W' K']]]]]]]]. unfold serving, rd_exited in *; sproj. repeat split; auto.
      * now apply serving_sd.
    + (* r_rd_offer *)
      destruct (rd s) eqn:Erd; try discriminate. destruct (find_idle (wk s) 0); [|discriminate]. inv_some H.
      apply serving_su. unfold serving, rd_exited; sproj. repeat split; auto.
Qed.

Theorem srv_stays_serving nw ls s : forallb peer_only ls = true -> lrun (init_n nw) ls = Some s -> serving s.
Proof.
  assert (G : forall ls s0 s1, serving s0 -> forallb peer_only ls = true -> lrun s0 ls = Some s1 -> serving s1).
  { clear. induction ls as [|l ls IH]; intros s0 s1 S Hp H; simpl in Hp, H.
    - injection H as <-. exact S.
    - apply andb_true_iff in Hp. destruct Hp as [Hl Hp]. destruct (lstep s0 l) as [s2|] eqn:E; [|discriminate].
      apply (IH s2 s1); auto. eapply serving_step; eauto. }
  intros Hp H. apply (G ls (init_n nw) s); auto.
  unfold serving, rd_exited; simpl. repeat split; auto; try discriminate.
  intros w Hw. apply nth_repeat in Hw. discriminate.
Qed.

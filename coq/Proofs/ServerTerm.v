(* (T) for Model/Server.v: a weight that every internal rule strictly decreases - and (Proofs/ServerClosed.v) so does
   the return of a handler from its body: a handler in its body (HGate) weighs more than one that has returned. *)
From Coq Require Import List ZArith Bool Lia Arith.
Import ListNotations.
From Goat Require Import Model.Client Model.Server Proofs.ServerProofs Proofs.ServerInv.
Open Scope nat_scope.

(* ---------- (T): a weight that every internal rule strictly decreases ---------- *)
Definition w_rd (p : rdpc) : nat :=
  match p with RdRead => 3 | RdOffer _ => 16 | RdFwd _ _ => 4 | RdRst _ => 5 | RdCws _ => 2 | RdWait _ _ => 1 | RdDead _ => 0 end.
Definition w_wr (p : wrpc) : nat := match p with WrDead => 0 | WrSel => 1 | WrWrite _ => 2 end.
Definition w_wk (p : wkpc) : nat := match p with WkDead => 0 | WkIdle => 1 | WkRun _ => 3 | WkHand _ => 3 end.
Definition w_pc (p : hpc) : nat :=
  match p with HDead => 0 | HUnreg => 4 | HGate => 8 | HInRecv => 9 | HInAwait => 9 | HInSend _ KTrl => 6 | HInSend _ _ => 10 end.
Definition w_h (k : hnd) : nat := w_pc (h_pc k) + (if h_donesig k then 2 else 0).
Definition sum {A} (f : A -> nat) (l : list A) : nat := fold_right (fun x acc => f x + acc) 0 l.

Definition measure (s : state) : nat :=
  20 * length (inbox s) + w_rd (rd s) + w_wr (wr s) + sum w_wk (wk s) + sum w_h (hs s).

Lemma sum_app {A} (f : A -> nat) l1 l2 : sum f (l1 ++ l2) = sum f l1 + sum f l2.
Proof. induction l1 as [|a l IH]; simpl; [reflexivity | rewrite IH; lia]. Qed.

Lemma sum_upd {A} (f : A -> nat) n x y l : nth_error l n = Some x -> sum f (upd n y l) + f x = sum f l + f y.
Proof.
  revert n. induction l as [|a l IH]; intros [|n] H; simpl in *; try discriminate.
  - inversion H; subst. lia.
  - specialize (IH n H). lia.
Qed.

Lemma find_idle_nth l n w : find_idle l n = Some w -> nth_error l (w - n) = Some WkIdle.
Proof. intros H. apply find_idle_spec in H. apply H. Qed.

Ltac sums :=
  repeat match goal with
         | Hn : nth_error ?l ?n = Some ?x |- context [sum ?f (upd ?n ?y ?l)] =>
             lazymatch goal with
             | _ : sum f (upd n y l) + f x = sum f l + f y |- _ => fail
             | _ => pose proof (sum_upd f n x y l Hn)
             end
         end.

Ltac msolve :=
  unfold measure; sproj; sums; rewrite ?sum_app, ?app_length; simpl; unfold w_h in *; simpl in *;
  repeat match goal with
         | E : rd _ = _ |- _ => rewrite E in *
         | E : wr _ = _ |- _ => rewrite E in *
         | E : h_pc _ = _ |- _ => rewrite E in *
         | E : h_donesig _ = _ |- _ => rewrite E in *
         | E : inbox _ = _ |- _ => rewrite E in *
         end; simpl in *; try lia.

Lemma measure_int nw s i s' : inv nw s -> inv_hdr s -> rule_of i s = Some s' -> measure s' < measure s.
Proof.
  intros Iv [_ Ihd] H. destruct i; simpl in H.
  all: try (start_rule H; msolve; fail).
  - (* r_rd_read *)
    unfold r_rd_read in H. destruct (rd s) eqn:Erd; try discriminate. destruct (inbox s) as [|f rest] eqn:Ei.
    + destr_in H; inv_some H; msolve.
    + destruct (dispatch f); inv_some H; try (msolve; fail).
      unfold stream_dispatch. sproj.
      destruct (find_reg (fid f) (hs s) 0) as [g|].
      * destruct (is_rst f); [destruct (nth_error (hs s) g) as [kg|] eqn:Eg|]; msolve.
      * destruct (is_rst f); [|destruct (has_body f); [|destruct (has_trl f); [|destruct (md_bad f)]]]; msolve.
  - (* r_rd_offer *)
    unfold r_rd_offer in H. destruct (rd s) eqn:Erd; try discriminate.
    destruct (find_idle (wk s) 0) as [w|] eqn:Ew; [|discriminate]. inv_some H.
    pose proof (find_idle_nth _ _ _ Ew) as Hw. rewrite Nat.sub_0_r in Hw.
    assert (Hh : has_hdr f = true) by (apply dispatch_hdr; congruence).
    unfold start_unary. rewrite Hh. simpl negb. cbv iota.
    destruct (md_bad f); [|destruct (body_tok f <? 0)%Z]; msolve.
  - (* r_rd_rst *)
    unfold r_rd_rst in H. destruct (rd s) eqn:Erd; try discriminate. destruct (wr s) eqn:Ewr; try discriminate.
    rewrite (dispatch_hdr f) in H by congruence. inv_some H. msolve.
  - (* r_h_unreg *)
    unfold r_h_unreg in H. destruct (nth_error (hs s) h) as [k|] eqn:Hn; [|discriminate].
    destruct (h_pc k) eqn:Hp; try discriminate. destruct (mu_free s); [|discriminate].
    pose proof (sum_upd w_h h k (hset_pc k HDead) (hs s) Hn) as E1.
    unfold set_h at 1 2 3 in H. cbn [hs set_hs] in H.
    destruct (find_reg _ _ _) as [g|]; [destruct (nth_error _ g) as [kg|] eqn:Hg|]; inv_some H.
    + pose proof (sum_upd w_h g kg (hunregister kg) _ Hg) as E2.
      unfold measure; sproj. unfold w_h in *; simpl in *. rewrite Hp in *. destruct (h_donesig kg), (h_donesig k); simpl in *; lia.
    + unfold measure; sproj. unfold w_h in *; simpl in *. rewrite Hp in *. destruct (h_donesig k); simpl in *; lia.
    + unfold measure; sproj. unfold w_h in *; simpl in *. rewrite Hp in *. destruct (h_donesig k); simpl in *; lia.
Qed.

(* (T): from every reachable state, every sequence of internal steps is shorter than the state's weight: once the
   environment stops acting the connection reaches a quiescent state (no live-lock) *)
Theorem srv_measure nw ls s i s' : lrun (init_n nw) ls = Some s -> rule_of i s = Some s' -> measure s' < measure s.
Proof.
  intros H. apply (measure_int nw); [exact (inv_reach nw ls s H) | exact (inv_hdr_reach nw ls s H)].
Qed.

Definition all_internal (ls : list label) : bool := forallb (fun l => match l with LInt _ => true | LExt _ => false end) ls.

Theorem srv_internal_runs_bounded nw ls s : lrun (init_n nw) ls = Some s ->
  forall ls' s', all_internal ls' = true -> lrun s ls' = Some s' -> length ls' + measure s' <= measure s.
Proof.
  intros H ls'. revert ls s H. induction ls' as [|l ls' IH]; intros ls s H s' Hi Hr.
  - simpl in Hr. inversion Hr; subst. simpl. lia.
  - simpl in Hi. apply andb_true_iff in Hi. destruct Hi as [Hl Hi]. destruct l as [a|n]; [discriminate|].
    cbn [lrun] in Hr. destruct (lstep s (LInt n)) as [s1|] eqn:E; [|discriminate].
    assert (H1 : lrun (init_n nw) (ls ++ [LInt n]) = Some s1).
    { rewrite lrun_app, H. cbn [lrun]. now rewrite E. }
    specialize (IH (ls ++ [LInt n]) s1 H1 s' Hi Hr).
    cbn [lstep] in E. destruct (nth_error (rules s) n) as [r|] eqn:En; [|discriminate].
    apply nth_error_In in En. apply rules_cases in En. destruct En as [i ->].
    pose proof (srv_measure nw ls s i s1 H E). simpl length. lia.
Qed.

From Goat Require Import Base.Bytes Model.Timeout.
From Coq Require Import ZifyBool ZifyN.
Open Scope Z_scope.

Ltac Zify.zify_post_hook ::= Z.div_mod_to_equations.

(* ---------- decimal digits ---------- *)

Lemma is_digit_spec c : is_digit c = true <-> (48 <= Z.of_N c <= 57).
Proof. unfold is_digit. lia. Qed.

Lemma val_le_bound rds :
  forallb is_digit rds = true -> 0 <= val_le rds < 10 ^ Z.of_nat (length rds).
Proof.
  induction rds as [|d rds IH]; intro H.
  - cbn. lia.
  - cbn [forallb] in H. apply andb_true_iff in H as [Hd Hr].
    apply is_digit_spec in Hd. specialize (IH Hr).
    cbn [val_le length]. rewrite Nat2Z.inj_succ, Z.pow_succ_r by lia. lia.
Qed.

Lemma digits_le_val fuel n :
  0 <= n < 10 ^ Z.of_nat fuel -> val_le (digits_le fuel n) = n.
Proof.
  revert n; induction fuel as [|f IH]; intros n Hn.
  - change (10 ^ Z.of_nat 0) with 1 in Hn. cbn [digits_le val_le]. lia.
  - cbn [digits_le val_le].
    rewrite Z2N.id by lia.
    destruct (n <? 10) eqn:E.
    + cbn [val_le]. lia.
    + rewrite IH.
      * lia.
      * rewrite Nat2Z.inj_succ, Z.pow_succ_r in Hn by lia. lia.
Qed.

Lemma digits_le_digits fuel n :
  0 <= n -> forallb is_digit (digits_le fuel n) = true.
Proof.
  revert n; induction fuel as [|f IH]; intros n Hn; [reflexivity|].
  cbn [digits_le forallb]. apply andb_true_iff; split.
  - apply is_digit_spec. rewrite Z2N.id by lia. lia.
  - destruct (n <? 10); [reflexivity|]. apply IH. lia.
Qed.

Lemma digits_le_nonempty f n : digits_le (S f) n <> [].
Proof. cbn [digits_le]. discriminate. Qed.

(* ---------- saturating product ---------- *)

Lemma unit_cases u unit :
  unit_of u = Some unit ->
  unit = 3600000000000 \/ unit = 60000000000 \/ unit = 1000000000 \/
  unit = 1000000 \/ unit = 1000 \/ unit = 1.
Proof.
  unfold unit_of.
  repeat match goal with
         | |- context [match ?x with _ => _ end] => destruct x
         end; intro H; inversion H; tauto.
Qed.

Lemma sat_mul v unit :
  0 <= v ->
  unit = 3600000000000 \/ unit = 60000000000 \/ unit = 1000000000 \/
  unit = 1000000 \/ unit = 1000 \/ unit = 1 ->
  (if v >? maxInt64 / unit then Some maxInt64 else Some (v * unit))
  = Some (Z.min (v * unit) maxInt64).
Proof.
  intros Hv Hu. unfold maxInt64.
  destruct Hu as [ -> | [ -> | [ -> | [ -> | [ -> | -> ]]]]];
    match goal with
    | |- context [?a / ?b] => let q := eval vm_compute in (a / b) in change (a / b) with q
    end;
    destruct (v >? _) eqn:E; f_equal; lia.
Qed.

(* ---------- parse ---------- *)

Lemma parse_app rds u :
  parse (rev rds ++ [u]) =
  match parse_uint63_le rds with
  | None => None
  | Some v =>
      match unit_of u with
      | None => None
      | Some unit => if v >? maxInt64 / unit then Some maxInt64 else Some (v * unit)
      end
  end.
Proof. unfold parse. rewrite rev_app_distr, rev_involutive. reflexivity. Qed.

Lemma parse_uint63_ok rds :
  rds <> [] -> forallb is_digit rds = true -> val_le rds <= maxInt64 ->
  parse_uint63_le rds = Some (val_le rds).
Proof.
  intros Hne Hd Hv. unfold parse_uint63_le. destruct rds as [|d r]; [congruence|].
  rewrite Hd. destruct (val_le (d :: r) <=? maxInt64) eqn:E; [reflexivity|apply Z.leb_gt in E; lia].
Qed.

Lemma parse_uint63_inv rds v :
  parse_uint63_le rds = Some v ->
  rds <> [] /\ forallb is_digit rds = true /\ v = val_le rds /\ 0 <= v <= maxInt64.
Proof.
  unfold parse_uint63_le. destruct rds as [|d r]; [discriminate|].
  remember (d :: r) as rds eqn:Hrds.
  destruct (forallb is_digit rds) eqn:Hd; [|discriminate].
  destruct (val_le rds <=? maxInt64) eqn:E; [|discriminate].
  apply Z.leb_le in E.
  intro H. assert (Hv : v = val_le rds) by congruence. clear H. subst v.
  pose proof (val_le_bound _ Hd).
  repeat split; try congruence; lia.
Qed.

(* the value of a big-endian digit string *)
Definition val (ds : bytes) : Z := val_le (rev ds).

Lemma grammar ds u unit :
  ds <> [] -> forallb is_digit ds = true -> (length ds <= 8)%nat ->
  unit_of u = Some unit ->
  parse (ds ++ [u]) = Some (Z.min (val ds * unit) maxInt64).
Proof.
  intros Hne Hd Hl Hu.
  rewrite <- (rev_involutive ds) at 1. rewrite parse_app.
  assert (Hd' : forallb is_digit (rev ds) = true).
  { apply forallb_forall. intros x Hx. apply in_rev in Hx.
    rewrite forallb_forall in Hd. auto. }
  pose proof (val_le_bound _ Hd') as Hb. rewrite rev_length in Hb.
  assert (10 ^ Z.of_nat (length ds) <= 10 ^ 8) by (apply Z.pow_le_mono_r; lia).
  assert (10 ^ 8 = 100000000) by reflexivity.
  rewrite parse_uint63_ok; [| | assumption |].
  - rewrite Hu. apply sat_mul; [unfold val; lia|]. eapply unit_cases; eauto.
  - intro E. apply (f_equal (@rev N)) in E. rewrite rev_involutive in E. cbn in E. auto.
  - unfold maxInt64. lia.
Qed.

Lemma no_misread s d :
  parse s = Some d ->
  exists ds u unit,
    s = ds ++ [u] /\ ds <> [] /\ forallb is_digit ds = true /\
    unit_of u = Some unit /\ val ds <= maxInt64 /\
    d = Z.min (val ds * unit) maxInt64 /\ 0 <= d.
Proof.
  unfold parse. destruct (rev s) as [|u rds] eqn:Hr; [discriminate|].
  destruct (parse_uint63_le rds) as [v|] eqn:Hp; [|discriminate].
  destruct (unit_of u) as [unit|] eqn:Hu; [|discriminate].
  apply parse_uint63_inv in Hp as (Hne & Hd & Hv & Hrange).
  pose proof (unit_cases _ _ Hu) as Hc.
  rewrite sat_mul by (try lia; auto). intro H; inversion H; subst d; clear H.
  exists (rev rds), u, unit.
  assert (Hs : s = rev rds ++ [u]).
  { rewrite <- (rev_involutive s), Hr. reflexivity. }
  assert (Hval : val (rev rds) = v).
  { unfold val. rewrite rev_involutive. congruence. }
  rewrite Hval.
  split; [exact Hs|].
  split.
  { intro E. apply (f_equal (@rev N)) in E. rewrite rev_involutive in E. cbn in E. auto. }
  split.
  { apply forallb_forall. intros x Hx. apply in_rev in Hx.
    rewrite forallb_forall in Hd. auto. }
  split; [exact Hu|].
  split; [lia|].
  split; [reflexivity|].
  unfold maxInt64 in *.
  destruct Hc as [ -> | [ -> | [ -> | [ -> | [ -> | -> ]]]]]; lia.
Qed.

(* ---------- encode / transfer ---------- *)

Lemma encode_ms_val r :
  encode_ms r = if r <? 1000000 then 1 else r / 1000000.
Proof.
  unfold encode_ms.
  destruct (Z.lt_trichotomy r 0) as [Hn|[->|Hp]].
  - assert (Hq : Z.quot r 1000000 <= 0).
    { rewrite <- (Z.opp_involutive r), Z.quot_opp_l by lia.
      assert (0 <= Z.quot (- r) 1000000) by (apply Z.quot_pos; lia). lia. }
    destruct (Z.quot r 1000000 <=? 0) eqn:E; destruct (r <? 1000000) eqn:E2; lia.
  - reflexivity.
  - rewrite Z.quot_div_nonneg by lia.
    destruct (_ <=? 0) eqn:E; destruct (r <? 1000000) eqn:E2; lia.
Qed.

Lemma encode_ms_range r : r <= maxInt64 -> 1 <= encode_ms r <= 9223372036854.
Proof.
  unfold maxInt64. intro H. rewrite encode_ms_val.
  destruct (r <? 1000000) eqn:E; lia.
Qed.

Lemma parse_encode r :
  r <= maxInt64 -> parse (encode r) = Some (encode_ms r * 1000000).
Proof.
  intro Hr. pose proof (encode_ms_range r Hr) as Hm.
  unfold encode. rewrite parse_app.
  assert (Hb : 0 <= encode_ms r < 10 ^ Z.of_nat 20).
  { change (10 ^ Z.of_nat 20) with 100000000000000000000. lia. }
  rewrite parse_uint63_ok.
  - rewrite digits_le_val by exact Hb.
    change (unit_of 109%N) with (Some 1000000). cbv beta iota.
    change (maxInt64 / 1000000) with 9223372036854.
    destruct (encode_ms r >? 9223372036854) eqn:E; [lia|reflexivity].
  - apply digits_le_nonempty.
  - apply digits_le_digits. lia.
  - rewrite digits_le_val by exact Hb. unfold maxInt64. lia.
Qed.

Lemma transfer_bounds r :
  Z.max (r - 1000000) 1000000 <= encode_ms r * 1000000 <= Z.max r 1000000.
Proof. rewrite encode_ms_val. destruct (r <? 1000000) eqn:E; lia. Qed.

(* ---------- pick ---------- *)

Lemma pick_none hdrs :
  (forall k v, In (k, v) hdrs -> lower k <> timeout_key) -> pick hdrs = None.
Proof.
  induction hdrs as [|[k v] rest IH]; intro H; [reflexivity|].
  cbn [pick]. destruct (bytes_eqb (lower k) timeout_key) eqn:E.
  - apply bytes_eqb_eq in E. exfalso. eapply H; [left; reflexivity|exact E].
  - apply IH. intros k' v' Hin. apply (H k' v'). right. exact Hin.
Qed.

Lemma pick_first k v d rest :
  lower k = timeout_key -> parse v = Some d -> pick ((k, v) :: rest) = Some d.
Proof.
  intros Hk Hp. cbn [pick]. rewrite Hk, bytes_eqb_refl, Hp. reflexivity.
Qed.

Lemma pick_sound hdrs d :
  pick hdrs = Some d ->
  exists k v, In (k, v) hdrs /\ lower k = timeout_key /\ parse v = Some d.
Proof.
  induction hdrs as [|[k v] rest IH]; [discriminate|].
  cbn [pick]. destruct (bytes_eqb (lower k) timeout_key) eqn:E.
  - destruct (parse v) as [d'|] eqn:Hp.
    + intro H; inversion H; subst. exists k, v. apply bytes_eqb_eq in E.
      split; [left; reflexivity|auto].
    + intro H. destruct (IH H) as (k' & v' & Hin & Hk & Hv).
      exists k', v'. split; [right; exact Hin|auto].
  - intro H. destruct (IH H) as (k' & v' & Hin & Hk & Hv).
    exists k', v'. split; [right; exact Hin|auto].
Qed.

(* ---- the whole transfer ---- *)
Lemma pick_app_skip a b :
  (forall k v, In (k, v) a -> lower k <> timeout_key) -> pick (a ++ b) = pick b.
Proof.
  induction a as [|[k v] a IH]; intro H; [reflexivity|].
  cbn [app pick].
  destruct (bytes_eqb (lower k) timeout_key) eqn:E.
  - apply bytes_eqb_eq in E. exfalso. apply (H k v); [left; reflexivity|exact E].
  - apply IH. intros k' v' Hin. apply (H k' v'). right. exact Hin.
Qed.

Lemma client_key_lower : lower client_timeout_key = timeout_key.
Proof. vm_compute. reflexivity. Qed.

Lemma sys_kinds_alike t0 t1 md dl : sys_deadline KUnary t0 t1 md dl = sys_deadline KStream t0 t1 md dl.
Proof. reflexivity. Qed.

Lemma sys_some k t0 t1 md r :
  r <= maxInt64 ->
  (forall k v, In (k, v) md -> lower k <> timeout_key) ->
  sys_deadline k t0 t1 md (Some (t0 + r)) = Some (t1 + encode_ms r * 1000000).
Proof.
  intros Hr Hmd.
  assert (E : server_deadline t1 (client_headers md (Some (t0 + r - t0))) = Some (t1 + encode_ms r * 1000000)).
  { unfold server_deadline, client_headers. rewrite (pick_app_skip _ _ Hmd).
    replace (t0 + r - t0) with r by lia.
    cbn [pick]. rewrite client_key_lower, bytes_eqb_refl. rewrite (parse_encode r Hr). reflexivity. }
  destruct k; exact E.
Qed.

Lemma sys_none k t0 t1 md :
  (forall k v, In (k, v) md -> lower k <> timeout_key) ->
  sys_deadline k t0 t1 md None = None.
Proof.
  intro Hmd.
  assert (E : server_deadline t1 (client_headers md None) = None).
  { unfold server_deadline, client_headers. rewrite app_nil_r. rewrite (pick_none _ Hmd). reflexivity. }
  destruct k; exact E.
Qed.

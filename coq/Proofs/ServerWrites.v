(* How many envelopes a server step puts on the wire: an internal rule at most one, a handler operation none. *)
From Coq Require Import List ZArith Bool Lia Arith.
Import ListNotations.
From Goat Require Import Model.Client Model.Server Proofs.ServerProofs Proofs.ServerInv Proofs.ServerTrace Model.Sys Proofs.SysLog Proofs.SysProofs.
Open Scope nat_scope.

Lemma nsw_app (s s' : Server.state) evs : Server.log s' = Server.log s ++ evs -> new_swrites s s' = swrites evs.
Proof. intros E. unfold new_swrites. now rewrite E, skipn_app_len. Qed.

Lemma swrites_invokes evs : (forall e, In e evs -> exists h u i m p d, e = SvInvoke h u i m p d) -> swrites evs = [].
Proof.
  induction evs as [|e evs IH]; intros H; [reflexivity|]. destruct (H e (or_introl eq_refl)) as [a1 [a2 [a3 [a4 [a5 [a6 ->]]]]]].
  simpl. apply IH. intros y Hy. apply H. now right.
Qed.

Ltac nsw := match goal with |- length (new_swrites ?s ?s') <= 1 =>
              rewrite (nsw_app s s' _ ltac:(sproj; reflexivity)); simpl; lia end.

Lemma srv_int_writes s i s' : rule_of i s = Some s' -> length (new_swrites s s') <= 1.
Proof.
  intros H. destruct i; simpl in H.
  all: try (start_rule H; first [nsw | (unfold new_swrites; sproj; rewrite Nat.sub_diag || idtac; rewrite skipn_all; simpl; lia)]; fail).
  - unfold r_rd_read in H. destruct (Server.rd s); try discriminate. destruct (Server.inbox s) as [|f rest].
    + destr_in H; inv_some H; unfold new_swrites; sproj; rewrite skipn_all; simpl; lia.
    + destruct (dispatch f); inv_some H; try nsw.
      destruct (stream_dispatch_log (add_log (set_inbox s rest) [SvRead f]) f) as [_ [_ [evs [E2 Hev]]]].
      rewrite (nsw_app s _ ([SvRead f] ++ evs)); [|rewrite E2; sproj; now rewrite app_assoc].
      simpl. rewrite (swrites_invokes evs Hev). simpl. lia.
  - unfold r_rd_offer in H. destruct (Server.rd s); try discriminate. destruct (find_idle (wk s) 0); [|discriminate]. inv_some H.
    destruct (start_unary_log (add_log (set_rd s RdRead) [SvJob n f]) n f) as [_ [_ [evs [E2 Hev]]]].
    rewrite (nsw_app s _ ([SvJob n f] ++ evs)); [|rewrite E2; sproj; now rewrite app_assoc].
    simpl. rewrite (swrites_invokes evs Hev). simpl. lia.
Qed.

Lemma srv_hstep_writes s a : match a with AHandlerStep _ _ => True | _ => False end -> new_swrites s (Server.ext s a) = [].
Proof.
  destruct a; try contradiction. intros _. simpl.
  destruct (nth_error (hs s) h) as [k|]; [|unfold new_swrites; rewrite skipn_all; reflexivity].
  destruct (h_pc k); try (unfold new_swrites; rewrite skipn_all; reflexivity).
  destruct (hstep_log s h k o) as [evs [E Hev]]. rewrite (nsw_app s _ evs E).
  clear E. induction evs as [|e evs IH]; [reflexivity|]. pose proof (Hev e (or_introl eq_refl)) as He.
  destruct e; try contradiction; simpl; apply IH; intros x Hx; apply Hev; now right.
Qed.

(* Liveness as safety for Model/Server.v: what every reachable QUIESCENT state
   looks like (no internal rule enabled), under hypotheses on the environment. *)
From Coq Require Import List ZArith Bool Lia Arith.
Import ListNotations.
From Goat Require Import Model.Client Model.Server Proofs.ServerProofs Proofs.ServerInv.
Open Scope Z_scope.

Lemma first_enabled_none rs s : first_enabled rs s = None -> forall r, In r rs -> r s = None.
Proof.
  induction rs as [|r0 rs IH]; intros H r Hin; [contradiction|].
  simpl in H. destruct (r0 s) eqn:E; [discriminate|]. destruct Hin as [<- | Hin]; auto.
Qed.

Lemma quiescent_none s : quiescent s = true -> forall r, In r (rules s) -> r s = None.
Proof.
  unfold quiescent. intros H. apply first_enabled_none. destruct (first_enabled (rules s) s); [discriminate | reflexivity].
Qed.

Lemma q_fixed s i :
  quiescent s = true ->
  match i with
  | RWkHand _ | RWkHandCtx _ | RWkExit _ | RHRecv _ | RHRecvCtx _ | RHSend _ | RHSendCtx _ | RHAwait _
  | RHUnreg _ | RRdCwsPick _ => False
  | _ => True
  end -> rule_of i s = None.
Proof. intros Q Hi. apply (quiescent_none s Q). now apply rules_fixed. Qed.

Lemma q_wk s w (p : nat -> rule) : quiescent s = true -> (w < length (wk s))%nat -> In p per_wk_rules -> p w s = None.
Proof. intros Q Hw Hp. apply (quiescent_none s Q). now apply rules_wk. Qed.

Lemma q_h s h (p : nat -> rule) : quiescent s = true -> (h < length (hs s))%nat -> In p per_h_rules -> p h s = None.
Proof. intros Q Hh Hp. apply (quiescent_none s Q). now apply rules_h. Qed.

Definition all_returned (s : state) : Prop := forall h k, nth_error (hs s) h = Some k -> h_returned k = true.
(* every handler whose context is done has returned (the handler programs honour their context) *)
Definition honours (s : state) : Prop := forall h k, nth_error (hs s) h = Some k -> hdone s k = true -> h_returned k = true.

Lemma all_returned_honours s : all_returned s -> honours s.
Proof. intros H h k Hn _. eauto. Qed.

(* ---------- the writer and the read loop in a quiescent state ---------- *)
Lemma q_writer nw s :
  inv nw s -> quiescent s = true -> wblock s = false \/ hctx_done s = true ->
  (hctx_done s = false /\ wr s = WrSel) \/ (hctx_done s = true /\ wr s = WrDead).
Proof.
  intros I Q Hb. pose proof (q_fixed s RWrWrite Q Logic.I) as H1. pose proof (q_fixed s RWrExit Q Logic.I) as H2.
  simpl in H1, H2. unfold r_wr_write in H1. unfold r_wr_exit in H2.
  destruct (wr s) eqn:Ew.
  - destruct (hctx_done s); [discriminate | left; auto].
  - destruct (wfail s); [discriminate|]. destruct (wblock s); [|discriminate].
    destruct Hb as [Hb | Hb]; [discriminate|]. rewrite Hb in H1. discriminate.
  - right. split; [|reflexivity]. now apply (i_wr_dead nw s I).
Qed.

Lemma unreg_enabled s h k :
  nth_error (hs s) h = Some k -> h_pc k = HUnreg -> mu_free s = true -> r_h_unreg h s <> None.
Proof.
  intros Hn Hp Hmu H. unfold r_h_unreg in H. rewrite Hn, Hp, Hmu in H. destr_in H; discriminate.
Qed.

(* a returned stream handler is dead in a quiescent state once the read loop does not hold the registry lock
   and the writer is not stuck *)
Lemma q_handler_dead nw s h k :
  inv nw s -> quiescent s = true -> nth_error (hs s) h = Some k -> h_returned k = true ->
  mu_free s = true -> (wr s = WrSel \/ hdone s k = true) -> h_pc k = HDead.
Proof.
  intros I Q Hn Hr Hmu Hw. assert (Hl := nth_error_lt _ _ _ Hn).
  unfold h_returned in Hr. destruct (h_pc k) eqn:Hp; try discriminate; [| |reflexivity].
  - destruct k0; try discriminate. exfalso.
    destruct Hw as [Hw | Hw].
    + pose proof (q_h s h r_h_send Q Hl ltac:(simpl; tauto)) as H1. unfold r_h_send in H1.
      rewrite Hn, Hw, Hp in H1. discriminate.
    + pose proof (q_h s h r_h_send_ctx Q Hl ltac:(simpl; tauto)) as H1. unfold r_h_send_ctx in H1.
      rewrite Hn, Hp, Hw in H1. discriminate.
  - exfalso. apply (unreg_enabled s h k Hn Hp Hmu). apply (q_h s h r_h_unreg Q Hl). simpl; tauto.
Qed.

Lemma exited_hctx nw s : inv nw s -> rd_exited s = true -> hctx_done s = true /\ cctx_done s = true.
Proof.
  intros I H. rewrite <- (i_exit_rd nw s I) in H. unfold hctx_done, cctx_done.
  rewrite H, (i_exit_conn nw s I H). split; apply orb_true_r.
Qed.

(* a registered handler that has returned keeps a quiescent state from being quiescent unless ... *)
Lemma returned_unary_dead nw s h k :
  inv nw s -> nth_error (hs s) h = Some k -> h_unary k = true -> h_returned k = true -> h_pc k = HDead.
Proof.
  intros I Hn U Hr. destruct (i_h nw s I h k Hn) as [K1 _]. destruct (K1 U) as [_ [P | [P | P]]]; auto;
    unfold h_returned in Hr; rewrite P in Hr; discriminate.
Qed.

Lemma reg_alive nw s h k : inv nw s -> nth_error (hs s) h = Some k -> h_reg k = hs_alive k.
Proof.
  intros I Hn. destruct (i_h nw s I h k Hn) as [K1 [K2 _]]. unfold hs_alive, h_alive.
  destruct (h_unary k) eqn:U.
  - destruct (K1 eq_refl) as [R _]. now rewrite R.
  - rewrite (K2 eq_refl). unfold pc_dead. simpl. destruct (h_pc k); reflexivity.
Qed.

(* ---------- C12: a quiescent state whose handlers have all returned is idle ---------- *)
Lemma q_rd_serving nw s :
  inv nw s -> quiescent s = true -> all_returned s -> wblock s = false -> hctx_done s = false ->
  wr s = WrSel /\ (rd s = RdRead \/ exists f, rd s = RdOffer f).
Proof.
  intros I Q Hret Hb Hc.
  destruct (q_writer nw s I Q (or_introl Hb)) as [[_ Hw] | [Hc' _]]; [|congruence].
  split; [assumption|].
  destruct (rd s) eqn:Erd; eauto.
  - (* RdFwd *) exfalso.
    pose proof (i_rd nw s I) as Hrd. rewrite Erd in Hrd. destruct Hrd as [k [Hn [Hreg Hid]]].
    assert (Hl := nth_error_lt _ _ _ Hn). specialize (Hret h k Hn).
    destruct (i_h nw s I h k Hn) as [K1 [K2 [K3 K4]]].
    unfold h_returned in Hret. destruct (h_pc k) eqn:Hp; try discriminate.
    + destruct k0; try discriminate.
      pose proof (q_h s h r_h_send Q Hl ltac:(simpl; tauto)) as H1. unfold r_h_send in H1.
      rewrite Hn, Hw, Hp in H1. discriminate.
    + pose proof (q_fixed s RRdFwdGone Q Logic.I) as H1. simpl in H1. unfold r_rd_fwd_gone in H1.
      rewrite Erd, Hn in H1. unfold hdone in H1. rewrite (K3 eq_refl) in H1. discriminate.
    + rewrite (reg_alive nw s h k I Hn) in Hreg. unfold hs_alive, h_alive in Hreg. rewrite Hp in Hreg.
      rewrite andb_false_r in Hreg. discriminate.
  - (* RdRst *) exfalso. pose proof (q_fixed s RRdRst Q Logic.I) as H1. simpl in H1. unfold r_rd_rst in H1.
    rewrite Erd, Hw in H1. destruct (has_hdr f); discriminate.
  - exfalso. destruct (exited_hctx nw s I) as [H _]; [unfold rd_exited; now rewrite Erd | congruence].
  - exfalso. destruct (exited_hctx nw s I) as [H _]; [unfold rd_exited; now rewrite Erd | congruence].
  - exfalso. destruct (exited_hctx nw s I) as [H _]; [unfold rd_exited; now rewrite Erd | congruence].
Qed.

Lemma q_workers_idle nw s w p :
  inv nw s -> quiescent s = true -> all_returned s -> wr s = WrSel -> hctx_done s = false ->
  nth_error (wk s) w = Some p -> p = WkIdle.
Proof.
  intros I Q Hret Hw Hc Hn. assert (Hl := nth_error_lt _ _ _ Hn). destruct p; auto; exfalso.
  - destruct (i_wk_run nw s I w h Hn) as [k [K1 [K2 K3]]].
    apply K3. eapply returned_unary_dead; eauto.
  - pose proof (q_wk s w r_wk_hand Q Hl ltac:(simpl; tauto)) as H1. unfold r_wk_hand in H1.
    rewrite Hn, Hw in H1. discriminate.
  - pose proof (i_wk_dead nw s I w Hn). congruence.
Qed.

Theorem srv_quiescent_idle nw s :
  (1 <= nw)%nat -> inv nw s -> quiescent s = true -> all_returned s -> wblock s = false -> hctx_done s = false ->
  rd s = RdRead /\ inbox s = [] /\ wr s = WrSel
  /\ (forall w p, nth_error (wk s) w = Some p -> p = WkIdle)
  /\ (forall h k, nth_error (hs s) h = Some k -> h_pc k = HDead)
  /\ registry_size s = 0%nat.
Proof.
  intros Hnw I Q Hret Hb Hc.
  destruct (q_rd_serving nw s I Q Hret Hb Hc) as [Hw Hrd].
  assert (Hwk : forall w p, nth_error (wk s) w = Some p -> p = WkIdle)
    by (intros; eapply q_workers_idle; eauto).
  assert (Erd : rd s = RdRead).
  { destruct Hrd as [E | [f E]]; [assumption|]. exfalso.
    pose proof (q_fixed s RRdOffer Q Logic.I) as H1. simpl in H1. unfold r_rd_offer in H1. rewrite E in H1.
    destruct (find_idle (wk s) 0) eqn:Ef; [discriminate|].
    pose proof (i_wk nw s I) as L.
    destruct (wk s) as [|p ws] eqn:Ews.
    - simpl in L. lia.
    - assert (p = WkIdle) by (apply (Hwk 0%nat); reflexivity). subst. simpl in Ef. discriminate. }
  assert (Hmu : mu_free s = true) by (unfold mu_free; now rewrite Erd).
  assert (Hdead : forall h k, nth_error (hs s) h = Some k -> h_pc k = HDead).
  { intros h k Hn. eapply q_handler_dead; eauto. }
  repeat split; auto.
  - pose proof (q_fixed s RRdRead Q Logic.I) as H1. simpl in H1. unfold r_rd_read in H1. rewrite Erd in H1.
    destruct (inbox s); [reflexivity|]. destruct (dispatch f); discriminate.
  - unfold registry_size. rewrite (proj2 (length_zero_iff_nil _)); [reflexivity|].
    destruct (filter h_reg (hs s)) as [|k l] eqn:Ef; [reflexivity|]. exfalso.
    assert (Hin : In k (filter h_reg (hs s))) by (rewrite Ef; left; reflexivity).
    apply filter_In in Hin. destruct Hin as [Hin Hr]. apply In_nth_error in Hin. destruct Hin as [h Hn].
    rewrite (reg_alive nw s h k I Hn) in Hr. unfold hs_alive, h_alive in Hr. rewrite (Hdead h k Hn) in Hr.
    rewrite andb_false_r in Hr. discriminate.
Qed.

(* ---------- C10 ---------- *)
Theorem srv_serve_returns nw s :
  inv nw s -> quiescent s = true -> honours s -> hctx_done s = true -> serve_returned s = true.
Proof.
  intros I Q Hh Hc. unfold serve_returned. destruct (rd s) eqn:Erd; auto; exfalso.
  - pose proof (q_fixed s RRdRead Q Logic.I) as H1. simpl in H1. unfold r_rd_read in H1. rewrite Erd, Hc in H1.
    destruct (inbox s); [destruct (inbox_failed s); discriminate | destruct (dispatch f); discriminate].
  - pose proof (q_fixed s RRdOfferCtx Q Logic.I) as H1. simpl in H1. unfold r_rd_offer_ctx in H1.
    rewrite Erd, Hc in H1. discriminate.
  - pose proof (q_fixed s RRdFwdHctx Q Logic.I) as H1. simpl in H1. unfold r_rd_fwd_hctx in H1.
    rewrite Erd, Hc in H1. discriminate.
  - pose proof (q_fixed s RRdRstCtx Q Logic.I) as H1. simpl in H1. unfold r_rd_rst_ctx in H1.
    rewrite Erd, Hc in H1. discriminate.
  - pose proof (q_fixed s RRdCwsDone Q Logic.I) as H1. simpl in H1. unfold r_rd_cws_done in H1. rewrite Erd in H1.
    destruct (any_reg (hs s)) eqn:Ea; [|discriminate].
    destruct (any_reg_true _ Ea) as [h [k [Hn Hr]]]. assert (Hl := nth_error_lt _ _ _ Hn).
    pose proof (q_h s h r_rd_cws_pick Q Hl ltac:(simpl; tauto)) as H2. unfold r_rd_cws_pick in H2.
    rewrite Erd, Hn, Hr in H2. discriminate.
  - pose proof (i_rd nw s I) as Hrd. rewrite Erd in Hrd. destruct Hrd as [k [Hn Hor]].
    assert (Hl := nth_error_lt _ _ _ Hn).
    pose proof (q_fixed s RRdWait Q Logic.I) as H1. simpl in H1. unfold r_rd_wait in H1. rewrite Erd, Hn in H1.
    destruct (h_donesig k) eqn:Hd; [discriminate|]. destruct Hor as [Hreg | ?]; [|discriminate].
    destruct (exited_hctx nw s I) as [_ Hcc]; [unfold rd_exited; now rewrite Erd|].
    assert (Hdn : hdone s k = true) by (unfold hdone; rewrite Hcc; apply orb_true_r).
    assert (Hmu : mu_free s = true) by (unfold mu_free; now rewrite Erd).
    pose proof (q_handler_dead nw s h k I Q Hn (Hh h k Hn Hdn) Hmu (or_intror Hdn)) as Hp.
    rewrite (reg_alive nw s h k I Hn) in Hreg. unfold hs_alive, h_alive in Hreg. rewrite Hp in Hreg.
    rewrite andb_false_r in Hreg. discriminate.
Qed.

(* a failed transport read is noticed as soon as the read loop reads: with no handler left to park it, it returns *)
Theorem srv_serve_returns_readfail nw s :
  (1 <= nw)%nat -> inv nw s -> quiescent s = true -> all_returned s -> wblock s = false -> inbox_failed s = true ->
  serve_returned s = true.
Proof.
  intros Hnw I Q Hret Hb Hf. destruct (hctx_done s) eqn:Hc.
  - apply (srv_serve_returns nw); auto. now apply all_returned_honours.
  - exfalso. destruct (srv_quiescent_idle nw s Hnw I Q Hret Hb Hc) as [Erd [Ei _]].
    pose proof (q_fixed s RRdRead Q Logic.I) as H1. simpl in H1. unfold r_rd_read in H1.
    rewrite Erd, Ei, Hf in H1. discriminate.
Qed.

Theorem srv_streams_done nw s :
  inv nw s -> serve_returned s = true ->
  forall h k, nth_error (hs s) h = Some k -> h_unary k = false -> h_pc k = HDead.
Proof.
  intros I Hs h k Hn U. unfold serve_returned in Hs. destruct (rd s) eqn:Erd; try discriminate.
  pose proof (i_rd nw s I) as Hrd. rewrite Erd in Hrd. simpl in Hrd.
  pose proof (any_reg_false _ Hrd h k Hn) as Hr. rewrite (reg_alive nw s h k I Hn) in Hr.
  unfold hs_alive, h_alive in Hr. rewrite U in Hr. simpl in Hr. destruct (h_pc k); try discriminate. reflexivity.
Qed.

Theorem srv_ctx_done nw s :
  inv nw s -> serve_returned s = true -> forall h k, nth_error (hs s) h = Some k -> hdone s k = true.
Proof.
  intros I Hs h k Hn. unfold serve_returned in Hs.
  destruct (exited_hctx nw s I) as [_ Hcc]; [unfold rd_exited; destruct (rd s); auto; discriminate|].
  unfold hdone. rewrite Hcc. apply orb_true_r.
Qed.

Theorem srv_no_leak nw s :
  inv nw s -> quiescent s = true -> serve_returned s = true -> all_returned s ->
  wr s = WrDead /\ (forall w p, nth_error (wk s) w = Some p -> p = WkDead)
  /\ (forall h k, nth_error (hs s) h = Some k -> h_pc k = HDead).
Proof.
  intros I Q Hs Hret.
  destruct (exited_hctx nw s I) as [Hc Hcc]; [unfold serve_returned in Hs; unfold rd_exited; destruct (rd s); auto; discriminate|].
  split; [|split].
  - destruct (q_writer nw s I Q (or_intror Hc)) as [[Hc' _] | [_ Hw]]; [congruence | assumption].
  - intros w p Hn. assert (Hl := nth_error_lt _ _ _ Hn). destruct p; auto; exfalso.
    + pose proof (q_wk s w r_wk_exit Q Hl ltac:(simpl; tauto)) as H1. unfold r_wk_exit in H1.
      rewrite Hn, Hc in H1. discriminate.
    + destruct (i_wk_run nw s I w h Hn) as [k [K1 [K2 K3]]]. apply K3. eapply returned_unary_dead; eauto.
    + pose proof (q_wk s w r_wk_hand_ctx Q Hl ltac:(simpl; tauto)) as H1. unfold r_wk_hand_ctx in H1.
      rewrite Hn, Hc in H1. discriminate.
  - intros h k Hn. destruct (h_unary k) eqn:U.
    + eapply returned_unary_dead; eauto.
    + eapply srv_streams_done; eauto.
Qed.

(* ---------- C14 (server half) ---------- *)
Theorem srv_registry_bound nw s : inv nw s -> registry_size s = length (filter hs_alive (hs s)).
Proof.
  intros I. unfold registry_size. f_equal. apply filter_ext_in. intros k Hin.
  apply In_nth_error in Hin. destruct Hin as [h Hn]. eapply reg_alive; eauto.
Qed.

Theorem srv_registry_idle nw s :
  inv nw s -> quiescent s = true -> all_returned s -> wblock s = false \/ hctx_done s = true ->
  registry_size s = 0%nat.
Proof.
  intros I Q Hret Hb.
  assert (Hdead : forall h k, nth_error (hs s) h = Some k -> h_reg k = false).
  { destruct (hctx_done s) eqn:Hc.
    - pose proof (srv_serve_returns nw s I Q (all_returned_honours s Hret) Hc) as Hs.
      unfold serve_returned in Hs. destruct (rd s) eqn:Erd; try discriminate.
      pose proof (i_rd nw s I) as Hrd. rewrite Erd in Hrd. simpl in Hrd. apply any_reg_false. assumption.
    - destruct Hb as [Hb | ?]; [|discriminate].
      destruct (q_rd_serving nw s I Q Hret Hb Hc) as [Hw Hrd].
      assert (Hmu : mu_free s = true) by (unfold mu_free; destruct Hrd as [-> | [f ->]]; reflexivity).
      intros h k Hn. rewrite (reg_alive nw s h k I Hn). unfold hs_alive, h_alive.
      rewrite (q_handler_dead nw s h k I Q Hn (Hret h k Hn) Hmu (or_introl Hw)). apply andb_false_r. }
  unfold registry_size. destruct (filter h_reg (hs s)) as [|k l] eqn:Ef; [reflexivity|]. exfalso.
  assert (Hin : In k (filter h_reg (hs s))) by (rewrite Ef; left; reflexivity).
  apply filter_In in Hin. destruct Hin as [Hin Hr]. apply In_nth_error in Hin. destruct Hin as [h Hn].
  rewrite (Hdead h k Hn) in Hr. discriminate.
Qed.

(* ---------- label sequences of the deterministic scheduler (for the Examples of Props/*.v) ---------- *)
Fixpoint first_enabled_idx (rs : list rule) (s : state) (n : nat) : option (nat * state) :=
  match rs with
  | [] => None
  | r :: rest => match r s with Some s' => Some (n, s') | None => first_enabled_idx rest s (S n) end
  end.

Fixpoint settle_labels (fuel : nat) (s : state) : list label :=
  match fuel with
  | O => []
  | S f => match first_enabled_idx (rules s) s 0 with
           | Some (n, s') => LInt n :: settle_labels f s'
           | None => []
           end
  end.

Fixpoint labels_from (s : state) (acts : list act) : list label :=
  match acts with
  | [] => []
  | a :: rest => let s1 := ext s a in
                 LExt a :: settle_labels (fuel_of s1) s1 ++ labels_from (settle (fuel_of s1) s1) rest
  end.

Definition labels_of (acts : list act) : list label := labels_from init acts.

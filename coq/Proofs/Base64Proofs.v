From Goat Require Import Base.Bytes Model.Base64.
From Coq Require Import ZifyBool ZifyN ZifyNat.
Open Scope N_scope.
Ltac Zify.zify_post_hook ::= Z.div_mod_to_equations.

Lemma unalpha_alpha i : i < 64 -> unalpha (alpha i) = Some i.
Proof.
  intro H. unfold alpha, unalpha.
  destruct (i <? 26) eqn:E1.
  { replace ((65 <=? 65 + i) && (65 + i <=? 90)) with true by lia. f_equal. lia. }
  destruct (i <? 52) eqn:E2.
  { replace ((65 <=? 97 + (i - 26)) && (97 + (i - 26) <=? 90)) with false by lia.
    replace ((97 <=? 97 + (i - 26)) && (97 + (i - 26) <=? 122)) with true by lia. f_equal. lia. }
  destruct (i <? 62) eqn:E3.
  { replace ((65 <=? 48 + (i - 52)) && (48 + (i - 52) <=? 90)) with false by lia.
    replace ((97 <=? 48 + (i - 52)) && (48 + (i - 52) <=? 122)) with false by lia.
    replace ((48 <=? 48 + (i - 52)) && (48 + (i - 52) <=? 57)) with true by lia. f_equal. lia. }
  destruct (i =? 62) eqn:E4.
  { cbn. f_equal. lia. }
  cbn. f_equal. lia.
Qed.

Lemma alpha_not_special i : i < 64 -> is_crlf (alpha i) = false /\ (alpha i =? pad) = false.
Proof.
  intro H. unfold alpha, is_crlf, pad.
  destruct (i <? 26) eqn:E1; [split; lia|].
  destruct (i <? 52) eqn:E2; [split; lia|].
  destruct (i <? 62) eqn:E3; [split; lia|].
  destruct (i =? 62) eqn:E4; split; reflexivity.
Qed.

Lemma pad_not_alpha : unalpha pad = None.
Proof. reflexivity. Qed.

Lemma pad_not_crlf : is_crlf pad = false.
Proof. reflexivity. Qed.

(* the encoder never emits CR or LF, so the decoder's filter is the identity *)
Lemma enc_no_crlf bs :
  wf_bytes bs = true -> filter (fun c => negb (is_crlf c)) (enc bs) = enc bs.
Proof.
  revert bs. fix IH 1. intros [|b0 [|b1 [|b2 rest]]] H; [reflexivity| | |].
  - cbn [wf_bytes forallb] in H. cbn [enc filter].
    rewrite !pad_not_crlf.
    destruct (alpha_not_special (b0 / 4)) as [-> _]; [lia|].
    destruct (alpha_not_special ((b0 mod 4) * 16)) as [-> _]; [lia|]. reflexivity.
  - cbn [wf_bytes forallb] in H. cbn [enc filter].
    rewrite !pad_not_crlf.
    destruct (alpha_not_special (b0 / 4)) as [-> _]; [lia|].
    destruct (alpha_not_special ((b0 mod 4) * 16 + b1 / 16)) as [-> _]; [lia|].
    destruct (alpha_not_special ((b1 mod 16) * 4)) as [-> _]; [lia|]. reflexivity.
  - cbn [wf_bytes forallb] in H. cbn [enc filter].
    destruct (alpha_not_special (b0 / 4)) as [-> _]; [lia|].
    destruct (alpha_not_special ((b0 mod 4) * 16 + b1 / 16)) as [-> _]; [lia|].
    destruct (alpha_not_special ((b1 mod 16) * 4 + b2 / 64)) as [-> _]; [lia|].
    destruct (alpha_not_special (b2 mod 64)) as [-> _]; [lia|].
    cbn [negb]. rewrite IH; [reflexivity|].
    unfold wf_bytes. repeat (apply andb_true_iff in H as [? H]). exact H.
Qed.

Lemma enc_length bs : (length (enc bs) <= 4 * length bs + 4)%nat.
Proof.
  revert bs. fix IH 1. intros [|b0 [|b1 [|b2 rest]]]; cbn [enc length]; try lia.
  specialize (IH rest). lia.
Qed.

Lemma dec_quanta_enc fuel bs :
  wf_bytes bs = true -> (length (enc bs) < 4 * fuel + 4)%nat ->
  dec_quanta fuel (enc bs) = Some bs.
Proof.
  revert bs. induction fuel as [|f IHf]; intros bs Hwf Hlen.
  - destruct bs as [|b0 [|b1 [|b2 rest]]]; cbn [enc length] in Hlen; try lia. reflexivity.
  - destruct bs as [|b0 [|b1 [|b2 rest]]]; [reflexivity| | |].
    + cbn [wf_bytes forallb] in Hwf. cbn [enc dec_quanta].
      rewrite !unalpha_alpha by lia. rewrite !N.eqb_refl. cbn [andb].
      f_equal. f_equal. lia.
    + cbn [wf_bytes forallb] in Hwf. cbn [enc dec_quanta].
      rewrite !unalpha_alpha by lia.
      destruct (alpha_not_special ((b1 mod 16) * 4)) as [_ ->]; [lia|].
      rewrite N.eqb_refl. cbn [andb].
      f_equal. f_equal; [lia|]. f_equal. lia.
    + assert (Hw : (b0 <? 256) = true /\ (b1 <? 256) = true /\ (b2 <? 256) = true /\ wf_bytes rest = true).
      { cbn [wf_bytes forallb] in Hwf. unfold wf_bytes.
        repeat (apply andb_true_iff in Hwf as [? Hwf]). auto. }
      destruct Hw as (H0 & H1 & H2 & Hr).
      cbn [enc]. cbn [enc length] in Hlen.
      remember (enc rest) as er eqn:Her.
      assert (Hrec : dec_quanta f er = Some rest) by (subst er; apply IHf; [exact Hr|lia]).
      cbn [dec_quanta].
      rewrite !unalpha_alpha by lia.
      rewrite Hrec.
      destruct er as [|e1 er'].
      * (* rest must be empty: the 4-element pattern applies *)
        destruct rest as [|r0 [|r1 [|r2 rr]]]; cbn [enc] in Her; try discriminate.
        destruct (alpha_not_special ((b1 mod 16) * 4 + b2 / 64)) as [_ ->]; [lia|].
        destruct (alpha_not_special (b2 mod 64)) as [_ ->]; [lia|].
        cbn [andb]. f_equal. f_equal; [lia|]. f_equal; [lia|]. f_equal. lia.
      * f_equal. f_equal; [lia|]. f_equal; [lia|]. f_equal. lia.
Qed.

Theorem dec_enc bs : wf_bytes bs = true -> dec (enc bs) = Some bs.
Proof.
  intro H. unfold dec. rewrite enc_no_crlf by exact H.
  apply dec_quanta_enc; [exact H|]. lia.
Qed.

(* C12_probe on Model/Server.v: the response of every unary handler that returned is written (Q-form). *)
From Coq Require Import List ZArith Bool Lia Arith.
Import ListNotations.
From Goat Require Import Model.Client Model.Server Proofs.ServerProofs Proofs.ServerInv Proofs.ServerTrace Proofs.ServerLive
  Proofs.ServerOrigin Proofs.ServerWriter.
Open Scope Z_scope.

(* ---------- C12_probe: the reply of every unary handler that returned gets written ---------- *)
Definition is_unary_mth (f : frame) : Prop := exists m, f_mth f = MUnary m.
Definition is_stream_mth (f : frame) : Prop := exists m, f_mth f = MStream m.

Record pinv (s : state) : Prop := mkPinv {
  p_run : forall h k, nth_error (hs s) h = Some k -> h_unary k = true -> h_pc k <> HDead ->
            exists w, nth_error (wk s) w = Some (WkRun h);
  p_reply : forall h f, In (SvReply h f) (log s) ->
            (exists w, nth_error (wk s) w = Some (WkHand f)) \/ In (SvTaken f) (log s) \/ In (SvLost f) (log s);
  p_lost : forall f, In (SvLost f) (log s) -> hctx_done s = true \/ is_stream_mth f;
  p_rmth : forall h f, In (SvReply h f) (log s) -> is_unary_mth f }.

Lemma req_unary_mth f : dispatch f = DUnary -> is_unary_mth f.
Proof.
  unfold dispatch. destruct (ehdr (f_env f)); [|discriminate]. destruct (f_mth f) eqn:E; try discriminate;
    destruct (f_dst f =? srv_name); try discriminate. intros _. eexists; exact E.
Qed.
Lemma req_stream_mth f : dispatch f = DStream -> is_stream_mth f.
Proof.
  unfold dispatch. destruct (ehdr (f_env f)); [|discriminate]. destruct (f_mth f) eqn:E; try discriminate;
    destruct (f_dst f =? srv_name); try discriminate. intros _. eexists; exact E.
Qed.

Lemma pinv_init nw : pinv (init_n nw).
Proof. constructor; simpl; try (intros; contradiction). intros h k H. destruct h; discriminate. Qed.

(* the facts about the pre-state that the steps use *)
Definition ctx (nw : nat) (s : state) : Prop := inv nw s /\ inv_hdr s /\ inv_dispatch s /\ orig s.

Lemma hctx_mono_in s s' : (srv_stop s = true -> srv_stop s' = true) -> (conn_cancel s = true -> conn_cancel s' = true) ->
  hctx_done s = true -> hctx_done s' = true.
Proof. unfold hctx_done. intros A B H. apply orb_true_iff in H. apply orb_true_iff. destruct H; auto. Qed.

Lemma finish_unary_keep l h f w p :
  nth_error l w = Some p -> (forall g, p = WkRun g -> g <> h) -> nth_error (finish_unary l h f) w = Some p.
Proof.
  intros H Hne. unfold finish_unary. rewrite nth_error_map, H. simpl. destruct p; try reflexivity.
  destruct (Nat.eqb_spec h0 h); [exfalso; eapply Hne; eauto | reflexivity].
Qed.
Lemma finish_unary_hit l h f w : nth_error l w = Some (WkRun h) -> nth_error (finish_unary l h f) w = Some (WkHand f).
Proof. intros H. unfold finish_unary. rewrite nth_error_map, H. simpl. now rewrite Nat.eqb_refl. Qed.

(* what one handler operation adds to the history *)
Lemma hstep_events s h k o :
  (forall g f, In (SvReply g f) (log (hstep s h k o)) ->
     In (SvReply g f) (log s) \/ (g = h /\ h_unary k = true /\ wk (hstep s h k o) = finish_unary (wk s) h f
                                 /\ f_mth f = f_mth (h_req k)))
  /\ (forall f, In (SvLost f) (log (hstep s h k o)) -> In (SvLost f) (log s))
  /\ (forall f, In (SvTaken f) (log s) -> In (SvTaken f) (log (hstep s h k o))).
Proof.
  unfold hstep. destruct (h_unary k) eqn:U, o; try destruct (h_hsent k); sproj; repeat split; intros;
    try (apply in_or_app; left; assumption);
    try (match goal with Hin : In _ (_ ++ _) |- _ => in_log Hin; auto end); auto.
  all: try (match goal with Hin : SvReply _ _ = SvReply _ _ |- _ => inversion Hin; subst; right; repeat split; reflexivity end).
Qed.

Lemma pinv_env s s' : pinv s -> hs s' = hs s -> wk s' = wk s -> log s' = log s ->
  (hctx_done s = true -> hctx_done s' = true) -> pinv s'.
Proof.
  intros [P1 P2 P3 P4] E1 E2 E3 Hc. constructor; rewrite ?E1, ?E2, ?E3; auto.
  intros f Hin. destruct (P3 f Hin) as [H | H]; auto.
Qed.

Lemma pinv_ext nw s a : ctx nw s -> pinv s -> pinv (ext s a).
Proof.
  intros [Iv [Ih [Id Io]]] P. destruct a; simpl.
  all: try (apply (pinv_env s _ P); try reflexivity; unfold hctx_done; simpl; intros Hc; auto;
            apply orb_true_iff in Hc; apply orb_true_iff; destruct Hc; auto; fail).
  destruct (nth_error (hs s) h) as [k|] eqn:Hn; [|exact P]. destruct (h_pc k) eqn:Hg; try exact P.
  destruct P as [P1 P2 P3 P4].
  destruct (hstep_shape s h k o Hn Hg) as [k' [Hhs [Hu [Hr [Hc [Hd [Hq [Hqq [Hpu Hps]]]]]]]]].
  destruct (hstep_other s h k o) as [E1 [E2 [E3 [E4 [E5 [E6 [E7 [E8 [E9 [E10 E11]]]]]]]]]].
  destruct (hstep_events s h k o) as [Hrep [Hlost Htk]].
  assert (Hl := nth_error_lt _ _ _ Hn).
  assert (Hnk' : nth_error (hs (hstep s h k o)) h = Some k') by (rewrite Hhs; now apply nth_upd_same).
  constructor.
  - intros g kg Hg' Ug Ag. rewrite Hhs in Hg'. apply nth_upd_cases in Hg'. destruct Hg' as [[-> [-> _]] | [Hne Hg']].
    + destruct (hstep_wk s h k o Hn Hg) as [[W1 W2] | [W1 [W2 W3]]].
      * rewrite W1. apply (P1 h k Hn); [congruence | rewrite Hg; discriminate].
      * exfalso. apply Ag. now apply W3.
    + destruct (P1 g kg Hg' Ug Ag) as [w Hw].
      destruct (hstep_wk s h k o Hn Hg) as [[W1 _] | [_ [[f W2] _]]].
      * rewrite W1. eauto.
      * rewrite W2. exists w. apply finish_unary_keep; [assumption|]. intros g' E. inversion E; subst. assumption.
  - intros g f Hin. destruct (Hrep g f Hin) as [Hold | [-> [U [Ew Em]]]].
    + destruct (P2 g f Hold) as [[w Hw] | [Ht | Hl']].
      * left. destruct (hstep_wk s h k o Hn Hg) as [[W1 _] | [_ [[f' W2] _]]].
        -- rewrite W1. eauto.
        -- rewrite W2. exists w. apply finish_unary_keep; [assumption | intros; discriminate].
      * right. left. now apply Htk.
      * right. right. destruct (hstep_log s h k o) as [evs [E _]]. rewrite E. apply in_or_app. now left.
    + left. destruct (P1 h k Hn U ltac:(rewrite Hg; discriminate)) as [w Hw]. exists w. rewrite Ew. now apply finish_unary_hit.
  - intros f Hin. destruct (P3 f (Hlost f Hin)) as [Hc' | Hs]; [left | right; exact Hs].
    unfold hctx_done in *. now rewrite E7, E9.
  - intros g f Hin. destruct (Hrep g f Hin) as [Hold | [-> [U [Ew Em]]]]; [eauto|].
    destruct Id as [_ Hreq]. assert (Hs : In (true, h_req k) (sigs s)).
    { unfold sigs. apply in_map_iff. exists k. split; [unfold hsig; now rewrite U | eapply nth_error_In; eauto]. }
    specialize (Hreq _ Hs). simpl in Hreq. destruct Hreq as [Hd' _]. destruct (req_unary_mth _ Hd') as [m Hm].
    exists m. congruence.
Qed.

Ltac wk_cases :=
  repeat match goal with
         | H : nth_error (upd _ _ _) _ = Some _ |- _ => apply nth_upd_cases in H; destruct H as [[? [? _]] | [? H]]; subst
         | H : nth_error (_ ++ [_]) _ = Some _ |- _ => apply nth_app_new in H; destruct H as [H | [? ?]]; subst
         end.

Ltac hctx_up := unfold hctx_done in *; sproj;
  repeat match goal with H : _ || _ = true |- _ => apply orb_true_iff in H; destruct H end;
  try (apply orb_true_iff; auto); try (rewrite orb_true_r; auto); auto.

Lemma pinv_step s s' evs :
  pinv s -> log s' = log s ++ evs ->
  (forall g k', nth_error (hs s') g = Some k' -> h_unary k' = true -> h_pc k' <> HDead ->
     exists k, nth_error (hs s) g = Some k /\ h_unary k = true /\ h_pc k <> HDead) ->
  (forall w h, nth_error (wk s) w = Some (WkRun h) -> nth_error (wk s') w = Some (WkRun h)) ->
  (forall w f, nth_error (wk s) w = Some (WkHand f) ->
     nth_error (wk s') w = Some (WkHand f) \/ In (SvTaken f) evs \/ In (SvLost f) evs) ->
  (forall g f, ~ In (SvReply g f) evs) ->
  (forall f, In (SvLost f) evs -> hctx_done s' = true \/ is_stream_mth f) ->
  (hctx_done s = true -> hctx_done s' = true) -> pinv s'.
Proof.
  intros [P1 P2 P3 P4] El Hh Hr Hw Hnr Hl Hc. constructor.
  - intros g k' Hg U A. destruct (Hh g k' Hg U A) as [k [Hk [Uk Ak]]]. destruct (P1 g k Hk Uk Ak) as [w Hw']. eauto.
  - intros g f Hin. rewrite El in Hin. apply in_app_or in Hin. destruct Hin as [Hin | Hin]; [|exfalso; eapply Hnr; eauto].
    rewrite El. destruct (P2 g f Hin) as [[w Hw'] | [Ht | Hlo]].
    + destruct (Hw w f Hw') as [H1 | [H1 | H1]]; [left; eauto | right; left | right; right]; apply in_or_app; auto.
    + right; left. apply in_or_app; auto.
    + right; right. apply in_or_app; auto.
  - intros f Hin. rewrite El in Hin. apply in_app_or in Hin. destruct Hin as [Hin | Hin]; [|auto].
    destruct (P3 f Hin) as [H | H]; auto.
  - intros g f Hin. rewrite El in Hin. apply in_app_or in Hin. destruct Hin as [Hin | Hin]; [eauto | exfalso; eapply Hnr; eauto].
Qed.

Ltac ev_no := let Hin := fresh "Hin" in intros ? ? Hin; simpl in Hin; repeat destruct Hin as [Hin | Hin]; try discriminate; try contradiction.
Ltac h_prem := let Hg := fresh "Hg" in let U := fresh "U" in let A := fresh "A" in
               intros ? ? Hg U A; sproj; wk_cases; simpl in *; eauto; try congruence;
               try (eexists; split; [eassumption|]; split; [assumption|]; congruence).
Ltac w_run := let Hw0 := fresh "Hw0" in intros ? ? Hw0; sproj; auto;
              try (rewrite nth_upd_other; [assumption|]; intro; subst; congruence).
Ltac w_hand := let Hw0 := fresh "Hw0" in intros ?w0 ?f0 Hw0; sproj; auto;
               try (match goal with Hw : nth_error (wk _) ?x = Some (WkHand ?y) |- nth_error (upd ?w _ _) ?x = _ \/ _ =>
                      destruct (Nat.eq_dec w x) as [?|?];
                      [ subst; right; simpl; (match goal with E1 : nth_error (wk _) ?z = Some ?p |- _ => rewrite E1 in Hw; inversion Hw; subst; auto end)
                      | left; rewrite nth_upd_other by assumption; assumption ] end).

Lemma pinv_int_simple nw s i s' :
  match i with RRdRead | RRdOffer | RHUnreg _ | RHSendCtx _ => False | _ => True end ->
  ctx nw s -> pinv s -> rule_of i s = Some s' -> pinv s'.
Proof.
  intros Hi [Iv [Ih [Id Io]]] P H. destruct i; try contradiction; simpl in H; start_rule H.
  all: try (apply (pinv_step s _ [] P); [sproj; now rewrite app_nil_r | h_prem | w_run | w_hand | intros ? ? [] | intros ? [] | intros; hctx_up]; fail).
  all: try (eapply (pinv_step s _ _ P); [sproj; reflexivity | h_prem | w_run | w_hand | ev_no | let Hin := fresh "Hin" in intros ? Hin; simpl in Hin; repeat destruct Hin as [Hin | Hin]; try discriminate; try contradiction; inversion Hin; subst; left; hctx_up | intros; hctx_up]; fail).
  - (* r_wk_hand *)
    eapply (pinv_step s _ _ P); [sproj; reflexivity | h_prem | | | ev_no | intros ? Hin; simpl in Hin; destruct Hin as [Hin | []]; discriminate | intros; hctx_up].
    + intros w0 h0 Hw0. sproj. destruct (Nat.eq_dec w w0); [subst; congruence | now rewrite nth_upd_other].
    + intros w0 f0 Hw0. sproj. destruct (Nat.eq_dec w w0) as [<- | Hne].
      * right. left. left. congruence.
      * left. now rewrite nth_upd_other.
  - (* r_wk_hand_ctx *)
    eapply (pinv_step s _ _ P); [sproj; reflexivity | h_prem | | | ev_no | | intros; hctx_up].
    + intros w0 h0 Hw0. sproj. destruct (Nat.eq_dec w w0); [subst; congruence | now rewrite nth_upd_other].
    + intros w0 f0 Hw0. sproj. destruct (Nat.eq_dec w w0) as [<- | Hne].
      * right. right. left. congruence.
      * left. now rewrite nth_upd_other.
    + intros f0 Hin. left. hctx_up.
  - (* r_wk_exit *)
    apply (pinv_step s _ [] P); [sproj; now rewrite app_nil_r | h_prem | | | intros ? ? [] | intros ? [] | intros; hctx_up].
    + intros w0 h0 Hw0. sproj. destruct (Nat.eq_dec w w0); [subst; congruence | now rewrite nth_upd_other].
    + intros w0 f0 Hw0. sproj. destruct (Nat.eq_dec w w0); [subst; congruence | left; now rewrite nth_upd_other].
Qed.

Lemma pinv_send_ctx nw s h s' : ctx nw s -> pinv s -> r_h_send_ctx h s = Some s' -> pinv s'.
Proof.
  intros [Iv [Ih [Id Io]]] P H. unfold r_h_send_ctx in H.
  destruct (nth_error (hs s) h) as [k|] eqn:Hn; [|discriminate]. destruct (h_pc k) eqn:Hp; try discriminate.
  assert (Hs : is_stream_mth f).
  { destruct (i_h nw s Iv h k Hn) as [K1 _]. assert (U : h_unary k = false).
    { destruct (h_unary k); [|reflexivity]. destruct (K1 eq_refl) as [_ [E | [E | E]]]; congruence. }
    destruct (o_send s Io h k f k0 Hn Hp) as [_ [_ [_ Em]]].
    destruct Id as [_ Hreq]. assert (Hin : In (false, h_req k) (sigs s)).
    { unfold sigs. apply in_map_iff. exists k. split; [unfold hsig; now rewrite U | eapply nth_error_In; eauto]. }
    specialize (Hreq _ Hin). simpl in Hreq. destruct Hreq as [Hd _]. destruct (req_stream_mth _ Hd) as [m Hm]. exists m. congruence. }
  destruct k0; destruct (hdone s k); try discriminate; inv_some H.
  all: eapply (pinv_step s _ _ P); [sproj; reflexivity | h_prem | w_run | w_hand | ev_no | | intros; hctx_up].
  all: intros f0 Hin; simpl in Hin; repeat destruct Hin as [Hin | Hin]; try discriminate; try contradiction.
  inversion Hin; subst. right. exact Hs.
Qed.

Lemma pinv_unreg nw s h s' : ctx nw s -> pinv s -> r_h_unreg h s = Some s' -> pinv s'.
Proof.
  intros [Iv [Ih [Id Io]]] P H. unfold r_h_unreg in H.
  destruct (nth_error (hs s) h) as [k|] eqn:Hn; [|discriminate].
  destruct (h_pc k) eqn:Hp; try discriminate. destruct (mu_free s) eqn:Hmu; [|discriminate].
  destruct (unreg_self nw s h k Iv Hn Hp) as [Ef [U R]].
  unfold set_h at 1 2 3 in H. cbn [hs set_hs] in H. rewrite Ef in H.
  rewrite nth_upd_same in H by (eapply nth_error_lt; eauto). inv_some H.
  eapply (pinv_step s _ _ P); [sproj; reflexivity | | w_run | w_hand | ev_no | | intros; hctx_up].
  - intros g k' Hg U' A. sproj. rewrite upd_upd in Hg. apply nth_upd_cases in Hg. destruct Hg as [[-> [-> _]] | [_ Hg]]; [|eauto].
    simpl in U'. congruence.
  - intros f0 Hin. simpl in Hin. destruct Hin as [Hin | []]. discriminate.
Qed.

Lemma stream_dispatch_wk s f : wk (stream_dispatch s f) = wk s.
Proof.
  unfold stream_dispatch. destruct (find_reg (fid f) (hs s) 0).
  - destruct (is_rst f); [destruct (nth_error (hs s) n)|]; reflexivity.
  - destruct (is_rst f); auto. destruct (has_body f); auto. destruct (has_trl f); auto. destruct (md_bad f); auto.
Qed.

Lemma pinv_read nw s s' : ctx nw s -> pinv s -> r_rd_read s = Some s' -> pinv s'.
Proof.
  intros [Iv [Ih [Id Io]]] P H. unfold r_rd_read in H. destruct (rd s) eqn:Erd; try discriminate.
  destruct (inbox s) as [|f rest].
  - destr_in H; inv_some H; apply (pinv_step s _ [] P);
      [sproj; now rewrite app_nil_r | h_prem | w_run | w_hand | intros ? ? [] | intros ? [] | intros; hctx_up
      |sproj; now rewrite app_nil_r | h_prem | w_run | w_hand | intros ? ? [] | intros ? [] | intros; hctx_up].
  - destruct (dispatch f) eqn:Ed; inv_some H.
    + eapply (pinv_step s _ _ P); [sproj; reflexivity | h_prem | w_run | w_hand | ev_no | intros ? Hin; simpl in Hin; destruct Hin as [Hin | []]; discriminate | intros; hctx_up].
    + eapply (pinv_step s _ _ P); [sproj; reflexivity | h_prem | w_run | w_hand | ev_no | intros ? Hin; simpl in Hin; destruct Hin as [Hin | []]; discriminate | intros; hctx_up].
    + destruct (stream_dispatch_log (add_log (set_inbox s rest) [SvRead f]) f) as [Ec [Es [evs [El Hev]]]].
      apply (pinv_step s _ ([SvRead f] ++ evs) P).
      * rewrite El. sproj. now rewrite app_assoc.
      * intros g k' Hg U A. revert Hg. unfold stream_dispatch. sproj.
        destruct (find_reg (fid f) (hs s) 0) as [h|].
        -- destruct (is_rst f); [destruct (nth_error (hs s) h) as [kh|] eqn:Eh|]; sproj; intros Hg; eauto.
           apply nth_upd_cases in Hg. destruct Hg as [[-> [-> _]] | [_ Hg]]; eauto.
        -- destruct (is_rst f); [eauto|]. destruct (has_body f); [sproj; eauto|]. destruct (has_trl f); [eauto|].
           destruct (md_bad f); sproj; intros Hg; eauto.
           apply nth_app_new in Hg. destruct Hg as [Hg | [_ ->]]; [eauto | discriminate].
      * intros w h Hw. rewrite stream_dispatch_wk. exact Hw.
      * intros w f0 Hw. left. rewrite stream_dispatch_wk. exact Hw.
      * intros g f0 Hin. apply in_app_or in Hin. destruct Hin as [[Hin | []] | Hin]; [discriminate|].
        destruct (Hev _ Hin) as [? [? [? [? [? [? ?]]]]]]. discriminate.
      * intros f0 Hin. apply in_app_or in Hin. destruct Hin as [[Hin | []] | Hin]; [discriminate|].
        destruct (Hev _ Hin) as [? [? [? [? [? [? ?]]]]]]. discriminate.
      * unfold hctx_done. rewrite Ec, Es. sproj. auto.
Qed.

Lemma pinv_offer nw s s' : ctx nw s -> pinv s -> r_rd_offer s = Some s' -> pinv s'.
Proof.
  intros [Iv [Ih [Id Io]]] P H. unfold r_rd_offer in H. destruct (rd s) eqn:Erd; try discriminate.
  destruct (find_idle (wk s) 0) as [w|] eqn:Ew; [|discriminate]. inv_some H.
  destruct (find_idle_spec _ _ _ Ew) as [_ Hw]. rewrite Nat.sub_0_r in Hw.
  assert (Hl := nth_error_lt _ _ _ Hw).
  assert (Hrun : forall w0 h0, nth_error (wk s) w0 = Some (WkRun h0) -> forall p, nth_error (upd w p (wk s)) w0 = Some (WkRun h0)).
  { intros w0 h0 H0 p. destruct (Nat.eq_dec w w0); [subst; congruence | now rewrite nth_upd_other]. }
  assert (Hhand : forall w0 f0, nth_error (wk s) w0 = Some (WkHand f0) -> forall p, nth_error (upd w p (wk s)) w0 = Some (WkHand f0)).
  { intros w0 f0 H0 p. destruct (Nat.eq_dec w w0); [subst; congruence | now rewrite nth_upd_other]. }
  unfold start_unary.
  destruct (negb (has_hdr f)).
  { eapply (pinv_step s _ _ P); [sproj; reflexivity | h_prem | w_run | w_hand | ev_no | intros ? Hin; simpl in Hin; destruct Hin as [Hin | []]; discriminate | intros; hctx_up]. }
  destruct (md_bad f).
  { eapply (pinv_step s _ _ P); [sproj; reflexivity | h_prem | | | ev_no | intros ? Hin; simpl in Hin; destruct Hin as [Hin | []]; discriminate | intros; hctx_up].
    - intros w0 h0 H0. sproj. now apply Hrun.
    - intros w0 f0 H0. left. sproj. now apply Hhand. }
  destruct (body_tok f <? 0).
  { eapply (pinv_step s _ _ P); [sproj; reflexivity | h_prem | | | ev_no | intros ? Hin; simpl in Hin; destruct Hin as [Hin | []]; discriminate | intros; hctx_up].
    - intros w0 h0 H0. sproj. now apply Hrun.
    - intros w0 f0 H0. left. sproj. now apply Hhand. }
  destruct P as [P1 P2 P3 P4]. constructor; sproj.
  - intros g k' Hg U A. apply nth_app_new in Hg. destruct Hg as [Hg | [-> ->]].
    + destruct (P1 g k' Hg U A) as [w0 H0]. exists w0. now apply Hrun.
    + exists w. now apply nth_upd_same.
  - intros g f0 Hin. in_log Hin. destruct (P2 g f0 Hin) as [[w0 H0] | [Ht | Hlo]].
    + left. exists w0. now apply Hhand.
    + right. left. repeat (apply in_or_app; left). exact Ht.
    + right. right. repeat (apply in_or_app; left). exact Hlo.
  - intros f0 Hin. in_log Hin. destruct (P3 f0 Hin) as [Hc | Hs]; auto.
  - intros g f0 Hin. in_log Hin. eauto.
Qed.

Theorem pinv_int nw s i s' : ctx nw s -> pinv s -> rule_of i s = Some s' -> pinv s'.
Proof.
  intros C P H. destruct i; try (eapply pinv_int_simple; [ | exact C | exact P | exact H]; exact Logic.I); simpl in H.
  - eapply pinv_read; eassumption.
  - eapply pinv_offer; eassumption.
  - eapply pinv_send_ctx; eassumption.
  - eapply pinv_unreg; eassumption.
Qed.

Theorem pinv_reach nw ls s : lrun (init_n nw) ls = Some s -> pinv s.
Proof.
  intros H. assert (G : ctx nw s /\ pinv s).
  { revert H. apply (lrun_inv (fun s => ctx nw s /\ pinv s)).
    - intros s0 a [[I1 [I2 [I3 I4]]] P]. split.
      + split; [now apply inv_ext|]. split; [now apply inv_hdr_ext|]. split; [|now apply orig_ext].
        eapply inv_dispatch_step; [eassumption | now apply step_ok_ext].
      + apply (pinv_ext nw); [exact (conj I1 (conj I2 (conj I3 I4))) | assumption].
    - intros s0 i s1 [[I1 [I2 [I3 I4]]] P] Hr. split.
      + split; [eapply inv_int; eassumption|]. split; [eapply inv_hdr_int; eassumption|]. split; [|eapply orig_int; eassumption].
        eapply inv_dispatch_step; [eassumption | eapply step_ok_int; eassumption].
      + apply (pinv_int nw s0 i s1); [exact (conj I1 (conj I2 (conj I3 I4))) | assumption | assumption].
    - split; [|apply pinv_init]. split; [apply inv_init|]. split; [apply inv_hdr_init|]. split; [|apply orig_init].
      split; [reflexivity | intros p []]. }
  apply G.
Qed.

(* C12_probe: in every reachable quiescent state in which every handler has returned, the transport does not block
   writes and the connection has not been ended, the response built from the return of every unary handler - it
   echoes the request's id, swaps source and destination and carries the handler's reply / status - has been
   accepted by the transport *)
Theorem srv_probe nw ls s : (1 <= nw)%nat -> lrun (init_n nw) ls = Some s ->
  quiescent s = true -> all_returned s -> wblock s = false -> hctx_done s = false ->
  forall h f, In (SvReply h f) (log s) -> In (SvWrite f) (log s).
Proof.
  intros Hnw H Q Hret Hb Hc h f Hin.
  pose proof (inv_reach nw ls s H) as Iv. pose proof (pinv_reach nw ls s H) as P.
  destruct (srv_quiescent_idle nw s Hnw Iv Q Hret Hb Hc) as [_ [_ [Hwr [Hwk _]]]].
  destruct (p_reply s P h f Hin) as [[w Hw] | [Ht | Hl]].
  - specialize (Hwk w _ Hw). discriminate.
  - apply in_taken in Ht. rewrite (srv_taken_written nw ls s H) in Ht. unfold inflight in Ht. rewrite Hwr, app_nil_r in Ht.
    apply in_map_iff in Ht. destruct Ht as [[b g] [E Ho]]. simpl in E. subst g.
    unfold outcomes in Ho. apply in_flat_map in Ho. destruct Ho as [e [He Hx]].
    destruct e; try contradiction; destruct Hx as [Hx | []]; inversion Hx; subst.
    + exact He.
    + exfalso. pose proof (srv_wfail_cancels nw ls s H f He). congruence.
  - exfalso. destruct (p_lost s P f Hl) as [Hx | [m Hm]]; [congruence|].
    destruct (p_rmth s P h f Hin) as [m' Hm']. congruence.
Qed.


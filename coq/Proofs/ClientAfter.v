(* C09, calls started after the failure, as ONE trace theorem: in every run, a
   call whose ANew.. action comes after the read failure was recorded never
   registers, takes nothing, runs no stream operation, and its only return is
   the connection error - in every later state; in quiescent ones it has
   returned. *)
From Coq Require Import List ZArith Bool Lia Arith.
Import ListNotations.
From Goat Require Import Model.Client Proofs.ClientBase Proofs.ClientInv.
Local Open Scope nat_scope.

(* ---------- events only speak of calls that exist ---------- *)
Definition ev_bound (n : nat) (ev : cev) : Prop :=
  match ev with
  | EvUnaryRet c _ | EvOpenRet c _ | EvRecvRet c _ | EvSendRet c _ | EvCloseSendRet c _ | EvHeaderRet c _
  | EvTrailerRet c _ | EvPanic c | EvTake c _ | EvDrop c _ | EvRead _ (Some c) => c < n
  | _ => True
  end.

Definition binv (s : state) : Prop := forall ev, In ev (log s) -> ev_bound (length (calls s)) ev.

Lemma ev_bound_mono n m ev : n <= m -> ev_bound n ev -> ev_bound m ev.
Proof. intros H. destruct ev; simpl; try lia; auto. destruct to; auto; lia. Qed.

Lemma binv_grow s s' evs :
  binv s -> length (calls s) <= length (calls s') -> log s' = log s ++ evs ->
  (forall ev, In ev evs -> ev_bound (length (calls s')) ev) -> binv s'.
Proof.
  intros HB Hl Hlog Hev ev Hin. rewrite Hlog in Hin. apply in_app_or in Hin. destruct Hin as [Hin|Hin]; auto.
  eapply ev_bound_mono; eauto.
Qed.

Ltac bound_evs :=
  simpl; intros ev Hin; repeat (destruct Hin as [<-|Hin]; [simpl|]); try (destruct Hin); try exact I;
  rewrite ?length_upd; eauto using nth_some_lt.

Ltac bgrow HB :=
  match goal with
  | |- binv ?s' =>
      eapply (binv_grow _ s' _ HB); csimpl;
      [ rewrite ?length_upd; auto
      | first [ reflexivity | symmetry; apply app_nil_r | rewrite <- app_assoc; reflexivity ]
      | bound_evs ]
  end.

Lemma binv_step s l s' : binv s -> lstep s l = Some s' -> binv s'.
Proof.
  intros HB H. apply lstep_kind in H. destruct H.
  - subst. destruct a; simpl; unfold with_call;
      repeat match goal with |- context [match ?x with _ => _ end] => destruct x eqn:? end;
      try exact HB; try (bgrow HB; fail);
      try (eapply (binv_grow s _ [] HB); csimpl; [rewrite ?app_length, ?length_upd; lia | rewrite app_nil_r; auto | simpl; tauto]).
  - unfold r_rl_unblock in H. open_rule H; bgrow HB.
  - unfold r_rl_read in H. open_rule H; try (bgrow HB; fail).
    eapply (binv_grow s _ [] HB); csimpl. unfold close_all. rewrite map_length. auto. rewrite app_nil_r; auto. simpl; tauto.
  - unfold r_check in H. open_rule H; bgrow HB.
  - unfold r_reg in H. open_rule H; bgrow HB.
  - unfold r_wait in H. open_rule H; bgrow HB.
  - unfold r_wait_ctx in H. open_rule H; bgrow HB.
  - unfold r_unreg in H. open_rule H; bgrow HB.
  - unfold r_loop_read in H. open_rule H; bgrow HB.
  - unfold r_loop_read_ctx in H. open_rule H; bgrow HB.
  - unfold r_loop_hand in H. open_rule H; bgrow HB.
  - unfold r_loop_hand_ctx in H. open_rule H; bgrow HB.
  - unfold r_loop_exit in H. open_rule H; bgrow HB.
  - unfold r_loop_unreg in H. open_rule H; bgrow HB.
  - unfold r_recv in H. open_rule H; bgrow HB.
  - unfold r_header in H. open_rule H; bgrow HB.
  - unfold r_trailer in H. open_rule H; bgrow HB.
  - unfold r_send in H. open_rule H; bgrow HB.
Qed.

Lemma binv_reach ls s : lrun init ls = Some s -> binv s.
Proof. intros H. eapply lrun_inv; eauto using binv_step. intros ev []. Qed.

(* ---------- the calls started after the failure ---------- *)
Definition pc_late (p : cpc) : bool := match p with PCheck _ | PRet | POpenFailed => true | _ => false end.

(* what the history may say about a call with index >= n0 *)
Definition late_ev (n0 : nat) (ev : cev) : Prop :=
  match ev with
  | EvUnaryRet c r => n0 <= c -> r = UErr EConn
  | EvOpenRet c r => n0 <= c -> r = Some EConn
  | EvRecvRet c _ | EvSendRet c _ | EvCloseSendRet c _ | EvHeaderRet c _ | EvTrailerRet c _ | EvPanic c
  | EvTake c _ | EvDrop c _ | EvRead _ (Some c) => c < n0
  | _ => True
  end.

Record jinv (n0 : nat) (s : state) : Prop := mkJ {
  j_rerr : rerr s = true;
  j_pc : forall c k, n0 <= c -> nth_error (calls s) c = Some k -> pc_late (k_pc k) = true;
  j_log : forall ev, In ev (log s) -> late_ev n0 ev }.

Lemma bound_late n0 ev : ev_bound n0 ev -> late_ev n0 ev.
Proof. destruct ev; simpl; auto; try lia. Qed.

Lemma jinv_start s : binv s -> rerr s = true -> jinv (length (calls s)) s.
Proof.
  intros HB Hr. constructor; auto.
  - intros c k Hc Hn. apply nth_some_lt in Hn. lia.
  - intros ev Hin. apply bound_late. auto.
Qed.

Lemma jinv_upd n0 s s' c k k' evs :
  jinv n0 s -> nth_error (calls s) c = Some k -> calls s' = upd c k' (calls s) -> log s' = log s ++ evs -> rerr s' = rerr s ->
  (n0 <= c -> pc_late (k_pc k') = true) -> (forall ev, In ev evs -> late_ev n0 ev) -> jinv n0 s'.
Proof.
  intros [J1 J2 J3] Hn Hc Hl Hr Hp Hev. constructor.
  - congruence.
  - intros c0 k0 Hc0 H0. rewrite Hc in H0. apply nth_upd_inv in H0. destruct H0 as [[-> ->]|[_ H0]]; eauto.
  - intros ev Hin. rewrite Hl in Hin. apply in_app_or in Hin. destruct Hin; auto.
Qed.

(* a late call is only ever at its fail-fast check or returned: no other rule of its own is enabled *)
Ltac late_contra K Hl k :=
  exfalso;
  first
    [ match goal with Ep : k_pc k = _ |- _ => rewrite Ep in Hl; discriminate Hl end
    | assert (Hp : k_pc k = POpen) by
        first [ apply (ki_loop_open _ K); unfold loop_alive; match goal with El : s_loop k = _ |- _ => rewrite El end; reflexivity
              | apply (ki_ops_open _ K); unfold ops_pending, recv_pending, header_pending, send_pending, trailer_pending;
                repeat match goal with Ex : ?f k = _ |- _ => rewrite Ex end; simpl; rewrite ?orb_true_r; reflexivity ];
      rewrite Hp in Hl; discriminate Hl ].

Ltac late_evs :=
  simpl; intros ev Hin; repeat (destruct Hin as [<-|Hin]; [simpl|]); try (destruct Hin); try exact I; try lia; auto.

Ltac jupd HI HJ n0 :=
  match goal with
  | E : nth_error (calls ?s) ?c = Some ?k |- jinv _ ?s' =>
      let K := fresh "K" in pose proof (cinv_call _ _ _ HI E) as K;
      destruct (le_lt_dec n0 c) as [Hge|Hlt];
      [ (* a late call *)
        let Hl := fresh "Hl" in pose proof (j_pc _ _ HJ _ _ Hge E) as Hl;
        first
          [ late_contra K Hl k
          | let cs := eval cbn [calls set_call add_log] in (calls s') in
            let k' := match cs with upd _ ?x _ => x end in
            eapply (jinv_upd n0 s s' c k k' _ HJ E); csimpl;
            [ reflexivity
            | first [ reflexivity | symmetry; apply app_nil_r | rewrite <- app_assoc; reflexivity ]
            | reflexivity
            | intros _; first [reflexivity | assumption]
            | late_evs ] ]
      | let cs := eval cbn [calls set_call add_log] in (calls s') in
        let k' := match cs with upd _ ?x _ => x end in
        eapply (jinv_upd n0 s s' c k k' _ HJ E); csimpl;
        [ reflexivity
        | first [ reflexivity | symmetry; apply app_nil_r | rewrite <- app_assoc; reflexivity ]
        | reflexivity
        | intros; lia
        | late_evs ] ]
  end.

Lemma jinv_with_call n0 s c f :
  jinv n0 s -> (forall k k', f k = Some k' -> k_pc k' = k_pc k) -> jinv n0 (with_call s c f).
Proof.
  intros HJ Hf. unfold with_call. destruct (nth_error (calls s) c) eqn:E; auto. destruct (f c0) eqn:Ef; auto.
  apply (jinv_upd n0 s (set_call s c c1) c c0 c1 [] HJ E); csimpl; auto.
  - rewrite app_nil_r; auto.
  - intros Hge. rewrite (Hf _ _ Ef). apply (j_pc _ _ HJ _ _ Hge E).
  - simpl; tauto.
Qed.

Ltac jwc k := apply jinv_with_call; auto; intros k k' H;
  repeat match type of H with
         | match ?x with _ => _ end = Some _ => destruct x eqn:?; try discriminate H
         end; inversion H; subst k'; clear H; csimpl; auto.

Lemma jinv_ext n0 s a : jinv n0 s -> jinv n0 (ext s a).
Proof.
  intros HJ. destruct a; simpl; try solve [jwc k]; try solve [destruct HJ; constructor; auto].
  - destruct HJ as [J1 J2 J3]. constructor; csimpl; auto.
    intros c k Hc Hn. apply nth_app_cases in Hn. destruct Hn as [[Hn _]|[_ ->]]; eauto.
  - destruct HJ as [J1 J2 J3]. constructor; csimpl; auto.
    intros c k Hc Hn. apply nth_app_cases in Hn. destruct Hn as [[Hn _]|[_ ->]]; eauto.
  - destruct (nth_error (calls s) c) eqn:E; auto. destruct (k_pc c0) eqn:Ep; auto.
    match goal with |- jinv _ ?s' => apply (jinv_upd n0 s s' c c0 (set_id (set_pc c0 PReg) (counter s + 1)) [] HJ E) end; csimpl; auto.
    + rewrite app_nil_r; auto.
    + intros Hge. pose proof (j_pc _ _ HJ _ _ Hge E) as Hl. rewrite Ep in Hl. discriminate.
    + simpl; tauto.
Qed.

Lemma jinv_step n0 s l s' : cinv s -> sinv s -> jinv n0 s -> lstep s l = Some s' -> jinv n0 s'.
Proof.
  intros HI HS HJ H. pose proof (j_rerr _ _ HJ) as Hre.
  assert (Hdead : rl s = RLDead) by (apply (si_rerr_dead _ HS); auto).
  apply lstep_kind in H. destruct H.
  - subst. apply jinv_ext; auto.
  - unfold r_rl_unblock in H. rewrite Hdead in H. discriminate.
  - unfold r_rl_read in H. rewrite Hdead in H. discriminate.
  - unfold r_check in H. open_rule H; try congruence; jupd HI HJ n0.
  - unfold r_reg in H. open_rule H; try congruence; jupd HI HJ n0.
  - unfold r_wait in H. open_rule H; jupd HI HJ n0.
  - unfold r_wait_ctx in H. open_rule H; jupd HI HJ n0.
  - unfold r_unreg in H. open_rule H; jupd HI HJ n0.
  - unfold r_loop_read in H. open_rule H; jupd HI HJ n0.
  - unfold r_loop_read_ctx in H. open_rule H; jupd HI HJ n0.
  - unfold r_loop_hand in H. open_rule H; jupd HI HJ n0.
  - unfold r_loop_hand_ctx in H. open_rule H; jupd HI HJ n0.
  - unfold r_loop_exit in H. open_rule H; jupd HI HJ n0.
  - unfold r_loop_unreg in H. open_rule H; jupd HI HJ n0.
  - unfold r_recv in H. open_rule H; jupd HI HJ n0.
  - unfold r_header in H. open_rule H; jupd HI HJ n0.
  - unfold r_trailer in H. open_rule H; jupd HI HJ n0.
  - unfold r_send in H. open_rule H; jupd HI HJ n0.
Qed.

(* ---------- the trace theorem ---------- *)
Lemma lrun_inv2 (P : state -> Prop) (Q : state -> Prop) :
  (forall s l s', P s -> Q s -> lstep s l = Some s' -> P s' /\ Q s') ->
  forall ls s s', P s -> Q s -> lrun s ls = Some s' -> P s' /\ Q s'.
Proof.
  intros Hstep. induction ls; simpl; intros s s' HP HQ H.
  - inversion H; subst; auto.
  - destruct (lstep s a) eqn:E; try discriminate. destruct (Hstep _ _ _ HP HQ E). eauto.
Qed.

Lemma C09_after_l ls1 s1 ls2 s2 :
  lrun init ls1 = Some s1 -> rerr s1 = true -> lrun s1 ls2 = Some s2 ->
  forall c, length (calls s1) <= c ->
    (forall r, In (EvUnaryRet c r) (log s2) -> r = UErr EConn) /\
    (forall r, In (EvOpenRet c r) (log s2) -> r = Some EConn) /\
    (forall r, ~ In (EvRecvRet c r) (log s2)) /\ (forall e, ~ In (EvTake c e) (log s2)) /\
    (forall k, nth_error (calls s2) c = Some k ->
       k_reg k = false /\ loop_alive k = false /\
       (quiescent s2 = true -> call_pending k = false /\ (k_pc k = PRet \/ k_pc k = POpenFailed))).
Proof.
  intros H1 Hr H2 c Hc.
  pose proof (binv_reach _ _ H1) as HB. pose proof (jinv_start _ HB Hr) as HJ0.
  destruct (inv_reach _ _ H1) as [HI1 HS1].
  assert (HH : (cinv s2 /\ sinv s2) /\ jinv (length (calls s1)) s2).
  { eapply (lrun_inv2 (fun s => cinv s /\ sinv s) (jinv (length (calls s1)))); eauto.
    intros s l s' [HI HS] HJ Hs. split; [split|]; eauto using cinv_step, sinv_step, jinv_step. }
  destruct HH as [[HI2 HS2] HJ]. split; [|split; [|split; [|split]]].
  - intros r Hin. apply (j_log _ _ HJ _ Hin); auto.
  - intros r Hin. apply (j_log _ _ HJ _ Hin); auto.
  - intros r Hin. pose proof (j_log _ _ HJ _ Hin) as Hl. simpl in Hl. lia.
  - intros e Hin. pose proof (j_log _ _ HJ _ Hin) as Hl. simpl in Hl. lia.
  - intros k Hn. pose proof (j_pc _ _ HJ _ _ Hc Hn) as Hl. pose proof (cinv_call _ _ _ HI2 Hn) as K.
    split; [|split].
    + destruct (k_reg k) eqn:E; auto. pose proof (ki_reg_pc _ K E). destruct (k_pc k); discriminate.
    + destruct (loop_alive k) eqn:E; auto. rewrite (ki_loop_open _ K E) in Hl. discriminate.
    + intros Hq. unfold call_pending. destruct (k_pc k) eqn:Ep; try discriminate; auto.
      exfalso. pose proof (quiescent_call s2 r_check c Hq (nth_some_lt _ _ _ Hn) ltac:(simpl; tauto)) as Hrule.
      unfold r_check in Hrule. rewrite Hn, Ep, (j_rerr _ _ HJ) in Hrule. destruct (k_unary k); discriminate.
Qed.

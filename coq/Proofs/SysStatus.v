(* C03 on interleavings: what the caller of a stream can observe at the end of a
   call, for ALL runs (any interleaving of caller operations, handler programs,
   transport behaviour: reset overtaking the trailer, cancellation with unread
   messages, read and write failures).

   Per component, with the wire as the interface (models of builders cl and sv,
   read-only here):
     client (Model/Client.v, every run): the error RecvMsg returns is io.EOF /
       a status / Unavailable only as the terminal classification [final_of] of an
       envelope THIS call took from its queue; Canceled / DeadlineExceeded only
       when the call's own context is done; the connection error only after the
       transport's read failed (theorem client_recv_error_kinds);
     server (Model/Server.v, every run): the trailer SendTrailer builds for a
       stream handler carries [sstatus e] for the error e the handler returned, OK
       exactly for nil (theorem server_trailer_status);
   and on the product Model/Sys.v (builder sy), for every run of the SYSTEM:
     the caller observes io.EOF only if the handler serving its stream returned
     nil (sys_eof_only_if_handler_nil = C02_caller_eof_sound in C03's terms).
   The classification function of the client model is the one of Model/Status.v
   (final_of_is_status_model), so the sequential round-trip theorems of Props/C03.v
   apply to the envelope the call takes. *)
From Coq Require Import List ZArith Bool Lia Arith.
Import ListNotations.
From Goat Require Import Model.Client Model.Server Model.Sys Model.Status.
From Goat Require Import Proofs.ClientBase Proofs.ClientInv Proofs.ClientLog Proofs.ClientProps Proofs.ClientNI.
From Goat Require Import Proofs.SysLog Proofs.SysProofs Proofs.SysC01 Proofs.SysC02c Proofs.SysC02d Proofs.StatusProofs.
Open Scope Z_scope.

(* ---------- the client's classification, inverted ---------- *)
Lemma final_of_eof e : final_of e = Some EEof ->
  erst e = false /\ etrl e <> None /\ (estatus e = None \/ exists st, estatus e = Some st /\ Client.st_code st = 0).
Proof.
  unfold final_of. destruct (erst e); [discriminate|]. destruct (etrl e); [|discriminate].
  destruct (estatus e) as [st|]; intro H.
  - destruct (Client.st_code st =? 0) eqn:E; [|discriminate]. apply Z.eqb_eq in E.
    split; [reflexivity|split; [discriminate|right; exists st; split; [reflexivity|exact E]]].
  - split; [reflexivity|split; [discriminate|left; reflexivity]].
Qed.

Lemma final_of_status e st : final_of e = Some (EStatus st) ->
  erst e = false /\ etrl e <> None /\ estatus e = Some st /\ Client.st_code st <> 0.
Proof.
  unfold final_of. destruct (erst e); [discriminate|]. destruct (etrl e); [|discriminate].
  destruct (estatus e) as [st'|]; [|discriminate]. destruct (Client.st_code st' =? 0) eqn:E; [discriminate|].
  intro H. injection H as ->. apply Z.eqb_neq in E. repeat split; [discriminate|exact E].
Qed.

Lemma final_of_reset e : final_of e = Some EReset -> erst e = true.
Proof.
  unfold final_of. destruct (erst e); [reflexivity|]. destruct (etrl e); [|discriminate].
  destruct (estatus e) as [st|]; [destruct (Client.st_code st =? 0)|]; discriminate.
Qed.

(* ---------- client, every run ---------- *)
Definition recv_error_ok (s : Client.state) (c : nat) (k : call) (x : cerr) : Prop :=
  match x with
  | EEof => exists e, In (EvTake c e) (Client.log s) /\ erst e = false /\ etrl e <> None /\
                      (estatus e = None \/ exists st, estatus e = Some st /\ Client.st_code st = 0)
  | EStatus st => exists e, In (EvTake c e) (Client.log s) /\ erst e = false /\ etrl e <> None /\
                            estatus e = Some st /\ Client.st_code st <> 0
  | EReset => exists e, In (EvTake c e) (Client.log s) /\ erst e = true
  | EBadMd => exists e, In (EvTake c e) (Client.log s) /\ bad_hdr e = true
  | ECanceled | EDeadline | ERawCanceled | ERawDeadline => sctx_done k = true
  | EConn => rerr s = true
  | EMalformed => False            (* a unary classification: never the result of RecvMsg *)
  | EClosed | EWrite | EUnmarshal => True
  end.

Theorem client_recv_error_kinds ls s :
  Client.lrun Client.init ls = Some s ->
  forall c k x, nth_error (calls s) c = Some k -> In (EvRecvRet c (RErr x)) (Client.log s) -> recv_error_ok s c k x.
Proof.
  intros H c k x Hn Hin.
  destruct (C05_noninterference_l _ _ H _ _ Hn) as (_ & _ & _ & HR & _).
  specialize (HR x Hin). unfold jerr in HR. unfold recv_error_ok.
  destruct x; try exact HR; try exact I.
  - (* EStatus *) destruct HR as (e & He & [Hf|[Hx _]]); [|discriminate].
    apply in_taken in He. destruct (final_of_status _ _ Hf) as (H1 & H2 & H3 & H4). exists e. repeat split; assumption.
  - (* EMalformed *) destruct HR as (e & He & [Hf|[Hx _]]); [|discriminate].
    unfold final_of in Hf. destruct (erst e); [discriminate|]. destruct (etrl e); [|discriminate].
    destruct (estatus e) as [st|]; [destruct (Client.st_code st =? 0)|]; discriminate.
  - (* EReset *) destruct HR as (e & He & [Hf|[Hx _]]); [|discriminate].
    apply in_taken in He. exists e. split; [exact He|apply final_of_reset; exact Hf].
  - (* EBadMd *) destruct HR as (e & He & [Hf|[_ Hb]]).
    + unfold final_of in Hf. destruct (erst e); [discriminate|]. destruct (etrl e); [|discriminate].
      destruct (estatus e) as [st|]; [destruct (Client.st_code st =? 0)|]; discriminate.
    + apply in_taken in He. exists e. split; assumption.
  - (* EEof *) destruct HR as (e & He & [Hf|[Hx _]]); [|discriminate].
    apply in_taken in He. destruct (final_of_eof _ Hf) as (H1 & H2 & H3). exists e. repeat split; assumption.
Qed.

(* ---------- the client model's classification is Model/Status.v's ---------- *)
Definition abs_env (e : Client.env) : fenv Z Z Z :=
  Status.mkEnv (option_map (fun st => mkWs (Client.st_code st) (Client.st_msg st) []) (estatus e)) (ebody e)
               (match etrl e with Some _ => true | None => false end) (erst e).

Definition of_outcome (e : Client.env) (o : option (soutcome Z Z)) : option cerr :=
  match o with
  | None => None
  | Some SEof => Some EEof
  | Some (SErr st) => if erst e then Some EReset else Some (EStatus (Client.mkSt (Status.st_code st) (Status.st_msg st)))
  end.

Theorem final_of_is_status_model (m_reset : Z) (e : Client.env) :
  (forall st, estatus e = Some st -> 0 <= Client.st_code st < two31) ->
  final_of e = of_outcome e (client_stream_final m_reset (abs_env e)).
Proof.
  intro Hr. unfold final_of, client_stream_final, abs_env, of_outcome. cbn [e_reset e_trailer e_status].
  destruct (erst e) eqn:Er; [reflexivity|].
  destruct (etrl e); cbn [negb]; [|reflexivity].
  destruct (estatus e) as [st|] eqn:Es; cbn [option_map ws_code]; [|reflexivity].
  destruct (Client.st_code st =? 0) eqn:Ez; [reflexivity|].
  cbn [of_wire Status.st_code Status.st_msg ws_code ws_msg].
  specialize (Hr st eq_refl). unfold of_i32. destruct (Client.st_code st <? 0) eqn:En; [apply Z.ltb_lt in En; lia|].
  destruct st; reflexivity.
Qed.

(* ---------- server, every run ---------- *)
Lemma sstatus_nil_iff e : Client.st_code (sstatus e) = 0 <-> e = HNil.
Proof.
  split; [apply sstatus_ok|]. intros ->. reflexivity.
Qed.

Theorem server_trailer_status nw ls s h fr :
  Server.lrun (init_n nw) ls = Some s -> In (SvTrailer h fr) (Server.log s) ->
  In (SvRet h) (Server.log s) /\
  exists k e, fr = trl_frame k e /\
              estatus (f_env fr) = Some (sstatus e) /\ etrl (f_env fr) <> None /\ erst (f_env fr) = false /\ ebody (f_env fr) = None /\
              (Client.st_code (sstatus e) = 0 <-> e = HNil).
Proof.
  intros H Hin. destruct (TR_reach _ _ _ H _ _ Hin) as (Hret & k & e & ->).
  split; [exact Hret|]. exists k, e. split; [reflexivity|].
  unfold trl_frame, resp. cbn. repeat split; try discriminate; apply sstatus_nil_iff.
Qed.

(* ---------- the system, every run ---------- *)
(* never a false success on a stream, whatever the interleaving: if RecvMsg reported
   io.EOF, the handler serving the stream returned nil, SendTrailer built the OK
   trailer from that return, and that trailer is the envelope the caller took *)
Theorem sys_eof_only_if_handler_nil pol ls s c k :
  Sys.lrun pol Sys.init ls = Some s ->
  nth_error (calls (cl s)) c = Some k -> k_unary k = false ->
  In (EvRecvRet c (RErr EEof)) (Client.log (cl s)) ->
  exists h kh k2, nth_error (hs (sv s)) h = Some kh /\ fid (h_req kh) = k_id k /\
                  In (SvRet h) (Server.log (sv s)) /\
                  In (SvTrailer h (trl_frame k2 HNil)) (Server.log (sv s)) /\
                  In (EvTake c (f_env (trl_frame k2 HNil))) (Client.log (cl s)).
Proof.
  intros H Hn Hu Hret.
  destruct (C02_caller_eof_sound _ _ _ _ _ H Hn Hu Hret) as (h & kh & fr & Hkh & _ & Hid & Hr & Ht & (k2 & ->) & Htake).
  exists h, kh, k2. repeat split; assumption.
Qed.

(* ---------- the wire: what a call takes is what the server wrote for its id ---------- *)
Theorem wire_carries_status pol ls s c e :
  Sys.lrun pol Sys.init ls = Some s -> In (EvTake c e) (Client.log (cl s)) ->
  (exists k, nth_error (calls (cl s)) c = Some k /\ k_id k = eid e) /\
  exists fr, In (SvWrite fr) (Server.log (sv s)) /\ f_env fr = e /\ fid fr = eid e.
Proof.
  intros H Htake.
  pose proof (proj_c_run _ _ _ _ H) as Hc.
  destruct (C05_take_l _ _ Hc _ _ Htake) as (Hread & k & Hk & Hid & _).
  split; [exists k; split; assumption|].
  destruct (client_read_was_written _ _ _ _ _ H Hread) as (fr & Hw & Hfe).
  exists fr. split; [exact Hw|]. split; [exact Hfe|]. unfold fid. rewrite Hfe. reflexivity.
Qed.

(* the non-OK status a stream caller observes, traced to the wire: in EVERY run of
   the system, if RecvMsg returned the status st then the call took an envelope
   with a trailer, without reset, carrying exactly st (non-OK), and that envelope
   is one the SERVER WROTE for this call's id *)
Theorem sys_status_from_server_frame pol ls s c k st :
  Sys.lrun pol Sys.init ls = Some s ->
  nth_error (calls (cl s)) c = Some k ->
  In (EvRecvRet c (RErr (EStatus st))) (Client.log (cl s)) ->
  exists fr, In (SvWrite fr) (Server.log (sv s)) /\ fid fr = k_id k /\
             In (EvTake c (f_env fr)) (Client.log (cl s)) /\
             estatus (f_env fr) = Some st /\ Client.st_code st <> 0 /\
             etrl (f_env fr) <> None /\ erst (f_env fr) = false.
Proof.
  intros H Hn Hret.
  pose proof (proj_c_run _ _ _ _ H) as Hc.
  pose proof (client_recv_error_kinds _ _ Hc c k _ Hn Hret) as Hok. cbn [recv_error_ok] in Hok.
  destruct Hok as (e & Htake & Hr & Ht & Hs & Hz).
  destruct (wire_carries_status _ _ _ _ _ H Htake) as ((k' & Hk' & Hid) & fr & Hw & Hfe & Hfid).
  rewrite Hn in Hk'. injection Hk' as <-.
  exists fr. rewrite Hfe. repeat split; try assumption. congruence.
Qed.

(* C19, WebSocket at fragment level (Model/WsFrag.v): whole or nothing. *)
From Coq Require Import List ZArith Bool Lia.
Import ListNotations.
From Goat Require Import Model.Transports Proofs.TransportsProofs Model.WsFrag.

Lemma lasts_app l m : lasts (l ++ m) = lasts l ++ lasts m.
Proof. induction l as [|e l IH]; [reflexivity|]. destruct e; cbn; rewrite ?IH; reflexivity. Qed.
Lemma freads_app l m : freads (l ++ m) = freads l ++ freads m.
Proof. induction l as [|e l IH]; [reflexivity|]. destruct e; cbn; rewrite ?IH; reflexivity. Qed.
Lemma wif_app a b : whole_in_flight (a ++ b) = whole_in_flight a ++ whole_in_flight b.
Proof. unfold whole_in_flight. rewrite filter_app, map_app. reflexivity. Qed.

Definition frag_inv {E} (s : fstate E) : Prop :=
  lasts (f_log s) = freads (f_log s) ++ whole_in_flight (f_wire s) /\
  (forall w, In w (lasts (f_log s)) -> exists x, nth_error (f_ws s) w = Some x /\ fw_st x = FDone true) /\
  NoDup (lasts (f_log s)).

(* an update of write w that does not touch a write which has returned nil keeps clause B *)
Lemma keepB {E} (ws : list (fwrite E)) w x x' (L : list nat) :
  nth_error ws w = Some x -> fw_st x <> FDone true ->
  (forall w0, In w0 L -> exists y, nth_error ws w0 = Some y /\ fw_st y = FDone true) ->
  forall w0, In w0 L -> exists y, nth_error (upd w x' ws) w0 = Some y /\ fw_st y = FDone true.
Proof.
  intros Hx Hne B w0 Hin. destruct (B w0 Hin) as (y & Hy & Hst).
  destruct (Nat.eq_dec w w0) as [->|Hd]; [congruence|]. exists y. rewrite nth_error_upd_neq by exact Hd. auto.
Qed.

Lemma f_ext_inv {E} (s : fstate E) a : frag_inv s -> frag_inv (f_ext s a).
Proof.
  intros (A & B & C). destruct a as [e n|w| |n]; cbn [f_ext].
  - split; [exact A|]. split; [|exact C]. cbn [f_ws f_log]. intros w Hin. destruct (B w Hin) as (x & Hx & Hst).
    exists x. split; [|exact Hst]. rewrite nth_error_app1; [exact Hx|]. apply nth_error_Some. congruence.
  - destruct (nth_error (f_ws s) w) as [x|] eqn:Hx; [|repeat split; assumption].
    split; [exact A|]. split; [|exact C]. cbn [f_ws f_log]. intros w0 Hin. destruct (B w0 Hin) as (y & Hy & Hst).
    unfold set_fw. destruct (Nat.eq_dec w w0) as [->|Hd].
    + rewrite Hx in Hy. inversion Hy; subst y. eexists. split; [apply nth_error_upd_eq; apply nth_error_Some; congruence|exact Hst].
    + exists y. rewrite nth_error_upd_neq by exact Hd. auto.
  - repeat split; assumption.
  - repeat split; assumption.
Qed.

Lemma f_rules_cases {E} (s : fstate E) r :
  In r (f_rules s) -> r = fr_read \/ exists w, r = fr_acquire w \/ r = fr_frag w \/ r = fr_ctx w \/ r = fr_closed w.
Proof.
  unfold f_rules. intros [<-|H]; [left; reflexivity|]. right. apply in_flat_map in H as (w & _ & H). exists w.
  cbn in H. intuition.
Qed.

Lemma f_int_inv {E} (s : fstate E) r s' : frag_inv s -> In r (f_rules s) -> r s = Some s' -> frag_inv s'.
Proof.
  intros (A & B & C) Hin Hr. apply f_rules_cases in Hin as [->|(w & [->|[->|[->| ->]]])].
  - unfold fr_read in Hr. destruct (f_rd s); [|discriminate]. destruct (f_wire s) as [|[w [|]] rest] eqn:Hw.
    + destruct (f_closed s); [|discriminate]. inversion Hr; subst; clear Hr. unfold frag_inv; cbn [f_log f_wire f_ws].
      rewrite lasts_app, freads_app. cbn. rewrite !app_nil_r. cbn in A. rewrite app_nil_r in A. repeat split; assumption.
    + inversion Hr; subst; clear Hr. unfold frag_inv; cbn [f_log f_wire f_ws]. rewrite lasts_app, freads_app. cbn. rewrite app_nil_r.
      cbn in A. split; [rewrite A, <- app_assoc; reflexivity|]. split; assumption.
    + inversion Hr; subst; clear Hr. unfold frag_inv; cbn [f_log f_wire f_ws]. cbn in A. repeat split; assumption.
  - unfold fr_acquire in Hr. destruct (nth_error (f_ws s) w) as [x|] eqn:Hx; [|discriminate].
    destruct (f_lock s); [discriminate|]. destruct (fw_st x) eqn:Hst; try discriminate. destruct (f_closed s); [discriminate|].
    inversion Hr; subst; clear Hr. unfold frag_inv; cbn [f_log f_wire f_ws]. split; [exact A|]. split; [|exact C].
    apply (keepB _ _ x _ (lasts (f_log s))); auto. congruence.
  - unfold fr_frag in Hr. destruct (nth_error (f_ws s) w) as [x|] eqn:Hx; [|discriminate].
    destruct (f_room s) as [|room]; [discriminate|]. destruct (fw_st x) eqn:Hst; try discriminate.
    destruct (fw_left x) as [|n].
    + inversion Hr; subst; clear Hr. unfold frag_inv; cbn [f_log f_wire f_ws]. rewrite lasts_app, freads_app, wif_app. cbn.
      rewrite app_nil_r. split; [rewrite A, app_assoc; reflexivity|].
      assert (Hnot : ~ In w (lasts (f_log s))).
      { intro Hin. destruct (B w Hin) as (y & Hy & Hs). rewrite Hx in Hy. inversion Hy; subst. congruence. }
      split.
      * intros w0 Hin. apply in_app_iff in Hin as [Hin|[<-|[]]].
        -- apply (keepB _ _ x _ (lasts (f_log s))); auto. congruence.
        -- eexists. split; [apply nth_error_upd_eq; apply nth_error_Some; congruence|reflexivity].
      * apply NoDup_app_snoc; assumption.
    + inversion Hr; subst; clear Hr. unfold frag_inv; cbn [f_log f_wire f_ws]. rewrite lasts_app, freads_app, wif_app. cbn.
      rewrite !app_nil_r. split; [exact A|]. split; [|exact C]. apply (keepB _ _ x _ (lasts (f_log s))); auto. congruence.
  - unfold fr_ctx in Hr. destruct (nth_error (f_ws s) w) as [x|] eqn:Hx; [|discriminate].
    destruct (fw_ctx x); [|discriminate]. destruct (fw_st x) eqn:Hst; try discriminate;
      inversion Hr; subst; clear Hr; unfold frag_inv; cbn [f_log f_wire f_ws]; rewrite lasts_app, freads_app; cbn; rewrite !app_nil_r;
      (split; [exact A|]); (split; [|exact C]); apply (keepB _ _ x _ (lasts (f_log s))); auto; congruence.
  - unfold fr_closed in Hr. destruct (nth_error (f_ws s) w) as [x|] eqn:Hx; [|discriminate].
    destruct (fw_st x) eqn:Hst; try discriminate. destruct (f_closed s); [|discriminate].
    inversion Hr; subst; clear Hr. unfold frag_inv; cbn [f_log f_wire f_ws]. rewrite lasts_app, freads_app. cbn. rewrite !app_nil_r.
    split; [exact A|]. split; [|exact C]. apply (keepB _ _ x _ (lasts (f_log s))); auto. congruence.
Qed.

Lemma nodup_prefix {A} (l m : list A) : NoDup (l ++ m) -> NoDup l.
Proof.
  induction l as [|x l IH]; intro H; [constructor|]. inversion H; subst. constructor; [|apply IH; assumption].
  intro Hin. apply H2. apply in_or_app. auto.
Qed.

Lemma frag_invariant {E} room ls (s : fstate E) : f_run room ls = Some s -> frag_inv s.
Proof.
  unfold f_run. apply lrun_inv with (P := @frag_inv E).
  - intros s0 a. apply f_ext_inv.
  - intros s0 r s1. apply f_int_inv.
  - unfold frag_inv, f_init. cbn. repeat split; [intros w []|constructor].
Qed.

(* Whole or nothing. [freads] = the Writes whose envelope a Read returned, in return order; [lasts] = the Writes that put
   the LAST fragment of their frame on the wire, in that order (= the order in which they held the connection's write
   lock = write order). Every envelope a Read returned is the frame of exactly one Write that wrote it whole (and returned
   nil), the Reads return them in write order, each once; the frame of a Write that did not finish (it is parked mid-frame,
   or gave up on its context / a closed connection mid-frame or before) is never returned. *)
Theorem ws_whole_or_nothing {E} room ls (s : fstate E) : f_run room ls = Some s ->
  (exists rest, lasts (f_log s) = freads (f_log s) ++ rest) /\
  NoDup (freads (f_log s)) /\
  (forall w, In w (freads (f_log s)) -> exists x, nth_error (f_ws s) w = Some x /\ fw_st x = FDone true) /\
  (forall w x, nth_error (f_ws s) w = Some x -> fw_st x <> FDone true -> ~ In w (freads (f_log s))).
Proof.
  intro Hrun. destruct (frag_invariant room ls s Hrun) as (A & B & C).
  assert (Hsub : forall w, In w (freads (f_log s)) -> In w (lasts (f_log s))) by (intros w H; rewrite A; apply in_or_app; auto).
  split; [eauto|]. split; [rewrite A in C; apply nodup_prefix in C; exact C|]. split.
  - intros w H. apply B, Hsub, H.
  - intros w x Hx Hne Hin. destruct (B w (Hsub w Hin)) as (y & Hy & Hst). congruence.
Qed.

(* a pending Read only ever WAITS on an empty, open wire: fragments in flight are taken as they come (a partial frame is
   consumed, never returned), and on a closed connection the Read fails (Q form, any state) *)
Theorem ws_partial_waits {E} (s : fstate E) :
  quiescent f_rules s -> f_rd s = true -> f_wire s = [] /\ f_closed s = false.
Proof.
  intros Hq Hrd. assert (H := Hq fr_read (or_introl eq_refl)). unfold fr_read in H. rewrite Hrd in H.
  destruct (f_wire s) as [|[w l] rest]; [|destruct l; discriminate]. destruct (f_closed s); [discriminate|auto].
Qed.

(* C02, direction handler -> caller, end to end.
   - the server half: with no write failure the envelopes the server wrote are a prefix of the envelopes its
     writer accepted (taken from writeChan = SendMsg returned nil / the handler returned), and the envelopes of one
     stream id follow the stream automaton (header?, messages, trailer, then only resets);
   - C02_prefix_h2c: the messages RecvMsg returned are a PREFIX of the messages the handler's SendMsg had accepted;
   - C02_caller_eof_after_all: a caller that is told io.EOF has been given ALL of them. *)
From Coq Require Import List ZArith Bool Lia Arith.
Import ListNotations.
From Goat Require Import Model.Client Model.Protocol Model.Server Proofs.ClientBase Proofs.ClientInv Proofs.ClientLog Proofs.ClientProps
  Proofs.ProtocolClient Proofs.ServerProofs Proofs.ServerInv Proofs.ServerTrace Proofs.ServerWriter Proofs.ServerProto
  Model.Sys Proofs.SysLog Proofs.SysProofs Proofs.SysFacts Proofs.SysFacts2 Proofs.SysC01 Proofs.SysC01b Proofs.SysC01d
  Proofs.SysC02 Proofs.SysC02b Proofs.SysC02c Proofs.SysC02e Proofs.SysC02f Proofs.SysC02g Proofs.SysC02h Proofs.SysC02i Proofs.SysC02j.
Open Scope Z_scope.

(* ---------- no fault, no refused write ---------- *)
Lemma sff_reach nw ls : forall s, Server.lrun (init_n nw) ls = Some s -> forallb lbl_ok ls = true -> sff s.
Proof.
  induction ls as [|l ls IH] using rev_ind; intros s H Hl.
  - inversion H; subst. apply sff_init.
  - rewrite forallb_app in Hl. apply andb_prop in Hl. destruct Hl as [Hl1 Hl2]. simpl in Hl2. rewrite andb_true_r in Hl2.
    rewrite ServerProofs.lrun_app in H. destruct (Server.lrun (init_n nw) ls) as [s0|] eqn:E0; [|discriminate].
    simpl in H. destruct (Server.lstep s0 l) as [s1|] eqn:E1; [|discriminate]. inversion H; subst s1; clear H.
    pose proof (IH _ eq_refl Hl1) as F. destruct l as [a|n]; simpl in E1.
    + inversion E1; subst s. apply sff_ext; auto.
    + destruct (nth_error (Server.rules s0) n) as [r|] eqn:En; [|discriminate].
      apply nth_error_In in En. apply rules_cases in En. destruct En as [i ->]. eapply sff_int; eauto.
Qed.

Lemma outcomes_written l : (forall f, ~ In (SvWFail f) l) -> map snd (outcomes l) = swrites l.
Proof.
  induction l as [|x l IH]; intros Hn; simpl; auto.
  assert (IH' : map snd (outcomes l) = swrites l) by (apply IH; intros f Hin; apply (Hn f); right; exact Hin).
  destruct x; simpl; auto; try (f_equal; exact IH').
  exfalso. eapply Hn. left. reflexivity.
Qed.

Theorem srv_taken_is_written nw ls s : Server.lrun (init_n nw) ls = Some s -> forallb lbl_ok ls = true ->
  tk (Server.log s) = swrites (Server.log s) ++ inflight s.
Proof.
  intros H Hl. rewrite tk_taken, (srv_taken_written _ _ _ H). f_equal. apply outcomes_written.
  intros f Hin. pose proof (srv_wfail_cancels _ _ _ H _ Hin) as X.
  destruct (sff_fields _ (sff_reach _ _ _ H Hl)) as (_ & _ & _ & _ & _ & _ & _ & Y & _). congruence.
Qed.

(* ---------- the caller respects the server's per-stream expectations ---------- *)
Lemma sent_src pol ls : forall s, Sys.lrun pol Sys.init ls = Some s -> forall f, In f (sent_c2s s) -> f_src f = cli_name.
Proof.
  induction ls as [|l ls IH] using rev_ind; intros s H f Hin.
  - inversion H; subst. destruct Hin.
  - destruct (sys_lrun_snoc _ _ _ _ _ H) as (s1 & H1 & Hl). pose proof (IH _ H1) as HP.
    destruct l as [x|x| |]; simpl in Hl.
    + destruct (client_label_ok x); [|discriminate]. destruct (Client.lstep (cl s1) x) as [c'|]; [|discriminate].
      inversion Hl; subst s; clear Hl. simpl in Hin. apply in_app_or in Hin. destruct Hin as [Hin|Hin]; [apply HP; exact Hin|].
      apply in_map_iff in Hin. destruct Hin as (e & <- & _). reflexivity.
    + destruct (server_label_ok x && pol_ok pol (sv s1) x); [|discriminate]. destruct (Server.lstep (sv s1) x); [|discriminate].
      inversion Hl; subst s; clear Hl. apply HP; exact Hin.
    + destruct (c2s s1); [discriminate|]. inversion Hl; subst s; clear Hl. apply HP; exact Hin.
    + destruct (s2c s1); [discriminate|]. inversion Hl; subst s; clear Hl. apply HP; exact Hin.
Qed.

Lemma filter_split_tl {A} (g : A -> bool) pre x post :
  g x = true -> (exists y, In y pre /\ g y = true) -> In x (tl (filter g (pre ++ x :: post))).
Proof.
  intros Hx (y & Hy & Hg). rewrite filter_app. simpl. rewrite Hx.
  destruct (filter g pre) as [|z r] eqn:E.
  - assert (X : In y (filter g pre)) by (apply filter_In; auto). rewrite E in X. destruct X.
  - simpl. apply in_or_app. right. left. reflexivity.
Qed.

Theorem sys_sconf pol ls s c k :
  Sys.lrun pol Sys.init ls = Some s -> nth_error (calls (cl s)) c = Some k -> k_unary k = false -> 0 < k_id k ->
  sconf (k_id k) (sreads (Server.log (sv s))).
Proof.
  intros H Hn Hu Hpos.
  pose proof (proj_c_run _ _ _ _ H) as Hc.
  pose proof (sys_reads_prefix _ _ _ H) as Hp.
  destruct (all_inv_reach _ _ Hc) as (_ & HS & _).
  assert (Hown : forall g, In g (sreads (Server.log (sv s))) -> fid g = k_id k ->
                           In g (sent_c2s s) /\ f_mth g = MStream 0 /\ f_dst g = srv_name /\ f_src g = cli_name).
  { intros g Hin Hid. assert (Hs : In g (sent_c2s s)) by (destruct Hp as [r ->]; apply in_or_app; auto).
    destruct (sent_ok_init _ _ _ H _ Hs) as (c1 & k1 & Hk1 & Hid1 & Hpos1 & Hm1 & Hd1).
    assert (c1 = c).
    { destruct (Nat.eq_dec c1 c); auto. exfalso. eapply (si_id_uniq _ HS c1 c k1 k); eauto. lia. congruence. }
    subst c1. rewrite Hn in Hk1. inversion Hk1; subst k1. unfold kind_of in Hm1. rewrite Hu in Hm1.
    repeat split; auto. eapply sent_src; eauto. }
  split; [|split].
  - intros g Hin Hid. destruct (Hown _ Hin Hid) as (_ & Hm & Hd & _). unfold dispatch. rewrite Hm, Hd.
    destruct (ehdr (f_env g)); [rewrite Z.eqb_refl|]; discriminate.
  - intros pre g post E Hid (g0 & Hg0 & Hid0).
    assert (X : In g (tl (idreads (k_id k) (Server.log (sv s))))).
    { unfold idreads. rewrite E. apply filter_split_tl; [apply Z.eqb_eq; exact Hid|]. exists g0. split; auto. apply Z.eqb_eq; exact Hid0. }
    assert (Y : In (f_env g) (tl (by_id (k_id k) (cwrites (Client.log (cl s)))))).
    { apply (in_tl_map f_env) in X. rewrite map_env_idreads in X.
      eapply in_tl_prefix; [exact X|]. eapply wire_c2s_prefix_id; eauto. }
    pose proof (OPN_reach _ _ Hc _ _ Y) as Ho. unfold eopener in Ho. unfold hdr_only, has_body, has_trl, Server.is_rst.
    destruct (ebody (f_env g)); [reflexivity|]. destruct (etrl (f_env g)); [reflexivity|]. simpl. rewrite Ho. reflexivity.
  - intros g1 g2 H1 H2 I1 I2. destruct (Hown _ H1 I1) as (_ & A1 & B1 & C1). destruct (Hown _ H2 I2) as (_ & A2 & B2 & C2).
    repeat split; congruence.
Qed.

(* ---------- after the trailer, only resets ---------- *)
Lemma step_trl st t st1 : s2c_step st t = Some st1 -> has (p_trl t) = true -> p_rst t = false -> st1 = SSClosed.
Proof.
  intros H Ht Hr.
  assert (A : is_open t = false) by (unfold is_open; rewrite Ht; destruct (has (p_hdr t)), (has (p_body t)); reflexivity).
  assert (B : is_body t = false) by (unfold is_body; rewrite Ht; destruct (has (p_hdr t)), (has (p_body t)); reflexivity).
  assert (C : Protocol.is_rst t = false) by (unfold Protocol.is_rst; rewrite Hr; destruct (has (p_hdr t)); reflexivity).
  destruct st; simpl in H; rewrite ?A, ?B, ?C in H; simpl in H.
  - destruct (is_trailer t); inversion H; reflexivity.
  - destruct (negb (md_of t =? 0)); [discriminate|]. destruct (is_trailer t); inversion H; reflexivity.
  - discriminate.
  - discriminate.
Qed.

Lemma s2c_end_app st a b st' : s2c_end st (a ++ b) = Some st' -> exists st1, s2c_end st a = Some st1 /\ s2c_end st1 b = Some st'.
Proof.
  revert st. induction a as [|x a IH]; simpl; intros st H; [eauto|].
  destruct (s2c_step st x); [|discriminate]. apply IH. exact H.
Qed.

Lemma after_trailer_rst st pre t post st' :
  s2c_end st (pre ++ t :: post) = Some st' -> has (p_trl t) = true -> p_rst t = false ->
  forall x, In x post -> Protocol.is_rst x = true.
Proof.
  intros H Ht Hr. apply s2c_end_app in H. destruct H as (st1 & _ & H). simpl in H.
  destruct (s2c_step st1 t) as [st2|] eqn:E; [|discriminate].
  rewrite (step_trl _ _ _ E Ht Hr) in H. eapply (after_rst_only_rst SSClosed); [left; reflexivity | exact H].
Qed.

Lemma tb_rst f : Protocol.is_rst (pf f) = true -> tb (f_env f) = [].
Proof.
  unfold Protocol.is_rst, pf. simpl. intros H. unfold tb, final_of.
  destruct (erst (f_env f)); [reflexivity|]. rewrite andb_false_r in H. discriminate H.
Qed.

Lemma by_id_map_env i l : by_id i (map f_env l) = map f_env (idf i l).
Proof. unfold by_id, idf. induction l as [|x l IH]; simpl; auto. unfold fid at 1. destruct (eid (f_env x) =? i); simpl; rewrite IH; reflexivity. Qed.

Lemma pb_all_nil l : (forall e, In e l -> tb e = []) -> pb l = [].
Proof. induction l as [|x l IH]; intros H; simpl; auto. rewrite (H x) by (left; reflexivity). apply IH. intros e He. apply H. right. exact He. Qed.

(* the envelopes the server's writer accepted under the id of stream call c *)
Definition accepted (i : Z) (v : Server.state) : list env := by_id i (map f_env (tk (Server.log v))).

(* ---------- C02_prefix, handler -> caller ---------- *)
Theorem C02_prefix_h2c pol ls s c k :
  Sys.lrun pol Sys.init ls = Some s -> fault_free ls = true ->
  nth_error (calls (cl s)) c = Some k -> k_unary k = false -> k_pc k = POpen ->
  is_prefix (msgs c (Client.log (cl s))) (pb (accepted (k_id k) (sv s))).
Proof.
  intros H Hff Hn Hu Hp. eapply prefix_trans; [eapply C02_caller_prefix; eauto|]. apply pb_prefix. unfold accepted.
  rewrite (srv_taken_is_written _ _ _ (proj_s_run _ _ _ _ H) (proj_s_lbl_ok _ _ _ Hff)).
  rewrite map_app, by_id_app. eexists. reflexivity.
Qed.

(* ---------- C02_caller_eof_after_all ---------- *)
Lemma map_split {A B} (g : A -> B) l a y b : map g l = a ++ y :: b -> exists la x lb, l = la ++ x :: lb /\ map g la = a /\ g x = y /\ map g lb = b.
Proof.
  revert a. induction l as [|z l IH]; intros a E; [destruct a; discriminate|].
  destruct a as [|a0 a]; simpl in E; inversion E; subst.
  - exists [], z, l. auto.
  - destruct (IH _ H1) as (la & x & lb & -> & <- & <- & <-). exists (z :: la), x, lb. auto.
Qed.

Lemma eof_taken_after_all pol ls s c k e :
  Sys.lrun pol Sys.init ls = Some s -> fault_free ls = true ->
  nth_error (calls (cl s)) c = Some k -> k_unary k = false -> k_pc k = POpen ->
  In e (ctakes c (Client.log (cl s))) -> final_of e = Some EEof ->
  msgs c (Client.log (cl s)) = pb (accepted (k_id k) (sv s)).
Proof.
  intros H Hff Hn Hu Hp Hin Hfin.
  pose proof (proj_c_run _ _ _ _ H) as Hc. pose proof (proj_s_run _ _ _ _ H) as Hs.
  destruct (RE_sys _ _ _ H _ _ Hn Hu) as (_ & R2 & _).
  destruct (R2 (ex_intro _ e (conj Hin Hfin))) as (_ & <-).
  (* the takes are a prefix of what the writer accepted *)
  assert (P : is_prefix (ctakes c (Client.log (cl s))) (accepted (k_id k) (sv s))).
  { eapply prefix_trans; [eapply cl_takes_prefix; eauto|]. unfold accepted.
    rewrite (srv_taken_is_written _ _ _ Hs (proj_s_lbl_ok _ _ _ Hff)), map_app, by_id_app. eexists. reflexivity. }
  destruct P as [R P]. apply in_split in Hin. destruct Hin as (P1 & P2 & ET). rewrite ET in *.
  unfold accepted in *. rewrite by_id_map_env in P. rewrite <- app_assoc in P. simpl in P.
  destruct (map_split _ _ _ _ _ P) as (F1 & f & F2 & EF & M1 & Mf & M2).
  (* the shape of the accepted envelopes of this id *)
  assert (Hpos : 0 < k_id k) by (apply open_pos; [eapply cinv_call; [apply (all_inv_reach _ _ Hc) | eauto] | exact Hp]).
  pose proof (sys_sconf _ _ _ _ _ H Hn Hu Hpos) as SC.
  destruct (pv_shape _ _ (pinv_reach _ (k_id k) _ _ Hs) SC) as (st & Est & _).
  rewrite EF, map_app in Est. simpl in Est.
  assert (Ht : has (p_trl (pf f)) = true /\ p_rst (pf f) = false).
  { unfold pf. simpl. rewrite Mf. unfold final_of in Hfin. destruct (erst e); [discriminate|]. destruct (etrl e) as [[|]|]; try discriminate; auto. }
  pose proof (after_trailer_rst _ _ _ _ _ Est (proj1 Ht) (proj2 Ht)) as Hr.
  assert (Z : pb (P2 ++ R) = []).
  { rewrite <- M2. apply pb_all_nil. intros x Hx. apply in_map_iff in Hx. destruct Hx as (g & <- & Hg).
    apply tb_rst. apply Hr. apply in_map. exact Hg. }
  rewrite by_id_map_env, EF, map_app. simpl. rewrite M1, Mf, M2.
  rewrite !pb_app. f_equal.
  change (pb (e :: P2)) with (tb e ++ pb P2). change (pb (e :: P2 ++ R)) with (tb e ++ pb (P2 ++ R)).
  rewrite Z. rewrite pb_app in Z. apply app_eq_nil in Z. destruct Z as (Z1 & _). rewrite Z1. reflexivity.
Qed.

Theorem C02_caller_eof_after_all pol ls s c k :
  Sys.lrun pol Sys.init ls = Some s -> fault_free ls = true ->
  nth_error (calls (cl s)) c = Some k -> k_unary k = false -> k_pc k = POpen ->
  In (EvRecvRet c (RErr EEof)) (Client.log (cl s)) ->
  msgs c (Client.log (cl s)) = pb (accepted (k_id k) (sv s)).
Proof.
  intros H Hff Hn Hu Hp Hret.
  destruct (ce_ret _ (CE_reach _ _ (proj_c_run _ _ _ _ H)) _ Hret) as (e & Hin & Hfin). apply in_ctakes in Hin.
  eapply eof_taken_after_all; eauto.
Qed.

(* ---------- the link between the arguments of the API calls and the envelopes ---------- *)
(* handler side: SendMsg(b) offers msg_frame k b to the writer; it returns nil exactly when the writer takes that frame *)
Lemma C02_link_hsend s h k b : h_unary k = false ->
  hstep s h k (HSend b) = set_h s h (hset_pc (hset_md k true (h_hdr k) (h_trl k)) (HInSend (msg_frame k b) KMsg)).
Proof. intros Hu. unfold hstep. rewrite Hu. reflexivity. Qed.

Lemma C02_link_haccept s h k f s' : nth_error (hs s) h = Some k -> h_pc k = HInSend f KMsg -> r_h_send h s = Some s' ->
  Server.log s' = Server.log s ++ [SvTaken f; SvOp h OOk].
Proof. intros Hn Hp H. unfold r_h_send in H. rewrite Hn, Hp in H. destruct (Server.wr s); inversion H; reflexivity. Qed.

Lemma C02_link_msg_frame k b : fid (msg_frame k b) = fid (h_req k) /\ tb (f_env (msg_frame k b)) = if b <? 0 then [] else [b].
Proof. split; reflexivity. Qed.

(* caller side: SendMsg(b) queues b; it returns nil exactly when body_env id b was written *)
Lemma C02_link_send_arg s c b k : nth_error (calls s) c = Some k -> k_pc k = POpen -> s_sendq k = [] ->
  exists k', nth_error (calls (Client.ext s (ASend c b))) c = Some k' /\ s_sendq k' = [Some b] /\ k_id k' = k_id k.
Proof.
  intros Hn Hp Hq. simpl. unfold with_call. rewrite Hn, Hp, Hq.
  exists (set_ops k (s_header k) [Some b] (s_trailerq k)). split; [|split; reflexivity].
  unfold set_call. simpl. apply nth_upd_eq. eapply nth_some_lt; eauto.
Qed.

Lemma C02_link_send s c k b rest s' : nth_error (calls s) c = Some k -> s_sendq k = Some b :: rest -> r_send c s = Some s' ->
  (exists e, Client.log s' = Client.log s ++ [EvSendRet c (Some e)]) \/
  (s_done k = true /\ s_rerr k = None /\ Client.log s' = Client.log s ++ [EvSendRet c None]) \/
  Client.log s' = Client.log s ++ [EvWrite (body_env (k_id k) b); EvSendRet c None].
Proof.
  intros Hn Hq H. unfold r_send in H. rewrite Hn, Hq in H. destruct (protected_free k); [|discriminate].
  destruct (s_done k) eqn:Ed.
  - inversion H; subst s'. destruct (s_rerr k) eqn:Er; [left; eexists; reflexivity | right; left; auto].
  - destruct ((b <? 0) || sctx_done k || Client.wfail s); inversion H; subst s'; [left; eexists; reflexivity | right; right; reflexivity].
Qed.

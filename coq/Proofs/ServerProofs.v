(* Infrastructure for the proofs about Model/Server.v: case analysis over the rule
   list, the induction principle over label sequences, tactics, and the first
   invariant (no crash). *)
From Coq Require Import List ZArith Bool Lia Arith.
Import ListNotations.
From Goat Require Import Model.Client Model.Server.
Open Scope Z_scope.

(* ---------- every rule instance is one of the named rules ---------- *)
Inductive rule_id :=
| RWrWrite | RRdRead | RRdOffer | RRdOfferCtx | RRdFwdEnq | RRdFwdGone | RRdFwdCctx | RRdFwdHctx
| RRdRst | RRdRstCtx | RRdCwsDone | RRdWait | RWrExit
| RWkHand (w : nat) | RWkHandCtx (w : nat) | RWkExit (w : nat)
| RHRecv (h : nat) | RHRecvCtx (h : nat) | RHSend (h : nat) | RHSendCtx (h : nat) | RHAwait (h : nat)
| RHUnreg (h : nat) | RRdCwsPick (h : nat).

Definition rule_of (i : rule_id) : rule :=
  match i with
  | RWrWrite => r_wr_write | RRdRead => r_rd_read | RRdOffer => r_rd_offer | RRdOfferCtx => r_rd_offer_ctx
  | RRdFwdEnq => r_rd_fwd_enq | RRdFwdGone => r_rd_fwd_gone | RRdFwdCctx => r_rd_fwd_cctx
  | RRdFwdHctx => r_rd_fwd_hctx | RRdRst => r_rd_rst | RRdRstCtx => r_rd_rst_ctx
  | RRdCwsDone => r_rd_cws_done | RRdWait => r_rd_wait | RWrExit => r_wr_exit
  | RWkHand w => r_wk_hand w | RWkHandCtx w => r_wk_hand_ctx w | RWkExit w => r_wk_exit w
  | RHRecv h => r_h_recv h | RHRecvCtx h => r_h_recv_ctx h | RHSend h => r_h_send h
  | RHSendCtx h => r_h_send_ctx h | RHAwait h => r_h_await h | RHUnreg h => r_h_unreg h
  | RRdCwsPick h => r_rd_cws_pick h
  end.

Lemma rules_cases s r : In r (rules s) -> exists i, r = rule_of i.
Proof.
  unfold rules. rewrite !in_app_iff. intros [H | [H | H]].
  - simpl in H.
    repeat (destruct H as [H | H];
            [ subst r;
              first [ now exists RWrWrite | now exists RRdRead | now exists RRdOffer | now exists RRdOfferCtx
                    | now exists RRdFwdEnq | now exists RRdFwdGone | now exists RRdFwdCctx | now exists RRdFwdHctx
                    | now exists RRdRst | now exists RRdRstCtx | now exists RRdCwsDone | now exists RRdWait
                    | now exists RWrExit ] | ]).
    contradiction.
  - apply in_flat_map in H. destruct H as [w [_ H]]. simpl in H.
    destruct H as [H | [H | [H | []]]]; subst r.
    + now exists (RWkHand w).
    + now exists (RWkHandCtx w).
    + now exists (RWkExit w).
  - apply in_flat_map in H. destruct H as [h [_ H]]. simpl in H.
    destruct H as [H | [H | [H | [H | [H | [H | [H | []]]]]]]]; subst r.
    + now exists (RHRecv h).
    + now exists (RHRecvCtx h).
    + now exists (RHSend h).
    + now exists (RHSendCtx h).
    + now exists (RHAwait h).
    + now exists (RHUnreg h).
    + now exists (RRdCwsPick h).
Qed.

(* the converse for the rules without an index, and for in-range indices *)
Lemma rules_fixed s i :
  match i with
  | RWkHand _ | RWkHandCtx _ | RWkExit _ | RHRecv _ | RHRecvCtx _ | RHSend _ | RHSendCtx _ | RHAwait _
  | RHUnreg _ | RRdCwsPick _ => False
  | _ => True
  end -> In (rule_of i) (rules s).
Proof.
  intros H. unfold rules. apply in_or_app. left.
  destruct i; try contradiction; simpl; tauto.
Qed.

Lemma rules_wk s w (p : nat -> rule) :
  (w < length (wk s))%nat -> In p per_wk_rules -> In (p w) (rules s).
Proof.
  intros Hw Hp. unfold rules. apply in_or_app. right. apply in_or_app. left.
  apply in_flat_map. exists w. split; [apply in_seq; lia | exact (in_map (fun r : nat -> rule => r w) _ _ Hp)].
Qed.

Lemma rules_h s h (p : nat -> rule) :
  (h < length (hs s))%nat -> In p per_h_rules -> In (p h) (rules s).
Proof.
  intros Hh Hp. unfold rules. apply in_or_app. right. apply in_or_app. right.
  apply in_flat_map. exists h. split; [apply in_seq; lia | exact (in_map (fun r : nat -> rule => r h) _ _ Hp)].
Qed.

(* ---------- induction over label sequences ---------- *)
Lemma lrun_app s ls1 ls2 :
  lrun s (ls1 ++ ls2) = match lrun s ls1 with Some s1 => lrun s1 ls2 | None => None end.
Proof.
  revert s. induction ls1 as [|l ls1 IH]; intros s; simpl; [reflexivity|].
  destruct (lstep s l); [apply IH | reflexivity].
Qed.

Lemma lrun_inv (I : state -> Prop) :
  (forall s a, I s -> I (ext s a)) ->
  (forall s i s', I s -> rule_of i s = Some s' -> I s') ->
  forall ls s0 s, I s0 -> lrun s0 ls = Some s -> I s.
Proof.
  intros Hext Hint ls. induction ls as [|l ls IH]; intros s0 s H0 Hr; simpl in Hr.
  - now inversion Hr; subst.
  - destruct (lstep s0 l) as [s1|] eqn:Hs; [|discriminate].
    apply (IH s1); [|assumption].
    destruct l as [a|n]; simpl in Hs.
    + inversion Hs; subst. now apply Hext.
    + destruct (nth_error (rules s0) n) as [r|] eqn:Hn; [|discriminate].
      apply nth_error_In in Hn. apply rules_cases in Hn. destruct Hn as [i ->].
      eapply Hint; eassumption.
Qed.

(* a two-state version: properties of steps *)
Lemma lrun_steps (I : state -> Prop) (P : state -> state -> Prop) :
  (forall s a, I s -> I (ext s a)) ->
  (forall s i s', I s -> rule_of i s = Some s' -> I s') ->
  forall ls s0 s, I s0 -> lrun s0 ls = Some s -> I s.
Proof. intros. eapply lrun_inv; eassumption. Qed.

(* ---------- tactics ---------- *)
Ltac destr_in H :=
  repeat match type of H with
         | context [match ?x with _ => _ end] => destruct x eqn:?; try discriminate H
         end.

Ltac unf_rules H :=
  unfold r_wr_write, r_rd_read, r_rd_offer, r_rd_offer_ctx, r_rd_fwd_enq, r_rd_fwd_gone, r_rd_fwd_cctx, r_rd_fwd_hctx,
         r_rd_rst, r_rd_rst_ctx, r_rd_cws_done, r_rd_wait, r_wr_exit, r_wk_hand, r_wk_hand_ctx, r_wk_exit, r_h_recv,
         r_h_recv_ctx, r_h_send, r_h_send_ctx, r_h_await, r_h_unreg, r_rd_cws_pick in H.

Ltac inv_some H := injection H as H; subst.

Ltac unf_set :=
  unfold set_inbox, set_rd, set_wk, set_wks, set_wr, set_h, set_hs, add_log, set_crashed, cancel_conn, exit_serve, set_env in *.

Ltac sproj := unf_set; cbn [inbox inbox_failed wfail wblock srv_stop serve_ctx conn_cancel cause_write exit_cancel
                            rd wk wr hs crashed log] in *.

(* ---------- lists ---------- *)
Lemma upd_length {A} n (x : A) l : length (upd n x l) = length l.
Proof. revert n; induction l as [|a l IH]; intros [|n]; simpl; auto. Qed.

Lemma nth_upd_same {A} n (x : A) l : (n < length l)%nat -> nth_error (upd n x l) n = Some x.
Proof. revert n; induction l as [|a l IH]; intros [|n] H; simpl in *; try lia; auto. apply IH; lia. Qed.

Lemma nth_upd_other {A} n m (x : A) l : n <> m -> nth_error (upd n x l) m = nth_error l m.
Proof. revert n m; induction l as [|a l IH]; intros [|n] [|m] H; simpl; auto; try congruence. Qed.

Lemma nth_upd {A} n m (x : A) l :
  nth_error (upd n x l) m = if Nat.eqb n m then (match nth_error l m with Some _ => Some x | None => None end)
                            else nth_error l m.
Proof.
  destruct (Nat.eqb_spec n m) as [->|Hne].
  - destruct (nth_error l m) eqn:E.
    + apply nth_upd_same. apply nth_error_Some. congruence.
    + apply nth_error_None. rewrite upd_length. now apply nth_error_None.
  - now apply nth_upd_other.
Qed.

Lemma nth_error_lt {A} (l : list A) n x : nth_error l n = Some x -> (n < length l)%nat.
Proof. intros H. apply nth_error_Some. congruence. Qed.

(* ---------- invariant 1: a frame the read loop carries has a header ---------- *)
Definition inv_hdr (s : state) : Prop :=
  crashed s = false /\
  match rd s with
  | RdOffer f => dispatch f = DUnary
  | RdFwd _ f | RdRst f => dispatch f = DStream
  | _ => True
  end.

Lemma dispatch_hdr f : dispatch f <> DSkip -> has_hdr f = true.
Proof. unfold dispatch, has_hdr. destruct (ehdr (f_env f)); [reflexivity | congruence]. Qed.

Lemma stream_dispatch_rd s f :
  rd s = RdRead ->
  match rd (stream_dispatch s f) with
  | RdFwd _ g | RdRst g => g = f
  | RdRead => True
  | _ => False
  end.
Proof.
  intros E. unfold stream_dispatch.
  destruct (find_reg (fid f) (hs s) 0).
  - destruct (is_rst f); [destruct (nth_error (hs s) n)|]; sproj; try rewrite E; auto.
  - destruct (is_rst f); [rewrite E; auto|].
    destruct (has_body f); [sproj; auto|].
    destruct (has_trl f); [rewrite E; auto|].
    destruct (md_bad f); sproj; try rewrite E; auto.
Qed.

Lemma stream_dispatch_crashed s f : crashed (stream_dispatch s f) = crashed s.
Proof.
  unfold stream_dispatch.
  destruct (find_reg (fid f) (hs s) 0).
  - destruct (is_rst f); [destruct (nth_error (hs s) n)|]; sproj; auto.
  - destruct (is_rst f); auto. destruct (has_body f); auto. destruct (has_trl f); auto. destruct (md_bad f); auto.
Qed.

Lemma hstep_rd_crashed s h k o : rd (hstep s h k o) = rd s /\ crashed (hstep s h k o) = crashed s.
Proof. unfold hstep. destruct (h_unary k), o; try destruct (h_hsent k); sproj; auto. Qed.

Lemma inv_hdr_ext s a : inv_hdr s -> inv_hdr (ext s a).
Proof.
  intros [Hc Hr]. destruct a; simpl; try (split; [exact Hc | exact Hr]).
  destruct (nth_error (hs s) h) as [k|]; [|split; assumption].
  destruct (h_pc k); try (split; assumption).
  destruct (hstep_rd_crashed s h k o) as [E1 E2]. unfold inv_hdr. now rewrite E1, E2.
Qed.

Lemma inv_hdr_int s i s' : inv_hdr s -> rule_of i s = Some s' -> inv_hdr s'.
Proof.
  intros [Hc Hr] H. destruct i; simpl in H.
  all: try solve [unf_rules H; destr_in H; inv_some H; unfold inv_hdr; sproj; try rewrite Hc; split; auto].
  - (* r_rd_read *)
    unfold r_rd_read in H. destruct (rd s) eqn:Erd; try discriminate.
    destruct (inbox s) as [|f rest] eqn:Ei.
    + destr_in H; inv_some H; unfold inv_hdr; sproj; auto.
    + destruct (dispatch f) eqn:Ed; inv_some H.
      * unfold inv_hdr; sproj. rewrite Erd. auto.
      * unfold inv_hdr; sproj. auto.
      * split; [rewrite stream_dispatch_crashed; sproj; exact Hc|].
        pose proof (stream_dispatch_rd (add_log (set_inbox s rest) [SvRead f]) f Erd) as Hs.
        destruct (rd (stream_dispatch (add_log (set_inbox s rest) [SvRead f]) f)); try exact I; subst; auto;
          contradiction.
  - (* r_rd_offer *)
    unfold r_rd_offer in H. destruct (rd s) eqn:Erd; try discriminate.
    destruct (find_idle (wk s) 0); [|discriminate]. inv_some H.
    unfold start_unary. rewrite (dispatch_hdr f) by congruence. simpl negb. cbv iota.
    destruct (md_bad f); [|destruct (body_tok f <? 0)]; unfold inv_hdr; sproj; auto.
  - (* r_rd_rst *)
    unfold r_rd_rst in H. destruct (rd s) eqn:Erd; try discriminate. destruct (wr s); try discriminate.
    rewrite (dispatch_hdr f) in H by congruence. inv_some H. unfold inv_hdr; sproj; auto.
Qed.

Lemma inv_hdr_init nw : inv_hdr (init_n nw).
Proof. split; reflexivity. Qed.

Lemma inv_hdr_reach nw ls s : lrun (init_n nw) ls = Some s -> inv_hdr s.
Proof. apply lrun_inv; [apply inv_hdr_ext | apply inv_hdr_int | apply inv_hdr_init]. Qed.

(* no reachable state is crashed *)
Theorem srv_no_crash nw ls s : lrun (init_n nw) ls = Some s -> crashed s = false.
Proof. intros H. apply (inv_hdr_reach nw ls s H). Qed.

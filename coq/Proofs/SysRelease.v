(* C14 end to end: release of the SERVER's state for an RPC, over the product Model/Sys.v (client x server x two FIFO
   wires; sy's model, read only). Composition of three packages' results:
   - sy: a run of the product projects to a run of the server connection (SysC01.proj_s_run);
   - sv: on every run of Model/Server.v a stream handler whose goroutine has ended holds nothing (ServerRelease);
   - cw: at quiescence of the product, after the caller's context ended, the handler's context is cancelled (SysCancel). *)
From Coq Require Import List ZArith Bool Lia.
Import ListNotations.
From Goat Require Import Model.Client Proofs.ClientBase Proofs.ProtocolClient Proofs.ClientCancel.
From Goat Require Model.Server Model.Sys Proofs.ServerInv Proofs.ServerLive Proofs.ServerRelease.
From Goat Require Import Proofs.SysProofs Proofs.SysC01 Proofs.SysCancel.

Lemma sys_server_run pol ls s : Sys.lrun pol Sys.init ls = Some s ->
  Server.lrun Server.init (Sys.proj_s pol Sys.init ls) = Some (Sys.sv s).
Proof. intros H. exact (proj_s_run pol ls Sys.init s H). Qed.

(* in EVERY reachable state of the product: a stream handler whose goroutine has ended - however the client ended the
   RPC: trailer taken, reset, context ended, failed send - holds nothing on the server connection *)
Lemma sys_released_l pol ls s : Sys.lrun pol Sys.init ls = Some s ->
  forall h k, nth_error (Server.hs (Sys.sv s)) h = Some k -> Server.h_pc k = Server.HDead ->
    Server.h_reg k = false /\ Server.hs_alive k = false
    /\ (forall w, nth_error (Server.wk (Sys.sv s)) w <> Some (Server.WkRun h))
    /\ (forall f, Server.rd (Sys.sv s) <> Server.RdFwd h f)
    /\ (forall g, Server.find_reg (Server.fid (Server.h_req k)) (Server.hs (Sys.sv s)) 0 = Some g ->
          g <> h /\ exists kg, nth_error (Server.hs (Sys.sv s)) g = Some kg /\ Server.hs_alive kg = true).
Proof.
  intros H h k. apply sys_server_run in H.
  exact (ServerRelease.srv_released_when_ended Server.nworkers _ h k (ServerInv.inv_reach Server.nworkers _ _ H)).
Qed.

(* (Q) the gap in which D-14f lived: at quiescence of the product, with the server's read loop at its Read, after the
   caller's context ended on a stream that had no trailer (and no write fault hit the client: no_wfail - D-14f was the
   write-fault case and is outside this theorem), exactly one reset is on the wire, the context of every handler
   registered under that id is CANCELLED, and a handler under that id that has returned is gone and released *)
Lemma sys_ctx_release_Q_l pol ls s c k :
  Sys.lrun pol Sys.init ls = Some s ->
  no_wfail (Sys.proj_c pol Sys.init ls) -> api_ok (Sys.proj_c pol Sys.init ls) ->
  Sys.quiescent s = true -> Server.rd (Sys.sv s) = Server.RdRead ->
  nth_error (calls (Sys.cl s)) c = Some k -> k_pc k = POpen -> sctx_done k = true -> is_ctx_err (s_rerr k) = true ->
  l_hastrl k = false -> l_abort k = false ->
  nrst (projE (k_id k) (map Server.f_env (Sys.sent_c2s s))) = 1%nat /\
  (forall h kh, nth_error (Server.hs (Sys.sv s)) h = Some kh -> Server.h_reg kh = true ->
                Server.fid (Server.h_req kh) = k_id k -> Server.hdone (Sys.sv s) kh = true) /\
  (forall h kh, nth_error (Server.hs (Sys.sv s)) h = Some kh -> Server.fid (Server.h_req kh) = k_id k ->
                Server.h_returned kh = true -> Server.wblock (Sys.sv s) = false \/ Server.hctx_done (Sys.sv s) = true ->
                Server.h_pc kh = Server.HDead /\ Server.h_reg kh = false).
Proof.
  intros H Hw Ha Hq Hrd Hn Hp Hc He Ht Hab.
  destruct (C07_sys_quiescent_l pol ls s c k H Hw Ha Hq Hrd Hn Hp Hc He Ht Hab) as [R1 R2].
  split; [exact R1|]. split; [exact R2|].
  intros h kh Hh Hid Hret Hwb.
  pose proof (sys_server_run _ _ _ H) as HS.
  assert (Hsq : Server.quiescent (Sys.sv s) = true).
  { unfold Sys.quiescent in Hq. rewrite !andb_true_iff in Hq. tauto. }
  assert (Hd : Server.h_pc kh = Server.HDead).
  { apply (ServerRelease.srv_released_Q Server.nworkers _ h kh (ServerInv.inv_reach Server.nworkers _ _ HS) Hsq Hh Hret Hwb).
    intros g f Hg. rewrite Hrd in Hg. discriminate. }
  split; [exact Hd|].
  exact (proj1 (ServerRelease.srv_released_when_ended Server.nworkers _ h kh (ServerInv.inv_reach Server.nworkers _ _ HS) Hh Hd)).
Qed.

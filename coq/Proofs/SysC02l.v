(* C02_handler_eof, end to end, fault-free, no reset written:
   - after_all: when a handler's RecvMsg yields io.EOF, the caller has half-closed and the handler has been given,
     in order, every envelope the caller wrote on the stream before the half-close;
   - complete (Q-form): in a quiescent state with empty wires and inboxes, a handler waiting in RecvMsg has been
     given every envelope the caller wrote on the stream - so if the caller has half-closed, io.EOF was delivered. *)
From Coq Require Import List ZArith Bool Lia Arith.
Import ListNotations.
From Goat Require Import Model.Client Model.Server Proofs.ClientBase Proofs.ClientInv Proofs.ClientLog Proofs.ClientProps
  Proofs.ProtocolClient Proofs.ServerProofs Proofs.ServerInv Proofs.ServerTrace Proofs.ServerLive
  Model.Sys Proofs.SysLog Proofs.SysProofs Proofs.SysFacts Proofs.SysFacts2 Proofs.SysC01 Proofs.SysC01b Proofs.SysC01d
  Proofs.SysC02 Proofs.SysC02b Proofs.SysC02c Proofs.SysC02e Proofs.SysC02f Proofs.SysC02g Proofs.SysC02h Proofs.SysC02k.
Open Scope Z_scope.

Definition stream_writes (i : Z) (c : Client.state) : list env := tl (by_id i (cwrites (Client.log c))).

Lemma in_by_id i e l : In e (by_id i l) <-> In e l /\ eid e = i.
Proof. unfold by_id. rewrite filter_In, Z.eqb_eq. tauto. Qed.

Lemma in_tl {A} (x : A) l : In x (tl l) -> In x l.
Proof. destruct l; simpl; auto. Qed.

Theorem C02_handler_eof_after_all pol ls s h k R1 R2 :
  Sys.lrun pol Sys.init ls = Some s -> fault_free ls = true ->
  (forall e, In (EvWrite e) (Client.log (cl s)) -> eid e = fid (h_req k) -> erst e = false) ->
  nth_error (hs (sv s)) h = Some k -> h_unary k = false ->
  recv_results h (Server.log (sv s)) = R1 ++ ORecvEof :: R2 ->
  exists F1 W2, R1 = map recv_res F1 /\
                stream_writes (fid (h_req k)) (cl s) = map f_env F1 ++ close_env (fid (h_req k)) :: W2.
Proof.
  intros H Hff Hnr Hn Hu HR.
  destruct (C02_prefix_c2h _ _ _ _ _ H Hff Hnr Hn Hu) as (fs & E & [r P]).
  rewrite E in HR. destruct (map_split _ _ _ _ _ HR) as (F1 & f & F2 & -> & M1 & Mf & M2).
  rewrite map_app in P. simpl in P. rewrite <- app_assoc in P. simpl in P.
  exists F1, (map f_env F2 ++ r). split; [symmetry; exact M1|]. unfold stream_writes. rewrite P. f_equal. f_equal.
  assert (Hin : In (f_env f) (by_id (fid (h_req k)) (cwrites (Client.log (cl s))))).
  { apply in_tl. rewrite P. apply in_or_app. right. left. reflexivity. }
  apply in_by_id in Hin. destruct Hin as (Hw & Hid). apply in_cwrites in Hw.
  pose proof (WS_reach _ _ (proj_c_run _ _ _ _ H) _ Hw) as Sh. pose proof (Hnr _ Hw Hid) as Hr.
  unfold recv_res in Mf. rewrite <- Hid.
  destruct Sh as [(b & Sh) | [Sh | [Sh | Sh]]]; rewrite Sh in Mf, Hr; simpl in Mf, Hr; try discriminate; [|exact Sh].
  destruct (b <? 0); discriminate.
Qed.

Theorem C02_handler_eof_complete pol ls s h k :
  Sys.lrun pol Sys.init ls = Some s -> fault_free ls = true ->
  (forall e, In (EvWrite e) (Client.log (cl s)) -> eid e = fid (h_req k) -> erst e = false) ->
  Sys.quiescent s = true -> Server.inbox (sv s) = [] -> Client.inbox (cl s) = [] ->
  nth_error (hs (sv s)) h = Some k -> h_unary k = false -> h_pc k = HInRecv ->
  map f_env (takes h (Server.log (sv s))) = stream_writes (fid (h_req k)) (cl s) /\
  recv_results h (Server.log (sv s)) = map recv_res (takes h (Server.log (sv s))).
Proof.
  intros H Hff Hnr Q Hi1 Hi2 Hn Hu Hp.
  pose proof (proj_s_run _ _ _ _ H) as Hs.
  split; [|apply (RR_reach _ _ _ Hs)].
  pose proof (stream_PIh _ _ _ _ _ H Hff Hnr Hn Hu) as (Hce & Hd & T & HT0 & Hb & _).
  assert (Hc : h_cancel k = false) by (rewrite Hce; unfold pc_end; rewrite Hp; reflexivity).
  specialize (Hb Hc).
  unfold Sys.quiescent in Q. repeat (apply andb_prop in Q; destruct Q as [Q ?]).
  assert (Qs : Server.quiescent (sv s) = true) by assumption.
  assert (Ec2s : c2s s = []) by (destruct (c2s s); [reflexivity | discriminate]).
  assert (Es2c : s2c s = []) by (destruct (s2c s); [reflexivity | discriminate]).
  (* the queue is empty: RecvMsg would take from it *)
  assert (Eq : qpart k = []).
  { unfold qpart. destruct (h_q k) as [f|] eqn:Eq; [exfalso|reflexivity].
    assert (X : r_h_recv h (sv s) = None) by (apply q_h; [exact Qs | eapply nth_some_lt; eauto | left; reflexivity]).
    unfold r_h_recv in X. rewrite Hn, Hp, Eq in X. discriminate X. }
  (* the read loop holds nothing for it: it would queue it *)
  assert (Ef : fpart h (rd (sv s)) = []).
  { unfold fpart. destruct (rd (sv s)) as [| |h' f| | | |] eqn:Erd; try reflexivity.
    destruct (Nat.eqb_spec h' h) as [->|]; [exfalso|reflexivity].
    assert (X : rule_of RRdFwdEnq (sv s) = None) by (apply q_fixed; [exact Qs | exact I]).
    simpl in X. unfold r_rd_fwd_enq in X. rewrite Erd, Hn in X. unfold qpart in Eq. destruct (h_q k); discriminate. }
  rewrite Eq, Ef, !app_nil_r in Hb.
  destruct (wire_complete_id _ _ _ (fid (h_req k)) H Ec2s Es2c Hi1 Hi2) as (W & _).
  unfold stream_writes. rewrite <- W, <- map_env_idreads, HT0, Hb. reflexivity.
Qed.

Corollary C02_handler_eof_delivered pol ls s h k :
  Sys.lrun pol Sys.init ls = Some s -> fault_free ls = true ->
  (forall e, In (EvWrite e) (Client.log (cl s)) -> eid e = fid (h_req k) -> erst e = false) ->
  Sys.quiescent s = true -> Server.inbox (sv s) = [] -> Client.inbox (cl s) = [] ->
  nth_error (hs (sv s)) h = Some k -> h_unary k = false -> h_pc k = HInRecv ->
  In (close_env (fid (h_req k))) (stream_writes (fid (h_req k)) (cl s)) ->
  In ORecvEof (recv_results h (Server.log (sv s))).
Proof.
  intros H Hff Hnr Q Hi1 Hi2 Hn Hu Hp Hin.
  destruct (C02_handler_eof_complete _ _ _ _ _ H Hff Hnr Q Hi1 Hi2 Hn Hu Hp) as (A & B).
  rewrite B. rewrite <- A in Hin. apply in_map_iff in Hin. destruct Hin as (f & Ef & Hf).
  apply in_map_iff. exists f. split; [|exact Hf]. unfold recv_res. rewrite Ef. reflexivity.
Qed.

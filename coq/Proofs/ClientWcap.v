(* Client model: the envelopes a call can still put on the wire ([wcap]) - a potential that no internal rule and no
   delivery increases and that every write consumes. *)
From Coq Require Import List ZArith Bool Lia Arith.
Import ListNotations.
From Goat Require Import Model.Client Proofs.ClientBase Proofs.ClientTerm.
From Goat Require Model.Sys Proofs.SysLog.
Local Open Scope nat_scope.

Definition wc (k : call) : nat :=
  (match k_pc k with PCheck _ | PParked | PReg => 2 | _ => 0 end)
  + (match s_loop k with LRead | LHand _ | LExit => 1 | _ => 0 end)
  + length (s_sendq k).

Fixpoint wsum (ks : list call) : nat := match ks with [] => 0 | k :: t => wc k + wsum t end.
Definition wcap (s : state) : nat := wsum (calls s).

Lemma wsum_upd ks c k k' : nth_error ks c = Some k -> wsum (upd c k' ks) + wc k = wsum ks + wc k'.
Proof.
  revert c. induction ks; destruct c; simpl; intros H; try discriminate.
  - inversion H; subst. lia.
  - specialize (IHks _ H). lia.
Qed.

Lemma wsum_close_all ks : wsum (close_all ks) = wsum ks.
Proof. induction ks; simpl; auto. rewrite IHks. f_equal. destruct (k_reg a); auto. Qed.

(* one step of the statement: the log grows by [evs]; potential after + envelopes written <= potential before *)
Definition wstep (s s' : state) : Prop :=
  exists evs, log s' = log s ++ evs /\ wcap s' + length (Sys.cwrites evs) <= wcap s.

Lemma wstep_upd s s' c k k' evs :
  nth_error (calls s) c = Some k -> calls s' = upd c k' (calls s) -> log s' = log s ++ evs ->
  wc k' + length (Sys.cwrites evs) <= wc k -> wstep s s'.
Proof.
  intros Hn Hc Hl Hw. exists evs. split; [assumption|]. unfold wcap. rewrite Hc. pose proof (wsum_upd _ _ _ k' Hn). lia.
Qed.

Lemma wstep_same s s' evs : calls s' = calls s -> log s' = log s ++ evs -> Sys.cwrites evs = [] -> wstep s s'.
Proof. intros Hc Hl Hw. exists evs. split; [assumption|]. unfold wcap. rewrite Hc, Hw. simpl. lia. Qed.

Ltac wc_le k :=
  destruct k as [ku kp kpc kid kch kreg kctx sl sc sla srch sd sre str lre ltr lht lab srv shd ssq stq];
  unfold wc; csimpl; subst; csimpl;
  repeat match goal with |- context [if ?b then _ else _] => is_var b; destruct b; csimpl end;
  simpl; first [lia | congruence].

Ltac logeq := csimpl; first [reflexivity | symmetry; apply app_nil_r | (rewrite <- app_assoc; reflexivity)].

Ltac w_call :=
  match goal with
  | E : nth_error (calls ?s) ?c = Some ?k |- wstep ?s ?s' =>
      let cs := eval cbn [calls set_call add_log] in (calls s') in
      let k' := match cs with upd _ ?x _ => x end in
      let lg := eval cbn [log set_call add_log] in (log s') in
      let evs := match lg with _ ++ ?e => e | _ => constr:(@nil cev) end in
      apply (wstep_upd s s' c k k' evs E); [reflexivity | logeq | wc_le k]
  end.

Lemma wstep_rule s r s' : In r (rules s) -> r s = Some s' -> wstep s s'.
Proof.
  intros Hin H. apply rules_in in Hin. destruct Hin as [->|[->|(c & _ & Hin)]].
  - unfold r_rl_unblock in H. open_rule H.
    + apply (wstep_same _ _ [EvDrop c e]); csimpl; auto.
    + match goal with E0 : nth_error (calls s) ?n = Some ?k |- _ =>
        apply (wstep_upd s _ n k (set_chan k {| cbuf := Some e; cclosed := cclosed (k_chan k) |} (k_reg k)) [] E0); [reflexivity | logeq | unfold wc; csimpl; simpl; lia] end.
  - unfold r_rl_read in H. open_rule H.
    + exists []. split; [logeq|]. unfold wcap; csimpl. rewrite wsum_close_all. simpl. lia.
    + eapply wstep_same; [reflexivity | logeq | reflexivity].
    + match goal with E2 : nth_error (calls s) ?n = Some ?k |- _ =>
        apply (wstep_upd s _ n k (set_chan k {| cbuf := Some e; cclosed := false |} true) [EvRead e (Some n)] E2); [reflexivity | logeq | unfold wc; csimpl; simpl; lia] end.
    + eapply wstep_same; [reflexivity | logeq | reflexivity].
  - simpl in Hin. destruct Hin as [<-|[<-|[<-|[<-|[<-|[<-|[<-|[<-|[<-|[<-|[<-|[<-|[<-|[<-|[<-|[]]]]]]]]]]]]]]]].
    + unfold r_check in H. open_rule H; w_call.
    + unfold r_reg in H. open_rule H; w_call.
    + unfold r_wait in H. open_rule H; w_call.
    + unfold r_wait_ctx in H. open_rule H; w_call.
    + unfold r_unreg in H. open_rule H; w_call.
    + unfold r_loop_read in H. open_rule H; w_call.
    + unfold r_loop_read_ctx in H. open_rule H; w_call.
    + unfold r_loop_hand in H. open_rule H; w_call.
    + unfold r_loop_hand_ctx in H. open_rule H; w_call.
    + unfold r_loop_exit in H. open_rule H; w_call.
    + unfold r_loop_unreg in H. open_rule H; w_call.
    + unfold r_recv in H. open_rule H; w_call.
    + unfold r_header in H. open_rule H; w_call.
    + unfold r_trailer in H. open_rule H; w_call.
    + unfold r_send in H. open_rule H; w_call.
Qed.

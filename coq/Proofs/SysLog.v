(* Component lemmas the composition needs that speak of ONE component and an
   arbitrary environment: the logs are append-only, and the transport is read in
   order: (envelopes read so far) ++ (inbox) only grows at its end, by ADeliver. *)
From Coq Require Import List ZArith Bool Lia Arith.
Import ListNotations.
From Goat Require Import Model.Client Model.Server Proofs.ClientBase Proofs.ServerProofs Model.Sys.
Open Scope Z_scope.

(* ---------- client ---------- *)
Fixpoint creads (l : list cev) : list env :=
  match l with
  | [] => []
  | EvRead e _ :: t => e :: creads t
  | _ :: t => creads t
  end.

Lemma creads_app a b : creads (a ++ b) = creads a ++ creads b.
Proof. induction a as [|x a IH]; simpl; auto. destruct x; simpl; rewrite ?IH; auto. Qed.

Lemma cwrites_app a b : cwrites (a ++ b) = cwrites a ++ cwrites b.
Proof. induction a as [|x a IH]; simpl; auto. destruct x; simpl; rewrite ?IH; auto. Qed.

Definition cstep_ok (s s' : Client.state) : Prop :=
  exists evs, Client.log s' = Client.log s ++ evs /\
              creads (Client.log s') ++ Client.inbox s' = creads (Client.log s) ++ Client.inbox s.

Ltac clog_done :=
  unfold cstep_ok; csimpl;
  try match goal with E : Client.inbox _ = _ |- _ => rewrite E end;
  first [ exists []; split; [ rewrite app_nil_r; reflexivity | reflexivity ]
        | eexists; split;
          [ rewrite <- ?app_assoc; reflexivity
          | rewrite ?creads_app; simpl; rewrite <- ?app_assoc; simpl; rewrite ?app_nil_r; reflexivity ] ].

Lemma cstep_int s r s' : In r (Client.rules s) -> r s = Some s' -> cstep_ok s s'.
Proof.
  intros Hin H. apply rules_in in Hin. destruct Hin as [->|[->|(c & _ & Hin)]].
  - unfold r_rl_unblock in H. open_rule H; clog_done.
  - unfold r_rl_read in H. open_rule H; clog_done.
  - simpl in Hin.
    repeat (destruct Hin as [<-|Hin];
            [ unfold r_check, r_reg, r_wait, r_wait_ctx, r_unreg, r_loop_read, r_loop_read_ctx, r_loop_hand,
                     r_loop_hand_ctx, r_loop_exit, r_loop_unreg, r_recv, r_header, r_trailer, r_send in H;
              open_rule H; clog_done | ]).
    destruct Hin.
Qed.

Lemma with_call_log s c f : Client.log (with_call s c f) = Client.log s /\ Client.inbox (with_call s c f) = Client.inbox s.
Proof. unfold with_call. destruct (nth_error (calls s) c) as [k|]; [destruct (f k)|]; split; reflexivity. Qed.

Lemma clog_ext s a : Client.log (Client.ext s a) = Client.log s.
Proof.
  destruct a; simpl; try reflexivity; try apply with_call_log.
  destruct (nth_error (calls s) c) as [k|]; [destruct (k_pc k)|]; reflexivity.
Qed.

Lemma cinbox_ext s a : Client.inbox (Client.ext s a) = match a with Client.ADeliver e => Client.inbox s ++ [e] | _ => Client.inbox s end.
Proof.
  destruct a; simpl; try reflexivity; try apply with_call_log.
  destruct (nth_error (calls s) c) as [k|]; [destruct (k_pc k)|]; reflexivity.
Qed.

(* one step of the client that is not a delivery: the log grows at its end, and what was read plus what is
   waiting to be read is unchanged *)
Lemma cstep_nodeliver s l s' :
  Client.lstep s l = Some s' -> client_label_ok l = true -> cstep_ok s s'.
Proof.
  intros H Hok. destruct l as [a|n]; simpl in H.
  - inversion H; subst s'. exists []. rewrite app_nil_r, clog_ext, cinbox_ext. split; auto.
    destruct a; auto. discriminate.
  - destruct (nth_error (Client.rules s) n) as [r|] eqn:E; [|discriminate].
    apply nth_error_In in E. eapply cstep_int; eauto.
Qed.

Lemma cstep_deliver s e :
  Client.log (Client.ext s (Client.ADeliver e)) = Client.log s /\
  Client.inbox (Client.ext s (Client.ADeliver e)) = Client.inbox s ++ [e].
Proof. split; reflexivity. Qed.

(* ---------- server ---------- *)
Fixpoint sreads (l : list sev) : list frame :=
  match l with
  | [] => []
  | SvRead f :: t => f :: sreads t
  | _ :: t => sreads t
  end.

Lemma sreads_app a b : sreads (a ++ b) = sreads a ++ sreads b.
Proof. induction a as [|x a IH]; simpl; auto. destruct x; simpl; rewrite ?IH; auto. Qed.

Lemma swrites_app a b : swrites (a ++ b) = swrites a ++ swrites b.
Proof. induction a as [|x a IH]; simpl; auto. destruct x; simpl; rewrite ?IH; auto. Qed.

(* the log grows by events that are not reads; the inbox is untouched *)
Definition sgrow (s s' : Server.state) : Prop :=
  (exists evs, Server.log s' = Server.log s ++ evs /\ sreads evs = []) /\ Server.inbox s' = Server.inbox s.

Definition sstep_ok (s s' : Server.state) : Prop :=
  exists evs, Server.log s' = Server.log s ++ evs /\
              sreads (Server.log s') ++ Server.inbox s' = sreads (Server.log s) ++ Server.inbox s.

Lemma sgrow_ok s s' : sgrow s s' -> sstep_ok s s'.
Proof. intros [(evs & E & R) I]. exists evs. split; auto. rewrite E, sreads_app, R, app_nil_r, I. reflexivity. Qed.

Lemma sgrow_refl s : sgrow s s.
Proof. split; auto. exists []. rewrite app_nil_r. auto. Qed.

Lemma sgrow_trans a b c : sgrow a b -> sgrow b c -> sgrow a c.
Proof.
  intros [(e1 & E1 & R1) I1] [(e2 & E2 & R2) I2]. split; [|congruence].
  exists (e1 ++ e2). rewrite E2, E1, app_assoc, sreads_app, R1, R2. auto.
Qed.

Ltac sgrow_done :=
  sproj;
  first [ apply sgrow_refl
        | split; [ first [ exists []; split; [ rewrite app_nil_r; reflexivity | reflexivity ]
                         | eexists; split; [ rewrite <- ?app_assoc; reflexivity | reflexivity ] ]
                 | reflexivity ] ].

Lemma sgrow_stream_dispatch s f : sgrow s (stream_dispatch s f).
Proof.
  unfold stream_dispatch.
  destruct (find_reg (fid f) (hs s) 0) as [h|].
  - destruct (is_rst f); [destruct (nth_error (hs s) h)|]; sgrow_done.
  - destruct (is_rst f); [sgrow_done|]. destruct (has_body f); [sgrow_done|].
    destruct (has_trl f); [sgrow_done|]. destruct (md_bad f); sgrow_done.
Qed.

Lemma sgrow_start_unary s w f : sgrow s (start_unary s w f).
Proof.
  unfold start_unary. destruct (negb (has_hdr f)); [sgrow_done|]. destruct (md_bad f); [sgrow_done|].
  destruct (body_tok f <? 0); sgrow_done.
Qed.

Lemma sgrow_hstep s h k o : sgrow s (hstep s h k o).
Proof.
  unfold hstep. destruct (h_unary k); destruct o; try sgrow_done; destruct (h_hsent k); sgrow_done.
Qed.

Lemma sstep_int s i s' : rule_of i s = Some s' -> sstep_ok s s'.
Proof.
  intros H. destruct i; simpl in H.
  all: try solve [apply sgrow_ok; unf_rules H; destr_in H; inv_some H; sgrow_done].
  - (* r_rd_read *)
    unfold r_rd_read in H. destruct (rd s) eqn:Erd; try discriminate.
    destruct (Server.inbox s) as [|f rest] eqn:Ei.
    + apply sgrow_ok. destr_in H; inv_some H; sproj; split; auto; exists []; rewrite app_nil_r; auto.
    + assert (B : sstep_ok s (add_log (set_inbox s rest) [SvRead f])).
      { exists [SvRead f]. unfold add_log, set_inbox; cbn [Server.log Server.inbox]. split; auto.
        rewrite sreads_app, Ei. simpl. rewrite <- app_assoc. reflexivity. }
      destruct (dispatch f); inv_some H.
      * exact B.
      * destruct B as (evs & E & R). exists evs. unfold set_rd. cbn [Server.log Server.inbox]. auto.
      * pose proof (sgrow_stream_dispatch (add_log (set_inbox s rest) [SvRead f]) f) as G.
        apply sgrow_ok in G. destruct B as (e1 & E1 & R1). destruct G as (e2 & E2 & R2).
        exists (e1 ++ e2). rewrite E2, E1, app_assoc. split; auto.
        rewrite <- E1, <- E2, R2, R1. reflexivity.
  - (* r_rd_offer *)
    apply sgrow_ok. unfold r_rd_offer in H. destruct (rd s) eqn:Erd; try discriminate.
    destruct (find_idle (wk s) 0); [|discriminate]. inv_some H.
    eapply sgrow_trans; [|apply sgrow_start_unary]. sgrow_done.
Qed.

Lemma slog_ext s a : (forall f, a <> Server.ADeliver f) -> sgrow s (Server.ext s a).
Proof.
  intros Hn. destruct a; simpl; try sgrow_done.
  - exfalso. eapply Hn; eauto.
  - destruct (nth_error (hs s) h) as [k|]; [|apply sgrow_refl]. destruct (h_pc k); try apply sgrow_refl.
    apply sgrow_hstep.
Qed.

Lemma sstep_nodeliver s l s' :
  Server.lstep s l = Some s' -> server_label_ok l = true -> sstep_ok s s'.
Proof.
  intros H Hok. destruct l as [a|n]; simpl in H.
  - inversion H; subst s'. apply sgrow_ok, slog_ext. intros f ->. discriminate.
  - destruct (nth_error (Server.rules s) n) as [r|] eqn:E; [|discriminate].
    apply nth_error_In in E. apply rules_cases in E. destruct E as [i ->]. eapply sstep_int; eauto.
Qed.

(* ---------- client: a call keeps its kind, its payload and (once allocated) its id ---------- *)
Definition cpers (s s' : Client.state) : Prop :=
  forall c k, nth_error (calls s) c = Some k ->
    exists k', nth_error (calls s') c = Some k' /\ k_unary k' = k_unary k /\ k_payload k' = k_payload k /\
               (0 < k_id k -> k_id k' = k_id k).

Lemma cpers_refl s : cpers s s.
Proof. intros c k Hn. exists k. auto. Qed.

Lemma cpers_upd s s' c k k' :
  calls s' = upd c k' (calls s) -> nth_error (calls s) c = Some k ->
  k_unary k' = k_unary k -> k_payload k' = k_payload k -> (0 < k_id k -> k_id k' = k_id k) -> cpers s s'.
Proof.
  intros Hc Hn U P I c0 k0 Hn0. rewrite Hc. destruct (Nat.eq_dec c0 c) as [->|Hne].
  - rewrite nth_upd_eq by (eapply nth_some_lt; eauto). rewrite Hn in Hn0. inversion Hn0; subst k0. exists k'. auto.
  - rewrite nth_upd_neq by auto. exists k0. auto.
Qed.

Lemma cpers_same s s' : calls s' = calls s -> cpers s s'.
Proof. intros Hc c k Hn. rewrite Hc. exists k. auto. Qed.

Lemma cpers_close_all s s' : calls s' = close_all (calls s) -> cpers s s'.
Proof.
  intros Hc c k Hn. rewrite Hc. unfold close_all. rewrite nth_error_map, Hn. simpl.
  destruct (k_reg k); eexists; split; try reflexivity; auto.
Qed.

Lemma cpers_app s s' x : calls s' = calls s ++ [x] -> cpers s s'.
Proof.
  intros Hc c k Hn. rewrite Hc. exists k. split; auto. rewrite nth_error_app1; auto. eapply nth_some_lt; eauto.
Qed.

Ltac cpers_done :=
  csimpl;
  first [ apply cpers_same; reflexivity
        | apply cpers_close_all; reflexivity
        | match goal with E : nth_error (calls ?s) ?c = Some ?k |- cpers ?s _ =>
            eapply (cpers_upd s _ c k); [csimpl; reflexivity | exact E | csimpl; reflexivity | csimpl; reflexivity | csimpl; try (intros; reflexivity)]
          end ].

From Goat Require Import Proofs.ClientInv.

Lemma cpers_int s r s' : cinv s -> In r (Client.rules s) -> r s = Some s' -> cpers s s'.
Proof.
  intros HI Hin H. apply rules_in in Hin. destruct Hin as [->|[->|(c & _ & Hin)]].
  - unfold r_rl_unblock in H. open_rule H; cpers_done.
  - unfold r_rl_read in H. open_rule H; cpers_done.
  - simpl in Hin.
    repeat (destruct Hin as [<-|Hin];
            [ unfold r_check, r_reg, r_wait, r_wait_ctx, r_unreg, r_loop_read, r_loop_read_ctx, r_loop_hand,
                     r_loop_hand_ctx, r_loop_exit, r_loop_unreg, r_recv, r_header, r_trailer, r_send in H;
              open_rule H; try cpers_done | ]).
    all: try destruct Hin.
    all: try (match goal with |- context [if k_reg ?k then _ else _] => destruct (k_reg k) end; cpers_done).
    all: match goal with E : nth_error (calls ?s) ?c = Some ?k, P : k_pc ?k = PCheck _ |- _ =>
           intros Hpos; pose proof (ki_noid _ (cinv_call _ _ _ HI E)) as Z0; rewrite P in Z0; specialize (Z0 eq_refl); lia
         end.
Qed.

Lemma cpers_with_call s c g :
  (forall k k', g k = Some k' -> k_unary k' = k_unary k /\ k_payload k' = k_payload k /\ k_id k' = k_id k) ->
  cpers s (with_call s c g).
Proof.
  intros Hg. unfold with_call. destruct (nth_error (calls s) c) as [k|] eqn:E; [|apply cpers_refl].
  destruct (g k) as [k'|] eqn:G; [|apply cpers_refl].
  destruct (Hg _ _ G) as (U & P & I). eapply (cpers_upd s (set_call s c k') c k); [reflexivity | exact E | exact U | exact P | intros _; exact I].
Qed.

Lemma cpers_ext s a : cinv s -> cpers s (Client.ext s a).
Proof.
  intros HI. destruct a; simpl;
    try (eapply cpers_app; reflexivity);
    try (apply cpers_same; reflexivity);
    try (apply cpers_with_call; intros k k' G;
         repeat match type of G with
                | match ?x with _ => _ end = Some _ => destruct x; try discriminate G
                end; inversion G; subst; csimpl; auto).
  destruct (nth_error (calls s) c) as [k|] eqn:E; [|apply cpers_refl].
  destruct (k_pc k) eqn:P; try apply cpers_refl.
  eapply (cpers_upd _ _ c k); csimpl; try reflexivity; eauto.
  intros Hpos. pose proof (ki_noid _ (cinv_call _ _ _ HI E)) as Z0. rewrite P in Z0. specialize (Z0 eq_refl). lia.
Qed.

Lemma cpers_step s l s' : cinv s -> Client.lstep s l = Some s' -> cpers s s'.
Proof.
  intros HI H. destruct l as [a|n]; simpl in H.
  - inversion H; subst. apply cpers_ext; auto.
  - destruct (nth_error (Client.rules s) n) as [r|] eqn:E; [|discriminate].
    apply nth_error_In in E. eapply cpers_int; eauto.
Qed.

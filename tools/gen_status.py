#!/usr/bin/env python3
"""Prints the per-property status table of DESIGN.md 11.2 from lib/props, evidence/ and KNOWN_FINDINGS.txt."""
import os, sys, json, re
ROOT = os.path.dirname(os.path.dirname(os.path.abspath(__file__)))
sys.path.insert(0, os.path.join(ROOT, "lib"))
import registry
finds = {}
for l in open(os.path.join(ROOT, "KNOWN_FINDINGS.txt")):
    m = re.match(r"finding:\s+property=(\S+)\s+sig=(\S+)", l)
    if m: finds.setdefault(m.group(1), []).append(m.group(2))
print("| property | theorems in `coq/Props/<id>.v` (partial / refuted ones are named so) | rigs (Go tests) | cases quick (last run) | obligations | listed findings |")
print("|---|---|---|---|---|---|")
for pid in sorted(registry.PROPS):
    c = registry.PROPS[pid]
    ev = {}
    try: ev = json.load(open(os.path.join(ROOT, "evidence", pid + ".json")))
    except Exception: pass
    cov = ev.get("coverage", {})
    print("| %s | %s | %s | %s | %s | %s |" % (pid, ", ".join("`%s`" % t for t in c.get("theorems", [])),
          ", ".join(r["test"] for r in c["rigs"]), cov.get("evaluations", "?"), cov.get("obligations", "?"),
          ", ".join(finds.get(pid, [])) or "—"))

#!/usr/bin/env python3
"""tools/confirm_mutant.py <worktree> <mutant-dir>
Confirms a seeded change independently in the scratch worktree: (1) the patch applies, builds, and the whole
existing suite passes with it (3 runs; the known pre-existing flake TestClientResetStream is retried), (2) the
demonstration fails with the change, (3) passes without it. On success copies it to /verif/seeded/<name>/."""
import sys, os, json, subprocess, shutil, glob
wt, md = sys.argv[1], sys.argv[2]
name = os.path.basename(md.rstrip("/"))
env = dict(os.environ, GOFLAGS="-mod=mod", GOPROXY="off", GOSUMDB="off", GOTOOLCHAIN="local")
def run(cmd, **kw):
    p = subprocess.run(cmd, shell=True, cwd=wt, env=env, stdout=subprocess.PIPE, stderr=subprocess.STDOUT, text=True, errors="replace", **kw)
    return p.returncode, p.stdout
meta = json.load(open(os.path.join(md, "meta.json")))
demo = glob.glob(os.path.join(md, "zz_demo*_test.go"))[0]
demo_dir = os.path.join(wt, meta.get("demo_dir", "."))
demo_dst = os.path.join(demo_dir, os.path.basename(demo))
run("git checkout -- . && git clean -fdq -e _mut -e _out")
res = {}
try:
    rc, out = run("git apply --check %s && git apply %s" % (os.path.join(md, "patch.diff"), os.path.join(md, "patch.diff")))
    assert rc == 0, "patch does not apply: " + out
    rc, out = run("go build ./... && go vet -tags verif . ./internal/... 2>&1 | tail -3; go build -tags verif ./...")
    assert rc == 0, "build fails: " + out
    passes = 0
    for i in range(3):
        for attempt in range(4):
            rc, out = run("go test -mod=mod -vet=off -count=1 ./... 2>&1 | grep -a -v 'no test files' | grep -a -v '^{' | tail -30")
            fails = [l for l in out.splitlines() if l.startswith("--- FAIL") or l.startswith("FAIL") or "panic:" in l]
            if not fails: passes += 1; break
            if not all("TestClientResetStream" in l or l.startswith("FAIL") for l in fails): break
    res["suite_runs_passed_with_change"] = passes
    assert passes == 3, "suite fails with the change: " + out[-1500:]
    shutil.copy(demo, demo_dst)
    # normalise the writer's command: only the test selection, tags and -race are taken from it
    import re
    orig = meta["demo_run"]
    mrun = re.search(r"-run[ =]+('[^']+'|\"[^\"]+\"|\S+)", orig)
    mtags = re.search(r"-tags[ =]+(\S+)", orig)
    runcmd = "go test -mod=mod -vet=off -count=1 -timeout 300s%s%s -run %s ." % (
        " -race" if " -race" in orig else "", " -tags " + mtags.group(1) if mtags else "", mrun.group(1) if mrun else "ZZDemo")
    meta["demo_run_normalised"] = runcmd
    f = 0
    for i in range(3):
        rc, out = run("cd %s && %s 2>&1 | grep -a -v '^{' | tail -15" % (demo_dir, runcmd))
        if "FAIL" in out or "panic" in out: f += 1
        lastfail = out
    res["demo_failed_with_change"] = "%d/3" % f
    assert f == 3, "demo does not fail with the change: " + out[-800:]
    os.remove(demo_dst)
    run("git checkout -- .")
    shutil.copy(demo, demo_dst)
    ok = 0
    for i in range(3):
        rc, out = run("cd %s && %s 2>&1 | grep -a -v '^{' | tail -15" % (demo_dir, runcmd))
        if "FAIL" not in out and "panic" not in out and "ok" in out: ok += 1
    res["demo_passed_without_change"] = "%d/3" % ok
    assert ok == 3, "demo does not pass without the change: " + out[-800:]
    dst = os.path.join("/verif/seeded", name)
    os.makedirs(dst, exist_ok=True)
    shutil.copy(os.path.join(md, "patch.diff"), dst)
    shutil.copy(demo, dst)
    meta["confirmed_by_main_session"] = res
    meta["confirmed_how"] = "tools/confirm_mutant.py in scratch worktree %s at /repo HEAD %s" % (wt, subprocess.check_output(["git", "-C", "/repo", "rev-parse", "--short", "HEAD"], text=True).strip())
    meta["demo_failure_tail"] = lastfail[-600:]
    json.dump(meta, open(os.path.join(dst, "meta.json"), "w"), indent=1)
    print("CONFIRMED", name, res)
except AssertionError as e:
    print("REJECTED", name, str(e)[:1500])
finally:
    if os.path.exists(demo_dst): os.remove(demo_dst)
    run("git checkout -- . ")

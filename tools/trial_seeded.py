#!/usr/bin/env python3
"""tools/trial_seeded.py <seeded-name> [<property>...]  — runs the quick check(s) (default: the property the change
was written against) against a scratch worktree with seeded/<name>/patch.diff applied (tools/try_mutant.sh) and
records the verdict in seeded/<name>/trial.json. Env TIER=thorough for the thorough tier."""
import sys, os, re, json, subprocess, time
ROOT = os.path.dirname(os.path.dirname(os.path.abspath(__file__)))
name = sys.argv[1]
d = os.path.join(ROOT, "seeded", name)
meta = json.load(open(os.path.join(d, "meta.json")))
props = sys.argv[2:] or [meta["property"]]
tp = os.path.join(d, "trial.json")
trial = json.load(open(tp)) if os.path.exists(tp) else {}
for p in props:
    out = subprocess.run([os.path.join(ROOT, "tools", "try_mutant.sh"), os.path.join(d, "patch.diff"), p],
                         stdout=subprocess.PIPE, stderr=subprocess.STDOUT, text=True).stdout
    m = re.search(r"== %s exit=(\d+): (\d+) violation lines; (.*)" % p, out)
    log = open("/tmp/try_%s.log" % p, errors="replace").read() if os.path.exists("/tmp/try_%s.log" % p) else ""
    viol = [l for l in log.splitlines() if l.startswith("VIOLATION")]
    kind = "missed"
    if viol:
        kind = "failing-input" if any("no-failing-input-found" not in l for l in viol) else "no-failing-input-found"
    if "patch does not apply" in out: kind = "patch-does-not-apply"
    trial[p] = {"verdict": kind, "exit": int(m.group(1)) if m else None, "summary": m.group(3) if m else out[-300:],
                "tier": os.environ.get("TIER", "quick"),
                "verif_commit": subprocess.check_output(["git", "-C", ROOT, "rev-parse", "--short", "HEAD"], text=True).strip(),
                "repo_head": subprocess.check_output(["git", "-C", "/repo", "rev-parse", "--short", "HEAD"], text=True).strip()}
    print(name, p, kind, "|", trial[p]["summary"])
json.dump(trial, open(tp, "w"), indent=1)

#!/bin/sh
# usage: tools/confirm_all.sh Cxx ...  — confirms /tmp/mut/Cxx/_out/Cxx_i (copies confirmed ones to seeded/), removes the worktree
# (only when every output directory is complete: the writer may still be at work otherwise)
export GOFLAGS=-mod=mod GOPROXY=off GOSUMDB=off GOTOOLCHAIN=local
for p in "$@"; do
  incomplete=0
  for d in /tmp/mut/$p/_out/${p}_*; do
    [ -d "$d" ] || continue
    [ -f "$d/meta.json" ] && [ -f "$d/patch.diff" ] || { echo "$d is incomplete: writer still at work? skipping $p"; incomplete=1; }
  done
  [ $incomplete = 1 ] && continue
  for d in /tmp/mut/$p/_out/${p}_*; do
    [ -d "$d" ] || continue
    python3 /verif/tools/confirm_mutant.py /tmp/mut/$p "$d" 2>&1 | tail -2
  done
  mkdir -p /tmp/mut/_keep/$p && cp -r /tmp/mut/$p/_out/. /tmp/mut/_keep/$p/ 2>/dev/null
  git -C /repo worktree remove --force /tmp/mut/$p
done

#!/usr/bin/env python3
"""Prints the prompt for an independent mutant-writing agent: python3 tools/mutant_prompt.py Cxx /tmp/mut/Cxx [n]"""
import json, sys
pid, wt = sys.argv[1], sys.argv[2]
n = int(sys.argv[3]) if len(sys.argv) > 3 else 2
first = int(sys.argv[4]) if len(sys.argv) > 4 else 1     # number of the first change (later waves continue the numbering)
import glob, os
known = []
for d in sorted(glob.glob('/verif/seeded/*')):
    try: m = json.load(open(os.path.join(d, 'meta.json')))
    except Exception: continue
    known.append("- [%s] %s" % (m.get('property'), (m.get('summary') or '').replace('\n', ' ')[:260]))
p = [json.loads(l) for l in open('/verif/properties.jsonl') if json.loads(l)['id'] == pid][0]
print(f"""You are given a scratch git worktree of the Go library avos-io/goat (gRPC over any reliable transport; every gRPC call is wrapped in a protobuf Rpc envelope with stream ids, headers, trailers and resets) at {wt}. Work ONLY inside {wt} (never touch /repo or /verif, never read /verif). No network. Per shell: export GOFLAGS=-mod=mod GOPROXY=off GOSUMDB=off.

Here is a semantic property the library is supposed to satisfy:

PROPERTY {p['id']} - {p['title']}
Statement: {p['statement']}
Quantified over: {p['quantifier']['text']}
Where it lives: files {', '.join(p['anchors'].get('files', []))}; mechanisms: {'; '.join(m['name'] + ' (' + m['where'] + ')' for m in p['anchors'].get('mechanism', []))}.

YOUR TASK: write {n} DIFFERENT realistic changes to the library's non-test source (the kind of change a developer could plausibly make: a refactoring, an optimisation, a 'simplification', a tidy-up, a subtle misreading of an API) each of which BREAKS this property while (a) the code still compiles (`go build ./...` and also `go build -tags verif ./...`), (b) the existing test suite still passes: `go test -mod=mod -vet=off -count=1 ./...` three times in a row (the unchanged tree has one slightly flaky test, TestClientResetStream; ignore failures of that one test only if it also fails at a similar rate without your change). Prefer changes that need something SPECIFIC to manifest - a particular interleaving, a crash or fault at a particular point, a multi-step sequence of operations, an unusual input, or two cooperating sites that each look fine alone - NOT changes that ordinary use would expose at once. The {n} changes should break the property in different ways / at different places.

For each change i = {first}..{first+n-1} produce in {wt}/_out/{pid}_i/ :
  patch.diff  - `git diff` of the change against the worktree's HEAD (only non-test library files),
  a demonstration: a Go test file (name it zz_demo_i_test.go, package goat or goat_test or the internal package it needs, placed in _out/{pid}_i/ and saying in a comment in which directory of the repo it must be copied to run) or a small program, which FAILS with the change applied and PASSES without it (deterministically or with high probability; say which),
  meta.json   - {{"property": "{pid}", "summary": what the change is and why it looks innocent, "needs": what it needs in order to manifest, "demo_dir": repo-relative directory where the demo test goes, "demo_run": the exact command, "suite_runs_passed": n, "demo_fails_with_change": true/false, "demo_passes_without": true/false}}.
Never use `git stash` (the stash is shared between worktrees); save your diff to a file and use `git apply` / `git checkout -- .`. Verify everything yourself: apply the patch, run the suite 3 times, run the demo with and without the patch. Leave the worktree with the patches NOT applied (git checkout -- . ; demos only under _out/). Changes that were ALREADY written by others (do not repeat any of them, nor a trivial variant; yours must break the property by a different mechanism or at a different site):
{chr(10).join(known)}

Your final message: one paragraph per change (what, why it breaks the property, what it needs to manifest, what you verified).""")

#!/usr/bin/env python3
"""Regenerates /verif/MANIFEST.json from lib/registry.py (claimed checks) and properties.jsonl."""
import json, sys, os, subprocess
ROOT = os.path.dirname(os.path.dirname(os.path.abspath(__file__)))
sys.path.insert(0, os.path.join(ROOT, "lib"))
import registry
props = [json.loads(l) for l in open(os.path.join(ROOT, "properties.jsonl"))]
hooks = subprocess.check_output(["git", "-C", "/repo", "log", "--format=%h %s"], text=True).splitlines()
hook_commits = [l.split()[0] for l in hooks if l.split(" ", 1)[1].startswith("verif hooks")]
m = {
 "version": 1,
 "setup_cmd": "./setup.sh",
 "hooks": {"guard": "verif",
           "enable": "go1.26.8 test -tags verif (harness module /verif/harness; replace github.com/avos-io/goat => /repo)",
           "baseline_off_cmd": "cd /repo && go test -mod=mod -json -vet=off -count=1 -timeout 25m ./...",
           "source_commits": hook_commits, "add_only": True},
 "engines": [
  {"name": "coq-model", "path": "coq/", "serves_properties": sorted(registry.PROPS), "kind_free_text": "Gallina models + theorems (Coq 8.16.1, no axioms); observed cases evaluated against model and property predicates by vm_compute"},
  {"name": "go-harness", "path": "harness/", "serves_properties": sorted(registry.PROPS), "kind_free_text": "drives the real code (testing/synctest lock-step, scripted transports, tagged exports and yield points), prints observations as Coq terms"}],
 "checks": [], "notes": "see DESIGN.md; known findings and fix commits in KNOWN_FINDINGS.txt; seeded changes in seeded/",
 "not_applicable": []}
# the independent audit's one-line verdict per property (docs/COVERAGE.md, one-page summary) goes into level_note
import re
audit = {}
try:
    for l in open(os.path.join(ROOT, "docs", "COVERAGE.md")):
        mm = re.match(r"\|\s*(C\d\d)\s*\|\s*(.*?)\s*\|\s*$", l)
        if mm and mm.group(1) not in audit: audit[mm.group(1)] = mm.group(2)
        if l.startswith("## Reason codes"): break
except Exception: pass
for p in props:
    pid = p["id"]
    if pid in registry.PROPS:
        c = registry.PROPS[pid]
        m["checks"].append({
            "property_id": pid, "quick_cmd": "./check %s --tier quick" % pid, "thorough_cmd": "./check %s --tier thorough" % pid,
            "evidence_file": "evidence/%s.json" % pid, "replay_cmd_template": "./check %s --replay {path}" % pid, "engine": "coq-model",
            "level_claimed": {"category": "proof", "text": c["claim"], "design_ref": "DESIGN.md section 5 (%s)" % pid},
            "level_note": ("Independent audit (docs/COVERAGE.md): " + audit[pid] + " || " if pid in audit else "") + c.get("level_note", "Closed under the global context (no axioms). Trusted: Coq 8.16.1 kernel + vm_compute; the Go harness, synctest and the tagged hooks (tie, not proof); libraries and runtime modelled rather than verified: " + "; ".join(c.get("assumptions", []))),
            "technique": c.get("technique", "Rocq proof over a hand-written Gallina model + differential correspondence check (vm_compute on cases observed on the real code)")})
    else:
        m["not_applicable"].append({"property_id": pid, "reason": registry.PENDING.get(pid, "check under construction in this session: claimed in DESIGN.md, moves to checks[] when its machinery is committed")})
json.dump(m, open(os.path.join(ROOT, "MANIFEST.json"), "w"), indent=1)
print("checks:", [c["property_id"] for c in m["checks"]], "not_applicable:", len(m["not_applicable"]))

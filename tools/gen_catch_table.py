#!/usr/bin/env python3
"""Prints the markdown table of DESIGN.md 11.3 from seeded/*/meta.json and seeded/*/trial.json."""
import os, json, glob
ROOT = os.path.dirname(os.path.dirname(os.path.abspath(__file__)))
print("| seeded change | breaks | what it is (short) | verdict of the quick check(s) |")
print("|---|---|---|---|")
for d in sorted(glob.glob(os.path.join(ROOT, "seeded", "*"))):
    if not os.path.exists(os.path.join(d, "meta.json")): continue
    m = json.load(open(os.path.join(d, "meta.json")))
    t = json.load(open(os.path.join(d, "trial.json"))) if os.path.exists(os.path.join(d, "trial.json")) else {}
    v = "; ".join("%s: %s" % (p, x["verdict"]) for p, x in sorted(t.items())) or "not yet tried"
    s = (m.get("summary", "") or "").replace("|", "/").replace("\n", " ")
    print("| %s | %s | %s | %s |" % (os.path.basename(d), m.get("property"), s[:160] + ("…" if len(s) > 160 else ""), v))

module go2coq

go 1.26.8
